import NdnModel.Drv.C08
import NdnModel.DriverMain

def main : IO Unit := Ndn.driverMain Ndn.Drv.C08.handle
