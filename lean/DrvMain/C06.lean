import NdnModel.Drv.C06
import NdnModel.DriverMain

def main : IO Unit := Ndn.driverMain Ndn.Drv.C06.handle
