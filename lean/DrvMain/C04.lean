import NdnModel.Drv.C04
import NdnModel.DriverMain

def main : IO Unit := Ndn.driverMain Ndn.Drv.C04.handle
