import NdnModel.Drv.C20
import NdnModel.DriverMain

def main : IO Unit := Ndn.driverMain Ndn.Drv.C20.handle
