import NdnModel.Drv.C12
import NdnModel.DriverMain

def main : IO Unit := Ndn.driverMain Ndn.Drv.C12.handle
