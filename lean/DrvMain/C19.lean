import NdnModel.Drv.C19
import NdnModel.DriverMain

def main : IO Unit := Ndn.driverMain Ndn.Drv.C19.handle
