import NdnModel.Drv.C14
import NdnModel.DriverMain

def main : IO Unit := Ndn.driverMain Ndn.Drv.C14.handle
