import NdnModel.Drv.C17
import NdnModel.DriverMain

def main : IO Unit := Ndn.driverMain Ndn.Drv.C17.handle
