import NdnModel.Drv.C02
import NdnModel.DriverMain

def main : IO Unit := Ndn.driverMain Ndn.Drv.C02.handle
