import NdnModel.Drv.C16
import NdnModel.DriverMain

def main : IO Unit := Ndn.driverMain Ndn.Drv.C16.handle
