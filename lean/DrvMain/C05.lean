import NdnModel.Drv.C05
import NdnModel.DriverMain

def main : IO Unit := Ndn.driverMain Ndn.Drv.C05.handle
