import NdnModel.Drv.C03
import NdnModel.DriverMain

def main : IO Unit := Ndn.driverMain Ndn.Drv.C03.handle
