import NdnModel.Drv.C13
import NdnModel.DriverMain

def main : IO Unit := Ndn.driverMain Ndn.Drv.C13.handle
