import NdnModel.Drv.C15
import NdnModel.DriverMain

def main : IO Unit := Ndn.driverMain Ndn.Drv.C15.handle
