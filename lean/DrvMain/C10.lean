import NdnModel.Drv.C10
import NdnModel.DriverMain

def main : IO Unit := Ndn.driverMain Ndn.Drv.C10.handle
