import NdnModel.Drv.C07
import NdnModel.DriverMain

def main : IO Unit := Ndn.driverMain Ndn.Drv.C07.handle
