import NdnModel.Drv.C18
import NdnModel.DriverMain

def main : IO Unit := Ndn.driverMain Ndn.Drv.C18.handle
