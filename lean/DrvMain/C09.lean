import NdnModel.Drv.C09
import NdnModel.DriverMain

def main : IO Unit := Ndn.driverMain Ndn.Drv.C09.handle
