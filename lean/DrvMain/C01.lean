import NdnModel.Drv.C01
import NdnModel.DriverMain

def main : IO Unit := Ndn.driverMain Ndn.Drv.C01.handle
