import NdnModel.Drv.C11
import NdnModel.DriverMain

def main : IO Unit := Ndn.driverMain Ndn.Drv.C11.handle
