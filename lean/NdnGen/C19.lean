/- GENERATED on every run by harness/props/c19.py from src/ndn/encoding/name/Component.py (the live constants).
   Do not edit. -/
namespace Ndn.Gen.C19

/-- `Component.TYPE_SEGMENT` -/
def typeSegment : Nat := 50

/-- `Component.ALTERNATE_URI_STR['seg']` -/
def segShorthandType : Nat := 50

end Ndn.Gen.C19
