/- GENERATED on every run by harness/py2lean.py from the text of src/ndn/encoding/name/Name.py (ast; nothing is executed and no
   shape is pattern-matched: each construct is mapped to lean/NdnModel/PySem.lean).  Do not edit. -/
import NdnModel.PySem
import NdnGen.TlvVar
set_option linter.unusedVariables false
namespace Ndn.Gen.NameGen
open Ndn Ndn.Gen

/-- `def encoded_length(name: FormalName) -> int` (src/ndn/encoding/name/Name.py:152) -/
def encoded_length (name : (List Bytes)) : Except PyErr Int := do
  let length : Int := (Py.reduce (fun (x : Int) (y : Bytes) => (x + (Py.len y))) name (0 : Int))
  let size_typ : Int := (1 : Int)
  let tmp_1 ← TlvVar.get_tl_num_size length
  let size_len : Int := tmp_1
  pure ((length + size_typ) + size_len)
def encoded_length_translated : Bool := true

/-- `def encode(name: FormalName, buf: VarBinaryStr | None = None, offset: int = 0) -> VarBinaryStr` (src/ndn/encoding/name/Name.py:159); writes to `buf`: the result is paired with the final contents of that buffer / dict -/
def encode (name : (List Bytes)) (buf : (Option Bytes)) (offset : Int) : Except PyErr (Bytes × (Option Bytes)) := do
  let length : Int := (Py.reduce (fun (x : Int) (y : Bytes) => (x + (Py.len y))) name (0 : Int))
  let size_typ : Int := (1 : Int)
  let tmp_1 ← TlvVar.get_tl_num_size length
  let size_len : Int := tmp_1
  match buf with
  | none =>
    let tmp_2 ← Py.bytearrayOfSize ((length + size_typ) + size_len)
    let tmp_3 : (Option Bytes) := none
    let buf : Bytes := tmp_2
    let (tmp_4, buf) ← TlvVar.write_tl_num (7 : Int) buf offset
    let offset : Int := (offset + tmp_4)
    let (tmp_5, buf) ← TlvVar.write_tl_num length buf offset
    let offset : Int := (offset + tmp_5)
    let (buf, offset) ← Py.forEach name (buf, offset) (fun (comp : Bytes) (tmp_6 : (Bytes × Int)) => do
        let (buf, offset) : (Bytes × Int) := tmp_6
        let buf : Bytes := Py.setSlice buf offset (offset + (Py.len comp)) comp
        let offset : Int := (offset + (Py.len comp))
        pure (buf, offset))
    pure (buf, tmp_3)
  | some buf =>
    if (buf ≠ []) then
      if ((Py.len buf) < (((length + size_typ) + size_len) + offset)) then
        .error .indexError
      else
        let (tmp_7, buf) ← TlvVar.write_tl_num (7 : Int) buf offset
        let offset : Int := (offset + tmp_7)
        let (tmp_8, buf) ← TlvVar.write_tl_num length buf offset
        let offset : Int := (offset + tmp_8)
        let (buf, offset) ← Py.forEach name (buf, offset) (fun (comp : Bytes) (tmp_9 : (Bytes × Int)) => do
            let (buf, offset) : (Bytes × Int) := tmp_9
            let buf ← Py.setSliceSameSize buf offset (offset + (Py.len comp)) comp
            let offset : Int := (offset + (Py.len comp))
            pure (buf, offset))
        pure (buf, (some buf))
    else
      let tmp_10 ← Py.bytearrayOfSize ((length + size_typ) + size_len)
      let tmp_11 : (Option Bytes) := (some buf)
      let buf : Bytes := tmp_10
      let (tmp_12, buf) ← TlvVar.write_tl_num (7 : Int) buf offset
      let offset : Int := (offset + tmp_12)
      let (tmp_13, buf) ← TlvVar.write_tl_num length buf offset
      let offset : Int := (offset + tmp_13)
      let (buf, offset) ← Py.forEach name (buf, offset) (fun (comp : Bytes) (tmp_14 : (Bytes × Int)) => do
          let (buf, offset) : (Bytes × Int) := tmp_14
          let buf : Bytes := Py.setSlice buf offset (offset + (Py.len comp)) comp
          let offset : Int := (offset + (Py.len comp))
          pure (buf, offset))
      pure (buf, tmp_11)
def encode_translated : Bool := true

/-- the `while` loop of `decode` at line 193, over (offset, length, ret): the loop ends when its test is false; the first argument bounds the
    number of iterations (running out of it is `PyErr.other`, the marker for "not modelled") -/
def decode_loop_1 (buf : Bytes) : Nat → (Int × Int × (List Bytes)) → Except PyErr (Int × Int × (List Bytes))
  | 0, _ => .error .other
  | tmp_4 + 1, tmp_3 => do
    let (offset, length, ret) : (Int × Int × (List Bytes)) := tmp_3
    if (length > (0 : Int)) then
      let st : Int := offset
      let tmp_5 ← TlvVar.parse_tl_num buf offset
      let (_, size_typ_comp) : (Int × Int) := tmp_5
      let offset : Int := (offset + size_typ_comp)
      let tmp_6 ← TlvVar.parse_tl_num buf offset
      let (len_comp, size_len_comp) : (Int × Int) := tmp_6
      let offset : Int := (offset + (size_len_comp + len_comp))
      if ((offset - st) > length) then
        .error .indexError
      else
        let ret : (List Bytes) := (ret ++ [(Py.slice buf st offset)])
        let length : Int := (length - (offset - st))
        decode_loop_1 buf tmp_4 (offset, length, ret)
    else
      pure (offset, length, ret)

/-- `def decode(buf: BinaryStr, offset: int = 0) -> (list[memoryview], int)` (src/ndn/encoding/name/Name.py:178) -/
def decode (buf : Bytes) (offset : Int) : Except PyErr ((List Bytes) × Int) := do
  let buf : Bytes := buf
  let origin_offset : Int := offset
  let tmp_1 ← TlvVar.parse_tl_num buf offset
  let (typ, size_typ) : (Int × Int) := tmp_1
  let offset : Int := (offset + size_typ)
  if (typ ≠ (7 : Int)) then
    .error .valueError
  else
    let tmp_2 ← TlvVar.parse_tl_num buf offset
    let (length, size_len) : (Int × Int) := tmp_2
    let offset : Int := (offset + size_len)
    if (length > ((Py.len buf) - offset)) then
      .error .indexError
    else
      let ret : (List Bytes) := ([] : List Bytes)
      let (offset, length, ret) ← decode_loop_1 buf (Int.toNat (length + (1 : Int))) (offset, length, ret)
      pure (ret, (offset - origin_offset))
def decode_translated : Bool := true

/-- `def is_prefix(lhs: NonStrictName, rhs: NonStrictName) -> bool` (src/ndn/encoding/name/Name.py:136); DECLARED by the request: `normalize(x)` on a list of byte strings returns an equal list (the function is translated for arguments that are already lists of byte strings) -/
def is_prefix (lhs : (List Bytes)) (rhs : (List Bytes)) : Except PyErr Bool := do
  let lhs : (List Bytes) := lhs
  let rhs : (List Bytes) := rhs
  let left_len : Int := (Py.len lhs)
  pure (decide ((left_len ≤ (Py.len rhs)) ∧ (lhs = (Py.slice rhs (0 : Int) left_len))))
def is_prefix_translated : Bool := true

end Ndn.Gen.NameGen
