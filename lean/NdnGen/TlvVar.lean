/- GENERATED on every run by harness/py2lean.py from the text of src/ndn/encoding/tlv_var.py (ast; nothing is executed and no
   shape is pattern-matched: each construct is mapped to lean/NdnModel/PySem.lean).  Do not edit. -/
import NdnModel.PySem
set_option linter.unusedVariables false
namespace Ndn.Gen.TlvVar
open Ndn

/-- `def get_tl_num_size(val: int) -> int` (src/ndn/encoding/tlv_var.py:28) -/
def get_tl_num_size (val : Int) : Except PyErr Int := do
  if (val ≤ (0xFC : Int)) then
    pure (1 : Int)
  else
    if (val ≤ (0xFFFF : Int)) then
      pure (3 : Int)
    else
      if (val ≤ (0xFFFFFFFF : Int)) then
        pure (5 : Int)
      else
        pure (9 : Int)
def get_tl_num_size_translated : Bool := true

/-- `def write_tl_num(val: int, buf: VarBinaryStr, offset: int = 0) -> int` (src/ndn/encoding/tlv_var.py:45); writes to `buf`: the result is paired with the final contents of that buffer / dict -/
def write_tl_num (val : Int) (buf : Bytes) (offset : Int) : Except PyErr (Int × Bytes) := do
  if (val ≤ (0xFC : Int)) then
    let buf ← Py.packInto [1] [val] buf offset
    pure ((1 : Int), buf)
  else
    if (val ≤ (0xFFFF : Int)) then
      let buf ← Py.packInto [1, 2] [(0xFD : Int), val] buf offset
      pure ((3 : Int), buf)
    else
      if (val ≤ (0xFFFFFFFF : Int)) then
        let buf ← Py.packInto [1, 4] [(0xFE : Int), val] buf offset
        pure ((5 : Int), buf)
      else
        let buf ← Py.packInto [1, 8] [(0xFF : Int), val] buf offset
        pure ((9 : Int), buf)
def write_tl_num_translated : Bool := true

/-- `def pack_uint_bytes(val: int) -> bytes` (src/ndn/encoding/tlv_var.py:68) -/
def pack_uint_bytes (val : Int) : Except PyErr Bytes := do
  if (val ≤ (0xFF : Int)) then
    let tmp_1 ← Py.pack [1] [val]
    pure tmp_1
  else
    if (val ≤ (0xFFFF : Int)) then
      let tmp_2 ← Py.pack [2] [val]
      pure tmp_2
    else
      if (val ≤ (0xFFFFFFFF : Int)) then
        let tmp_3 ← Py.pack [4] [val]
        pure tmp_3
      else
        let tmp_4 ← Py.pack [8] [val]
        pure tmp_4
def pack_uint_bytes_translated : Bool := true

/-- `def parse_tl_num(buf: BinaryStr, offset: int = 0) -> (int, int)` (src/ndn/encoding/tlv_var.py:85) -/
def parse_tl_num (buf : Bytes) (offset : Int) : Except PyErr (Int × Int) := do
  let tmp_1 ← Py.bytesGet buf offset
  let ret : Int := tmp_1
  if (ret ≤ (0xFC : Int)) then
    pure (ret, (1 : Int))
  else
    if (ret = (0xFD : Int)) then
      let tmp_2 ← Py.unpack [2] (Py.slice buf (offset + (1 : Int)) (offset + (3 : Int)))
      pure ((tmp_2.getD 0 0), (3 : Int))
    else
      if (ret = (0xFE : Int)) then
        let tmp_3 ← Py.unpack [4] (Py.slice buf (offset + (1 : Int)) (offset + (5 : Int)))
        pure ((tmp_3.getD 0 0), (5 : Int))
      else
        let tmp_4 ← Py.unpack [8] (Py.slice buf (offset + (1 : Int)) (offset + (9 : Int)))
        pure ((tmp_4.getD 0 0), (9 : Int))
def parse_tl_num_translated : Bool := true

/-- `def parse_and_check_tl(wire: BinaryStr, expected_type: int) -> memoryview` (src/ndn/encoding/tlv_var.py:131) -/
def parse_and_check_tl (wire : Bytes) (expected_type : Int) : Except PyErr Bytes := do
  let tmp_1 ← parse_tl_num wire (0 : Int)
  let (typ, typ_len) : (Int × Int) := tmp_1
  let tmp_2 ← parse_tl_num wire typ_len
  let (size, siz_len) : (Int × Int) := tmp_2
  if (typ ≠ expected_type) then
    .error .valueError
  else
    if ((Py.len wire) ≠ ((typ_len + siz_len) + size)) then
      .error .indexError
    else
      pure (Py.slice wire (typ_len + siz_len) ((typ_len + siz_len) + size))
def parse_and_check_tl_translated : Bool := true

/-- `def shrink_length(wire: VarBinaryStr, val: int) -> VarBinaryStr` (src/ndn/encoding/tlv_var.py:151); writes to `wire`: the result is paired with the final contents of that buffer / dict -/
def shrink_length (wire : Bytes) (val : Int) : Except PyErr (Bytes × Bytes) := do
  let tmp_1 ← parse_tl_num wire (0 : Int)
  let (typ, typ_len) : (Int × Int) := tmp_1
  let tmp_2 ← parse_tl_num wire typ_len
  let (size, siz_len) : (Int × Int) := tmp_2
  let real_size : Int := (size - val)
  let (tmp_3, wire) ← write_tl_num real_size wire typ_len
  let new_siz_len : Int := tmp_3
  if (new_siz_len = siz_len) then
    pure ((Py.slice wire (0 : Int) (-val)), wire)
  else
    let diff : Int := (siz_len - new_siz_len)
    let (tmp_4, wire) ← write_tl_num typ wire diff
    let (tmp_5, wire) ← write_tl_num real_size wire (typ_len + diff)
    pure ((Py.slice wire diff (-val)), wire)
def shrink_length_translated : Bool := true

end Ndn.Gen.TlvVar
