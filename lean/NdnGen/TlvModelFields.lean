/- GENERATED on every run by harness/py2lean.py from the text of src/ndn/encoding/tlv_model.py (ast; nothing is executed and no
   shape is pattern-matched: each construct is mapped to lean/NdnModel/PySem.lean).  Do not edit. -/
import NdnModel.PySem
import NdnGen.TlvVar
set_option linter.unusedVariables false
namespace Ndn.Gen.TlvModelFields
open Ndn Ndn.Gen

/-- `UintField.encoded_length`: `def encoded_length(self, val, markers: dict) -> int` (src/ndn/encoding/tlv_model.py:336); writes to `markers`: the result is paired with the final contents of that buffer / dict -/
def UintField_encoded_length (self_type_num : Int) (self_fixed_len : (Option Int)) (self_name : String) (val : (Option Int)) (markers : Py.Dict) : Except PyErr (Int × Py.Dict) := do
  match val with
  | none =>
    pure ((0 : Int), markers)
  | some val =>
    if (val < (0 : Int)) then
      .error .typeError
    else
      let tmp_1 ← TlvVar.get_tl_num_size self_type_num
      let tl_size : Int := (tmp_1 + (1 : Int))
      match self_fixed_len with
      | none =>
        if (val ≤ (0xFF : Int)) then
          let ret : Int := (1 : Int)
          let tmp_2 ← Py.powLit 256 ret
          if (val ≥ tmp_2) then
            .error .valueError
          else
            let markers : Py.Dict := Py.dictSet markers (self_name ++ "##encoded_length") ret
            pure ((ret + tl_size), markers)
        else
          if (val ≤ (0xFFFF : Int)) then
            let ret : Int := (2 : Int)
            let tmp_3 ← Py.powLit 256 ret
            if (val ≥ tmp_3) then
              .error .valueError
            else
              let markers : Py.Dict := Py.dictSet markers (self_name ++ "##encoded_length") ret
              pure ((ret + tl_size), markers)
          else
            if (val ≤ (0xFFFFFFFF : Int)) then
              let ret : Int := (4 : Int)
              let tmp_4 ← Py.powLit 256 ret
              if (val ≥ tmp_4) then
                .error .valueError
              else
                let markers : Py.Dict := Py.dictSet markers (self_name ++ "##encoded_length") ret
                pure ((ret + tl_size), markers)
            else
              let ret : Int := (8 : Int)
              let tmp_5 ← Py.powLit 256 ret
              if (val ≥ tmp_5) then
                .error .valueError
              else
                let markers : Py.Dict := Py.dictSet markers (self_name ++ "##encoded_length") ret
                pure ((ret + tl_size), markers)
      | some self_fixed_len =>
        let ret : Int := self_fixed_len
        let tmp_6 ← Py.powLit 256 ret
        if (val ≥ tmp_6) then
          .error .valueError
        else
          let markers : Py.Dict := Py.dictSet markers (self_name ++ "##encoded_length") ret
          pure ((ret + tl_size), markers)
def UintField_encoded_length_translated : Bool := true

/-- `UintField.encode_into`: `def encode_into(self, val, markers: dict, wire: VarBinaryStr, offset: int) -> int` (src/ndn/encoding/tlv_model.py:358); writes to `wire`: the result is paired with the final contents of that buffer / dict -/
def UintField_encode_into (self_type_num : Int) (self_name : String) (val : (Option Int)) (markers : Py.Dict) (wire : Bytes) (offset : Int) : Except PyErr (Int × Bytes) := do
  match val with
  | none =>
    pure ((0 : Int), wire)
  | some val =>
    let tmp_1 ← TlvVar.get_tl_num_size self_type_num
    let tl_size : Int := (tmp_1 + (1 : Int))
    let tmp_2 ← Py.dictGet markers (self_name ++ "##encoded_length")
    let length : Int := tmp_2
    let (tmp_3, wire) ← TlvVar.write_tl_num self_type_num wire offset
    let offset : Int := (offset + tmp_3)
    if (length = (1 : Int)) then
      let wire ← Py.packInto [1, 1] [(1 : Int), val] wire offset
      pure ((length + tl_size), wire)
    else
      if (length = (2 : Int)) then
        let wire ← Py.packInto [1, 2] [(2 : Int), val] wire offset
        pure ((length + tl_size), wire)
      else
        if (length = (4 : Int)) then
          let wire ← Py.packInto [1, 4] [(4 : Int), val] wire offset
          pure ((length + tl_size), wire)
        else
          let wire ← Py.packInto [1, 8] [(8 : Int), val] wire offset
          pure ((length + tl_size), wire)
def UintField_encode_into_translated : Bool := true

/-- `UintField.parse_from`: `def parse_from(self, instance, markers: dict, wire: BinaryStr, offset: int, length: int, offset_btl: int)` (src/ndn/encoding/tlv_model.py:374) -/
def UintField_parse_from (markers : Py.Dict) (wire : Bytes) (offset : Int) (length : Int) (offset_btl : Int) : Except PyErr Int := do
  if (length = (1 : Int)) then
    let tmp_1 ← Py.unpackFrom [1] wire offset
    pure (tmp_1.getD 0 0)
  else
    if (length = (2 : Int)) then
      let tmp_2 ← Py.unpackFrom [2] wire offset
      pure (tmp_2.getD 0 0)
    else
      if (length = (4 : Int)) then
        let tmp_3 ← Py.unpackFrom [4] wire offset
        pure (tmp_3.getD 0 0)
      else
        if (length = (8 : Int)) then
          let tmp_4 ← Py.unpackFrom [8] wire offset
          pure (tmp_4.getD 0 0)
        else
          .error .valueError
def UintField_parse_from_translated : Bool := true

/-- `BoolField.encoded_length`: `def encoded_length(self, val, markers: dict) -> int` (src/ndn/encoding/tlv_model.py:400) -/
def BoolField_encoded_length (self_type_num : Int) (val : (Option Bool)) (markers : Py.Dict) : Except PyErr Int := do
  let tmp_1 ← TlvVar.get_tl_num_size self_type_num
  let tl_size : Int := (tmp_1 + (1 : Int))
  pure (if (val = some true) then tl_size else (0 : Int))
def BoolField_encoded_length_translated : Bool := true

/-- `BoolField.encode_into`: `def encode_into(self, val, markers: dict, wire: VarBinaryStr, offset: int) -> int` (src/ndn/encoding/tlv_model.py:404); writes to `wire`: the result is paired with the final contents of that buffer / dict -/
def BoolField_encode_into (self_type_num : Int) (val : (Option Bool)) (markers : Py.Dict) (wire : Bytes) (offset : Int) : Except PyErr (Int × Bytes) := do
  if (val = some true) then
    let tmp_1 ← TlvVar.get_tl_num_size self_type_num
    let tl_size : Int := (tmp_1 + (1 : Int))
    let (tmp_2, wire) ← TlvVar.write_tl_num self_type_num wire offset
    let offset : Int := (offset + tmp_2)
    let wire ← Py.setItem wire offset 0
    pure (tl_size, wire)
  else
    pure ((0 : Int), wire)
def BoolField_encode_into_translated : Bool := true

/-- `BoolField.parse_from`: `def parse_from(self, instance, markers: dict, wire: BinaryStr, offset: int, length: int, offset_btl: int)` (src/ndn/encoding/tlv_model.py:413) -/
def BoolField_parse_from (markers : Py.Dict) (wire : Bytes) (offset : Int) (length : Int) (offset_btl : Int) : Except PyErr Bool := do
  pure true
def BoolField_parse_from_translated : Bool := true

/-- `BytesField.encoded_length`: `def encoded_length(self, val, markers: dict) -> int` (src/ndn/encoding/tlv_model.py:665), translated for bytes; with self.is_string = False -/
def BytesField_encoded_length_bytes (self_type_num : Int) (val : (Option Bytes)) (markers : Py.Dict) : Except PyErr Int := do
  match val with
  | none =>
    pure (0 : Int)
  | some val =>
    let length : Int := (Py.len val)
    let tmp_1 ← TlvVar.get_tl_num_size self_type_num
    let tmp_2 ← TlvVar.get_tl_num_size length
    let tl_size : Int := (tmp_1 + tmp_2)
    pure (tl_size + length)
def BytesField_encoded_length_bytes_translated : Bool := true

/-- `BytesField.encode_into`: `def encode_into(self, val, markers: dict, wire: VarBinaryStr, offset: int) -> int` (src/ndn/encoding/tlv_model.py:673), translated for bytes; with self.is_string = False; writes to `wire`: the result is paired with the final contents of that buffer / dict -/
def BytesField_encode_into_bytes (self_type_num : Int) (val : (Option Bytes)) (markers : Py.Dict) (wire : Bytes) (offset : Int) : Except PyErr (Int × Bytes) := do
  match val with
  | none =>
    pure ((0 : Int), wire)
  | some val =>
    let origin_offset : Int := offset
    let (tmp_1, wire) ← TlvVar.write_tl_num self_type_num wire offset
    let offset : Int := (offset + tmp_1)
    let (tmp_2, wire) ← TlvVar.write_tl_num (Py.len val) wire offset
    let offset : Int := (offset + tmp_2)
    let wire ← Py.setSliceSameSize wire offset (offset + (Py.len val)) val
    let offset : Int := (offset + (Py.len val))
    pure ((offset - origin_offset), wire)
def BytesField_encode_into_bytes_translated : Bool := true

/-- `BytesField.parse_from`: `def parse_from(self, instance, markers: dict, wire: BinaryStr, offset: int, length: int, offset_btl: int)` (src/ndn/encoding/tlv_model.py:686), translated for bytes; with self.is_string = False -/
def BytesField_parse_from_bytes (markers : Py.Dict) (wire : Bytes) (offset : Int) (length : Int) (offset_btl : Int) : Except PyErr Bytes := do
  let ret : Bytes := (Py.slice wire offset (offset + length))
  pure ret
def BytesField_parse_from_bytes_translated : Bool := true

/-- `BytesField.encoded_length`: `def encoded_length(self, val, markers: dict) -> int` (src/ndn/encoding/tlv_model.py:665), translated for str; with self.is_string = True -/
def BytesField_encoded_length_str (self_type_num : Int) (val : (Option Py.Str)) (markers : Py.Dict) : Except PyErr Int := do
  match val with
  | none =>
    pure (0 : Int)
  | some val =>
    let length : Int := (Py.len (Py.strEncodeUtf8 val))
    let tmp_1 ← TlvVar.get_tl_num_size self_type_num
    let tmp_2 ← TlvVar.get_tl_num_size length
    let tl_size : Int := (tmp_1 + tmp_2)
    pure (tl_size + length)
def BytesField_encoded_length_str_translated : Bool := true

/-- `BytesField.encode_into`: `def encode_into(self, val, markers: dict, wire: VarBinaryStr, offset: int) -> int` (src/ndn/encoding/tlv_model.py:673), translated for str; with self.is_string = True; writes to `wire`: the result is paired with the final contents of that buffer / dict -/
def BytesField_encode_into_str (self_type_num : Int) (val : (Option Py.Str)) (markers : Py.Dict) (wire : Bytes) (offset : Int) : Except PyErr (Int × Bytes) := do
  match val with
  | none =>
    pure ((0 : Int), wire)
  | some val =>
    let val : Bytes := (Py.strEncodeUtf8 val)
    let origin_offset : Int := offset
    let (tmp_1, wire) ← TlvVar.write_tl_num self_type_num wire offset
    let offset : Int := (offset + tmp_1)
    let (tmp_2, wire) ← TlvVar.write_tl_num (Py.len val) wire offset
    let offset : Int := (offset + tmp_2)
    let wire ← Py.setSliceSameSize wire offset (offset + (Py.len val)) val
    let offset : Int := (offset + (Py.len val))
    pure ((offset - origin_offset), wire)
def BytesField_encode_into_str_translated : Bool := true

/-- `BytesField.parse_from`: `def parse_from(self, instance, markers: dict, wire: BinaryStr, offset: int, length: int, offset_btl: int)` (src/ndn/encoding/tlv_model.py:686), translated for str; with self.is_string = True -/
def BytesField_parse_from_str (markers : Py.Dict) (wire : Bytes) (offset : Int) (length : Int) (offset_btl : Int) : Except PyErr Py.Str := do
  let ret : Bytes := (Py.slice wire offset (offset + length))
  let tmp_1 ← Py.bytesDecodeUtf8 ret
  pure tmp_1
def BytesField_parse_from_str_translated : Bool := true

/- `NameField.encoded_length` is NOT inside the translated subset: test Call (line 607) -/
def NameField_encoded_length_translated : Bool := false

/- `NameField.encode_into` is NOT inside the translated subset: isinstance other than isinstance(x, int) / isinstance(x, str) (line 631) -/
def NameField_encode_into_translated : Bool := false

/- `NameField.parse_from` is NOT inside the translated subset: call of Name.decode (line 638) -/
def NameField_parse_from_translated : Bool := false

/- `ModelField.encoded_length` is NOT inside the translated subset: attribute self.model_type (not among the declared data attributes) (line 894) -/
def ModelField_encoded_length_translated : Bool := false

/- `ModelField.encode_into` is NOT inside the translated subset: call of val.encode (line 915) -/
def ModelField_encode_into_translated : Bool := false

/- `ModelField.parse_from` is NOT inside the translated subset: attribute self.ignore_critical (not among the declared data attributes) (line 921) -/
def ModelField_parse_from_translated : Bool := false

/- `RepeatedField.encoded_length` is NOT inside the translated subset: attribute self.element_type (not among the declared data attributes) (line 966) -/
def RepeatedField_encoded_length_translated : Bool := false

/- `RepeatedField.encode_into` is NOT inside the translated subset: attribute self.element_type (not among the declared data attributes) (line 977) -/
def RepeatedField_encode_into_translated : Bool := false

/- `RepeatedField.parse_from` is NOT inside the translated subset: attribute self.get_value (not among the declared data attributes) (line 982) -/
def RepeatedField_parse_from_translated : Bool := false

end Ndn.Gen.TlvModelFields
