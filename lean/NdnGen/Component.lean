/- GENERATED on every run by harness/py2lean.py from the text of src/ndn/encoding/name/Component.py (ast; nothing is executed and no
   shape is pattern-matched: each construct is mapped to lean/NdnModel/PySem.lean).  Do not edit. -/
import NdnModel.PySem
import NdnGen.TlvVar
set_option linter.unusedVariables false
namespace Ndn.Gen.Component
open Ndn Ndn.Gen

/-- `def get_type(component: BinaryStr) -> int` (src/ndn/encoding/name/Component.py:267) -/
def get_type (component : Bytes) : Except PyErr Int := do
  let tmp_1 ← TlvVar.parse_tl_num component (0 : Int)
  pure tmp_1.1
def get_type_translated : Bool := true

/-- `def get_value(component: BinaryStr) -> memoryview` (src/ndn/encoding/name/Component.py:277) -/
def get_value (component : Bytes) : Except PyErr Bytes := do
  let tmp_1 ← TlvVar.parse_tl_num component (0 : Int)
  let (_, size_typ) : (Int × Int) := tmp_1
  let tmp_2 ← TlvVar.parse_tl_num component size_typ
  let (_, size_len) : (Int × Int) := tmp_2
  pure (Py.sliceFrom component (size_typ + size_len))
def get_value_translated : Bool := true

/-- `def to_number(component: BinaryStr) -> int` (src/ndn/encoding/name/Component.py:356) -/
def to_number (component : Bytes) : Except PyErr Int := do
  let tmp_1 ← TlvVar.parse_tl_num component (0 : Int)
  let (_, size_typ) : (Int × Int) := tmp_1
  let tmp_2 ← TlvVar.parse_tl_num component size_typ
  let (_, size_len) : (Int × Int) := tmp_2
  pure (Py.intFromBytesBig (Py.sliceFrom component (size_typ + size_len)))
def to_number_translated : Bool := true

/-- `def from_bytes(val: BinaryStr, typ: int = TYPE_GENERIC) -> bytearray` (src/ndn/encoding/name/Component.py:82) -/
def from_bytes (val : Bytes) (typ : Int) : Except PyErr Bytes := do
  if ((typ ≤ (0 : Int)) ∨ (typ > (65535 : Int))) then
    .error .valueError
  else
    let tmp_1 ← TlvVar.get_tl_num_size typ
    let size_typ : Int := tmp_1
    let tmp_2 ← TlvVar.get_tl_num_size (Py.len val)
    let size_len : Int := tmp_2
    let tmp_3 ← Py.bytearrayOfSize ((size_typ + size_len) + (Py.len val))
    let ret : Bytes := tmp_3
    let (tmp_4, ret) ← TlvVar.write_tl_num typ ret (0 : Int)
    let (tmp_5, ret) ← TlvVar.write_tl_num (Py.len val) ret size_typ
    let ret : Bytes := Py.setSliceFrom ret (size_typ + size_len) val
    pure ret
def from_bytes_translated : Bool := true

/-- `def from_number(val: int, typ: int) -> bytearray` (src/ndn/encoding/name/Component.py:200) -/
def from_number (val : Int) (typ : Int) : Except PyErr Bytes := do
  let tmp_1 ← TlvVar.pack_uint_bytes val
  let tmp_2 ← from_bytes tmp_1 typ
  pure tmp_2
def from_number_translated : Bool := true

/-- `def from_segment(segment: int) -> bytearray` (src/ndn/encoding/name/Component.py:211) -/
def from_segment (segment : Int) : Except PyErr Bytes := do
  let tmp_1 ← from_number segment (50 : Int)
  pure tmp_1
def from_segment_translated : Bool := true

/-- `def from_byte_offset(offset: int) -> bytearray` (src/ndn/encoding/name/Component.py:221) -/
def from_byte_offset (offset : Int) : Except PyErr Bytes := do
  let tmp_1 ← from_number offset (52 : Int)
  pure tmp_1
def from_byte_offset_translated : Bool := true

/-- `def from_sequence_num(seq_num: int) -> bytearray` (src/ndn/encoding/name/Component.py:231) -/
def from_sequence_num (seq_num : Int) : Except PyErr Bytes := do
  let tmp_1 ← from_number seq_num (58 : Int)
  pure tmp_1
def from_sequence_num_translated : Bool := true

/-- `def from_version(version: int) -> bytearray` (src/ndn/encoding/name/Component.py:241) -/
def from_version (version : Int) : Except PyErr Bytes := do
  let tmp_1 ← from_number version (54 : Int)
  pure tmp_1
def from_version_translated : Bool := true

/-- `def from_timestamp(timestamp: int) -> bytearray` (src/ndn/encoding/name/Component.py:251) -/
def from_timestamp (timestamp : Int) : Except PyErr Bytes := do
  let tmp_1 ← from_number timestamp (56 : Int)
  pure tmp_1
def from_timestamp_translated : Bool := true

end Ndn.Gen.Component
