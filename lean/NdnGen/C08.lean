import NdnModel.CodecWF
import NdnModel.ClassMerge
/- GENERATED on every run by harness/props/c08.py from the live `_encoded_fields` of the model classes
   shipped with python-ndn, and (merge_*) from the class namespaces and base classes of the shipped classes that
   use inheritance / IncludeBase.  Do not edit. -/
namespace Ndn.Gen.C08
open Ndn.Codec

def ndn_format_0_3_KeyLocator : List Schema := [(.name 7), (.bytes 29 false)]
def ndn_format_0_3_SignatureInfo : List Schema := [(.uint 27 (some 1)), (.model 28 [(.name 7), (.bytes 29 false)] false), (.uint 38 none), (.uint 40 none), (.uint 42 none)]
def ndn_format_0_3_Links : List Schema := [(.repeated (.name 7))]
def ndn_format_0_3_MetaInfo : List Schema := [(.uint 24 none), (.uint 25 none), (.bytes 26 false)]
def ndnlp_v2_NetworkNack : List Schema := [(.uint 801 none)]
def ndnlp_v2_CachePolicy : List Schema := [(.uint 821 none)]
def ndnlp_v2_LpPacketValue : List Schema := [(.uint 82 none), (.uint 83 none), (.bytes 98 false), (.model 800 [(.uint 801 none)] false), (.uint 812 none), (.uint 816 none), (.model 820 [(.uint 821 none)] false), (.uint 832 none), (.bytes 840 false), (.bytes 836 false), (.bool 844), (.bytes 848 false), (.bytes 80 false)]
def ndnlp_v2_LpPacket : List Schema := [(.model 100 [(.uint 82 none), (.uint 83 none), (.bytes 98 false), (.model 800 [(.uint 801 none)] false), (.uint 812 none), (.uint 816 none), (.model 820 [(.uint 821 none)] false), (.uint 832 none), (.bytes 840 false), (.bytes 836 false), (.bool 844), (.bytes 848 false), (.bytes 80 false)] false)]
def nfd_mgmt_Strategy : List Schema := [(.name 7)]
def nfd_mgmt_ControlParametersValue : List Schema := [(.name 7), (.uint 105 none), (.bytes 114 true), (.bytes 129 true), (.uint 111 none), (.uint 106 none), (.uint 131 none), (.uint 132 none), (.uint 135 none), (.uint 136 none), (.uint 137 none), (.uint 108 none), (.uint 112 none), (.model 107 [(.name 7)] false), (.uint 109 none), (.uint 133 none)]
def nfd_mgmt_ControlParameters : List Schema := [(.model 104 [(.name 7), (.uint 105 none), (.bytes 114 true), (.bytes 129 true), (.uint 111 none), (.uint 106 none), (.uint 131 none), (.uint 132 none), (.uint 135 none), (.uint 136 none), (.uint 137 none), (.uint 108 none), (.uint 112 none), (.model 107 [(.name 7)] false), (.uint 109 none), (.uint 133 none)] false)]
def nfd_mgmt_ControlResponse : List Schema := [(.uint 102 none), (.bytes 103 true), (.model 104 [(.name 7), (.uint 105 none), (.bytes 114 true), (.bytes 129 true), (.uint 111 none), (.uint 106 none), (.uint 131 none), (.uint 132 none), (.uint 135 none), (.uint 136 none), (.uint 137 none), (.uint 108 none), (.uint 112 none), (.model 107 [(.name 7)] false), (.uint 109 none), (.uint 133 none)] false)]
def nfd_mgmt_FaceEventNotificationValue : List Schema := [(.uint 193 none), (.uint 105 none), (.bytes 114 true), (.bytes 129 true), (.uint 132 none), (.uint 133 none), (.uint 134 none), (.uint 108 none)]
def nfd_mgmt_FaceEventNotification : List Schema := [(.model 192 [(.uint 193 none), (.uint 105 none), (.bytes 114 true), (.bytes 129 true), (.uint 132 none), (.uint 133 none), (.uint 134 none), (.uint 108 none)] false)]
def nfd_mgmt_GeneralStatus : List Schema := [(.bytes 128 true), (.uint 129 none), (.uint 130 none), (.uint 131 none), (.uint 132 none), (.uint 133 none), (.uint 134 none), (.uint 135 none), (.uint 144 none), (.uint 145 none), (.uint 151 none), (.uint 146 none), (.uint 147 none), (.uint 152 none), (.uint 153 none), (.uint 154 none), (.uint 200 none), (.uint 201 none), (.uint 202 none), (.uint 203 none), (.uint 204 none), (.uint 205 none), (.uint 206 none), (.uint 207 none), (.uint 208 none)]
def nfd_mgmt_FaceStatus : List Schema := [(.uint 105 none), (.bytes 114 true), (.bytes 129 true), (.uint 109 none), (.uint 132 none), (.uint 133 none), (.uint 134 none), (.uint 135 none), (.uint 136 none), (.uint 137 none), (.uint 144 none), (.uint 145 none), (.uint 151 none), (.uint 146 none), (.uint 147 none), (.uint 152 none), (.uint 148 none), (.uint 149 none), (.uint 108 none)]
def nfd_mgmt_FaceStatusMsg : List Schema := [(.repeated (.model 128 [(.uint 105 none), (.bytes 114 true), (.bytes 129 true), (.uint 109 none), (.uint 132 none), (.uint 133 none), (.uint 134 none), (.uint 135 none), (.uint 136 none), (.uint 137 none), (.uint 144 none), (.uint 145 none), (.uint 151 none), (.uint 146 none), (.uint 147 none), (.uint 152 none), (.uint 148 none), (.uint 149 none), (.uint 108 none)] false))]
def nfd_mgmt_FaceQueryFilterValue : List Schema := [(.uint 105 none), (.bytes 131 true), (.bytes 114 true), (.bytes 129 true), (.uint 132 none), (.uint 133 none), (.uint 134 none)]
def nfd_mgmt_FaceQueryFilter : List Schema := [(.model 150 [(.uint 105 none), (.bytes 131 true), (.bytes 114 true), (.bytes 129 true), (.uint 132 none), (.uint 133 none), (.uint 134 none)] false)]
def nfd_mgmt_Route : List Schema := [(.uint 105 none), (.uint 111 none), (.uint 106 none), (.uint 108 none), (.uint 109 none)]
def nfd_mgmt_RibEntry : List Schema := [(.name 7), (.repeated (.model 129 [(.uint 105 none), (.uint 111 none), (.uint 106 none), (.uint 108 none), (.uint 109 none)] false))]
def nfd_mgmt_RibStatus : List Schema := [(.repeated (.model 128 [(.name 7), (.repeated (.model 129 [(.uint 105 none), (.uint 111 none), (.uint 106 none), (.uint 108 none), (.uint 109 none)] false))] false))]
def nfd_mgmt_NextHopRecord : List Schema := [(.uint 105 none), (.uint 106 none)]
def nfd_mgmt_FibEntry : List Schema := [(.name 7), (.repeated (.model 129 [(.uint 105 none), (.uint 106 none)] false))]
def nfd_mgmt_FibStatus : List Schema := [(.repeated (.model 128 [(.name 7), (.repeated (.model 129 [(.uint 105 none), (.uint 106 none)] false))] false))]
def nfd_mgmt_StrategyChoice : List Schema := [(.name 7), (.model 107 [(.name 7)] false)]
def nfd_mgmt_StrategyChoiceMsg : List Schema := [(.repeated (.model 128 [(.name 7), (.model 107 [(.name 7)] false)] false))]
def nfd_mgmt_CsInfo : List Schema := [(.uint 131 none), (.uint 108 none), (.uint 135 none), (.uint 129 none), (.uint 130 none)]
def binary_UserFnArg : List Schema := [(.bytes 33 false), (.uint 35 none)]
def binary_UserFnCall : List Schema := [(.bytes 39 true), (.repeated (.model 51 [(.bytes 33 false), (.uint 35 none)] false))]
def binary_ConstraintOption : List Schema := [(.bytes 33 false), (.uint 35 none), (.model 49 [(.bytes 39 true), (.repeated (.model 51 [(.bytes 33 false), (.uint 35 none)] false))] false)]
def binary_PatternConstraint : List Schema := [(.repeated (.model 65 [(.bytes 33 false), (.uint 35 none), (.model 49 [(.bytes 39 true), (.repeated (.model 51 [(.bytes 33 false), (.uint 35 none)] false))] false)] false))]
def binary_PatternEdge : List Schema := [(.uint 37 none), (.uint 35 none), (.repeated (.model 67 [(.repeated (.model 65 [(.bytes 33 false), (.uint 35 none), (.model 49 [(.bytes 39 true), (.repeated (.model 51 [(.bytes 33 false), (.uint 35 none)] false))] false)] false))] false))]
def binary_ValueEdge : List Schema := [(.uint 37 none), (.bytes 33 false)]
def binary_Node : List Schema := [(.uint 37 none), (.uint 87 none), (.repeated (.bytes 41 true)), (.repeated (.model 81 [(.uint 37 none), (.bytes 33 false)] false)), (.repeated (.model 83 [(.uint 37 none), (.uint 35 none), (.repeated (.model 67 [(.repeated (.model 65 [(.bytes 33 false), (.uint 35 none), (.model 49 [(.bytes 39 true), (.repeated (.model 51 [(.bytes 33 false), (.uint 35 none)] false))] false)] false))] false))] false)), (.repeated (.uint 85 none))]
def binary_TagSymbol : List Schema := [(.uint 35 none), (.bytes 41 true)]
def binary_LvsModel : List Schema := [(.uint 97 none), (.uint 37 none), (.uint 105 none), (.repeated (.model 99 [(.uint 37 none), (.uint 87 none), (.repeated (.bytes 41 true)), (.repeated (.model 81 [(.uint 37 none), (.bytes 33 false)] false)), (.repeated (.model 83 [(.uint 37 none), (.uint 35 none), (.repeated (.model 67 [(.repeated (.model 65 [(.bytes 33 false), (.uint 35 none), (.model 49 [(.bytes 39 true), (.repeated (.model 51 [(.bytes 33 false), (.uint 35 none)] false))] false)] false))] false))] false)), (.repeated (.uint 85 none))] false)), (.repeated (.model 103 [(.uint 35 none), (.bytes 41 true)] false))]
def tlv_StateVecEntry : List Schema := [(.name 7), (.uint 204 none)]
def tlv_StateVec : List Schema := [(.repeated (.model 202 [(.name 7), (.uint 204 none)] false))]
def tlv_StateVecWrapper : List Schema := [(.model 201 [(.repeated (.model 202 [(.name 7), (.uint 204 none)] false))] false)]
def tlv_MappingEntry : List Schema := [(.uint 204 none), (.name 7)]
def tlv_MappingData : List Schema := [(.name 7), (.model 206 [(.uint 204 none), (.name 7)] false)]
def security_v2_ValidityPeriod : List Schema := [(.bytes 254 false), (.bytes 255 false)]
def security_v2_DescriptionEntry : List Schema := [(.bytes 513 false), (.bytes 514 false)]
def security_v2_AdditionalDescription : List Schema := [(.repeated (.model 512 [(.bytes 513 false), (.bytes 514 false)] false))]
def security_v2_CertificateV2Extension : List Schema := [(.model 258 [(.repeated (.model 512 [(.bytes 513 false), (.bytes 514 false)] false))] false)]
def security_v2_CertificateV2SignatureInfo : List Schema := [(.uint 27 (some 1)), (.model 28 [(.name 7), (.bytes 29 false)] false), (.uint 38 none), (.uint 40 none), (.uint 42 none), (.model 253 [(.bytes 254 false), (.bytes 255 false)] false), (.model 258 [(.repeated (.model 512 [(.bytes 513 false), (.bytes 514 false)] false))] false)]

def shipped : List (List Schema) := [ndn_format_0_3_KeyLocator, ndn_format_0_3_SignatureInfo, ndn_format_0_3_Links, ndn_format_0_3_MetaInfo, ndnlp_v2_NetworkNack, ndnlp_v2_CachePolicy, ndnlp_v2_LpPacketValue, ndnlp_v2_LpPacket, nfd_mgmt_Strategy, nfd_mgmt_ControlParametersValue, nfd_mgmt_ControlParameters, nfd_mgmt_ControlResponse, nfd_mgmt_FaceEventNotificationValue, nfd_mgmt_FaceEventNotification, nfd_mgmt_GeneralStatus, nfd_mgmt_FaceStatus, nfd_mgmt_FaceStatusMsg, nfd_mgmt_FaceQueryFilterValue, nfd_mgmt_FaceQueryFilter, nfd_mgmt_Route, nfd_mgmt_RibEntry, nfd_mgmt_RibStatus, nfd_mgmt_NextHopRecord, nfd_mgmt_FibEntry, nfd_mgmt_FibStatus, nfd_mgmt_StrategyChoice, nfd_mgmt_StrategyChoiceMsg, nfd_mgmt_CsInfo, binary_UserFnArg, binary_UserFnCall, binary_ConstraintOption, binary_PatternConstraint, binary_PatternEdge, binary_ValueEdge, binary_Node, binary_TagSymbol, binary_LvsModel, tlv_StateVecEntry, tlv_StateVec, tlv_StateVecWrapper, tlv_MappingEntry, tlv_MappingData, security_v2_ValidityPeriod, security_v2_DescriptionEntry, security_v2_AdditionalDescription, security_v2_CertificateV2Extension, security_v2_CertificateV2SignatureInfo]

/-- every shipped model class satisfies the hypothesis of the C08 theorems -/
theorem shipped_wf : shipped.all wfTop = true := by decide

def merge_security_v2_CertificateV2SignatureInfo_bases : List (BaseCls (List Char) Schema) := [(some [("signature_type".toList, (.uint 27 (some 1))), ("key_locator".toList, (.model 28 [(.name 7), (.bytes 29 false)] false)), ("signature_nonce".toList, (.uint 38 none)), ("signature_time".toList, (.uint 40 none)), ("signature_seq_num".toList, (.uint 42 none))]),
    (some [("additional_description".toList, (.model 258 [(.repeated (.model 512 [(.bytes 513 false), (.bytes 514 false)] false))] false))])]
def merge_security_v2_CertificateV2SignatureInfo_body : List (List Char × Decl Schema) := [("__module__".toList, .other),
    ("signature_info".toList, .includeBase 0),
    ("validity_period".toList, .field (.model 253 [(.bytes 254 false), (.bytes 255 false)] false)),
    ("certificate_v2_extension".toList, .includeBase 1),
    ("__doc__".toList, .other),
    ("__abstractmethods__".toList, .other),
    ("_abc_impl".toList, .other),
    ("_encoded_fields".toList, .other)]
def merge_security_v2_CertificateV2SignatureInfo_fields : List (List Char × Schema) := [("signature_type".toList, (.uint 27 (some 1))), ("key_locator".toList, (.model 28 [(.name 7), (.bytes 29 false)] false)), ("signature_nonce".toList, (.uint 38 none)), ("signature_time".toList, (.uint 40 none)), ("signature_seq_num".toList, (.uint 42 none)), ("validity_period".toList, (.model 253 [(.bytes 254 false), (.bytes 255 false)] false)), ("additional_description".toList, (.model 258 [(.repeated (.model 512 [(.bytes 513 false), (.bytes 514 false)] false))] false))]

def merge_security_v2_CertificateV2Value_bases : List (BaseCls (List Char) Schema) := [(some [("_signer".toList, .marker), ("_sig_cover_part".toList, .marker), ("_sig_value_buf".toList, .marker), ("_shrink_len".toList, .marker), ("_sig_cover_start".toList, .marker), ("name".toList, (.name 7)), ("meta_info".toList, (.model 20 [(.uint 24 none), (.uint 25 none), (.bytes 26 false)] false)), ("content".toList, (.bytes 21 false)), ("signature_info".toList, (.model 22 [(.uint 27 (some 1)), (.model 28 [(.name 7), (.bytes 29 false)] false), (.uint 38 none), (.uint 40 none), (.uint 42 none)] true)), ("signature_value".toList, (.bytes 23 false))])]
def merge_security_v2_CertificateV2Value_body : List (List Char × Decl Schema) := [("__module__".toList, .other),
    ("_base".toList, .includeBase 0),
    ("signature_info".toList, .field (.model 22 [(.uint 27 (some 1)), (.model 28 [(.name 7), (.bytes 29 false)] false), (.uint 38 none), (.uint 40 none), (.uint 42 none), (.model 253 [(.bytes 254 false), (.bytes 255 false)] false), (.model 258 [(.repeated (.model 512 [(.bytes 513 false), (.bytes 514 false)] false))] false)] true)),
    ("__doc__".toList, .other),
    ("__abstractmethods__".toList, .other),
    ("_abc_impl".toList, .other),
    ("_encoded_fields".toList, .other)]
def merge_security_v2_CertificateV2Value_fields : List (List Char × Schema) := [("_signer".toList, .marker), ("_sig_cover_part".toList, .marker), ("_sig_value_buf".toList, .marker), ("_shrink_len".toList, .marker), ("_sig_cover_start".toList, .marker), ("name".toList, (.name 7)), ("meta_info".toList, (.model 20 [(.uint 24 none), (.uint 25 none), (.bytes 26 false)] false)), ("content".toList, (.bytes 21 false)), ("signature_info".toList, (.model 22 [(.uint 27 (some 1)), (.model 28 [(.name 7), (.bytes 29 false)] false), (.uint 38 none), (.uint 40 none), (.uint 42 none), (.model 253 [(.bytes 254 false), (.bytes 255 false)] false), (.model 258 [(.repeated (.model 512 [(.bytes 513 false), (.bytes 514 false)] false))] false)] true)), ("signature_value".toList, (.bytes 23 false))]

/-- for every shipped class with a base class or an IncludeBase attribute the model of the metaclass yields, from
    the class namespace and the field lists of its bases, the `_encoded_fields` (names, fields, order) the library has -/
theorem shipped_merge_ok :
    (mergeFields merge_security_v2_CertificateV2SignatureInfo_bases merge_security_v2_CertificateV2SignatureInfo_body = .ok merge_security_v2_CertificateV2SignatureInfo_fields) ∧
    (mergeFields merge_security_v2_CertificateV2Value_bases merge_security_v2_CertificateV2Value_body = .ok merge_security_v2_CertificateV2Value_fields) :=
  ⟨by rfl, by rfl⟩

end Ndn.Gen.C08
