import NdnModel.CodecWF
import NdnModel.PacketEnc
import NdnModel.Cert
/- GENERATED on every run by harness/props/c07.py from the live `_encoded_fields` of the four packet
   classes.  Do not edit. -/
namespace Ndn.Gen.C07
open Ndn.Codec

def interest : List Schema := [.marker, .marker, .marker, .marker, .marker, .marker, .marker, (.name 7), (.bool 33), (.bool 18), (.model 30 [(.repeated (.name 7))] false), (.uint 10 (some 4)), (.uint 12 none), (.uint 34 (some 1)), .marker, .marker, (.bytes 36 false), (.model 44 [(.uint 27 (some 1)), (.model 28 [(.name 7), (.bytes 29 false)] false), (.uint 38 none), (.uint 40 none), (.uint 42 none)] false), (.bytes 46 false), .marker]
def data : List Schema := [.marker, .marker, .marker, .marker, .marker, (.name 7), (.model 20 [(.uint 24 none), (.uint 25 none), (.bytes 26 false)] false), (.bytes 21 false), (.model 22 [(.uint 27 (some 1)), (.model 28 [(.name 7), (.bytes 29 false)] false), (.uint 38 none), (.uint 40 none), (.uint 42 none)] true), (.bytes 23 false)]
def lp : List Schema := [(.uint 82 none), (.uint 83 none), (.bytes 98 false), (.model 800 [(.uint 801 none)] false), (.uint 812 none), (.uint 816 none), (.model 820 [(.uint 821 none)] false), (.uint 832 none), (.bytes 840 false), (.bytes 836 false), (.bool 844), (.bytes 848 false), (.bytes 80 false)]
def cert : List Schema := [.marker, .marker, .marker, .marker, .marker, (.name 7), (.model 20 [(.uint 24 none), (.uint 25 none), (.bytes 26 false)] false), (.bytes 21 false), (.model 22 [(.uint 27 (some 1)), (.model 28 [(.name 7), (.bytes 29 false)] false), (.uint 38 none), (.uint 40 none), (.uint 42 none), (.model 253 [(.bytes 254 false), (.bytes 255 false)] false), (.model 258 [(.repeated (.model 512 [(.bytes 513 false), (.bytes 514 false)] false))] false)] true), (.bytes 23 false)]

/-- the four packet schemas are in the fragment the decoder theorems quantify over -/
theorem packet_schemas_ok : [interest, data, lp, cert].all pFs = true := by decide

/-- field order, Type numbers, fixed lengths, marker positions and ignore_critical flags of the three
    network-packet classes are the ones the packet models (and the packet specification) fix -/
theorem schemas_pinned : interest = Ndn.Packet.interestFs ∧ data = Ndn.Packet.dataFs ∧
    cert = Ndn.Cert.certFs := ⟨rfl, rfl, rfl⟩

end Ndn.Gen.C07
