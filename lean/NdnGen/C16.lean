import NdnModel.Cert
/- GENERATED on every run by harness/props/c16.py from the live CertificateV2Value class.  Do not edit. -/
namespace Ndn.Gen.C16
open Ndn.Codec

def certLive : List Schema := [.marker, .marker, .marker, .marker, .marker, (.name 7), (.model 20 [(.uint 24 none), (.uint 25 none), (.bytes 26 false)] false), (.bytes 21 false), (.model 22 [(.uint 27 (some 1)), (.model 28 [(.name 7), (.bytes 29 false)] false), (.uint 38 none), (.uint 40 none), (.uint 42 none), (.model 253 [(.bytes 254 false), (.bytes 255 false)] false), (.model 258 [(.repeated (.model 512 [(.bytes 513 false), (.bytes 514 false)] false))] false)] true), (.bytes 23 false)]

/-- the certificate field list the model is written against is the one the source declares now -/
theorem schema_matches : certLive = Ndn.Cert.certFs := rfl

end Ndn.Gen.C16
