import NdnModel.PacketEnc
/- GENERATED on every run by harness/props/c01.py from the live `_encoded_fields` of DataPacketValue and
   InterestPacketValue.  Do not edit. -/
namespace Ndn.Gen.C01
open Ndn.Codec

def dataLive : List Schema := [.marker, .marker, .marker, .marker, .marker, (.name 7), (.model 20 [(.uint 24 none), (.uint 25 none), (.bytes 26 false)] false), (.bytes 21 false), (.model 22 [(.uint 27 (some 1)), (.model 28 [(.name 7), (.bytes 29 false)] false), (.uint 38 none), (.uint 40 none), (.uint 42 none)] true), (.bytes 23 false)]
def interestLive : List Schema := [.marker, .marker, .marker, .marker, .marker, .marker, .marker, (.name 7), (.bool 33), (.bool 18), (.model 30 [(.repeated (.name 7))] false), (.uint 10 (some 4)), (.uint 12 none), (.uint 34 (some 1)), .marker, .marker, (.bytes 36 false), (.model 44 [(.uint 27 (some 1)), (.model 28 [(.name 7), (.bytes 29 false)] false), (.uint 38 none), (.uint 40 none), (.uint 42 none)] false), (.bytes 46 false), .marker]

/-- the field lists the packet model is written against are the ones the source declares now
    (order, Type numbers, fixed lengths, ignore_critical flags, marker positions) -/
theorem schemas_match : dataLive = Ndn.Packet.dataFs ∧ interestLive = Ndn.Packet.interestFs :=
  ⟨rfl, rfl⟩

end Ndn.Gen.C01
