import NdnModel.Basic
/- GENERATED on every run by harness/props/c18.py from the source of
   src/ndn/app_support/svs/sync.py : SvsInst.sync_handler (the `try: … StateVecWrapper.parse(name[-2]) …
   except (…)` statement).  Do not edit. -/
namespace Ndn.Gen.C18
open Ndn

/-- the exception classes the handler catches (and logs) around the decoding of the vector -/
def caught : List PyErr := [.decodeError, .indexError]

/-- the clause names `Exception` / `BaseException` (then every class is caught) -/
def catchAll : Bool := false

/-- the model class whose `parse` is called, and the index of the name component it is called on -/
def parsedClass : String := "StateVecWrapper"
def parsedIndex : Int := -2

end Ndn.Gen.C18
