import NdnModel.Basic
import NdnModel.DriverMain
import NdnModel.Drv.C18
import NdnModel.PyDict
import NdnModel.Shrink
import NdnModel.Svs
import NdnModel.TlNum
