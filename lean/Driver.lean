import NdnModel.Drv.C18

def dispatch (line : String) : String :=
  match (line.splitOn " ").filter (· ≠ "") with
  | "C18" :: args => Ndn.Drv.C18.handle args
  | _ => "bad-op"

partial def loop (h : IO.FS.Stream) (o : IO.FS.Stream) : IO Unit := do
  let line ← h.getLine
  if line.isEmpty then return ()
  let l := line.trimAscii.toString
  o.putStrLn (dispatch l)
  loop h o

def main : IO Unit := do
  let o ← IO.getStdout
  loop (← IO.getStdin) o
  o.flush
