import NdnProofs.Props.C11
#print axioms Ndn.C11.matchIter_eq_matchTree
#print axioms Ndn.C11.matchIter_no_exception
#print axioms Ndn.C11.matchTree_sound
#print axioms Ndn.C11.matchIter_sound
#print axioms Ndn.C11.matchTree_iff_Sem
#print axioms Ndn.C11.compile_correct_partial
#print axioms Ndn.C11.compiled_match_iff
#print axioms Ndn.C11.compiled_vdet
#print axioms Ndn.C11.tree_eq_chains
#print axioms Ndn.C11.checker_reports_iff_chain
#print axioms Ndn.C11.merge_key_test_sound
#print axioms Ndn.C11.compile_split
#print axioms Ndn.C11.matchNames_spec
