import NdnProofs.Props.C10
#print axioms Ndn.C10.parseLp_wrapped
#print axioms Ndn.C10.lp_transparent
#print axioms Ndn.C10.parseLp_nack
#print axioms Ndn.C10.lp_nack
#print axioms Ndn.C10.parseLp_nack_bare
#print axioms Ndn.C10.lp_nack_bare
#print axioms Ndn.C10.parseLp_fragmented
#print axioms Ndn.C10.lp_fragment_rejected
#print axioms Ndn.C10.token_roundtrip
#print axioms Ndn.C10.reply_uses_own_token
#print axioms Ndn.C10.no_token_bare
#print axioms Ndn.C10.frontends
