import NdnProofs.Props.C06
#print axioms Ndn.C06.frames_concat
#print axioms Ndn.C06.frames_never_partial
#print axioms Ndn.C06.gen_safe
#print axioms Ndn.C06.receive_total
#print axioms Ndn.C06.receive_total_of_safe
#print axioms Ndn.C06.receive_frame
#print axioms Ndn.C06.receive_preserves_wf
#print axioms Ndn.C06.udp_total
#print axioms Ndn.C06.docErr_iff_raisable
#print axioms Ndn.C06.bytes_decoders_raise_only
#print axioms Ndn.C06.receive_bytes_total
#print axioms Ndn.C06.receive_bytes_frame
