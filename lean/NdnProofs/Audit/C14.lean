import NdnProofs.Props.C14
import NdnProofs.Props.C14Lvs
#print axioms Ndn.C14.validate_sound
#print axioms Ndn.C14.validate_complete
#print axioms Ndn.C14.verdict_iff_chain
#print axioms Ndn.C14.cache_inv_preserved
#print axioms Ndn.C14.verdict_history_independent
#print axioms Ndn.C14.other_instances_irrelevant
#print axioms Ndn.C14.system_verdict_iff_chain
#print axioms Ndn.C14.loop_never_accepted
#print axioms Ndn.C14.construct_refuses
#print axioms Ndn.C14.caught_exceptions
#print axioms Ndn.C14.allowed_iff_schema_link
#print axioms Ndn.C14.validate_sound_lvs
#print axioms Ndn.C14.validate_complete_lvs
#print axioms Ndn.C14.verdict_iff_chain_lvs
#print axioms Ndn.C14.verdict_iff_chain_compiled
#print axioms Ndn.C14.system_verdict_iff_chain_lvs
#print axioms Ndn.C14.lvs_chain_keys_matched
#print axioms Ndn.C14.chain_never_through_unmatched_key
#print axioms Ndn.C14.unmatched_key_never_accepted
#print axioms Ndn.C14.root_of_trust_spec
#print axioms Ndn.C14.construct_refuses_lvs
#print axioms Ndn.C14.construct_refuses_missing_fns_lvs
