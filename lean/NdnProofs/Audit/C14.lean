import NdnProofs.Props.C14
#print axioms Ndn.C14.validate_sound
#print axioms Ndn.C14.validate_complete
#print axioms Ndn.C14.verdict_iff_chain
#print axioms Ndn.C14.cache_inv_preserved
#print axioms Ndn.C14.verdict_history_independent
#print axioms Ndn.C14.other_instances_irrelevant
#print axioms Ndn.C14.system_verdict_iff_chain
#print axioms Ndn.C14.loop_never_accepted
#print axioms Ndn.C14.construct_refuses
#print axioms Ndn.C14.caught_exceptions
