import NdnProofs.Props.C01
import NdnGen.C01
import NdnProofs.Props.TlvVarGen
import NdnGen.TlvVar
#print axioms Ndn.C01.make_data_wire
#print axioms Ndn.C01.make_data_unsigned_wire
#print axioms Ndn.C01.make_interest_wire
#print axioms Ndn.C01.sig_value_elem_rejects
#print axioms Ndn.C01.made_data_is_one_element
#print axioms Ndn.C01.parse_make_data_partial
#print axioms Ndn.C01.make_interest_is_core
#print axioms Ndn.C01.make_interest_params_wire
#print axioms Ndn.C01.make_interest_plain_wire
#print axioms Ndn.C01.parse_make_interest
#print axioms Ndn.C01.parse_make_interest_params
#print axioms Ndn.C01.parse_make_interest_plain
#print axioms Ndn.Packet.interest_items
#print axioms Ndn.Packet.parse_interest_value
#print axioms Ndn.C01.make_interest_is_core_params
#print axioms Ndn.C01.make_interest_is_core_at
#print axioms Ndn.C01.make_interest_wire_at
#print axioms Ndn.C01.make_interest_params_wire_at
#print axioms Ndn.C01.parse_make_interest_placeholder
#print axioms Ndn.C01.parse_make_interest_params_placeholder
#print axioms Ndn.Packet.parseInterest_signed_at
#print axioms Ndn.Packet.parseInterest_params_at
#print axioms Ndn.C01.parse_data_value
#print axioms Ndn.C01.parse_make_data_unsigned
#print axioms Ndn.Gen.C01.schemas_match
#print axioms Ndn.TlvVarGen.all_translated
#print axioms Ndn.TlvVarGen.shrink_length_eq
#print axioms Ndn.TlvVarGen.write_tl_num_eq
#print axioms Ndn.TlvVarGen.write_tl_num_neg
#print axioms Ndn.TlvVarGen.get_tl_num_size_eq
#print axioms Ndn.TlvVarGen.parse_tl_num_eq
