import NdnProofs.Props.C13
#print axioms Ndn.C13.sanity_iff_documented
#print axioms Ndn.C13.modelError_iff_not_sane
#print axioms Ndn.C13.accepted_sane
#print axioms Ndn.C13.match_terminates
#print axioms Ndn.C13.match_stable
#print axioms Ndn.C13.check_terminates
#print axioms Ndn.C13.match_no_exception
#print axioms Ndn.C13.sign_cycle_rejected
#print axioms Ndn.C13.compile_rejects_bad_reference
#print axioms Ndn.C13.compile_rejects_reference_cycle
#print axioms Ndn.C13.compile_rejects_bad_constraint
#print axioms Ndn.C13.compile_structure_sane
#print axioms Ndn.C13.compile_accepted_iff
#print axioms Ndn.C13.compile_sane
#print axioms Ndn.C13.compile_sane_partial
