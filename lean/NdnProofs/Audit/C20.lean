import NdnProofs.Props.C20
#print axioms Ndn.C20.precedence_transport
#print axioms Ndn.C20.precedence_pib
#print axioms Ndn.C20.precedence_tpm
#print axioms Ndn.C20.location_existing_as_given
#print axioms Ndn.C20.location_relative_to_conf
#print axioms Ndn.C20.location_fallback
#print axioms Ndn.C20.face_of_uri
#print axioms Ndn.C20.face_of_unix_uri
#print axioms Ndn.C20.unknown_scheme_error
#print axioms Ndn.C20.unknown_scheme_uri_error
#print axioms Ndn.C20.platform_table_sane
#print axioms Ndn.C20.precedence_on_platform
#print axioms Ndn.C20.conf_value_is_first_assignment
#print axioms Ndn.C20.conf_errors
