import NdnProofs.Props.C05
#print axioms Ndn.C05.data_only_if_accepted
#print axioms Ndn.C05.other_verdict_failure
#print axioms Ndn.C05.every_verdict_decides
#print axioms Ndn.C05.resolve_awaited
#print axioms Ndn.C05.validator_late_timeout
#print axioms Ndn.C05.tie_data_only_if_accepted
#print axioms Ndn.C05.interest_digest_gate
#print axioms Ndn.C05.interest_validated_before_handler_v2
#print axioms Ndn.C05.interest_validated_before_handler_v1
#print axioms Ndn.C05.interest_rejected_by_verdict
#print axioms Ndn.C05.plain_interest_no_validator
