import NdnProofs.Props.C02
import NdnGen.C01
#print axioms Ndn.C02.sign_input_is_signed_portion_data
#print axioms Ndn.C02.sign_input_is_signed_portion_interest
#print axioms Ndn.C02.digest_covers_params_to_end
#print axioms Ndn.C02.covered_end_is_sigvalue_offset
#print axioms Ndn.C02.parsed_cover_is_signed_portion_data
#print axioms Ndn.C02.parsed_cover_is_signed_portion_interest
#print axioms Ndn.C02.own_interest_passes_digest_check
#print axioms Ndn.C02.own_interest_verifies
#print axioms Ndn.C02.parsed_digest_cover_params_interest
#print axioms Ndn.C02.tamper_rejected
#print axioms Ndn.C02.verify_own
#print axioms Ndn.C02.params_digest_iff
#print axioms Ndn.Packet.interest_items
#print axioms Ndn.Gen.C01.schemas_match
