import NdnProofs.Props.C04
#print axioms Ndn.C04.longest_attached_unique
#print axioms Ndn.C04.table_refines
#print axioms Ndn.C04.dispatch_longest
#print axioms Ndn.C04.dispatch_none
#print axioms Ndn.C04.dispatch_never_blank
#print axioms Ndn.C04.dispatch_exactly_one
#print axioms Ndn.C04.attach_dup_refused
#print axioms Ndn.C04.attach_free_accepted
#print axioms Ndn.C04.detach_receives_nothing
#print axioms Ndn.C04.detach_frame
#print axioms Ndn.C04.detach_falls_back
#print axioms Ndn.C04.detach_absent_keyerror
#print axioms Ndn.C04.reply_truthful
#print axioms Ndn.C04.reply_payload
#print axioms Ndn.C04.reply_deadline_is_lifetime
#print axioms Ndn.C04.key_repr_irrelevant
