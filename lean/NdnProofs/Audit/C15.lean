import NdnProofs.Props.C15
#print axioms Ndn.C15.triggers_all_parsed
#print axioms Ndn.C15.no_delete_triggers
#print axioms Ndn.C15.update_triggers_need_new_default
#print axioms Ndn.C15.foreign_keys_off
#print axioms Ndn.C15.triggers_closed_form
#print axioms Ndn.C15.statements_as_modelled
#print axioms Ndn.C15.default_unique
#print axioms Ndn.C15.default_exists
#print axioms Ndn.C15.lost_only_by_deleting_default
#print axioms Ndn.C15.views_agree
#print axioms Ndn.C15.views_scoped
#print axioms Ndn.C15.del_key_cascades
#print axioms Ndn.C15.del_identity_cascades
#print axioms Ndn.C15.signer_right_key
#print axioms Ndn.C15.no_signer_for_deleted
#print axioms Ndn.C15.reopen_same
