import NdnProofs.Props.C12
#print axioms Ndn.C12.check_iff
#print axioms Ndn.C12.check_true_sound
#print axioms Ndn.C12.check_total
#print axioms Ndn.C12.check_key_must_match
#print axioms Ndn.C12.check_key_must_match_alone
#print axioms Ndn.C12.check_ignores_implicit_digest
#print axioms Ndn.C12.check_iff_compiled
