import NdnProofs.Props.C12
import NdnProofs.Props.C12Tables
import NdnProofs.Props.C11Tables
#print axioms Ndn.C12.check_iff
#print axioms Ndn.C12.check_true_sound
#print axioms Ndn.C12.check_total
#print axioms Ndn.C12.check_key_must_match
#print axioms Ndn.C12.check_key_must_match_alone
#print axioms Ndn.C12.check_ignores_implicit_digest
#print axioms Ndn.C12.check_iff_compiled
#print axioms Ndn.C12.check_digest_table
#print axioms Ndn.C12.check_loops_table
#print axioms Ndn.C12.checker_excepts_table
#print axioms Ndn.C12.fix_signing_table
#print axioms Ndn.C11.matcher_tests_table
#print axioms Ndn.C11.generate_node_table
