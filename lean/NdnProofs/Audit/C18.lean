import NdnProofs.Props.C18
#print axioms Ndn.C18.local_is_max
#print axioms Ndn.C18.rejected_unchanged
#print axioms Ndn.C18.local_monotone
#print axioms Ndn.C18.run_monotone
#print axioms Ndn.C18.overclaim_ignored_entirely
#print axioms Ndn.C18.callback_iff_raised
#print axioms Ndn.C18.publish_increments_and_emits_full
#print axioms Ndn.C18.suppression_emit_iff
#print axioms Ndn.C18.steady_timer_emits
