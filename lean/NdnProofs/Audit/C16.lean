import NdnProofs.Props.C16
import NdnGen.C16
#print axioms Ndn.C16.cert_wire
#print axioms Ndn.C16.cert_name
#print axioms Ndn.C16.cert_signed_portion
#print axioms Ndn.C16.parse_cert_roundtrip
#print axioms Ndn.C16.formatTime_length
#print axioms Ndn.C16.formatTime_inj
#print axioms Ndn.Gen.C16.schema_matches
#print axioms Ndn.C16.ord_ymd_roundtrip
#print axioms Ndn.C16.addSeconds_spec
#print axioms Ndn.C16.addYears_spec
#print axioms Ndn.C16.toUtc_spec
#print axioms Ndn.C16.fmtInstant_inj
#print axioms Ndn.C16.fmtInstant_form
#print axioms Ndn.C16.derive_instants
#print axioms Ndn.C16.derive_zone_independent
#print axioms Ndn.C16.validity_encodes_requested_instants
#print axioms Ndn.C16.validity_period_length
#print axioms Ndn.C16.req_instants
#print axioms Ndn.C16.self_instants
#print axioms Ndn.C16.issued_validity
