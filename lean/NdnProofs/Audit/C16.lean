import NdnProofs.Props.C16
import NdnGen.C16
#print axioms Ndn.C16.cert_wire
#print axioms Ndn.C16.cert_name
#print axioms Ndn.C16.cert_signed_portion
#print axioms Ndn.C16.parse_cert_roundtrip
#print axioms Ndn.C16.formatTime_length
#print axioms Ndn.C16.formatTime_inj
#print axioms Ndn.Gen.C16.schema_matches
