import NdnProofs.Props.C09
import NdnProofs.Props.C09Tables
import NdnProofs.Props.C09ToStr
import NdnProofs.Props.ComponentGen
import NdnProofs.Props.TlvVarGen
import NdnGen.Component
import NdnGen.TlvVar
import NdnProofs.Props.NameGen
import NdnGen.NameGen
#print axioms Ndn.C09.decode_encode_name
#print axioms Ndn.C09.normalize_wire
#print axioms Ndn.C09.decode_accepts_exact
#print axioms Ndn.C09.decode_overrun_rejected
#print axioms Ndn.C09.isPrefix_iff
#print axioms Ndn.C09.isPrefix_iff_componentwise
#print axioms Ndn.C09.unescape_escape
#print axioms Ndn.C09.fromStr_toCanonicalUri
#print axioms Ndn.C09.getType_getValue
#print axioms Ndn.C09.fromStr_toStr
#print axioms Ndn.C09.toStr_total
#print axioms Ndn.C09.fromStr_toStr_oddwidth
#print axioms Ndn.C09.fromStr_shorthand_number
#print axioms Ndn.C09.fromStr_shorthand_digest
#print axioms Ndn.C09.name_fromStr_toCanonicalUri
#print axioms Ndn.C09.name_fromStr_toStr
#print axioms Ndn.C09.normalize_agree
#print axioms Ndn.C09.write_lex_mono
#print axioms Ndn.C09.bytesLt_iff_lex
#print axioms Ndn.C09.order_canonical_component
#print axioms Ndn.C09.order_canonical_name
#print axioms Ndn.C09.order_canonical_name_list
#print axioms Ndn.C09.uri_root
#print axioms Ndn.C09.uri_empty_component
#print axioms Ndn.C09.uri_trailing_empty_component
#print axioms Ndn.C09.uri_trailing_slash_ignored
#print axioms Ndn.C09.uri_leading_slash_optional
#print axioms Ndn.C09.escape_then_fromStr
#print axioms Ndn.C09.tables_recognised
#print axioms Ndn.C09.charset_table
#print axioms Ndn.C09.type_constants
#print axioms Ndn.C09.shorthand_tables
#print axioms Ndn.C09.shorthand_lookup_inverse
#print axioms Ndn.C09.shorthand_number_table
#print axioms Ndn.C09.digest_tables
#print axioms Ndn.C09.toStr_number_guard
#print axioms Ndn.C09.escaping_table
#print axioms Ndn.C09.empty_component_literals
#print axioms Ndn.C09.type_range_probes
#print axioms Ndn.C09.tlNumSize_table
#print axioms Ndn.C09.packUint_table
#print axioms Ndn.C09.writeTlNum_table
#print axioms Ndn.C09.parseTlNum_table
#print axioms Ndn.C09.int_digit_limit
#print axioms Ndn.ComponentGen.all_translated
#print axioms Ndn.ComponentGen.get_type_eq
#print axioms Ndn.ComponentGen.get_value_eq
#print axioms Ndn.ComponentGen.to_number_eq
#print axioms Ndn.ComponentGen.from_bytes_eq
#print axioms Ndn.ComponentGen.from_bytes_nonpos
#print axioms Ndn.ComponentGen.from_number_eq
#print axioms Ndn.ComponentGen.from_typed_number_eq
#print axioms Ndn.TlvVarGen.all_translated
#print axioms Ndn.TlvVarGen.get_tl_num_size_eq
#print axioms Ndn.TlvVarGen.write_tl_num_eq
#print axioms Ndn.TlvVarGen.pack_uint_bytes_eq
#print axioms Ndn.TlvVarGen.parse_tl_num_eq
#print axioms Ndn.NameGen.all_translated
#print axioms Ndn.NameGen.encoded_length_eq
#print axioms Ndn.NameGen.is_prefix_core_eq
#print axioms Ndn.NameGen.encode_eq
#print axioms Ndn.NameGen.encode_eq_empty
#print axioms Ndn.NameGen.encode_into_eq
#print axioms Ndn.NameGen.decode_eq
#print axioms Ndn.NameGen.decode_error_class
#print axioms Ndn.NameGen.decode_fuel_suffices
#print axioms Ndn.NameGen.decode_error_of_model
#print axioms Ndn.NameGen.decode_ok_model
#print axioms Ndn.NameGen.decode_ok_of_model
#print axioms Ndn.decodeAt_eq_drop
#print axioms Ndn.decodeAt_zero
#print axioms Ndn.decodeAt_outside
#print axioms Ndn.decodeAt_append
#print axioms Ndn.NameGen.decode_at_eq
#print axioms Ndn.NameGen.decode_at_drop
#print axioms Ndn.NameGen.decode_at_suffix
#print axioms Ndn.NameGen.decode_at_outside
#print axioms Ndn.NameGen.decode_at_fuel_suffices
#print axioms Ndn.NameGen.decode_below
#print axioms Ndn.NameGen.decode_neg_ok
