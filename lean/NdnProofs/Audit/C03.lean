import NdnProofs.Props.C03
#print axioms Ndn.C03.refines_spec
#print axioms Ndn.C03.no_internal_error
#print axioms Ndn.C03.complete_at_most_once
#print axioms Ndn.C03.nothing_remains
#print axioms Ndn.C03.linked_entries_are_waiting
#print axioms Ndn.C03.pit_empty_at_quiescence
#print axioms Ndn.C03.one_data_all_matching_no_others
#print axioms Ndn.C03.nack_exactly_the_named
#print axioms Ndn.C03.cancel_only_its_target
#print axioms Ndn.C03.tick_fires_due_timers
#print axioms Ndn.C03.complete_exactly_once_after_shutdown
#print axioms Ndn.C03.complete_exactly_once_after_deadline
#print axioms Ndn.C03.outcome_correct
#print axioms Ndn.C03.frame
