import NdnProofs.Props.C08
import NdnGen.C08
import NdnProofs.Props.TlvVarGen
import NdnGen.TlvVar
import NdnProofs.Props.TlvModelGen
import NdnProofs.Props.TlvModelParseGen
import NdnGen.TlvModelFields
#print axioms Ndn.C08.announced_length_exact
#print axioms Ndn.C08.enc_wellformed
#print axioms Ndn.C08.writeTlNum_shortest
#print axioms Ndn.C08.uint_smallest_width
#print axioms Ndn.C08.parse_enc_roundtrip
#print axioms Ndn.C08.unknown_noncritical_skipped
#print axioms Ndn.C08.unknown_critical_rejected
#print axioms Ndn.Gen.C08.shipped_wf
#print axioms Ndn.C08.merge_is_assignment
#print axioms Ndn.C08.merge_ok_iff
#print axioms Ndn.C08.merged_order
#print axioms Ndn.C08.merged_field_is_last_assignment
#print axioms Ndn.C08.merged_plain
#print axioms Ndn.C08.base_not_included_ignored
#print axioms Ndn.C08.inherit_without_include
#print axioms Ndn.C08.derived_encodes_in_merged_order
#print axioms Ndn.Gen.C08.shipped_merge_ok
#print axioms Ndn.C08.parse_wf
#print axioms Ndn.C08.reencode_parses_back
#print axioms Ndn.C08.reencode_succeeds
#print axioms Ndn.C08.reencode_fails_only
#print axioms Ndn.Codec.parse_accept
#print axioms Ndn.Codec.parse_size
#print axioms Ndn.Codec.reencode_ok
#print axioms Ndn.TlvVarGen.all_translated
#print axioms Ndn.TlvVarGen.get_tl_num_size_eq
#print axioms Ndn.TlvVarGen.write_tl_num_eq
#print axioms Ndn.TlvVarGen.write_tl_num_neg
#print axioms Ndn.TlvVarGen.pack_uint_bytes_eq
#print axioms Ndn.TlvVarGen.parse_tl_num_eq
#print axioms Ndn.TlvVarGen.parse_and_check_tl_eq
#print axioms Ndn.TlvVarGen.shrink_length_eq
#print axioms Ndn.TlvModelGen.all_translated
#print axioms Ndn.TlvModelGen.uint_encoded_length_eq
#print axioms Ndn.TlvModelGen.uint_encoded_length_none
#print axioms Ndn.TlvModelGen.uint_encoded_length_neg
#print axioms Ndn.TlvModelGen.uint_encode_into_eq
#print axioms Ndn.TlvModelGen.uint_encode_into_none
#print axioms Ndn.TlvModelGen.uint_two_pass
#print axioms Ndn.TlvModelGen.bool_encoded_length_eq
#print axioms Ndn.TlvModelGen.bool_encode_into_eq
#print axioms Ndn.TlvModelGen.bool_encode_into_absent
#print axioms Ndn.TlvModelGen.bytes_encoded_length_eq
#print axioms Ndn.TlvModelGen.str_encoded_length_eq
#print axioms Ndn.TlvModelGen.bytes_encode_into_eq
#print axioms Ndn.TlvModelGen.str_encode_into_eq
#print axioms Ndn.TlvModelGen.bytes_encode_into_none
#print axioms Ndn.TlvModelGen.parse_translated
#print axioms Ndn.TlvModelGen.uint_parse_from_eq
#print axioms Ndn.TlvModelGen.bool_parse_from_eq
#print axioms Ndn.TlvModelGen.bytes_parse_from_eq
#print axioms Ndn.TlvModelGen.str_parse_from_eq
