import NdnProofs.Props.C08
import NdnGen.C08
#print axioms Ndn.C08.announced_length_exact
#print axioms Ndn.C08.enc_wellformed
#print axioms Ndn.C08.writeTlNum_shortest
#print axioms Ndn.C08.uint_smallest_width
#print axioms Ndn.C08.parse_enc_roundtrip
#print axioms Ndn.C08.unknown_noncritical_skipped
#print axioms Ndn.C08.unknown_critical_rejected
#print axioms Ndn.Gen.C08.shipped_wf
