import NdnProofs.Props.C07
import NdnGen.C07
#print axioms Ndn.C07.parse_total
#print axioms Ndn.C07.decodePacket_error_classes
#print axioms Ndn.C07.shipped_decoders_error_classes
#print axioms Ndn.C07.decodeName_error_classes
#print axioms Ndn.C07.accepted_has_name
#print axioms Ndn.C07.accepted_outer_exact
#print axioms Ndn.C07.strict_implies_accept_partial
#print axioms Ndn.C07.overrun_accepted_counterexample
#print axioms Ndn.Gen.C07.packet_schemas_ok
