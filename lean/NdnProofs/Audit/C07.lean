import NdnProofs.Props.C07
import NdnGen.C07
import NdnProofs.Props.TlvVarGen
import NdnGen.TlvVar
import NdnProofs.Props.TlvModelParseGen
import NdnGen.TlvModelFields
#print axioms Ndn.C07.parse_total
#print axioms Ndn.C07.decodePacket_error_classes
#print axioms Ndn.C07.shipped_decoders_error_classes
#print axioms Ndn.C07.decodeName_error_classes
#print axioms Ndn.C07.accepted_has_name
#print axioms Ndn.C07.accepted_outer_exact
#print axioms Ndn.C07.strict_implies_accept_partial
#print axioms Ndn.C07.overrun_accepted_counterexample
#print axioms Ndn.Gen.C07.packet_schemas_ok
#print axioms Ndn.Gen.C07.schemas_pinned
#print axioms Ndn.C07.strict_accepts_well_nested
#print axioms Ndn.C07.strict_agrees
#print axioms Ndn.C07.strict_refines
#print axioms Ndn.C07.strict_error_agrees
#print axioms Ndn.C07.only_overruns_differ
#print axioms Ndn.C07.accept_iff_strict
#print axioms Ndn.C07.packet_strict_agrees
#print axioms Ndn.C07.packet_strict_refines
#print axioms Ndn.C07.packet_only_overruns_differ
#print axioms Ndn.C07.packet_strict_accepts_well_nested
#print axioms Ndn.C07.packet_accept_iff_strict
#print axioms Ndn.C07.shipped_decoders_strict
#print axioms Ndn.C07.shipped_only_overruns_differ
#print axioms Ndn.TlvVarGen.all_translated
#print axioms Ndn.TlvVarGen.parse_tl_num_eq
#print axioms Ndn.TlvVarGen.parse_and_check_tl_eq
#print axioms Ndn.TlvModelGen.parse_translated
#print axioms Ndn.TlvModelGen.uint_parse_from_eq
#print axioms Ndn.TlvModelGen.bool_parse_from_eq
#print axioms Ndn.TlvModelGen.bytes_parse_from_eq
#print axioms Ndn.TlvModelGen.str_parse_from_eq
