import NdnProofs.Props.C19
#print axioms Ndn.C19.fetch_yields_all_once_in_order
#print axioms Ndn.C19.fetch_unsegmented
#print axioms Ndn.C19.fetch_no_final_marker
#print axioms Ndn.C19.fetch_timeout_iff
#print axioms Ndn.C19.fetch_propagates
#print axioms Ndn.C19.yielded_prefix_in_order
#print axioms Ndn.C19.requests_bounded
#print axioms Ndn.C19.fetch_terminates
#print axioms Ndn.C19.segment_component_roundtrip
#print axioms Ndn.C19.segComp_is_rep
#print axioms Ndn.C19.final_block_id_names_segment_iff
#print axioms Ndn.C19.fetchB_refines
#print axioms Ndn.C19.fetchB_refines_unsegmented
#print axioms Ndn.C19.fetch_yields_all_once_in_order_names
