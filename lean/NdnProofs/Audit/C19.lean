import NdnProofs.Props.C19
#print axioms Ndn.C19.fetch_yields_all_once_in_order
#print axioms Ndn.C19.fetch_unsegmented
#print axioms Ndn.C19.fetch_no_final_marker
#print axioms Ndn.C19.fetch_timeout_iff
#print axioms Ndn.C19.fetch_propagates
#print axioms Ndn.C19.yielded_prefix_in_order
#print axioms Ndn.C19.requests_bounded
#print axioms Ndn.C19.fetch_terminates
