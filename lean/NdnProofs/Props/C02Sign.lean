import NdnProofs.Props.C02
import NdnProofs.Lemmas.Signers
/-!
# C02 (signers in the model) — DigestSha256 and HMAC-SHA256: signer, checker, and the whole round trip

`Ndn.Sign` models `DigestSha256Signer`, `HmacSha256Signer`, `sha256_digest_checker`, `params_sha256_checker`,
`union_checker`, `verify_hmac` and `HmacChecker.from_key`.  For these two schemes no ideal-scheme hypothesis is
needed: a checker's verdict is an equation between the signature value and a hash of the covered bytes, so
acceptance of a tampered copy is stated as what it is — a collision of the hash function.

`H` is SHA-256.  It stays a parameter where the statement holds for every function; the only property of it that
the round-trip theorems need is that it yields 32 bytes (`hH`), which the executable `Sha256.sha256` does
(`Sha256.sha256_length`) — the `_sha256` corollaries are about that concrete function and have no hypothesis on it.
-/
namespace Ndn.C02
open Ndn Ndn.Codec Ndn.Packet Ndn.Sign Ndn.Hmac

/-! ### the checkers' verdicts as equations -/

/-- **digest_checker_iff.** On a packet whose SignatureInfo says DigestSha256, `sha256_digest_checker` accepts
    iff there is a non-empty signature value, there are covered parts, and the value IS the hash of the covered
    bytes. -/
theorem digest_checker_iff (H : Bytes → Bytes) (si : Value) (p : Ptrs) (ht : sigTypeOf si = some 0) :
    digestChecker H si p = true ↔
      ∃ s, p.sigValue = some s ∧ s ≠ [] ∧ p.sigCovered ≠ [] ∧ s = H (concatB p.sigCovered) := by
  unfold digestChecker
  simp only [ht, if_true]
  cases hv : p.sigValue with
  | none => simp
  | some s =>
    simp only [Bool.and_eq_true, Bool.not_eq_true', beq_iff_eq, Option.some.injEq, exists_eq_left']
    constructor
    · rintro ⟨⟨h1, h2⟩, h3⟩
      exact ⟨by intro e; simp [e] at h2, by intro e; simp [e] at h1, h3.symm⟩
    · rintro ⟨h1, h2, h3⟩
      refine ⟨⟨?_, ?_⟩, h3.symm⟩
      · cases hx : p.sigCovered with
        | nil => exact absurd hx h2
        | cons _ _ => rfl
      · cases s with
        | nil => exact absurd rfl h1
        | cons _ _ => rfl

/-- **digest_checker_other_type.** `sha256_digest_checker` lets every packet through whose SignatureInfo is absent
    or names another signature type (as the code does; it is meant to sit in a `union_checker`). -/
theorem digest_checker_other_type (H : Bytes → Bytes) (si : Value) (p : Ptrs) (ht : sigTypeOf si ≠ some 0) :
    digestChecker H si p = true := by
  unfold digestChecker
  simp [ht]

/-- **verify_hmac_iff.** `verify_hmac(key, sig_ptrs)` accepts iff the signature value IS the HMAC of the covered
    bytes under the key. -/
theorem verify_hmac_iff (H : Bytes → Bytes) (key : Bytes) (p : Ptrs) :
    verifyHmac H key p = true ↔ ∃ s, p.sigValue = some s ∧ s = hmac H key (concatB p.sigCovered) := by
  unfold verifyHmac
  cases hv : p.sigValue with
  | none => simp
  | some s =>
    simp only [beq_iff_eq, Option.some.injEq, exists_eq_left']
    exact eq_comm

/-- **hmac_checker_iff.** `HmacChecker.from_key(key_name, key)` accepts iff the KeyLocator holds a non-empty Name
    under `key_name`, the SignatureType is HmacWithSha256, and `verify_hmac` accepts. -/
theorem hmac_checker_iff (H : Bytes → Bytes) (keyName : List Bytes) (key : Bytes) (si : Value) (p : Ptrs) :
    hmacChecker H keyName key si p = true ↔
      (∃ n, klNameOf si = some n ∧ n ≠ [] ∧ keyName <+: n) ∧ sigTypeOf si = some 4 ∧
        verifyHmac H key p = true := by
  unfold hmacChecker
  cases hk : klNameOf si with
  | none => simp
  | some n =>
    simp only [Bool.and_eq_true, Bool.not_eq_true', List.isPrefixOf_iff_prefix, beq_iff_eq, Option.some.injEq,
      exists_eq_left']
    constructor
    · rintro ⟨⟨⟨h1, h2⟩, h3⟩, h4⟩
      exact ⟨⟨by intro e; simp [e] at h1, h2⟩, h3, h4⟩
    · rintro ⟨⟨h1, h2⟩, h3, h4⟩
      refine ⟨⟨⟨?_, h2⟩, h3⟩, h4⟩
      cases n with
      | nil => exact absurd rfl h1
      | cons _ _ => rfl

/-- **union_checker_iff.** `union_checker(c1, …, cn)` accepts iff every one of its checkers accepts. -/
theorem union_checker_iff (cs : List (Value → Ptrs → Bool)) (si : Value) (p : Ptrs) :
    unionChecker cs si p = true ↔ ∀ c ∈ cs, c si p = true := by
  simp [unionChecker, List.all_eq_true]

/-- `verify_hmac` is `verifyPtrs` of the HMAC scheme, and both schemes are `Correct` — so the generic
    `verify_own` theorems of C02 apply to them without any hypothesis. -/
theorem verify_hmac_is_scheme (H : Bytes → Bytes) (key : Bytes) (p : Ptrs) :
    verifyHmac H key p = verifyPtrs (hmacScheme H key) p := rfl

theorem hmac_scheme_correct (H : Bytes → Bytes) (key : Bytes) : Correct (hmacScheme H key) := by
  intro m; simp [hmacScheme]

theorem digest_scheme_correct (H : Bytes → Bytes) : Correct (digestScheme H) := by
  intro m; simp [digestScheme]

/-! ### the checker accepts what the signer produced -/

/-- **digest_checker_accepts_signer.** For every non-empty list of covered parts: SignaturePtrs that report those
    parts and the value `DigestSha256Signer` wrote for them pass `sha256_digest_checker` (the hash is not empty). -/
theorem digest_checker_accepts_signer (H : Bytes → Bytes) (tn : Option (Nat × Nat)) (parts : List Bytes) (p : Ptrs)
    (hne : parts ≠ []) (hH : H (concatB parts) ≠ [])
    (hc : p.sigCovered = parts) (hv : p.sigValue = some ((digestSigner H tn).value parts)) :
    digestChecker H (digestSigner H tn).sigInfo p = true := by
  have ht : sigTypeOf (digestSigner H tn).sigInfo = some 0 := by
    cases tn with
    | none => rfl
    | some tn => rfl
  rw [digest_checker_iff H _ p ht]
  exact ⟨_, hv, hH, by rw [hc]; exact hne, by rw [hc]; rfl⟩

/-- **hmac_checker_accepts_signer.** For every key and every list of covered parts: SignaturePtrs that report
    those parts and the value `HmacSha256Signer(kl, key)` wrote for them pass `verify_hmac(key, .)`, and pass
    `HmacChecker.from_key(key_name, key)` whenever the signer's KeyLocator name is non-empty and under `key_name`. -/
theorem hmac_checker_accepts_signer (H : Bytes → Bytes) (klName keyName : List Bytes) (key : Bytes)
    (parts : List Bytes) (p : Ptrs)
    (hc : p.sigCovered = parts) (hv : p.sigValue = some ((hmacSigner H klName key).value parts)) :
    verifyHmac H key p = true ∧
    (klName ≠ [] → keyName <+: klName → hmacChecker H keyName key (hmacSigner H klName key).sigInfo p = true) := by
  have hver : verifyHmac H key p = true := by
    rw [verify_hmac_iff]; exact ⟨_, hv, by rw [hc]; rfl⟩
  refine ⟨hver, fun hne hpre => ?_⟩
  rw [hmac_checker_iff]
  exact ⟨⟨klName, rfl, hne, hpre⟩, rfl, hver⟩

/-! ### tampering: accepted only on a hash collision -/

/-- **digest_tamper_needs_collision.** A DigestSha256 packet `p'` that carries the signature value of an accepted
    packet `p` but other covered bytes is accepted only if SHA-256 collides on the two byte strings. -/
theorem digest_tamper_needs_collision (H : Bytes → Bytes) (si si' : Value) (p p' : Ptrs)
    (ht : sigTypeOf si = some 0) (ht' : sigTypeOf si' = some 0)
    (hacc : digestChecker H si p = true) (hacc' : digestChecker H si' p' = true)
    (hsv : p'.sigValue = p.sigValue) (hdiff : concatB p'.sigCovered ≠ concatB p.sigCovered) :
    concatB p'.sigCovered ≠ concatB p.sigCovered ∧ H (concatB p'.sigCovered) = H (concatB p.sigCovered) := by
  obtain ⟨s, h1, _, _, h4⟩ := (digest_checker_iff H si p ht).mp hacc
  obtain ⟨s', h1', _, _, h4'⟩ := (digest_checker_iff H si' p' ht').mp hacc'
  rw [h1, h1'] at hsv
  cases hsv
  exact ⟨hdiff, h4'.symm.trans h4⟩

/-- **digest_tamper_value_rejected.** A DigestSha256 packet with the covered bytes of an accepted packet but
    another signature value is rejected. -/
theorem digest_tamper_value_rejected (H : Bytes → Bytes) (si si' : Value) (p p' : Ptrs)
    (ht : sigTypeOf si = some 0) (ht' : sigTypeOf si' = some 0)
    (hacc : digestChecker H si p = true)
    (hcov : concatB p'.sigCovered = concatB p.sigCovered) (hsv : p'.sigValue ≠ p.sigValue) :
    digestChecker H si' p' = false := by
  obtain ⟨s, h1, _, _, h4⟩ := (digest_checker_iff H si p ht).mp hacc
  cases hd : digestChecker H si' p' with
  | false => rfl
  | true =>
    obtain ⟨s', h1', _, _, h4'⟩ := (digest_checker_iff H si' p' ht').mp hd
    rw [hcov, ← h4] at h4'
    rw [h1, h1', h4'] at hsv
    exact absurd rfl hsv

/-- **hmac_tamper_needs_collision.** SignaturePtrs `p'` that carry the signature value of SignaturePtrs `p`
    accepted under the key, but other covered bytes, are accepted by `verify_hmac` only if SHA-256 collides (on the
    two inner HMAC inputs, or on two different outer inputs). -/
theorem hmac_tamper_needs_collision (H : Bytes → Bytes) (key : Bytes) (p p' : Ptrs)
    (hacc : verifyHmac H key p = true) (hacc' : verifyHmac H key p' = true)
    (hsv : p'.sigValue = p.sigValue) (hdiff : concatB p'.sigCovered ≠ concatB p.sigCovered) :
    ∃ x y, x ≠ y ∧ H x = H y := by
  obtain ⟨s, h1, h2⟩ := (verify_hmac_iff H key p).mp hacc
  obtain ⟨s', h1', h2'⟩ := (verify_hmac_iff H key p').mp hacc'
  rw [h1, h1'] at hsv
  cases hsv
  exact hmac_collision H key _ _ hdiff (h2'.symm.trans h2)

/-- **hmac_tamper_value_rejected.** SignaturePtrs with the covered bytes of an accepted packet but another
    signature value are rejected by `verify_hmac` (hence by `HmacChecker`). -/
theorem hmac_tamper_value_rejected (H : Bytes → Bytes) (keyName : List Bytes) (key : Bytes) (si' : Value)
    (p p' : Ptrs) (hacc : verifyHmac H key p = true)
    (hcov : concatB p'.sigCovered = concatB p.sigCovered) (hsv : p'.sigValue ≠ p.sigValue) :
    verifyHmac H key p' = false ∧ hmacChecker H keyName key si' p' = false := by
  obtain ⟨s, h1, h2⟩ := (verify_hmac_iff H key p).mp hacc
  have hrej : verifyHmac H key p' = false := by
    cases hd : verifyHmac H key p' with
    | false => rfl
    | true =>
      obtain ⟨s', h1', h2'⟩ := (verify_hmac_iff H key p').mp hd
      rw [hcov, ← h2] at h2'
      rw [h1, h1', h2'] at hsv
      exact absurd rfl hsv
  refine ⟨hrej, ?_⟩
  cases hd : hmacChecker H keyName key si' p' with
  | false => rfl
  | true => rw [((hmac_checker_iff H keyName key si' p').mp hd).2.2] at hrej; exact absurd hrej (by decide)

/-! ### make_data with the signer, then parse_data, then the checker -/

theorem tlv_len_le (t : Nat) (v : Bytes) : (tlv t v).length ≤ v.length + 18 := by
  have := tlNumSize_cases t
  have := tlNumSize_cases v.length
  rw [tlv_length]; omega

/-- **sign_data_parse.** `make_data` with a signer object whose value always fills the reserved space: the wire is
    `tlv DATA (p ++ tlv SIGNATURE_VALUE (value [p]))` with `p` the encoded Name … SignatureInfo — the value is
    computed over exactly the bytes that end up in front of it —, and `parse_data` of that wire reports `[p]` as
    covered and that value as signature value, and returns the signer's SignatureInfo. -/
theorem sign_data_parse (sg : Signer) (name : List Bytes) (mi content : Value) (p : Bytes)
    (hp : encFields [nameS, metaS, contentS, dataSigInfoS] [.name name, mi, content, sg.sigInfo] = .ok p)
    (hfit : fitsFs [nameS, metaS, contentS, dataSigInfoS] [.name name, mi, content, sg.sigInfo] = true)
    (hlen : ∀ parts, (sg.value parts).length = sg.reserved)
    (hsize : p.length + sg.reserved + 64 < 2 ^ 64) :
    makeDataS sg name mi content = .ok { wire := tlv 6 (p ++ tlv 23 (sg.value [p])), covered := [p] } ∧
    parseData (tlv 6 (p ++ tlv 23 (sg.value [p]))) =
      .ok (List.replicate 5 (Value.uint 0) ++ [.name name, mi, content, sg.sigInfo, .bytes (sg.value [p])],
           { sigCovered := [p], sigValue := some (sg.value [p]), digestCovered := [], digestValue := none }) := by
  have h0 := C01.make_data_wire name mi content sg.sigInfo
    { reserved := sg.reserved, sig := List.replicate sg.reserved 0 } p hp (by simp) (by simp) (by simp; omega)
  have h1 := C01.make_data_wire name mi content sg.sigInfo
    { reserved := sg.reserved, sig := sg.value [p] } p hp (by simp [hlen]) (by simp [hlen]) (by simp; omega)
  refine ⟨?_, ?_⟩
  · unfold makeDataS signWith
    simp only [h0, bind, Except.bind, h1]
  · have := tlv_len_le 23 (sg.value [p])
    exact parsed_cover_is_signed_portion_data name mi content sg.sigInfo (sg.value [p]) p hp hfit
      (by rw [List.length_append]; rw [hlen] at this; omega) (by rw [hlen]; omega)

/-- **digest_signed_data_accepted.** ONE statement about the packet model: `make_data` with a
    `DigestSha256Signer`, then `parse_data`, then `sha256_digest_checker` = accept. -/
theorem digest_signed_data_accepted (H : Bytes → Bytes) (hH : ∀ x, (H x).length = 32) (tn : Option (Nat × Nat))
    (name : List Bytes) (mi content : Value) (p : Bytes)
    (hp : encFields [nameS, metaS, contentS, dataSigInfoS]
      [.name name, mi, content, (digestSigner H tn).sigInfo] = .ok p)
    (hfit : fitsFs [nameS, metaS, contentS, dataSigInfoS]
      [.name name, mi, content, (digestSigner H tn).sigInfo] = true)
    (hsize : p.length + 96 < 2 ^ 64) :
    (makeDataS (digestSigner H tn) name mi content >>= fun m => checkData (digestChecker H) m.wire) = .ok true := by
  obtain ⟨hm, hparse⟩ := sign_data_parse (digestSigner H tn) name mi content p hp hfit
    (fun parts => hH _) (by simp only [digestSigner]; omega)
  simp only [hm, bind, Except.bind, checkData, hparse, pure, Except.pure]
  congr 1
  exact digest_checker_accepts_signer H tn [p] _ (by simp)
    (by intro e; have := hH (concatB [p]); rw [e] at this; simp at this) rfl rfl

/-- **hmac_signed_data_accepted.** `make_data` with an `HmacSha256Signer(kl, key)`, then `parse_data`, then
    `HmacChecker.from_key(key_name, key)` — alone, and behind `union_checker(sha256_digest_checker, .)` as an
    application installs it — = accept, for every key, whenever `kl` is non-empty and under `key_name`. -/
theorem hmac_signed_data_accepted (H : Bytes → Bytes) (hH : ∀ x, (H x).length = 32) (klName keyName : List Bytes)
    (key : Bytes) (name : List Bytes) (mi content : Value) (p : Bytes)
    (hp : encFields [nameS, metaS, contentS, dataSigInfoS]
      [.name name, mi, content, (hmacSigner H klName key).sigInfo] = .ok p)
    (hfit : fitsFs [nameS, metaS, contentS, dataSigInfoS]
      [.name name, mi, content, (hmacSigner H klName key).sigInfo] = true)
    (hne : klName ≠ []) (hpre : keyName <+: klName)
    (hsize : p.length + 96 < 2 ^ 64) :
    (makeDataS (hmacSigner H klName key) name mi content >>= fun m =>
      checkData (hmacChecker H keyName key) m.wire) = .ok true ∧
    (makeDataS (hmacSigner H klName key) name mi content >>= fun m =>
      checkData (unionChecker [digestChecker H, hmacChecker H keyName key]) m.wire) = .ok true := by
  obtain ⟨hm, hparse⟩ := sign_data_parse (hmacSigner H klName key) name mi content p hp hfit
    (fun parts => hH _) (by simp only [hmacSigner]; omega)
  have hacc := (hmac_checker_accepts_signer H klName keyName key [p]
    { sigCovered := [p], sigValue := some ((hmacSigner H klName key).value [p]), digestCovered := [],
      digestValue := none } rfl rfl).2 hne hpre
  simp only [hm, bind, Except.bind, checkData, hparse, pure, Except.pure]
  refine ⟨by congr 1, ?_⟩
  congr 1
  rw [union_checker_iff]
  intro c hc
  simp only [List.mem_cons, List.mem_nil_iff, or_false] at hc
  rcases hc with rfl | rfl
  · exact digest_checker_other_type H _ _ (by simp [hmacSigner, sigTypeOf])
  · exact hacc

/-! ### make_interest with the signer, then parse_interest, then the checkers -/

/-- what one `make_interest` call with signer output `sig` yields on a name whose digest component (appended by the
    call, or a caller-supplied placeholder) sits between `pre` and `post`; `covN` are the name chunks handed to the
    signer (they do not depend on `sig`) -/
def InterestShape (H : Bytes → Bytes) (mk : Option SignerOut → Except PyErr Made) (R : Nat) (pre post : List Bytes)
    (midB tailA : Bytes) (covN : List Bytes) : Prop :=
  ∀ sig : Bytes, sig.length = R →
    mk (some { reserved := R, sig := sig }) =
      .ok { wire := tlv 5 (tlv 7 (concatB (pre ++ (2 :: 32 :: H (tailA ++ tlv 46 sig)) :: post)) ++ midB ++ tailA ++
              tlv 46 sig),
            covered := covN ++ [tailA],
            finalName := pre ++ (2 :: 32 :: H (tailA ++ tlv 46 sig)) :: post,
            digestCovered := tailA ++ tlv 46 sig }

/-- `make_interest` on a name without digest component (the component is appended) has that shape -/
theorem shape_appended (H : Bytes → Bytes) (hH : ∀ x, (H x).length = 32) (name : List Bytes) (mid : List Value)
    (appParam sigInfo : Value) (R : Nat) (midB tailA : Bytes)
    (hmid : encFields [.bool 33, .bool 18, linksS, .uint 10 (some 4), .uint 12 none, .uint 34 (some 1)] mid = .ok midB)
    (htail : encFields [.bytes 36 false, intSigInfoS] [effApp true appParam, sigInfo] = .ok tailA)
    (hnd : ∀ c ∈ name, isDigestComp c = false)
    (hsize : (concatB name).length + midB.length + tailA.length + R + 128 < 2 ^ 64) :
    InterestShape H (fun s => makeInterest H name mid appParam sigInfo s) R name [] midB tailA
      (nameChunks (name ++ [digestPlaceholder]) (some name.length)) := by
  intro sig hsig
  show makeInterest H name mid appParam sigInfo (some { reserved := R, sig := sig }) = _
  rw [C01.make_interest_is_core H name mid appParam sigInfo _ hnd]
  have hw := C01.make_interest_wire H name mid (effApp true appParam) sigInfo { reserved := R, sig := sig } midB tailA
    hmid htail (by simp [hsig]) (by simp [hsig]) (by simp; omega) _ _ rfl rfl
    (by rw [placeDigest_appended, concatB_at_length]
        simp only [List.length_cons, hH, concatB, List.length_nil]; omega)
  rw [hw, nameChunks_placeDigest, placeDigest_appended]

/-- `make_interest` on a name `pre ++ [02 20 x] ++ post` with a caller-supplied placeholder has that shape -/
theorem shape_placeholder (H : Bytes → Bytes) (hH : ∀ x, (H x).length = 32) (pre post : List Bytes) (x : Bytes)
    (mid : List Value) (appParam sigInfo : Value) (R : Nat) (midB tailA : Bytes)
    (hmid : encFields [.bool 33, .bool 18, linksS, .uint 10 (some 4), .uint 12 none, .uint 34 (some 1)] mid = .ok midB)
    (htail : encFields [.bytes 36 false, intSigInfoS] [effApp true appParam, sigInfo] = .ok tailA)
    (hx : x.length = 32)
    (hndpre : ∀ c ∈ pre, isDigestComp c = false) (hndpost : ∀ c ∈ post, isDigestComp c = false)
    (hsize : (concatB pre).length + (concatB post).length + midB.length + tailA.length + R + 128 < 2 ^ 64) :
    InterestShape H (fun s => makeInterest H (pre ++ (2 :: 32 :: x) :: post) mid appParam sigInfo s) R pre post
      midB tailA (nameChunks (pre ++ (2 :: 32 :: x) :: post) (some pre.length)) := by
  intro sig hsig
  have hneed : (!isNone (effApp (some ({ reserved := R, sig := sig } : SignerOut)).isSome appParam)) = true := by
    cases appParam <;> simp [effApp, isNone]
  show makeInterest H (pre ++ (2 :: 32 :: x) :: post) mid appParam sigInfo (some { reserved := R, sig := sig }) = _
  rw [C01.make_interest_is_core_at H pre post (2 :: 32 :: x) mid appParam sigInfo _ hneed hndpre
    (digestComp_isDigest x) hndpost]
  have hw := C01.make_interest_wire_at H (pre ++ (2 :: 32 :: x) :: post) pre.length mid (effApp true appParam) sigInfo
    { reserved := R, sig := sig } midB tailA hmid htail (by simp [hsig]) (by simp [hsig]) (by simp; omega) _ _ rfl rfl
    (by rw [placeDigest_placeholder pre post x _ hx, concatB_at_length]
        simp only [List.length_cons, hH]; omega)
  simp only [Option.isSome_some]
  rw [hw, nameChunks_placeDigest, placeDigest_placeholder pre post x _ hx]

/-- **sign_interest_parse.** One `make_interest` call with a signer object whose value always fills the reserved
    space, on either name shape: the signer is handed the name chunks around the digest component and then
    ApplicationParameters + SignatureInfo (`tailA`); `parse_interest` of the made wire returns the signer's
    SignatureInfo, reports as signature value the value computed over those very bytes, as covered parts the same
    bytes (`pre ++ post`, then `tailA`), as digest range ApplicationParameters … end and as digest value its hash —
    which is also the digest component of the returned final name; `params_sha256_checker` accepts. -/
theorem sign_interest_parse (H : Bytes → Bytes) (hH : ∀ x, (H x).length = 32) (sg : Signer)
    (mk : Value → Option SignerOut → Except PyErr Made) (pre post : List Bytes) (mid : List Value) (app : Value)
    (midB tailA : Bytes) (covN : List Bytes)
    (hmid : encFields [.bool 33, .bool 18, linksS, .uint 10 (some 4), .uint 12 none, .uint 34 (some 1)] mid = .ok midB)
    (htail : encFields [.bytes 36 false, intSigInfoS] [app, sg.sigInfo] = .ok tailA)
    (hlen : ∀ parts, (sg.value parts).length = sg.reserved)
    (hpre : pre.all compOk = true) (hpost : post.all compOk = true)
    (hndpre : ∀ c ∈ pre, isDigestComp c = false) (hndpost : ∀ c ∈ post, isDigestComp c = false)
    (hfitmid : fitsFs [.bool 33, .bool 18, linksS, .uint 10 (some 4), .uint 12 none, .uint 34 (some 1)] mid = true)
    (hfittail : fitsFs [.bytes 36 false, intSigInfoS] [app, sg.sigInfo] = true)
    (hsize : (concatB pre).length + (concatB post).length + midB.length + tailA.length + sg.reserved + 128 < 2 ^ 64)
    (hcovN : concatB covN = concatB pre ++ concatB post)
    (hmk : InterestShape H (mk sg.sigInfo) sg.reserved pre post midB tailA covN) :
    ∃ m vals ptrs, signWith sg mk = .ok m ∧ parseInterest m.wire = .ok (vals, ptrs) ∧
      m.covered = covN ++ [tailA] ∧
      concatB m.covered = concatB pre ++ concatB post ++ tailA ∧
      vals[17]? = some sg.sigInfo ∧
      ptrs.sigValue = some (sg.value m.covered) ∧
      ptrs.sigCovered = pre ++ post ++ [tailA] ∧
      concatB ptrs.sigCovered = concatB m.covered ∧
      ptrs.digestCovered = [m.digestCovered] ∧
      ptrs.digestValue = some (H m.digestCovered) ∧
      m.finalName = pre ++ (2 :: 32 :: H m.digestCovered) :: post ∧
      paramsCheck H ptrs = true := by
  have h0 := hmk (List.replicate sg.reserved 0) (by simp)
  have h1 := hmk (sg.value (covN ++ [tailA])) (hlen _)
  generalize hsig : sg.value (covN ++ [tailA]) = sig at h1
  have hsl : sig.length = sg.reserved := by rw [← hsig]; exact hlen _
  have hmade : signWith sg mk = mk sg.sigInfo (some { reserved := sg.reserved, sig := sig }) := by
    unfold signWith
    simp only [h0, bind, Except.bind, hsig]
  rw [h1] at hmade
  have hd := hH (tailA ++ tlv 46 sig)
  have h46 := tlv_len_le 46 sig
  have hwl : (tlv 7 (concatB (pre ++ (2 :: 32 :: H (tailA ++ tlv 46 sig)) :: post)) ++ midB ++ tailA ++
      tlv 46 sig).length < 2 ^ 64 := by
    have h7 := tlv_len_le 7 (concatB (pre ++ (2 :: 32 :: H (tailA ++ tlv 46 sig)) :: post))
    rw [concatB_at_length] at h7
    simp only [List.length_cons, hd] at h7
    simp only [List.length_append]
    omega
  have hparse := parseInterest_signed_at pre post _ mid app sg.sigInfo sig midB tailA hmid htail hpre hpost
    hndpre hndpost hd hfitmid hfittail (by omega) hwl
  obtain ⟨m1, m2, m3, m4, m5, m6, rfl⟩ := six_of_length mid (fitsFs_length _ _ hfitmid)
  have hcov : concatB (covN ++ [tailA]) = concatB pre ++ concatB post ++ tailA := by
    rw [concatB_app, hcovN]; simp [concatB]
  refine ⟨_, _, _, hmade, hparse, rfl, hcov, by simp [List.replicate], by simp only [hsig], rfl, ?_, rfl, rfl, rfl, ?_⟩
  · rw [hcov]; simp [concatB_app, concatB, List.append_assoc]
  · rw [params_digest_iff]
    refine ⟨_, rfl, ?_, by simp, by simp [concatB]⟩
    intro e; rw [e] at hd; simp at hd

/-- acceptance on either name shape, DigestSha256: `sha256_digest_checker` and the automatic
    `params_sha256_checker` (combined as `union_checker` does) accept the parsed packet -/
theorem digest_interest_generic (H : Bytes → Bytes) (hH : ∀ x, (H x).length = 32) (tn : Option (Nat × Nat))
    (mk : Value → Option SignerOut → Except PyErr Made) (pre post : List Bytes) (mid : List Value) (app : Value)
    (midB tailA : Bytes) (covN : List Bytes)
    (hmid : encFields [.bool 33, .bool 18, linksS, .uint 10 (some 4), .uint 12 none, .uint 34 (some 1)] mid = .ok midB)
    (htail : encFields [.bytes 36 false, intSigInfoS] [app, (digestSigner H tn).sigInfo] = .ok tailA)
    (hpre : pre.all compOk = true) (hpost : post.all compOk = true)
    (hndpre : ∀ c ∈ pre, isDigestComp c = false) (hndpost : ∀ c ∈ post, isDigestComp c = false)
    (hfitmid : fitsFs [.bool 33, .bool 18, linksS, .uint 10 (some 4), .uint 12 none, .uint 34 (some 1)] mid = true)
    (hfittail : fitsFs [.bytes 36 false, intSigInfoS] [app, (digestSigner H tn).sigInfo] = true)
    (hsize : (concatB pre).length + (concatB post).length + midB.length + tailA.length + 160 < 2 ^ 64)
    (hcovN : concatB covN = concatB pre ++ concatB post)
    (hmk : InterestShape H (mk (digestSigner H tn).sigInfo) 32 pre post midB tailA covN) :
    (signWith (digestSigner H tn) mk >>= fun m =>
      checkInterest (unionChecker [digestChecker H, paramsChecker H]) m.wire) = .ok true := by
  obtain ⟨m, vals, ptrs, hm, hparse, _, _, hsi, hsv, hsc, hcc, _, _, _, hpc⟩ :=
    sign_interest_parse H hH (digestSigner H tn) mk pre post mid app midB tailA covN hmid htail (fun _ => hH _)
      hpre hpost hndpre hndpost hfitmid hfittail (by simp only [digestSigner]; omega) hcovN hmk
  simp only [hm, bind, Except.bind, checkInterest, hparse, pure, Except.pure, hsi, Option.getD_some]
  congr 1
  rw [union_checker_iff]
  intro c hc
  simp only [List.mem_cons, List.mem_nil_iff, or_false] at hc
  have ht : sigTypeOf (digestSigner H tn).sigInfo = some 0 := by
    cases tn with
    | none => rfl
    | some tn => rfl
  rcases hc with rfl | rfl
  · rw [digest_checker_iff H _ _ ht]
    refine ⟨_, hsv, ?_, by rw [hsc]; simp, by rw [hcc]; rfl⟩
    intro e
    have := hH (concatB m.covered)
    simp only [digestSigner] at e
    rw [e] at this; simp at this
  · exact hpc

/-- acceptance on either name shape, HMAC: `HmacChecker.from_key(key_name, key)` behind
    `union_checker(sha256_digest_checker, .)` and the automatic `params_sha256_checker` accept the parsed packet -/
theorem hmac_interest_generic (H : Bytes → Bytes) (hH : ∀ x, (H x).length = 32) (klName keyName : List Bytes)
    (key : Bytes) (mk : Value → Option SignerOut → Except PyErr Made) (pre post : List Bytes) (mid : List Value)
    (app : Value) (midB tailA : Bytes) (covN : List Bytes)
    (hmid : encFields [.bool 33, .bool 18, linksS, .uint 10 (some 4), .uint 12 none, .uint 34 (some 1)] mid = .ok midB)
    (htail : encFields [.bytes 36 false, intSigInfoS] [app, (hmacSigner H klName key).sigInfo] = .ok tailA)
    (hpre : pre.all compOk = true) (hpost : post.all compOk = true)
    (hndpre : ∀ c ∈ pre, isDigestComp c = false) (hndpost : ∀ c ∈ post, isDigestComp c = false)
    (hfitmid : fitsFs [.bool 33, .bool 18, linksS, .uint 10 (some 4), .uint 12 none, .uint 34 (some 1)] mid = true)
    (hfittail : fitsFs [.bytes 36 false, intSigInfoS] [app, (hmacSigner H klName key).sigInfo] = true)
    (hne : klName ≠ []) (hkn : keyName <+: klName)
    (hsize : (concatB pre).length + (concatB post).length + midB.length + tailA.length + 160 < 2 ^ 64)
    (hcovN : concatB covN = concatB pre ++ concatB post)
    (hmk : InterestShape H (mk (hmacSigner H klName key).sigInfo) 32 pre post midB tailA covN) :
    (signWith (hmacSigner H klName key) mk >>= fun m =>
      checkInterest (unionChecker [digestChecker H, hmacChecker H keyName key, paramsChecker H]) m.wire)
      = .ok true := by
  obtain ⟨m, vals, ptrs, hm, hparse, _, _, hsi, hsv, _, hcc, _, _, _, hpc⟩ :=
    sign_interest_parse H hH (hmacSigner H klName key) mk pre post mid app midB tailA covN hmid htail
      (fun _ => hH _) hpre hpost hndpre hndpost hfitmid hfittail (by simp only [hmacSigner]; omega) hcovN hmk
  simp only [hm, bind, Except.bind, checkInterest, hparse, pure, Except.pure, hsi, Option.getD_some]
  congr 1
  rw [union_checker_iff]
  intro c hc
  simp only [List.mem_cons, List.mem_nil_iff, or_false] at hc
  rcases hc with rfl | rfl | rfl
  · exact digest_checker_other_type H _ _ (by simp [hmacSigner, sigTypeOf])
  · rw [hmac_checker_iff]
    refine ⟨⟨klName, rfl, hne, hkn⟩, rfl, ?_⟩
    rw [verify_hmac_iff]
    exact ⟨_, hsv, by rw [hcc]; rfl⟩
  · exact hpc

/-- **digest_signed_interest_accepted.** ONE statement about the packet model: `make_interest` with a
    `DigestSha256Signer` on a name without digest component (the component is appended), then `parse_interest`,
    then `sha256_digest_checker` and `params_sha256_checker` = accept. -/
theorem digest_signed_interest_accepted (H : Bytes → Bytes) (hH : ∀ x, (H x).length = 32) (tn : Option (Nat × Nat))
    (name : List Bytes) (mid : List Value) (appParam : Value) (midB tailA : Bytes)
    (hmid : encFields [.bool 33, .bool 18, linksS, .uint 10 (some 4), .uint 12 none, .uint 34 (some 1)] mid = .ok midB)
    (htail : encFields [.bytes 36 false, intSigInfoS] [effApp true appParam, (digestSigner H tn).sigInfo] = .ok tailA)
    (hname : name.all compOk = true) (hnd : ∀ c ∈ name, isDigestComp c = false)
    (hfitmid : fitsFs [.bool 33, .bool 18, linksS, .uint 10 (some 4), .uint 12 none, .uint 34 (some 1)] mid = true)
    (hfittail : fitsFs [.bytes 36 false, intSigInfoS] [effApp true appParam, (digestSigner H tn).sigInfo] = true)
    (hsize : (concatB name).length + midB.length + tailA.length + 160 < 2 ^ 64) :
    (makeInterestS H (digestSigner H tn) name mid appParam >>= fun m =>
      checkInterest (unionChecker [digestChecker H, paramsChecker H]) m.wire) = .ok true :=
  digest_interest_generic H hH tn _ name [] mid _ midB tailA _ hmid htail hname rfl hnd (by simp) hfitmid hfittail
    (by simp only [concatB, List.length_nil]; omega) (by rw [concatB_nameChunks_at])
    (shape_appended H hH name mid appParam _ 32 midB tailA hmid htail hnd (by omega))

/-- **digest_signed_interest_placeholder_accepted.** The same for a name `pre ++ [02 20 x] ++ post` that already
    carries a caller-supplied digest placeholder at any position. -/
theorem digest_signed_interest_placeholder_accepted (H : Bytes → Bytes) (hH : ∀ x, (H x).length = 32)
    (tn : Option (Nat × Nat)) (pre post : List Bytes) (x : Bytes) (mid : List Value) (appParam : Value)
    (midB tailA : Bytes)
    (hmid : encFields [.bool 33, .bool 18, linksS, .uint 10 (some 4), .uint 12 none, .uint 34 (some 1)] mid = .ok midB)
    (htail : encFields [.bytes 36 false, intSigInfoS] [effApp true appParam, (digestSigner H tn).sigInfo] = .ok tailA)
    (hx : x.length = 32) (hpre : pre.all compOk = true) (hpost : post.all compOk = true)
    (hndpre : ∀ c ∈ pre, isDigestComp c = false) (hndpost : ∀ c ∈ post, isDigestComp c = false)
    (hfitmid : fitsFs [.bool 33, .bool 18, linksS, .uint 10 (some 4), .uint 12 none, .uint 34 (some 1)] mid = true)
    (hfittail : fitsFs [.bytes 36 false, intSigInfoS] [effApp true appParam, (digestSigner H tn).sigInfo] = true)
    (hsize : (concatB pre).length + (concatB post).length + midB.length + tailA.length + 160 < 2 ^ 64) :
    (makeInterestS H (digestSigner H tn) (pre ++ (2 :: 32 :: x) :: post) mid appParam >>= fun m =>
      checkInterest (unionChecker [digestChecker H, paramsChecker H]) m.wire) = .ok true :=
  digest_interest_generic H hH tn _ pre post mid _ midB tailA _ hmid htail hpre hpost hndpre hndpost hfitmid hfittail
    hsize (concatB_nameChunks_at pre post _)
    (shape_placeholder H hH pre post x mid appParam _ 32 midB tailA hmid htail hx hndpre hndpost (by omega))

/-- **hmac_signed_interest_accepted.** `make_interest` with an `HmacSha256Signer(kl, key)` on a name without
    digest component, then `parse_interest`, then `union_checker(sha256_digest_checker,
    HmacChecker.from_key(key_name, key))` and `params_sha256_checker` = accept, for every key, whenever `kl` is
    non-empty and under `key_name`. -/
theorem hmac_signed_interest_accepted (H : Bytes → Bytes) (hH : ∀ x, (H x).length = 32) (klName keyName : List Bytes)
    (key : Bytes) (name : List Bytes) (mid : List Value) (appParam : Value) (midB tailA : Bytes)
    (hmid : encFields [.bool 33, .bool 18, linksS, .uint 10 (some 4), .uint 12 none, .uint 34 (some 1)] mid = .ok midB)
    (htail : encFields [.bytes 36 false, intSigInfoS]
      [effApp true appParam, (hmacSigner H klName key).sigInfo] = .ok tailA)
    (hname : name.all compOk = true) (hnd : ∀ c ∈ name, isDigestComp c = false)
    (hfitmid : fitsFs [.bool 33, .bool 18, linksS, .uint 10 (some 4), .uint 12 none, .uint 34 (some 1)] mid = true)
    (hfittail : fitsFs [.bytes 36 false, intSigInfoS]
      [effApp true appParam, (hmacSigner H klName key).sigInfo] = true)
    (hne : klName ≠ []) (hkn : keyName <+: klName)
    (hsize : (concatB name).length + midB.length + tailA.length + 160 < 2 ^ 64) :
    (makeInterestS H (hmacSigner H klName key) name mid appParam >>= fun m =>
      checkInterest (unionChecker [digestChecker H, hmacChecker H keyName key, paramsChecker H]) m.wire)
      = .ok true :=
  hmac_interest_generic H hH klName keyName key _ name [] mid _ midB tailA _ hmid htail hname rfl hnd (by simp)
    hfitmid hfittail hne hkn (by simp only [concatB, List.length_nil]; omega) (by rw [concatB_nameChunks_at])
    (shape_appended H hH name mid appParam _ 32 midB tailA hmid htail hnd (by omega))

/-- **hmac_signed_interest_placeholder_accepted.** The same for a name with a caller-supplied digest placeholder
    at any position. -/
theorem hmac_signed_interest_placeholder_accepted (H : Bytes → Bytes) (hH : ∀ x, (H x).length = 32)
    (klName keyName : List Bytes) (key : Bytes) (pre post : List Bytes) (x : Bytes) (mid : List Value)
    (appParam : Value) (midB tailA : Bytes)
    (hmid : encFields [.bool 33, .bool 18, linksS, .uint 10 (some 4), .uint 12 none, .uint 34 (some 1)] mid = .ok midB)
    (htail : encFields [.bytes 36 false, intSigInfoS]
      [effApp true appParam, (hmacSigner H klName key).sigInfo] = .ok tailA)
    (hx : x.length = 32) (hpre : pre.all compOk = true) (hpost : post.all compOk = true)
    (hndpre : ∀ c ∈ pre, isDigestComp c = false) (hndpost : ∀ c ∈ post, isDigestComp c = false)
    (hfitmid : fitsFs [.bool 33, .bool 18, linksS, .uint 10 (some 4), .uint 12 none, .uint 34 (some 1)] mid = true)
    (hfittail : fitsFs [.bytes 36 false, intSigInfoS]
      [effApp true appParam, (hmacSigner H klName key).sigInfo] = true)
    (hne : klName ≠ []) (hkn : keyName <+: klName)
    (hsize : (concatB pre).length + (concatB post).length + midB.length + tailA.length + 160 < 2 ^ 64) :
    (makeInterestS H (hmacSigner H klName key) (pre ++ (2 :: 32 :: x) :: post) mid appParam >>= fun m =>
      checkInterest (unionChecker [digestChecker H, hmacChecker H keyName key, paramsChecker H]) m.wire)
      = .ok true :=
  hmac_interest_generic H hH klName keyName key _ pre post mid _ midB tailA _ hmid htail hpre hpost hndpre hndpost
    hfitmid hfittail hne hkn hsize (concatB_nameChunks_at pre post _)
    (shape_placeholder H hH pre post x mid appParam _ 32 midB tailA hmid htail hx hndpre hndpost (by omega))

/-! ### the executable SHA-256: no hypothesis on the hash function left -/

/-- **digest_signed_data_accepted_sha256.** `digest_signed_data_accepted` for the executable SHA-256 of the model
    (the function the driver runs and the check compares with hashlib). -/
theorem digest_signed_data_accepted_sha256 (tn : Option (Nat × Nat)) (name : List Bytes) (mi content : Value)
    (p : Bytes)
    (hp : encFields [nameS, metaS, contentS, dataSigInfoS]
      [.name name, mi, content, (digestSigner Sha256.sha256 tn).sigInfo] = .ok p)
    (hfit : fitsFs [nameS, metaS, contentS, dataSigInfoS]
      [.name name, mi, content, (digestSigner Sha256.sha256 tn).sigInfo] = true)
    (hsize : p.length + 96 < 2 ^ 64) :
    (makeDataS (digestSigner Sha256.sha256 tn) name mi content >>= fun m =>
      checkData (digestChecker Sha256.sha256) m.wire) = .ok true :=
  digest_signed_data_accepted _ Sha256.sha256_length tn name mi content p hp hfit hsize

/-- **hmac_signed_data_accepted_sha256.** `hmac_signed_data_accepted` for the executable HMAC-SHA256. -/
theorem hmac_signed_data_accepted_sha256 (klName keyName : List Bytes) (key : Bytes) (name : List Bytes)
    (mi content : Value) (p : Bytes)
    (hp : encFields [nameS, metaS, contentS, dataSigInfoS]
      [.name name, mi, content, (hmacSigner Sha256.sha256 klName key).sigInfo] = .ok p)
    (hfit : fitsFs [nameS, metaS, contentS, dataSigInfoS]
      [.name name, mi, content, (hmacSigner Sha256.sha256 klName key).sigInfo] = true)
    (hne : klName ≠ []) (hpre : keyName <+: klName) (hsize : p.length + 96 < 2 ^ 64) :
    (makeDataS (hmacSigner Sha256.sha256 klName key) name mi content >>= fun m =>
      checkData (unionChecker [digestChecker Sha256.sha256, hmacChecker Sha256.sha256 keyName key]) m.wire)
      = .ok true :=
  (hmac_signed_data_accepted _ Sha256.sha256_length klName keyName key name mi content p hp hfit hne hpre hsize).2

/-- **digest_signed_interest_accepted_sha256.** Both name shapes at once for the executable SHA-256: a name
    without digest component (`post = []`, `ph = none`: the component is appended) or with a caller-supplied
    placeholder `02 20 x` between `pre` and `post`. -/
theorem digest_signed_interest_accepted_sha256 (tn : Option (Nat × Nat)) (pre post : List Bytes)
    (ph : Option Bytes) (mid : List Value) (appParam : Value) (midB tailA : Bytes)
    (hmid : encFields [.bool 33, .bool 18, linksS, .uint 10 (some 4), .uint 12 none, .uint 34 (some 1)] mid = .ok midB)
    (htail : encFields [.bytes 36 false, intSigInfoS]
      [effApp true appParam, (digestSigner Sha256.sha256 tn).sigInfo] = .ok tailA)
    (hph : match ph with | none => post = [] | some x => x.length = 32)
    (hpre : pre.all compOk = true) (hpost : post.all compOk = true)
    (hndpre : ∀ c ∈ pre, isDigestComp c = false) (hndpost : ∀ c ∈ post, isDigestComp c = false)
    (hfitmid : fitsFs [.bool 33, .bool 18, linksS, .uint 10 (some 4), .uint 12 none, .uint 34 (some 1)] mid = true)
    (hfittail : fitsFs [.bytes 36 false, intSigInfoS]
      [effApp true appParam, (digestSigner Sha256.sha256 tn).sigInfo] = true)
    (hsize : (concatB pre).length + (concatB post).length + midB.length + tailA.length + 160 < 2 ^ 64) :
    (makeInterestS Sha256.sha256 (digestSigner Sha256.sha256 tn)
        (match ph with | none => pre | some x => pre ++ (2 :: 32 :: x) :: post) mid appParam >>= fun m =>
      checkInterest (unionChecker [digestChecker Sha256.sha256, paramsChecker Sha256.sha256]) m.wire) = .ok true := by
  cases ph with
  | none =>
    subst hph
    exact digest_signed_interest_accepted _ Sha256.sha256_length tn pre mid appParam midB tailA hmid htail hpre hndpre
      hfitmid hfittail (by simp only [concatB, List.length_nil] at hsize; omega)
  | some x =>
    exact digest_signed_interest_placeholder_accepted _ Sha256.sha256_length tn pre post x mid appParam midB tailA
      hmid htail hph hpre hpost hndpre hndpost hfitmid hfittail hsize

/-- **hmac_signed_interest_accepted_sha256.** Both name shapes at once for the executable HMAC-SHA256. -/
theorem hmac_signed_interest_accepted_sha256 (klName keyName : List Bytes) (key : Bytes) (pre post : List Bytes)
    (ph : Option Bytes) (mid : List Value) (appParam : Value) (midB tailA : Bytes)
    (hmid : encFields [.bool 33, .bool 18, linksS, .uint 10 (some 4), .uint 12 none, .uint 34 (some 1)] mid = .ok midB)
    (htail : encFields [.bytes 36 false, intSigInfoS]
      [effApp true appParam, (hmacSigner Sha256.sha256 klName key).sigInfo] = .ok tailA)
    (hph : match ph with | none => post = [] | some x => x.length = 32)
    (hpre : pre.all compOk = true) (hpost : post.all compOk = true)
    (hndpre : ∀ c ∈ pre, isDigestComp c = false) (hndpost : ∀ c ∈ post, isDigestComp c = false)
    (hfitmid : fitsFs [.bool 33, .bool 18, linksS, .uint 10 (some 4), .uint 12 none, .uint 34 (some 1)] mid = true)
    (hfittail : fitsFs [.bytes 36 false, intSigInfoS]
      [effApp true appParam, (hmacSigner Sha256.sha256 klName key).sigInfo] = true)
    (hne : klName ≠ []) (hkn : keyName <+: klName)
    (hsize : (concatB pre).length + (concatB post).length + midB.length + tailA.length + 160 < 2 ^ 64) :
    (makeInterestS Sha256.sha256 (hmacSigner Sha256.sha256 klName key)
        (match ph with | none => pre | some x => pre ++ (2 :: 32 :: x) :: post) mid appParam >>= fun m =>
      checkInterest (unionChecker [digestChecker Sha256.sha256, hmacChecker Sha256.sha256 keyName key,
        paramsChecker Sha256.sha256]) m.wire) = .ok true := by
  cases ph with
  | none =>
    subst hph
    exact hmac_signed_interest_accepted _ Sha256.sha256_length klName keyName key pre mid appParam midB tailA hmid htail
      hpre hndpre hfitmid hfittail hne hkn (by simp only [concatB, List.length_nil] at hsize; omega)
  | some x =>
    exact hmac_signed_interest_placeholder_accepted _ Sha256.sha256_length klName keyName key pre post x mid appParam
      midB tailA hmid htail hph hpre hpost hndpre hndpost hfitmid hfittail hne hkn hsize

/-! ### non-vacuity (kernel evaluation with the executable SHA-256): the hypotheses are satisfiable, and a changed
    byte is rejected -/

private def okTrue : Except PyErr Bool → Bool
  | .ok true => true
  | _ => false
private def okFalse : Except PyErr Bool → Bool
  | .ok false => true
  | _ => false

/-- a DigestSha256-signed Data is accepted; the same wire with one Content byte changed is rejected -/
example :
    okTrue (makeDataS (digestSigner Sha256.sha256 none) [[8, 1, 97]] .none (.bytes [120, 121]) >>= fun m =>
      checkData (digestChecker Sha256.sha256) m.wire) = true ∧
    okFalse (makeDataS (digestSigner Sha256.sha256 none) [[8, 1, 97]] .none (.bytes [120, 121]) >>= fun m =>
      checkData (digestChecker Sha256.sha256) (m.wire.set 9 122)) = true := by
  decide +kernel

/-- an HMAC-signed Interest whose name carries a placeholder in the MIDDLE (key of 3 bytes, KeyLocator /k/h, checker
    for /k) is accepted by union_checker(sha256_digest_checker, HmacChecker) + params_sha256_checker; with another
    key it is rejected -/
example :
    okTrue (makeInterestS Sha256.sha256 (hmacSigner Sha256.sha256 [[8, 1, 107], [8, 1, 104]] [1, 2, 3])
        [[8, 1, 97], 2 :: 32 :: List.replicate 32 0, [8, 1, 98]]
        [.none, .bool, .none, .uint 5, .uint 4000, .none] (.bytes [120, 121]) >>= fun m =>
      checkInterest (unionChecker [digestChecker Sha256.sha256, hmacChecker Sha256.sha256 [[8, 1, 107]] [1, 2, 3],
        paramsChecker Sha256.sha256]) m.wire) = true ∧
    okFalse (makeInterestS Sha256.sha256 (hmacSigner Sha256.sha256 [[8, 1, 107], [8, 1, 104]] [1, 2, 3])
        [[8, 1, 97], 2 :: 32 :: List.replicate 32 0, [8, 1, 98]]
        [.none, .bool, .none, .uint 5, .uint 4000, .none] (.bytes [120, 121]) >>= fun m =>
      checkInterest (hmacChecker Sha256.sha256 [[8, 1, 107]] [1, 2, 4]) m.wire) = true := by
  decide +kernel

end Ndn.C02
