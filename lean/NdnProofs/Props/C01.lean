import NdnProofs.Lemmas.PacketEnc
import NdnProofs.Props.C08
/-!
# C01 — Interest and Data packets survive an encode/decode round trip

Model: `Ndn.Packet.makeData` / `makeInterest` (two-pass encode with reserved signature space, Length
byte patch, `shrink_length`, digest placement).  The signer is an arbitrary function: it reserved
`reserved` bytes and wrote `sig`.  The theorems hold for every name, every field combination, every
payload length and every `(reserved, sig)` with `|sig| ≤ reserved` (and `reserved < 253` when shorter).
-/
namespace Ndn.C01
open Ndn Ndn.Codec Ndn.Packet

/-- **make_data_wire.** A signed Data is exactly `tlv DATA (fields ++ tlv SIGNATURE_VALUE sig)`: one
    element, every declared Length exact and in shortest form, the reserved-but-unused bytes gone —
    whatever the payload size (the 253 and 65536 crossings of any Length are cases of `shrink_spec`) —
    and the signer was handed exactly `fields` (Name … SignatureInfo). -/
theorem make_data_wire (name : List Bytes) (mi content sigInfo : Value) (s : SignerOut) (p : Bytes)
    (hp : encFields [nameS, metaS, contentS, dataSigInfoS] [.name name, mi, content, sigInfo] = .ok p)
    (hle : s.sig.length ≤ s.reserved) (hflex : s.sig.length = s.reserved ∨ s.reserved < 253)
    (hsize : p.length + s.reserved + 12 < 2 ^ 64) :
    makeData name mi content sigInfo (some s) =
      .ok { wire := tlv 6 (p ++ tlv 23 s.sig), covered := [p] } := by
  obtain ⟨junk, hsv, hj⟩ := sigValueElem_ok 23 s hle (by omega) hflex
  unfold makeData
  simp only [hp, bind, Except.bind, hsv]
  have hkeep : p ++ (writeTlNum 23 ++ writeTlNum s.sig.length ++ s.sig ++ junk)
      = (p ++ tlv 23 s.sig) ++ junk := by simp [tlv, List.append_assoc]
  have hlen : ((p ++ tlv 23 s.sig) ++ junk).length < 2 ^ 64 := by
    have h1 := tlNumSize_cases 23
    have h2 := tlNumSize_cases s.sig.length
    simp [tlv_length, hj]
    have : tlNumSize 23 = 1 := by decide
    omega
  rw [hkeep, ← hj, wrapShrink_spec 6 _ junk (by decide) hlen]
  rfl

/-- **make_data_unsigned_wire.** -/
theorem make_data_unsigned_wire (name : List Bytes) (mi content sigInfo : Value) (p : Bytes)
    (hp : encFields [nameS, metaS, contentS, dataSigInfoS] [.name name, mi, content, sigInfo] = .ok p)
    (hsize : p.length < 2 ^ 64) :
    makeData name mi content sigInfo none = .ok { wire := tlv 6 p, covered := [] } := by
  unfold makeData
  simp only [hp, bind, Except.bind]
  have := wrapShrink_spec 6 p [] (by decide) (by simpa using hsize)
  simp only [List.append_nil, List.length_nil] at this
  rw [this]; rfl

/-- **sig_value_elem_rejects.** The only signer behaviour `make_*` refuses: a signature shorter than a
    reserved space of 253 bytes or more (`ValueError`). -/
theorem sig_value_elem_rejects (t : Nat) (s : SignerOut) (hlt : s.sig.length < s.reserved)
    (hbig : 253 ≤ s.reserved) (hr : s.reserved < 2 ^ 64) : sigValueElem t s = .error .valueError :=
  sigValueElem_long_flexible t s hlt hbig hr

/-- **made_data_is_one_element.** The Value of a made Data is a sequence of complete, exactly sized
    TLV elements (C08 well-formedness of the fields plus the SignatureValue element). -/
theorem made_data_is_one_element (name : List Bytes) (mi content sigInfo : Value) (s : SignerOut) (p : Bytes)
    (hp : encFields [nameS, metaS, contentS, dataSigInfoS] [.name name, mi, content, sigInfo] = .ok p)
    (hsig : s.sig.length < 2 ^ 64) : C08.TlvSeq (p ++ tlv 23 s.sig) := by
  apply C08.TlvSeq.append (C08.enc_wellformed _ _ _ hp)
  simpa using C08.TlvSeq.cons 23 s.sig [] (by decide) hsig .nil

/-- **make_interest_wire.** A signed (or parameterised) Interest to which the digest component is
    appended is exactly
    `tlv INTEREST (Name' ++ params ++ AppParam ++ SigInfo ++ tlv SIG_VALUE sig)` where `Name'` is the given
    name followed by a ParametersSha256Digest component holding `H` of everything from
    ApplicationParameters to the end of the (already shrunk) Interest value; the signer was handed the name
    without that component followed by ApplicationParameters and SignatureInfo. -/
theorem make_interest_wire (H : Bytes → Bytes) (name : List Bytes) (mid : List Value) (app sigInfo : Value)
    (s : SignerOut) (midB tailA : Bytes)
    (hmid : encFields [.bool 33, .bool 18, linksS, .uint 10 (some 4), .uint 12 none, .uint 34 (some 1)] mid = .ok midB)
    (htail : encFields [.bytes 36 false, intSigInfoS] [app, sigInfo] = .ok tailA)
    (hle : s.sig.length ≤ s.reserved) (hflex : s.sig.length = s.reserved ∨ s.reserved < 253)
    (hr : s.reserved < 2 ^ 64) :
    ∀ (digested : Bytes) (comps : List Bytes), digested = tailA ++ tlv 46 s.sig →
    comps = placeDigest (name ++ [digestPlaceholder]) name.length (H digested) →
    (concatB comps).length + midB.length + tailA.length + s.reserved + 64 < 2 ^ 64 →
    interestCore H name mid app sigInfo (some s) true none =
      .ok { wire := tlv 5 (tlv 7 (concatB comps) ++ midB ++ tailA ++ tlv 46 s.sig),
            covered := nameChunks comps (some name.length) ++ [tailA],
            finalName := comps, digestCovered := digested } := by
  intro digested comps hd hc hcl
  subst hd
  obtain ⟨junk, hsv, hj⟩ := sigValueElem_ok 46 s hle hr hflex
  have hlen46 : tlNumSize 46 = 1 := by decide
  have hsvlen : (writeTlNum 46 ++ writeTlNum s.sig.length ++ s.sig ++ junk).length - (s.reserved - s.sig.length)
      = (tlv 46 s.sig).length := by
    simp [tlv, hj]; omega
  have htake : (writeTlNum 46 ++ writeTlNum s.sig.length ++ s.sig ++ junk).take (tlv 46 s.sig).length
      = tlv 46 s.sig := by
    have : writeTlNum 46 ++ writeTlNum s.sig.length ++ s.sig ++ junk = tlv 46 s.sig ++ junk := by
      simp [tlv, List.append_assoc]
    rw [this, List.take_left']; rfl
  unfold interestCore
  simp only [Option.isNone_none, Bool.and_self, if_true, bind, Except.bind, hmid, htail, hsv, hsvlen, htake,
    pure, Except.pure]
  have htl : tlvE 7 (concatB comps) = .ok (tlv 7 (concatB comps)) := by
    simp [tlvE]; omega
  rw [← hc]
  simp only [htl]
  have hkeep : tlv 7 (concatB comps) ++ midB ++ tailA ++
      (writeTlNum 46 ++ writeTlNum s.sig.length ++ s.sig ++ junk)
      = (tlv 7 (concatB comps) ++ midB ++ tailA ++ tlv 46 s.sig) ++ junk := by
    simp [tlv, List.append_assoc]
  rw [hkeep, ← hj, wrapShrink_spec 5 _ junk (by decide) (by
    simp only [List.length_append, tlv_length, hj, hlen46]
    have h7 : tlNumSize 7 = 1 := by decide
    have := tlNumSize_cases (concatB comps).length
    have := tlNumSize_cases s.sig.length
    omega)]

/-- the Data Value field list without the marker pseudo-fields -/
def dataValueFs : List Schema := [nameS, metaS, contentS, dataSigInfoS, .bytes 23 false]

/-- **parse_make_data_partial.** Decoding the Value of a made Data with the Data field list gives back
    exactly the name, MetaInfo, Content, SignatureInfo and signature that went in (C08 round trip).
    *Partial*: the OffsetMarker pseudo-fields (offsets reported in SignaturePtrs) and the Interest side
    are compared by the correspondence, not proved. -/
theorem parse_make_data_partial (name : List Bytes) (mi content sigInfo : Value) (sig p : Bytes)
    (hp : encFields [nameS, metaS, contentS, dataSigInfoS] [.name name, mi, content, sigInfo] = .ok p)
    (hfit : fitsFs [nameS, metaS, contentS, dataSigInfoS] [.name name, mi, content, sigInfo] = true)
    (hsig : sig.length < 2 ^ 64) :
    parse dataValueFs false (p ++ tlv 23 sig) = .ok [.name name, mi, content, sigInfo, .bytes sig] := by
  have henc : enc (.bytes 23 false) (.bytes sig) = .ok (tlv 23 sig) := by
    simp [enc, tlvE, hsig]
  have h5 := encFields_append_one [nameS, metaS, contentS, dataSigInfoS] [.name name, mi, content, sigInfo]
    (.bytes 23 false) (.bytes sig) p (tlv 23 sig) rfl hp henc
  have hfit5 : fitsFs dataValueFs [.name name, mi, content, sigInfo, .bytes sig] = true := by
    simp only [dataValueFs, fitsFs, Bool.and_eq_true] at hfit ⊢
    refine ⟨hfit.1, hfit.2.1, hfit.2.2.1, hfit.2.2.2.1, ?_, trivial⟩
    simp [fits]
  exact C08.parse_enc_roundtrip_partial dataValueFs _ _ false (by decide) hfit5 h5

/-! ### non-vacuity: a concrete signed Data with a shrinking signer (reserved 72, real 70) -/
example :
    let s : SignerOut := { reserved := 8, sig := [1, 2, 3, 4, 5] }
    (makeData [[8, 1, 97]] .none (.bytes [120, 121]) (.model [.uint 3, .none, .none, .none, .none]) (some s)).map (·.wire)
      = .ok [6, 21, 7, 3, 8, 1, 97, 21, 2, 120, 121, 22, 3, 27, 1, 3, 23, 5, 1, 2, 3, 4, 5] := by
  rfl

end Ndn.C01
