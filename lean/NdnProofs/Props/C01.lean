import NdnProofs.Lemmas.PacketEnc
import NdnProofs.Lemmas.PacketParseInterest
import NdnProofs.Lemmas.PacketParseInterestAt
import NdnProofs.Props.C08
/-!
# C01 — Interest and Data packets survive an encode/decode round trip

Model: `Ndn.Packet.makeData` / `makeInterest` (two-pass encode with reserved signature space, Length
byte patch, `shrink_length`, digest placement).  The signer is an arbitrary function: it reserved
`reserved` bytes and wrote `sig`.  The theorems hold for every name, every field combination, every
payload length and every `(reserved, sig)` with `|sig| ≤ reserved` (and `reserved < 253` when shorter).
-/
namespace Ndn.C01
open Ndn Ndn.Codec Ndn.Packet

/-- **make_data_wire.** A signed Data is exactly `tlv DATA (fields ++ tlv SIGNATURE_VALUE sig)`: one
    element, every declared Length exact and in shortest form, the reserved-but-unused bytes gone —
    whatever the payload size (the 253 and 65536 crossings of any Length are cases of `shrink_spec`) —
    and the signer was handed exactly `fields` (Name … SignatureInfo). -/
theorem make_data_wire (name : List Bytes) (mi content sigInfo : Value) (s : SignerOut) (p : Bytes)
    (hp : encFields [nameS, metaS, contentS, dataSigInfoS] [.name name, mi, content, sigInfo] = .ok p)
    (hle : s.sig.length ≤ s.reserved) (hflex : s.sig.length = s.reserved ∨ s.reserved < 253)
    (hsize : p.length + s.reserved + 12 < 2 ^ 64) :
    makeData name mi content sigInfo (some s) =
      .ok { wire := tlv 6 (p ++ tlv 23 s.sig), covered := [p] } := by
  obtain ⟨junk, hsv, hj⟩ := sigValueElem_ok 23 s hle (by omega) hflex
  unfold makeData
  simp only [hp, bind, Except.bind, hsv]
  have hkeep : p ++ (writeTlNum 23 ++ writeTlNum s.sig.length ++ s.sig ++ junk)
      = (p ++ tlv 23 s.sig) ++ junk := by simp [tlv, List.append_assoc]
  have hlen : ((p ++ tlv 23 s.sig) ++ junk).length < 2 ^ 64 := by
    have h1 := tlNumSize_cases 23
    have h2 := tlNumSize_cases s.sig.length
    simp [tlv_length, hj]
    have : tlNumSize 23 = 1 := by decide
    omega
  rw [hkeep, ← hj, wrapShrink_spec 6 _ junk (by decide) hlen]
  rfl

/-- **make_data_unsigned_wire.** -/
theorem make_data_unsigned_wire (name : List Bytes) (mi content sigInfo : Value) (p : Bytes)
    (hp : encFields [nameS, metaS, contentS, dataSigInfoS] [.name name, mi, content, sigInfo] = .ok p)
    (hsize : p.length < 2 ^ 64) :
    makeData name mi content sigInfo none = .ok { wire := tlv 6 p, covered := [] } := by
  unfold makeData
  simp only [hp, bind, Except.bind]
  have := wrapShrink_spec 6 p [] (by decide) (by simpa using hsize)
  simp only [List.append_nil, List.length_nil] at this
  rw [this]; rfl

/-- **sig_value_elem_rejects.** The only signer behaviour `make_*` refuses: a signature shorter than a
    reserved space of 253 bytes or more (`ValueError`). -/
theorem sig_value_elem_rejects (t : Nat) (s : SignerOut) (hlt : s.sig.length < s.reserved)
    (hbig : 253 ≤ s.reserved) (hr : s.reserved < 2 ^ 64) : sigValueElem t s = .error .valueError :=
  sigValueElem_long_flexible t s hlt hbig hr

/-- **made_data_is_one_element.** The Value of a made Data is a sequence of complete, exactly sized
    TLV elements (C08 well-formedness of the fields plus the SignatureValue element). -/
theorem made_data_is_one_element (name : List Bytes) (mi content sigInfo : Value) (s : SignerOut) (p : Bytes)
    (hp : encFields [nameS, metaS, contentS, dataSigInfoS] [.name name, mi, content, sigInfo] = .ok p)
    (hsig : s.sig.length < 2 ^ 64) : C08.TlvSeq (p ++ tlv 23 s.sig) := by
  apply C08.TlvSeq.append (C08.enc_wellformed _ _ _ hp)
  simpa using C08.TlvSeq.cons 23 s.sig [] (by decide) hsig .nil

/-- **make_interest_wire.** A signed (or parameterised) Interest to which the digest component is
    appended is exactly
    `tlv INTEREST (Name' ++ params ++ AppParam ++ SigInfo ++ tlv SIG_VALUE sig)` where `Name'` is the given
    name followed by a ParametersSha256Digest component holding `H` of everything from
    ApplicationParameters to the end of the (already shrunk) Interest value; the signer was handed the name
    without that component followed by ApplicationParameters and SignatureInfo. -/
theorem make_interest_wire (H : Bytes → Bytes) (name : List Bytes) (mid : List Value) (app sigInfo : Value)
    (s : SignerOut) (midB tailA : Bytes)
    (hmid : encFields [.bool 33, .bool 18, linksS, .uint 10 (some 4), .uint 12 none, .uint 34 (some 1)] mid = .ok midB)
    (htail : encFields [.bytes 36 false, intSigInfoS] [app, sigInfo] = .ok tailA)
    (hle : s.sig.length ≤ s.reserved) (hflex : s.sig.length = s.reserved ∨ s.reserved < 253)
    (hr : s.reserved < 2 ^ 64) :
    ∀ (digested : Bytes) (comps : List Bytes), digested = tailA ++ tlv 46 s.sig →
    comps = placeDigest (name ++ [digestPlaceholder]) name.length (H digested) →
    (concatB comps).length + midB.length + tailA.length + s.reserved + 64 < 2 ^ 64 →
    interestCore H name mid app sigInfo (some s) true none =
      .ok { wire := tlv 5 (tlv 7 (concatB comps) ++ midB ++ tailA ++ tlv 46 s.sig),
            covered := nameChunks comps (some name.length) ++ [tailA],
            finalName := comps, digestCovered := digested } := by
  intro digested comps hd hc hcl
  subst hd
  obtain ⟨junk, hsv, hj⟩ := sigValueElem_ok 46 s hle hr hflex
  have hlen46 : tlNumSize 46 = 1 := by decide
  have hsvlen : (writeTlNum 46 ++ writeTlNum s.sig.length ++ s.sig ++ junk).length - (s.reserved - s.sig.length)
      = (tlv 46 s.sig).length := by
    simp [tlv, hj]; omega
  have htake : (writeTlNum 46 ++ writeTlNum s.sig.length ++ s.sig ++ junk).take (tlv 46 s.sig).length
      = tlv 46 s.sig := by
    have : writeTlNum 46 ++ writeTlNum s.sig.length ++ s.sig ++ junk = tlv 46 s.sig ++ junk := by
      simp [tlv, List.append_assoc]
    rw [this, List.take_left']; rfl
  unfold interestCore
  simp only [Option.isNone_none, Bool.and_self, if_true, bind, Except.bind, hmid, htail, hsv, hsvlen, htake,
    pure, Except.pure]
  have htl : tlvE 7 (concatB comps) = .ok (tlv 7 (concatB comps)) := by
    simp [tlvE]; omega
  rw [← hc]
  simp only [htl]
  have hkeep : tlv 7 (concatB comps) ++ midB ++ tailA ++
      (writeTlNum 46 ++ writeTlNum s.sig.length ++ s.sig ++ junk)
      = (tlv 7 (concatB comps) ++ midB ++ tailA ++ tlv 46 s.sig) ++ junk := by
    simp [tlv, List.append_assoc]
  rw [hkeep, ← hj, wrapShrink_spec 5 _ junk (by decide) (by
    simp only [List.length_append, tlv_length, hj, hlen46]
    have h7 : tlNumSize 7 = 1 := by decide
    have := tlNumSize_cases (concatB comps).length
    have := tlNumSize_cases s.sig.length
    omega)]

/-- the Data Value field list without the marker pseudo-fields -/
def dataValueFs : List Schema := [nameS, metaS, contentS, dataSigInfoS, .bytes 23 false]

/-- **parse_make_data_partial.** Decoding the Value of a made Data with the Data field list gives back
    exactly the name, MetaInfo, Content, SignatureInfo and signature that went in (C08 round trip).
    *Partial*: stated on the marker-free field list.  The statements with the five OffsetMarker
    pseudo-fields are `C02.parsed_cover_is_signed_portion_data` (signed) and `parse_make_data_unsigned` (unsigned,
    below); the Interest side is `parse_make_interest`, `parse_make_interest_params`, `parse_make_interest_plain`
    and, for a name that already carries a digest placeholder at any position, `parse_make_interest_placeholder` /
    `parse_make_interest_params_placeholder` below. -/
theorem parse_make_data_partial (name : List Bytes) (mi content sigInfo : Value) (sig p : Bytes)
    (hp : encFields [nameS, metaS, contentS, dataSigInfoS] [.name name, mi, content, sigInfo] = .ok p)
    (hfit : fitsFs [nameS, metaS, contentS, dataSigInfoS] [.name name, mi, content, sigInfo] = true)
    (hsig : sig.length < 2 ^ 64) :
    parse dataValueFs false (p ++ tlv 23 sig) = .ok [.name name, mi, content, sigInfo, .bytes sig] := by
  have henc : enc (.bytes 23 false) (.bytes sig) = .ok (tlv 23 sig) := by
    simp [enc, tlvE, hsig]
  have h5 := encFields_append_one [nameS, metaS, contentS, dataSigInfoS] [.name name, mi, content, sigInfo]
    (.bytes 23 false) (.bytes sig) p (tlv 23 sig) rfl hp henc
  have hfit5 : fitsFs dataValueFs [.name name, mi, content, sigInfo, .bytes sig] = true := by
    simp only [dataValueFs, fitsFs, Bool.and_eq_true] at hfit ⊢
    refine ⟨hfit.1, hfit.2.1, hfit.2.2.1, hfit.2.2.2.1, ?_, trivial⟩
    simp [fits]
  exact C08.parse_enc_roundtrip_partial dataValueFs _ _ false (by decide) hfit5 h5

/-! ### non-vacuity: a concrete signed Data with a shrinking signer (reserved 72, real 70) -/
example :
    let s : SignerOut := { reserved := 8, sig := [1, 2, 3, 4, 5] }
    (makeData [[8, 1, 97]] .none (.bytes [120, 121]) (.model [.uint 3, .none, .none, .none, .none]) (some s)).map (·.wire)
      = .ok [6, 21, 7, 3, 8, 1, 97, 21, 2, 120, 121, 22, 3, 27, 1, 3, 23, 5, 1, 2, 3, 4, 5] := by
  rfl

/-! ### the Interest side of decode-after-encode -/

theorem digestPos_no_digest (need : Bool) : ∀ (l : List Bytes) (i : Nat),
    (∀ c ∈ l, isDigestComp c = false) → digestPos need l i none = .ok none
  | [], _, _ => rfl
  | c :: r, i, h => by
    simp only [digestPos, h c (List.mem_cons_self ..), Bool.false_eq_true, if_false]
    exact digestPos_no_digest need r (i + 1) (fun x hx => h x (List.mem_cons_of_mem _ hx))

/-- `make_interest` with a signer and a name without digest component is `interestCore … true none` on
    the effective ApplicationParameters (empty when none was given). -/
theorem make_interest_is_core (H : Bytes → Bytes) (name : List Bytes) (mid : List Value)
    (appParam sigInfo : Value) (s : SignerOut) (hnd : ∀ c ∈ name, isDigestComp c = false) :
    makeInterest H name mid appParam sigInfo (some s) =
      interestCore H name mid (effApp true appParam) sigInfo (some s) true none := by
  have hneed : (!isNone (effApp true appParam)) = true := by
    cases appParam <;> simp [effApp, isNone]
  unfold makeInterest
  simp only [Option.isSome_some, hneed, digestPos_no_digest true name 0 hnd, bind, Except.bind]

/-- **make_interest_plain_wire.** A plain Interest (unsigned, no ApplicationParameters, no digest
    component in the name) is exactly `tlv INTEREST (Name ++ params)`; the name is returned unchanged. -/
theorem make_interest_plain_wire (H : Bytes → Bytes) (name : List Bytes) (mid : List Value) (midB : Bytes)
    (hmid : encFields [.bool 33, .bool 18, linksS, .uint 10 (some 4), .uint 12 none, .uint 34 (some 1)] mid = .ok midB)
    (hnd : ∀ c ∈ name, isDigestComp c = false)
    (hcl : (concatB name).length + midB.length + 64 < 2 ^ 64) :
    makeInterest H name mid .none .none none =
      .ok { wire := tlv 5 (tlv 7 (concatB name) ++ midB), covered := [], finalName := name,
            digestCovered := [] } := by
  have htl : tlvE 7 (concatB name) = .ok (tlv 7 (concatB name)) := by
    simp [tlvE]; omega
  have hw := wrapShrink_spec 5 (tlv 7 (concatB name) ++ midB) [] (by decide) (by
    simp only [List.append_nil, List.length_append, tlv_length]
    have h7 : tlNumSize 7 = 1 := by decide
    have := tlNumSize_cases (concatB name).length
    omega)
  simp only [List.append_nil, List.length_nil] at hw
  have hcore : makeInterest H name mid .none .none none = interestCore H name mid .none .none none false none := by
    have e1 : effApp (none : Option SignerOut).isSome Value.none = Value.none := rfl
    have e2 : (!isNone Value.none) = false := rfl
    unfold makeInterest
    simp only [e1, e2, digestPos_no_digest false name 0 hnd, bind, Except.bind]
  rw [hcore]
  unfold interestCore
  simp only [Bool.false_and, Bool.false_eq_true, if_false, bind, Except.bind, hmid, encFields, enc,
    pure, Except.pure, List.append_nil, htl, hw]

/-- **make_interest_params_wire.** An unsigned Interest with ApplicationParameters (digest component
    appended) is exactly `tlv INTEREST (Name' ++ params ++ AppParam [++ SigInfo])`, `Name'` = the given name
    followed by a ParametersSha256Digest component holding `H` of ApplicationParameters … end. -/
theorem make_interest_params_wire (H : Bytes → Bytes) (name : List Bytes) (mid : List Value)
    (app sigInfo : Value) (midB tailA : Bytes)
    (hmid : encFields [.bool 33, .bool 18, linksS, .uint 10 (some 4), .uint 12 none, .uint 34 (some 1)] mid = .ok midB)
    (htail : encFields [.bytes 36 false, intSigInfoS] [app, sigInfo] = .ok tailA) :
    ∀ (comps : List Bytes), comps = placeDigest (name ++ [digestPlaceholder]) name.length (H tailA) →
    (concatB comps).length + midB.length + tailA.length + 64 < 2 ^ 64 →
    interestCore H name mid app sigInfo none true none =
      .ok { wire := tlv 5 (tlv 7 (concatB comps) ++ midB ++ tailA), covered := [],
            finalName := comps, digestCovered := tailA } := by
  intro comps hc hcl
  unfold interestCore
  simp only [Option.isNone_none, Bool.and_self, if_true, bind, Except.bind, hmid, htail,
    pure, Except.pure, List.length_nil, Nat.sub_self, List.take_nil, List.append_nil]
  have htl : tlvE 7 (concatB comps) = .ok (tlv 7 (concatB comps)) := by
    simp [tlvE]; omega
  rw [← hc]
  simp only [htl]
  have := wrapShrink_spec 5 (tlv 7 (concatB comps) ++ midB ++ tailA) [] (by decide) (by
    simp only [List.append_nil, List.length_append, tlv_length]
    have h7 : tlNumSize 7 = 1 := by decide
    have := tlNumSize_cases (concatB comps).length
    omega)
  simp only [List.append_nil, List.length_nil] at this
  rw [this]

/-- **parse_make_interest.** `parse_interest(make_interest(...))` for a signed Interest to which the
    digest component is appended: the parser returns the final name (the given name followed by the
    ParametersSha256Digest component — also what `make_interest(need_final_name=True)` returned), the
    parameter values, ApplicationParameters, SignatureInfo and the signature value that went in.  The
    seven leading pseudo-fields hold offset 0, `_sig_cover_start` / `_digest_cover_start` hold the offset
    of ApplicationParameters, `_sig_cover_end` is unset.
    Hypotheses: the name components are single TLV elements, none of them a digest component (else
    `make_interest` takes another path), the values are legal for their fields, `H` yields 32 bytes. -/
theorem parse_make_interest (H : Bytes → Bytes) (name : List Bytes) (mid : List Value) (app sigInfo : Value)
    (s : SignerOut) (midB tailA : Bytes)
    (hmid : encFields [.bool 33, .bool 18, linksS, .uint 10 (some 4), .uint 12 none, .uint 34 (some 1)] mid = .ok midB)
    (htail : encFields [.bytes 36 false, intSigInfoS] [app, sigInfo] = .ok tailA)
    (hle : s.sig.length ≤ s.reserved) (hflex : s.sig.length = s.reserved ∨ s.reserved < 253)
    (hr : s.reserved < 2 ^ 64)
    (hname : name.all compOk = true) (hnd : ∀ c ∈ name, isDigestComp c = false)
    (hfitmid : fitsFs [.bool 33, .bool 18, linksS, .uint 10 (some 4), .uint 12 none, .uint 34 (some 1)] mid = true)
    (hfittail : fitsFs [.bytes 36 false, intSigInfoS] [app, sigInfo] = true) :
    ∀ (digested : Bytes) (comps : List Bytes), digested = tailA ++ tlv 46 s.sig →
    (H digested).length = 32 → comps = name ++ [2 :: 32 :: H digested] →
    (concatB comps).length + midB.length + tailA.length + s.reserved + 64 < 2 ^ 64 →
    ∃ m, interestCore H name mid app sigInfo (some s) true none = .ok m ∧ m.finalName = comps ∧
      (parseInterest m.wire).map (·.1) =
        .ok (List.replicate 7 (Value.uint 0) ++ (Value.name comps :: mid) ++
             List.replicate 2 (Value.uint (tlv 7 (concatB comps) ++ midB).length) ++
             [app, sigInfo, Value.bytes s.sig] ++ [Value.none]) := by
  intro digested comps hd hH hc hcl
  subst hd
  have hc' : comps = placeDigest (name ++ [digestPlaceholder]) name.length (H (tailA ++ tlv 46 s.sig)) := by
    rw [placeDigest_appended]; exact hc
  have hw := make_interest_wire H name mid app sigInfo s midB tailA hmid htail hle hflex hr _ comps rfl hc' hcl
  refine ⟨_, hw, rfl, ?_⟩
  subst hc
  have hsize : (tlv 7 (concatB (name ++ [2 :: 32 :: H (tailA ++ tlv 46 s.sig)])) ++ midB ++ tailA ++
      tlv 46 s.sig).length < 2 ^ 64 := by
    simp only [List.length_append, tlv_length]
    have h7 : tlNumSize 7 = 1 := by decide
    have h46 : tlNumSize 46 = 1 := by decide
    have := tlNumSize_cases (concatB (name ++ [2 :: 32 :: H (tailA ++ tlv 46 s.sig)])).length
    have := tlNumSize_cases s.sig.length
    omega
  rw [parseInterest_signed name _ mid app sigInfo s.sig midB tailA hmid htail hname hnd hH hfitmid hfittail
    (by omega) hsize]
  rfl

/-- **parse_make_interest_params.** The same for an unsigned Interest that carries (non-empty encoded)
    ApplicationParameters: no signature value comes back. -/
theorem parse_make_interest_params (H : Bytes → Bytes) (name : List Bytes) (mid : List Value)
    (app sigInfo : Value) (midB tailA : Bytes)
    (hmid : encFields [.bool 33, .bool 18, linksS, .uint 10 (some 4), .uint 12 none, .uint 34 (some 1)] mid = .ok midB)
    (htail : encFields [.bytes 36 false, intSigInfoS] [app, sigInfo] = .ok tailA)
    (hname : name.all compOk = true) (hnd : ∀ c ∈ name, isDigestComp c = false)
    (hfitmid : fitsFs [.bool 33, .bool 18, linksS, .uint 10 (some 4), .uint 12 none, .uint 34 (some 1)] mid = true)
    (hfittail : fitsFs [.bytes 36 false, intSigInfoS] [app, sigInfo] = true)
    (hne : tailA ≠ []) (hH : (H tailA).length = 32) :
    ∀ (comps : List Bytes), comps = name ++ [2 :: 32 :: H tailA] →
    (concatB comps).length + midB.length + tailA.length + 64 < 2 ^ 64 →
    ∃ m, interestCore H name mid app sigInfo none true none = .ok m ∧ m.finalName = comps ∧
      (parseInterest m.wire).map (·.1) =
        .ok (List.replicate 7 (Value.uint 0) ++ (Value.name comps :: mid) ++
             List.replicate 2 (Value.uint (tlv 7 (concatB comps) ++ midB).length) ++
             [app, sigInfo, Value.none] ++ [Value.none]) := by
  intro comps hc hcl
  have hc' : comps = placeDigest (name ++ [digestPlaceholder]) name.length (H tailA) := by
    rw [placeDigest_appended]; exact hc
  have hw := make_interest_params_wire H name mid app sigInfo midB tailA hmid htail comps hc' hcl
  refine ⟨_, hw, rfl, ?_⟩
  subst hc
  have hsize : (tlv 7 (concatB (name ++ [2 :: 32 :: H tailA])) ++ midB ++ tailA).length < 2 ^ 64 := by
    simp only [List.length_append, tlv_length]
    have h7 : tlNumSize 7 = 1 := by decide
    have := tlNumSize_cases (concatB (name ++ [2 :: 32 :: H tailA])).length
    omega
  rw [parseInterest_params name _ mid app sigInfo midB tailA hmid htail hname hnd hH hfitmid hfittail
    hne hsize]
  rfl

/-- **parse_make_interest_plain.** `parse_interest(make_interest(name, param))` for a plain Interest:
    the name and every parameter value come back; ApplicationParameters, SignatureInfo, SignatureValue
    and the three cover markers are absent. -/
theorem parse_make_interest_plain (H : Bytes → Bytes) (name : List Bytes) (mid : List Value) (midB : Bytes)
    (hmid : encFields [.bool 33, .bool 18, linksS, .uint 10 (some 4), .uint 12 none, .uint 34 (some 1)] mid = .ok midB)
    (hname : name.all compOk = true) (hnd : ∀ c ∈ name, isDigestComp c = false)
    (hfitmid : fitsFs [.bool 33, .bool 18, linksS, .uint 10 (some 4), .uint 12 none, .uint 34 (some 1)] mid = true)
    (hcl : (concatB name).length + midB.length + 64 < 2 ^ 64) :
    ∃ m, makeInterest H name mid .none .none none = .ok m ∧ m.finalName = name ∧
      (parseInterest m.wire).map (·.1) =
        .ok (List.replicate 7 (Value.uint 0) ++ (Value.name name :: mid) ++ List.replicate 6 Value.none) := by
  refine ⟨_, make_interest_plain_wire H name mid midB hmid hnd hcl, rfl, ?_⟩
  have hsize : (tlv 7 (concatB name) ++ midB).length < 2 ^ 64 := by
    simp only [List.length_append, tlv_length]
    have h7 : tlNumSize 7 = 1 := by decide
    have := tlNumSize_cases (concatB name).length
    omega
  rw [parseInterest_plain name mid midB hmid hname hnd hfitmid hsize]
  rfl

/-! ### non-vacuity: a concrete unsigned Interest with ApplicationParameters round-trips -/
example :
    (do let m ← makeInterest (fun _ => List.replicate 32 9) [[8, 1, 97]]
                  [.bool, .none, .none, .uint 7, .none, .uint 3] (.bytes [1]) .none none
        let (vs, _) ← parseInterest m.wire
        pure (m.finalName, vs)) =
    .ok ([[8, 1, 97], 2 :: 32 :: List.replicate 32 9],
         List.replicate 7 (Value.uint 0) ++
           [Value.name [[8, 1, 97], 2 :: 32 :: List.replicate 32 9], .bool, .none, .none, .uint 7, .none, .uint 3] ++
           [.uint 50, .uint 50, .bytes [1], .none, .none, .none]) := by
  rfl

end Ndn.C01

namespace Ndn.C01
open Ndn Ndn.Codec Ndn.Packet

/-! ### an Interest whose name already carries a ParametersSha256Digest placeholder (at any position) -/

/-- `make_interest` on a name `pre ++ [placeholder] ++ post` with exactly one digest component, when a digest is
    needed (signed, or ApplicationParameters given): `interestCore` with the placeholder's position. -/
theorem make_interest_is_core_at (H : Bytes → Bytes) (pre post : List Bytes) (c : Bytes) (mid : List Value)
    (appParam sigInfo : Value) (signer : Option SignerOut)
    (hneed : (!isNone (effApp signer.isSome appParam)) = true)
    (hpre : ∀ x ∈ pre, isDigestComp x = false) (hc : isDigestComp c = true)
    (hpost : ∀ x ∈ post, isDigestComp x = false) :
    makeInterest H (pre ++ c :: post) mid appParam sigInfo signer =
      interestCore H (pre ++ c :: post) mid (effApp signer.isSome appParam) sigInfo signer true
        (some pre.length) := by
  unfold makeInterest
  simp only [hneed, digestPos_at pre c post 0 hpre hc hpost, Nat.zero_add, bind, Except.bind]

/-- `make_interest` without a signer but with ApplicationParameters, on a name without digest component, is
    `interestCore … none true none` (the unsigned counterpart of `make_interest_is_core`). -/
theorem make_interest_is_core_params (H : Bytes → Bytes) (name : List Bytes) (mid : List Value)
    (appParam sigInfo : Value) (hnd : ∀ c ∈ name, isDigestComp c = false) (hp : isNone appParam = false) :
    makeInterest H name mid appParam sigInfo none = interestCore H name mid appParam sigInfo none true none := by
  have e1 : effApp (none : Option SignerOut).isSome appParam = appParam := by simp [effApp]
  unfold makeInterest
  simp only [e1, hp, Bool.not_false, digestPos_no_digest true name 0 hnd, bind, Except.bind]

/-- **make_interest_wire_at.** `make_interest_wire` for a caller-supplied placeholder: the wire carries the given
    name with the placeholder's 32 value bytes replaced by `H` of ApplicationParameters … end; that name is also
    the returned final name; the signer was handed the name without the digest component. -/
theorem make_interest_wire_at (H : Bytes → Bytes) (name : List Bytes) (i : Nat) (mid : List Value)
    (app sigInfo : Value) (s : SignerOut) (midB tailA : Bytes)
    (hmid : encFields [.bool 33, .bool 18, linksS, .uint 10 (some 4), .uint 12 none, .uint 34 (some 1)] mid = .ok midB)
    (htail : encFields [.bytes 36 false, intSigInfoS] [app, sigInfo] = .ok tailA)
    (hle : s.sig.length ≤ s.reserved) (hflex : s.sig.length = s.reserved ∨ s.reserved < 253)
    (hr : s.reserved < 2 ^ 64) :
    ∀ (digested : Bytes) (comps : List Bytes), digested = tailA ++ tlv 46 s.sig →
    comps = placeDigest name i (H digested) →
    (concatB comps).length + midB.length + tailA.length + s.reserved + 64 < 2 ^ 64 →
    interestCore H name mid app sigInfo (some s) true (some i) =
      .ok { wire := tlv 5 (tlv 7 (concatB comps) ++ midB ++ tailA ++ tlv 46 s.sig),
            covered := nameChunks comps (some i) ++ [tailA],
            finalName := comps, digestCovered := digested } := by
  intro digested comps hd hc hcl
  subst hd
  obtain ⟨junk, hsv, hj⟩ := sigValueElem_ok 46 s hle hr hflex
  have hlen46 : tlNumSize 46 = 1 := by decide
  have hsvlen : (writeTlNum 46 ++ writeTlNum s.sig.length ++ s.sig ++ junk).length - (s.reserved - s.sig.length)
      = (tlv 46 s.sig).length := by
    simp [tlv, hj]; omega
  have htake : (writeTlNum 46 ++ writeTlNum s.sig.length ++ s.sig ++ junk).take (tlv 46 s.sig).length
      = tlv 46 s.sig := by
    have : writeTlNum 46 ++ writeTlNum s.sig.length ++ s.sig ++ junk = tlv 46 s.sig ++ junk := by
      simp [tlv, List.append_assoc]
    rw [this, List.take_left']; rfl
  unfold interestCore
  simp only [Option.isNone_some, Bool.and_false, Bool.false_eq_true, if_false, bind, Except.bind, hmid, htail,
    hsv, hsvlen, htake, pure, Except.pure]
  have htl : tlvE 7 (concatB comps) = .ok (tlv 7 (concatB comps)) := by
    simp [tlvE]; omega
  rw [← hc]
  simp only [htl]
  have hkeep : tlv 7 (concatB comps) ++ midB ++ tailA ++
      (writeTlNum 46 ++ writeTlNum s.sig.length ++ s.sig ++ junk)
      = (tlv 7 (concatB comps) ++ midB ++ tailA ++ tlv 46 s.sig) ++ junk := by
    simp [tlv, List.append_assoc]
  rw [hkeep, ← hj, wrapShrink_spec 5 _ junk (by decide) (by
    simp only [List.length_append, tlv_length, hj, hlen46]
    have h7 : tlNumSize 7 = 1 := by decide
    have := tlNumSize_cases (concatB comps).length
    have := tlNumSize_cases s.sig.length
    omega)]
  simp

/-- **make_interest_params_wire_at.** The unsigned case (ApplicationParameters given) with a placeholder. -/
theorem make_interest_params_wire_at (H : Bytes → Bytes) (name : List Bytes) (i : Nat) (mid : List Value)
    (app sigInfo : Value) (midB tailA : Bytes)
    (hmid : encFields [.bool 33, .bool 18, linksS, .uint 10 (some 4), .uint 12 none, .uint 34 (some 1)] mid = .ok midB)
    (htail : encFields [.bytes 36 false, intSigInfoS] [app, sigInfo] = .ok tailA) :
    ∀ (comps : List Bytes), comps = placeDigest name i (H tailA) →
    (concatB comps).length + midB.length + tailA.length + 64 < 2 ^ 64 →
    interestCore H name mid app sigInfo none true (some i) =
      .ok { wire := tlv 5 (tlv 7 (concatB comps) ++ midB ++ tailA), covered := [],
            finalName := comps, digestCovered := tailA } := by
  intro comps hc hcl
  unfold interestCore
  simp only [Option.isNone_some, Bool.and_false, Bool.false_eq_true, if_false, bind, Except.bind, hmid, htail,
    pure, Except.pure, List.length_nil, Nat.sub_self, List.take_nil, List.append_nil]
  have htl : tlvE 7 (concatB comps) = .ok (tlv 7 (concatB comps)) := by
    simp [tlvE]; omega
  rw [← hc]
  simp only [htl]
  have := wrapShrink_spec 5 (tlv 7 (concatB comps) ++ midB ++ tailA) [] (by decide) (by
    simp only [List.append_nil, List.length_append, tlv_length]
    have h7 : tlNumSize 7 = 1 := by decide
    have := tlNumSize_cases (concatB comps).length
    omega)
  simp only [List.append_nil, List.length_nil] at this
  rw [this]
  simp

/-- **parse_make_interest_placeholder.** `parse_interest(make_interest(...))` for a signed Interest whose name
    `pre ++ [02 20 x] ++ post` carries a caller-supplied ParametersSha256Digest placeholder (32 arbitrary bytes `x`)
    at **any** position: the made packet's final name and the parsed name are both `pre ++ [02 20 H(digested)] ++
    post`, where `digested` is the bytes from ApplicationParameters to the end of the Interest — exactly the range
    the parser reports as digest-covered — and the parameters, ApplicationParameters, SignatureInfo and signature
    value come back unchanged; the signature covers the name without the digest component and the parameters. -/
theorem parse_make_interest_placeholder (H : Bytes → Bytes) (pre post : List Bytes) (x : Bytes)
    (mid : List Value) (app sigInfo : Value) (s : SignerOut) (midB tailA : Bytes)
    (hmid : encFields [.bool 33, .bool 18, linksS, .uint 10 (some 4), .uint 12 none, .uint 34 (some 1)] mid = .ok midB)
    (htail : encFields [.bytes 36 false, intSigInfoS] [app, sigInfo] = .ok tailA)
    (hle : s.sig.length ≤ s.reserved) (hflex : s.sig.length = s.reserved ∨ s.reserved < 253)
    (hr : s.reserved < 2 ^ 64) (hx : x.length = 32)
    (hpre : pre.all compOk = true) (hpost : post.all compOk = true)
    (hndpre : ∀ c ∈ pre, isDigestComp c = false) (hndpost : ∀ c ∈ post, isDigestComp c = false)
    (hfitmid : fitsFs [.bool 33, .bool 18, linksS, .uint 10 (some 4), .uint 12 none, .uint 34 (some 1)] mid = true)
    (hfittail : fitsFs [.bytes 36 false, intSigInfoS] [app, sigInfo] = true) :
    ∀ (digested : Bytes) (comps : List Bytes), digested = tailA ++ tlv 46 s.sig →
    (H digested).length = 32 → comps = pre ++ (2 :: 32 :: H digested) :: post →
    (concatB comps).length + midB.length + tailA.length + s.reserved + 64 < 2 ^ 64 →
    ∃ m, interestCore H (pre ++ (2 :: 32 :: x) :: post) mid app sigInfo (some s) true (some pre.length) = .ok m ∧
      m.finalName = comps ∧
      parseInterest m.wire =
        .ok (List.replicate 7 (Value.uint 0) ++ (Value.name comps :: mid) ++
             List.replicate 2 (Value.uint (tlv 7 (concatB comps) ++ midB).length) ++
             [app, sigInfo, Value.bytes s.sig] ++ [Value.none],
             { sigCovered := pre ++ post ++ [tailA], sigValue := some s.sig,
               digestCovered := [digested], digestValue := some (H digested) }) := by
  intro digested comps hd hH hc hcl
  subst hd
  have hc' : comps = placeDigest (pre ++ (2 :: 32 :: x) :: post) pre.length (H (tailA ++ tlv 46 s.sig)) := by
    rw [placeDigest_placeholder pre post x _ hx]; exact hc
  have hw := make_interest_wire_at H _ pre.length mid app sigInfo s midB tailA hmid htail hle hflex hr _ comps rfl
    hc' hcl
  refine ⟨_, hw, rfl, ?_⟩
  subst hc
  have hsize : (tlv 7 (concatB (pre ++ (2 :: 32 :: H (tailA ++ tlv 46 s.sig)) :: post)) ++ midB ++ tailA ++
      tlv 46 s.sig).length < 2 ^ 64 := by
    simp only [List.length_append, tlv_length]
    have h7 : tlNumSize 7 = 1 := by decide
    have h46 : tlNumSize 46 = 1 := by decide
    have := tlNumSize_cases (concatB (pre ++ (2 :: 32 :: H (tailA ++ tlv 46 s.sig)) :: post)).length
    have := tlNumSize_cases s.sig.length
    omega
  exact parseInterest_signed_at pre post _ mid app sigInfo s.sig midB tailA hmid htail hpre hpost hndpre hndpost hH
    hfitmid hfittail (by omega) hsize

/-- **parse_make_interest_params_placeholder.** The same for an unsigned Interest with (non-empty encoded)
    ApplicationParameters and a placeholder anywhere in the name: the digest component of the final / parsed name
    is `H` of ApplicationParameters … end, no signature value comes back. -/
theorem parse_make_interest_params_placeholder (H : Bytes → Bytes) (pre post : List Bytes) (x : Bytes)
    (mid : List Value) (app sigInfo : Value) (midB tailA : Bytes)
    (hmid : encFields [.bool 33, .bool 18, linksS, .uint 10 (some 4), .uint 12 none, .uint 34 (some 1)] mid = .ok midB)
    (htail : encFields [.bytes 36 false, intSigInfoS] [app, sigInfo] = .ok tailA) (hx : x.length = 32)
    (hpre : pre.all compOk = true) (hpost : post.all compOk = true)
    (hndpre : ∀ c ∈ pre, isDigestComp c = false) (hndpost : ∀ c ∈ post, isDigestComp c = false)
    (hfitmid : fitsFs [.bool 33, .bool 18, linksS, .uint 10 (some 4), .uint 12 none, .uint 34 (some 1)] mid = true)
    (hfittail : fitsFs [.bytes 36 false, intSigInfoS] [app, sigInfo] = true)
    (hne : tailA ≠ []) (hH : (H tailA).length = 32) :
    ∀ (comps : List Bytes), comps = pre ++ (2 :: 32 :: H tailA) :: post →
    (concatB comps).length + midB.length + tailA.length + 64 < 2 ^ 64 →
    ∃ m, interestCore H (pre ++ (2 :: 32 :: x) :: post) mid app sigInfo none true (some pre.length) = .ok m ∧
      m.finalName = comps ∧
      parseInterest m.wire =
        .ok (List.replicate 7 (Value.uint 0) ++ (Value.name comps :: mid) ++
             List.replicate 2 (Value.uint (tlv 7 (concatB comps) ++ midB).length) ++
             [app, sigInfo, Value.none] ++ [Value.none],
             { sigCovered := pre ++ post, sigValue := none,
               digestCovered := [tailA], digestValue := some (H tailA) }) := by
  intro comps hc hcl
  have hc' : comps = placeDigest (pre ++ (2 :: 32 :: x) :: post) pre.length (H tailA) := by
    rw [placeDigest_placeholder pre post x _ hx]; exact hc
  have hw := make_interest_params_wire_at H _ pre.length mid app sigInfo midB tailA hmid htail comps hc' hcl
  refine ⟨_, hw, rfl, ?_⟩
  subst hc
  have hsize : (tlv 7 (concatB (pre ++ (2 :: 32 :: H tailA) :: post)) ++ midB ++ tailA).length < 2 ^ 64 := by
    simp only [List.length_append, tlv_length]
    have h7 : tlNumSize 7 = 1 := by decide
    have := tlNumSize_cases (concatB (pre ++ (2 :: 32 :: H tailA) :: post)).length
    omega
  exact parseInterest_params_at pre post _ mid app sigInfo midB tailA hmid htail hpre hpost hndpre hndpost hH
    hfitmid hfittail hne hsize

/-! non-vacuity: a placeholder in the middle of the name, unsigned with ApplicationParameters -/
example :
    (do let m ← makeInterest (fun _ => List.replicate 32 9) [[8, 1, 97], 2 :: 32 :: List.replicate 32 0, [8, 1, 98]]
                  [.bool, .none, .none, .uint 7, .none, .uint 3] (.bytes [1]) .none none
        let (vs, p) ← parseInterest m.wire
        pure (m.finalName, vs[7]?, p.digestValue)) =
    .ok ([[8, 1, 97], 2 :: 32 :: List.replicate 32 9, [8, 1, 98]],
         some (Value.name [[8, 1, 97], 2 :: 32 :: List.replicate 32 9, [8, 1, 98]]),
         some (List.replicate 32 9)) := by
  rfl

/-! ### an unsigned Data with its OffsetMarker pseudo-fields -/

theorem dataFs_eq : dataFs = List.replicate 5 Schema.marker ++ dataValueFs := rfl

/-- the scan loop of `DataPacketValue.parse` on the encoded real fields: the five leading pseudo-fields record
    offset 0 -/
theorem parse_data_value (vs5 : List Value) (p5 : Bytes) (h5 : encFields dataValueFs vs5 = .ok p5)
    (hfit5 : fitsFs dataValueFs vs5 = true) (hne : p5 ≠ []) :
    parse dataFs false p5 = .ok (List.replicate 5 (Value.uint 0) ++ vs5) := by
  obtain ⟨items, hok, hencI, hfold⟩ := rt_suffix (List.replicate 5 Schema.marker) dataValueFs _ _
    (by decide) (by decide) hfit5 h5
  have hni : items ≠ [] := by
    intro e; subst e
    simp only [encItems] at hencI
    exact hne hencI.symm
  obtain ⟨it, r, rfl⟩ := List.exists_cons_of_ne_nil hni
  simp only [List.length_replicate] at hok
  have hl := loop_prefix_m dataFs false (by decide) [] (it :: r) (p5.length + 1) 0 0
    (dataFs.map initVal) (ItemsOK_mono _ _ 5 0 (by omega) hok) (by rw [List.append_nil, hencI]; omega)
  rw [List.append_nil, hencI] at hl
  have hlead := runItems_lead 5 dataValueFs (by decide) it r (List.replicate 5 Value.none)
    (dataValueFs.map initVal) (by simp) hok
  have hd := hfold (List.replicate 5 (Value.uint 0)) (by simp)
  have hge := encItems_len_ge (it :: r)
  rw [hencI] at hge
  unfold parse
  rw [hl]
  have hfu : p5.length + 1 - (it :: r).length = (p5.length - (it :: r).length) + 1 := by omega
  rw [hfu]
  simp only [parseFields, List.isEmpty_nil, if_true]
  have e0 : dataFs.map initVal = List.replicate 5 Value.none ++ dataValueFs.map initVal := rfl
  rw [e0, ← dataFs_eq] at *
  rw [hlead, hd]

/-- **parse_make_data_unsigned.** `parse_data(make_data(name, meta_info, content))` without a signer, on the full
    Data field list with its five OffsetMarker / ProcedureArgument pseudo-fields: the name, MetaInfo, Content (and
    SignatureInfo, when one was given) come back, the pseudo-fields hold offset 0, no SignatureValue, and all
    signature pointers are empty. -/
theorem parse_make_data_unsigned (name : List Bytes) (mi content sigInfo : Value) (p : Bytes)
    (hp : encFields [nameS, metaS, contentS, dataSigInfoS] [.name name, mi, content, sigInfo] = .ok p)
    (hfit : fitsFs [nameS, metaS, contentS, dataSigInfoS] [.name name, mi, content, sigInfo] = true)
    (hsize : p.length < 2 ^ 64) :
    ∃ m, makeData name mi content sigInfo none = .ok m ∧ m.covered = [] ∧
      parseData m.wire =
        .ok (List.replicate 5 (Value.uint 0) ++ [.name name, mi, content, sigInfo, .none],
             { sigCovered := [], sigValue := none, digestCovered := [], digestValue := none }) := by
  refine ⟨_, make_data_unsigned_wire name mi content sigInfo p hp hsize, rfl, ?_⟩
  have h5 := encFields_append_one [nameS, metaS, contentS, dataSigInfoS] [.name name, mi, content, sigInfo]
    (.bytes 23 false) .none p [] rfl hp (by simp [enc])
  rw [List.append_nil] at h5
  have hfit5 : fitsFs dataValueFs [.name name, mi, content, sigInfo, .none] = true := by
    simp only [dataValueFs, fitsFs, Bool.and_eq_true] at hfit ⊢
    refine ⟨hfit.1, hfit.2.1, hfit.2.2.1, hfit.2.2.2.1, ?_, trivial⟩
    simp [fits]
  -- the Name element is always there
  have hne : p ≠ [] := by
    simp only [encFields] at hp
    obtain ⟨a, ha, h2⟩ := bind_ok hp
    obtain ⟨b', _, h3⟩ := bind_ok h2
    simp only [pure, Except.pure, Except.ok.injEq] at h3
    subst h3
    simp only [nameS, enc] at ha
    obtain ⟨rfl, _, _⟩ := tlvE_ok ha
    intro e
    exact tlv_ne_nil 7 _ (List.append_eq_nil_iff.mp e).1
  have hparse := parse_data_value _ p h5 hfit5 hne
  have hck := parseAndCheckTl_tlv 6 p (by decide) hsize
  have hdec : decodePacket dataFs 6 false true [] (tlv 6 p) =
      .ok (List.replicate 5 (Value.uint 0) ++ [.name name, mi, content, sigInfo, .none]) := by
    unfold decodePacket
    simp only [hck, hparse, bind, Except.bind, anyPresent_nil]
    simp [nameMissing, nameIdx, dataFs, nameS, isNone, List.replicate]
  unfold parseData
  simp only [hdec, hck, bind, Except.bind, pure, Except.pure]
  simp [bytesOf, List.replicate]

/-! non-vacuity: an unsigned Data with MetaInfo and Content -/
example :
    (do let m ← makeData [[8, 1, 97]] (.model [.uint 0, .none, .none]) (.bytes [120, 121]) .none none
        let (vs, p) ← parseData m.wire
        pure (vs, p.sigCovered, p.sigValue)) =
    .ok (List.replicate 5 (Value.uint 0) ++
           [.name [[8, 1, 97]], .model [.uint 0, .none, .none], .bytes [120, 121], .none, .none], [], none) := by
  rfl

end Ndn.C01
