import NdnProofs.Lemmas.Lvs.Tables
import NdnModel.Lvs.Compile
import NdnGen.C12
/-!
  C12 - the tables `lean/NdnGen/C12.lean` is regenerated with from `checker.py`, `validator.py` and `compiler.py` on
  every run, tied to the model of `Checker.check` (`NdnModel/Lvs/Match.lean`) and of `_fix_signing_references`
  (`NdnModel/Lvs/Compile.lean`).  A source edit that alters one of them changes the generated file and the theorem stops
  checking before any input is searched for.
-/
namespace Ndn.C12
open Ndn Ndn.Lvs

/-- **digest stripping in `check`**: one `if` per name (packet, then key) drops the last component when its type is one of
    the generated types, and the model's `stripDigest` - applied to both names by `check` - drops it exactly then. -/
theorem check_digest_table :
    Gen.C12.checkDigestStrip.map (·.1) = ["pkt_name", "key_name"] ∧
    (∀ e ∈ Gen.C12.checkDigestStrip, e.2.1 = "if" ∧
      ∀ (n : List Bytes) (c : Bytes) (t s : Nat), parseTlNum c 0 = .ok (t, s) →
        stripDigest (n ++ [c]) = .ok (if e.2.2.contains t then n else n ++ [c])) ∧
    (∀ m env pkt key, check m env pkt key =
      match stripDigest pkt with
      | .error e => .error e
      | .ok p => match stripDigest key with
        | .error e => .error e
        | .ok k => checkCore m env p k) := by
  refine ⟨by decide, ?_, fun _ _ _ _ => rfl⟩
  intro e he
  have : e = ("pkt_name", "if", [1]) ∨ e = ("key_name", "if", [1]) := by
    simpa [Gen.C12.checkDigestStrip] using he
  rcases this with rfl | rfl <;>
  · refine ⟨rfl, ?_⟩
    intro n c t s h
    rw [stripDigest_spec n c t s h]
    by_cases ht : t = 1 <;> simp [ht]

/-- **the loops of `check`**: the packet is matched from the empty context, the key from the context of the packet's
    match (`checkCore`: `matchIter m env pkt []`, `checkLoop` → `matchIter m env key ctx`); the only test is whether the
    key's node is listed among the packet node's signers (`keyHit`: `signers.contains`); it returns `True` on the first
    hit and `False` at the end. -/
theorem check_loops_table :
    Gen.C12.checkMatchCalls = ["pkt_name, {}", "key_name, context"] ∧
    Gen.C12.checkTests = ["key_node_id in pkt_node.sign_cons"] ∧
    Gen.C12.checkReturns = ["True", "False"] := by
  refine ⟨by decide, by decide, by decide⟩

/-- **no `except` clause** in checker.py or validator.py: whatever `_match` / a user function raises leaves `check` and
    `validate_name` (the model propagates every error: `keyHit`, `checkLoop`); `validate_name` returns the verdict of
    `check` or `False` when there is no key locator. -/
theorem checker_excepts_table :
    Gen.C12.checkerExcepts = [] ∧ Gen.C12.validatorExcepts = [] ∧
    Gen.C12.validateNameReturns = ["False", "checker.check(name, cert_name)"] := by
  refine ⟨by decide, by decide, by decide⟩

/-- **`_fix_signing_references`**: every node ending a rule named as signer is collected, the list is stored sorted
    (`signersOfStr`, `fixNode`) -/
theorem fix_signing_table :
    Gen.C12.fixSigningExtend = ["new_sign_cons <- self.rule_node_ids[rid]"] ∧
    Gen.C12.fixSigningStore = ["sorted(new_sign_cons)"] := by
  refine ⟨by decide, by decide⟩

end Ndn.C12
