import NdnProofs.Lemmas.Lvs.Sanity
import NdnProofs.Lemmas.Lvs.Sem
import NdnProofs.Lemmas.Lvs.Example
import NdnProofs.Lemmas.Lvs.CompileVDet
import NdnProofs.Lemmas.Lvs.CompileExample
/-!
# C11 — a compiled trust schema matches exactly the names it describes (compiled-model level)

Model: `Ndn.Lvs.matchIter` (`Checker._match`, the iterative back-tracking search with explicit stacks),
`Ndn.Lvs.matchTree` (the same search by recursion on the name), `matchNames` (`Checker.match`).
Specification (`NdnModel/Lvs/Sem.lean`): `Matches m fns σ name n σ'` — there is a path from the start
node to `n` whose edges accept the components of `name` one by one (value edge: equal component; pattern
edge: tag unbound or bound to that component, every constraint has an option that holds under the
bindings made so far; an unbound named tag becomes bound), ending with bindings `σ'`.

The compiler is modelled as well (`NdnModel/Lvs/{Ast,Compile}.lean`: `Ndn.Lvs.compile`, the passes of
`compiler.py` as written — rule sorting, pattern numbering, DNF replication / reference inlining with fresh
temporaries, node merging, signer resolution — from the parsed AST to the `Model` value).  It is tied to the
real `compile_lvs` on every run: the harness sends each generated schema AST to the Lean compiler and
compares the node pool it returns with the one the real compiler produced (exactly; up to the numbering of
nodes and tags if the two differ only in that), and the Lean matcher then runs on the Lean-compiled pool.

**What is proved about the compiler model**: every model it emits for an AST the parser can produce is
`Sane` and `VDet` (`compiled_match_iff`: the hypotheses of `compile_correct_partial` are discharged for
compiler output).  **What is not proved**: `compile_correct` — that the tree denotes the source text
(lvs.rst): numbering preserves the source semantics, replication = union over alternatives and inlined
references, node merging preserves the accepted (name, bindings) pairs.  That half of C11 rests on the
correspondence run and on the source-level oracle of the harness.
-/
namespace Ndn.C11
open Ndn Ndn.Lvs

/-- **matchIter_eq_matchTree.** On a sane model, if no exception left the iterative search, it has ended,
    it yielded exactly the list the recursive matcher computes (same order, same bindings) and the
    caller's context is restored.  No assumption on the user functions. -/
theorem matchIter_eq_matchTree (m : Model) (hs : Sane m) (env : FnEnv) (name : List Bytes) (σ : Ctx)
    (hne : (matchIter m env name σ).err = none) :
    (matchIter m env name σ).cur = none ∧
    (matchIter m env name σ).outs = matchTree m env name m.startId σ ∧
    (matchIter m env name σ).ctx = σ :=
  ⟨matchIter_halts m hs.treeOK env name σ, matchIter_outs_of_no_err m hs.treeOK env name σ hne⟩

/-- With defined, non-raising user functions no exception occurs. -/
theorem matchIter_no_exception (m : Model) (hs : Sane m) (env : FnEnv) (henv : EnvTotal env)
    (name : List Bytes) (σ : Ctx) : (matchIter m env name σ).err = none :=
  matchIter_no_err m hs env henv name σ

/-- **matchTree_sound.** Every reported match is a match of the specification (no hypotheses at all). -/
theorem matchTree_sound (m : Model) (env : FnEnv) (name : List Bytes) (σ : Ctx) (n : Nat) (σ' : Ctx)
    (h : (n, σ') ∈ matchTree m env name m.startId σ) : Matches m (pureOf env) σ name n σ' :=
  Ndn.Lvs.matchTree_sound m env name _ _ _ _ h

/-- **matchIter_sound.** Whatever the `user_fns` dictionary (functions missing or raising): everything the
    iterative search yields before it ends or raises is a match of the specification (missing / raising
    functions read as false). -/
theorem matchIter_sound (m : Model) (hs : Sane m) (env : FnEnv) (name : List Bytes) (σ : Ctx) (n : Nat) (σ' : Ctx)
    (h : (n, σ') ∈ (matchIter m env name σ).outs) : Matches m (pureOf env) σ name n σ' :=
  Ndn.Lvs.matchTree_sound m env name _ _ _ _ (matchIter_outs_subset m hs.treeOK env name σ _ h)

/-- **matchTree_iff_Sem.** Sound and complete w.r.t. the model-level specification. -/
theorem matchTree_iff_Sem (m : Model) (hs : Sane m) (hv : VDet m) (env : FnEnv) (henv : EnvTotal env)
    (name : List Bytes) (σ : Ctx) (n : Nat) (σ' : Ctx) :
    (n, σ') ∈ matchTree m env name m.startId σ ↔ Matches m (pureOf env) σ name n σ' :=
  ⟨Ndn.Lvs.matchTree_sound m env name _ _ _ _,
   fun h => matchTree_complete m env (edgeTotal_of_sane hs env henv) hv h Reach.start⟩

/-- **compile_correct_partial.**  Full statement (not proved):
    `WFSchema S → ∀ name, {(rule, bindings) reported by Checker(compile S).match name} = Sem S name`,
    where `Sem` is the source-level semantics of docs/src/lvs/lvs.rst.  The compiler is modelled
    (`Ndn.Lvs.compile`) and its output is proved `Sane` and `VDet` (`compiled_match_iff`), but the three
    semantic layers (numbering, replication, node merging preserve `Sem`) are not proved.
    Proved part, for every model that passes the loader (in particular the compiler's output, used
    directly or after save/load, which yields the same `Model` value): the iterative checker reports node
    `n` with bindings `σ'` iff `name` matches `n` with `σ'` in the denotation of the compiled tree. -/
theorem compile_correct_partial (m : Model) (hs : Sane m) (hv : VDet m) (env : FnEnv) (henv : EnvTotal env)
    (name : List Bytes) (σ : Ctx) (n : Nat) (σ' : Ctx) :
    (n, σ') ∈ (matchIter m env name σ).outs ↔ Matches m (pureOf env) σ name n σ' := by
  rw [(matchIter_eq_matchTree m hs env name σ (matchIter_no_err m hs env henv name σ)).2.1]
  exact matchTree_iff_Sem m hs hv env henv name σ n σ'

/-- **compiled_match_iff.** For the output of the compiler model on any AST the parser can produce
    (`Schema.WF`), without further hypotheses on the model: the iterative checker reports node `n` with
    bindings `σ'` iff `name` matches `n` with `σ'` in the denotation of the compiled tree.  (The model is
    `Sane` whether or not the loader's `top_order` then finds a signing loop.) -/
theorem compiled_match_iff (S : Schema) (hwf : S.WF) (m : Model) (syms : List String)
    (h : compile S = .ok (m, syms)) (env : FnEnv) (henv : EnvTotal env)
    (name : List Bytes) (σ : Ctx) (n : Nat) (σ' : Ctx) :
    (n, σ') ∈ (matchIter m env name σ).outs ↔ Matches m (pureOf env) σ name n σ' :=
  compile_correct_partial m (compile_built S hwf m syms h).sane (compile_vdet S m syms h) env henv name σ n σ'

/-- the compiler emits one value edge per distinct component -/
theorem compiled_vdet (S : Schema) (m : Model) (syms : List String) (h : compile S = .ok (m, syms)) : VDet m :=
  compile_vdet S m syms h

/-- `Checker.match`: the rule names reported are those of the matched nodes, after dropping a trailing
    implicit digest. -/
theorem matchNames_spec (m : Model) (hs : Sane m) (env : FnEnv) (henv : EnvTotal env)
    (name nm : List Bytes) (hd : dropDigest name = some nm) :
    matchNames m env name =
      .ok ((matchTree m env nm m.startId []).map (fun o => (ruleNamesOf m o.1, o.2)), none) := by
  unfold matchNames
  rw [stripDigest_eq, hd]
  simp only [matchIter_no_err m hs env henv nm [],
    (matchIter_outs_of_no_err m hs.treeOK env nm [] (matchIter_no_err m hs env henv nm [])).1]

/-! ### non-vacuity (schema `#p: "d"/x <= #k`, `#k: "k"/x & {x: "a"|"b"}`) -/

open Example in
example : Sane model := Ndn.Lvs.sane_of_structCheck _ (by decide)
open Example in
/-- `/k/a` matches `#k` with `x = a`; `/k/e` matches nothing -/
example : matchTree model allFns [cK, cA] 0 [] = [(4, [(1, cA)])] ∧ matchTree model allFns [cK, cE] 0 [] = [] := by
  decide
open Example in
example : Matches model (pureOf allFns) [] [cK, cA] 4 [(1, cA)] :=
  matchTree_sound model allFns [cK, cA] [] 4 [(1, cA)] (by decide)
open Example in
example : (matchIter model allFns [cD, cE] []).outs = [(2, [(1, cE)])] := by decide
/-- the schema compiles (in the compiler model) to the model of these examples -/
example : compile Example.schema = .ok (Example.model, ["x"]) := Example.compile_schema
example : VDet Example.model := compiled_vdet _ _ _ Example.compile_schema
open Example in
example : Matches model (pureOf allFns) [] [cD, cE] 2 [(1, cE)] :=
  (compiled_match_iff schema schema_wf model ["x"] compile_schema allFns
    (fun _ => ⟨_, rfl, fun _ _ => ⟨true, rfl⟩⟩) [cD, cE] [] 2 [(1, cE)]).mp (by decide)

end Ndn.C11
