import NdnProofs.Lemmas.Lvs.Sanity
import NdnProofs.Lemmas.Lvs.Sem
import NdnProofs.Lemmas.Lvs.Example
import NdnProofs.Lemmas.Lvs.CompileVDet
import NdnProofs.Lemmas.Lvs.CompileExample
/-!
# C11 — a compiled trust schema matches exactly the names it describes (compiled-model level)

Model: `Ndn.Lvs.matchIter` (`Checker._match`, the iterative back-tracking search with explicit stacks),
`Ndn.Lvs.matchTree` (the same search by recursion on the name), `matchNames` (`Checker.match`).
Specification (`NdnModel/Lvs/Sem.lean`): `Matches m fns σ name n σ'` — there is a path from the start
node to `n` whose edges accept the components of `name` one by one (value edge: equal component; pattern
edge: tag unbound or bound to that component, every constraint has an option that holds under the
bindings made so far; an unbound named tag becomes bound), ending with bindings `σ'`.

The compiler is modelled as well (`NdnModel/Lvs/{Ast,Compile}.lean`: `Ndn.Lvs.compile`, the passes of
`compiler.py` as written — rule sorting, pattern numbering, DNF replication / reference inlining with fresh
temporaries, node merging, signer resolution — from the parsed AST to the `Model` value).  It is tied to the
real `compile_lvs` on every run: the harness sends each generated schema AST to the Lean compiler and
compares the node pool it returns with the one the real compiler produced (exactly; up to the numbering of
nodes and tags if the two differ only in that), and the Lean matcher then runs on the Lean-compiled pool.

**What is proved about the compiler model**: every model it emits for an AST the parser can produce is
`Sane` and `VDet` (`compiled_match_iff`: the hypotheses of `compile_correct_partial` are discharged for
compiler output); and the last layer of `compile_correct`, **node merging** (`tree_eq_chains`,
`checker_reports_iff_chain`): the tree `_generate_node` builds from the replicated rule chains accepts a name
at a node carrying rule `r`, with bindings `σ'`, iff one of the chains of `r` accepts the name on its own with
the same bindings (`ChainRun`: literals equal; the constraints `pattern_movement` attaches to the first
occurrence of a pattern hold under the bindings made so far; a named pattern binds or repeats; a temporary one
binds nothing) — given that the merge key (`pattern_movement`'s string) determines tag and constraints
(`KeyInj`, a hypothesis: it is a property of the string encoding, true for identifiers the grammar admits;
`merge_key_test_sound`: it follows from a computable test the drivers evaluate on every generated schema).
**What is not proved**: the two earlier layers of `compile_correct` — numbering preserves the source
semantics, and replication = union over DNF alternatives and inlined references (with fresh temporaries per
occurrence) — and `KeyInj` itself.  These rest on the correspondence run and the source-level oracle.
-/
namespace Ndn.C11
open Ndn Ndn.Lvs

/-- **matchIter_eq_matchTree.** On a sane model, if no exception left the iterative search, it has ended,
    it yielded exactly the list the recursive matcher computes (same order, same bindings) and the
    caller's context is restored.  No assumption on the user functions. -/
theorem matchIter_eq_matchTree (m : Model) (hs : Sane m) (env : FnEnv) (name : List Bytes) (σ : Ctx)
    (hne : (matchIter m env name σ).err = none) :
    (matchIter m env name σ).cur = none ∧
    (matchIter m env name σ).outs = matchTree m env name m.startId σ ∧
    (matchIter m env name σ).ctx = σ :=
  ⟨matchIter_halts m hs.treeOK env name σ, matchIter_outs_of_no_err m hs.treeOK env name σ hne⟩

/-- With defined, non-raising user functions no exception occurs. -/
theorem matchIter_no_exception (m : Model) (hs : Sane m) (env : FnEnv) (henv : EnvTotal env)
    (name : List Bytes) (σ : Ctx) : (matchIter m env name σ).err = none :=
  matchIter_no_err m hs env henv name σ

/-- **matchTree_sound.** Every reported match is a match of the specification (no hypotheses at all). -/
theorem matchTree_sound (m : Model) (env : FnEnv) (name : List Bytes) (σ : Ctx) (n : Nat) (σ' : Ctx)
    (h : (n, σ') ∈ matchTree m env name m.startId σ) : Matches m (pureOf env) σ name n σ' :=
  Ndn.Lvs.matchTree_sound m env name _ _ _ _ h

/-- **matchIter_sound.** Whatever the `user_fns` dictionary (functions missing or raising): everything the
    iterative search yields before it ends or raises is a match of the specification (missing / raising
    functions read as false). -/
theorem matchIter_sound (m : Model) (hs : Sane m) (env : FnEnv) (name : List Bytes) (σ : Ctx) (n : Nat) (σ' : Ctx)
    (h : (n, σ') ∈ (matchIter m env name σ).outs) : Matches m (pureOf env) σ name n σ' :=
  Ndn.Lvs.matchTree_sound m env name _ _ _ _ (matchIter_outs_subset m hs.treeOK env name σ _ h)

/-- **matchTree_iff_Sem.** Sound and complete w.r.t. the model-level specification. -/
theorem matchTree_iff_Sem (m : Model) (hs : Sane m) (hv : VDet m) (env : FnEnv) (henv : EnvTotal env)
    (name : List Bytes) (σ : Ctx) (n : Nat) (σ' : Ctx) :
    (n, σ') ∈ matchTree m env name m.startId σ ↔ Matches m (pureOf env) σ name n σ' :=
  ⟨Ndn.Lvs.matchTree_sound m env name _ _ _ _,
   fun h => matchTree_complete m env (edgeTotal_of_sane hs env henv) hv h Reach.start⟩

/-- **compile_correct_partial.**  Full statement (not proved):
    `WFSchema S → ∀ name, {(rule, bindings) reported by Checker(compile S).match name} = Sem S name`,
    where `Sem` is the source-level semantics of docs/src/lvs/lvs.rst.  The compiler is modelled
    (`Ndn.Lvs.compile`), its output is proved `Sane` and `VDet` (`compiled_match_iff`), and the node-merging
    layer is proved (`tree_eq_chains`, `checker_reports_iff_chain`: compiled tree = union of its chains, given
    an injective merge key); the numbering and replication layers (chains = source rules) are not.
    Proved part, for every model that passes the loader (in particular the compiler's output, used
    directly or after save/load, which yields the same `Model` value): the iterative checker reports node
    `n` with bindings `σ'` iff `name` matches `n` with `σ'` in the denotation of the compiled tree. -/
theorem compile_correct_partial (m : Model) (hs : Sane m) (hv : VDet m) (env : FnEnv) (henv : EnvTotal env)
    (name : List Bytes) (σ : Ctx) (n : Nat) (σ' : Ctx) :
    (n, σ') ∈ (matchIter m env name σ).outs ↔ Matches m (pureOf env) σ name n σ' := by
  rw [(matchIter_eq_matchTree m hs env name σ (matchIter_no_err m hs env henv name σ)).2.1]
  exact matchTree_iff_Sem m hs hv env henv name σ n σ'

/-- **compiled_match_iff.** For the output of the compiler model on any AST the parser can produce
    (`Schema.WF`), without further hypotheses on the model: the iterative checker reports node `n` with
    bindings `σ'` iff `name` matches `n` with `σ'` in the denotation of the compiled tree.  (The model is
    `Sane` whether or not the loader's `top_order` then finds a signing loop.) -/
theorem compiled_match_iff (S : Schema) (hwf : S.WF) (m : Model) (syms : List String)
    (h : compile S = .ok (m, syms)) (env : FnEnv) (henv : EnvTotal env)
    (name : List Bytes) (σ : Ctx) (n : Nat) (σ' : Ctx) :
    (n, σ') ∈ (matchIter m env name σ).outs ↔ Matches m (pureOf env) σ name n σ' :=
  compile_correct_partial m (compile_built S hwf m syms h).sane (compile_vdet S m syms h) env henv name σ n σ'

/-- **tree_eq_chains** (node merging preserves the accepted pairs).  `chains` are the replicated rule chains
    (`chainsOf`, passes 1–3), `m` the model built from them (passes 4–5).  For bindings `σ` over named patterns:
    a name is matched (specification `Matches`) at a node that carries rule `rid`, ending with bindings `σ'`,
    iff a chain with identifier `rid` accepts the name on its own (`ChainRun`) with the same bindings.
    Hypothesis `KeyInj`: the merge key `pattern_movement` computes determines the tag and the constraints. -/
theorem tree_eq_chains (S : Schema) (chains : List Chain) (named : List String) (m : Model)
    (h1 : chainsOf S = .ok (chains, named)) (h2 : buildModel chains named = .ok m) (hkey : KeyInj chains)
    (fns : PureEnv) (σ : Ctx) (hσ : CtxLe named.length σ) (name : List Bytes) (σ' : Ctx) (rid : String) :
    (∃ n node, Matches m fns σ name n σ' ∧ m.nodes[n]? = some node ∧ rid ∈ node.ruleNames) ↔
      ∃ rc ∈ chains, rc.id = rid ∧ ChainRun fns rc rc.name [] σ name σ' :=
  buildModel_sem chains named m h2 hkey (chainsOf_tagsLe S chains named h1) fns σ hσ name σ' rid

/-- **merge_key_test_sound.** `KeyInj` follows from the computable test `keyInjB`, which the model drivers evaluate
    on the chains of every generated schema (the harness requires it to be true on each of them). -/
theorem merge_key_test_sound (chains : List Chain) (h : keyInjB chains = true) : KeyInj chains :=
  keyInj_of_keyInjB chains h

/-- `compile` is `chainsOf` followed by `buildModel` -/
theorem compile_split (S : Schema) (m : Model) (syms : List String) (h : compile S = .ok (m, syms)) :
    ∃ chains, chainsOf S = .ok (chains, syms) ∧ buildModel chains syms = .ok m := by
  unfold compile at h
  split at h
  · simp at h
  · rename_i chains named hch
    split at h
    · simp at h
    · rename_i m' hb
      injection h with h
      simp only [Prod.mk.injEq] at h
      obtain ⟨rfl, rfl⟩ := h
      exact ⟨chains, hch, hb⟩

/-- **checker_reports_iff_chain.** The same for what the real search reports: for a schema the parser can
    produce that compiles, total user functions and bindings over named patterns, the iterative checker yields
    a node carrying rule `rid` with bindings `σ'` iff a chain of `rid` accepts the name with these bindings. -/
theorem checker_reports_iff_chain (S : Schema) (hwf : S.WF) (m : Model) (syms : List String) (chains : List Chain)
    (h : compile S = .ok (m, syms)) (hch : chainsOf S = .ok (chains, syms)) (hkey : KeyInj chains)
    (env : FnEnv) (henv : EnvTotal env) (σ : Ctx) (hσ : CtxLe syms.length σ) (name : List Bytes) (σ' : Ctx)
    (rid : String) :
    (∃ n node, (n, σ') ∈ (matchIter m env name σ).outs ∧ m.nodes[n]? = some node ∧ rid ∈ node.ruleNames) ↔
      ∃ rc ∈ chains, rc.id = rid ∧ ChainRun (pureOf env) rc rc.name [] σ name σ' := by
  obtain ⟨chains', hch', hb⟩ := compile_split S m syms h
  rw [hch] at hch'
  injection hch' with hch'
  simp only [Prod.mk.injEq] at hch'
  obtain ⟨rfl, _⟩ := hch'
  rw [← tree_eq_chains S chains syms m hch hb hkey (pureOf env) σ hσ name σ' rid]
  constructor
  · intro ⟨n, node, ho, hn, hr⟩
    exact ⟨n, node, (compiled_match_iff S hwf m syms h env henv name σ n σ').mp ho, hn, hr⟩
  · intro ⟨n, node, hm, hn, hr⟩
    exact ⟨n, node, (compiled_match_iff S hwf m syms h env henv name σ n σ').mpr hm, hn, hr⟩

/-- the compiler emits one value edge per distinct component -/
theorem compiled_vdet (S : Schema) (m : Model) (syms : List String) (h : compile S = .ok (m, syms)) : VDet m :=
  compile_vdet S m syms h

/-- `Checker.match`: the rule names reported are those of the matched nodes, after dropping a trailing
    implicit digest. -/
theorem matchNames_spec (m : Model) (hs : Sane m) (env : FnEnv) (henv : EnvTotal env)
    (name nm : List Bytes) (hd : dropDigest name = some nm) :
    matchNames m env name =
      .ok ((matchTree m env nm m.startId []).map (fun o => (ruleNamesOf m o.1, o.2)), none) := by
  unfold matchNames
  rw [stripDigest_eq, hd]
  simp only [matchIter_no_err m hs env henv nm [],
    (matchIter_outs_of_no_err m hs.treeOK env nm [] (matchIter_no_err m hs env henv nm [])).1]

/-! ### non-vacuity (schema `#p: "d"/x <= #k`, `#k: "k"/x & {x: "a"|"b"}`) -/

open Example in
example : Sane model := Ndn.Lvs.sane_of_structCheck _ (by decide)
open Example in
/-- `/k/a` matches `#k` with `x = a`; `/k/e` matches nothing -/
example : matchTree model allFns [cK, cA] 0 [] = [(4, [(1, cA)])] ∧ matchTree model allFns [cK, cE] 0 [] = [] := by
  decide
open Example in
example : Matches model (pureOf allFns) [] [cK, cA] 4 [(1, cA)] :=
  matchTree_sound model allFns [cK, cA] [] 4 [(1, cA)] (by decide)
open Example in
example : (matchIter model allFns [cD, cE] []).outs = [(2, [(1, cE)])] := by decide
/-- the schema compiles (in the compiler model) to the model of these examples -/
example : compile Example.schema = .ok (Example.model, ["x"]) := Example.compile_schema
example : VDet Example.model := compiled_vdet _ _ _ Example.compile_schema
example : KeyInj Example.chains := merge_key_test_sound _ (by decide)
/-- node merging on the example: `/d/e` reaches a node of `#p` with `x = e` iff a chain of `#p` runs on it -/
example : ∃ rc ∈ Example.chains, rc.id = "#p" ∧
    ChainRun (pureOf Example.allFns) rc rc.name [] [] [Example.cD, Example.cE] [(1, Example.cE)] :=
  (tree_eq_chains Example.schema Example.chains ["x"] Example.model Example.chainsOf_schema Example.buildModel_chains
    Example.keyInj_chains (pureOf Example.allFns) [] (by intro t v h; simp [PyDict.get?] at h)
    [Example.cD, Example.cE] [(1, Example.cE)] "#p").mp
    ⟨2, Example.model.nodes[2], Ndn.Lvs.matchTree_sound Example.model Example.allFns [Example.cD, Example.cE] _ _ _ _ (by decide),
      rfl, by decide⟩
example : ∃ n node, (n, [(1, Example.cE)]) ∈ (matchIter Example.model Example.allFns [Example.cD, Example.cE] []).outs ∧
    Example.model.nodes[n]? = some node ∧ "#p" ∈ node.ruleNames :=
  (checker_reports_iff_chain Example.schema Example.schema_wf Example.model ["x"] Example.chains Example.compile_schema
    Example.chainsOf_schema Example.keyInj_chains Example.allFns (fun _ => ⟨_, rfl, fun _ _ => ⟨true, rfl⟩⟩) []
    (by intro t v h; simp [PyDict.get?] at h) [Example.cD, Example.cE] [(1, Example.cE)] "#p").mpr
    ⟨_, List.mem_cons_of_mem _ List.mem_cons_self, rfl, by
      simp only [ChainRun, BindStep, Example.cD]
      refine ⟨trivial, ?_, [(1, Example.cE)], ?_, rfl⟩
      · intro cl hcl; simp [pmove] at hcl
      · right; exact ⟨rfl, rfl⟩⟩
open Example in
example : Matches model (pureOf allFns) [] [cD, cE] 2 [(1, cE)] :=
  (compiled_match_iff schema schema_wf model ["x"] compile_schema allFns
    (fun _ => ⟨_, rfl, fun _ _ => ⟨true, rfl⟩⟩) [cD, cE] [] 2 [(1, cE)]).mp (by decide)

end Ndn.C11
