import NdnProofs.Lemmas.Lvs.Sanity
import NdnProofs.Lemmas.Lvs.Sem
import NdnProofs.Lemmas.Lvs.Example
import NdnProofs.Lemmas.Lvs.CompileVDet
import NdnProofs.Lemmas.Lvs.CompileExample
import NdnProofs.Lemmas.Lvs.SrcExec
import NdnProofs.Lemmas.Lvs.SrcRename
import NdnProofs.Lemmas.Lvs.KeyInj
/-!
# C11 — a compiled trust schema matches exactly the names it describes (compiled-model level)

Model: `Ndn.Lvs.matchIter` (`Checker._match`, the iterative back-tracking search with explicit stacks),
`Ndn.Lvs.matchTree` (the same search by recursion on the name), `matchNames` (`Checker.match`).
Specification (`NdnModel/Lvs/Sem.lean`): `Matches m fns σ name n σ'` — there is a path from the start
node to `n` whose edges accept the components of `name` one by one (value edge: equal component; pattern
edge: tag unbound or bound to that component, every constraint has an option that holds under the
bindings made so far; an unbound named tag becomes bound), ending with bindings `σ'`.

The compiler is modelled as well (`NdnModel/Lvs/{Ast,Compile}.lean`: `Ndn.Lvs.compile`, the passes of
`compiler.py` as written — rule sorting, pattern numbering, DNF replication / reference inlining with fresh
temporaries, node merging, signer resolution — from the parsed AST to the `Model` value).  It is tied to the
real `compile_lvs` on every run: the harness sends each generated schema AST to the Lean compiler and
compares the node pool it returns with the one the real compiler produced (exactly; up to the numbering of
nodes and tags if the two differ only in that), and the Lean matcher then runs on the Lean-compiled pool.

**What is proved about the compiler model**: every model it emits for an AST the parser can produce is
`Sane` and `VDet` (`compiled_match_iff`: the hypotheses of `compile_correct_partial` are discharged for
compiler output); and all layers of `compile_correct`:

* **source semantics** (`NdnModel/Lvs/SrcSem.lean`, a transcription of docs/src/lvs/lvs.rst that knows nothing of the
  compiler): `SrcMatches S fns rid σ name σ'` — some definition of `rid`, with one of its constraint sets and with every
  embedded rule replaced by one of its definitions (`Expands`), matches `name` left to right (`Flat.run`: literals equal,
  a named pattern binds or repeats its binding, a temporary pattern is local to its occurrence and carries its own
  constraints, every constraint on a pattern — own or inherited — has an option that holds under the bindings made so
  far where the pattern is first met);
* **numbering** (`genPatternNumbers_num`): a named pattern has one number everywhere, every occurrence of a temporary
  pattern a negative number of its own, a constraint on `_x` lists the numbers of the occurrences of `_x` in its rule;
* **replication** (`replicateLoop_sem`, `chainsOf_sem`): the chains `_replicate_rules` produces are, rule by rule, exactly
  the expansions of the definitions — DNF alternatives, repeated definitions, inlined references; `_fresh_temp_tags` is an
  injective renaming into numbers not in use, so every copy of a referenced rule keeps its own constraints (`Impl`:
  position by position, a chain carries the numbered form of what the expansion has there);
* **a chain accepts what its expansion matches** (`impl_run`), **node merging** (`tree_eq_chains`,
  `checker_reports_iff_chain`: the tree accepts at a node carrying rule `r` iff one of the chains of `r` accepts, given
  that the merge key determines tag and constraints — `KeyInj`, a fact about the string encoding of the key, proved for
  every schema the parser can produce: `keyInj_of_wf`; the key text parses back uniquely because numbers are printed in
  decimal, literals in hex, and a user-function name — `$` + C identifier — contains none of the separators `(` `,` `}`;
  without that condition on the names the key is not injective: `keyInj_counterexample`);
* composed: **`compile_correct_wf`** (= `compile_correct` with its hypothesis `KeyInj` discharged) — `Checker.match` on the
  compiled model reports rule `rid` with bindings `σ'` iff the name matches `rid` as written with these bindings
  (`compile_correct_named_wf`: for the text as written, when `rid` is not a temporary rule; temporary rules are judged under
  the identifier pass 1 gives them).  The computable test `keyInjB` the drivers evaluate on every generated schema is now a
  cross-check of the model against the theorem: it is true on every well-formed schema (`merge_key_test_holds`).
* the executable form of the source semantics (`srcMatch`, which the drivers run and the harness compares with the real
  `Checker.match` and with the Python oracle on every generated schema and name) computes `SrcMatches`
  (`srcMatch_computes`).

**What is not proved**: model = code (sampled by the correspondence run).
-/
namespace Ndn.C11
open Ndn Ndn.Lvs

/-- **matchIter_eq_matchTree.** On a sane model, if no exception left the iterative search, it has ended,
    it yielded exactly the list the recursive matcher computes (same order, same bindings) and the
    caller's context is restored.  No assumption on the user functions. -/
theorem matchIter_eq_matchTree (m : Model) (hs : Sane m) (env : FnEnv) (name : List Bytes) (σ : Ctx)
    (hne : (matchIter m env name σ).err = none) :
    (matchIter m env name σ).cur = none ∧
    (matchIter m env name σ).outs = matchTree m env name m.startId σ ∧
    (matchIter m env name σ).ctx = σ :=
  ⟨matchIter_halts m hs.treeOK env name σ, matchIter_outs_of_no_err m hs.treeOK env name σ hne⟩

/-- With defined, non-raising user functions no exception occurs. -/
theorem matchIter_no_exception (m : Model) (hs : Sane m) (env : FnEnv) (henv : EnvTotal env)
    (name : List Bytes) (σ : Ctx) : (matchIter m env name σ).err = none :=
  matchIter_no_err m hs env henv name σ

/-- **matchTree_sound.** Every reported match is a match of the specification (no hypotheses at all). -/
theorem matchTree_sound (m : Model) (env : FnEnv) (name : List Bytes) (σ : Ctx) (n : Nat) (σ' : Ctx)
    (h : (n, σ') ∈ matchTree m env name m.startId σ) : Matches m (pureOf env) σ name n σ' :=
  Ndn.Lvs.matchTree_sound m env name _ _ _ _ h

/-- **matchIter_sound.** Whatever the `user_fns` dictionary (functions missing or raising): everything the
    iterative search yields before it ends or raises is a match of the specification (missing / raising
    functions read as false). -/
theorem matchIter_sound (m : Model) (hs : Sane m) (env : FnEnv) (name : List Bytes) (σ : Ctx) (n : Nat) (σ' : Ctx)
    (h : (n, σ') ∈ (matchIter m env name σ).outs) : Matches m (pureOf env) σ name n σ' :=
  Ndn.Lvs.matchTree_sound m env name _ _ _ _ (matchIter_outs_subset m hs.treeOK env name σ _ h)

/-- **matchTree_iff_Sem.** Sound and complete w.r.t. the model-level specification. -/
theorem matchTree_iff_Sem (m : Model) (hs : Sane m) (hv : VDet m) (env : FnEnv) (henv : EnvTotal env)
    (name : List Bytes) (σ : Ctx) (n : Nat) (σ' : Ctx) :
    (n, σ') ∈ matchTree m env name m.startId σ ↔ Matches m (pureOf env) σ name n σ' :=
  ⟨Ndn.Lvs.matchTree_sound m env name _ _ _ _,
   fun h => matchTree_complete m env (edgeTotal_of_sane hs env henv) hv h Reach.start⟩

/-- **compile_correct_partial.**  The compiled-model layer of `compile_correct` (below), for every model that passes
    the loader (in particular the compiler's output, used directly or after save/load, which yields the same `Model`
    value): the iterative checker reports node `n` with bindings `σ'` iff `name` matches `n` with `σ'` in the
    denotation of the compiled tree. -/
theorem compile_correct_partial (m : Model) (hs : Sane m) (hv : VDet m) (env : FnEnv) (henv : EnvTotal env)
    (name : List Bytes) (σ : Ctx) (n : Nat) (σ' : Ctx) :
    (n, σ') ∈ (matchIter m env name σ).outs ↔ Matches m (pureOf env) σ name n σ' := by
  rw [(matchIter_eq_matchTree m hs env name σ (matchIter_no_err m hs env henv name σ)).2.1]
  exact matchTree_iff_Sem m hs hv env henv name σ n σ'

/-- **compiled_match_iff.** For the output of the compiler model on any AST the parser can produce
    (`Schema.WF`), without further hypotheses on the model: the iterative checker reports node `n` with
    bindings `σ'` iff `name` matches `n` with `σ'` in the denotation of the compiled tree.  (The model is
    `Sane` whether or not the loader's `top_order` then finds a signing loop.) -/
theorem compiled_match_iff (S : Schema) (hwf : S.WF) (m : Model) (syms : List String)
    (h : compile S = .ok (m, syms)) (env : FnEnv) (henv : EnvTotal env)
    (name : List Bytes) (σ : Ctx) (n : Nat) (σ' : Ctx) :
    (n, σ') ∈ (matchIter m env name σ).outs ↔ Matches m (pureOf env) σ name n σ' :=
  compile_correct_partial m (compile_built S hwf m syms h).sane (compile_vdet S m syms h) env henv name σ n σ'

/-- **tree_eq_chains** (node merging preserves the accepted pairs).  `chains` are the replicated rule chains
    (`chainsOf`, passes 1–3), `m` the model built from them (passes 4–5).  For bindings `σ` over named patterns:
    a name is matched (specification `Matches`) at a node that carries rule `rid`, ending with bindings `σ'`,
    iff a chain with identifier `rid` accepts the name on its own (`ChainRun`) with the same bindings.
    Hypothesis `KeyInj`: the merge key `pattern_movement` computes determines the tag and the constraints. -/
theorem tree_eq_chains (S : Schema) (chains : List Chain) (named : List String) (m : Model)
    (h1 : chainsOf S = .ok (chains, named)) (h2 : buildModel chains named = .ok m) (hkey : KeyInj chains)
    (fns : PureEnv) (σ : Ctx) (hσ : CtxLe named.length σ) (name : List Bytes) (σ' : Ctx) (rid : String) :
    (∃ n node, Matches m fns σ name n σ' ∧ m.nodes[n]? = some node ∧ rid ∈ node.ruleNames) ↔
      ∃ rc ∈ chains, rc.id = rid ∧ ChainRun fns rc rc.name [] σ name σ' :=
  buildModel_sem chains named m h2 hkey (chainsOf_tagsLe S chains named h1) fns σ hσ name σ' rid

/-- **merge_key_test_sound.** `KeyInj` follows from the computable test `keyInjB`, which the model drivers evaluate
    on the chains of every generated schema (the harness requires it to be true on each of them). -/
theorem merge_key_test_sound (chains : List Chain) (h : keyInjB chains = true) : KeyInj chains :=
  keyInj_of_keyInjB chains h

/-- `compile` is `chainsOf` followed by `buildModel` -/
theorem compile_split (S : Schema) (m : Model) (syms : List String) (h : compile S = .ok (m, syms)) :
    ∃ chains, chainsOf S = .ok (chains, syms) ∧ buildModel chains syms = .ok m := by
  unfold compile at h
  split at h
  · simp at h
  · rename_i chains named hch
    split at h
    · simp at h
    · rename_i m' hb
      injection h with h
      simp only [Prod.mk.injEq] at h
      obtain ⟨rfl, rfl⟩ := h
      exact ⟨chains, hch, hb⟩

/-- **checker_reports_iff_chain.** The same for what the real search reports: for a schema the parser can
    produce that compiles, total user functions and bindings over named patterns, the iterative checker yields
    a node carrying rule `rid` with bindings `σ'` iff a chain of `rid` accepts the name with these bindings. -/
theorem checker_reports_iff_chain (S : Schema) (hwf : S.WF) (m : Model) (syms : List String) (chains : List Chain)
    (h : compile S = .ok (m, syms)) (hch : chainsOf S = .ok (chains, syms)) (hkey : KeyInj chains)
    (env : FnEnv) (henv : EnvTotal env) (σ : Ctx) (hσ : CtxLe syms.length σ) (name : List Bytes) (σ' : Ctx)
    (rid : String) :
    (∃ n node, (n, σ') ∈ (matchIter m env name σ).outs ∧ m.nodes[n]? = some node ∧ rid ∈ node.ruleNames) ↔
      ∃ rc ∈ chains, rc.id = rid ∧ ChainRun (pureOf env) rc rc.name [] σ name σ' := by
  obtain ⟨chains', hch', hb⟩ := compile_split S m syms h
  rw [hch] at hch'
  injection hch' with hch'
  simp only [Prod.mk.injEq] at hch'
  obtain ⟨rfl, _⟩ := hch'
  rw [← tree_eq_chains S chains syms m hch hb hkey (pureOf env) σ hσ name σ' rid]
  constructor
  · intro ⟨n, node, ho, hn, hr⟩
    exact ⟨n, node, (compiled_match_iff S hwf m syms h env henv name σ n σ').mp ho, hn, hr⟩
  · intro ⟨n, node, hm, hn, hr⟩
    exact ⟨n, node, (compiled_match_iff S hwf m syms h env henv name σ n σ').mpr hm, hn, hr⟩

/-- **keyInj_of_wf.** The hypothesis `KeyInj` as a general fact: for every schema the parser can produce (`Schema.WF`: literals
    are encoded components, a user-function name is non-empty and contains none of `(` `,` `}` — the grammar gives `$` followed
    by letters, digits and `_`), the merge key `pattern_movement` computes (`str(tag) + ':' + '{' option ',' … '}' …`, an option
    `v=`hex / `t=`number / `name(`arguments`)`) determines the tag and the encoded constraints on the chains of the schema. -/
theorem keyInj_of_wf (S : Schema) (hwf : S.WF) (chains : List Chain) (syms : List String)
    (h : chainsOf S = .ok (chains, syms)) : KeyInj chains :=
  Ndn.Lvs.keyInj_of_wf S hwf chains syms h

/-- **merge_key_test_holds.** The computable test the drivers evaluate is equivalent to `KeyInj` (`merge_key_test_sound` is the
    other direction), so it is true on the chains of every well-formed schema: a `0` from the driver is a disagreement between
    the model and this theorem's domain (a schema outside what the parser can produce), never a property of a parsed text. -/
theorem merge_key_test_holds (S : Schema) (hwf : S.WF) (chains : List Chain) (syms : List String)
    (h : chainsOf S = .ok (chains, syms)) : keyInjB chains = true :=
  keyInjB_of_wf S hwf chains syms h

/-- **keyInj_counterexample.** The condition on user-function names is needed: with a `,` (resp. `}`) inside a name, two chains
    whose pattern carries different constraints — one option `$f(),$g()` against the two options `$f()`, `$g()`; one constraint
    against two — get the same merge key, so `_generate_node` would give both the constraints of the first.  (No schema text
    produces such a name: `FN_IDENT: "$" CNAME`.) -/
theorem keyInj_counterexample : ¬ KeyInj badCommaChains ∧ ¬ KeyInj badBraceChains :=
  ⟨fun h => Bool.false_ne_true (badChains_keyInjB.1.symm.trans (keyInjB_of_keyInj _ h)),
   fun h => Bool.false_ne_true (badChains_keyInjB.2.symm.trans (keyInjB_of_keyInj _ h))⟩

/-- **checker_reports_iff_chain_wf.** `checker_reports_iff_chain` without the merge-key hypothesis. -/
theorem checker_reports_iff_chain_wf (S : Schema) (hwf : S.WF) (m : Model) (syms : List String) (chains : List Chain)
    (h : compile S = .ok (m, syms)) (hch : chainsOf S = .ok (chains, syms))
    (env : FnEnv) (henv : EnvTotal env) (σ : Ctx) (hσ : CtxLe syms.length σ) (name : List Bytes) (σ' : Ctx)
    (rid : String) :
    (∃ n node, (n, σ') ∈ (matchIter m env name σ).outs ∧ m.nodes[n]? = some node ∧ rid ∈ node.ruleNames) ↔
      ∃ rc ∈ chains, rc.id = rid ∧ ChainRun (pureOf env) rc rc.name [] σ name σ' :=
  checker_reports_iff_chain S hwf m syms chains h hch (keyInj_of_wf S hwf chains syms hch) env henv σ hσ name σ' rid

/-! ### source text = compiled model -/

/-- **compile_correct** (source semantics = what `Checker.match` reports on the compiled model).
    For a schema the parser can produce (`Schema.WF`) that compiles, total user functions and initial bindings `σ` over the
    named patterns of the schema (`[]` for `Checker.match`; the packet's bindings when `check` matches the key name):
    the iterative checker yields a node carrying rule `rid`, with bindings `σn'`, **iff** the name matches rule `rid` as
    written (`SrcMatches`, docs/src/lvs/lvs.rst) with bindings `σ'` whose numbered form is `σn'` (`encCtx`: identifier ↦
    its tag in the symbol table).  The rules are those of the text with temporary rules under the identifier pass 1 gives
    them (`#_x#k`); see `compile_correct_named`.  Hypothesis `hkey`: the merge key of `pattern_movement` determines tag and
    constraints on the chains of this schema (`compile_correct_keytest`: it follows from the computable test `keyInjB`). -/
theorem compile_correct (S : Schema) (hwf : S.WF) (m : Model) (syms : List String) (h : compile S = .ok (m, syms))
    (hkey : ∀ chains, chainsOf S = .ok (chains, syms) → KeyInj chains)
    (env : FnEnv) (henv : EnvTotal env) (σ : SCtx) (hσ : SCtxIn syms σ) (name : List Bytes) (σn' : Ctx) (rid : String) :
    (∃ n node, (n, σn') ∈ (matchIter m env name (encCtx syms σ)).outs ∧ m.nodes[n]? = some node ∧ rid ∈ node.ruleNames) ↔
      ∃ σ', σn' = encCtx syms σ' ∧ SrcMatches ⟨renameTemps S.rules 1⟩ (pureOf env) rid σ name σ' := by
  obtain ⟨chains, hch, _⟩ := compile_split S m syms h
  rw [checker_reports_iff_chain S hwf m syms chains h hch (hkey chains hch) env henv (encCtx syms σ)
    (ctxLe_encCtx hσ) name σn' rid]
  exact chains_iff_src S chains syms hch (pureOf env) σ hσ name σn' rid

/-- **compile_correct_wf** (`compile_correct` with no hypothesis left on the merge key).  For every schema the parser can produce
    that compiles, total user functions and initial bindings `σ` over the named patterns: the iterative checker yields a node
    carrying rule `rid`, with bindings `σn'`, **iff** the name matches rule `rid` as written (`SrcMatches`) with bindings `σ'`
    whose numbered form is `σn'`. -/
theorem compile_correct_wf (S : Schema) (hwf : S.WF) (m : Model) (syms : List String) (h : compile S = .ok (m, syms))
    (env : FnEnv) (henv : EnvTotal env) (σ : SCtx) (hσ : SCtxIn syms σ) (name : List Bytes) (σn' : Ctx) (rid : String) :
    (∃ n node, (n, σn') ∈ (matchIter m env name (encCtx syms σ)).outs ∧ m.nodes[n]? = some node ∧ rid ∈ node.ruleNames) ↔
      ∃ σ', σn' = encCtx syms σ' ∧ SrcMatches ⟨renameTemps S.rules 1⟩ (pureOf env) rid σ name σ' :=
  compile_correct S hwf m syms h (fun chains hch => keyInj_of_wf S hwf chains syms hch) env henv σ hσ name σn' rid

/-- **compile_correct_keytest.** `compile_correct` for `Checker.match` (no initial bindings), with the merge-key hypothesis
    replaced by the computable test the drivers evaluate on every generated schema. -/
theorem compile_correct_keytest (S : Schema) (hwf : S.WF) (m : Model) (syms : List String) (h : compile S = .ok (m, syms))
    (hkey : ∀ chains, chainsOf S = .ok (chains, syms) → keyInjB chains = true)
    (env : FnEnv) (henv : EnvTotal env) (name : List Bytes) (σn' : Ctx) (rid : String) :
    (∃ n node, (n, σn') ∈ (matchIter m env name []).outs ∧ m.nodes[n]? = some node ∧ rid ∈ node.ruleNames) ↔
      ∃ σ', σn' = encCtx syms σ' ∧ SrcMatches ⟨renameTemps S.rules 1⟩ (pureOf env) rid [] name σ' :=
  compile_correct S hwf m syms h (fun chains hch => merge_key_test_sound chains (hkey chains hch)) env henv []
    (by intro p hp; simp at hp) name σn' rid

/-- **compile_correct_named.** For a rule that is not temporary the statement holds for the text exactly as written. -/
theorem compile_correct_named (S : Schema) (hwf : S.WF) (m : Model) (syms : List String) (h : compile S = .ok (m, syms))
    (hkey : ∀ chains, chainsOf S = .ok (chains, syms) → KeyInj chains)
    (env : FnEnv) (henv : EnvTotal env) (σ : SCtx) (hσ : SCtxIn syms σ) (name : List Bytes) (σn' : Ctx) (rid : String)
    (hrid : isTempRule rid = false) :
    (∃ n node, (n, σn') ∈ (matchIter m env name (encCtx syms σ)).outs ∧ m.nodes[n]? = some node ∧ rid ∈ node.ruleNames) ↔
      ∃ σ', σn' = encCtx syms σ' ∧ SrcMatches S (pureOf env) rid σ name σ' := by
  rw [compile_correct S hwf m syms h hkey env henv σ hσ name σn' rid]
  constructor
  · rintro ⟨σ', he, hm⟩; exact ⟨σ', he, (srcMatches_rename S _ rid hrid σ name σ').mp hm⟩
  · rintro ⟨σ', he, hm⟩; exact ⟨σ', he, (srcMatches_rename S _ rid hrid σ name σ').mpr hm⟩

/-- **compile_correct_named_wf.** `compile_correct_named` with no hypothesis left on the merge key. -/
theorem compile_correct_named_wf (S : Schema) (hwf : S.WF) (m : Model) (syms : List String) (h : compile S = .ok (m, syms))
    (env : FnEnv) (henv : EnvTotal env) (σ : SCtx) (hσ : SCtxIn syms σ) (name : List Bytes) (σn' : Ctx) (rid : String)
    (hrid : isTempRule rid = false) :
    (∃ n node, (n, σn') ∈ (matchIter m env name (encCtx syms σ)).outs ∧ m.nodes[n]? = some node ∧ rid ∈ node.ruleNames) ↔
      ∃ σ', σn' = encCtx syms σ' ∧ SrcMatches S (pureOf env) rid σ name σ' :=
  compile_correct_named S hwf m syms h (fun chains hch => keyInj_of_wf S hwf chains syms hch) env henv σ hσ name σn' rid hrid

/-- **chains_are_expansions** (numbering + replication).  The chains the tree is generated from are, rule by rule, the
    expansions of the definitions of the text: every chain implements (`Impl`) an expansion of a definition with its
    identifier and carries that definition's signers, and every expansion of every rule is implemented by a chain. -/
theorem chains_are_expansions (S : Schema) (chains : List Chain) (syms : List String) (h : chainsOf S = .ok (chains, syms)) :
    (∀ c ∈ chains, ∃ r ∈ renameTemps S.rules 1, r.id = c.id ∧ c.sign = isort strLe r.sign ∧
      ∃ f, ExpandsDef ⟨renameTemps S.rules 1⟩ r f ∧ Impl syms c f) ∧
    (∀ q f, Expands ⟨renameTemps S.rules 1⟩ q f → ∃ c ∈ chains, c.id = q ∧ Impl syms c f) := by
  obtain ⟨_, h1, h2⟩ := chainsOf_sem S chains syms h
  exact ⟨fun c hc => (h1 c hc).2, h2⟩

/-- **chain_accepts_iff_src** (a chain accepts what the text says): see `chains_iff_src`. -/
theorem chain_accepts_iff_src (S : Schema) (chains : List Chain) (syms : List String) (h : chainsOf S = .ok (chains, syms))
    (fns : PureEnv) (σ : SCtx) (hσ : SCtxIn syms σ) (name : List Bytes) (σn' : Ctx) (rid : String) :
    (∃ rc ∈ chains, rc.id = rid ∧ ChainRun fns rc rc.name [] (encCtx syms σ) name σn') ↔
      ∃ σ', σn' = encCtx syms σ' ∧ SrcMatches ⟨renameTemps S.rules 1⟩ fns rid σ name σ' :=
  chains_iff_src S chains syms h fns σ hσ name σn' rid

/-- **srcMatch_computes.** The executable form of the source semantics — what the model drivers answer to `src-match` and
    the harness compares with the real `Checker.match` and with the Python oracle — lists exactly the pairs (rule, bindings)
    of `SrcMatches`, for every schema pass 1 accepts (defined, non-temporary, acyclic rule references). -/
theorem srcMatch_computes (S : Schema) (srules : List SRule) (h : sortRuleReferences S = .ok srules) (fns : PureEnv)
    (σ : SCtx) (name : List Bytes) (rid : String) (σ' : SCtx) :
    (rid, σ') ∈ srcMatch ⟨renameTemps S.rules 1⟩ fns σ name ↔
      SrcMatches ⟨renameTemps S.rules 1⟩ fns rid σ name σ' :=
  mem_srcMatch_iff S srules h fns σ name rid σ'

/-- the compiler emits one value edge per distinct component -/
theorem compiled_vdet (S : Schema) (m : Model) (syms : List String) (h : compile S = .ok (m, syms)) : VDet m :=
  compile_vdet S m syms h

/-- `Checker.match`: the rule names reported are those of the matched nodes, after dropping a trailing
    implicit digest. -/
theorem matchNames_spec (m : Model) (hs : Sane m) (env : FnEnv) (henv : EnvTotal env)
    (name nm : List Bytes) (hd : dropDigest name = some nm) :
    matchNames m env name =
      .ok ((matchTree m env nm m.startId []).map (fun o => (ruleNamesOf m o.1, o.2)), none) := by
  unfold matchNames
  rw [stripDigest_eq, hd]
  simp only [matchIter_no_err m hs env henv nm [],
    (matchIter_outs_of_no_err m hs.treeOK env nm [] (matchIter_no_err m hs env henv nm [])).1]

/-! ### non-vacuity (schema `#p: "d"/x <= #k`, `#k: "k"/x & {x: "a"|"b"}`) -/

open Example in
example : Sane model := Ndn.Lvs.sane_of_structCheck _ (by decide)
open Example in
/-- `/k/a` matches `#k` with `x = a`; `/k/e` matches nothing -/
example : matchTree model allFns [cK, cA] 0 [] = [(4, [(1, cA)])] ∧ matchTree model allFns [cK, cE] 0 [] = [] := by
  decide
open Example in
example : Matches model (pureOf allFns) [] [cK, cA] 4 [(1, cA)] :=
  matchTree_sound model allFns [cK, cA] [] 4 [(1, cA)] (by decide)
open Example in
example : (matchIter model allFns [cD, cE] []).outs = [(2, [(1, cE)])] := by decide
/-- the schema compiles (in the compiler model) to the model of these examples -/
example : compile Example.schema = .ok (Example.model, ["x"]) := Example.compile_schema
example : VDet Example.model := compiled_vdet _ _ _ Example.compile_schema
example : KeyInj Example.chains := merge_key_test_sound _ (by decide)
example : KeyInj Example.chains := keyInj_of_wf Example.schema Example.schema_wf _ _ Example.chainsOf_schema
example : keyInjB Example.chains = true := merge_key_test_holds Example.schema Example.schema_wf _ _ Example.chainsOf_schema
/-- node merging on the example: `/d/e` reaches a node of `#p` with `x = e` iff a chain of `#p` runs on it -/
example : ∃ rc ∈ Example.chains, rc.id = "#p" ∧
    ChainRun (pureOf Example.allFns) rc rc.name [] [] [Example.cD, Example.cE] [(1, Example.cE)] :=
  (tree_eq_chains Example.schema Example.chains ["x"] Example.model Example.chainsOf_schema Example.buildModel_chains
    Example.keyInj_chains (pureOf Example.allFns) [] (by intro t v h; simp [PyDict.get?] at h)
    [Example.cD, Example.cE] [(1, Example.cE)] "#p").mp
    ⟨2, Example.model.nodes[2], Ndn.Lvs.matchTree_sound Example.model Example.allFns [Example.cD, Example.cE] _ _ _ _ (by decide),
      rfl, by decide⟩
example : ∃ n node, (n, [(1, Example.cE)]) ∈ (matchIter Example.model Example.allFns [Example.cD, Example.cE] []).outs ∧
    Example.model.nodes[n]? = some node ∧ "#p" ∈ node.ruleNames :=
  (checker_reports_iff_chain Example.schema Example.schema_wf Example.model ["x"] Example.chains Example.compile_schema
    Example.chainsOf_schema Example.keyInj_chains Example.allFns (fun _ => ⟨_, rfl, fun _ _ => ⟨true, rfl⟩⟩) []
    (by intro t v h; simp [PyDict.get?] at h) [Example.cD, Example.cE] [(1, Example.cE)] "#p").mpr
    ⟨_, List.mem_cons_of_mem _ List.mem_cons_self, rfl, by
      simp only [ChainRun, BindStep, Example.cD]
      refine ⟨trivial, ?_, [(1, Example.cE)], ?_, rfl⟩
      · intro cl hcl; simp [pmove] at hcl
      · right; exact ⟨rfl, rfl⟩⟩
open Example in
example : Matches model (pureOf allFns) [] [cD, cE] 2 [(1, cE)] :=
  (compiled_match_iff schema schema_wf model ["x"] compile_schema allFns
    (fun _ => ⟨_, rfl, fun _ _ => ⟨true, rfl⟩⟩) [cD, cE] [] 2 [(1, cE)]).mp (by decide)

/-- the source semantics on the example: `/k/a` matches `#k` as written with `x = a`; `/k/e` matches nothing -/
example : srcMatch ⟨renameTemps Example.schema.rules 1⟩ (pureOf Example.allFns) [] [Example.cK, Example.cA] =
    [("#k", [("x", Example.cA)])] ∧
    srcMatch ⟨renameTemps Example.schema.rules 1⟩ (pureOf Example.allFns) [] [Example.cK, Example.cE] = [] := by
  decide +kernel
theorem example_src_k : SrcMatches ⟨renameTemps Example.schema.rules 1⟩ (pureOf Example.allFns) "#k" []
    [Example.cK, Example.cA] [("x", Example.cA)] := by
  cases h : sortRuleReferences Example.schema with
  | ok r => exact (srcMatch_computes Example.schema r h _ [] _ "#k" _).mp (by decide +kernel)
  | error e => have := chainsOf_of_sort_error h; rw [Example.chainsOf_schema] at this; simp at this
/-- `compile_correct` on the example: the checker reports `#p` for `/d/e` with tag 1 ↦ `e`, so the text matches with `x = e` -/
example : ∃ σ', [(1, Example.cE)] = encCtx ["x"] σ' ∧
    SrcMatches ⟨renameTemps Example.schema.rules 1⟩ (pureOf Example.allFns) "#p" [] [Example.cD, Example.cE] σ' :=
  (compile_correct_keytest Example.schema Example.schema_wf Example.model ["x"] Example.compile_schema
    (fun chains hch => by
      rw [Example.chainsOf_schema] at hch
      injection hch with hch
      simp only [Prod.mk.injEq] at hch
      rw [← hch.1]; decide)
    Example.allFns (fun _ => ⟨_, rfl, fun _ _ => ⟨true, rfl⟩⟩) [Example.cD, Example.cE] [(1, Example.cE)] "#p").mp
    ⟨2, Example.model.nodes[2], by decide, rfl, by decide⟩
/-- `compile_correct_wf` on the example, in the other direction: the text matches `/d/e` under `#p` with `x = e`, so the checker
    reports a node of `#p` with tag 1 ↦ `e` -/
example : ∃ n node, (n, encCtx ["x"] [("x", Example.cE)]) ∈ (matchIter Example.model Example.allFns [Example.cD, Example.cE] (encCtx ["x"] [])).outs ∧
    Example.model.nodes[n]? = some node ∧ "#p" ∈ node.ruleNames :=
  (compile_correct_wf Example.schema Example.schema_wf Example.model ["x"] Example.compile_schema
    Example.allFns (fun _ => ⟨_, rfl, fun _ _ => ⟨true, rfl⟩⟩) [] (by intro p hp; simp at hp) [Example.cD, Example.cE] _ "#p").mpr
    ⟨[("x", Example.cE)], rfl, by
      cases h : sortRuleReferences Example.schema with
      | ok r => exact (srcMatch_computes Example.schema r h _ [] _ "#p" _).mp (by decide +kernel)
      | error e => have := chainsOf_of_sort_error h; rw [Example.chainsOf_schema] at this; simp at this⟩
example : ∀ q f, Expands ⟨renameTemps Example.schema.rules 1⟩ q f → ∃ c ∈ Example.chains, c.id = q ∧ Impl ["x"] c f :=
  (chains_are_expansions Example.schema Example.chains ["x"] Example.chainsOf_schema).2
example : ∃ rc ∈ Example.chains, rc.id = "#k" ∧
    ChainRun (pureOf Example.allFns) rc rc.name [] (encCtx ["x"] []) [Example.cK, Example.cA] (encCtx ["x"] [("x", Example.cA)]) :=
  (chain_accepts_iff_src Example.schema Example.chains ["x"] Example.chainsOf_schema (pureOf Example.allFns) []
    (by intro p hp; simp at hp) [Example.cK, Example.cA] _ "#k").mpr
    ⟨[("x", Example.cA)], rfl, example_src_k⟩
example : SrcMatches Example.schema (pureOf Example.allFns) "#k" [] [Example.cK, Example.cA] [("x", Example.cA)] :=
  (srcMatches_rename Example.schema _ "#k" (by decide) [] _ _).mp example_src_k

end Ndn.C11
