import NdnProofs.Lemmas.Cascade
import NdnProofs.Lemmas.PitSpec
import NdnGen.C14
/-!
# C14 — The schema validator accepts exactly packets with a valid chain to the anchor

Theorems about `Ndn.Cascade.validate` / `construct` / `runSys` (model of `lvs_validator`,
`union_checker`, `CascadeChecker.validate`, `_verify_sig`, `MemoryKeyStorage`, with one storage per
instance), for **every** world of retrievable certificates, every packet, every storage state an
instance can reach and every history of validations by any number of instances.

Specification vocabulary (`NdnProofs/Lemmas/Cascade.lean`; does not mention the implementation):
* `Signed k o`   — ground truth: `o`'s signature value was produced with the private key of `k`;
* `Verifies`     — the key is of the kind the declared signature type needs, and `Signed`;
* `ChainD d o` / `Chain o` — the inductive chain  packet — certificate — … — trust anchor;
* `CacheInv`     — every cached key belongs to a certificate retrievable in this world that has a chain;
* `Unforgeable`, `Correct` — the ideal-signature hypotheses tying the crypto library's answer
  (`E.crypto`) to `Signed`; they are hypotheses of the theorems, never axioms.

All theorems are generic in the type `N` of names (only equality of names is used); the signing check
of the schema is the parameter `E.allowed`.  `NdnProofs/Props/C14Lvs.lean` instantiates `N` with real
names and `allowed` with the model of `Checker.check` (property C12), so that "every link is allowed"
is spelled out in terms of rule matching.  The examples below use opaque names (`Name = Nat`).

The signing check may raise (`E.allowed … = .error e`): a link of a chain is a check that answers `True`.
What the validator does when the check raises is the subject of `check_raise_reaches_caller`,
`nested_raise_propagates`, `raising_check_never_accepts`, `raise_has_cause`, `check_exception_uncaught`.
"Retrievable" is spelled out: the network answers the Interest `certInterest kn` (exact name, MustBeFresh,
4000 ms - the only kind of Interest the validator sends, `log_only_cert_interests`, `fetch_interest_params`)
with a Data named exactly `kn` (`fetch_exact_name`, `fetched_key_only_under_requested_name`).

"No verdict" (`verdict = none`) is fuel exhaustion: the model of a validation that does not
terminate (certificate loop served for ever).  It is never an acceptance (`validate_sound`).
-/
namespace Ndn.C14
open Ndn Ndn.Cascade

variable {N : Type} [DecidableEq N] (E : Env N) (Signed : Key → Obj N → Prop)

/-- **validate_sound.** Whatever the fuel, the storage (as long as it satisfies the invariant) and
    the packet: if the validator accepts, there is a valid chain to the anchor. -/
theorem validate_sound (hu : Unforgeable E Signed) (fuel : Nat) (st : Cache N) (o : Obj N)
    (hinv : CacheInv E Signed st) (h : (validate E fuel st o).verdict = some .accept) :
    Chain E Signed o :=
  validate_sound_aux E Signed hu fuel st o hinv h

/-- **validate_complete.** A packet with a chain of `d` intermediate certificates is accepted by any
    run with more than `d` units of fuel, from any storage satisfying the invariant. -/
theorem validate_complete (hc : Correct E Signed) (d : Nat) (o : Obj N) (h : ChainD E Signed d o)
    (fuel : Nat) (st : Cache N) (hinv : CacheInv E Signed st) (hf : d < fuel) :
    (validate E fuel st o).verdict = some .accept :=
  validate_complete_aux E Signed hc d o h fuel st hinv hf

/-- **verdict_iff_chain.** Whenever a verdict is reached it is `accept` exactly when a chain exists. -/
theorem verdict_iff_chain (hu : Unforgeable E Signed) (hc : Correct E Signed) (fuel : Nat) (st : Cache N)
    (o : Obj N) (hinv : CacheInv E Signed st) (v : Verdict) (h : (validate E fuel st o).verdict = some v) :
    v = .accept ↔ Chain E Signed o := by
  constructor
  · intro hv; subst hv; exact validate_sound E Signed hu fuel st o hinv h
  · rintro ⟨d, hd⟩
    rcases chain_verdict_aux E Signed hc d o hd fuel st hinv with h0 | h1
    · rw [h0] at h; cases h
    · rw [h1] at h; cases h; rfl

/-- **cache_inv_preserved.** Every validation (accepting, rejecting, raising or running out of
    fuel) leaves the storage invariant intact. -/
theorem cache_inv_preserved (hu : Unforgeable E Signed) (fuel : Nat) (st : Cache N) (o : Obj N)
    (hinv : CacheInv E Signed st) : CacheInv E Signed (validate E fuel st o).cache :=
  cache_inv_preserved_aux E Signed hu fuel st o hinv

/-- **verdict_history_independent.** For an instance with private storage (initially empty): after
    any two histories of earlier validations, the verdicts on the same packet agree on acceptance. -/
theorem verdict_history_independent (hu : Unforgeable E Signed) (hc : Correct E Signed)
    (h1 h2 : List (Nat × Obj N)) (f1 f2 : Nat) (o : Obj N) (v1 v2 : Verdict)
    (e1 : (validate E f1 (runHist E [] h1) o).verdict = some v1)
    (e2 : (validate E f2 (runHist E [] h2) o).verdict = some v2) :
    v1 = .accept ↔ v2 = .accept := by
  have i1 := runHist_inv E Signed hu h1 [] (cacheInv_nil E Signed)
  have i2 := runHist_inv E Signed hu h2 [] (cacheInv_nil E Signed)
  rw [verdict_iff_chain E Signed hu hc f1 _ o i1 v1 e1, verdict_iff_chain E Signed hu hc f2 _ o i2 v2 e2]

/-- **other_instances_irrelevant.** In a system of instances with private storages, the storage of
    instance `i` after any interleaved history is the one `i` would have built from its own steps
    alone — what the other instances validated does not reach it. -/
theorem other_instances_irrelevant (envs : Nat → Env N) (i : Nat) (h : List (Nat × Nat × Obj N))
    (cs : Nat → Cache N) :
    runSys envs cs h i = runHist (envs i) (cs i) ((h.filter fun s => s.1 = i).map fun s => s.2) :=
  runSys_proj envs i h cs

/-- **system_verdict_iff_chain.** Several instances (different anchors / schemas, one world), any
    interleaved history from empty storages: a verdict of instance `i` is `accept` exactly when the
    packet has a chain to `i`'s anchor under `i`'s schema. -/
theorem system_verdict_iff_chain (envs : Nat → Env N)
    (hu : ∀ i, Unforgeable (envs i) Signed) (hc : ∀ i, Correct (envs i) Signed)
    (h : List (Nat × Nat × Obj N)) (i fuel : Nat) (o : Obj N) (v : Verdict)
    (e : (validate (envs i) fuel (runSys envs (fun _ => []) h i) o).verdict = some v) :
    v = .accept ↔ Chain (envs i) Signed o := by
  rw [other_instances_irrelevant] at e
  exact verdict_iff_chain (envs i) Signed (hu i) (hc i) fuel _ o
    (runHist_inv (envs i) Signed (hu i) _ [] (cacheInv_nil _ _)) v e

/-- **loop_never_accepted.** If the key locator of `o` leads into a set of certificate names that is
    closed under "key locator of the certificate served under that name" and does not contain the
    anchor (a certificate loop), then no run, with any fuel and any reachable storage, accepts `o`;
    running out of fuel yields no verdict, not an acceptance. -/
theorem loop_never_accepted (hu : Unforgeable E Signed) (S : N → Prop)
    (hS : ∀ n c, S n → E.world (certInterest n) = some (.data c) → ∃ m, c.keyLoc = some m ∧ S m)
    (hA : ¬ S E.anchorName) (o : Obj N) (n : N) (hn : o.keyLoc = some n) (hs : S n)
    (fuel : Nat) (st : Cache N) (hinv : CacheInv E Signed st) :
    (validate E fuel st o).verdict ≠ some .accept ∧ (validate E 0 st o).verdict = none := by
  refine ⟨fun h => ?_, by simp [validate]⟩
  obtain ⟨d, hd⟩ := validate_sound E Signed hu fuel st o hinv h
  exact no_chain_in_closed_set E Signed S hS hA d o hd n hn hs

omit [DecidableEq N] in
/-- **construct_refuses.** The validator is built exactly when the user functions are present, the
    anchor's name matches (at least one rule and) every root of trust of the schema, and the anchor's
    signature verifies under its own key; the instance then holds the anchor's name and key. -/
theorem construct_refuses (crypto : Key → Obj N → Bool)
    (hu : ∀ k o, crypto k o = true → Signed k o) (hc : ∀ k o, Signed k o → crypto k o = true)
    (s : Setup N) (n : N) (k : Key) :
    construct crypto s = .ok (n, k) ↔
      (s.userFnsOk = true ∧ s.matched ≠ [] ∧ (∀ r ∈ s.roots, r ∈ s.matched) ∧
        Verifies Signed s.anchorKey s.anchor ∧ n = s.anchor.name ∧ k = s.anchorKey) := by
  unfold construct
  by_cases h1 : s.userFnsOk = false
  · simp [h1]
  · have h1' : s.userFnsOk = true := by simpa using h1
    by_cases h2 : (s.matched.isEmpty || !(s.roots.all fun r => s.matched.contains r)) = true
    · rw [if_neg h1, if_pos h2]
      constructor
      · intro h; cases h
      · rintro ⟨_, hne, hall, _⟩
        exfalso
        simp only [Bool.or_eq_true, List.isEmpty_iff, Bool.not_eq_true', List.all_eq_false] at h2
        rcases h2 with h2 | ⟨r, hr, hnr⟩
        · exact hne h2
        · simp [hall r hr] at hnr
    · have hne : s.matched ≠ [] := by
        intro h; simp [h] at h2
      have hall : ∀ r ∈ s.roots, r ∈ s.matched := by
        intro r hr
        simp only [Bool.or_eq_true, List.isEmpty_iff, Bool.not_eq_true', List.all_eq_false, not_or] at h2
        have := h2.2
        simp only [not_exists, not_and] at this
        have := this r hr
        simpa using this
      rw [if_neg h1, if_neg h2]
      cases hv : verifySig crypto s.anchorKey s.anchor with
      | accept =>
        have := verifySig_accept hv
        constructor
        · intro h; cases h
          exact ⟨h1', hne, hall, ⟨this.1, hu _ _ this.2⟩, rfl, rfl⟩
        · rintro ⟨_, _, _, _, rfl, rfl⟩; rfl
      | reject =>
        constructor
        · intro h; cases h
        · rintro ⟨_, _, _, hver, _, _⟩
          rw [verifySig_of_verifies hver.1 (hc _ _ hver.2)] at hv; cases hv
      | raise e =>
        constructor
        · intro h; cases h
        · rintro ⟨_, _, _, hver, _, _⟩
          rw [verifySig_of_verifies hver.1 (hc _ _ hver.2)] at hv; cases hv

/-! ### a signing check that raises -/

/-- **check_raise_reaches_caller.** If `Checker.check` raises on the packet's own link, the validation
    raises that exception (with any fuel ≥ 1): no verdict of acceptance or refusal, no certificate Interest,
    the storage untouched. -/
theorem check_raise_reaches_caller (fuel : Nat) (st : Cache N) (o : Obj N) (kn : N) (e : PyErr)
    (hk : o.keyLoc = some kn) (ha : E.allowed o.name kn = .error e) :
    validate E (fuel + 1) st o = ⟨some (.raise e), st, []⟩ := by
  rw [validate]; simp [hk, ha]

/-- **nested_raise_propagates.** If the validation of a fetched certificate raises (its signing check
    raised, or a key importer refused the key bits), the validation that fetched it raises the same
    exception: the `except` around the fetch does not catch it, the key is not cached. -/
theorem nested_raise_propagates (fuel : Nat) (st : Cache N) (o : Obj N) (kn : N) (c : Obj N) (e : PyErr)
    (hk : o.keyLoc = some kn) (ha : E.allowed o.name kn = .ok true) (hn : kn ≠ E.anchorName)
    (hl : cacheLoad st kn = none) (hex : express E (certInterest kn) = some c)
    (hr : (validate E fuel st c).verdict = some (.raise e)) :
    (validate E (fuel + 1) st o).verdict = some (.raise e) ∧
      (validate E (fuel + 1) st o).cache = (validate E fuel st c).cache := by
  rw [validate]; simp [hk, ha, hn, hl, hex, hr]

/-- **raising_check_never_accepts.** Whatever the fuel and the storage: a packet on whose link the
    signing check raises is never accepted, and never refused either — the only verdicts are "none yet"
    (no fuel) and the exception itself. -/
theorem raising_check_never_accepts (fuel : Nat) (st : Cache N) (o : Obj N) (kn : N) (e : PyErr)
    (hk : o.keyLoc = some kn) (ha : E.allowed o.name kn = .error e) :
    (validate E fuel st o).verdict = none ∨ (validate E fuel st o).verdict = some (.raise e) := by
  cases fuel with
  | zero => left; simp [validate]
  | succ f => right; rw [check_raise_reaches_caller E f st o kn e hk ha]

/-- **raise_has_cause.** A validation raises `e` only if some signing check raised `e` or `e` is the
    `ValueError` of a key importer (key bits that do not fit the declared signature type). -/
theorem raise_has_cause (fuel : Nat) (st : Cache N) (o : Obj N) (e : PyErr)
    (h : (validate E fuel st o).verdict = some (.raise e)) :
    (∃ a b, E.allowed a b = .error e) ∨ e = .valueError :=
  raise_has_cause_aux E fuel st o e h

/-! ### certificate fetching -/

/-- **log_only_cert_interests.** Every Interest a validation sends is the certificate Interest for its
    name: exact name (CanBePrefix false), MustBeFresh, lifetime 4000 ms. -/
theorem log_only_cert_interests (fuel : Nat) (st : Cache N) (o : Obj N) :
    ∀ i ∈ (validate E fuel st o).log, i = certInterest i.name :=
  log_only_cert_aux E fuel st o

/-- **fetch_exact_name.** The fetch for a key locator `kn` hands a Data `c` to the next-level validator
    exactly when the network answered the Interest `certInterest kn` with `c` and `c` is named exactly
    `kn`; a Data of any other name is not taken (the Interest times out, the link is refused). -/
theorem fetch_exact_name (kn : N) (c : Obj N) :
    express E (certInterest kn) = some c ↔ E.world (certInterest kn) = some (.data c) ∧ c.name = kn :=
  express_certInterest E kn c

/-- **fetched_key_only_under_requested_name.** A key bound to the name `n` in the storage after a
    validation was either bound before, or a certificate Interest for exactly `n` was sent during this
    validation, the network answered it with a Data named exactly `n`, and the key is that Data's content. -/
theorem fetched_key_only_under_requested_name (fuel : Nat) (st : Cache N) (o : Obj N) (n : N) (k : Key)
    (h : cacheLoad (validate E fuel st o).cache n = some k) :
    cacheLoad st n = some k ∨
      (certInterest n ∈ (validate E fuel st o).log ∧
        ∃ c, E.world (certInterest n) = some (.data c) ∧ c.name = n ∧ c.content = some k) :=
  cached_origin_aux E fuel st o n k h

omit [DecidableEq N] in
/-- **pit_exact_for_cert_interest.** (bridge to C03) In the specification of the pending-Interest table
    (`Ndn.Pit.Matches`, refined by the PIT model: `Ndn.C03.one_data_all_matching_no_others`), an Interest
    without CanBePrefix and without implicit digest is matched by exactly the Data of its own name — the
    test `pitPasses` stands for. -/
theorem pit_exact_for_cert_interest (r : Ndn.Pit.Req) (dnm : Ndn.Pit.Name) (dg : Nat)
    (hc : r.cbp = false) (hi : r.implicit = none) : Ndn.Pit.Matches r dnm dg ↔ dnm = r.name := by
  unfold Ndn.Pit.Matches
  simp only [hc, hi, Bool.false_eq_true, false_and, or_false, true_or, and_true]
  exact eq_comm

/-- **fetch_interest_params.** (generated table) The keyword arguments of the one `express_interest` call
    in `CascadeChecker.validate`: the key locator's name, MustBeFresh, no CanBePrefix, the next-level
    validator; nothing else (so the lifetime is `InterestParam`'s default, `Ndn.Gen.C14.defaultLifetime`). -/
theorem fetch_interest_params :
    Ndn.Gen.C14.fetchKwargs = [("name", "cert_name"), ("must_be_fresh", "True"), ("can_be_prefix", "False"),
      ("validator", "self.next_level")] ∧
    (∀ kn : Nat, (certInterest kn).lifetime = Ndn.Gen.C14.defaultLifetime) ∧
    (∀ kn : Nat, (certInterest kn).canBePrefix = false ∧ (certInterest kn).mustBeFresh = true) := by
  refine ⟨by decide, fun _ => rfl, fun _ => ⟨rfl, rfl⟩⟩

/-- **check_exception_uncaught.** (generated tables) Nothing between `Checker.check` and the caller of the
    validator catches an exception of the check: `validate_name` and `union_checker`'s wrapper contain no
    `try`, `NDNApp._wait_for_data` calls the validator outside its `try`, and the only `except` inside
    `CascadeChecker.validate` names none of the exception classes of the model (`PyErr`). -/
theorem check_exception_uncaught :
    Ndn.Gen.C14.validateNameCaught = [] ∧ Ndn.Gen.C14.unionCaught = [] ∧
    Ndn.Gen.C14.waitValidatorCaught = [] ∧
    ∀ e : PyErr, ∀ h ∈ Ndn.Gen.C14.validateCaught, e.name ∉ h ∧ "Exception" ∉ h ∧ "BaseException" ∉ h := by
  refine ⟨by decide, by decide, by decide, ?_⟩
  intro e; cases e <;> decide

/-- **caught_exceptions.** (generated table) The only `except` clause inside `CascadeChecker.validate`
    catches exactly ValidationFailure, InterestTimeout and InterestNack around the certificate fetch —
    the outcomes the model turns into `reject`; anything else (`ValueError` of a key importer)
    propagates, as `Verdict.raise` does in the model. -/
theorem caught_exceptions :
    Ndn.Gen.C14.validateCaught = [["ValidationFailure", "InterestTimeout", "InterestNack"]] := by decide

/-! ### non-vacuity: a concrete two-anchor world -/

/-- who signed: the signature token names the signing key pair -/
def GSigned (k : Key) (o : Obj N) : Prop := o.sig = some k.id

def gcrypto (k : Key) (o : Obj N) : Bool := o.sig == some k.id

/-- name 1 = anchor A, 2 = anchor B, 3 = a certificate issued by A, 4 = a packet signed by 3 -/
def certA : Obj Name := ⟨1, some 1, .ecdsa, some 10, some ⟨.ec, 10⟩⟩
def cert3 : Obj Name := ⟨3, some 1, .ecdsa, some 10, some ⟨.ec, 30⟩⟩
def pkt4 : Obj Name := ⟨4, some 3, .ecdsa, some 30, none⟩
def gworld (i : Interest Name) : Option (Outcome Name) :=
  if i.name = 1 then some (.data certA) else if i.name = 3 then some (.data cert3) else none
def gallowed (a b : Name) : Except PyErr Bool := if a = 0 then .error .indexError else .ok (!(a == b))
def EA : Env Name := ⟨gallowed, gcrypto, gworld, 1, ⟨.ec, 10⟩⟩
def EB : Env Name := ⟨gallowed, gcrypto, gworld, 2, ⟨.ec, 20⟩⟩

theorem g_unforgeable (E : Env Name) (h : E.crypto = gcrypto) : Unforgeable E GSigned := by
  intro k o hc; rw [h] at hc; simpa [gcrypto, GSigned] using hc

theorem g_correct (E : Env Name) (h : E.crypto = gcrypto) : Correct E GSigned := by
  intro k o hs; rw [h]; simpa [gcrypto, GSigned] using hs

theorem chain_pkt4 : ChainD EA GSigned 1 pkt4 :=
  .step pkt4 3 cert3 ⟨.ec, 30⟩ 0 rfl (by decide) rfl rfl rfl rfl ⟨rfl, rfl⟩
    (.anchor cert3 rfl rfl ⟨rfl, rfl⟩)

/-- sound / complete / iff / invariant / history-independence apply to a non-trivial instance -/
example : (validate EA 2 [] pkt4).verdict = some .accept :=
  validate_complete EA GSigned (g_correct EA rfl) 1 pkt4 chain_pkt4 2 [] (cacheInv_nil _ _) (by omega)

example : Chain EA GSigned pkt4 :=
  validate_sound EA GSigned (g_unforgeable EA rfl) 2 [] pkt4 (cacheInv_nil _ _) (by decide)

example : CacheInv EA GSigned (validate EA 2 [] pkt4).cache ∧ (validate EA 2 [] pkt4).cache = [(3, ⟨.ec, 30⟩)] :=
  ⟨cache_inv_preserved EA GSigned (g_unforgeable EA rfl) 2 [] pkt4 (cacheInv_nil _ _), by decide⟩

/-- instance B (another anchor) has no chain for the packet and rejects it, fresh or after any history -/
example : (validate EB 5 [] pkt4).verdict = some .reject := by decide

example (h : List (Nat × Nat × Obj Name)) (f : Nat) (v : Verdict)
    (e : (validate EB f (runSys (fun i => if i = 0 then EA else EB) (fun _ => []) h 1) pkt4).verdict = some v) :
    v ≠ .accept := by
  intro hv
  have e' : (validate ((fun i => if i = 0 then EA else EB) 1) f
      (runSys (fun i => if i = 0 then EA else EB) (fun _ => []) h 1) pkt4).verdict = some v := e
  have hch := (system_verdict_iff_chain GSigned (fun i => if i = 0 then EA else EB)
    (fun i => g_unforgeable _ (by show (if i = 0 then EA else EB).crypto = gcrypto; split <;> rfl))
    (fun i => g_correct _ (by show (if i = 0 then EA else EB).crypto = gcrypto; split <;> rfl)) h 1 f pkt4 v e').mp hv
  have : Chain EB GSigned pkt4 := hch
  have hr : (validate EB 5 [] pkt4).verdict = some .reject := by decide
  have := (verdict_iff_chain EB GSigned (g_unforgeable EB rfl) (g_correct EB rfl) 5 [] pkt4
    (cacheInv_nil _ _) .reject hr).mpr this
  cases this

/-- **F11 in the model.** If instance B is (wrongly) given the storage that instance A filled — the
    shared default `MemoryKeyStorage()` of the unrepaired code — it accepts the packet although no
    chain to B's anchor exists: A's storage does not satisfy `CacheInv` *for B*. -/
example : (validate EB 5 (validate EA 5 [] pkt4).cache pkt4).verdict = some .accept ∧
    ¬ Chain EB GSigned pkt4 ∧ ¬ CacheInv EB GSigned (validate EA 5 [] pkt4).cache := by
  have hacc : (validate EB 5 (validate EA 5 [] pkt4).cache pkt4).verdict = some .accept := by decide
  have hno : ¬ Chain EB GSigned pkt4 := by
    intro hch
    have hr : (validate EB 5 [] pkt4).verdict = some .reject := by decide
    have := (verdict_iff_chain EB GSigned (g_unforgeable EB rfl) (g_correct EB rfl) 5 [] pkt4
      (cacheInv_nil _ _) .reject hr).mpr hch
    cases this
  exact ⟨hacc, hno, fun hinv => hno (validate_sound EB GSigned (g_unforgeable EB rfl) 5 _ pkt4 hinv hacc)⟩

/-- the loop theorem applies: certificates 5 and 6 name each other -/
example : ∀ fuel, (validate ⟨gallowed, gcrypto,
      fun i => if i.name = 5 then some (.data ⟨5, some 6, .ecdsa, some 60, some ⟨.ec, 50⟩⟩)
               else if i.name = 6 then some (.data ⟨6, some 5, .ecdsa, some 50, some ⟨.ec, 60⟩⟩) else none,
      1, ⟨.ec, 10⟩⟩ fuel [] ⟨7, some 5, .ecdsa, some 50, none⟩).verdict ≠ some .accept := by
  intro fuel
  refine (loop_never_accepted _ GSigned (g_unforgeable _ rfl) (fun n => n = 5 ∨ n = 6) ?_ (by decide)
    _ 5 rfl (Or.inl rfl) fuel [] (cacheInv_nil _ _)).1
  intro n c hn hw
  rcases hn with rfl | rfl
  · simp [certInterest] at hw; subst hw; exact ⟨6, rfl, Or.inr rfl⟩
  · simp [certInterest] at hw; subst hw; exact ⟨5, rfl, Or.inl rfl⟩

/-- a packet named 0 makes the signing check raise: the exception is the verdict … -/
example : validate EA 3 [] ⟨0, some 1, .ecdsa, some 10, none⟩ = ⟨some (.raise .indexError), [], []⟩ :=
  check_raise_reaches_caller EA 2 [] _ 1 .indexError rfl rfl

/-- … also when it is a fetched certificate (named 0, served) on whose link the check raises: the packet 7
    that names it gets the exception, not a refusal, and nothing is cached -/
def EA0 : Env Name := { EA with world := fun i => if i.name = 0 then some (.data ⟨0, some 1, .ecdsa, some 10, some ⟨.ec, 70⟩⟩) else none }

example : (validate EA0 3 [] ⟨7, some 0, .ecdsa, some 70, none⟩).verdict = some (.raise .indexError) ∧
    (validate EA0 3 [] ⟨7, some 0, .ecdsa, some 70, none⟩).cache = [] :=
  nested_raise_propagates EA0 2 [] _ 0 ⟨0, some 1, .ecdsa, some 10, some ⟨.ec, 70⟩⟩ .indexError rfl rfl
    (by decide) rfl (by decide) (by decide)

example : (∃ a b, EA0.allowed a b = .error .indexError) ∨ PyErr.indexError = .valueError :=
  raise_has_cause EA0 3 [] ⟨7, some 0, .ecdsa, some 70, none⟩ .indexError (by decide)

/-- the log of the two-step validation: one Interest, exact name, must-be-fresh, 4000 ms -/
example : (validate EA 2 [] pkt4).log = [⟨3, false, true, 4000⟩] := by decide

/-- a Data of another name returned for the Interest for 3 is not taken: refused, nothing cached -/
example : (validate { EA with world := fun _ => some (.data { cert3 with name := 33 }) } 2 [] pkt4).verdict
      = some .reject ∧
    (validate { EA with world := fun _ => some (.data { cert3 with name := 33 }) } 2 [] pkt4).cache = [] := by
  decide

/-- … whereas a CanBePrefix Interest would be satisfied by it (what the code must not send) -/
example : express { EA with world := fun _ => some (.data { cert3 with name := 33 }) } ⟨3, true, true, 4000⟩
    = some { cert3 with name := 33 } := by decide

/-- construction: accepted for a matching, properly self-signed anchor; refused otherwise -/
example : construct gcrypto ⟨true, ["#root"], ["#root"], certA, ⟨.ec, 10⟩⟩ = .ok (1, ⟨.ec, 10⟩) := by rfl
example : construct gcrypto ⟨true, ["#root"], ["#admin"], certA, ⟨.ec, 10⟩⟩ = .error .valueError := by rfl
example : construct gcrypto ⟨true, ["#root"], ["#root"], { certA with sig := some 11 }, ⟨.ec, 10⟩⟩
    = .error .valueError := by rfl

/-! ## the certificate world changes between validations; the key storage is an explicit object

`Ndn.Cascade.runD` / `validateD` / `traceD`: a history of `validate i fuel o` and `world w` events over instances
`cfgs i` (schema check, crypto, anchor, and the storage object the instance holds: an `EmptyKeyStorage` or the
`MemoryKeyStorage` number `s`, possibly held by several instances).  Histories start in a fresh process (every storage
object empty).  Vocabulary: `ChainC`, `TrustedD`, `trustOf`, `worldsOf`, `KeyStable` (`NdnProofs/Lemmas/Cascade.lean`). -/

section dynamic
variable (cfgs : Nat → Cfg N)

/-- the state after a history that began in a fresh process in front of the network `w0` -/
abbrev after (w0 : World N) (h : List (Event N)) : DState N := runD cfgs ⟨w0, fun _ => []⟩ h

/-- **accept_of_chain_now.** Completeness, history-independent.  Whatever happened before — earlier failures (a
    certificate that timed out or was Nacked), earlier states of the network, validations by this and by other
    instances, sharing the storage object or not —: if at the time of the validation there is a chain
    packet — certificate — … — anchor in the network AS IT IS NOW (every link allowed, every signature verifying, every
    certificate retrievable), the instance accepts.  Hypothesis `KeyStable`: a name denotes one key — no state of the
    network during the history served, under the name of a certificate retrievable now, other key bits (without it the
    statement is false: second `example` below). -/
theorem accept_of_chain_now (hc : ∀ i k o, Signed k o → (cfgs i).crypto k o = true)
    (w0 : World N) (h : List (Event N)) (i fuel d : Nat) (o : Obj N)
    (hstable : KeyStable (worldsOf w0 h) (after cfgs w0 h).world)
    (hch : ChainD ((cfgs i).env (after cfgs w0 h).world) Signed d o) (hf : d < fuel) :
    (validateD cfgs (after cfgs w0 h) i fuel o).verdict = some .accept := by
  refine validate_complete_agree _ Signed (correct_env (cfgs i) Signed _ (hc i)) d o hch fuel _ ?_ hf
  cases hst : (cfgs i).store with
  | empty => exact cacheAgrees_nil _
  | mem s =>
    refine cacheAgrees_of_stable _ (worldsOf w0 h) hstable _ ?_
    intro n k hl
    exact stores_served cfgs (fun n k => ∃ w ∈ worldsOf w0 h, ∃ x, w (certInterest n) = some (.data x) ∧ x.name = n ∧
        x.content = some k) h ⟨w0, fun _ => []⟩ (by intro s n k hl; simp [cacheLoad] at hl)
      (fun w' hm n k x hw hxn hxc => ⟨w', hm, x, hw, hxn, hxc⟩) s n k hl

/-- **accept_sound_with_cache.** Soundness with a cache.  If instance `i` accepts after any history, there is a chain
    from the packet in which every link is allowed by `i`'s signing check and every signature verifies, and which either
    reaches `i`'s anchor through certificates retrievable NOW, or ends at a key that `i`'s storage object vouches for:
    the key of a certificate that was retrievable, under exactly that name, at the time of an earlier `validate` event
    of an instance holding the same storage object, and had such a chain — to the anchor of THAT instance, by THAT
    instance's signing check — at that time (`TrustedD`).  An `EmptyKeyStorage` vouches for nothing. -/
theorem accept_sound_with_cache (hu : ∀ i k o, (cfgs i).crypto k o = true → Signed k o)
    (w0 : World N) (h : List (Event N)) (i fuel : Nat) (o : Obj N)
    (hacc : (validateD cfgs (after cfgs w0 h) i fuel o).verdict = some .accept) :
    ∃ d, ChainC (AllowedR (cfgs i).allowed) ((cfgs i).env (after cfgs w0 h).world) Signed
      (trustOf (TrustedD (allowedOf cfgs) cfgs Signed w0 noTrust h) (cfgs i).store) d o := by
  have hinv := storesTrusted_run cfgs Signed hu h ⟨w0, fun _ => []⟩ noTrust (fun s => trusts_nil _)
  exact validate_sound_c ((cfgs i).env (after cfgs w0 h).world) Signed (unforgeable_env (cfgs i) Signed _ (hu i)) _
    fuel _ o (trusts_loadStore _ _ hinv (cfgs i).store) hacc

omit [DecidableEq N] in
/-- **trusted_keys_were_served.** What a storage object vouches for after a history was served by the network, under
    that name and with that key, in one of the states it went through. -/
theorem trusted_keys_were_served (w0 : World N) (h : List (Event N)) (s : Nat) (n : N) (k : Key)
    (ht : TrustedD (allowedOf cfgs) cfgs Signed w0 noTrust h s n k) :
    ∃ w ∈ worldsOf w0 h, ∃ x, w (certInterest n) = some (.data x) ∧ x.name = n ∧ x.content = some k :=
  trustedD_served (allowedOf cfgs) cfgs Signed (fun n k => ∃ w ∈ worldsOf w0 h, ∃ x, w (certInterest n) = some (.data x) ∧
      x.name = n ∧ x.content = some k) h w0 noTrust (fun _ _ _ hf => hf.elim)
    (fun w' hm _ _ x hw hxn hxc => ⟨w', hm, x, hw, hxn, hxc⟩) s n k ht

/-- **empty_storage_verdict_iff_chain.** An instance that was given an `EmptyKeyStorage`: at every step of every
    history, a verdict is `accept` exactly when the packet has a chain in the network as it is now. -/
theorem empty_storage_verdict_iff_chain (hu : ∀ i k o, (cfgs i).crypto k o = true → Signed k o)
    (hc : ∀ i k o, Signed k o → (cfgs i).crypto k o = true)
    (w0 : World N) (h : List (Event N)) (i fuel : Nat) (o : Obj N) (v : Verdict) (he : (cfgs i).store = .empty)
    (e : (validateD cfgs (after cfgs w0 h) i fuel o).verdict = some v) :
    v = .accept ↔ Chain ((cfgs i).env (after cfgs w0 h).world) Signed o := by
  simp only [validateD, he, loadStore] at e
  exact verdict_iff_chain _ Signed (unforgeable_env (cfgs i) Signed _ (hu i)) (correct_env (cfgs i) Signed _ (hc i))
    fuel [] o (cacheInv_nil _ _) v e

/-- **instances_independent.** Isolation.  What instance `i` (holding the storage object `s`) answers — verdict,
    certificate Interests, what it leaves in its storage — after a history is what it answers after the same history
    with every `validate` event of an instance that does not hold `s` deleted: instances that do not share a storage
    object do not influence each other. -/
theorem instances_independent (st : DState N) (h : List (Event N)) (i fuel s : Nat) (o : Obj N)
    (hs : (cfgs i).store = .mem s) :
    validateD cfgs (runD cfgs st h) i fuel o =
      validateD cfgs (runD cfgs st (h.filter (touches cfgs s))) i fuel o := by
  obtain ⟨hw, hst⟩ := runD_filter cfgs s h st st rfl rfl
  simp only [validateD, hs, loadStore, hw, hst]

/-- **empty_storage_independent.** … and an instance holding an `EmptyKeyStorage` is influenced by no `validate`
    event at all, its own included. -/
theorem empty_storage_independent (st : DState N) (h : List (Event N)) (i fuel : Nat) (o : Obj N)
    (he : (cfgs i).store = .empty) :
    validateD cfgs (runD cfgs st h) i fuel o = validateD cfgs (runD cfgs st (h.filter isWorld)) i fuel o := by
  have hw := runD_world_only cfgs h st st rfl
  simp only [validateD, he, loadStore, hw]

/-- **static_refinement.** With no `world` event and one storage object per instance the model with events is the
    static model (`runSys` / `traceSys`): same storages, same verdicts, same certificate Interests. -/
theorem static_refinement (hpriv : ∀ i, (cfgs i).store = .mem i) (w : World N) (h : List (Nat × Nat × Obj N))
    (cs : Nat → Cache N) :
    (runD cfgs ⟨w, cs⟩ (staticEvents h)).stores = runSys (fun i => (cfgs i).env w) cs h ∧
    (runD cfgs ⟨w, cs⟩ (staticEvents h)).world = w ∧
    traceD cfgs ⟨w, cs⟩ (staticEvents h) = traceSys (fun i => (cfgs i).env w) cs h :=
  runD_static cfgs hpriv w h cs

/-- **static_history_verdict_iff_chain.** (`system_verdict_iff_chain` as a corollary) In a history without `world`
    events over instances with private storage objects, a verdict is `accept` exactly when a chain exists. -/
theorem static_history_verdict_iff_chain (hpriv : ∀ i, (cfgs i).store = .mem i)
    (hu : ∀ i k o, (cfgs i).crypto k o = true → Signed k o) (hc : ∀ i k o, Signed k o → (cfgs i).crypto k o = true)
    (w : World N) (h : List (Nat × Nat × Obj N)) (i fuel : Nat) (o : Obj N) (v : Verdict)
    (e : (validateD cfgs (after cfgs w (staticEvents h)) i fuel o).verdict = some v) :
    v = .accept ↔ Chain ((cfgs i).env w) Signed o := by
  obtain ⟨hst, hw, _⟩ := static_refinement cfgs hpriv w h (fun _ => [])
  simp only [validateD, hpriv i, loadStore, after, hst, hw] at e
  exact system_verdict_iff_chain Signed (fun i => (cfgs i).env w)
    (fun i => unforgeable_env (cfgs i) Signed w (hu i)) (fun i => correct_env (cfgs i) Signed w (hc i)) h i fuel o v e

end dynamic

/-! ### non-vacuity: certificate 3 appears, disappears, is replaced -/

/-- instances 0 and 1 hold the storage object 0, instance 2 its own, instance 3 an `EmptyKeyStorage`; all anchored at A -/
def gcfgs (i : Nat) : Cfg Name :=
  ⟨gallowed, gcrypto, 1, ⟨.ec, 10⟩, if i ≤ 1 then .mem 0 else if i = 2 then .mem 2 else .empty⟩

def wNone : World Name := fun _ => none
def wTimeout : World Name := fun i => if i.name = 3 then some .timeout else none
/-- another certificate (another key) under the name 3, also issued by A -/
def cert3' : Obj Name := ⟨3, some 1, .ecdsa, some 10, some ⟨.ec, 31⟩⟩
def wRepl : World Name := fun i => if i.name = 3 then some (.data cert3') else none
/-- a packet signed with the key of `cert3'` -/
def pkt4' : Obj Name := ⟨4, some 3, .ecdsa, some 31, none⟩

theorem gcfg_unforgeable : ∀ i k (o : Obj Name), (gcfgs i).crypto k o = true → GSigned k o := by
  intro i k o h; simpa [gcfgs, gcrypto, GSigned] using h

theorem gcfg_correct : ∀ i k (o : Obj Name), GSigned k o → (gcfgs i).crypto k o = true := by
  intro i k o h; simpa [gcfgs, gcrypto, GSigned] using h

/-- APPEAR: the fetch of certificate 3 times out, the packet is refused; the certificate becomes retrievable; the same
    instance and a fresh one accept (`accept_of_chain_now` applies: the hypothesis `KeyStable` holds) -/
example : traceD gcfgs ⟨wTimeout, fun _ => []⟩
      [.validate 0 3 pkt4, .world gworld, .validate 0 3 pkt4, .validate 2 3 pkt4] =
    [(some .reject, [⟨3, false, true, 4000⟩]), (some .accept, [⟨3, false, true, 4000⟩]),
     (some .accept, [⟨3, false, true, 4000⟩])] := by decide

example : (validateD gcfgs (after gcfgs wTimeout [.validate 0 3 pkt4, .world gworld]) 0 3 pkt4).verdict = some .accept := by
  refine accept_of_chain_now GSigned gcfgs gcfg_correct wTimeout _ 0 3 1 pkt4 ?_ ?_ (by omega)
  · intro w hm n c c' hw hcn hw' hcn'
    simp only [worldsOf, List.mem_cons, List.not_mem_nil, or_false] at hm
    have hnow : (after gcfgs wTimeout [.validate 0 3 pkt4, .world gworld]).world = gworld := rfl
    rw [hnow] at hw'
    rcases hm with rfl | rfl
    · simp only [wTimeout] at hw; split at hw <;> simp at hw
    · rw [hw] at hw'; cases hw'; rfl
  · exact chain_pkt4

/-- DISAPPEAR (the cache, exhibited): the packet is accepted and the key of certificate 3 stored; the certificate is
    withdrawn from the network; the same instance, and instance 1 that shares its storage object, still accept — without
    sending an Interest —, although NO chain exists in the network as it is now; instance 2 (own storage) and instance 3
    (`EmptyKeyStorage`) refuse. -/
example : traceD gcfgs ⟨gworld, fun _ => []⟩
      [.validate 0 3 pkt4, .world wNone, .validate 0 3 pkt4, .validate 1 3 pkt4, .validate 2 3 pkt4, .validate 3 3 pkt4] =
    [(some .accept, [⟨3, false, true, 4000⟩]), (some .accept, []), (some .accept, []),
     (some .reject, [⟨3, false, true, 4000⟩]), (some .reject, [⟨3, false, true, 4000⟩])] := by decide

example : ¬ Chain ((gcfgs 0).env wNone) GSigned pkt4 := by
  intro hch
  have hr : (validate ((gcfgs 0).env wNone) 5 [] pkt4).verdict = some .reject := by decide
  have := (verdict_iff_chain ((gcfgs 0).env wNone) GSigned (gcfg_unforgeable 0) (gcfg_correct 0) 5 [] pkt4
    (cacheInv_nil _ _) .reject hr).mpr hch
  cases this

/-- … what `accept_sound_with_cache` says about that acceptance: a chain that ends at a key the storage vouches for -/
example : ∃ d, ChainC (AllowedR gallowed) ((gcfgs 1).env wNone) GSigned
    (TrustedD (allowedOf gcfgs) gcfgs GSigned gworld noTrust [.validate 0 3 pkt4, .world wNone] 0) d pkt4 :=
  accept_sound_with_cache GSigned gcfgs gcfg_unforgeable gworld [.validate 0 3 pkt4, .world wNone] 1 3 pkt4 (by decide)

/-- REPLACE: after the key of certificate 3 was stored, ANOTHER certificate (another key) is published under the same
    name, and a packet signed with the new key has a chain in the network as it is now — the instance that holds the old
    key refuses it (`KeyStable` fails: `accept_of_chain_now` is false without it), an instance with its own storage
    accepts it -/
example : traceD gcfgs ⟨gworld, fun _ => []⟩
      [.validate 0 3 pkt4, .world wRepl, .validate 0 3 pkt4', .validate 2 3 pkt4', .validate 0 3 pkt4] =
    [(some .accept, [⟨3, false, true, 4000⟩]), (some .reject, []), (some .accept, [⟨3, false, true, 4000⟩]),
     (some .accept, [])] := by decide

example : ChainD ((gcfgs 0).env wRepl) GSigned 1 pkt4' :=
  .step pkt4' 3 cert3' ⟨.ec, 31⟩ 0 rfl (by decide) rfl rfl rfl rfl ⟨rfl, rfl⟩
    (.anchor cert3' rfl rfl ⟨rfl, rfl⟩)

/-- isolation applies: instance 2's answer does not depend on what instances 0, 1, 3 validated -/
example (h : List (Event Name)) (f : Nat) (o : Obj Name) :
    validateD gcfgs (after gcfgs gworld h) 2 f o =
      validateD gcfgs (after gcfgs gworld (h.filter (touches gcfgs 2))) 2 f o :=
  instances_independent gcfgs _ h 2 f 2 o rfl

/-- an instance with an `EmptyKeyStorage` is exact at every step -/
example (h : List (Event Name)) (f : Nat) (v : Verdict)
    (e : (validateD gcfgs (after gcfgs gworld h) 3 f pkt4).verdict = some v) :
    v = .accept ↔ Chain ((gcfgs 3).env (after gcfgs gworld h).world) GSigned pkt4 :=
  empty_storage_verdict_iff_chain GSigned gcfgs gcfg_unforgeable gcfg_correct gworld h 3 f pkt4 v rfl e

end Ndn.C14
