import NdnProofs.Lemmas.Keychain
/-!
# C15 — Keychain contents, defaults and signers stay consistent over any history

Theorems about `Ndn.Keychain` (model of `KeychainSqlite3` / `Identity` / `Key` + `TpmFile`) for **every**
history `ops : List (Op × Option Nat)` — each operation optionally with a storage failure injected at its
k-th database write / commit / TPM call; `new_key` with every `key_id` / `key_id_type` the code accepts
(explicit ids of live keys, of deleted keys, of keys of another identity included).

The private-key directory is a map file name → private key, the file name of a key being `fn key_name`
(`TpmFile._to_file_name`: the SHA-256 of the encoded key name).  `fn` is a parameter of every theorem and is
**arbitrary**: neither injectivity nor the concrete SHA-256 is assumed.  That no two key names stored in the
database ever share a private-key file is *proved* (`key_files_match`): the repaired `generate_key` refuses a
key name whose file exists, so a name colliding with a stored one is never stored.

The SQL triggers are not part of the hand-written model: `insertRow` / `updSetDefault` interpret the
table `Ndn.Gen.C15.triggers` generated from the live `INITIALIZE_SQL`; the closed forms the proofs use
(`triggers_closed_form`) are re-derived from that table on every build, so an edited trigger stops them
from checking.

Specification vocabulary (does not mention the implementation): rows with `name`, `owner` (parent
row id), `dflt`; `Selected d sel k c` — the key and certificate that signing arguments `sel` designate.
-/
namespace Ndn.C15
open Ndn Ndn.Sql Ndn.Keychain
set_option linter.unusedSimpArgs false

/-! ## the generated tables -/

/-- every `CREATE TRIGGER` of INITIALIZE_SQL was parsed into a recognised WHEN shape and body -/
theorem triggers_all_parsed :
    Gen.C15.triggers.length = Gen.C15.triggerKeywordCount ∧
    ∀ t ∈ Gen.C15.triggers, t.cond ≠ .unknown ∧ t.action ≠ .unknown := by decide

/-- there are no DELETE triggers (the model's `Tab.delete` fires none) -/
theorem no_delete_triggers : ∀ t ∈ Gen.C15.triggers, t.event ≠ .delete := by decide

/-- every UPDATE trigger requires `NEW.is_default=1`, and no trigger body sets a flag of another row to 1:
    this is why the UPDATEs executed *inside* trigger bodies fire no further trigger (model: `act0`) -/
theorem update_triggers_need_new_default :
    ∀ t ∈ Gen.C15.triggers, t.event = .update → (t.cond = .newIsDefaultOldNot ∨ t.cond = .newIsDefault) ∧
      t.timing = .before ∧ ∃ sc, t.action = .clearDefaults sc := by decide

/-- the code never switches foreign keys on: `ON DELETE CASCADE` is inert, cascades are done by hand -/
theorem foreign_keys_off : Gen.C15.pragmaForeignKeys = false := by decide

/-- the interpreted trigger table gives these closed forms for the two kinds of write statement
    (`setDefaultCF`: clear the scope unless the row is already default, then set the flag;
     `insertCF`: append with flag 0, then make it default iff its scope has none) -/
theorem triggers_closed_form :
    (∀ n t, updSetDefault (ν := Nat) (trs .identities) n t = setDefaultCF false n t) ∧
    (∀ n t, updSetDefault (ν := KeyName) (trs .keys) n t = setDefaultCF true n t) ∧
    (∀ n t, updSetDefault (ν := CertName) (trs .certificates) n t = setDefaultCF true n t) ∧
    (∀ o n t, insertRow (ν := Nat) (trs .identities) o n t = insertCF false o n t) ∧
    (∀ o n t, insertRow (ν := KeyName) (trs .keys) o n t = insertCF true o n t) ∧
    (∀ o n t, insertRow (ν := CertName) (trs .certificates) o n t = insertCF true o n t) :=
  ⟨upd_ids, upd_keys, upd_certs, ins_ids, ins_keys, ins_certs⟩

/-- the SQL text at every `conn.execute` call site, as the hand-written operations model it -/
def expectedStatements : List (String × String) := [
  ("Key.__len__", "SELECT count(*) FROM certificates WHERE key_id=?"),
  ("Key.__getitem__", "SELECT id, certificate_name, certificate_data, is_default FROM certificates WHERE certificate_name=? AND key_id=?"),
  ("Key.__iter__", "SELECT certificate_name FROM certificates WHERE key_id=?"),
  ("Key.has_default_cert", "SELECT id FROM certificates WHERE is_default=1 AND key_id=?"),
  ("Key.set_default_cert", "UPDATE certificates SET is_default=1 WHERE certificate_name=?"),
  ("Key.default_cert", "SELECT id, certificate_name, certificate_data, is_default FROM certificates WHERE is_default=1 AND key_id=?"),
  ("Identity.__len__", "SELECT count(*) FROM keys WHERE identity_id=?"),
  ("Identity.__getitem__", "SELECT id, key_name, key_bits, is_default FROM keys WHERE key_name=? AND identity_id=?"),
  ("Identity.__iter__", "SELECT key_name FROM keys WHERE identity_id=?"),
  ("Identity.has_default_key", "SELECT id FROM keys WHERE is_default=1 AND identity_id=?"),
  ("Identity.set_default_key", "UPDATE keys SET is_default=1 WHERE key_name=?"),
  ("Identity.default_key", "SELECT id, key_name, key_bits, is_default FROM keys WHERE is_default=1 AND identity_id=?"),
  ("KeychainSqlite3.initialize", "INSERT INTO tpmInfo (tpm_locator) VALUES (?)"),
  ("KeychainSqlite3.__init__", "SELECT tpm_locator FROM tpmInfo"),
  ("KeychainSqlite3.__iter__", "SELECT identity FROM identities"),
  ("KeychainSqlite3.__len__", "SELECT count(*) FROM identities"),
  ("KeychainSqlite3.__getitem__", "SELECT id, identity, is_default FROM identities WHERE identity=?"),
  ("KeychainSqlite3.has_default_identity", "SELECT id FROM identities WHERE is_default=1"),
  ("KeychainSqlite3.set_default_identity", "UPDATE identities SET is_default=1 WHERE identity=?"),
  ("KeychainSqlite3.default_identity", "SELECT id, identity, is_default FROM identities WHERE is_default=1"),
  ("KeychainSqlite3.new_identity", "INSERT INTO identities (identity) VALUES (?)"),
  ("KeychainSqlite3.touch_identity", "INSERT INTO identities (identity) VALUES (?)"),
  ("KeychainSqlite3.del_identity", "DELETE FROM identities WHERE identity=?"),
  ("KeychainSqlite3.del_key", "DELETE FROM certificates WHERE key_id=?"),
  ("KeychainSqlite3.del_key", "DELETE FROM keys WHERE key_name=?"),
  ("KeychainSqlite3.del_cert", "DELETE FROM certificates WHERE certificate_name=?"),
  ("KeychainSqlite3.new_key", "INSERT INTO keys (identity_id, key_name, key_bits) VALUES (?, ?, ?)"),
  ("KeychainSqlite3.new_key", "INSERT INTO certificates (key_id, certificate_name, certificate_data)VALUES ((SELECT id FROM keys WHERE key_name=?), ?, ?)"),
  ("KeychainSqlite3.import_cert", "INSERT INTO certificates (key_id, certificate_name, certificate_data)VALUES ((SELECT id FROM keys WHERE key_name=?), ?, ?)")
]


theorem statements_as_modelled : Gen.C15.statements = expectedStatements := by rfl

/-! ## default_unique -/

/-- specification: at most one default row per scope -/
def AtMostOneDefault {ν : Type} (sc : Bool) (t : Table ν) : Prop :=
  ∀ a ∈ t, ∀ b ∈ t, a.dflt = true → b.dflt = true → sameScope sc a.owner b.owner = true → a = b

theorem pairwise_mem {α : Type} {R : α → α → Prop} {l : List α} (h : l.Pairwise R) {a b : α}
    (ha : a ∈ l) (hb : b ∈ l) (hne : a ≠ b) : R a b ∨ R b a := by
  induction l with
  | nil => cases ha
  | cons x r ih =>
    rw [List.pairwise_cons] at h
    cases ha with
    | head => cases hb with
      | head => exact absurd rfl hne
      | tail _ hb => exact Or.inl (h.1 _ hb)
    | tail _ ha => cases hb with
      | head => exact Or.inr (h.1 _ ha)
      | tail _ hb => exact ih h.2 ha hb

theorem atMostOne_of_defU {ν : Type} {sc : Bool} {t : Table ν} (h : DefU sc t) : AtMostOneDefault sc t := by
  intro a ha b hb hda hdb hs
  apply Classical.byContradiction
  intro hne
  rcases pairwise_mem h ha hb hne with h1 | h1
  · exact h1 ⟨hda, hdb, hs⟩
  · exact h1 ⟨hdb, hda, by rw [sameScope_comm]; exact hs⟩

/-- **default_unique.** After any history (with any injected storage failures) there is at most one default
    identity, at most one default key per identity and at most one default certificate per key - in what the
    connection sees and in what is committed. -/
theorem default_unique (fn : KeyName → FileName) (ops : List (Op × Option Nat)) :
    let s := run (Sys.init fn) ops
    (AtMostOneDefault false s.cur.ids.rows ∧ AtMostOneDefault true s.cur.keys.rows ∧
      AtMostOneDefault true s.cur.certs.rows) ∧
    (AtMostOneDefault false s.com.ids.rows ∧ AtMostOneDefault true s.com.keys.rows ∧
      AtMostOneDefault true s.com.certs.rows) := by
  have h := sysInv_run fn ops
  exact ⟨⟨atMostOne_of_defU h.cur.ids.defu, atMostOne_of_defU h.cur.keys.defu, atMostOne_of_defU h.cur.certs.defu⟩,
    ⟨atMostOne_of_defU h.com.ids.defu, atMostOne_of_defU h.com.keys.defu, atMostOne_of_defU h.com.certs.defu⟩⟩

/-! ## default_exists -/

/-- specification: every populated scope either has a default row or is recorded (ghost `lost`) as a scope
    whose default row was deleted and that has had no default since -/
def DefaultUnlessDeleted {ν : Type} (sc : Bool) (T : Tab ν) : Prop :=
  ∀ r ∈ T.rows, (∃ d ∈ T.rows, d.dflt = true ∧ sameScope sc r.owner d.owner = true) ∨ scopeKey sc r.owner ∈ T.lost

theorem defaultUnlessDeleted_of_inv {ν : Type} [DecidableEq ν] {sc : Bool} {T : Tab ν} (h : TabInv sc T) :
    DefaultUnlessDeleted sc T := by
  intro r hr
  cases hx : hasDefault sc r.owner T.rows
  · exact Or.inr (h.lost r hr hx)
  · exact Or.inl (hasDefault_iff.mp hx)

/-- **default_exists.** After any history (with any injected storage failures): a keychain with identities
    has a default identity, an identity with keys has a default key, a key with certificates has a default
    certificate - unless that scope's default was deleted and none has been set or inserted since. -/
theorem default_exists (fn : KeyName → FileName) (ops : List (Op × Option Nat)) :
    let s := run (Sys.init fn) ops
    DefaultUnlessDeleted false s.cur.ids ∧ DefaultUnlessDeleted true s.cur.keys ∧
      DefaultUnlessDeleted true s.cur.certs := by
  have h := sysInv_run fn ops
  exact ⟨defaultUnlessDeleted_of_inv h.cur.ids, defaultUnlessDeleted_of_inv h.cur.keys,
    defaultUnlessDeleted_of_inv h.cur.certs⟩

/-- what the ghost means: every table write of the model is `Tab.apply` (INSERT / UPDATE) or `Tab.delete`;
    the first never adds a scope to `lost` and drops those that have a default again, the second adds a scope
    only when it deletes a default row of that scope. -/
theorem lost_only_by_deleting_default {ν : Type} [DecidableEq ν] (sc : Bool) (T : Tab ν) (k : Nat) :
    (∀ f, k ∈ (T.apply sc f).lost → k ∈ T.lost ∧ hasDefault sc k (f T.rows) = false) ∧
    (∀ p, k ∈ (T.delete sc p).lost →
      (k ∈ T.lost ∨ ∃ d ∈ T.rows, p d = true ∧ d.dflt = true ∧ scopeKey sc d.owner = k) ∧
      hasDefault sc k (T.rows.filter fun x => !p x) = false) := by
  refine ⟨fun f h => ⟨lost_apply f h, ?_⟩, fun p h => ⟨lost_delete p h, ?_⟩⟩
  · simp only [Tab.apply, List.mem_filter] at h
    simpa using h.2
  · simp only [Tab.delete, List.mem_filter] at h
    simpa using h.2

/-! ## views_agree -/

/-- specification of a consistent mapping view: `iter` has no repetitions, `len` is its length, and
    lookup succeeds exactly on the iterated names and returns the entry of that name -/
structure ConsistentView {κ ρ : Type} (len : Nat) (iter : List κ) (get : κ → Option ρ) (nameOf : ρ → κ) : Prop where
  len_eq : len = iter.length
  nodup : iter.Nodup
  mem_iff : ∀ x, x ∈ iter ↔ (get x).isSome = true
  get_name : ∀ x r, get x = some r → nameOf r = x

theorem find_view {ν : Type} [DecidableEq ν] {t : Table ν} (hn : NamesU t) (q : Row ν → Bool) :
    ConsistentView (t.filter q).length ((t.filter q).map (·.name))
      (fun x => t.find? fun r => r.name = x && q r) (·.name) := by
  refine ⟨by simp, ?_, fun x => ?_, fun x r h => ?_⟩
  · have := (namesU_iff _).mp (namesU_filter q hn)
    exact this
  · simp only [List.mem_map, List.mem_filter, List.find?_isSome, Bool.and_eq_true, decide_eq_true_eq]
    constructor
    · rintro ⟨r, ⟨hr, hq⟩, rfl⟩; exact ⟨r, hr, rfl, hq⟩
    · rintro ⟨r, hr, rfl, hq⟩; exact ⟨r, ⟨hr, hq⟩, rfl⟩
  · have := List.find?_some h
    simp only [Bool.and_eq_true, decide_eq_true_eq] at this
    exact this.1

/-- **views_agree.** After any history the three kinds of view are consistent mappings: the keychain over
    identities, every identity (row id `o`) over its keys, every key (row id `o`) over its certificates -
    `len` = number of iterated names, no name iterated twice, `x in v` ⇔ `x` iterated ⇔ `v[x]` defined, and
    `v[x]` is the entry named `x` owned by `o`.  Views of different owners are disjoint. -/
theorem views_agree (fn : KeyName → FileName) (ops : List (Op × Option Nat)) :
    let d := (run (Sys.init fn) ops).cur
    ConsistentView (idLen d) (idIter d) (idRow? d) (·.name) ∧
    (∀ o, ConsistentView (keyLen d o) (keyIter d o) (keyRow? d o) (·.name) ∧
        ∀ k r, keyRow? d o k = some r → r.owner = o) ∧
    (∀ o, ConsistentView (certLen d o) (certIter d o) (certRow? d o) (·.name) ∧
        ∀ c r, certRow? d o c = some r → r.owner = o) ∧
    (∀ o o' k, k ∈ keyIter d o → k ∈ keyIter d o' → o = o') ∧
    (∀ o o' c, c ∈ certIter d o → c ∈ certIter d o' → o = o') := by
  intro d
  have h := (sysInv_run fn ops).cur
  refine ⟨?_, fun o => ⟨?_, fun k r hr => ?_⟩, fun o => ⟨?_, fun c r hr => ?_⟩, ?_, ?_⟩
  · have := find_view h.ids.names (fun _ => true)
    have hf : d.ids.rows.filter (fun _ => true) = d.ids.rows := List.filter_eq_self.mpr (fun _ _ => rfl)
    simp only [Bool.and_true] at this
    rw [hf] at this
    exact this
  · exact find_view h.keys.names (fun r => r.owner == o)
  · have := List.find?_some hr
    simp only [Bool.and_eq_true, beq_iff_eq] at this
    exact this.2
  · exact find_view h.certs.names (fun r => r.owner == o)
  · have := List.find?_some hr
    simp only [Bool.and_eq_true, beq_iff_eq] at this
    exact this.2
  · intro o o' k h1 h2
    simp only [keyIter, List.mem_map, List.mem_filter, beq_iff_eq] at h1 h2
    obtain ⟨r1, ⟨hr1, ho1⟩, hn1⟩ := h1
    obtain ⟨r2, ⟨hr2, ho2⟩, hn2⟩ := h2
    have := eq_of_name_eq h.keys.names hr1 hr2 (hn1.trans hn2.symm)
    subst this; exact ho1.symm.trans ho2
  · intro o o' c h1 h2
    simp only [certIter, List.mem_map, List.mem_filter, beq_iff_eq] at h1 h2
    obtain ⟨r1, ⟨hr1, ho1⟩, hn1⟩ := h1
    obtain ⟨r2, ⟨hr2, ho2⟩, hn2⟩ := h2
    have := eq_of_name_eq h.certs.names hr1 hr2 (hn1.trans hn2.symm)
    subst this; exact ho1.symm.trans ho2

/-! ## signer_right_key -/

/-- specification: the key and the certificate that signing arguments designate in a database:
    * `cert c`: certificate `c` and the key it is named after;
    * `key k`: key `k` of the identity it is named after, and that key's default certificate;
    * `identity n`: identity `n`, its default key, that key's default certificate;
    * nothing: the same for the default identity. -/
inductive Selected (d : Db) : Sel → KeyName → CertName → Prop
  | cert (c : CertName) : Selected d (.cert c) c.key c
  | key (ir : Row Nat) (kr : Row KeyName) (cr : Row CertName) :
      ir ∈ d.ids.rows → kr ∈ d.keys.rows → kr.owner = ir.rid → ir.name = kr.name.idn →
      cr ∈ d.certs.rows → cr.owner = kr.rid → cr.dflt = true → Selected d (.key kr.name) kr.name cr.name
  | ident (ir : Row Nat) (kr : Row KeyName) (cr : Row CertName) :
      ir ∈ d.ids.rows → kr ∈ d.keys.rows → kr.owner = ir.rid → kr.dflt = true →
      cr ∈ d.certs.rows → cr.owner = kr.rid → cr.dflt = true → Selected d (.ident ir.name) kr.name cr.name
  | dflt (ir : Row Nat) (kr : Row KeyName) (cr : Row CertName) :
      ir ∈ d.ids.rows → ir.dflt = true → kr ∈ d.keys.rows → kr.owner = ir.rid → kr.dflt = true →
      cr ∈ d.certs.rows → cr.owner = kr.rid → cr.dflt = true → Selected d .dflt kr.name cr.name

theorem find_spec {α : Type} {p : α → Bool} {l : List α} {a : α} (h : l.find? p = some a) : a ∈ l ∧ p a = true :=
  ⟨List.mem_of_find?_eq_some h, List.find?_some h⟩

theorem selected_of_resolve {d : Db} {sel : Sel} {k : KeyName} {c : CertName}
    (h : resolve d sel = some (k, c)) : Selected d sel k c := by
  cases sel with
  | cert c' =>
    simp only [resolve, Option.some.injEq, Prod.mk.injEq] at h
    obtain ⟨rfl, rfl⟩ := h
    exact .cert _
  | key k' =>
    simp only [resolve, Option.bind_eq_bind, Option.bind_eq_some_iff, Option.pure_def, Option.some.injEq,
      Prod.mk.injEq] at h
    obtain ⟨ir, hi, kr, hk, cr, hc, rfl, rfl⟩ := h
    obtain ⟨hi1, hi2⟩ := find_spec hi
    obtain ⟨hk1, hk2⟩ := find_spec hk
    obtain ⟨hc1, hc2⟩ := find_spec hc
    simp only [Bool.and_eq_true, decide_eq_true_eq, beq_iff_eq] at hi2 hk2 hc2
    obtain ⟨rfl, hko⟩ := hk2
    exact .key ir kr cr hi1 hk1 hko hi2 hc1 hc2.2 hc2.1
  | ident n =>
    simp only [resolve, Option.bind_eq_bind, Option.bind_eq_some_iff, Option.pure_def, Option.some.injEq,
      Prod.mk.injEq] at h
    obtain ⟨ir, hi, kr, hk, cr, hc, rfl, rfl⟩ := h
    obtain ⟨hi1, hi2⟩ := find_spec hi
    obtain ⟨hk1, hk2⟩ := find_spec hk
    obtain ⟨hc1, hc2⟩ := find_spec hc
    simp only [Bool.and_eq_true, decide_eq_true_eq, beq_iff_eq] at hi2 hk2 hc2
    subst hi2
    exact .ident ir kr cr hi1 hk1 hk2.2 hk2.1 hc1 hc2.2 hc2.1
  | dflt =>
    simp only [resolve, Option.bind_eq_bind, Option.bind_eq_some_iff, Option.pure_def, Option.some.injEq,
      Prod.mk.injEq] at h
    obtain ⟨ir, hi, kr, hk, cr, hc, rfl, rfl⟩ := h
    obtain ⟨hi1, hi2⟩ := find_spec hi
    obtain ⟨hk1, hk2⟩ := find_spec hk
    obtain ⟨hc1, hc2⟩ := find_spec hc
    simp only [Bool.and_eq_true, decide_eq_true_eq, beq_iff_eq] at hi2 hk2 hc2
    exact .dflt ir kr cr hi1 hi2 hk1 hk2.2 hk2.1 hc1 hc2.2 hc2.1

/-- what a `get_signer` step that returns a signer returned -/
theorem getSigner_step {J : List (FileName × Nat) → Nat → Prop} {s s' : Sys} (hs : SysInv J s) {sel : Sel}
    {loc : Option Nat} {f : Option Nat} {sg : Signer} (h : step s (.getSigner sel loc, f) = (.ok (some sg), s')) :
    ∃ k c, resolve s.cur sel = some (k, c) ∧ sg.key = k ∧ sg.loc = locOf loc c ∧
      fileGet s.tpm (s.cfg.fn k) = some sg.priv := by
  have hsp := getSigner_spec (J := J) sel loc s { s with fault := f } ⟨SysInv.fi s f hs, rfl, rfl, rfl, rfl⟩
  simp only [step, Op.prog, run_bind] at h
  rcases hm : (Keychain.getSigner sel loc).run { s with fault := f } with ⟨e | sg1, s1⟩ <;> simp only [hm] at h hsp
  · simp at h
  · simp only [run_pure, Prod.mk.injEq, Except.ok.injEq, Option.some.injEq] at h
    rw [← h.1]; exact hsp

theorem init_fn (fn : KeyName → FileName) (ops : List (Op × Option Nat)) : (run (Sys.init fn) ops).cfg.fn = fn := by
  rw [run_cfg]; rfl

/-- **key_files_match.** After any history (any injected storage failures, any explicit / random / hashed key ids,
    ANY file-name function): every key row - as the connection sees the database and as committed - has its
    private-key file, and the file holds the private key that belongs to the public key (`key_bits`) in the row;
    no two different stored key names have the same file name; no private key is in two files. -/
theorem key_files_match (fn : KeyName → FileName) (ops : List (Op × Option Nat)) :
    let s := run (Sys.init fn) ops
    (∀ r ∈ s.cur.keys.rows, fileGet s.tpm (fn r.name) = some r.data) ∧
    (∀ r ∈ s.com.keys.rows, fileGet s.tpm (fn r.name) = some r.data) ∧
    (∀ a ∈ s.cur.keys.rows ++ s.com.keys.rows, ∀ b ∈ s.cur.keys.rows ++ s.com.keys.rows,
      fn a.name = fn b.name → a.name = b.name) ∧
    (∀ e1 ∈ s.tpm, ∀ e2 ∈ s.tpm, e1.2 = e2.2 → e1 = e2) := by
  intro s
  have hi := sysInv_run fn ops
  have hm := hi.matched
  rw [init_fn] at hm
  refine ⟨hm.1, hm.2, fun a ha b hb e => ?_, fun e1 h1 e2 h2 e => ?_⟩
  · have := hi.fd a.name (List.mem_map_of_mem ha) b.name (List.mem_map_of_mem hb)
    rw [init_fn] at this
    exact this e
  · apply Classical.byContradiction
    intro hne
    rcases pairwise_mem hi.privs h1 h2 hne with h | h
    · exact h e
    · exact h e.symm

/-- **signer_right_key.** After any history (with any injected storage failures, any explicit / random / hashed
    key ids, any file-name function): whenever `get_signer` returns a signer - freshly
    made or from the cache - it was made for the selected key, its key locator is the caller's explicit one or
    else the selected (default) certificate's name, and it signs with the private key that is in the selected
    key's file, which is the private key belonging to the public key (`key_bits`) the database holds for that
    key name. -/
theorem signer_right_key (fn : KeyName → FileName) (ops : List (Op × Option Nat))
    (sel : Sel) (loc : Option Nat) (f : Option Nat)
    (sg : Signer) (s' : Sys) (h : step (run (Sys.init fn) ops) (.getSigner sel loc, f) = (.ok (some sg), s')) :
    ∃ k c, Selected (run (Sys.init fn) ops).cur sel k c ∧ sg.key = k ∧ sg.loc = locOf loc c ∧
      fileGet (run (Sys.init fn) ops).tpm (fn k) = some sg.priv ∧
      ∀ kr ∈ (run (Sys.init fn) ops).cur.keys.rows, kr.name = k → kr.data = sg.priv := by
  have hi := sysInv_run fn ops
  obtain ⟨k, c, hr, h1, h2, ht⟩ := getSigner_step hi h
  rw [init_fn] at ht
  refine ⟨k, c, selected_of_resolve hr, h1, h2, ht, fun kr hkr hn => ?_⟩
  have := hi.matched.1 kr hkr
  rw [init_fn, hn, ht] at this
  exact (Option.some.inj this).symm

/-- **views_scoped.** After any history (with any injected storage failures) every key row hangs below an
    existing identity row and is named after that identity, and every certificate row hangs below an existing
    key row: the view of an identity lists only keys named after it, and there are no orphan rows that a later
    identity or key with a re-used row id could adopt.  (Foreign keys are off; this is the hand-written cascade
    order - children first - doing its job, also when it is interrupted.) -/
theorem views_scoped (fn : KeyName → FileName) (ops : List (Op × Option Nat)) :
    let d := (run (Sys.init fn) ops).cur
    (∀ i ∈ d.ids.rows, ∀ k ∈ keyIter d i.rid, k.idn = i.name) ∧
    (∀ k ∈ d.keys.rows, ∃ i ∈ d.ids.rows, i.rid = k.owner) ∧
    (∀ c ∈ d.certs.rows, ∃ k ∈ d.keys.rows, k.rid = c.owner) := by
  intro d
  have h := sysInv_run fn ops
  refine ⟨fun i hi k hk => ?_, fun k hk => ?_, h.link.1.certKey⟩
  · simp only [keyIter, List.mem_map, List.mem_filter, beq_iff_eq] at hk
    obtain ⟨kr, ⟨hkr, ho⟩, rfl⟩ := hk
    obtain ⟨i', hi', h1, h2⟩ := h.link.1.keyHome kr hkr
    have : i' = i := eq_of_rid_eq h.cur.ids.rids hi' hi (h1.trans ho)
    rw [← h2, this]
  · obtain ⟨i, hi, h1, _⟩ := h.link.1.keyHome k hk
    exact ⟨i, hi, h1⟩

/-! ## delete_cascades -/

theorem delKey_step {s s' : Sys} {k : KeyName} {f : Option Nat} {r : Option Signer}
    (h : step s (.delKey k, f) = (.ok r, s')) : DelKeyPost k s s' := by
  have hsp := delKey_spec k s { s with fault := f } ⟨rfl, rfl, rfl, rfl⟩
  simp only [step, Op.prog, run_bind] at h
  rcases hm : (Keychain.delKey k).run { s with fault := f } with ⟨e | u, s1⟩ <;> simp only [hm] at h hsp
  · simp at h
  · simp only [run_pure, Prod.mk.injEq] at h
    rw [← h.2]
    exact ⟨hsp.found, hsp.keys, hsp.ids, hsp.tpm, hsp.kid, hsp.cfg, hsp.committed, hsp.cache⟩

theorem delIdentity_step {s s' : Sys} {n : Nat} {f : Option Nat} {r : Option Signer} (hn : NamesU s.cur.keys.rows)
    (h : step s (.delIdentity n, f) = (.ok r, s')) : DelIdPost n s s' := by
  have hsp := delIdentity_spec n s hn { s with fault := f } ⟨rfl, rfl, rfl, rfl⟩
  simp only [step, Op.prog, run_bind] at h
  rcases hm : (Keychain.delIdentity n).run { s with fault := f } with ⟨e | u, s1⟩ <;> simp only [hm] at h hsp
  · simp at h
  · simp only [run_pure, Prod.mk.injEq] at h
    rw [← h.2]
    exact ⟨hsp.found, hsp.idsGone, hsp.committed, hsp.cache⟩

/-- **delete_cascades (key).** After any history, a `del_key k` that returns normally (whatever failure was
    scheduled, it was not reached) leaves: no key named `k`; no certificate below the key row that carried
    that name; no private-key file for `k`; everything committed; other keys and all identities untouched. -/
theorem del_key_cascades (fn : KeyName → FileName) (ops : List (Op × Option Nat)) (k : KeyName) (f : Option Nat)
    (r : Option Signer) (s' : Sys) (h : step (run (Sys.init fn) ops) (.delKey k, f) = (.ok r, s')) :
    let s := run (Sys.init fn) ops
    (∀ x ∈ s'.cur.keys.rows, x.name ≠ k) ∧
    (∀ kr ∈ s.cur.keys.rows, kr.name = k → ∀ c ∈ s'.cur.certs.rows, c.owner ≠ kr.rid) ∧
    fileGet s'.tpm (fn k) = none ∧ s'.com = s'.cur ∧
    (∀ x ∈ s.cur.keys.rows, x.name ≠ k → x ∈ s'.cur.keys.rows) ∧ s'.cur.ids = s.cur.ids := by
  intro s
  have hp := delKey_step h
  have hi := (sysInv_run fn ops).cur
  obtain ⟨ir, kr0, _, hkr0, hcerts⟩ := hp.found
  obtain ⟨hkr0m, hkr0p⟩ := find_spec hkr0
  simp only [Bool.and_eq_true, decide_eq_true_eq, beq_iff_eq] at hkr0p
  refine ⟨fun x hx => ?_, fun kr hkr hk c hc => ?_, ?_, hp.committed, fun x hx hne => ?_, hp.ids⟩
  · rw [hp.keys, List.mem_filter] at hx
    simpa using hx.2
  · have : kr = kr0 := eq_of_name_eq hi.keys.names hkr hkr0m (hk.trans hkr0p.1.symm)
    subst this
    rw [hcerts, List.mem_filter] at hc
    simpa using hc.2
  · rw [hp.tpm, init_fn]
    exact fileGet_remove_self _ _
  · rw [hp.keys, List.mem_filter]
    exact ⟨hx, by simp [hne]⟩

/-- **delete_cascades (identity).** After any history, a `del_identity n` that returns normally leaves: no
    identity named `n`; for every key row that was below the identity row carrying that name: no key of that
    name, no private-key file for it, no certificate below it; everything committed. -/
theorem del_identity_cascades (fn : KeyName → FileName) (ops : List (Op × Option Nat)) (n : Nat) (f : Option Nat)
    (r : Option Signer) (s' : Sys) (h : step (run (Sys.init fn) ops) (.delIdentity n, f) = (.ok r, s')) :
    let s := run (Sys.init fn) ops
    (∀ x ∈ s'.cur.ids.rows, x.name ≠ n) ∧
    (∀ ir ∈ s.cur.ids.rows, ir.name = n → ∀ kr ∈ s.cur.keys.rows, kr.owner = ir.rid →
      (∀ x ∈ s'.cur.keys.rows, x.name ≠ kr.name) ∧ fileGet s'.tpm (fn kr.name) = none ∧
      ∀ c ∈ s'.cur.certs.rows, c.owner ≠ kr.rid) ∧
    s'.com = s'.cur := by
  intro s
  have hi := (sysInv_run fn ops).cur
  have hp := delIdentity_step hi.keys.names h
  obtain ⟨ir0, hir0, hkeys, hcerts, htpm, _⟩ := hp.found
  obtain ⟨hir0m, hir0p⟩ := find_spec hir0
  simp only [decide_eq_true_eq] at hir0p
  refine ⟨fun x hx => ?_, fun ir hir hname kr hkr hown => ?_, hp.committed⟩
  · rw [hp.idsGone, List.mem_filter] at hx
    simpa using hx.2
  · have : ir = ir0 := eq_of_name_eq hi.ids.names hir hir0m (hname.trans hir0p.symm)
    subst this
    have hmem : kr.name ∈ keyIter s.cur ir.rid :=
      List.mem_map.mpr ⟨kr, List.mem_filter.mpr ⟨hkr, by simp [hown]⟩, rfl⟩
    refine ⟨fun x hx => ?_, ?_, fun c hc => (hcerts c hc).2 kr hkr hmem⟩
    · rw [hkeys, List.mem_filter] at hx
      intro e
      rw [e] at hx
      have := hx.2
      simp only [Bool.not_eq_true', decide_eq_false_iff_not] at this
      exact this hmem
    · rw [htpm, init_fn]
      refine fileGet_filter_none fun e _ he => ?_
      simp only [Bool.not_eq_false', decide_eq_true_eq]
      rw [he]
      exact List.mem_map_of_mem hmem

/-! ## no_signer_for_deleted -/

/-- private key `q` is in no file and will never be generated again -/
def PrivGone (q : Nat) (t : List (FileName × Nat)) (n : Nat) : Prop := (∀ e ∈ t, e.2 ≠ q) ∧ q < n

theorem privGone_ok (q : Nat) : JOk (PrivGone q) := by
  refine ⟨fun t n f h => ⟨fun e he => ?_, by have := h.2; omega⟩, fun t n p h => ⟨fun e he => h.1 e (List.mem_filter.mp he).1, h.2⟩⟩
  rcases mem_writeFile he with he | rfl
  · exact h.1 e he
  · have := h.2
    show n ≠ q
    omega

/-- **no_signer_for_deleted.** Once `del_key k` has returned normally, no later `get_signer` - whatever the
    history in between (new keys under the SAME key name included: an explicit `key_id` may be used again), with
    any injected storage failures, with whatever arguments, cached or not - returns a signer that signs with the
    deleted key's private key: the key row `kr` that `del_key` removed held the public key `kr.data`, its private
    key was in `k`'s file, and no later signer holds it. -/
theorem no_signer_for_deleted (fn : KeyName → FileName) (ops1 ops2 : List (Op × Option Nat)) (k : KeyName)
    (f f' : Option Nat) (r : Option Signer) (s2 s' : Sys) (sel : Sel) (loc : Option Nat) (sg : Signer)
    (hdel : step (run (Sys.init fn) ops1) (.delKey k, f) = (.ok r, s2))
    (hget : step (run s2 ops2) (.getSigner sel loc, f') = (.ok (some sg), s')) :
    ∃ kr ∈ (run (Sys.init fn) ops1).cur.keys.rows, kr.name = k ∧
      fileGet (run (Sys.init fn) ops1).tpm (fn k) = some kr.data ∧ sg.priv ≠ kr.data := by
  have h1 := sysInv_run fn ops1
  have hp := delKey_step hdel
  have h2 : Inv s2 := by
    have := step_of_pres SysInv.fi (pres_prog JOk.trivial) _ (Op.delKey k, f) h1
    rw [hdel] at this; exact this
  obtain ⟨ir, kr0, _, hkr0, _⟩ := hp.found
  obtain ⟨hkr0m, hkr0p⟩ := find_spec hkr0
  simp only [Bool.and_eq_true, decide_eq_true_eq, beq_iff_eq] at hkr0p
  have hfile : fileGet (run (Sys.init fn) ops1).tpm (fn k) = some kr0.data := by
    have := h1.matched.1 kr0 hkr0m
    rw [init_fn, hkr0p.1] at this
    exact this
  have hmem := fileGet_some_mem hfile
  have hgone : PrivGone kr0.data s2.tpm s2.nextKid := by
    refine ⟨fun e he he2 => ?_, ?_⟩
    · rw [hp.tpm, init_fn] at he
      obtain ⟨he1, he3⟩ := List.mem_filter.mp he
      simp only [ne_eq, decide_not, Bool.not_eq_true', decide_eq_false_iff_not] at he3
      have hne : e ≠ (fn k, kr0.data) := fun e' => he3 (by rw [e'])
      rcases pairwise_mem h1.privs he1 hmem hne with h | h
      · exact h he2
      · exact h he2.symm
    · rw [hp.kid]
      exact h1.kids _ hmem
  have h3 : SysInv (PrivGone kr0.data) (run s2 ops2) :=
    run_of_pres SysInv.fi (pres_prog (privGone_ok _)) _ ops2 (h2.withJ hgone)
  obtain ⟨k', c, _, _, _, hk'⟩ := getSigner_step h3 hget
  exact ⟨kr0, hkr0m, hkr0p.1, hfile, h3.extra.1 _ (fileGet_some_mem hk')⟩

/-! ## reopen_same -/

/-- a key-generating operation answered sqlite's IntegrityError: the key name it constructed (whose private-key
    file did not exist), or the timestamped name of its self-signed certificate, was already in the database.
    (The only way a failure-free operation can end with uncommitted work.  A `new_key` with the key id of a LIVE
    key is not such a case: it is refused with ValueError before anything is written - `live_key_id_refused`.) -/
def KeyGenClash (s : Sys) (op : Op) : Prop :=
  op.keyGen = true ∧ (step s (op, none)).1 = .error .integrityError

/-- a history without injected failures in which that never happened -/
def NoClash : Sys → List Op → Prop
  | _, [] => True
  | s, op :: r => ¬ KeyGenClash s op ∧ NoClash (step s (op, none)).2 r

theorem clean_step (s : Sys) (op : Op) (hc : s.cur = s.com) (hn : ¬ KeyGenClash s op) :
    (step s (op, none)).2.cur = (step s (op, none)).2.com := by
  have h := nfc_prog op { s with fault := none } ⟨rfl, hc⟩
  unfold KeyGenClash at hn
  unfold step at hn ⊢
  rcases hm : (Op.prog op).run { s with fault := none } with ⟨e | r, s1⟩ <;> simp only [hm] at h hn ⊢
  · rcases h with ⟨h1, h2⟩ | h
    · exact absurd ⟨h1, by rw [h2]⟩ hn
    · exact h.2
  · exact h.2

theorem clean_run (ops : List Op) : ∀ s : Sys, s.cur = s.com → NoClash s ops →
    (run s (ops.map fun o => (o, none))).cur = (run s (ops.map fun o => (o, none))).com := by
  induction ops with
  | nil => intro s h _; exact h
  | cons o r ih =>
    intro s hc hn
    exact ih _ (clean_step s o hc hn.1) hn.2

/-- **reopen_same.** After any history without injected storage failures (in which key generation never hit
    an IntegrityError) nothing is uncommitted, so closing and reopening the store changes neither the
    database the connection sees nor the private-key store; only the signer cache starts empty. -/
theorem reopen_same (fn : KeyName → FileName) (ops : List Op) (h : NoClash (Sys.init fn) ops) :
    let s := run (Sys.init fn) (ops.map fun o => (o, none))
    let s' := (step s (.reopen, none)).2
    s.cur = s.com ∧ s'.cur = s.cur ∧ s'.com = s.com ∧ s'.tpm = s.tpm ∧ s'.nextKid = s.nextKid ∧ s'.cache = [] := by
  intro s s'
  have hc : s.cur = s.com := clean_run ops (Sys.init fn) rfl h
  refine ⟨hc, ?_, rfl, rfl, rfl, rfl⟩
  show s.com = s.cur
  exact hc.symm

/-! ## a refused new_key changes nothing -/

/-- **new_key_refused_unchanged.** After any history (any `fn`, any injected storage failures), a `new_key` - with
    whatever `key_type`, `key_id`, `key_id_type`, through whatever fault schedule - that is refused with ValueError
    (unsupported key type, unsupported `key_id_type`, or - the repair - a key name whose private key is already
    stored) leaves the whole system state unchanged: both views of the three tables with their defaults, the
    private-key directory, the signer cache, the key-pair counter.  So repeating it, or any other operation after
    it, behaves as if it had not been attempted. -/
theorem new_key_refused_unchanged (fn : KeyName → FileName) (ops : List (Op × Option Nat)) (n : Nat) (bad : Bool)
    (spec : KeyIdSpec) (f : Option Nat) :
    let s := run (Sys.init fn) ops
    (step s (.newKey n bad spec, f)).1 = .error .valueError → (step s (.newKey n bad spec, f)).2 = s := by
  intro s he
  have hf : s.fault = none := run_fault _ ops rfl
  have hsp := newKey_valueError n bad spec s { s with fault := f } ⟨rfl, rfl, rfl, rfl, rfl, rfl⟩
  simp only [step, Op.prog, run_bind] at he ⊢
  rcases hm : (Keychain.newKey n bad spec).run { s with fault := f } with ⟨e | u, s1⟩ <;> simp only [hm] at he hsp ⊢
  · simp only [Except.error.injEq] at he
    obtain ⟨h1, h2, h3, h4, h5, h6⟩ := hsp he
    rcases s with ⟨c0, a0, b0, t0, ca0, n0, f0⟩
    rcases s1 with ⟨c1, a1, b1, t1, ca1, n1, f1⟩
    simp only at h1 h2 h3 h4 h5 h6 hf
    subst h1 h2 h3 h4 h5 h6 hf
    rfl
  · simp [run_pure] at he

/-- **live_key_id_refused.** After any history: `new_key` with the
    explicit key id of a key that is in the database (a live key - whatever its type, whichever identity view it was
    made through, before or after a reopen) is refused with ValueError, and (`new_key_refused_unchanged`) nothing
    changes - in particular the live key keeps its private key. -/
theorem live_key_id_refused (fn : KeyName → FileName) (ops : List (Op × Option Nat)) (n x : Nat) (bad : Bool)
    (hlive : ∃ kr ∈ (run (Sys.init fn) ops).cur.keys.rows, kr.name = ⟨n, .lit x⟩) :
    step (run (Sys.init fn) ops) (.newKey n bad (.explicit x), none) = (.error .valueError, run (Sys.init fn) ops) := by
  have hi := sysInv_run fn ops
  obtain ⟨kr, hkr, hn⟩ := hlive
  have hf : (run (Sys.init fn) ops).fault = none := run_fault _ ops rfl
  have hfile : fileHas (run (Sys.init fn) ops).tpm ((run (Sys.init fn) ops).cfg.fn ⟨n, .lit x⟩) = true := by
    have := hi.matched.1 kr hkr
    rw [hn] at this
    simp [fileHas, this]
  have hid : (idRow? (run (Sys.init fn) ops).cur n).isSome = true := by
    obtain ⟨i, him, _, hin⟩ := hi.link.1.keyHome kr hkr
    rw [hn] at hin
    simp only [idRow?, List.find?_isSome, decide_eq_true_eq]
    exact ⟨i, him, hin⟩
  have hsp := newKey_refuses n bad x { run (Sys.init fn) ops with fault := none } ⟨rfl, hid, hi.guard, hfile⟩
  have hun := new_key_refused_unchanged fn ops n bad (.explicit x) none
  simp only [step, Op.prog, run_bind] at hun ⊢
  rcases hm : (Keychain.newKey n bad (.explicit x)).run { run (Sys.init fn) ops with fault := none } with ⟨e | u, s1⟩
  · simp only [hm] at hsp hun ⊢
    subst hsp
    rw [hun rfl]
  · simp only [hm] at hsp

/-! ## the code before the repair: a refused new_key destroyed the live key's private key -/

/-- a file-name function for the concrete histories below -/
def demoFn (k : KeyName) : FileName :=
  match k.kid with
  | .rnd p => 3 * (k.idn * 1000 + p)
  | .lit x => 3 * (k.idn * 1000 + x) + 1
  | .hash p => 3 * (k.idn * 1000 + p) + 2

deriving instance DecidableEq for Except

/-- the key `/1/KEY/x1` -/
abbrev demoKey : KeyName := ⟨1, .lit 1⟩
/-- `new_identity 1; new_key(1, key_id=x1)` -/
abbrev demoPre : List (Op × Option Nat) := [(.newIdentity 1, none), (.newKey 1 false (.explicit 1), none)]
/-- `new_key(1, key_id=x1)` once more -/
abbrev demoAgain : Op × Option Nat := (.newKey 1 false (.explicit 1), none)

/-- **unchanged_new_key_overwrites_live_key.** The code before the repair (`Sys.initUnchanged`: `save_key`
    overwrites): `new_identity 1; new_key(1, key_id=x1); new_key(1, key_id=x1)` - the second `new_key` is refused by
    the database (IntegrityError: the key name exists), but the private-key file of the live key has been
    overwritten already: the key row still holds the public key of key pair 0 while its file holds the private key
    of key pair 1, and after a reopen (empty signer cache) `get_signer` for the key returns a signer that signs with
    private key 1 - not the private key belonging to the selected key.  The same history on the repaired code:
    ValueError, and the signer signs with private key 0. -/
theorem unchanged_new_key_overwrites_live_key :
    (step (run (Sys.initUnchanged demoFn) demoPre) demoAgain).1 = .error .integrityError ∧
    (run (Sys.initUnchanged demoFn) (demoPre ++ [demoAgain, (.reopen, none)])).cur.keys.rows.map (fun r => (r.name, r.data))
      = [(demoKey, 0)] ∧
    fileGet (run (Sys.initUnchanged demoFn) (demoPre ++ [demoAgain, (.reopen, none)])).tpm (demoFn demoKey) = some 1 ∧
    (step (run (Sys.initUnchanged demoFn) (demoPre ++ [demoAgain, (.reopen, none)]))
      (.getSigner (.key demoKey) none, none)).1 = .ok (some ⟨demoKey, .cert ⟨demoKey, 0⟩, 1⟩) ∧
    (step (run (Sys.init demoFn) demoPre) demoAgain).1 = .error .valueError ∧
    (step (run (Sys.init demoFn) (demoPre ++ [demoAgain, (.reopen, none)]))
      (.getSigner (.key demoKey) none, none)).1 = .ok (some ⟨demoKey, .cert ⟨demoKey, 0⟩, 0⟩) := by decide

/-! ## non-vacuity: the hypotheses are met by concrete histories (evaluated by the kernel) -/

/-- `key_files_match` is not vacuous for a file-name function WITH collisions either: with every key of an identity
    mapped to one file name a second key of the identity is refused (ValueError), so the two names are never stored
    together -/
example :
    let s := run (Sys.init fun k => k.idn) [(.touchIdentity 1, none), (.touchIdentity 2, none)]
    (step s (.newKey 1 false .random, none)).1 = .error .valueError ∧
    (step s (.newKey 2 false (.explicit 4), none)).1 = .error .valueError ∧
    s.tpm = [(1, 0), (2, 1)] := by decide

/-- two identities, the second identity has two keys: exactly one default per scope -/
example :
    let s := run (Sys.init demoFn) [(.touchIdentity 1, none), (.touchIdentity 2, none), (.newKey 2 false .random, none)]
    s.cur.ids.rows.map (fun r => (r.name, r.dflt)) = [(1, true), (2, false)] ∧
    s.cur.keys.rows.map (fun r => (r.name, r.owner, r.dflt, r.data)) =
      [(⟨1, 0⟩, 1, true, 0), (⟨2, 1⟩, 2, true, 1), (⟨2, 2⟩, 2, false, 2)] := by decide

/-- `default_exists`: deleting the default identity leaves a populated scope without default, recorded in
    `lost`; a later insert gives it a default again and clears the record -/
example :
    let s := run (Sys.init demoFn) [(.touchIdentity 1, none), (.touchIdentity 2, none), (.delIdentity 1, none)]
    hasDefault false 0 s.cur.ids.rows = false ∧ s.cur.ids.lost = [0] ∧
    (run s [(.newIdentity 3, none)]).cur.ids.lost = [] ∧
    (run s [(.newIdentity 3, none)]).cur.ids.rows.map (fun r => (r.name, r.dflt)) = [(2, false), (3, true)] := by
  decide

/-- `signer_right_key`: the hypothesis holds (explicit locator, non-default key with an explicit key id; via the
    cache; a key whose id is the hash of its public key) -/
example :
    let s := run (Sys.init demoFn) [(.touchIdentity 1, none), (.newKey 1 false (.explicit 7), none),
      (.newKey 1 false .sha256, none)]
    (step s (.getSigner (.key ⟨1, .lit 7⟩) (some 5), none)).1 = .ok (some ⟨⟨1, .lit 7⟩, .lit 5, 1⟩) ∧
    (step (step s (.getSigner (.key ⟨1, 0⟩) (some 5), none)).2 (.getSigner (.key ⟨1, .lit 7⟩) (some 5), none)).1
      = .ok (some ⟨⟨1, .lit 7⟩, .lit 5, 1⟩) ∧
    (step s (.getSigner (.key ⟨1, .hash 2⟩) none, none)).1 = .ok (some ⟨⟨1, .hash 2⟩, .cert ⟨⟨1, .hash 2⟩, 0⟩, 2⟩) ∧
    (step s (.getSigner .dflt none, none)).1 = .ok (some ⟨⟨1, 0⟩, .cert ⟨⟨1, 0⟩, 0⟩, 0⟩) := by decide

/-- `del_key_cascades` / `del_identity_cascades` / `no_signer_for_deleted`: the deletes return normally, a
    signer is still obtainable for the surviving key; the explicit key id of the deleted key is used again and the
    signer for that NAME then signs with the new private key (2), not the deleted one (1) -/
example :
    let s := run (Sys.init demoFn) [(.touchIdentity 1, none), (.newKey 1 false (.explicit 7), none),
      (.importCert ⟨1, 0⟩ ⟨⟨1, 0⟩, 2⟩, none)]
    (step s (.delKey ⟨1, .lit 7⟩, none)).1 = .ok none ∧
    (step s (.delIdentity 1, none)).1 = .ok none ∧
    (step (step s (.delKey ⟨1, 0⟩, none)).2 (.getSigner (.key ⟨1, .lit 7⟩) none, none)).1
      = .ok (some ⟨⟨1, .lit 7⟩, .cert ⟨⟨1, .lit 7⟩, 0⟩, 1⟩) ∧
    (step (step s (.delKey ⟨1, 0⟩, none)).2 (.getSigner (.ident 1) none, none)).1 = .error .keyError ∧
    (step (step s (.delKey ⟨1, 0⟩, none)).2 (.getSigner (.cert ⟨⟨1, 0⟩, 0⟩) none, none)).1 = .error .keyError ∧
    (step (run s [(.delKey ⟨1, .lit 7⟩, none), (.newKey 1 false (.explicit 7), none)])
      (.getSigner (.key ⟨1, .lit 7⟩) none, none)).1 = .ok (some ⟨⟨1, .lit 7⟩, .cert ⟨⟨1, .lit 7⟩, 0⟩, 2⟩) := by
  decide

/-- `new_key_refused_unchanged` / `live_key_id_refused`: the three refusals (the key id of a live key, an
    unsupported `key_id_type`, an unsupported key type), also with a fault scheduled behind the refusal -/
example :
    let s := run (Sys.init demoFn) [(.touchIdentity 1, none), (.newKey 1 false (.explicit 7), none)]
    (step s (.newKey 1 false (.explicit 7), none)).1 = .error .valueError ∧
    (step s (.newKey 1 false (.explicit 7), some 3)).1 = .error .valueError ∧
    (step s (.newKey 1 false .badType, none)).1 = .error .valueError ∧
    (step s (.newKey 1 true .random, none)).1 = .error .valueError ∧
    -- the same key id under another identity is another key name: accepted
    (step (run s [(.touchIdentity 2, none)]) (.newKey 2 false (.explicit 7), none)).1 = .ok none := by decide

/-- a storage failure inside `del_key` (after the certificates were deleted) leaves the key without
    certificates and uncommitted work - the invariants above still hold there -/
example :
    let s := (step (run (Sys.init demoFn) [(.touchIdentity 1, none)]) (.delKey ⟨1, 0⟩, some 1)).2
    s.cur.certs.rows.length = 0 ∧ s.cur.keys.rows.length = 1 ∧ s.com.certs.rows.length = 1 := by decide

/-- `reopen_same`: a history satisfying `NoClash` -/
example : NoClash (Sys.init demoFn) [.touchIdentity 1, .newKey 1 false (.explicit 7), .importCert ⟨1, 0⟩ ⟨⟨1, 0⟩, 0⟩,
    .delKey ⟨1, .lit 7⟩] := by
  refine ⟨fun h => absurd h.2 (by decide), fun h => absurd h.2 (by decide), fun h => absurd h.1 (by decide),
    fun h => absurd h.1 (by decide), trivial⟩

end Ndn.C15

