import NdnProofs.Lemmas.Keychain
/-!
# C15 — Keychain contents, defaults and signers stay consistent over any history

Theorems about `Ndn.Keychain` (model of `KeychainSqlite3` / `Identity` / `Key` + `TpmFile`, as repaired by
candidate_fixes/C15-*.diff) for **every** history `ops : List (Op × Option Nat)` — each operation
optionally with a storage failure injected at its k-th database write / commit / TPM call.

The SQL triggers are not part of the hand-written model: `insertRow` / `updSetDefault` interpret the
table `Ndn.Gen.C15.triggers` generated from the live `INITIALIZE_SQL`; the closed forms the proofs use
(`triggers_closed_form`) are re-derived from that table on every build, so an edited trigger stops them
from checking.

Specification vocabulary (does not mention the implementation): rows with `name`, `owner` (parent
row id), `dflt`; `Selected d sel k c` — the key and certificate that signing arguments `sel` designate.
-/
namespace Ndn.C15
open Ndn Ndn.Sql Ndn.Keychain

/-! ## the generated tables -/

/-- every `CREATE TRIGGER` of INITIALIZE_SQL was parsed into a recognised WHEN shape and body -/
theorem triggers_all_parsed :
    Gen.C15.triggers.length = Gen.C15.triggerKeywordCount ∧
    ∀ t ∈ Gen.C15.triggers, t.cond ≠ .unknown ∧ t.action ≠ .unknown := by decide

/-- there are no DELETE triggers (the model's `Tab.delete` fires none) -/
theorem no_delete_triggers : ∀ t ∈ Gen.C15.triggers, t.event ≠ .delete := by decide

/-- every UPDATE trigger requires `NEW.is_default=1`, and no trigger body sets a flag of another row to 1:
    this is why the UPDATEs executed *inside* trigger bodies fire no further trigger (model: `act0`) -/
theorem update_triggers_need_new_default :
    ∀ t ∈ Gen.C15.triggers, t.event = .update → (t.cond = .newIsDefaultOldNot ∨ t.cond = .newIsDefault) ∧
      t.timing = .before ∧ ∃ sc, t.action = .clearDefaults sc := by decide

/-- the code never switches foreign keys on: `ON DELETE CASCADE` is inert, cascades are done by hand -/
theorem foreign_keys_off : Gen.C15.pragmaForeignKeys = false := by decide

/-- the interpreted trigger table gives these closed forms for the two kinds of write statement
    (`setDefaultCF`: clear the scope unless the row is already default, then set the flag;
     `insertCF`: append with flag 0, then make it default iff its scope has none) -/
theorem triggers_closed_form :
    (∀ n t, updSetDefault (ν := Nat) (trs .identities) n t = setDefaultCF false n t) ∧
    (∀ n t, updSetDefault (ν := KeyName) (trs .keys) n t = setDefaultCF true n t) ∧
    (∀ n t, updSetDefault (ν := CertName) (trs .certificates) n t = setDefaultCF true n t) ∧
    (∀ o n t, insertRow (ν := Nat) (trs .identities) o n t = insertCF false o n t) ∧
    (∀ o n t, insertRow (ν := KeyName) (trs .keys) o n t = insertCF true o n t) ∧
    (∀ o n t, insertRow (ν := CertName) (trs .certificates) o n t = insertCF true o n t) :=
  ⟨upd_ids, upd_keys, upd_certs, ins_ids, ins_keys, ins_certs⟩

/-- the SQL text at every `conn.execute` call site, as the hand-written operations model it -/
def expectedStatements : List (String × String) := [
  ("Key.__len__", "SELECT count(*) FROM certificates WHERE key_id=?"),
  ("Key.__getitem__", "SELECT id, certificate_name, certificate_data, is_default FROM certificates WHERE certificate_name=? AND key_id=?"),
  ("Key.__iter__", "SELECT certificate_name FROM certificates WHERE key_id=?"),
  ("Key.has_default_cert", "SELECT id FROM certificates WHERE is_default=1 AND key_id=?"),
  ("Key.set_default_cert", "UPDATE certificates SET is_default=1 WHERE certificate_name=?"),
  ("Key.default_cert", "SELECT id, certificate_name, certificate_data, is_default FROM certificates WHERE is_default=1 AND key_id=?"),
  ("Identity.__len__", "SELECT count(*) FROM keys WHERE identity_id=?"),
  ("Identity.__getitem__", "SELECT id, key_name, key_bits, is_default FROM keys WHERE key_name=? AND identity_id=?"),
  ("Identity.__iter__", "SELECT key_name FROM keys WHERE identity_id=?"),
  ("Identity.has_default_key", "SELECT id FROM keys WHERE is_default=1 AND identity_id=?"),
  ("Identity.set_default_key", "UPDATE keys SET is_default=1 WHERE key_name=?"),
  ("Identity.default_key", "SELECT id, key_name, key_bits, is_default FROM keys WHERE is_default=1 AND identity_id=?"),
  ("KeychainSqlite3.initialize", "INSERT INTO tpmInfo (tpm_locator) VALUES (?)"),
  ("KeychainSqlite3.__init__", "SELECT tpm_locator FROM tpmInfo"),
  ("KeychainSqlite3.__iter__", "SELECT identity FROM identities"),
  ("KeychainSqlite3.__len__", "SELECT count(*) FROM identities"),
  ("KeychainSqlite3.__getitem__", "SELECT id, identity, is_default FROM identities WHERE identity=?"),
  ("KeychainSqlite3.has_default_identity", "SELECT id FROM identities WHERE is_default=1"),
  ("KeychainSqlite3.set_default_identity", "UPDATE identities SET is_default=1 WHERE identity=?"),
  ("KeychainSqlite3.default_identity", "SELECT id, identity, is_default FROM identities WHERE is_default=1"),
  ("KeychainSqlite3.new_identity", "INSERT INTO identities (identity) VALUES (?)"),
  ("KeychainSqlite3.touch_identity", "INSERT INTO identities (identity) VALUES (?)"),
  ("KeychainSqlite3.del_identity", "DELETE FROM identities WHERE identity=?"),
  ("KeychainSqlite3.del_key", "DELETE FROM certificates WHERE key_id=?"),
  ("KeychainSqlite3.del_key", "DELETE FROM keys WHERE key_name=?"),
  ("KeychainSqlite3.del_cert", "DELETE FROM certificates WHERE certificate_name=?"),
  ("KeychainSqlite3.new_key", "INSERT INTO keys (identity_id, key_name, key_bits) VALUES (?, ?, ?)"),
  ("KeychainSqlite3.new_key", "INSERT INTO certificates (key_id, certificate_name, certificate_data)VALUES ((SELECT id FROM keys WHERE key_name=?), ?, ?)"),
  ("KeychainSqlite3.import_cert", "INSERT INTO certificates (key_id, certificate_name, certificate_data)VALUES ((SELECT id FROM keys WHERE key_name=?), ?, ?)")
]


theorem statements_as_modelled : Gen.C15.statements = expectedStatements := by rfl

/-! ## default_unique -/

/-- specification: at most one default row per scope -/
def AtMostOneDefault {ν : Type} (sc : Bool) (t : Table ν) : Prop :=
  ∀ a ∈ t, ∀ b ∈ t, a.dflt = true → b.dflt = true → sameScope sc a.owner b.owner = true → a = b

theorem pairwise_mem {α : Type} {R : α → α → Prop} {l : List α} (h : l.Pairwise R) {a b : α}
    (ha : a ∈ l) (hb : b ∈ l) (hne : a ≠ b) : R a b ∨ R b a := by
  induction l with
  | nil => cases ha
  | cons x r ih =>
    rw [List.pairwise_cons] at h
    cases ha with
    | head => cases hb with
      | head => exact absurd rfl hne
      | tail _ hb => exact Or.inl (h.1 _ hb)
    | tail _ ha => cases hb with
      | head => exact Or.inr (h.1 _ ha)
      | tail _ hb => exact ih h.2 ha hb

theorem atMostOne_of_defU {ν : Type} {sc : Bool} {t : Table ν} (h : DefU sc t) : AtMostOneDefault sc t := by
  intro a ha b hb hda hdb hs
  apply Classical.byContradiction
  intro hne
  rcases pairwise_mem h ha hb hne with h1 | h1
  · exact h1 ⟨hda, hdb, hs⟩
  · exact h1 ⟨hdb, hda, by rw [sameScope_comm]; exact hs⟩

/-- **default_unique.** After any history (with any injected storage failures) there is at most one default
    identity, at most one default key per identity and at most one default certificate per key - in what the
    connection sees and in what is committed. -/
theorem default_unique (ops : List (Op × Option Nat)) :
    let s := run Sys.init ops
    (AtMostOneDefault false s.cur.ids.rows ∧ AtMostOneDefault true s.cur.keys.rows ∧
      AtMostOneDefault true s.cur.certs.rows) ∧
    (AtMostOneDefault false s.com.ids.rows ∧ AtMostOneDefault true s.com.keys.rows ∧
      AtMostOneDefault true s.com.certs.rows) := by
  have h := sysInv_run ops
  exact ⟨⟨atMostOne_of_defU h.cur.ids.defu, atMostOne_of_defU h.cur.keys.defu, atMostOne_of_defU h.cur.certs.defu⟩,
    ⟨atMostOne_of_defU h.com.ids.defu, atMostOne_of_defU h.com.keys.defu, atMostOne_of_defU h.com.certs.defu⟩⟩

/-! ## default_exists -/

/-- specification: every populated scope either has a default row or is recorded (ghost `lost`) as a scope
    whose default row was deleted and that has had no default since -/
def DefaultUnlessDeleted {ν : Type} (sc : Bool) (T : Tab ν) : Prop :=
  ∀ r ∈ T.rows, (∃ d ∈ T.rows, d.dflt = true ∧ sameScope sc r.owner d.owner = true) ∨ scopeKey sc r.owner ∈ T.lost

theorem defaultUnlessDeleted_of_inv {ν : Type} [DecidableEq ν] {sc : Bool} {T : Tab ν} (h : TabInv sc T) :
    DefaultUnlessDeleted sc T := by
  intro r hr
  cases hx : hasDefault sc r.owner T.rows
  · exact Or.inr (h.lost r hr hx)
  · exact Or.inl (hasDefault_iff.mp hx)

/-- **default_exists.** After any history (with any injected storage failures): a keychain with identities
    has a default identity, an identity with keys has a default key, a key with certificates has a default
    certificate - unless that scope's default was deleted and none has been set or inserted since. -/
theorem default_exists (ops : List (Op × Option Nat)) :
    let s := run Sys.init ops
    DefaultUnlessDeleted false s.cur.ids ∧ DefaultUnlessDeleted true s.cur.keys ∧
      DefaultUnlessDeleted true s.cur.certs := by
  have h := sysInv_run ops
  exact ⟨defaultUnlessDeleted_of_inv h.cur.ids, defaultUnlessDeleted_of_inv h.cur.keys,
    defaultUnlessDeleted_of_inv h.cur.certs⟩

/-- what the ghost means: every table write of the model is `Tab.apply` (INSERT / UPDATE) or `Tab.delete`;
    the first never adds a scope to `lost` and drops those that have a default again, the second adds a scope
    only when it deletes a default row of that scope. -/
theorem lost_only_by_deleting_default {ν : Type} [DecidableEq ν] (sc : Bool) (T : Tab ν) (k : Nat) :
    (∀ f, k ∈ (T.apply sc f).lost → k ∈ T.lost ∧ hasDefault sc k (f T.rows) = false) ∧
    (∀ p, k ∈ (T.delete sc p).lost →
      (k ∈ T.lost ∨ ∃ d ∈ T.rows, p d = true ∧ d.dflt = true ∧ scopeKey sc d.owner = k) ∧
      hasDefault sc k (T.rows.filter fun x => !p x) = false) := by
  refine ⟨fun f h => ⟨lost_apply f h, ?_⟩, fun p h => ⟨lost_delete p h, ?_⟩⟩
  · simp only [Tab.apply, List.mem_filter] at h
    simpa using h.2
  · simp only [Tab.delete, List.mem_filter] at h
    simpa using h.2

/-! ## views_agree -/

/-- specification of a consistent mapping view: `iter` has no repetitions, `len` is its length, and
    lookup succeeds exactly on the iterated names and returns the entry of that name -/
structure ConsistentView {κ ρ : Type} (len : Nat) (iter : List κ) (get : κ → Option ρ) (nameOf : ρ → κ) : Prop where
  len_eq : len = iter.length
  nodup : iter.Nodup
  mem_iff : ∀ x, x ∈ iter ↔ (get x).isSome = true
  get_name : ∀ x r, get x = some r → nameOf r = x

theorem find_view {ν : Type} [DecidableEq ν] {t : Table ν} (hn : NamesU t) (q : Row ν → Bool) :
    ConsistentView (t.filter q).length ((t.filter q).map (·.name))
      (fun x => t.find? fun r => r.name = x && q r) (·.name) := by
  refine ⟨by simp, ?_, fun x => ?_, fun x r h => ?_⟩
  · have := (namesU_iff _).mp (namesU_filter q hn)
    exact this
  · simp only [List.mem_map, List.mem_filter, List.find?_isSome, Bool.and_eq_true, decide_eq_true_eq]
    constructor
    · rintro ⟨r, ⟨hr, hq⟩, rfl⟩; exact ⟨r, hr, rfl, hq⟩
    · rintro ⟨r, hr, rfl, hq⟩; exact ⟨r, ⟨hr, hq⟩, rfl⟩
  · have := List.find?_some h
    simp only [Bool.and_eq_true, decide_eq_true_eq] at this
    exact this.1

/-- **views_agree.** After any history the three kinds of view are consistent mappings: the keychain over
    identities, every identity (row id `o`) over its keys, every key (row id `o`) over its certificates -
    `len` = number of iterated names, no name iterated twice, `x in v` ⇔ `x` iterated ⇔ `v[x]` defined, and
    `v[x]` is the entry named `x` owned by `o`.  Views of different owners are disjoint. -/
theorem views_agree (ops : List (Op × Option Nat)) :
    let d := (run Sys.init ops).cur
    ConsistentView (idLen d) (idIter d) (idRow? d) (·.name) ∧
    (∀ o, ConsistentView (keyLen d o) (keyIter d o) (keyRow? d o) (·.name) ∧
        ∀ k r, keyRow? d o k = some r → r.owner = o) ∧
    (∀ o, ConsistentView (certLen d o) (certIter d o) (certRow? d o) (·.name) ∧
        ∀ c r, certRow? d o c = some r → r.owner = o) ∧
    (∀ o o' k, k ∈ keyIter d o → k ∈ keyIter d o' → o = o') ∧
    (∀ o o' c, c ∈ certIter d o → c ∈ certIter d o' → o = o') := by
  intro d
  have h := (sysInv_run ops).cur
  refine ⟨?_, fun o => ⟨?_, fun k r hr => ?_⟩, fun o => ⟨?_, fun c r hr => ?_⟩, ?_, ?_⟩
  · have := find_view h.ids.names (fun _ => true)
    have hf : d.ids.rows.filter (fun _ => true) = d.ids.rows := List.filter_eq_self.mpr (fun _ _ => rfl)
    simp only [Bool.and_true] at this
    rw [hf] at this
    exact this
  · exact find_view h.keys.names (fun r => r.owner == o)
  · have := List.find?_some hr
    simp only [Bool.and_eq_true, beq_iff_eq] at this
    exact this.2
  · exact find_view h.certs.names (fun r => r.owner == o)
  · have := List.find?_some hr
    simp only [Bool.and_eq_true, beq_iff_eq] at this
    exact this.2
  · intro o o' k h1 h2
    simp only [keyIter, List.mem_map, List.mem_filter, beq_iff_eq] at h1 h2
    obtain ⟨r1, ⟨hr1, ho1⟩, hn1⟩ := h1
    obtain ⟨r2, ⟨hr2, ho2⟩, hn2⟩ := h2
    have := eq_of_name_eq h.keys.names hr1 hr2 (hn1.trans hn2.symm)
    subst this; exact ho1.symm.trans ho2
  · intro o o' c h1 h2
    simp only [certIter, List.mem_map, List.mem_filter, beq_iff_eq] at h1 h2
    obtain ⟨r1, ⟨hr1, ho1⟩, hn1⟩ := h1
    obtain ⟨r2, ⟨hr2, ho2⟩, hn2⟩ := h2
    have := eq_of_name_eq h.certs.names hr1 hr2 (hn1.trans hn2.symm)
    subst this; exact ho1.symm.trans ho2

end Ndn.C15
