import NdnGen.TlvModelFields
import NdnProofs.Props.TlvVarGen
import NdnProofs.Lemmas.Codec
/-!
  The decoding side of the leaf field classes of `src/ndn/encoding/tlv_model.py`: `UintField.parse_from`,
  `BoolField.parse_from`, `BytesField.parse_from` (bytes and text), TRANSLATED from the source text on every run
  (`harness/py2lean.py` -> `lean/NdnGen/TlvModelFields.lean`), are equal for ALL wires, offsets and declared Lengths to
  what the generic decoder model does with a leaf element (`Codec.leafCheck` and `Codec.parseValue`).  (The encoding
  side is `Props/TlvModelGen.lean`; kept apart so that the decoder properties do not depend on the encoder methods.)
-/
set_option linter.unusedSimpArgs false
set_option linter.unusedVariables false
namespace Ndn.TlvModelGen
open Ndn Ndn.Py Ndn.TlvVarGen Ndn.Codec

/-- every `parse_from` of UintField / BoolField / BytesField asked for was inside the translated subset -/
theorem parse_translated :
    Gen.TlvModelFields.UintField_parse_from_translated = true ∧ Gen.TlvModelFields.BoolField_parse_from_translated = true ∧
    Gen.TlvModelFields.BytesField_parse_from_bytes_translated = true ∧
    Gen.TlvModelFields.BytesField_parse_from_str_translated = true := by decide

theorem unpackFrom_one (n : Nat) (hn : 0 < n) (buf : Bytes) (off : Nat) (hoff : off < 2 ^ 63) :
    unpackFrom [n] buf (off : Int)
      = if (pySlice buf off (off + n)).length = n then .ok [((Ndn.beVal (pySlice buf off (off + n)) : Nat) : Int)]
        else .error .structError := by
  unfold unpackFrom
  have hs : [n].sum = n := by simp
  rw [hs]
  have hl : (pySlice buf off (off + n)).length = min (off + n) buf.length - off := by
    simp [pySlice, List.length_drop, List.length_take]
  have c1 : ¬ ((off : Int) < -9223372036854775808 ∨ 9223372036854775807 < (off : Int)) := by omega
  have c2 : ¬ ((off : Int) < 0 ∧ (off : Int) + ((buf.length : Nat) : Int) < 0) := by omega
  have c3 : ¬ ((off : Int) < 0) := by omega
  rw [if_neg c1]
  simp only []
  rw [if_neg c2, if_neg c3]
  by_cases h : off + n ≤ buf.length
  · have c4 : ¬ (((buf.length : Nat) : Int) - (off : Int) < ((n : Nat) : Int)) := by omega
    rw [if_neg c4, if_pos (by omega)]
    simp only [unpackFields, Int.toNat_natCast]
    have : List.take n (List.drop off buf) = pySlice buf off (off + n) := by
      simp [pySlice, List.drop_take]
    rw [this]; rfl
  · have c4 : (((buf.length : Nat) : Int) - (off : Int) < ((n : Nat) : Int)) := by omega
    rw [if_pos c4, if_neg (by omega)]

def uintOf : Value → Except PyErr Int
  | .uint n => .ok ((n : Nat) : Int)
  | _ => .error .other

/-- **UintField.parse_from**, every wire, offset and declared Length: the translated source is `Codec.leafCheck` followed by
    `Codec.parseValue` for a uint field: Lengths 1/2/4/8 are read big-endian (`struct.error` when the wire is shorter),
    every other Length is `ValueError`. -/
theorem uint_parse_from_eq (t : Nat) (fl : Option Nat) (fuel : Nat) (elem : Bytes) (m : Dict) (wire : Bytes)
    (off len btl : Nat) (hoff : off < 2 ^ 63) :
    Gen.TlvModelFields.UintField_parse_from m wire off len btl
      = (leafCheck (.uint t fl) len (pySlice wire off (off + len)) >>= fun _ =>
          parseValue (fuel + 1) (.uint t fl) (pySlice wire off (off + len)) elem >>= uintOf) := by
  simp only [Gen.TlvModelFields.UintField_parse_from, leafCheck, parseValue]
  by_cases h : len = 1 ∨ len = 2 ∨ len = 4 ∨ len = 8
  · rw [if_pos h]
    rcases h with h | h | h | h <;> subst h
    all_goals
      simp (disch := omega) only [if_pos, if_neg]
      first
        | rw [unpackFrom_one 1 (by omega) wire off hoff]
        | rw [unpackFrom_one 2 (by omega) wire off hoff]
        | rw [unpackFrom_one 4 (by omega) wire off hoff]
        | rw [unpackFrom_one 8 (by omega) wire off hoff]
      split <;> rfl
  · rw [if_neg h]
    simp (disch := omega) only [if_pos, if_neg]
    rfl


/-- **BoolField.parse_from** is `True`, whatever the bytes: `Codec.parseValue` for a bool field is `.bool`. -/
theorem bool_parse_from_eq (t : Nat) (fuel : Nat) (body elem : Bytes) (m : Dict) (wire : Bytes) (off len btl : Int) :
    Gen.TlvModelFields.BoolField_parse_from m wire off len btl = .ok true ∧
    parseValue (fuel + 1) (.bool t) body elem = .ok .bool := ⟨rfl, rfl⟩


/-- **BytesField.parse_from**, `is_string = False`: the Value bytes (cut at the end of the wire), as `Codec.parseValue`. -/
theorem bytes_parse_from_eq (t : Nat) (fuel : Nat) (elem : Bytes) (m : Dict) (wire : Bytes) (off len btl : Nat) :
    (Gen.TlvModelFields.BytesField_parse_from_bytes m wire off len btl).map Value.bytes
      = parseValue (fuel + 1) (.bytes t false) (pySlice wire off (off + len)) elem := by
  simp only [Gen.TlvModelFields.BytesField_parse_from_bytes, parseValue]
  rw [slice_nat wire off (off + len) _ _ rfl (by omega)]
  rfl

/-- the `UnicodeDecodeError` of `bytes.decode` is a `ValueError`, which is how the codec model names it -/
def asValueError : PyErr → PyErr
  | .unicodeError => .valueError
  | e => e

/-- **BytesField.parse_from**, `is_string = True`: the text whose UTF-8 encoding the Value bytes are, `ValueError`
    (`UnicodeDecodeError`) when they are not valid UTF-8 - `Codec.parseValue` for a text field. -/
theorem str_parse_from_eq (t : Nat) (fuel : Nat) (elem : Bytes) (m : Dict) (wire : Bytes) (off len btl : Nat) :
    ((Gen.TlvModelFields.BytesField_parse_from_str m wire off len btl).map fun s => Value.bytes s.utf8).mapError asValueError
      = parseValue (fuel + 1) (.bytes t true) (pySlice wire off (off + len)) elem := by
  simp only [Gen.TlvModelFields.BytesField_parse_from_str, parseValue]
  rw [slice_nat wire off (off + len) _ _ rfl (by omega)]
  unfold bytesDecodeUtf8
  by_cases h : utf8Valid (pySlice wire off (off + len)) = true
  · simp only [h, dite_true, if_true]; rfl
  · simp only [h, dite_false, if_false]; rfl

/-! ### the translated methods run -/
example : Gen.TlvModelFields.UintField_parse_from [] [9, 1, 44] 1 2 0 = .ok 300 := by decide +kernel
example : Gen.TlvModelFields.UintField_parse_from [] [9, 1, 44] 0 3 0 = .error .valueError := by decide +kernel
example : Gen.TlvModelFields.BytesField_parse_from_bytes [] [9, 1, 44] 1 5 0 = .ok [1, 44] := by decide +kernel

end Ndn.TlvModelGen
