import NdnProofs.Lemmas.NameToStr
import NdnProofs.Lemmas.NameOrder
import NdnProofs.Lemmas.NameText
/-!
# C09 — name representations (URI text, component list, wire) are mutually consistent;
#        prefix test; canonical order

Theorems about the model of `Component.py` / `Name.py` (`NdnModel/Name.lean`), for **every** name:
any number of components, every type 1..65535, arbitrary value bytes.

Specification vocabulary (does not mention the implementation):
* an abstract name is a list of `(type, value)` pairs (`AName`); `Valid` says types are in 1..65535
  (values shorter than 2^64 bytes); the library's representation of the abstract component `(t, v)`
  is the shortest-form TLV `tlv t v` (`rep`), which is what `Component.from_bytes` builds;
* `CanonNumber` — a typed-number component (segment, byte offset, version, timestamp, sequence
  number) carries a minimal-width 1/2/4/8-byte number;
* `compLt` / `nameLt'` — NDN canonical order: type, then length, then value bytes; names
  component-wise, a proper prefix first.
-/
namespace Ndn.C09
open Ndn Ndn.Comp

/-- an abstract component: (type, value) -/
abbrev AComp := Nat × Bytes
/-- an abstract name -/
abbrev AName := List AComp

def ValidComp (p : AComp) : Prop := 1 ≤ p.1 ∧ p.1 ≤ 65535 ∧ p.2.length < 2^64
def Valid (n : AName) : Prop := ∀ p ∈ n, ValidComp p

/-- the library's representation of an abstract component / name -/
def repC (p : AComp) : Bytes := tlv p.1 p.2
def rep (n : AName) : List Bytes := n.map repC

theorem rep_wf (n : AName) (h : Valid n) : ∀ c ∈ rep n, WfComp c := by
  intro c hc
  simp only [rep, List.mem_map] at hc
  obtain ⟨p, hp, rfl⟩ := hc
  obtain ⟨a, b, c⟩ := h p hp
  exact ⟨p.1, p.2, a, b, c, rfl⟩

/-- `rep` is what `Component.from_bytes` builds, and `get_type` / `get_value` read the pair back. -/
theorem getType_getValue (p : AComp) (h : ValidComp p) :
    fromBytes p.2 p.1 = .ok (repC p) ∧ getType (repC p) = .ok p.1 ∧ getValue (repC p) = .ok p.2 :=
  ⟨fromBytes_ok p.1 p.2 h.1 h.2.1, getType_tlv p.1 p.2 (by have := h.2.1; omega),
    getValue_tlv p.1 p.2 (by have := h.2.1; omega) h.2.2⟩

/-! ## 1. wire ↔ component list -/

/-- **decode_encode_name.** Decoding the wire encoding of any name gives the same list of components and
    consumes exactly the encoding. -/
theorem decode_encode_name (n : AName) (h : Valid n) (hl : (rep n).flatten.length < 2^64) :
    Name.decode (Name.encode (rep n)) = .ok (rep n, (Name.encode (rep n)).length) :=
  decode_encode (rep n) (rep_wf n h) hl

theorem normalize_wire (n : AName) (h : Valid n) (hl : (rep n).flatten.length < 2^64) :
    Name.normalize (.wire (Name.encode (rep n))) = .ok (rep n) := by
  simp [Name.normalize, decode_encode_name n h hl, bind, Except.bind, pure, Except.pure]

example : Name.decode (Name.encode (rep [(8, [97]), (8, []), (65535, [0, 255])])) =
    .ok ([[8, 1, 97], [8, 0], [253, 255, 255, 2, 0, 255]], 13) := by decide

/-- **decode_accepts_exact.** For EVERY byte string: when `Name.decode` accepts, the buffer starts with Type 7 and a
    Length that lies inside the buffer, the components returned - joined - are exactly the `Length` bytes after the
    header (no component is cut short, none runs past the declared Length, nothing is left over) and the count of bytes
    consumed is header + Length.  So the component list and the wire say the same thing whenever the wire is accepted. -/
theorem decode_accepts_exact (buf : Bytes) (cs : List Bytes) (used : Nat) (h : Name.decode buf = .ok (cs, used)) :
    ∃ st length sl, parseTlNum buf 0 = .ok (7, st) ∧ parseTlNum buf st = .ok (length, sl) ∧
      used = st + sl + length ∧ used ≤ buf.length ∧ cs.flatten = pySlice buf (st + sl) used :=
  decode_ok_exact h

/-- **decode_overrun_rejected.** A Name TLV whose declared Length `L` ends strictly inside one of its components -
    after any number of whole components, whatever bytes follow, whether or not the component itself lies inside the
    buffer - is rejected with `IndexError` by `Name.decode`, and so by `Name.normalize` of that wire (the repaired
    behaviour: the component is no longer accepted with a slice cut at the end of the buffer). -/
theorem decode_overrun_rejected (n : AName) (p : AComp) (post : Bytes) (L : Nat) (h : Valid n) (hp : ValidComp p)
    (h1 : (rep n).flatten.length < L) (h2 : L < (rep n).flatten.length + (repC p).length) (hL : L < 2^64) :
    Name.decode (writeTlNum Name.TYPE_NAME ++ writeTlNum L ++ (rep n).flatten ++ (repC p ++ post)) = .error .indexError ∧
    Name.normalize (.wire (writeTlNum Name.TYPE_NAME ++ writeTlNum L ++ (rep n).flatten ++ (repC p ++ post)))
      = .error .indexError := by
  have hd := decode_overrun (rep n) (repC p) post (rep_wf n h) ⟨p.1, p.2, hp.1, hp.2.1, hp.2.2, rfl⟩ L h1 h2 hL
  exact ⟨hd, by simp only [Name.normalize, hd]; rfl⟩

/-- Length 3, one component of 4 bytes lying wholly inside the buffer, then another component: `IndexError` -/
example : Name.decode [7, 3, 8, 2, 0x61, 0x62, 8, 0] = .error .indexError := by decide
/-- the same component cut by the end of the buffer -/
example : Name.decode [7, 3, 8, 5, 0x61] = .error .indexError := by decide

/-! ## 2. prefix test -/

/-- **isPrefix_iff.** `is_prefix` is exactly the list-prefix relation on component lists. -/
theorem isPrefix_iff (a b : List Bytes) : Name.isPrefix a b = true ↔ a <+: b := by
  unfold Name.isPrefix
  rw [List.prefix_iff_eq_take]
  simp only [Bool.and_eq_true, decide_eq_true_eq, beq_iff_eq]
  constructor
  · exact fun h => h.2
  · intro h
    refine ⟨?_, h⟩
    have := congrArg List.length h
    simp at this; omega

theorem repC_inj (p q : AComp) (hp : ValidComp p) (hq : ValidComp q) (h : repC p = repC q) : p = q := by
  obtain ⟨a, b⟩ := tlv_inj p.1 q.1 p.2 q.2 (by have := hp.2.1; omega) (by have := hq.2.1; omega) hp.2.2 hq.2.2 h
  exact Prod.ext a b

/-- on library representations `is_prefix` agrees with component-wise equality of (type, value) -/
theorem isPrefix_iff_componentwise (a b : AName) (ha : Valid a) (hb : Valid b) :
    Name.isPrefix (rep a) (rep b) = true ↔ a <+: b := by
  rw [isPrefix_iff]
  constructor
  · intro h
    induction a generalizing b with
    | nil => exact List.nil_prefix
    | cons p a ih =>
      cases b with
      | nil => simp [rep] at h
      | cons q b =>
        simp only [rep, List.map_cons, List.cons_prefix_cons] at h
        have e := repC_inj p q (ha p (by simp)) (hb q (by simp)) h.1
        subst e
        rw [List.cons_prefix_cons]
        exact ⟨rfl, ih b (fun x hx => ha x (by simp [hx])) (fun x hx => hb x (by simp [hx])) h.2⟩
  · intro ⟨t, ht⟩
    exact ⟨rep t, by rw [← ht]; simp [rep]⟩

example : Name.isPrefix (rep [(8, [97])]) (rep [(8, [97]), (8, [])]) = true
    ∧ Name.isPrefix (rep [(8, [97]), (8, [])]) (rep [(8, [97])]) = false := by decide

/-! ## 3. escaping and the canonical URI -/

/-- **escape/unescape round trip** on arbitrary bytes (each of the 256 byte values is a case of the
    proof): what `to_str`'s escaping prints, `from_str`'s decoding loop reads back. -/
theorem unescape_escape (v : Bytes) : unescape (escBytes v) = some v := unescape_escBytes v

/-- **fromStr_toCanonicalUri.** For every component with type in 1..65535 and any value bytes,
    `from_str (to_canonical_uri c) = c`. -/
theorem fromStr_toCanonicalUri (p : AComp) (h : ValidComp p) :
    (toCanonicalUri (repC p) >>= fromStr) = .ok (repC p) := by
  obtain ⟨u, h1, _, h3, _⟩ := canonicalUri_spec p.1 p.2 h.1 h.2.1 h.2.2
  simp only [repC, h1, bind, Except.bind, h3]

example : toCanonicalUri (repC (300, [0x2f, 0x25, 0x3d, 0x7e, 0xff])) = .ok "300=%2F%25%3D~%FF".toList := by
  decide

/-- **escape_then_fromStr.** Any text component (a `str` element of a `NonStrictName`, or a piece of a
    name URI between slashes) without `%` and `=` - which `escape_str` passes through as URI syntax -
    becomes the generic component holding exactly its UTF-8 bytes; in particular `/`-free text needs
    no escaping by the caller. -/
theorem escape_then_fromStr (s : Str) (h : ∀ c ∈ s, c ≠ '%' ∧ c ≠ '=') :
    fromStr (escapeStr s) = .ok (tlv 8 (s.flatMap String.utf8EncodeChar)) :=
  fromStr_escapeStr s h

example : fromStr (escapeStr "a é/".toList) = .ok [8, 5, 0x61, 0x20, 0xc3, 0xa9, 0x2f] := by decide

/-! ## 4. the convention URI (`to_str`) -/

/-- **fromStr_toStr.** `from_str (to_str c) = c` whenever a typed-number component carries a
    canonically encoded number (no hypothesis on other types; digests of any length included). -/
theorem fromStr_toStr (p : AComp) (h : ValidComp p) (hc : CanonNumber p.1 p.2) :
    (toStr (repC p) >>= fromStr) = .ok (repC p) := by
  obtain ⟨u, h1, _, h3, _⟩ := toStr_spec p.1 p.2 h.1 h.2.1 h.2.2 hc
  simp only [repC, h1, bind, Except.bind, h3]

/-- why the hypothesis is there: `32 02 00 01` (segment, two-byte 1) prints as `seg=1` and reads back
    as `32 01 01` -/
example : toStr [0x32, 2, 0, 1] = .ok "seg=1".toList ∧ fromStr "seg=1".toList = .ok [0x32, 1, 1] := by
  decide
example : CanonNumber 50 [1] ∧ ¬ CanonNumber 50 [0, 1] := by
  refine ⟨fun _ => ⟨1, by decide, by decide⟩, fun h => ?_⟩
  obtain ⟨n, hn, e⟩ := h (Or.inl rfl)
  unfold packUint at e
  repeat' split at e
  all_goals simp [be1, be2, be4, be8] at e
  have := congrArg UInt8.toNat e.1
  have := congrArg UInt8.toNat e.2
  simp [UInt8.toNat_ofNat'] at *
  omega

/-- the number shorthands read as the minimal-width number, for every `n < 2^64` -/
theorem fromStr_shorthand_number (n : Nat) (hn : n < 2^64) :
    fromStr ("seg=".toList ++ toDec n) = .ok (tlv 50 (packUint n)) ∧
    fromStr ("off=".toList ++ toDec n) = .ok (tlv 52 (packUint n)) ∧
    fromStr ("v=".toList ++ toDec n) = .ok (tlv 54 (packUint n)) ∧
    fromStr ("t=".toList ++ toDec n) = .ok (tlv 56 (packUint n)) ∧
    fromStr ("seq=".toList ++ toDec n) = .ok (tlv 58 (packUint n)) := by
  refine ⟨?_, ?_, ?_, ?_, ?_⟩
  · exact (fromStr_number "seg".toList 50 n hn (by decide) (by decide) (by decide) (by decide) (by decide)).trans
      (fromBytes_ok 50 _ (by omega) (by omega))
  · exact (fromStr_number "off".toList 52 n hn (by decide) (by decide) (by decide) (by decide) (by decide)).trans
      (fromBytes_ok 52 _ (by omega) (by omega))
  · exact (fromStr_number "v".toList 54 n hn (by decide) (by decide) (by decide) (by decide) (by decide)).trans
      (fromBytes_ok 54 _ (by omega) (by omega))
  · exact (fromStr_number "t".toList 56 n hn (by decide) (by decide) (by decide) (by decide) (by decide)).trans
      (fromBytes_ok 56 _ (by omega) (by omega))
  · exact (fromStr_number "seq".toList 58 n hn (by decide) (by decide) (by decide) (by decide) (by decide)).trans
      (fromBytes_ok 58 _ (by omega) (by omega))

/-- digest shorthands, for a value of any length -/
theorem fromStr_shorthand_digest (v : Bytes) (hv : v.length < 2^64) :
    toStr (tlv 1 v) = .ok ("sha256digest=".toList ++ pyHex v) ∧
    fromStr ("sha256digest=".toList ++ pyHex v) = .ok (tlv 1 v) ∧
    toStr (tlv 2 v) = .ok ("params-sha256=".toList ++ pyHex v) ∧
    fromStr ("params-sha256=".toList ++ pyHex v) = .ok (tlv 2 v) :=
  ⟨by rw [toStr_tlv 1 v (by omega) hv]; rfl,
   fromStr_digest "sha256digest".toList 1 v (Or.inl ⟨rfl, rfl⟩),
   by rw [toStr_tlv 2 v (by omega) hv]; rfl,
   fromStr_digest "params-sha256".toList 2 v (Or.inr ⟨rfl, rfl⟩)⟩

/-! ## 5. names as URI text; all input forms agree -/

def uriOf (g : Bytes → Except PyErr Str) (c : Bytes) : Str :=
  match g c with
  | .ok s => s
  | .error _ => []

theorem name_print (g : Bytes → Except PyErr Str) (n : List Bytes) (h : ∀ c ∈ n, ∃ u, g c = .ok u) :
    n.mapM g = .ok (n.map (uriOf g)) := by
  apply mapM_ok
  intro c hc
  obtain ⟨u, hu⟩ := h c hc
  simp [uriOf, hu]

/-- **name_fromStr_toCanonicalUri.** `Name.from_str (Name.to_canonical_uri n) = n` for every name
    (including the empty name, empty components anywhere, trailing empty components). -/
theorem name_fromStr_toCanonicalUri (n : AName) (h : Valid n) :
    (Name.toCanonicalUri (rep n) >>= Name.fromStr) = .ok (rep n) := by
  have hs : ∀ c ∈ rep n, ∃ u, toCanonicalUri c = .ok u ∧ (∀ ch ∈ u, inCharset ch = true ∧ ch ≠ '/') ∧
      fromStr u = .ok c ∧ (u = [] → c = [8, 0]) := by
    intro c hc
    simp only [rep, List.mem_map] at hc
    obtain ⟨p, hp, rfl⟩ := hc
    exact canonicalUri_spec p.1 p.2 (h p hp).1 (h p hp).2.1 (h p hp).2.2
  have hp := name_print toCanonicalUri (rep n) (fun c hc => (hs c hc).imp fun _ h => h.1)
  have hu : ∀ c ∈ rep n, toCanonicalUri c = .ok (uriOf toCanonicalUri c) := by
    intro c hc; obtain ⟨u, hu, _⟩ := hs c hc; simp [uriOf, hu]
  have := name_fromStr_nameUri (rep n) (uriOf toCanonicalUri)
    (fun c hc => by obtain ⟨u, h1, h2, _⟩ := hs c hc; simpa [uriOf, h1] using h2)
    (fun c hc => by obtain ⟨u, h1, _, h3, _⟩ := hs c hc; simpa [uriOf, h1] using h3)
    (fun c hc => by obtain ⟨u, h1, _, _, h4⟩ := hs c hc; simpa [uriOf, h1] using h4)
  simp only [Name.toCanonicalUri, hp, bind, Except.bind, pure, Except.pure]
  exact this

/-- **name_fromStr_toStr.** The same for the convention URI, when every typed-number component is
    canonically encoded. -/
theorem name_fromStr_toStr (n : AName) (h : Valid n) (hc : ∀ p ∈ n, CanonNumber p.1 p.2) :
    (Name.toStr (rep n) >>= Name.fromStr) = .ok (rep n) := by
  have hs : ∀ c ∈ rep n, ∃ u, toStr c = .ok u ∧ (∀ ch ∈ u, inCharset ch = true ∧ ch ≠ '/') ∧
      fromStr u = .ok c ∧ (u = [] → c = [8, 0]) := by
    intro c hcm
    simp only [rep, List.mem_map] at hcm
    obtain ⟨p, hp, rfl⟩ := hcm
    exact toStr_spec p.1 p.2 (h p hp).1 (h p hp).2.1 (h p hp).2.2 (hc p hp)
  have hp := name_print toStr (rep n) (fun c hc => (hs c hc).imp fun _ h => h.1)
  have := name_fromStr_nameUri (rep n) (uriOf toStr)
    (fun c hc => by obtain ⟨u, h1, h2, _⟩ := hs c hc; simpa [uriOf, h1] using h2)
    (fun c hc => by obtain ⟨u, h1, _, h3, _⟩ := hs c hc; simpa [uriOf, h1] using h3)
    (fun c hc => by obtain ⟨u, h1, _, _, h4⟩ := hs c hc; simpa [uriOf, h1] using h4)
  simp only [Name.toStr, hp, bind, Except.bind, pure, Except.pure]
  exact this

example : Name.toStr (rep [(8, [97]), (50, [5]), (8, [])]) = .ok "/a/seg=5//".toList
    ∧ Name.fromStr "/a/seg=5//".toList = .ok (rep [(8, [97]), (50, [5]), (8, [])]) := by decide

/-- **normalize_agree.** Every accepted input form of the same name normalises to the same components:
    its wire encoding, its canonical URI as a `str`, the list of its encoded components, the list of
    its components' canonical URIs, and any mixture of the last two. -/
theorem normalize_agree (n : AName) (h : Valid n) (hl : (rep n).flatten.length < 2^64)
    (pick : AComp → Bool) :
    Name.normalize (.wire (Name.encode (rep n))) = .ok (rep n) ∧
    ((Name.toCanonicalUri (rep n)) >>= fun u => Name.normalize (.str u)) = .ok (rep n) ∧
    Name.normalize (.list (n.map fun p =>
      if pick p then .inl (uriOf toCanonicalUri (repC p)) else .inr (repC p))) = .ok (rep n) := by
  refine ⟨normalize_wire n h hl, name_fromStr_toCanonicalUri n h, ?_⟩
  simp only [Name.normalize, rep]
  induction n with
  | nil => rfl
  | cons p n ih =>
    have hp := h p (by simp)
    obtain ⟨u, h1, h2, h3, _⟩ := canonicalUri_spec p.1 p.2 hp.1 hp.2.1 hp.2.2
    have ih' := ih (fun x hx => h x (by simp [hx])) (by
      have : (rep (p :: n)).flatten.length = (repC p).length + (rep n).flatten.length := by
        simp [rep]
      omega)
    rw [List.map_cons, List.mapM_cons, ih']
    by_cases hk : pick p
    · simp only [hk, if_true, uriOf, repC, h1]
      rw [escapeStr_id u (fun c hc => (h2 c hc).1), h3]
      rfl
    · simp only [hk, Bool.false_eq_true, if_false]
      rfl

/-! ## 6. canonical order -/

/-- **write_lex_mono.** For shortest-form TL numbers below 2^64, numeric order is byte order. -/
theorem write_lex_mono (a b : Nat) (ha : a < 2^64) (hb : b < 2^64) :
    bytesLt (writeTlNum a) (writeTlNum b) = true ↔ a < b := by
  rw [write_lex_mono' a b ha hb]; simp

/-- `bytesLt` (Python's `bytes <`) is the lexicographic order of the byte values -/
theorem bytesLt_iff_lex (x y : Bytes) : bytesLt x y = true ↔ x.map UInt8.toNat < y.map UInt8.toNat := by
  induction x generalizing y with
  | nil => cases y <;> simp [bytesLt]
  | cons a x ih =>
    cases y with
    | nil => simp [bytesLt]
    | cons b y =>
      simp only [bytesLt, List.map_cons, List.cons_lt_cons_iff, Bool.or_eq_true, decide_eq_true_eq,
        Bool.and_eq_true, beq_iff_eq, ih, UInt8.toNat_inj]

/-- NDN canonical order of components: type, then length, then value bytes -/
def compLt (p q : AComp) : Prop :=
  p.1 < q.1 ∨ (p.1 = q.1 ∧ (p.2.length < q.2.length ∨
    (p.2.length = q.2.length ∧ p.2.map UInt8.toNat < q.2.map UInt8.toNat)))

/-- NDN canonical order of names: first differing component decides; a proper prefix comes first -/
def nameLt' : AName → AName → Prop
  | [], [] => False
  | [], _ :: _ => True
  | _ :: _, [] => False
  | p :: ps, q :: qs => compLt p q ∨ (p = q ∧ nameLt' ps qs)

theorem repC_lt_append (p q : AComp) (hp : ValidComp p) (hq : ValidComp q) (r1 r2 : Bytes) :
    bytesLt (repC p ++ r1) (repC q ++ r2) = true ↔ compLt p q ∨ (p = q ∧ bytesLt r1 r2 = true) := by
  unfold repC compLt
  rw [tlv_lt_append p.1 q.1 p.2 q.2 r1 r2 (by have := hp.2.1; omega) (by have := hq.2.1; omega) hp.2.2 hq.2.2]
  obtain ⟨t1, v1⟩ := p
  obtain ⟨t2, v2⟩ := q
  simp only [Prod.mk.injEq]
  by_cases ht : t1 = t2
  · subst ht
    by_cases hl : v1.length = v2.length
    · by_cases hv : v1 = v2
      · subst hv
        have : ¬ (v1.map UInt8.toNat < v1.map UInt8.toNat) := List.lt_irrefl _
        simp [this]
      · simp only [hl, hv, if_true, if_false, bytesLt_iff_lex]
        simp
    · simp only [hl, if_true, if_false, decide_eq_true_eq]
      have : ¬ v1 = v2 := fun e => hl (by rw [e])
      simp [this]
  · simp only [ht, if_false, decide_eq_true_eq]
    simp

/-- **order_canonical (components).** Comparing two library-produced encoded components as bytes is
    NDN canonical order (type, then length, then value). -/
theorem order_canonical_component (p q : AComp) (hp : ValidComp p) (hq : ValidComp q) :
    bytesLt (repC p) (repC q) = true ↔ compLt p q := by
  have := repC_lt_append p q hp hq [] []
  simpa [bytesLt] using this

/-- **order_canonical (names, concatenated components).** Comparing the concatenated encoded
    components (the Name's value bytes) is NDN canonical order of names. -/
theorem order_canonical_name (a b : AName) (ha : Valid a) (hb : Valid b) :
    bytesLt (rep a).flatten (rep b).flatten = true ↔ nameLt' a b := by
  induction a generalizing b with
  | nil =>
    cases b with
    | nil => simp [rep, bytesLt, nameLt']
    | cons q b =>
      have : repC q ≠ [] := tlv_ne_nil _ _
      simp only [rep, List.map_nil, List.flatten_nil, List.map_cons, List.flatten_cons, nameLt', iff_true]
      cases hq : repC q ++ (List.map repC b).flatten with
      | nil => simp at hq; exact absurd hq.1 this
      | cons x xs => rfl
  | cons p a ih =>
    cases b with
    | nil =>
      have : repC p ≠ [] := tlv_ne_nil _ _
      simp only [rep, List.map_nil, List.flatten_nil, List.map_cons, List.flatten_cons, nameLt', iff_false]
      cases hq : repC p ++ (List.map repC a).flatten with
      | nil => simp at hq; exact absurd hq.1 this
      | cons x xs => simp [bytesLt]
    | cons q b =>
      simp only [rep, List.map_cons, List.flatten_cons, nameLt']
      rw [repC_lt_append p q (ha p (by simp)) (hb q (by simp))]
      have := ih b (fun x hx => ha x (by simp [hx])) (fun x hx => hb x (by simp [hx]))
      simp only [rep] at this
      rw [this]

/-- **order_canonical (names, as lists).** Python's comparison of two lists of encoded components is
    the same order. -/
theorem order_canonical_name_list (a b : AName) (ha : Valid a) (hb : Valid b) :
    nameLt (rep a) (rep b) = true ↔ nameLt' a b := by
  induction a generalizing b with
  | nil => cases b <;> simp [rep, nameLt, nameLt']
  | cons p a ih =>
    cases b with
    | nil => simp [rep, nameLt, nameLt']
    | cons q b =>
      have hp := ha p (by simp)
      have hq := hb q (by simp)
      have := ih b (fun x hx => ha x (by simp [hx])) (fun x hx => hb x (by simp [hx]))
      simp only [rep] at this
      simp only [rep, List.map_cons, nameLt, nameLt']
      by_cases e : repC p = repC q
      · have e' := repC_inj p q hp hq e
        subst e'
        simp only [if_true, this, true_and]
        have : ¬ compLt p p := by
          rw [← order_canonical_component p p hp hp, bytesLt_irrefl]; simp
        simp [this]
      · have : p ≠ q := fun e' => e (by rw [e'])
        simp only [e, if_false, order_canonical_component p q hp hq, this, false_and, or_false]

example : compLt (8, [255]) (8, [0, 0]) ∧ compLt (252, [9, 9]) (253, []) ∧ compLt (8, [1, 2]) (8, [1, 3])
    ∧ nameLt' [(8, [97])] [(8, [97]), (8, [])] := by
  refine ⟨by unfold compLt; decide, by unfold compLt; decide, by unfold compLt; decide, by simp [nameLt']⟩

/-! ## 7. slash rules of name URIs -/

/-- `""` and `"/"` are the empty name, which prints as `"/"`. -/
theorem uri_root : Name.fromStr [] = .ok [] ∧ Name.fromStr ['/'] = .ok [] ∧ Name.toStr [] = .ok ['/'] := by
  decide

/-- `"//"` is the name with one empty generic component, and prints back as `"//"`. -/
theorem uri_empty_component :
    Name.fromStr "//".toList = .ok [[8, 0]] ∧ Name.toStr [[8, 0]] = .ok "//".toList
    ∧ Name.fromStr "///".toList = .ok [[8, 0], [8, 0]] := by decide

/-- `"/a//"` is `a` followed by an empty component (a trailing empty component needs two slashes),
    and an empty component in the middle is kept. -/
theorem uri_trailing_empty_component :
    Name.fromStr "/a//".toList = .ok [[8, 1, 97], [8, 0]] ∧ Name.toStr [[8, 1, 97], [8, 0]] = .ok "/a//".toList
    ∧ Name.fromStr "/a//b".toList = .ok [[8, 1, 97], [8, 0], [8, 1, 98]] := by decide

/-- one trailing slash is ignored, for any text not already ending in a slash -/
theorem uri_trailing_slash_ignored (s : Str) (h : s.getLast? ≠ some '/') :
    Name.fromStr (s ++ ['/']) = Name.fromStr s := by
  rw [fromStr_eq_finish, fromStr_eq_finish]
  cases s with
  | nil => rfl
  | cons c r =>
    have hcat : ∀ x : Str, Name.stripTrail (x ++ ['/'], 0) = (x, 1) ∧ Name.stripTrail (x ++ ['/'], 1) = (x, 2) := by
      intro x; simp [Name.stripTrail]
    by_cases hc : c = '/'
    · subst hc
      have hr : r ≠ [] := by intro e; subst e; simp at h
      have hl : r.getLast? ≠ some '/' := by
        rw [List.getLast?_cons_of_ne_nil hr] at h; exact h
      have e1 : Name.stripLead ('/' :: r ++ ['/']) = (r ++ ['/'], 1) := rfl
      have e2 : Name.stripLead ('/' :: r) = (r, 1) := rfl
      rw [e1, e2, (hcat r).2]
      simp only [Name.stripTrail, hl, if_false]
      exact finish_count r 2 1 hr
    · rw [show c :: r ++ ['/'] = c :: (r ++ ['/']) from rfl, stripLead_ne c _ hc, stripLead_ne c r hc,
        show c :: (r ++ ['/']) = (c :: r) ++ ['/'] from rfl, (hcat (c :: r)).1]
      simp only [Name.stripTrail, h, if_false]
      exact finish_count (c :: r) 1 0 (by simp)

/-- the leading slash is optional, for any text that does not itself start with a slash -/
theorem uri_leading_slash_optional (s : Str) (h : s.head? ≠ some '/') :
    Name.fromStr ('/' :: s) = Name.fromStr s := by
  rw [fromStr_eq_finish, fromStr_eq_finish]
  have e1 : Name.stripLead ('/' :: s) = (s, 1) := rfl
  rw [e1]
  cases s with
  | nil => rfl
  | cons c r =>
    have hc : c ≠ '/' := by intro e; subst e; simp at h
    rw [stripLead_ne c r hc]
    unfold Name.stripTrail
    by_cases hl : (c :: r).getLast? = some '/'
    · simp only [hl, if_true]
      have hr : r ≠ [] := by intro e; subst e; simp at hl; exact hc hl
      have : (c :: r).dropLast ≠ [] := by
        cases r with
        | nil => exact absurd rfl hr
        | cons d r => simp [List.dropLast]
      exact finish_count _ 2 1 this
    · simp only [hl, if_false]
      exact finish_count _ 1 0 (by simp)

end Ndn.C09
