import NdnProofs.Lemmas.CodecRT
import NdnProofs.Lemmas.CodecReenc
import NdnProofs.Lemmas.ClassMerge
/-!
# C08 — TLV models encode to exact, minimal TLV and decode back to equal values

`Ndn.Codec` is a generic interpreter of TLV model classes (`List Schema`) and instances
(`List Value`): `encLenFields` = `TlvModel.encoded_length`, `encFields` = `TlvModel.encode`,
`parse` = `TlvModel.parse`.  Hypotheses: `wfTop fs` (decidable: legal `fixed_len`, Name fields of
type 7, pairwise distinct Type numbers inside each model, a MapField has a UintField/BytesField key
(what `MapField.__init__` accepts) and an integer / boolean / bytes / name / sub-model value whose Type
differs from the key's, no marker fields) and `fitsFs fs vs` (decidable "legal assignment": one value
per field, text is valid UTF-8, name components are single TLV elements, lists hold present values,
dicts hold present keys and values with pairwise different keys).  Everything is for **all**
schemas and values (structural induction over the schema/value trees and field lists).
The decoder side closes the loop: `parse_wf` — whatever `parse` accepts satisfies `fitsFs` (and 64-bit / wire-length
bounds), so `reencode_parses_back` / `reencode_succeeds` (decode ∘ encode ∘ decode = decode) need no hypothesis on
the value.
The last section is about the metaclass: how the field list of a class with base classes / `IncludeBase`
comes about (`Ndn.Codec.mergeFields`), for **all** class bodies and bases.
-/
namespace Ndn.C08
open Ndn Ndn.Codec

/-- **announced_length_exact.** The size announced by `encoded_length()` is the size of what
    `encode()` writes, for every model and value for which encoding succeeds. -/
theorem announced_length_exact (fs : List Schema) (vs : List Value) (b : Bytes)
    (hw : wfTop fs = true) (h : encFields fs vs = .ok b) : encLenFields fs vs = .ok b.length := by
  simp only [wfTop, Bool.and_eq_true] at hw
  exact encLenFields_enc fs vs b hw.1 h

/-- a byte string that is a sequence of complete TLV elements, each with Type and Length written by
    `write_tl_num` (shortest form, see `writeTlNum_shortest`) and a Value of exactly that Length -/
inductive TlvSeq : Bytes → Prop
  | nil : TlvSeq []
  | cons (t : Nat) (body rest : Bytes) : t < 2 ^ 64 → body.length < 2 ^ 64 → TlvSeq rest →
      TlvSeq (tlv t body ++ rest)

theorem TlvSeq.append : ∀ {a b : Bytes}, TlvSeq a → TlvSeq b → TlvSeq (a ++ b)
  | _, _, .nil, hb => hb
  | _, _, .cons t body rest ht hl hr, hb => by
    rw [List.append_assoc]; exact .cons t body _ ht hl (TlvSeq.append hr hb)

theorem TlvSeq.single {t : Nat} {body r : Bytes} (h : tlvE t body = .ok r) : TlvSeq r := by
  obtain ⟨rfl, ht, hb⟩ := tlvE_ok h
  simpa using TlvSeq.cons t body [] ht hb .nil

mutual
theorem enc_seq : ∀ (s : Schema) (v : Value) (b : Bytes), enc s v = .ok b → TlvSeq b
  | s, .none, b, h => by cases s <;> simp [enc] at h <;> subst h <;> exact .nil
  | .uint t fl, .uint v, b, h => by
    simp only [enc] at h; split at h
    · cases h
    · exact TlvSeq.single h
  | .bool t, .bool, b, h => by simp only [enc] at h; exact TlvSeq.single h
  | .bytes t s, .bytes x, b, h => by simp only [enc] at h; exact TlvSeq.single h
  | .name t, .name cs, b, h => by simp only [enc] at h; exact TlvSeq.single h
  | .model t fs ic, .model vs, b, h => by
    simp only [enc] at h
    obtain ⟨body, _, h2⟩ := bind_ok h
    exact TlvSeq.single h2
  | .repeated e, .list vs, b, h => by simp only [enc] at h; exact encList_seq e vs b h
  | .map k v, .map es, b, h => by simp only [enc] at h; exact encMap_seq k v es b h
  | .marker, .uint _, b, h | .marker, .bool, b, h | .marker, .bytes _, b, h | .marker, .name _, b, h
  | .marker, .model _, b, h | .marker, .list _, b, h | .marker, .map _, b, h => by
    simp [enc] at h; subst h; exact .nil
  | .uint _ _, .bool, _, h | .uint _ _, .bytes _, _, h | .uint _ _, .name _, _, h
  | .uint _ _, .model _, _, h | .uint _ _, .list _, _, h | .uint _ _, .map _, _, h => by simp [enc] at h
  | .bool _, .uint _, _, h | .bool _, .bytes _, _, h | .bool _, .name _, _, h
  | .bool _, .model _, _, h | .bool _, .list _, _, h | .bool _, .map _, _, h => by simp [enc] at h
  | .bytes _ _, .uint _, _, h | .bytes _ _, .bool, _, h | .bytes _ _, .name _, _, h
  | .bytes _ _, .model _, _, h | .bytes _ _, .list _, _, h | .bytes _ _, .map _, _, h => by simp [enc] at h
  | .name _, .uint _, _, h | .name _, .bool, _, h | .name _, .bytes _, _, h
  | .name _, .model _, _, h | .name _, .list _, _, h | .name _, .map _, _, h => by simp [enc] at h
  | .model _ _ _, .uint _, _, h | .model _ _ _, .bool, _, h | .model _ _ _, .bytes _, _, h
  | .model _ _ _, .name _, _, h | .model _ _ _, .list _, _, h | .model _ _ _, .map _, _, h => by simp [enc] at h
  | .repeated _, .uint _, _, h | .repeated _, .bool, _, h | .repeated _, .bytes _, _, h
  | .repeated _, .name _, _, h | .repeated _, .model _, _, h | .repeated _, .map _, _, h => by simp [enc] at h
  | .map _ _, .uint _, _, h | .map _ _, .bool, _, h | .map _ _, .bytes _, _, h
  | .map _ _, .name _, _, h | .map _ _, .model _, _, h | .map _ _, .list _, _, h => by simp [enc] at h
theorem encList_seq : ∀ (e : Schema) (vs : List Value) (b : Bytes), encList e vs = .ok b → TlvSeq b
  | _, [], b, h => by simp [encList] at h; subst h; exact .nil
  | e, v :: vs, b, h => by
    simp only [encList] at h
    obtain ⟨a, ha, h2⟩ := bind_ok h
    obtain ⟨c, hc, h3⟩ := bind_ok h2
    simp only [pure, Except.pure] at h3; cases h3
    exact (enc_seq e v a ha).append (encList_seq e vs c hc)
theorem encMap_seq : ∀ (k v : Schema) (es : List (Value × Value)) (b : Bytes),
    encMap k v es = .ok b → TlvSeq b
  | _, _, [], b, h => by simp [encMap] at h; subst h; exact .nil
  | k, v, (x, y) :: r, b, h => by
    simp only [encMap] at h
    obtain ⟨a, ha, h2⟩ := bind_ok h
    obtain ⟨c, hc, h3⟩ := bind_ok h2
    obtain ⟨d, hd, h4⟩ := bind_ok h3
    simp only [pure, Except.pure] at h4; cases h4
    exact ((enc_seq k x a ha).append (enc_seq v y c hc)).append (encMap_seq k v r d hd)
end

theorem encFields_seq : ∀ (fs : List Schema) (vs : List Value) (b : Bytes),
    encFields fs vs = .ok b → TlvSeq b
  | [], _, b, h => by simp [encFields] at h; subst h; exact .nil
  | _ :: _, [], b, h => by simp [encFields] at h; subst h; exact .nil
  | s :: ss, v :: vs, b, h => by
    simp only [encFields] at h
    obtain ⟨a, ha, h2⟩ := bind_ok h
    obtain ⟨c, hc, h3⟩ := bind_ok h2
    simp only [pure, Except.pure] at h3; cases h3
    exact (enc_seq s v a ha).append (encFields_seq ss vs c hc)

/-- **enc_wellformed.** Whatever any model (including repeated and map fields) encodes to is a
    sequence of complete, exactly-sized TLV elements with shortest-form Type and Length, the fields in
    declared order (`encFields (s :: ss) (v :: vs) = enc s v ++ encFields ss vs` by definition). -/
theorem enc_wellformed (fs : List Schema) (vs : List Value) (b : Bytes)
    (h : encFields fs vs = .ok b) : TlvSeq b := encFields_seq fs vs b h

theorem foldl_be_bound : ∀ (s : Bytes) (a : Nat),
    s.foldl (fun a b => a * 256 + b.toNat) a + 1 ≤ (a + 1) * 256 ^ s.length
  | [], a => by simp
  | b :: r, a => by
    have := foldl_be_bound r (a * 256 + b.toNat)
    have hb := b.toNat_lt
    simp only [List.foldl, List.length_cons, Nat.pow_succ]
    calc _ ≤ (a * 256 + b.toNat + 1) * 256 ^ r.length := this
      _ ≤ ((a + 1) * 256) * 256 ^ r.length := Nat.mul_le_mul_right _ (by omega)
      _ = (a + 1) * (256 ^ r.length * 256) := by rw [Nat.mul_assoc, Nat.mul_comm 256]

theorem unpackAt_lt {bs : Bytes} {a k x : Nat} (h : unpackAt bs a k = .ok x) : x < 256 ^ k := by
  unfold unpackAt at h; simp only [] at h; split at h
  · rename_i hl; cases h
    have := foldl_be_bound (pySlice bs a (a + k)) 0
    rw [hl] at this; simp only [beVal]; omega
  · cases h

/-- **writeTlNum_shortest.** No encoding that the decoder reads as the number `v` is shorter than the
    one `write_tl_num` produces. -/
theorem writeTlNum_shortest (bs : Bytes) (v n : Nat) (h : parseTlNum bs 0 = .ok (v, n)) :
    tlNumSize v ≤ n := by
  unfold parseTlNum at h
  cases hb : bs[0]? with
  | none => simp [hb] at h
  | some b =>
    simp only [hb] at h
    by_cases c1 : b.toNat ≤ 0xFC
    · simp only [c1, if_true] at h; cases h; simp [tlNumSize, c1]
    · simp only [c1, if_false] at h
      by_cases c2 : b.toNat = 0xFD
      · simp only [c2, if_true] at h
        obtain ⟨x, hx, h2⟩ := bind_ok h
        simp only [pure, Except.pure, Except.ok.injEq, Prod.mk.injEq] at h2
        obtain ⟨rfl, rfl⟩ := h2
        have := unpackAt_lt hx
        simp only [Nat.reducePow] at this
        unfold tlNumSize; repeat' split
        all_goals omega
      · simp only [c2, if_false] at h
        by_cases c3 : b.toNat = 0xFE
        · simp only [c3, if_true] at h
          obtain ⟨x, hx, h2⟩ := bind_ok h
          simp only [pure, Except.pure, Except.ok.injEq, Prod.mk.injEq] at h2
          obtain ⟨rfl, rfl⟩ := h2
          have := unpackAt_lt hx
          simp only [Nat.reducePow] at this
          unfold tlNumSize; repeat' split
          all_goals omega
        · simp only [c3, if_false] at h
          obtain ⟨x, _, h2⟩ := bind_ok h
          simp only [pure, Except.pure, Except.ok.injEq, Prod.mk.injEq] at h2
          obtain ⟨rfl, rfl⟩ := h2
          unfold tlNumSize; repeat' split
          all_goals omega

/-- **uint_smallest_width.** Without `fixed_len` an integer is written in the smallest of the legal
    widths 1, 2, 4, 8 that can hold it. -/
theorem uint_smallest_width (v : Nat) (hv : v < 2 ^ 64) :
    v < 256 ^ uintWidth none v ∧
    ∀ w, (w = 1 ∨ w = 2 ∨ w = 4 ∨ w = 8) → v < 256 ^ w → uintWidth none v ≤ w := by
  unfold uintWidth
  simp only []
  refine ⟨?_, ?_⟩
  · repeat' split
    all_goals (simp only [Nat.reducePow]; omega)
  · intro w hw hlt
    rcases hw with h | h | h | h <;> subst h <;> simp only [Nat.reducePow] at hlt <;> (repeat' split) <;> omega

/-- **parse_enc_roundtrip.** Decoding what a model encodes yields an equal model, for every schema
    satisfying `wfTop` — any nesting of integer, boolean, byte-string, text, name, sub-model, repeated
    and map fields — and every legal assignment.
    (`wfTop` excludes only marker pseudo-fields, which carry no value: the offsets they record are
    compared in the packet properties C01/C02.) -/
theorem parse_enc_roundtrip (fs : List Schema) (vs : List Value) (b : Bytes) (ic : Bool)
    (hw : wfTop fs = true) (hfit : fitsFs fs vs = true) (h : encFields fs vs = .ok b) :
    parse fs ic b = .ok vs := by
  simp only [wfTop, Bool.and_eq_true] at hw
  obtain ⟨items, hok, henc, hfold⟩ := rt_suffix [] fs vs b hw.1 (by simpa using hw.2) hfit h
  have := loop_items fs ic hw.1 hw.2 items (b.length + 1) 0 0 (fs.map initVal) (by simpa using hok)
    (by rw [henc]; omega)
  rw [henc] at this
  have hd := hfold [] rfl
  simp only [List.nil_append] at hd
  rw [parse, this, hd]

/-- the name this theorem had while MapField was not covered (kept for the packet properties that cite it) -/
theorem parse_enc_roundtrip_partial (fs : List Schema) (vs : List Value) (b : Bytes) (ic : Bool)
    (hw : wfTop fs = true) (hfit : fitsFs fs vs = true) (h : encFields fs vs = .ok b) :
    parse fs ic b = .ok vs := parse_enc_roundtrip fs vs b ic hw hfit h

/-- **unknown_noncritical_skipped.** The encoding splits into `items` (one element of a plain or
    repeated field, or the key element + value element of one map entry) such that
    (1) an unrecognised element whose Type is even (or any unrecognised Type when critical fields are
    ignored), inserted at *any* boundary between items — before, between (also inside a run of a repeated
    field or between two entries of a map) or after — leaves the decoded model unchanged, and
    (2) so does an element inserted between the key and the value of a map entry; there the decoder
    looks only for the value's Type, so *every* other even Type (recognised elsewhere or not) is skipped. -/
theorem unknown_noncritical_skipped (fs : List Schema) (vs : List Value) (b : Bytes) (ic : Bool)
    (hw : wfTop fs = true) (hfit : fitsFs fs vs = true) (h : encFields fs vs = .ok b) :
    ∃ items : List Item, encItems items = b ∧
      (∀ (l1 l2 : List Item) (t : Nat) (x : Bytes), items = l1 ++ l2 →
        t < 2 ^ 64 → x.length < 2 ^ 64 → t ∉ typs fs → (t % 2 = 0 ∨ ic = true) →
        parse fs ic (encItems l1 ++ tlv t x ++ encItems l2) = .ok vs) ∧
      (∀ (l1 l2 : List Item) (it : Item) (m : MapVal) (t : Nat) (x : Bytes), items = l1 ++ it :: l2 →
        it.mv = some m → t < 2 ^ 64 → x.length < 2 ^ 64 → t ≠ m.t → (t % 2 = 0 ∨ ic = true) →
        parse fs ic (encItems l1 ++ (tlv it.t it.body ++ tlv t x ++ tlv m.t m.body) ++ encItems l2) = .ok vs) := by
  simp only [wfTop, Bool.and_eq_true] at hw
  obtain ⟨items, hok, henc, hfold⟩ := rt_suffix [] fs vs b hw.1 (by simpa using hw.2) hfit h
  refine ⟨items, henc, ?_, ?_⟩
  · intro l1 l2 t x hsplit ht hx hnot hcrit
    subst hsplit
    obtain ⟨ok1, ok2⟩ := ItemsOK_split fs l1 l2 0 (by simpa using hok)
    have hd := hfold [] rfl
    simp only [List.nil_append, List.foldl_append] at hd
    have hl1 := encItems_len_ge l1
    unfold parse
    rw [List.append_assoc, loop_prefix fs ic hw.1 hw.2 _ l1 _ 0 0 _ ok1 (by simp)]
    have hfu : (encItems l1 ++ (tlv t x ++ encItems l2)).length + 1 - l1.length =
        ((encItems l1 ++ (tlv t x ++ encItems l2)).length - l1.length) + 1 := by
      simp; omega
    rw [hfu, junk_skip fs ic t x _ _ _ _ _ ht hx hnot hcrit]
    rw [loop_items fs ic hw.1 hw.2 l2 _ _ _ _ ok2 (by simp [tlv_length]; have := tlNumSize_pos t; omega)]
    rw [hd]
  · intro l1 l2 it m t x hsplit hmv ht hx hne hcrit
    subst hsplit
    obtain ⟨ok1, hposit, hit, ok2⟩ := ItemsOK_split fs l1 (it :: l2) 0 (by simpa using hok)
    have hd := hfold [] rfl
    simp only [List.nil_append, List.foldl_append, List.foldl_cons] at hd
    have hl1 := encItems_len_ge l1
    have hshape : encItems l1 ++ (tlv it.t it.body ++ tlv t x ++ tlv m.t m.body) ++ encItems l2 =
        encItems l1 ++ (tlv it.t it.body ++ (tlv t x ++ (tlv m.t m.body ++ encItems l2))) := by
      simp [List.append_assoc]
    have h1 := tlNumSize_pos it.t; have h3 := tlNumSize_pos t; have h5 := tlNumSize_pos m.t
    unfold parse
    rw [hshape, loop_prefix fs ic hw.1 hw.2 _ l1 _ 0 0 _ ok1 (by simp)]
    have hfu : (encItems l1 ++ (tlv it.t it.body ++ (tlv t x ++ (tlv m.t m.body ++ encItems l2)))).length + 1
          - l1.length =
        ((encItems l1 ++ (tlv it.t it.body ++ (tlv t x ++ (tlv m.t m.body ++ encItems l2)))).length
          - l1.length) + 1 := by
      simp; omega
    rw [hfu, loop_step_gap fs ic hw.2 it m hmv t x _ _ _ _ _ hposit hit ht hx hne hcrit (by simp; omega),
      skipMarkers_id fs _ _ _ _ hw.1,
      loop_items fs ic hw.1 hw.2 l2 _ _ _ _ ok2 (by simp [tlv_length]; omega)]
    rw [hd]

/-- **unknown_critical_rejected.** An unrecognised element whose Type is odd, inserted (1) at any
    boundary between items or (2) between the key and the value of a map entry (there: any odd Type
    other than the value's), makes decoding fail with `DecodeError` (unless critical fields are
    ignored). -/
theorem unknown_critical_rejected (fs : List Schema) (vs : List Value) (b : Bytes)
    (hw : wfTop fs = true) (hfit : fitsFs fs vs = true) (h : encFields fs vs = .ok b) :
    ∃ items : List Item, encItems items = b ∧
      (∀ (l1 l2 : List Item) (t : Nat) (x : Bytes), items = l1 ++ l2 →
        t < 2 ^ 64 → x.length < 2 ^ 64 → t ∉ typs fs → t % 2 = 1 →
        parse fs false (encItems l1 ++ tlv t x ++ encItems l2) = .error .decodeError) ∧
      (∀ (l1 l2 : List Item) (it : Item) (m : MapVal) (t : Nat) (x : Bytes), items = l1 ++ it :: l2 →
        it.mv = some m → t < 2 ^ 64 → x.length < 2 ^ 64 → t ≠ m.t → t % 2 = 1 →
        parse fs false (encItems l1 ++ (tlv it.t it.body ++ tlv t x ++ tlv m.t m.body) ++ encItems l2)
          = .error .decodeError) := by
  simp only [wfTop, Bool.and_eq_true] at hw
  obtain ⟨items, hok, henc, _⟩ := rt_suffix [] fs vs b hw.1 (by simpa using hw.2) hfit h
  refine ⟨items, henc, ?_, ?_⟩
  · intro l1 l2 t x hsplit ht hx hnot hodd
    subst hsplit
    obtain ⟨ok1, _⟩ := ItemsOK_split fs l1 l2 0 (by simpa using hok)
    have hl1 := encItems_len_ge l1
    unfold parse
    rw [List.append_assoc, loop_prefix fs false hw.1 hw.2 _ l1 _ 0 0 _ ok1 (by simp)]
    have hfu : (encItems l1 ++ (tlv t x ++ encItems l2)).length + 1 - l1.length =
        ((encItems l1 ++ (tlv t x ++ encItems l2)).length - l1.length) + 1 := by
      simp; omega
    rw [hfu, junk_reject fs t x _ _ _ _ _ ht hx hnot hodd]
  · intro l1 l2 it m t x hsplit hmv ht hx hne hodd
    subst hsplit
    obtain ⟨ok1, hposit, hit, _⟩ := ItemsOK_split fs l1 (it :: l2) 0 (by simpa using hok)
    have hl1 := encItems_len_ge l1
    have hshape : encItems l1 ++ (tlv it.t it.body ++ tlv t x ++ tlv m.t m.body) ++ encItems l2 =
        encItems l1 ++ (tlv it.t it.body ++ (tlv t x ++ (tlv m.t m.body ++ encItems l2))) := by
      simp [List.append_assoc]
    unfold parse
    rw [hshape, loop_prefix fs false hw.1 hw.2 _ l1 _ 0 0 _ ok1 (by simp)]
    have hfu : (encItems l1 ++ (tlv it.t it.body ++ (tlv t x ++ (tlv m.t m.body ++ encItems l2)))).length + 1
          - l1.length =
        ((encItems l1 ++ (tlv it.t it.body ++ (tlv t x ++ (tlv m.t m.body ++ encItems l2)))).length
          - l1.length) + 1 := by
      simp; omega
    rw [hfu, loop_step_gap_reject fs hw.2 it m hmv t x _ _ _ _ _ hposit hit ht hx hne hodd (by simp; omega)]

/-! ### non-vacuity -/

/-- a small model: `{ a = UintField(0x81), n = NameField(), sub = ModelField(0x83, {b = BytesField(0x85, is_string)}), r = RepeatedField(UintField(0x87)) }` -/
def exFs : List Schema :=
  [.uint 0x81 none, .name 7, .model 0x83 [.bytes 0x85 true] false, .repeated (.uint 0x87 none)]
def exVs : List Value :=
  [.uint 300, .name [[8, 1, 97]], .model [.bytes [0xC3, 0xA9]], .list [.uint 1, .uint 65536]]

example : wfTop exFs = true := by decide
example : fitsFs exFs exVs = true := by decide
example : encFields exFs exVs =
    .ok [0x81, 2, 1, 44, 7, 3, 8, 1, 97, 0x83, 4, 0x85, 2, 0xC3, 0xA9, 0x87, 1, 1, 0x87, 4, 0, 1, 0, 0] := by
  rfl
example : parse exFs false
    [0x81, 2, 1, 44, 7, 3, 8, 1, 97, 0x83, 4, 0x85, 2, 0xC3, 0xA9, 0x87, 1, 1, 0x87, 4, 0, 1, 0, 0] = .ok exVs := by
  rfl

/-- a model with MapFields: `{ a = UintField(0x81), m = MapField(BytesField(0x85, is_string), UintField(0x87)),
    sub = ModelField(0x91, { d = MapField(UintField(0x89), ModelField(0x8b, {n = NameField()})) }) }`
    with `m = {"k": 5, "é": 256}`, `sub.d = {7: {n = /a}}` -/
def exMapFs : List Schema :=
  [.uint 0x81 none, .map (.bytes 0x85 true) (.uint 0x87 none),
   .model 0x91 [.map (.uint 0x89 none) (.model 0x8b [.name 7] false)] false]
def exMapVs : List Value :=
  [.uint 1, .map [(.bytes [107], .uint 5), (.bytes [0xC3, 0xA9], .uint 256)],
   .model [.map [(.uint 7, .model [.name [[8, 1, 97]]])]]]
def exMapWire : Bytes :=
  [0x81, 1, 1, 0x85, 1, 107, 0x87, 1, 5, 0x85, 2, 0xC3, 0xA9, 0x87, 2, 1, 0,
   0x91, 10, 0x89, 1, 7, 0x8b, 5, 7, 3, 8, 1, 97]

example : wfTop exMapFs = true := by decide
example : fitsFs exMapFs exMapVs = true := by decide
example : encFields exMapFs exMapVs = .ok exMapWire := by rfl
example : parse exMapFs false exMapWire = .ok exMapVs := by rfl
/-- an unknown non-critical element (Type 0x64) between the first key and its value is skipped … -/
example : parse exMapFs false
    [0x81, 1, 1, 0x85, 1, 107, 0x64, 1, 0, 0x87, 1, 5, 0x85, 2, 0xC3, 0xA9, 0x87, 2, 1, 0,
     0x91, 10, 0x89, 1, 7, 0x8b, 5, 7, 3, 8, 1, 97] = .ok exMapVs := by rfl
/-- … and a critical one (Type 0x65) there is rejected -/
example : parse exMapFs false
    [0x81, 1, 1, 0x85, 1, 107, 0x65, 1, 0, 0x87, 1, 5, 0x85, 2, 0xC3, 0xA9, 0x87, 2, 1, 0,
     0x91, 10, 0x89, 1, 7, 0x8b, 5, 7, 3, 8, 1, 97] = .error .decodeError := by rfl
/-- a dict with a repeated key is not a legal assignment (a Python dict cannot hold one) -/
example : fitsFs exMapFs [.uint 1, .map [(.bytes [107], .uint 5), (.bytes [107], .uint 6)], .model [.map []]]
    = false := by decide

/-! ## the metaclass: how a class with base classes gets its field list

`Ndn.Codec.mergeFields bases body` models `TlvModelMeta.__new__` (`NdnModel/ClassMerge.lean`): `body` is
the list of assignments of the class body, `bases` the direct base classes with their own (already
collected) field lists.  Specification vocabulary (`NdnProofs/Lemmas/ClassMerge.lean`):
`expand bases dict` — the assignments `name ← field` the class stands for (an own field under its
attribute name; at an `IncludeBase` the fields of that base in the base's order; nothing else);
`assignAll` — carrying such assignments out on an empty Python dict; `firstOcc` — names at their first
occurrence; `lastVal` — the value assigned last; `Legal` — every `IncludeBase` names a direct base that
is a TlvModel. -/

/-- the attributes of `cls.__dict__` the metaclass looks at -/
def visible {α : Type} (body : List (List Char × Decl α)) : List (List Char × Decl α) :=
  (classDict body).filter fun p => !dunder p.1

/-- **merge_is_assignment.** Whenever the class can be created, its `_encoded_fields` is the Python dict
    obtained by carrying out, in order, the assignments the class body stands for (the position
    bookkeeping of the metaclass - `index_dict` - is exactly that of a dict). -/
theorem merge_is_assignment {α : Type} (bases : List (BaseCls (List Char) α)) (body : List (List Char × Decl α))
    (fs : List (List Char × α)) (h : mergeFields bases body = .ok fs) :
    fs = assignAll (expand bases (visible body)) :=
  mergeClass_ok bases _ fs h

/-- **merge_ok_iff.** Creating the class raises `IncludeBaseError` exactly when some visible `IncludeBase`
    names a class that is not a direct base or not a TlvModel; nothing else fails. -/
theorem merge_ok_iff {α : Type} (bases : List (BaseCls (List Char) α)) (body : List (List Char × Decl α)) :
    (∃ fs, mergeFields bases body = .ok fs) ↔ Legal bases (visible body) :=
  mergeClass_isOk bases _

/-- **merged_order.** Every name occurs once, and the names stand in the order of their *first*
    assignment: own fields in declaration order, the fields of an included base at the place of its
    `IncludeBase` in the base's order - except that a name assigned before (own or included) keeps its
    earlier place. -/
theorem merged_order {α : Type} (bases : List (BaseCls (List Char) α)) (body : List (List Char × Decl α))
    (fs : List (List Char × α)) (h : mergeFields bases body = .ok fs) :
    (PyDict.keys fs).Nodup ∧ PyDict.keys fs = firstOcc ((expand bases (visible body)).map (·.1)) := by
  rw [merge_is_assignment bases body fs h]
  exact ⟨assignAll_nodup _, assignAll_keys _⟩

/-- **merged_field_is_last_assignment.** The field that stands under a name is the one assigned *last*
    (a redeclared name - an override of an included field, or an included field over an earlier own one -
    replaces the field where it stands); a name is in the list iff something assigns it. -/
theorem merged_field_is_last_assignment {α : Type} (bases : List (BaseCls (List Char) α))
    (body : List (List Char × Decl α)) (fs : List (List Char × α)) (h : mergeFields bases body = .ok fs)
    (name : List Char) : PyDict.get? fs name = lastVal (expand bases (visible body)) name := by
  rw [merge_is_assignment bases body fs h]
  exact assignAll_get? _ _

/-- **merged_plain.** Without a name clash the field list is literally the class body with every
    `IncludeBase` replaced by the fields of its base. -/
theorem merged_plain {α : Type} (bases : List (BaseCls (List Char) α)) (body : List (List Char × Decl α))
    (fs : List (List Char × α)) (h : mergeFields bases body = .ok fs)
    (hn : ((expand bases (visible body)).map (·.1)).Nodup) : fs = expand bases (visible body) := by
  rw [merge_is_assignment bases body fs h]
  exact assignAll_of_nodup _ hn

/-- **base_not_included_ignored.** The fields of a base class that no visible `IncludeBase` names do not
    enter the list: replacing that base by any other class (with any fields, or not a TlvModel at all)
    changes nothing.  In particular plain inheritance without `IncludeBase` yields the own fields only. -/
theorem base_not_included_ignored {α : Type} (bases : List (BaseCls (List Char) α))
    (body : List (List Char × Decl α)) (j : Nat) (b : BaseCls (List Char) α)
    (h : ∀ p ∈ visible body, p.2 ≠ .includeBase j) :
    mergeFields (bases.set j b) body = mergeFields bases body := by
  have := foldlM_set_base bases j b (visible body) ⟨[], []⟩ h
  unfold mergeFields mergeClass
  unfold visible at this
  rw [this]

/-- own fields only: a class body without (visible) `IncludeBase` -/
theorem inherit_without_include {α : Type} (bases : List (BaseCls (List Char) α))
    (body : List (List Char × Decl α)) (h : ∀ p ∈ visible body, ∀ i, p.2 ≠ .includeBase i) :
    mergeFields bases body = .ok ((visible body).filterMap fun p =>
      match p.2 with
      | .field f => some (p.1, f)
      | _ => none) := by
  have hl : Legal bases (visible body) := fun p hp i hi => absurd hi (h p hp i)
  obtain ⟨fs, hfs⟩ := (merge_ok_iff bases body).2 hl
  rw [hfs, merge_is_assignment bases body fs hfs]
  have hk : (PyDict.keys (visible body)).Nodup := by
    have : (PyDict.keys (classDict body)).Nodup := assignAll_nodup body
    exact List.Nodup.sublist (List.Sublist.map _ List.filter_sublist) this
  have he : ∀ (d : List (List Char × Decl α)), (∀ p ∈ d, ∀ i, p.2 ≠ .includeBase i) →
      expand bases d = d.filterMap fun p =>
        match p.2 with
        | .field f => some (p.1, f)
        | _ => none := by
    intro d hd
    induction d with
    | nil => rfl
    | cons p r ih =>
      have ih := ih (fun q hq => hd q (List.mem_cons_of_mem _ hq))
      simp only [expand, List.flatMap_cons] at ih ⊢
      rw [ih]
      cases hp : p.2 with
      | field f => simp [hp]
      | other => simp [hp]
      | includeBase i => exact absurd hp (hd p (by simp) i)
  rw [he _ h]
  congr 1
  apply assignAll_of_nodup
  refine List.Nodup.sublist ?_ hk
  have : ∀ d : List (List Char × Decl α), List.Sublist ((d.filterMap fun p =>
        match p.2 with
        | .field f => some (p.1, f)
        | _ => none).map (·.1)) (PyDict.keys d) := by
    intro d
    induction d with
    | nil => simp [PyDict.keys]
    | cons p r ih =>
      cases hp : p.2 with
      | field f => simpa [List.filterMap_cons, hp, PyDict.keys] using ih
      | other => simpa [List.filterMap_cons, hp, PyDict.keys] using ih.trans (List.sublist_cons_self _ _)
      | includeBase i => simpa [List.filterMap_cons, hp, PyDict.keys] using ih.trans (List.sublist_cons_self _ _)
  exact this _

/-- the encoding of each field of a model, separately -/
def encEach : List Schema → List Value → Except PyErr (List Bytes)
  | s :: ss, v :: vs => do
    let a ← enc s v
    let r ← encEach ss vs
    pure (a :: r)
  | _, _ => .ok []

theorem encFields_parts : ∀ (fs : List Schema) (vs : List Value) (b : Bytes), encFields fs vs = .ok b →
    ∃ parts, encEach fs vs = .ok parts ∧ b = concatB parts ∧ ∀ p ∈ parts, TlvSeq p
  | [], _, b, h => by simp [encFields] at h; subst h; exact ⟨[], by simp [encEach], rfl, by simp⟩
  | _ :: _, [], b, h => by simp [encFields] at h; subst h; exact ⟨[], by simp [encEach], rfl, by simp⟩
  | s :: ss, v :: vs, b, h => by
    simp only [encFields] at h
    obtain ⟨a, ha, h2⟩ := bind_ok h
    obtain ⟨c, hc, h3⟩ := bind_ok h2
    simp only [pure, Except.pure] at h3; cases h3
    obtain ⟨parts, hp, rfl, ht⟩ := encFields_parts ss vs c hc
    refine ⟨a :: parts, ?_, rfl, ?_⟩
    · simp [encEach, ha, hp, bind, Except.bind, pure, Except.pure]
    · intro p hp
      rcases List.mem_cons.1 hp with rfl | hp
      · exact enc_seq s v _ ha
      · exact ht p hp

/-- **derived_encodes_in_merged_order.** An instance of a class with base classes is encoded as the
    concatenation, in the order of the merged field list (`merged_order`), of the encodings of the fields
    in that list, each a well-formed TLV sequence, and so is the whole (`enc_wellformed`). -/
theorem derived_encodes_in_merged_order (bases : List (BaseCls (List Char) Schema))
    (body : List (List Char × Decl Schema)) (fs : List (List Char × Schema)) (vs : List Value) (b : Bytes)
    (hm : mergeFields bases body = .ok fs) (he : encFields (fs.map (·.2)) vs = .ok b) :
    fs = assignAll (expand bases (visible body)) ∧ TlvSeq b ∧
      ∃ parts, encEach (fs.map (·.2)) vs = .ok parts ∧ b = concatB parts ∧ ∀ p ∈ parts, TlvSeq p :=
  ⟨merge_is_assignment bases body fs hm, enc_wellformed _ vs b he, encFields_parts _ vs b he⟩

section MergeExamples
/-- the class of the documentation: `class Derived(Base): m1; _base = IncludeBase(Base); m3`, and an
    override of `m2` declared after the including, which stays where `m2` stood -/
example : mergeFields [some [("m2".toList, Schema.uint 2 none)]]
    [("m1".toList, .field (.uint 1 none)), ("_base".toList, .includeBase 0), ("m3".toList, .field (.uint 3 none)),
     ("m2".toList, .field (.uint 5 (some 2)))]
    = .ok [("m1".toList, .uint 1 none), ("m2".toList, .uint 5 (some 2)), ("m3".toList, .uint 3 none)] := by rfl
/-- a base that is not included contributes nothing; dunder attributes are not looked at -/
example : mergeFields [some [("m2".toList, Schema.uint 2 none)]]
    [("m1".toList, .field (.uint 1 none)), ("__x".toList, .includeBase 0)]
    = .ok [("m1".toList, .uint 1 none)] := by rfl
/-- `IncludeBase` of a class that is not a direct base -/
example : mergeFields (α := Schema) [some []] [("_b".toList, .includeBase 1)] = .error .includeBaseError := by rfl
end MergeExamples

end Ndn.C08

namespace Ndn.C08
open Ndn Ndn.Codec

/-! ### what the decoder accepts is well-formed, and re-encodes to something that decodes to the same model -/

/-- **parse_wf.** Whatever `parse` accepts — from **any** byte string — is well-formed in the sense the encoder
    theorems need (`parse_enc_roundtrip`, `unknown_noncritical_skipped`, `unknown_critical_rejected`):
    it is a legal assignment for the schema (`fitsFs`: one value per field, shapes of repeated / map fields as
    declared, text valid UTF-8, every name component one complete TLV element, lists and dicts hold present
    values, dict keys pairwise different), every integer is below 2^64, and every byte string / name is at most
    as long as the wire it was read from (`boundedL`). -/
theorem parse_wf (fs : List Schema) (ic : Bool) (w : Bytes) (vs : List Value) (hw : wfTop fs = true)
    (h : parse fs ic w = .ok vs) : fitsFs fs vs = true ∧ boundedL w.length vs = true := by
  simp only [wfTop, Bool.and_eq_true] at hw
  exact parse_accept fs ic w vs hw.1 h

/-- **reencode_parses_back.** decode ∘ encode ∘ decode = decode: when an accepted wire's model is encoded again,
    the result decodes (with either setting of `ignore_critical`) to exactly the model that was accepted — no
    hypothesis on the value is left, it comes from `parse_wf`.  The one premise is that `encode` succeeds;
    `reencode_succeeds` says when it must. -/
theorem reencode_parses_back (fs : List Schema) (ic : Bool) (w : Bytes) (vs : List Value) (b : Bytes)
    (hw : wfTop fs = true) (h : parse fs ic w = .ok vs) (he : encFields fs vs = .ok b) :
    ∀ ic', parse fs ic' b = .ok vs :=
  fun ic' => parse_enc_roundtrip fs vs b ic' hw (parse_wf fs ic w vs hw h).1 he

/-- **reencode_succeeds.** For a class without `fixed_len` integer fields whose Type numbers fit 64 bits
    (`reFs`, decidable) and a wire shorter than 2^64 bytes, re-encoding what `parse` accepted succeeds, is not
    longer than the wire (integers, Types and Lengths are re-written in shortest form; skipped unknown elements,
    overwritten dict entries and a truncated trailing Value are not written), and decodes to the accepted model.
    Side conditions, and why they are needed: (1) `|w| < 2^64` — `write_tl_num` cannot write a longer Length;
    (2) no `fixed_len` — the decoder accepts any of the widths 1, 2, 4, 8 for every integer field, so a field
    declared `fixed_len=1` can come back as 300, which `encode` refuses (`ValueError`, see the example below). -/
theorem reencode_succeeds (fs : List Schema) (ic : Bool) (w : Bytes) (vs : List Value)
    (hw : wfTop fs = true) (hr : reFs fs = true) (hlen : w.length < 2 ^ 64) (h : parse fs ic w = .ok vs) :
    ∃ b, encFields fs vs = .ok b ∧ b.length ≤ w.length ∧ ∀ ic', parse fs ic' b = .ok vs := by
  have hw' := hw
  simp only [wfTop, Bool.and_eq_true] at hw'
  obtain ⟨b, h1, h2⟩ := reencode_ok fs ic w vs hw'.1 hr hlen h
  exact ⟨b, h1, h2, reencode_parses_back fs ic w vs b hw h h1⟩

/-- **reencode_fails_only.** For **every** well-formed class (with `fixed_len` fields too) and every accepted
    wire, re-encoding the accepted model either succeeds — and then decodes to that model — or raises `ValueError`
    (an integer received in a wider form than the field's `fixed_len`) or `struct.error` (a Type or Length that does
    not fit 64 bits); never `TypeError`: the shapes the decoder delivers are the shapes the encoder expects. -/
theorem reencode_fails_only (fs : List Schema) (ic : Bool) (w : Bytes) (vs : List Value)
    (hw : wfTop fs = true) (h : parse fs ic w = .ok vs) :
    (∃ b, encFields fs vs = .ok b ∧ ∀ ic', parse fs ic' b = .ok vs) ∨
    encFields fs vs = .error .valueError ∨ encFields fs vs = .error .structError := by
  cases he : encFields fs vs with
  | ok b => exact .inl ⟨b, rfl, reencode_parses_back fs ic w vs b hw h he⟩
  | error e =>
    right
    rcases encFields_reErr fs vs (parse_wf fs ic w vs hw h).1 e he with rfl | rfl
    · exact .inl rfl
    · exact .inr rfl

/-! non-vacuity: a wire with a non-minimal integer, an unknown non-critical element and a repeated dict key is
    accepted; its model re-encodes to a shorter wire that decodes to the same model -/
example : reFs exMapFs = true := by decide
example : parse exMapFs false
    [0x81, 2, 0, 1, 0x64, 1, 0, 0x85, 1, 107, 0x87, 1, 9, 0x85, 1, 107, 0x87, 1, 5, 0x85, 2, 0xC3, 0xA9, 0x87, 2, 1, 0,
     0x91, 10, 0x89, 1, 7, 0x8b, 5, 7, 3, 8, 1, 97] = .ok exMapVs := by rfl
example : encFields exMapFs exMapVs = .ok exMapWire ∧ parse exMapFs false exMapWire = .ok exMapVs := ⟨rfl, rfl⟩
/-- why `fixed_len` is excluded: a 2-byte integer is accepted for a `fixed_len=1` field and cannot be re-encoded -/
example : parse [.uint 0x81 (some 1)] false [0x81, 2, 1, 44] = .ok [.uint 300] ∧
    encFields [.uint 0x81 (some 1)] [.uint 300] = .error .valueError := ⟨rfl, rfl⟩

end Ndn.C08
