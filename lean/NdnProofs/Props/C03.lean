import NdnProofs.Lemmas.PitRun
/-!
# C03 — every expressed Interest completes exactly once with the right outcome

Theorems about `Ndn.Pit.run fe evs` (model of the pending-Interest bookkeeping of `appv2.py` and `app.py`,
see `NdnModel/Pit.lean`), for **both front-ends** and **every event history** `evs : List Ev`
(express / Data / Nack / tick / caller cancellation / shutdown, in any order and number; induction over the
history with the invariant `Ndn.Pit.Inv` relating trie, node objects and per-Interest states).

Specification vocabulary (`NdnProofs/Lemmas/PitSpec.lean`; none of it mentions trie, nodes or lists):
`Matches`, `Named`, `taken`, `specFire`, `specReact` (what one event does to one request),
`Spec.step`/`Spec.run` (the abstract table: all requests react independently), `reqTrace` (the life of one
request as a function of its own parameters and the events), `Justified` (what in the history justifies a
state), `WFEv` (lifetimes are positive).

A state `.done o t` of Interest `i` is its completion record (outcome `o`, time `t`).
-/
namespace Ndn.C03
open Ndn Ndn.Pit

/-- **refines_spec.** The trie / node / pending-list bookkeeping implements the abstract table in which every
    pending Interest reacts to every event on its own (`specReact`): same clock, same requests, same states,
    after every history. -/
theorem refines_spec (fe : FrontEnd) (evs : List Ev) : abs (run fe evs) = Spec.run fe evs :=
  run_refines fe evs

/-- **no_internal_error.** No event of any history makes a callback raise (`del trie[name]` always finds its
    key; the only partial operation left in the repaired code). -/
theorem no_internal_error (fe : FrontEnd) (evs : List Ev) : (run fe evs).errs = [] :=
  (inv_run_errs fe evs).2

/-- **complete_at_most_once.** Once an Interest has its completion record, no later event of any kind changes
    it: same outcome, same time, for ever. -/
theorem complete_at_most_once (fe : FrontEnd) (evs evs' : List Ev) (i : Nat) (o : Outcome) (t : Nat)
    (h : (run fe evs).sts[i]? = some (.done o t)) : (run fe (evs ++ evs')).sts[i]? = some (.done o t) :=
  done_stable fe evs evs' i o t h

/-- **nothing_remains.** A completed Interest has no entry in any node linked in the trie. -/
theorem nothing_remains (fe : FrontEnd) (evs : List Ev) (i : Nat) (o : Outcome) (t : Nat)
    (h : (run fe evs).sts[i]? = some (.done o t)) :
    ∀ b ∈ (run fe evs).trie, i ∉ pend (run fe evs) b.2 :=
  fun _ hb => (inv_run fe evs).not_mem_of_not_waiting (by rw [h]; simp) hb

/-- Every entry of every linked node belongs to an Interest that is still waiting, captured that very node
    and bears the node's name; and linked nodes are never empty. -/
theorem linked_entries_are_waiting (fe : FrontEnd) (evs : List Ev) :
    ∀ b ∈ (run fe evs).trie, pend (run fe evs) b.2 ≠ [] ∧ ∀ e ∈ pend (run fe evs) b.2,
      ∃ I, (run fe evs).ints[e]? = some I ∧ (run fe evs).sts[e]? = some .waiting ∧ I.node = b.2 ∧ I.name = b.1 :=
  fun b hb => ⟨(inv_run fe evs).nonempty b hb, (inv_run fe evs).linked b hb⟩

/-- **pit_empty_at_quiescence.** When no Interest is waiting the trie is empty. -/
theorem pit_empty_at_quiescence (fe : FrontEnd) (evs : List Ev)
    (h : ∀ i : Nat, (run fe evs).sts[i]? ≠ some IState.waiting) : (run fe evs).trie = [] ∧ pitSize (run fe evs) = (0, 0) := by
  have : (run fe evs).trie = [] := by
    cases ht : (run fe evs).trie with
    | nil => rfl
    | cons b r =>
      have hb : b ∈ (run fe evs).trie := by rw [ht]; exact List.mem_cons_self
      obtain ⟨e, he⟩ := List.exists_mem_of_ne_nil _ ((inv_run fe evs).nonempty b hb)
      obtain ⟨_, _, hw, _⟩ := (inv_run fe evs).linked b hb e he
      exact absurd hw (h e)
  exact ⟨this, by simp [pitSize, this]⟩

/-- **one_data_all_matching_no_others.** One Data is taken by every waiting Interest it matches (same name, or a
    longer name with CanBePrefix; the packet digest when the Interest has an implicit digest) - each of them gets
    `taken` (its validator answers at once, or it is now validating) - and no other Interest changes. -/
theorem one_data_all_matching_no_others (fe : FrontEnd) (evs : List Ev) (nm : Name) (dg d : Nat) (i : Nat)
    (I : Interest) (s : IState) (hi : (run fe evs).ints[i]? = some I) (hs : (run fe evs).sts[i]? = some s) :
    (run fe (evs ++ [.data nm dg d])).sts[i]? =
      some (if s = .waiting ∧ Matches I.toReq nm dg then taken fe (run fe evs).clock I.toReq d else s) := by
  rw [run_snoc]; exact (step_old (inv_run fe evs) fe _ hi hs).2.1

/-- A Nack finishes exactly the waiting Interests it names (name and implicit digest), with its reason. -/
theorem nack_exactly_the_named (fe : FrontEnd) (evs : List Ev) (nm : Name) (dg : Option Nat) (rsn : Nat) (i : Nat)
    (I : Interest) (s : IState) (hi : (run fe evs).ints[i]? = some I) (hs : (run fe evs).sts[i]? = some s) :
    (run fe (evs ++ [.nack nm dg rsn])).sts[i]? =
      some (if s = .waiting ∧ Named I.toReq nm dg then .done (.nack rsn) (run fe evs).clock else s) := by
  rw [run_snoc]; exact (step_old (inv_run fe evs) fe _ hi hs).2.1

/-- A caller cancellation finishes its own Interest (unless already finished) and touches no other. -/
theorem cancel_only_its_target (fe : FrontEnd) (evs : List Ev) (j i : Nat)
    (I : Interest) (s : IState) (hi : (run fe evs).ints[i]? = some I) (hs : (run fe evs).sts[i]? = some s) :
    (run fe (evs ++ [.cancel j])).sts[i]? = some (if j = i then specCancel (run fe evs).clock s else s) := by
  rw [run_snoc]; exact (step_old (inv_run fe evs) fe _ hi hs).2.1

/-- A clock tick fires exactly the due timers of each Interest (`specFire`). -/
theorem tick_fires_due_timers (fe : FrontEnd) (evs : List Ev) (t : Nat) (i : Nat)
    (I : Interest) (s : IState) (hi : (run fe evs).ints[i]? = some I) (hs : (run fe evs).sts[i]? = some s) :
    (run fe (evs ++ [.tick t])).sts[i]? = some (specFire fe (max (run fe evs).clock t) I.toReq s) := by
  rw [run_snoc]; exact (step_old (inv_run fe evs) fe _ hi hs).2.1

/-- **complete_exactly_once_after (shutdown).** Right after a shutdown no Interest is waiting (every waiting one was
    cancelled at that instant; one whose Data was already taken is left to its validator) and the trie is empty. -/
theorem complete_exactly_once_after_shutdown (fe : FrontEnd) (evs : List Ev) :
    (run fe (evs ++ [.shutdown])).trie = [] ∧
    (∀ i : Nat, (run fe (evs ++ [.shutdown])).sts[i]? ≠ some IState.waiting) ∧
    ∀ i : Nat, (run fe evs).sts[i]? = some IState.waiting →
      (run fe (evs ++ [.shutdown])).sts[i]? = some (IState.done .cancelled (run fe evs).clock) := by
  have hinv := inv_run fe evs
  rw [run_snoc]
  obtain ⟨_, b, _, _, _, e, _, g⟩ := shutdown_eff hinv
  refine ⟨e, ?_, ?_⟩
  · intro i hw
    have hinv' := (step_inv hinv fe .shutdown).1
    have hlt : i < (step fe (run fe evs) .shutdown).ints.length := by
      rw [← hinv'.len]; exact (List.getElem?_eq_some_iff.mp hw).1
    have := (hinv'.waiting i (step fe (run fe evs) .shutdown).ints[i] (by simp [hlt]) hw).1
    change _ ∈ (onShutdown (run fe evs)).trie at this
    rw [e] at this; simp at this
  · intro i hw
    have hlt : i < (run fe evs).ints.length := by
      rw [← hinv.len]; exact (List.getElem?_eq_some_iff.mp hw).1
    have := g i (run fe evs).ints[i] .waiting (by simp [hlt]) hw
    simp only [if_true] at this
    exact this

/-- **complete_exactly_once_after (deadline).** After a tick at or beyond its deadline an Interest is not waiting any
    more, in either front-end; in the current front-end it has its completion record (together with
    `complete_at_most_once`: exactly one, for ever).  In the legacy front-end it may still be validating a Data
    taken before the deadline (finding F15: the validator runs outside `wait_for`). -/
theorem complete_exactly_once_after_deadline (fe : FrontEnd) (evs : List Ev) (t : Nat) (i : Nat) (I : Interest)
    (hi : (run fe evs).ints[i]? = some I) (hd : I.deadline ≤ max (run fe evs).clock t) :
    (run fe (evs ++ [.tick t])).sts[i]? ≠ some IState.waiting ∧
    (fe = .v2 → ∃ o t', (run fe (evs ++ [.tick t])).sts[i]? = some (IState.done o t')) := by
  have hinv := inv_run fe evs
  have hlt := hinv.idx_lt hi
  have hs : (run fe evs).sts[i]? = some (run fe evs).sts[i] := by simp [hlt]
  rw [tick_fires_due_timers fe evs t i I _ hi hs]
  generalize (run fe evs).sts[i] = s
  have hd' : I.toReq.deadline ≤ max (run fe evs).clock t := hd
  constructor
  · cases s with
    | waiting => simp [specFire, hd']
    | done o t' => simp [specFire]
    | validating d fin => exact fun h => specFire_ne_waiting_of (by simp) (Option.some.inj h)
  · intro hfe; subst hfe
    cases s with
    | waiting => exact ⟨.timeout, I.deadline, by simp [specFire, hd']⟩
    | done o t' => exact ⟨o, t', by simp [specFire]⟩
    | validating d fin =>
      simp only [specFire]
      cases validatorOutcome .v2 I.verdict d with
      | none => exact ⟨.timeout, I.deadline, by simp [hd']⟩
      | some o =>
        by_cases hf : fin ≤ max (run .v2 evs).clock t ∧ fin < I.deadline
        · exact ⟨o, fin, by simp [hf]⟩
        · exact ⟨.timeout, I.deadline, by simp [hf, hd']⟩

/-- **outcome_correct.** Whatever state an Interest is in after a history with positive lifetimes is justified by
    that history (`Justified`):
    * a payload / validation failure / validator error for Data `d`: a Data with that content matching the
      Interest arrived while it was waiting and before its deadline, the supplied validator's answer maps to
      exactly this outcome, the time is arrival + validator latency and (current front-end) before the deadline;
    * `timeout`: stamped with the deadline, and the deadline has passed;
    * `nack r`: a Nack with reason `r` naming exactly this Interest arrived while it was waiting, at that time;
    * `cancelled`: the caller cancelled this Interest, or the application shut down, at that time;
    * still waiting: the deadline has not been reached; validating: the Data was taken as above. -/
theorem outcome_correct (fe : FrontEnd) (evs : List Ev) (hwf : ∀ ev ∈ evs, WFEv ev) (i : Nat) (I : Interest)
    (s : IState) (hi : (run fe evs).ints[i]? = some I) (hs : (run fe evs).sts[i]? = some s) :
    Justified fe evs i I.toReq s := by
  have href := run_refines fe evs
  apply spec_justified fe evs hwf i I.toReq s
  · rw [← href]; simp [abs, hi]
  · rw [← href]; exact hs

/-- **frame.** The state of an Interest after any history is a function (`reqTrace`) of its own request, its
    index, the clock at express time and the events that followed - whatever else was expressed before or after,
    on the same, nested or other names, and whatever happened to those Interests. -/
theorem frame (fe : FrontEnd) (pre post : List Ev) (nm : Name) (imp : Option Nat) (cbp : Bool) (life : Nat)
    (v : Verdict) (lat : Nat) :
    (run fe (pre ++ .express nm imp cbp life v lat :: post)).sts[(run fe pre).ints.length]? =
      some (reqTrace fe (run fe pre).ints.length ⟨nm, imp, cbp, (run fe pre).clock + life, v, lat⟩
        (run fe pre).clock .waiting post) := by
  have hinv := inv_run fe pre
  obtain ⟨a, _, c, e, nid, f⟩ := step_eff_express hinv fe nm imp cbp life v lat
  have h1 : run fe (pre ++ .express nm imp cbp life v lat :: post) =
      post.foldl (step fe) (step fe (run fe pre) (.express nm imp cbp life v lat)) := by
    simp [run, List.foldl_append]
  rw [h1, trace_from fe post a (i := (run fe pre).ints.length)
    (I := ⟨⟨nm, imp, cbp, (run fe pre).clock + life, v, lat⟩, nid⟩) (s := .waiting)
    (by rw [f]; simp) (by rw [e, ← hinv.len]; simp), c]

/-! ### the hypotheses are satisfiable: concrete non-trivial histories -/

/-- two Interests on one name, a Data for both, a late Nack, then a tick -/
def demo : List Ev :=
  [.express [1, 2] none false 50 .pass 0, .tick 10, .express [1, 2] none true 100 .fail 30,
   .express [1] none true 100 .pass 0, .tick 20, .data [1, 2] 1 7, .nack [1, 2] none 150, .tick 60]

example : (run .v2 demo).sts = [.done (.data 7) 20, .done (.valFail 7 .fail) 50, .done (.data 7) 20] := by decide
example : (run .v2 demo).errs = [] ∧ (run .v2 demo).trie = [] := by decide
-- complete_at_most_once / nothing_remains: a completion record exists
example : (run .v1 (demo.take 6)).sts[0]? = some (.done (.data 7) 20) := by decide
-- one_data_all_matching_no_others: the third Interest (CanBePrefix, shorter name) matches, a sibling would not
example : Matches (⟨[1], none, true, 100, .pass, 0⟩ : Req) [1, 2] 1 ∧ ¬ Matches (⟨[1, 3], none, true, 100, .pass, 0⟩ : Req) [1, 2] 1 := by
  decide
-- complete_exactly_once_after_deadline: an Interest whose deadline is reached by the tick
example : ((run .v2 (demo.take 3)).ints[0]?).map (·.deadline) = some 50 := by decide
-- outcome_correct: the demo history has positive lifetimes
example : ∀ ev ∈ demo, WFEv ev := by
  intro ev hev
  simp only [demo, List.mem_cons, List.not_mem_nil, or_false] at hev
  rcases hev with h | h | h | h | h | h | h | h <;> subst h <;> simp [WFEv]
-- a node that was unlinked while its validator runs, a new node under the same name, the old Interest's
-- deadline: the new node survives (finding F6b is the failure of exactly this)
example : (run .v2 [.express [1] none false 50 .pass 80, .data [1] 1 0, .express [1] none false 500 .pass 0, .tick 60]).trie
    = [([1], 1)] := by decide

-- nack_exactly_the_named / cancel_only_its_target / tick_fires_due_timers / one_data…: an expressed, waiting Interest
example : (run .v1 (demo.take 3)).sts[1]? = some .waiting ∧
    ((run .v1 (demo.take 3)).ints[1]?).map (·.name) = some [1, 2] := by decide
-- linked_entries_are_waiting / nothing_remains: a linked node with two entries, and a non-empty trie
example : (run .v2 (demo.take 5)).trie = [([1, 2], 0), ([1], 1)] ∧ pend (run .v2 (demo.take 5)) 0 = [0, 1] := by decide
-- pit_empty_at_quiescence: nobody waits after the demo
example : ∀ i : Nat, (run .v2 demo).sts[i]? ≠ some IState.waiting := by
  intro i
  have : (run .v2 demo).sts = [.done (.data 7) 20, .done (.valFail 7 .fail) 50, .done (.data 7) 20] := by decide
  rw [this]
  match i with
  | 0 | 1 | 2 => simp
  | n + 3 => simp
-- complete_exactly_once_after_shutdown: a waiting Interest is cancelled, a validating one is left to its validator
example : (run .v2 (demo.take 6 ++ [.shutdown])).sts =
    [.done (.data 7) 20, .validating 7 50, .done (.data 7) 20] := by decide
example : (run .v2 (demo.take 5 ++ [.shutdown])).sts =
    [.done .cancelled 20, .done .cancelled 20, .done .cancelled 20] := by decide
-- frame: the second Interest of the demo, as a function of its own request and the later events
example : reqTrace .v2 1 ⟨[1, 2], none, true, 110, .fail, 30⟩ 10 .waiting (demo.drop 3) = .done (.valFail 7 .fail) 50 := by
  decide

end Ndn.C03
