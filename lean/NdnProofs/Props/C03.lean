import NdnProofs.Lemmas.PitTies
/-!
# C03 — every expressed Interest completes exactly once with the right outcome

Theorems about `Ndn.Pit.run fe evs` (model of the pending-Interest bookkeeping of `appv2.py` and `app.py`,
see `NdnModel/Pit.lean`), for **both front-ends** and **every event history** `evs : List Ev`
(express — with any lifetime incl. 0, awaited at once or later, with or without `no_response` — / Data / Nack /
tick / caller cancellation / shutdown / `reach`, in any order and number; induction over the history with the
invariant `Ndn.Pit.Inv` relating trie, node objects and per-Interest states).

Specification vocabulary (`NdnProofs/Lemmas/PitSpec.lean`; none of it mentions trie, nodes or lists):
`Matches`, `Named`, `taken`, `resolve`, `specFire`, `specReact` (what one event does to one request),
`Spec.step`/`Spec.run` (the abstract table: all requests react independently), `reqTrace` (the life of one
request as a function of its own parameters and the events), `Justified` (what in the history justifies a
state), `NoTie` (no packet is handled ahead of the timers of its instant).

A state `.done o t` of Interest `i` is its completion record (outcome `o`, time `t`).

**Ties.**  Events that share an event-loop turn with each other or with a timer (`Turn`) may run in any order.
`lins h` are the linearisations of a history of turns `h` (plain histories in which a packet handled ahead of the
timers of its instant is preceded by `reach t` instead of `tick t`), `allowed fe h` the outcome vectors they lead to,
`reachable fe h` the set of final states as the driver computes it.  Every theorem below is about an arbitrary
plain history, hence about every linearisation; the `tie_*` theorems say so for `reachable` / `allowed`.
-/
namespace Ndn.C03
open Ndn Ndn.Pit

/-- **refines_spec.** The trie / node / pending-list bookkeeping implements the abstract table in which every
    pending Interest reacts to every event on its own (`specReact`): same clock, same requests, same states,
    after every history. -/
theorem refines_spec (fe : FrontEnd) (evs : List Ev) : abs (run fe evs) = Spec.run fe evs :=
  run_refines fe evs

/-- **no_internal_error.** No event of any history makes a callback raise (`del trie[name]` always finds its
    key; the only partial operation left in the repaired code). -/
theorem no_internal_error (fe : FrontEnd) (evs : List Ev) : (run fe evs).errs = [] :=
  (inv_run_errs fe evs).2

/-- **complete_at_most_once.** Once an Interest has its completion record, no later event of any kind changes
    it: same outcome, same time, for ever. -/
theorem complete_at_most_once (fe : FrontEnd) (evs evs' : List Ev) (i : Nat) (o : Outcome) (t : Nat)
    (h : (run fe evs).sts[i]? = some (.done o t)) : (run fe (evs ++ evs')).sts[i]? = some (.done o t) :=
  done_stable fe evs evs' i o t h

/-- **nothing_remains.** A completed Interest has no entry in any node linked in the trie.  (The same holds for
    every Interest that is not waiting: one whose Data is with the validator, one whose result is held for a
    late await.) -/
theorem nothing_remains (fe : FrontEnd) (evs : List Ev) (i : Nat) (o : Outcome) (t : Nat)
    (h : (run fe evs).sts[i]? = some (.done o t)) :
    ∀ b ∈ (run fe evs).trie, i ∉ pend (run fe evs) b.2 :=
  fun _ hb => (inv_run fe evs).not_mem_of_not_waiting (by rw [h]; simp) hb

/-- a result held for a late await has no entry left either -/
theorem nothing_remains_held (fe : FrontEnd) (evs : List Ev) (i : Nat) (o : Outcome)
    (h : (run fe evs).sts[i]? = some (.held o)) :
    ∀ b ∈ (run fe evs).trie, i ∉ pend (run fe evs) b.2 :=
  fun _ hb => (inv_run fe evs).not_mem_of_not_waiting (by rw [h]; simp) hb

/-- Every entry of every linked node belongs to an Interest that is still waiting, captured that very node
    and bears the node's name; and linked nodes are never empty. -/
theorem linked_entries_are_waiting (fe : FrontEnd) (evs : List Ev) :
    ∀ b ∈ (run fe evs).trie, pend (run fe evs) b.2 ≠ [] ∧ ∀ e ∈ pend (run fe evs) b.2,
      ∃ I, (run fe evs).ints[e]? = some I ∧ (run fe evs).sts[e]? = some .waiting ∧ I.node = b.2 ∧ I.name = b.1 :=
  fun b hb => ⟨(inv_run fe evs).nonempty b hb, (inv_run fe evs).linked b hb⟩

/-- **pit_empty_at_quiescence.** When no Interest is waiting the trie is empty. -/
theorem pit_empty_at_quiescence (fe : FrontEnd) (evs : List Ev)
    (h : ∀ i : Nat, (run fe evs).sts[i]? ≠ some IState.waiting) : (run fe evs).trie = [] ∧ pitSize (run fe evs) = (0, 0) := by
  have : (run fe evs).trie = [] := by
    cases ht : (run fe evs).trie with
    | nil => rfl
    | cons b r =>
      have hb : b ∈ (run fe evs).trie := by rw [ht]; exact List.mem_cons_self
      obtain ⟨e, he⟩ := List.exists_mem_of_ne_nil _ ((inv_run fe evs).nonempty b hb)
      obtain ⟨_, _, hw, _⟩ := (inv_run fe evs).linked b hb e he
      exact absurd hw (h e)
  exact ⟨this, by simp [pitSize, this]⟩

/-- **one_data_all_matching_no_others.** One Data is taken by every waiting Interest it matches (same name, or a
    longer name with CanBePrefix; the packet digest when the Interest has an implicit digest) - each of them gets
    `taken` (its validator answers at once, or it is now validating; the answer is held when nobody awaits yet) -
    and no other Interest changes. -/
theorem one_data_all_matching_no_others (fe : FrontEnd) (evs : List Ev) (nm : Name) (dg d : Nat) (i : Nat)
    (I : Interest) (s : IState) (hi : (run fe evs).ints[i]? = some I) (hs : (run fe evs).sts[i]? = some s) :
    (run fe (evs ++ [.data nm dg d])).sts[i]? =
      some (if s = .waiting ∧ Matches I.toReq nm dg then taken fe (run fe evs).clock I.toReq d else s) := by
  rw [run_snoc]; exact (step_old (inv_run fe evs) fe _ hi hs).2.1

/-- A Nack resolves exactly the waiting Interests it names (name and implicit digest), with its reason: they finish
    at once, or - not awaited yet - hold the Nack for their first await. -/
theorem nack_exactly_the_named (fe : FrontEnd) (evs : List Ev) (nm : Name) (dg : Option Nat) (rsn : Nat) (i : Nat)
    (I : Interest) (s : IState) (hi : (run fe evs).ints[i]? = some I) (hs : (run fe evs).sts[i]? = some s) :
    (run fe (evs ++ [.nack nm dg rsn])).sts[i]? =
      some (if s = .waiting ∧ Named I.toReq nm dg then resolve (run fe evs).clock I.toReq (.nack rsn) else s) := by
  rw [run_snoc]; exact (step_old (inv_run fe evs) fe _ hi hs).2.1

/-- A caller cancellation finishes its own Interest (unless already finished, or not awaited yet) and touches no
    other. -/
theorem cancel_only_its_target (fe : FrontEnd) (evs : List Ev) (j i : Nat)
    (I : Interest) (s : IState) (hi : (run fe evs).ints[i]? = some I) (hs : (run fe evs).sts[i]? = some s) :
    (run fe (evs ++ [.cancel j])).sts[i]? =
      some (if j = i then specCancel (run fe evs).clock I.toReq s else s) := by
  rw [run_snoc]; exact (step_old (inv_run fe evs) fe _ hi hs).2.1

/-- A clock tick fires exactly the due timers of each Interest (`specFire`: deadline, end of validation, first
    await of a held result). -/
theorem tick_fires_due_timers (fe : FrontEnd) (evs : List Ev) (t : Nat) (i : Nat)
    (I : Interest) (s : IState) (hi : (run fe evs).ints[i]? = some I) (hs : (run fe evs).sts[i]? = some s) :
    (run fe (evs ++ [.tick t])).sts[i]? = some (specFire fe (max (run fe evs).clock t) I.toReq s) := by
  rw [run_snoc]; exact (step_old (inv_run fe evs) fe _ hi hs).2.1

/-- `reach t` (a packet of instant `t` is about to be handled ahead of the timers of that instant) fires exactly the
    timers due before `t`. -/
theorem reach_fires_earlier_timers (fe : FrontEnd) (evs : List Ev) (t : Nat) (i : Nat)
    (I : Interest) (s : IState) (hi : (run fe evs).ints[i]? = some I) (hs : (run fe evs).sts[i]? = some s) :
    (run fe (evs ++ [.reach t])).sts[i]? = some (specReach fe (max (run fe evs).clock t) I.toReq s) := by
  rw [run_snoc]; exact (step_old (inv_run fe evs) fe _ hi hs).2.1

/-- **complete_exactly_once_after (shutdown).** Right after a shutdown no Interest is waiting (every waiting one was
    cancelled at that instant - the caller learns it now, or at its first await; one whose Data was already taken is
    left to its validator) and the trie is empty. -/
theorem complete_exactly_once_after_shutdown (fe : FrontEnd) (evs : List Ev) :
    (run fe (evs ++ [.shutdown])).trie = [] ∧
    (∀ i : Nat, (run fe (evs ++ [.shutdown])).sts[i]? ≠ some IState.waiting) ∧
    ∀ (i : Nat) (I : Interest), (run fe evs).ints[i]? = some I → (run fe evs).sts[i]? = some IState.waiting →
      (run fe (evs ++ [.shutdown])).sts[i]? = some (resolve (run fe evs).clock I.toReq .cancelled) := by
  have hinv := inv_run fe evs
  rw [run_snoc]
  obtain ⟨_, b, _, _, _, e, _, g⟩ := shutdown_eff hinv
  refine ⟨e, ?_, ?_⟩
  · intro i hw
    have hinv' := (step_inv hinv fe .shutdown).1
    have hlt : i < (step fe (run fe evs) .shutdown).ints.length := by
      rw [← hinv'.len]; exact (List.getElem?_eq_some_iff.mp hw).1
    have := (hinv'.waiting i (step fe (run fe evs) .shutdown).ints[i] (by simp [hlt]) hw).1
    change _ ∈ (onShutdown (run fe evs)).trie at this
    rw [e] at this; simp at this
  · intro i I hi hw
    have := g i I .waiting hi hw
    simp only [if_true] at this
    exact this

/-- the first await never comes after the effective deadline (`expiry`) -/
theorem await_le_deadline (fe : FrontEnd) (evs : List Ev) (i : Nat) (I : Interest)
    (hi : (run fe evs).ints[i]? = some I) : I.awaitAt ≤ I.deadline := by
  induction evs using list_rev_induction generalizing i I with
  | h0 => simp [run, init] at hi
  | hs l ev ih =>
    rw [run_snoc] at hi
    cases hx : isExpress ev with
    | false =>
      rw [(step_eff_nonexpress (inv_run fe l) fe ev hx).2.2.1] at hi
      exact ih i I hi
    | true =>
      cases ev with
      | express nm imp cbp life v lat defer nr =>
        obtain ⟨_, _, _, _, nid, f⟩ := step_eff_express (inv_run fe l) fe nm imp cbp life v lat defer nr
        rw [f] at hi
        rcases getElem?_concat_cases hi with h0 | ⟨_, h1⟩
        · exact ih i I h0
        · rw [h1]; exact expiry_ge fe _ life defer
      | _ => simp [isExpress] at hx

/-- **complete_exactly_once_after (deadline).** After a tick at or beyond its (effective) deadline an Interest is not
    waiting any more, in either front-end; in the current front-end it has its completion record (together with
    `complete_at_most_once`: exactly one, for ever).  In the legacy front-end it may still be validating a Data
    taken before the deadline (finding F15: the validator runs outside `wait_for`). -/
theorem complete_exactly_once_after_deadline (fe : FrontEnd) (evs : List Ev) (t : Nat) (i : Nat) (I : Interest)
    (hi : (run fe evs).ints[i]? = some I) (hd : I.deadline ≤ max (run fe evs).clock t) :
    (run fe (evs ++ [.tick t])).sts[i]? ≠ some IState.waiting ∧
    (fe = .v2 → ∃ o t', (run fe (evs ++ [.tick t])).sts[i]? = some (IState.done o t')) := by
  have hinv := inv_run fe evs
  have hlt := hinv.idx_lt hi
  have hs : (run fe evs).sts[i]? = some (run fe evs).sts[i] := by simp [hlt]
  rw [tick_fires_due_timers fe evs t i I _ hi hs]
  generalize (run fe evs).sts[i] = s
  have hd' : I.toReq.deadline ≤ max (run fe evs).clock t := hd
  have ha : I.toReq.awaitAt ≤ max (run fe evs).clock t := Nat.le_trans (await_le_deadline fe evs i I hi) hd
  constructor
  · cases s with
    | waiting => simp [specFire, hd']
    | done o t' => simp [specFire]
    | held o => simp [specFire, ha]
    | validating d fin => exact fun h => specFire_ne_waiting_of (by simp) (Option.some.inj h)
  · intro hfe; subst hfe
    cases s with
    | waiting => exact ⟨.timeout, I.deadline, by simp [specFire, hd']⟩
    | done o t' => exact ⟨o, t', by simp [specFire]⟩
    | held o => exact ⟨o, I.awaitAt, by simp [specFire, ha]⟩
    | validating d fin =>
      simp only [specFire]
      cases validatorOutcome .v2 I.verdict d with
      | none => exact ⟨.timeout, I.deadline, by simp [hd']⟩
      | some o =>
        by_cases hf : fin ≤ max (run .v2 evs).clock t ∧ fin < I.deadline
        · exact ⟨o, max fin I.awaitAt, by simp [hf, ha]⟩
        · exact ⟨.timeout, I.deadline, by simp [hf, hd']⟩

/-- **outcome_correct.** Whatever state an Interest is in after a history - any history: lifetime 0, late awaits,
    `no_response` and same-turn ties included - is justified by that history (`Justified`):
    * a payload / validation failure / validator error for Data `d`: a Data with that content matching the
      Interest arrived while it was waiting and not after its deadline (`TakenAt`), the supplied validator's answer
      maps to exactly this outcome, the future was resolved at validator start + latency (current front-end: before
      the deadline, or in the instant the Data came) and the caller learnt it then or, awaiting later, at its first
      await;
    * `timeout`: stamped with the effective deadline (`expiry`), and the deadline has come;
    * `nack r`: a Nack with reason `r` naming exactly this Interest arrived while it was waiting;
    * `cancelled`: the caller cancelled this Interest, or the application shut down;
    * `noResponse`: expressed with `no_response` (current front-end), at that time;
    * still waiting: the deadline has not passed; validating: the Data was taken as above; held: resolved as
      above, the first await is still to come. -/
theorem outcome_correct (fe : FrontEnd) (evs : List Ev) (i : Nat) (I : Interest)
    (s : IState) (hi : (run fe evs).ints[i]? = some I) (hs : (run fe evs).sts[i]? = some s) :
    Justified fe evs i I.toReq s := by
  have href := run_refines fe evs
  apply spec_justified fe evs i I.toReq s
  · rw [← href]; simp [abs, hi]
  · rw [← href]; exact hs

/-- **outcome_correct (no ties).** In a history without ties (`NoTie`: no packet handled ahead of the timers of its
    instant) a Data is only ever taken strictly before the deadline, and a waiting Interest has not reached it. -/
theorem outcome_correct_no_tie (fe : FrontEnd) (evs : List Ev) (hn : NoTie evs) (i : Nat) (I : Interest)
    (hi : (run fe evs).ints[i]? = some I) :
    (∀ d a, TakenAt fe evs i I.toReq d a → a < I.deadline) ∧
    ((run fe evs).sts[i]? = some .waiting → (run fe evs).clock < I.deadline) := by
  have href := run_refines fe evs
  have hr : (Spec.run fe evs).reqs[i]? = some I.toReq := by rw [← href]; simp [abs, hi]
  refine ⟨fun d a hT => taken_before_deadline fe evs hn hr hT, fun hw => ?_⟩
  have := waiting_before_deadline fe evs hn i I.toReq hr (by rw [← href]; exact hw)
  rw [← href] at this; exact this

/-- **frame.** The state of an Interest after any history is a function (`reqTrace`) of its own request, its
    index, the clock at express time and the events that followed - whatever else was expressed before or after,
    on the same, nested or other names, and whatever happened to those Interests. -/
theorem frame (fe : FrontEnd) (pre post : List Ev) (nm : Name) (imp : Option Nat) (cbp : Bool) (life : Nat)
    (v : Verdict) (lat defer : Nat) (nr : Bool) :
    (run fe (pre ++ .express nm imp cbp life v lat defer nr :: post)).sts[(run fe pre).ints.length]? =
      some (reqTrace fe (run fe pre).ints.length (mkReq fe (run fe pre).clock nm imp cbp life v lat defer)
        (run fe pre).clock
        (specFire fe (run fe pre).clock (mkReq fe (run fe pre).clock nm imp cbp life v lat defer)
          (initSt fe (run fe pre).clock nr)) post) := by
  have hinv := inv_run fe pre
  obtain ⟨a, _, c, e, nid, f⟩ := step_eff_express hinv fe nm imp cbp life v lat defer nr
  have h1 : run fe (pre ++ .express nm imp cbp life v lat defer nr :: post) =
      post.foldl (step fe) (step fe (run fe pre) (.express nm imp cbp life v lat defer nr)) := by
    simp [run, List.foldl_append]
  rw [h1, trace_from fe post a (i := (run fe pre).ints.length)
    (I := ⟨mkReq fe (run fe pre).clock nm imp cbp life v lat defer, nid⟩)
    (s := specFire fe (run fe pre).clock (mkReq fe (run fe pre).clock nm imp cbp life v lat defer)
      (initSt fe (run fe pre).clock nr))
    (by rw [f]; simp) (by rw [e, ← hinv.len]; simp), c]

/-- **no_response (current front-end).** An Interest expressed with `no_response` is off the books from the start:
    its record says so, for ever, and the table of pending Interests is what it was. -/
theorem no_response_off_the_books (evs evs' : List Ev) (nm : Name) (imp : Option Nat) (cbp : Bool) (life : Nat)
    (v : Verdict) (lat defer : Nat) :
    (run .v2 (evs ++ .express nm imp cbp life v lat defer true :: evs')).sts[(run .v2 evs).ints.length]? =
      some (.done .noResponse (run .v2 evs).clock) ∧
    (run .v2 (evs ++ [.express nm imp cbp life v lat defer true])).trie = (run .v2 evs).trie ∧
    (run .v2 (evs ++ [.express nm imp cbp life v lat defer true])).heap = (run .v2 evs).heap := by
  refine ⟨?_, ?_, ?_⟩
  · have h0 : (run .v2 (evs ++ [.express nm imp cbp life v lat defer true])).sts[(run .v2 evs).ints.length]? =
        some (.done .noResponse (run .v2 evs).clock) := by
      have := frame .v2 evs [] nm imp cbp life v lat defer true
      simpa [reqTrace, initSt, silent_v2, specFire] using this
    have := complete_at_most_once .v2 (evs ++ [.express nm imp cbp life v lat defer true]) evs' _ _ _ h0
    simpa using this
  · rw [run_snoc]; simp [step, onExpress, silent_v2]
  · rw [run_snoc]; simp [step, onExpress, silent_v2]

/-- the legacy front-end has no `no_response`: the keyword changes nothing -/
theorem no_response_ignored_v1 (σ : State) (nm : Name) (imp : Option Nat) (cbp : Bool) (life : Nat)
    (v : Verdict) (lat defer : Nat) :
    step .v1 σ (.express nm imp cbp life v lat defer true) = step .v1 σ (.express nm imp cbp life v lat defer false) := by
  simp [step, onExpress, silent_v1]

/-- **effective deadline.** Awaited at once: express time + lifetime - except lifetime 0 in the current front-end,
    which is 100 ms; awaited `defer` later: legacy = await + lifetime; current = the original deadline when the
    await comes before it, await + 100 ms otherwise. -/
theorem expiry_cases (now life defer : Nat) :
    expiry .v1 now life defer = now + defer + life ∧
    (defer < life → expiry .v2 now life defer = now + life) ∧
    (life ≤ defer → expiry .v2 now life defer = now + defer + 100) := by
  refine ⟨rfl, ?_, ?_⟩
  · intro h; rw [expiry_v2, if_pos (by omega)]
  · intro h; rw [expiry_v2, if_neg (by omega)]

/-! ### ties: the theorems hold whichever way the events of a turn are ordered -/

/-- `allowed` is the set of outcome vectors of the linearisations. -/
theorem tie_allowed_iff (fe : FrontEnd) (h : List Turn) (v : List IState) :
    v ∈ allowed fe h ↔ ∃ l ∈ lins h, (run fe l).sts = v := mem_allowed fe h v

/-- The linearisations of one turn: every order (`List.Perm`) of its events, with the timers of the instant after
    any number of them. -/
theorem tie_turn_orders (u : Turn) (l : List Ev) :
    l ∈ u.lins ↔ ∃ p, p.Perm u.evs ∧ ∃ k, k ≤ p.length ∧ l = Turn.lin u.t p k := Turn.mem_lins

/-- The plain reading (timers first, events as listed) is always one of the linearisations. -/
theorem tie_plain_allowed (fe : FrontEnd) (h : List Turn) : (run fe (plain h)).sts ∈ allowed fe h :=
  (mem_allowed fe h _).mpr ⟨_, plain_mem_lins h, rfl⟩

/-- The set of states the driver explores turn by turn is exactly the set of final states of the linearisations. -/
theorem tie_reachable_exact (fe : FrontEnd) (h : List Turn) (σ : State) :
    σ ∈ reachable fe h ↔ ∃ l ∈ lins h, run fe l = σ := mem_reachable fe h σ

/-- refinement, whichever way the ties resolve -/
theorem tie_refines_spec (fe : FrontEnd) (h : List Turn) : ∀ σ ∈ reachable fe h, ∃ l ∈ lins h, abs σ = Spec.run fe l := by
  intro σ hσ
  obtain ⟨l, hl, rfl⟩ := (mem_reachable fe h σ).mp hσ
  exact ⟨l, hl, run_refines fe l⟩

/-- no callback raises, whichever way the ties resolve -/
theorem tie_no_internal_error (fe : FrontEnd) (h : List Turn) : ∀ σ ∈ reachable fe h, σ.errs = [] := by
  intro σ hσ
  obtain ⟨l, _, rfl⟩ := (mem_reachable fe h σ).mp hσ
  exact no_internal_error fe l

/-- a completion record never changes, whichever way the ties before and after it resolve: every state reachable
    over `h ++ h'` extends a state reachable over `h` and keeps all its completion records -/
theorem tie_complete_at_most_once (fe : FrontEnd) (h h' : List Turn) :
    ∀ σ' ∈ reachable fe (h ++ h'), ∃ σ ∈ reachable fe h,
      ∀ (i : Nat) (o : Outcome) (t : Nat), σ.sts[i]? = some (IState.done o t) → σ'.sts[i]? = some (IState.done o t) := by
  intro σ' hσ'
  obtain ⟨l, hl, rfl⟩ := (mem_reachable fe _ σ').mp hσ'
  obtain ⟨a, ha, b, _, rfl⟩ := mem_lins_append.mp hl
  exact ⟨run fe a, (mem_reachable fe h _).mpr ⟨a, ha, rfl⟩, fun i o t hd => complete_at_most_once fe a b i o t hd⟩

/-- nothing of a finished Interest remains, whichever way the ties resolve -/
theorem tie_nothing_remains (fe : FrontEnd) (h : List Turn) : ∀ σ ∈ reachable fe h, ∀ (i : Nat) (o : Outcome) (t : Nat),
    σ.sts[i]? = some (IState.done o t) → ∀ b ∈ σ.trie, i ∉ pend σ b.2 := by
  intro σ hσ i o t hd
  obtain ⟨l, _, rfl⟩ := (mem_reachable fe h σ).mp hσ
  exact nothing_remains fe l i o t hd

/-- the table is empty when nobody waits, whichever way the ties resolve -/
theorem tie_pit_empty_at_quiescence (fe : FrontEnd) (h : List Turn) : ∀ σ ∈ reachable fe h,
    (∀ i : Nat, σ.sts[i]? ≠ some IState.waiting) → σ.trie = [] ∧ pitSize σ = (0, 0) := by
  intro σ hσ hq
  obtain ⟨l, _, rfl⟩ := (mem_reachable fe h σ).mp hσ
  exact pit_empty_at_quiescence fe l hq

/-- every state of every Interest is justified by the linearisation that led to it -/
theorem tie_outcome_correct (fe : FrontEnd) (h : List Turn) : ∀ σ ∈ reachable fe h, ∃ l ∈ lins h, run fe l = σ ∧
    ∀ i I s, σ.ints[i]? = some I → σ.sts[i]? = some s → Justified fe l i I.toReq s := by
  intro σ hσ
  obtain ⟨l, hl, rfl⟩ := (mem_reachable fe h σ).mp hσ
  exact ⟨l, hl, rfl, fun i I s hi hs => outcome_correct fe l i I s hi hs⟩

/-- frame, in every linearisation: the Interest expressed by the `k`-th event of a linearisation depends on its own
    request and on the later events of that linearisation only -/
theorem tie_frame (fe : FrontEnd) (h : List Turn) (l : List Ev) (_hl : l ∈ lins h) (pre post : List Ev) (nm : Name)
    (imp : Option Nat) (cbp : Bool) (life : Nat) (v : Verdict) (lat defer : Nat) (nr : Bool)
    (hsplit : l = pre ++ .express nm imp cbp life v lat defer nr :: post) :
    (run fe l).sts[(run fe pre).ints.length]? =
      some (reqTrace fe (run fe pre).ints.length (mkReq fe (run fe pre).clock nm imp cbp life v lat defer)
        (run fe pre).clock
        (specFire fe (run fe pre).clock (mkReq fe (run fe pre).clock nm imp cbp life v lat defer)
          (initSt fe (run fe pre).clock nr)) post) := by
  rw [hsplit]; exact frame fe pre post nm imp cbp life v lat defer nr

/-- a history of turns without ties read plainly has no `reach` -/
theorem tie_plain_no_tie (h : List Turn) (hp : Plain h) : NoTie (plain h) := noTie_plain hp

/-! ### the hypotheses are satisfiable: concrete non-trivial histories -/

/-- two Interests on one name, a Data for both, a late Nack, then a tick -/
def demo : List Ev :=
  [.express [1, 2] none false 50 .pass 0 0 false, .tick 10, .express [1, 2] none true 100 .fail 30 0 false,
   .express [1] none true 100 .pass 0 0 false, .tick 20, .data [1, 2] 1 7, .nack [1, 2] none 150, .tick 60]

example : (run .v2 demo).sts = [.done (.data 7) 20, .done (.valFail 7 .fail) 50, .done (.data 7) 20] := by decide
example : (run .v2 demo).errs = [] ∧ (run .v2 demo).trie = [] := by decide
-- complete_at_most_once / nothing_remains: a completion record exists
example : (run .v1 (demo.take 6)).sts[0]? = some (.done (.data 7) 20) := by decide
-- one_data_all_matching_no_others: the third Interest (CanBePrefix, shorter name) matches, a sibling would not
example : Matches (⟨[1], none, true, 100, .pass, 0, 0⟩ : Req) [1, 2] 1 ∧
    ¬ Matches (⟨[1, 3], none, true, 100, .pass, 0, 0⟩ : Req) [1, 2] 1 := by
  decide
-- complete_exactly_once_after_deadline: an Interest whose deadline is reached by the tick
example : ((run .v2 (demo.take 3)).ints[0]?).map (·.deadline) = some 50 := by decide
-- outcome_correct_no_tie: the demo history has no ties
example : NoTie demo := by
  intro ev hev t
  simp only [demo, List.mem_cons, List.not_mem_nil, or_false] at hev
  rcases hev with h | h | h | h | h | h | h | h <;> subst h <;> simp
-- a node that was unlinked while its validator runs, a new node under the same name, the old Interest's
-- deadline: the new node survives (finding F6b is the failure of exactly this)
example : (run .v2 [.express [1] none false 50 .pass 80 0 false, .data [1] 1 0,
    .express [1] none false 500 .pass 0 0 false, .tick 60]).trie = [([1], 1)] := by decide

-- nack_exactly_the_named / cancel_only_its_target / tick_fires_due_timers / one_data…: an expressed, waiting Interest
example : (run .v1 (demo.take 3)).sts[1]? = some .waiting ∧
    ((run .v1 (demo.take 3)).ints[1]?).map (·.name) = some [1, 2] := by decide
-- linked_entries_are_waiting / nothing_remains: a linked node with two entries, and a non-empty trie
example : (run .v2 (demo.take 5)).trie = [([1, 2], 0), ([1], 1)] ∧ pend (run .v2 (demo.take 5)) 0 = [0, 1] := by decide
-- pit_empty_at_quiescence: nobody waits after the demo
example : ∀ i : Nat, (run .v2 demo).sts[i]? ≠ some IState.waiting := by
  intro i
  have : (run .v2 demo).sts = [.done (.data 7) 20, .done (.valFail 7 .fail) 50, .done (.data 7) 20] := by decide
  rw [this]
  match i with
  | 0 | 1 | 2 => simp
  | n + 3 => simp
-- complete_exactly_once_after_shutdown: a waiting Interest is cancelled, a validating one is left to its validator
example : (run .v2 (demo.take 6 ++ [.shutdown])).sts =
    [.done (.data 7) 20, .validating 7 50, .done (.data 7) 20] := by decide
example : (run .v2 (demo.take 5 ++ [.shutdown])).sts =
    [.done .cancelled 20, .done .cancelled 20, .done .cancelled 20] := by decide
-- frame: the second Interest of the demo, as a function of its own request and the later events
example : reqTrace .v2 1 ⟨[1, 2], none, true, 110, .fail, 30, 10⟩ 10 .waiting (demo.drop 3) = .done (.valFail 7 .fail) 50 := by
  decide

/-! #### lifetime 0 -/

-- current front-end: lifetime 0 is a lifetime of 100 ms: a Data after 50 ms is returned, without one the timeout
-- comes at 100
example : (run .v2 [.tick 10, .express [1] none false 0 .pass 0 0 false, .tick 60, .data [1] 1 5, .tick 500]).sts =
    [.done (.data 5) 60] := by decide
example : (run .v2 [.tick 10, .express [1] none false 0 .pass 0 0 false, .tick 500]).sts = [.done .timeout 110] := by
  decide
-- legacy front-end: `wait_for(.., 0)` times out in the very instant of express; the entry is gone at once and a
-- later Data finds nobody
example : (run .v1 [.tick 10, .express [1] none false 0 .pass 0 0 false]).sts = [.done .timeout 10] ∧
    (run .v1 [.tick 10, .express [1] none false 0 .pass 0 0 false]).trie = [] := by decide
example : (run .v1 [.tick 10, .express [1] none false 0 .pass 0 0 false, .tick 50, .data [1] 1 5]).sts =
    [.done .timeout 10] := by decide

/-! #### no_response -/

example : (run .v2 [.tick 10, .express [1] none false 50 .pass 0 0 true, .tick 40, .data [1] 1 5, .tick 500]).sts =
    [.done .noResponse 10] := by decide
-- ... and it does not get in the way of a proper Interest for the same name
example : (run .v2 [.tick 10, .express [1] none false 50 .pass 0 0 true, .express [1] none false 50 .pass 0 0 false,
    .tick 40, .data [1] 1 5]).sts = [.done .noResponse 10, .done (.data 5) 40] := by decide
-- the legacy front-end ignores the keyword
example : (run .v1 [.tick 10, .express [1] none false 50 .pass 0 0 true, .tick 40, .data [1] 1 5]).sts =
    [.done (.data 5) 40] := by decide

/-! #### late await (express at 10, lifetime 53) -/

-- awaited 20 ms later, inside the lifetime: the original deadline stands (current), a fresh lifetime starts (legacy)
example : (run .v2 [.tick 10, .express [1] none false 53 .pass 0 20 false, .tick 500]).sts = [.done .timeout 63] := by
  decide
example : (run .v1 [.tick 10, .express [1] none false 53 .pass 0 20 false, .tick 500]).sts = [.done .timeout 83] := by
  decide
-- awaited 60 ms later, after the lifetime: 100 ms of grace from the await (current): a Data 80 ms into the grace
-- period is returned, one after it comes too late
example : (run .v2 [.tick 10, .express [1] none false 53 .pass 0 60 false, .tick 150, .data [1] 1 5, .tick 500]).sts =
    [.done (.data 5) 150] := by decide
example : (run .v2 [.tick 10, .express [1] none false 53 .pass 0 60 false, .tick 180, .data [1] 1 5, .tick 500]).sts =
    [.done .timeout 170] := by decide
-- a Data that arrives before anybody awaits resolves the future; the caller gets it at its first await
-- (the legacy front-end starts the validator only then)
example : (run .v2 [.tick 10, .express [1] none false 53 .pass 0 60 false, .tick 40, .data [1] 1 5]).sts =
    [.held (.data 5)] := by decide
example : (run .v2 [.tick 10, .express [1] none false 53 .pass 0 60 false, .tick 40, .data [1] 1 5, .tick 500]).sts =
    [.done (.data 5) 70] := by decide
example : (run .v1 [.tick 10, .express [1] none false 53 .pass 44 60 false, .tick 40, .data [1] 1 5, .tick 500]).sts =
    [.done (.data 5) 114] ∧
    (run .v1 [.tick 10, .express [1] none false 53 .pass 44 60 false, .tick 40, .data [1] 1 5, .tick 500]).vcalls =
    [(0, 5, 70)] := by decide
-- before the first await there is nothing the caller could cancel
example : (run .v2 [.tick 10, .express [1] none false 53 .pass 0 60 false, .tick 40, .cancel 0, .tick 500]).sts =
    [.done .timeout 170] := by decide

/-! #### ties -/

/-- Interest with deadline 63; a matching Data arrives in the turn of instant 63 -/
def tieDemo : List Turn :=
  [⟨10, [.express [1] none false 53 .pass 0 0 false]⟩, ⟨63, [.data [1] 1 5]⟩, ⟨500, []⟩]

-- the two orders give different outcomes, and both are allowed
example : allowed .v2 tieDemo =
    [[.done .timeout 63], [.done (.data 5) 63], [.done .timeout 63], [.done (.data 5) 63]] := by decide
example : (reachable .v2 tieDemo).map (·.sts) = [[.done .timeout 63], [.done (.data 5) 63]] := by decide +kernel
-- a burst: two Data for one Interest in one turn - either may be the one that is returned
example : (reachable .v1 [⟨10, [.express [1] none true 53 .pass 0 0 false]⟩,
    ⟨20, [.data [1] 1 5, .data [1, 2] 2 6]⟩]).map (·.sts) = [[.done (.data 5) 20], [.done (.data 6) 20]] := by
  decide +kernel
-- a caller's cancellation and a Nack in one turn
example : (reachable .v2 [⟨10, [.express [1] none false 53 .pass 0 0 false]⟩,
    ⟨20, [.cancel 0, .nack [1] none 150]⟩]).map (·.sts) = [[.done .cancelled 20], [.done (.nack 150) 20]] := by
  decide +kernel
-- without a timer due at the instant and with a single event the turn has one outcome
example : (reachable .v2 [⟨10, [.express [1] none false 53 .pass 0 0 false]⟩, ⟨20, [.data [1] 1 5]⟩]).map (·.sts) =
    [[.done (.data 5) 20]] := by decide +kernel
example : Plain tieDemo := by
  intro u hu ev hev t
  simp only [tieDemo, List.mem_cons, List.not_mem_nil, or_false] at hu
  rcases hu with h | h | h <;> subst h <;> simp at hev <;> subst hev <;> simp

/-! ### what the model takes from the source text

`Ndn.Gen.C03` (lean/NdnGen/C03.lean) is regenerated from `src/ndn/appv2.py`, `src/ndn/app.py` and
`src/ndn/name_tree.py` by every check run (`harness/props/pit_extract.py`, `ast` only).  The model computes with its
constants, operators and class lists (`Pit.lifeOf`, `Pit.expiry`, `Pit.silent`, `Pit.validatorOutcome`); the theorems
above are therefore theorems about these generated values.  The entries it computes with are pinned in `NdnProofs/Lemmas/PitGen.lean` (`gen_lifetimes`,
`gen_wait_budget`, `gen_no_response`, `gen_data_verdict`, `gen_table_ok`: every lemma file of C03 / C05 is built on them);
the guards the model mirrors structurally are pinned here, entry by entry, to the normalised text the model was written from: a source edit that changes one of them changes the
table and the theorem naming that entry stops checking. -/

/-- **default lifetimes.** An Interest's own lifetime counts when it has one (0 included); without one the current
    front-end uses `DEFAULT_LIFETIME` = 4000 ms and the legacy front-end waits 100 ms. -/
theorem default_lifetime (fe : FrontEnd) (l : Nat) :
    lifeOf fe (some l) = l ∧ lifeOf .v2 none = 4000 ∧ lifeOf .v1 none = 100 :=
  ⟨lifeOf_some fe l, lifeOf_none_v2, lifeOf_none_v1⟩

/-- the `except` clauses around `wait_for`: `TimeoutError` → `_remove_pending`, `InterestTimeout`; `CancelledError` →
    `_remove_pending`, `InterestCanceled`; nothing else -/
theorem gen_wait_handlers :
    Gen.C03.v2.waitHandlers = [(.timeoutError, true, "InterestTimeout()"), (.cancelledError, true, "InterestCanceled()")] ∧
    Gen.C03.v1.waitHandlers = [(.timeoutError, true, "InterestTimeout()"), (.cancelledError, true, "InterestCanceled()")] := by
  decide

/-- `express_raw_interest`: implicit digest (a Type-1 component with a 32-byte value) split off, `setdefault` of the
    node, `append_interest`, send, wait -/
theorem gen_express :
    Gen.C03.v2.express = "{if Component.TYPE_IMPLICIT_SHA256 == Component.get_type(final_name[-1]) and len(Component.get_value(final_name[-1])) == 32: node_name = final_name[:-1]; implicit_sha256 = Component.get_value(final_name[-1]) else: node_name = final_name; implicit_sha256 = b''} PIT.setdefault(node_name, InterestTreeNode()) create_future,setdefault,append_interest,send,_wait_for_data" ∧
    Gen.C03.v1.express = Gen.C03.v2.express := ⟨rfl, rfl⟩

/-- `_remove_pending`: the node is unlinked only when it is empty AND still the node linked under the name -/
theorem gen_remove_pending :
    Gen.C03.v2.removePending = "{if node is PIT.get(node_name) and node.timeout(future): del PIT[node_name]}" ∧
    Gen.C03.v1.removePending = Gen.C03.v2.removePending := by decide

/-- `_on_data`: every prefix node is offered the Data with `prefix != name` as the is-prefix flag; emptied nodes are
    deleted after the walk -/
theorem gen_on_data :
    Gen.C03.v2.onData = "clean_list = []; {for (prefix, node) in PIT.prefixes(name): {if node.satisfy((name, meta_info, content, sig, raw_packet), prefix != name): clean_list.append(prefix)}}; {for prefix in clean_list: del PIT[prefix]}" ∧
    Gen.C03.v1.onData = Gen.C03.v2.onData := ⟨rfl, rfl⟩

/-- `_on_nack`: the node is deleted iff `nack_interest` says it is empty -/
theorem gen_on_nack :
    Gen.C03.v2.onNack = "node and node.nack_interest(nack_reason, implicit_sha256) => del PIT[node_name]" ∧
    Gen.C03.v1.onNack = Gen.C03.v2.onNack := by decide

/-- `_clean_up`: every node's futures are cancelled, the table is cleared -/
theorem gen_clean_up :
    Gen.C03.v2.cleanUp = "{for node in PIT.itervalues(): node.cancel()}; PIT.clear()" ∧
    Gen.C03.v1.cleanUp = "{for node in PIT.itervalues(): node.cancel()}; self._prefix_tree.clear(); PIT.clear()" := by
  decide

/-- `InterestTreeNode.satisfy` (`Pit.passes`, `Pit.satisfyNode`): CanBePrefix-or-exact, implicit digest compared with
    `==` when one was asked for, unsatisfied entries kept, the list replaced only when some are left -/
theorem gen_satisfy :
    Gen.C03.nodeV2.satisfyPasses = "ite(E.can_be_prefix or not is_prefix, ite(E.implicit_sha256, E.implicit_sha256 == sha256(data[4]).digest(), True), False)" ∧
    Gen.C03.nodeV2.satisfyElse = "L.append(E)" ∧
    Gen.C03.nodeV2.satisfyKeep = "{if L: self.pending_list = L; return False else: return True}" ∧
    Gen.C03.nodeV1.satisfyPasses = Gen.C03.nodeV2.satisfyPasses ∧ Gen.C03.nodeV1.satisfyElse = Gen.C03.nodeV2.satisfyElse ∧
    Gen.C03.nodeV1.satisfyKeep = Gen.C03.nodeV2.satisfyKeep := by decide

/-- a passed entry whose future is already done is skipped (`Pit.deliver`: only a `waiting` Interest changes state):
    legacy `if not entry.future.done(): set_result`; current: a validation task whose result is dropped by the guard in
    `PendingIntEntry.satisfy` -/
theorem gen_satisfy_done_guard :
    Gen.C03.nodeV1.satisfyHands = "{if not E.future.done(): E.future.set_result(data)}" ∧
    Gen.C03.nodeV2.satisfyHands = "create_task(E.satisfy(data))" ∧
    Gen.C03.nodeV2.satisfyDone = "if self.future.cancelled() or self.future.done(): return" := by decide

/-- `nack_interest` (`Pit.onNack`, `Pit.nackEntry`): entries with another implicit digest stay, the named ones are
    failed unless their future is already done, the list is replaced, the return value says whether it is empty -/
theorem gen_nack_interest :
    Gen.C03.nodeV2.nackKeep = "E.implicit_sha256 != implicit_sha256" ∧
    Gen.C03.nodeV2.nackFails = "E.implicit_sha256 == implicit_sha256 and (not E.future.done()) => E.future.set_exception(InterestNack(nack_reason))" ∧
    Gen.C03.nodeV2.nackList = "self.pending_list = L; return not L" ∧
    Gen.C03.nodeV1.nackKeep = Gen.C03.nodeV2.nackKeep ∧ Gen.C03.nodeV1.nackFails = Gen.C03.nodeV2.nackFails ∧
    Gen.C03.nodeV1.nackList = Gen.C03.nodeV2.nackList := by decide

/-- `timeout` removes exactly the entry of this future (identity), `cancel` cancels every future -/
theorem gen_timeout_cancel :
    Gen.C03.nodeV2.timeoutKeep = "E.future is not future" ∧ Gen.C03.nodeV2.timeoutReturn = "not L" ∧
    Gen.C03.nodeV2.cancel = "E.future.cancel() always" ∧
    Gen.C03.nodeV1.timeoutKeep = Gen.C03.nodeV2.timeoutKeep ∧ Gen.C03.nodeV1.timeoutReturn = Gen.C03.nodeV2.timeoutReturn ∧
    Gen.C03.nodeV1.cancel = Gen.C03.nodeV2.cancel := by decide

/-- what stands in for a missing Data validator (current: `FAIL`; legacy: the application-wide `data_validator`)
    and what a failure raises (current: `ValidationFailure` carrying the verdict; legacy: without one) -/
theorem gen_data_failure :
    Gen.C03.v2.dataNoValidator = "valid = ValidResult.FAIL" ∧
    Gen.C03.v2.dataFailure = "self.future.set_exception(ValidationFailure(name, meta_info, content, sig, valid))" ∧
    Gen.C03.v1.dataNoValidator = "validator = self.data_validator" ∧
    Gen.C03.v1.dataFailure = "raise ValidationFailure(data_name, meta_info, content, sig)" := by decide

/-- the outcome table the proofs use is what `Pit.validatorOutcome` comes to for the pinned values of the table -/
theorem outcome_table (fe : FrontEnd) (v : Verdict) (d : Nat) :
    validatorOutcome fe v d = validatorOutcomeRef fe v d := validatorOutcome_eq_ref fe v d

end Ndn.C03
