import NdnProofs.Lemmas.Lvs.Tables
import NdnProofs.Lemmas.Lvs.KeyText
import NdnModel.Lvs.Compile
import NdnGen.C11
/-!
  C11 - the tables `lean/NdnGen/C11.lean` is regenerated with from `compiler.py`, `checker.py` and `grammar.py` on every
  run, tied to the compiler / matcher models (`NdnModel/Lvs/{Compile,Match}.lean`).

  Pinned: the order of the compiler passes and what `compile` stores in the model header; every piece of the merge key
  `RuleChain.pattern_movement` builds (the separators `:` `{` `}` `,` `(` `)` and the prefixes `v=` `t=` the proof of
  `keyInj_of_wf` parses back), its control-flow skeleton, and that the model's `argStr` / `optStr` / `termStr` / `pmoveB`
  print exactly these pieces; the grammar's identifier terminals (`$` + C name is what `FnNameOK` needs); the tests of
  `Checker._match` and `_check_cons`; which trailing component `match` drops; the `#_` name of an anonymous node.
  A source edit that alters one of them changes the generated file and the theorem stops checking before any input is
  searched for.
-/
namespace Ndn.C11
open Ndn Ndn.Lvs

/-- **pass order**: `compile_lvs` = lark LALR parse, then `Compiler(ast).compile()`; `compile` runs
    1 `_sort_rule_references` (`sortRuleReferences`), 2 `_gen_pattern_numbers` (`genPatternNumbers`),
    3 `_replicate_rules` (`replicateRules`) [`chainsOf`], 4 `_generate_node(0, all chains, None, {})` (`genNode … 0 chains
    none [] 0 named.length`), 5 `_fix_signing_references` (`fixSigning`) [`buildModel`]; the temporary-tag counter starts
    at `len(named_pats)`, the header is `VERSION`, the start node, `len(named_pats)`. -/
theorem pass_order_table :
    Gen.C11.passOrder = ["_sort_rule_references()", "_gen_pattern_numbers()", "_replicate_rules()",
      "_generate_node(0, rule_chains, None, set())", "_fix_signing_references()"] ∧
    Gen.C11.compileAssigns = [("self.temp_tag_index", "len(self.named_pats)"), ("ret.version", "bny.VERSION"),
      ("ret.start_id", "start_node"), ("ret.named_pattern_cnt", "len(self.named_pats)"), ("ret.nodes", "self.node_pool")] ∧
    Gen.C11.compileLvsCalls = ["lark.Lark(lvs_grammar, parser='lalr', transformer=psr.Parser())", "parser.parse(lvs_text)",
      "Compiler(lvs_file)", "compiler.compile()"] ∧
    (∀ S, compile S = match chainsOf S with
      | .error e => .error e
      | .ok (chains, named) => match buildModel chains named with
        | .error e => .error e
        | .ok m => .ok (m, named)) ∧
    (∀ chains named m, buildModel chains named = .ok m → m.startId = 0 ∧ m.namedCnt = named.length) := by
  refine ⟨by decide, by decide, by decide, fun S => rfl, ?_⟩
  intro chains named m h
  unfold buildModel at h
  split at h
  · cases h
  · split at h
    · cases h
    · cases h; exact ⟨rfl, rfl⟩

/-- the `i`-th distinct string literal of the merge key, in order of first use in `pattern_movement` -/
def sep (i : Nat) : String := Gen.C11.keyLiterals.getD i "?"

/-- **merge key**: the literals, the operands of every concatenation and the control-flow skeleton of
    `pattern_movement` are the ones the model was written from. -/
theorem merge_key_source_table :
    Gen.C11.keyLiterals = [":", "{", "v=", "t=", "(", ")", ",", "}", ""] ∧
    Gen.C11.keyEmits = [["str(tag)", "':'"], ["'{'"], ["'v='", "opt.c.hex()"], ["'t='", "opt.id"], ["opt.fn", "'('"],
      ["'v='", "arg.c.hex()"], ["'t='", "arg.id"], ["')'"], ["','"], ["'}'"]] ∧
    Gen.C11.keyReturns = [["''"], ["str(tag)", "':'"], ["cons_set_str"]] ∧
    Gen.C11.keySkeleton = "if not isinstance(self.name[depth], psr.Pattern){R0;}if tag in prev_tags{R1;}S0;for cons in self.cons_set{if tag not in set((int(x) for x in cons.pat.id.split(' '))){continue;}E1;for opt in cons.options{if isinstance(opt, psr.ComponentValue){E2;}else{if isinstance(opt, psr.Pattern){E3;}else{if isinstance(opt, psr.FnCall){E4;for arg in opt.args{if isinstance(arg, psr.ComponentValue){E5;}else{E6;}}E7;}}}E8;}E9;}R2;" := by
  refine ⟨by decide, by decide, by decide, rfl⟩

/-- **the model prints the key from the generated pieces**: for every argument, option, constraint term, chain, tag:
    `argStr` / `optStr` / `termStr` / `pmoveB` are the concatenations of `pattern_movement` with the separators taken
    from the generated table (`sep 0` = `:`, `sep 1` = `{`, `sep 2` = `v=`, `sep 3` = `t=`, `sep 4` = `(`, `sep 5` = `)`,
    `sep 6` = `,`, `sep 7` = `}`). -/
theorem merge_key_model_table :
    (∀ v, argStr (.lit v) = sep 2 ++ toHex v) ∧ (∀ t, argStr (.pat t) = sep 3 ++ toString t) ∧
    (∀ v, optStr (.lit v) = sep 2 ++ toHex v) ∧ (∀ t, optStr (.pat t) = sep 3 ++ toString t) ∧
    (∀ f args, optStr (.fn f args) = f ++ sep 4 ++ String.join (args.map argStr) ++ sep 5) ∧
    (∀ t, termStr t = sep 1 ++ String.join (t.opts.map (fun o => optStr o ++ sep 6)) ++ sep 7) ∧
    (∀ rc tag, (pmoveB rc tag true).2 = toString tag ++ sep 0) ∧
    (∀ rc tag, (pmoveB rc tag false).2 =
      toString tag ++ sep 0 ++ String.join ((rc.cons.filter (fun t => t.pat.contains tag)).map termStr)) :=
  ⟨fun _ => rfl, fun _ => rfl, fun _ => rfl, fun _ => rfl, fun _ _ => rfl, fun _ => rfl, fun _ _ => rfl, fun _ _ => rfl⟩

/-- **what the key needs of a user-function name** is stated with the generated separators: `FnNameOK f` (hypothesis of
    the injectivity proof, part of `Schema.WF`) says that none of `(` `,` `}` - the literals that follow a function name,
    an option and a constraint in the key - occurs in `f`; the grammar's terminals make every function name `$` + C name
    (letters, digits, `_`), every rule name `#` + C name and every pattern a C name. -/
theorem fn_name_table :
    (∀ f, FnNameOK f ↔ ∀ c ∈ f.toList, c ∉ (sep 4 ++ sep 6 ++ sep 7).toList) ∧
    Gen.C11.grammarTerminals = [("TAG_IDENT", "CNAME"), ("RULE_IDENT", "\"#\" CNAME"), ("FN_IDENT", "\"$\" CNAME")] ∧
    Gen.C11.grammarImports = ["common (DIGIT, LETTER, WS, CNAME, CPP_COMMENT)", "common.ESCAPED_STRING -> STR"] := by
  refine ⟨?_, by decide, by decide⟩
  intro f
  have e : (sep 4 ++ sep 6 ++ sep 7).toList = ['(', ',', '}'] := by decide
  rw [e]
  unfold FnNameOK
  constructor
  · intro h c hc; have := h c hc; simp; exact this
  · intro h c hc; have := h c hc; simpa using this

/-- **node generation**: node ids are positions in the pool, moves are grouped by distinct sorted key, a named tag is
    kept and a temporary one takes the next number above the named patterns -/
theorem generate_node_table :
    Gen.C11.generateNodeAssigns = [("node.id", "len(self.node_pool)"), ("node.parent", "parent"),
      ("p_move_strs", "sorted(list(set((pm[2] for pm in p_moves))))"), ("edge.tag", "tag"),
      ("self.temp_tag_index", "Add 1"), ("edge.tag", "self.temp_tag_index")] ∧
    Gen.C11.generateNodeTests = ["depth == len(rc.name)", "tag >= 0"] := by
  refine ⟨by decide, by decide⟩

/-- **the matcher's tests**, in source order, with the model function that implements each: `_match` - the loop
    (`runG`), a complete name yields (`stepG`), value edges first (`firstV`), then the pattern edges in order, a bound
    tag must repeat its value and the constraints are checked in either case (`tryEdge`), only tags up to
    `named_pattern_cnt` are recorded (`tryEdge`: `t ≤ cnt`), backtracking pops the edge index and the binding
    (`backtrack`); `_check_cons` - value, tag (`context.get`), user function with arguments `context.get(arg.tag,
    arg.value)` in order (`evalOpt`, `argVal`), an undefined function raises, every constraint needs one option
    (`evalClause`, `checkCons`). -/
theorem matcher_tests_table :
    Gen.C11.matchTests = ["while cur is not None", "depth == len(name)", "edge_index < 0", "name[depth] == ve.value",
      "edge_index < len(node.p_edges)", "pe.tag in context and value != context[pe.tag]",
      "not self._check_cons(value, context, pe.cons_sets)", "pe.tag in context",
      "pe.tag <= self.model.named_pattern_cnt", "backtrack", "edge_indices", "matches", "last_tag >= 0"] ∧
    Gen.C11.checkConsTests = ["op.value is not None", "value == op.value", "op.tag is not None",
      "value == context.get(op.tag, None)", "fn_id not in self.user_fns", "self.user_fns[fn_id](value, args)",
      "not satisfied"] ∧
    Gen.C11.checkConsArgs = "[context.get(arg.tag, arg.value) for arg in op.fn.args]" := by
  refine ⟨by decide, by decide, by decide⟩

/-- **`Checker.match`**: one `if` drops the last component of `name` when its type is one of the generated types - and the
    model's `stripDigest` drops it exactly then; the search starts from the empty context; a node without rule name is
    reported under the generated prefix + its id. -/
theorem match_frontend_table :
    (∀ e ∈ Gen.C11.matchDigestStrip, e.1 = "name" ∧ e.2.1 = "if" ∧
      ∀ (n : List Bytes) (c : Bytes) (t s : Nat), parseTlNum c 0 = .ok (t, s) →
        stripDigest (n ++ [c]) = .ok (if e.2.2.contains t then n else n ++ [c])) ∧
    Gen.C11.matchDigestStrip.length = 1 ∧
    Gen.C11.matchMatchCalls = ["name, {}"] ∧
    (∀ (m : Model) (n : Nat) (node : Node), m.nodes[n]? = some node → node.ruleNames = [] →
      Gen.C11.anonymousPrefix.map (· ++ toString n) = ruleNamesOf m n) := by
  refine ⟨?_, by decide, by decide, ?_⟩
  · intro e he
    have : e = ("name", "if", [1]) := by simpa [Gen.C11.matchDigestStrip] using he
    subst this
    refine ⟨rfl, rfl, ?_⟩
    intro n c t s h
    rw [stripDigest_spec n c t s h]
    by_cases ht : t = 1 <;> simp [ht]
  · intro m n node h he
    rw [ruleNamesOf_anonymous m n node h he]
    rfl

end Ndn.C11
