import NdnProofs.Lemmas.Svs
import NdnProofs.Lemmas.SvsBytes
import NdnProofs.Lemmas.SvsReach
import NdnProofs.Lemmas.SvsX
/-!
# C18 — State-vector sync merges monotonically and announces exactly when needed

Theorems about `Ndn.Svs.step` / `run` (model of `SvsInst.sync_handler`, `aggregate`, `on_timer`,
`new_data`), for **every** state, every received vector and every event history.
Specification vocabulary (does not mention the implementation):
* `vecOf es`  — the vector a list of decoded entries denotes (a total function NodeId → SeqNo);
* `overclaims` — some entry claims more data for this node than it has produced;
* `accepted`  — the vector is non-empty and does not over-claim;
* `heardStep` — ghost: entry-wise maximum of the vectors heard in the current suppression period.
-/
namespace Ndn.C18
open Ndn Ndn.Svs

/-- well-formedness of a state: the local vector is a dict (unique keys) and never claims more for
    this node than it has produced -/
def WF (s : State) : Prop := (PyDict.keys s.loc).Nodup ∧ vget s.loc s.selfId ≤ s.selfSeq

def accepted (s : State) (es : List Entry) : Prop :=
  es ≠ [] ∧ ¬ overclaims s.selfId s.selfSeq es

theorem step_recv_accepted (s : State) (es : List Entry) (h : accepted s es) :
    ∃ rsv, buildRsv s.selfId s.selfSeq es [] = some rsv ∧ step s (.recv es) = afterBuild s rsv := by
  obtain ⟨hne, hov⟩ := h
  cases hb : buildRsv s.selfId s.selfSeq es [] with
  | none => exact absurd ((buildRsv_none_iff _ _ _ _).mp hb) hov
  | some rsv =>
    have hemp : es.isEmpty = false := by cases es <;> simp_all
    exact ⟨rsv, rfl, by simp [step, hemp, hb]⟩

/-- **local_is_max.** After an accepted vector the local vector is the entry-wise maximum of its
    previous value and the received vector. -/
theorem local_is_max (s : State) (es : List Entry) (h : accepted s es) (k : Bytes) :
    vget (step s (.recv es)).1.loc k = max (vget s.loc k) (vecOf es k) := by
  obtain ⟨rsv, hb, hs⟩ := step_recv_accepted s es h
  have hr := buildRsv_some _ _ _ _ _ hb
  rw [hs, afterBuild_loc, mergeLoop_loc, lmax_eq_vget rsv (hr.2 (by simp [PyDict.keys])), hr.1 k]
  rfl

/-- A vector that is not accepted changes nothing and triggers nothing. -/
theorem rejected_unchanged (s : State) (es : List Entry) (h : ¬ accepted s es) :
    step s (.recv es) = (s, []) := by
  unfold accepted at h
  by_cases he : es = []
  · subst he; simp [step]
  · have hov : overclaims s.selfId s.selfSeq es := by
      by_cases ho : overclaims s.selfId s.selfSeq es
      · exact ho
      · exact absurd ⟨he, ho⟩ h
    have := (buildRsv_none_iff s.selfId s.selfSeq es []).mpr hov
    have hemp : es.isEmpty = false := by cases es <;> simp_all
    simp [step, this, hemp]

/-- **overclaim_ignored_entirely.** A vector claiming more data for this node than it has produced
    is ignored entirely: no state change, no callback, no emission. -/
theorem overclaim_ignored_entirely (s : State) (es : List Entry)
    (h : overclaims s.selfId s.selfSeq es) : step s (.recv es) = (s, []) :=
  rejected_unchanged s es (fun a => a.2 h)

theorem wf_step (s : State) (e : Ev) (h : WF s) : WF (step s e).1 := by
  cases e with
  | undecodable => simpa [step]
  | timer => simp only [step]; split <;> exact h
  | publish =>
    simp only [step, WF]
    exact ⟨PyDict.nodup_keys_set _ _ _ h.1, by rw [vget_set]; simp⟩
  | recv es =>
    by_cases ha : accepted s es
    · obtain ⟨rsv, hb, hs⟩ := step_recv_accepted s es ha
      have hmax := local_is_max s es ha s.selfId
      rw [hs] at hmax ⊢
      refine ⟨?_, ?_⟩
      · rw [afterBuild_loc]; exact mergeLoop_nodup _ _ _ _ h.1
      · rw [(afterBuild_ids s rsv).1, (afterBuild_ids s rsv).2, hmax]
        have := vecOfF_self_le s.selfId s.selfSeq es (fun _ => 0) (Nat.zero_le _) ha.2
        have h2 := h.2
        unfold vecOf; omega
    · rw [rejected_unchanged s es ha]; exact h

/-- **local_monotone.** No event ever decreases an entry of the local vector. -/
theorem local_monotone (s : State) (e : Ev) (h : WF s) (k : Bytes) :
    vget s.loc k ≤ vget (step s e).1.loc k := by
  cases e with
  | undecodable => simp [step]
  | timer => simp only [step]; split <;> simp
  | publish =>
    simp only [step]; rw [vget_set]; split
    · subst_vars; have := h.2; omega
    · exact Nat.le_refl _
  | recv es =>
    by_cases ha : accepted s es
    · rw [local_is_max s es ha]; omega
    · rw [rejected_unchanged s es ha]; exact Nat.le_refl _

theorem wf_run (s : State) (evs : List Ev) (h : WF s) : WF (run s evs).1 := by
  induction evs generalizing s with
  | nil => simpa [run]
  | cons e r ih => simp only [run]; exact ih _ (wf_step s e h)

/-- **run_monotone.** Over any event history the local vector never decreases. -/
theorem run_monotone (s : State) (evs : List Ev) (h : WF s) (k : Bytes) :
    vget s.loc k ≤ vget (run s evs).1.loc k := by
  induction evs generalizing s with
  | nil => simp [run]
  | cons e r ih =>
    simp only [run]
    exact Nat.le_trans (local_monotone s e h k) (ih _ (wf_step s e h))

/-- **callback_iff_raised.** The missing-data callback fires for a received vector iff that vector
    raised some entry of the local vector (and it fires at most once, with nothing else). -/
theorem callback_iff_raised (s : State) (es : List Entry) :
    ((step s (.recv es)).2 = [Out.missing] ↔ ∃ k, vget s.loc k < vget (step s (.recv es)).1.loc k) ∧
    ((step s (.recv es)).2 = [Out.missing] ∨ (step s (.recv es)).2 = []) := by
  by_cases ha : accepted s es
  · obtain ⟨rsv, hb, hs⟩ := step_recv_accepted s es ha
    rw [hs, afterBuild_out, afterBuild_loc]
    have := mergeLoop_nf rsv s.loc false (rsv.any fun p => !(PyDict.contains s.loc p.1))
    simp only [Bool.false_eq_true, false_or] at this
    constructor
    · rw [← this]; split <;> simp_all
    · split <;> simp
  · rw [rejected_unchanged s es ha]; simp

/-- **publish_increments_and_emits_full.** Publishing increases the own sequence number by one,
    records it in the local vector (all other entries unchanged) and emits exactly one sync
    Interest carrying the full local vector. -/
theorem publish_increments_and_emits_full (s : State) :
    let r := step s .publish
    r.1.selfSeq = s.selfSeq + 1 ∧
    vget r.1.loc s.selfId = s.selfSeq + 1 ∧
    (∀ k, k ≠ s.selfId → vget r.1.loc k = vget s.loc k) ∧
    r.2 = [Out.emit r.1.loc] := by
  simp only [step]
  refine ⟨trivial, by rw [vget_set]; simp, ?_, trivial⟩
  intro k hk; rw [vget_set]; simp [Ne.symm hk]

/-- **steady_timer_emits.** In steady state the periodic timer emits the full vector. -/
theorem steady_timer_emits (s : State) (h : s.suppress = false) :
    step s .timer = (s, [Out.emit s.loc]) := by
  simp [step, h]

/-! ### suppression: ghost state = entry-wise maximum of the vectors heard in this period -/

open Classical in
/-- ghost update: what has been heard in the current suppression period (as a total function) -/
noncomputable def heardStep (s : State) (heard : Bytes → Nat) : Ev → (Bytes → Nat)
  | .recv es =>
    if accepted s es then
      if s.suppress then (fun k => max (heard k) (vecOf es k))
      else vecOf es           -- this vector starts the period (if the state turns to suppression)
    else heard
  | _ => heard

noncomputable def runG (s : State) (heard : Bytes → Nat) : List Ev → State × (Bytes → Nat)
  | [] => (s, heard)
  | e :: r => runG (step s e).1 (heardStep s heard e) r

def HeardInv (s : State) (heard : Bytes → Nat) : Prop :=
  s.suppress = true → ∀ k, vget s.agg k = heard k

theorem heardInv_step (s : State) (heard : Bytes → Nat) (e : Ev) (h : HeardInv s heard) :
    HeardInv (step s e).1 (heardStep s heard e) := by
  cases e with
  | undecodable => simpa [step, heardStep]
  | timer => simp only [step]; split <;> simp_all [HeardInv, heardStep]
  | publish => simp [step, HeardInv]
  | recv es =>
    by_cases ha : accepted s es
    · obtain ⟨rsv, hb, hs⟩ := step_recv_accepted s es ha
      have hr := buildRsv_some _ _ _ _ _ hb
      have hrv : ∀ k, vget rsv k = vecOf es k := fun k => by rw [hr.1 k]; rfl
      have hnd := hr.2 (by simp [PyDict.keys])
      rw [hs]
      simp only [heardStep, ha, if_true]
      unfold afterBuild HeardInv; simp only []
      cases hsup : s.suppress with
      | false =>
        simp only [Bool.or_false, Bool.not_false, if_true]
        split
        · intro _ k; simp [hrv]
        · intro hc; simp at hc
      | true =>
        simp only [Bool.or_true, if_true, Bool.not_true, Bool.false_eq_true, if_false]
        intro _ k
        rw [aggregate_vget, lmax_eq_vget rsv hnd, hrv, h hsup k]
    · rw [rejected_unchanged s es ha]; simpa [heardStep, ha]

theorem heardInv_run (s : State) (heard : Bytes → Nat) (evs : List Ev) (h : HeardInv s heard) :
    HeardInv (runG s heard evs).1 (runG s heard evs).2 := by
  induction evs generalizing s heard with
  | nil => simpa [runG]
  | cons e r ih => simp only [runG]; exact ih _ _ (heardInv_step s heard e h)

theorem runG_fst (s : State) (heard : Bytes → Nat) (evs : List Ev) :
    (runG s heard evs).1 = (run s evs).1 := by
  induction evs generalizing s heard with
  | nil => simp [runG, run]
  | cons e r ih => simp only [runG, run]; exact ih _ _

/-- the decision at the end of a suppression period, from the invariants: well-formed state, `agg_sv` = ghost -/
theorem suppression_emit_of_inv (s : State) (heard : Bytes → Nat) (hwf : WF s) (hinv : HeardInv s heard)
    (hsup : s.suppress = true) :
    ((step s .timer).2 = [Out.emit s.loc] ↔ ∃ k, heard k < vget s.loc k) ∧
    ((step s .timer).2 = [Out.emit s.loc] ∨ (step s .timer).2 = []) := by
  have hn := necessary_iff s.loc s.agg hwf.1
  simp only [step, hsup, if_true]
  constructor
  · constructor
    · intro he
      have : necessary s.loc s.agg = true := by
        cases hc : necessary s.loc s.agg <;> simp_all
      obtain ⟨k, hk⟩ := hn.mp this
      exact ⟨k, by rw [← hinv hsup k]; exact hk⟩
    · rintro ⟨k, hk⟩
      have : necessary s.loc s.agg = true := hn.mpr ⟨k, by rw [hinv hsup k]; exact hk⟩
      simp [this]
  · split <;> simp

/-- **suppression_emit_iff.** After any event history from the initial state, when the timer ends a
    suppression period a sync Interest (carrying the full local vector) is emitted if and only if
    the local vector is newer in some entry than the merge of the vectors heard in that period;
    otherwise nothing is emitted. -/
theorem suppression_emit_iff (selfId : Bytes) (seq0 : Nat) (evs : List Ev) :
    let s := (runG (init selfId seq0) (fun _ => 0) evs).1
    let heard := (runG (init selfId seq0) (fun _ => 0) evs).2
    s.suppress = true →
      ((step s .timer).2 = [Out.emit s.loc] ↔ ∃ k, heard k < vget s.loc k) ∧
      ((step s .timer).2 = [Out.emit s.loc] ∨ (step s .timer).2 = []) := by
  intro s heard hsup
  have hinv : HeardInv s heard := heardInv_run _ _ evs (by simp [HeardInv, init])
  have hwf : WF s := by
    have := wf_run (init selfId seq0) evs (by simp [WF, init, PyDict.keys, vget, PyDict.get?])
    rw [← runG_fst _ (fun _ => 0)] at this; exact this
  exact suppression_emit_of_inv s heard hwf hinv hsup

/-! ### the byte-level half: vectors as the bytes of the name component

`decodeVector` is `StateVecWrapper.parse(name[-2])` (the generic decoder `Ndn.Codec.parse` of property C08 over
the schema regenerated from the live class) followed by reading `.val.entries`; `encodeVector` is what
`express_sync_interest` puts into the name (`Ndn.Codec.encFields`); `stepBytes` is `sync_handler` on the
bytes of the component, `stepB` / `runB` the model on histories whose received vectors are bytes. -/

open Ndn.Codec in
/-- **vector_roundtrip.** What `express_sync_interest` encodes for a vector whose node ids are well-formed names
    and whose sequence numbers are below 2^64 is decoded by the receiving side to exactly the entries of that
    vector, in order (instance of `C08.parse_enc_roundtrip` at the StateVecWrapper class). -/
theorem vector_roundtrip (v : Vec) (h : WfVec v) (b : Bytes) (he : encodeVector v = .ok b) :
    decodeVector b = some (entriesOf v) := by
  obtain ⟨es, hv, henc⟩ := bind_ok he
  obtain ⟨hfit, hmap⟩ := vecValues_spec v h es hv
  have hfits : fitsFs wrapperSchema [.model [.list es]] = true := by
    rw [wrapperSchema_eq]; simp [fitsFs, fits, hfit]
  have hp := C08.parse_enc_roundtrip wrapperSchema _ b false wrapper_wf hfits henc
  rw [decodeVector_some]; unfold decodeVectorE
  rw [hp]; simp [bind, Except.bind, pure, Except.pure, entriesOfParsed, hmap]

open Ndn.Codec in
/-- **stepBytes_spec.** For **every** byte string in the vector component exactly one of three things happens:
    it decodes and the handler does what the model does on the decoded entries; decoding raises `DecodeError`
    or `IndexError`, which `sync_handler` catches (table regenerated from its `except` clause) — nothing
    changes, nothing is emitted; or decoding raises `struct.error` / `ValueError` (`TypeError` is admitted by the
    decoder's totality theorem `total_step` = `C07.parse_total` but produced by no rule), which the handler does
    **not** catch: the exception propagates to the caller and the state is untouched. -/
theorem stepBytes_spec (s : State) (comp : Bytes) :
    (∃ es, decodeVector comp = some es ∧ stepBytes s comp = .ok (step s (.recv es))) ∨
    (∃ e, decodeVectorE comp = .error e ∧ (e = .decodeError ∨ e = .indexError) ∧
        stepBytes s comp = .ok (s, [])) ∨
    (∃ e, decodeVectorE comp = .error e ∧ (e = .structError ∨ e = .valueError ∨ e = .typeError) ∧
        stepBytes s comp = .error e) := by
  cases hd : decodeVectorE comp with
  | ok es => left; exact ⟨es, decodeVector_some.mpr hd, by simp [stepBytes, hd]⟩
  | error e =>
    have hp := decodeVectorE_error hd
    have hdoc : docErr e = true :=
      (total_step (comp.length + 1)).1 wrapperSchema false comp 0 0 _ wrapper_p (Nat.lt_succ_self _) e hp
    right
    cases e <;> simp [docErr] at hdoc <;>
      simp [stepBytes, hd, caught, Gen.C18.caught, Gen.C18.catchAll, step]

theorem stepBytes_decoded (s : State) (comp : Bytes) (es : List Entry) (h : decodeVector comp = some es) :
    stepBytes s comp = .ok (step s (.recv es)) := by
  rw [decodeVector_some] at h; simp [stepBytes, h]

/-- the event of the decoded model a byte-level event stands for -/
def decodeEv : EvB → Ev
  | .ev e => e
  | .raw comp => match decodeVector comp with
    | some es => .recv es
    | none => .undecodable

/-- histories whose received vectors are bytes -/
def runB (s : State) : List EvB → State
  | [] => s
  | e :: r => runB (stepB s e).1 r

/-- **stepB_refines.** The handler on bytes is the model on the decoded event: same next state always; the same
    outputs when the handler returns; and when it raises (only `struct.error` / `ValueError` / `TypeError` from
    the decoder) the state is unchanged and the decoded model does nothing either. -/
theorem stepB_refines (s : State) (e : EvB) :
    (stepB s e).1 = (step s (decodeEv e)).1 ∧
    (∀ o, (stepB s e).2 = .ok o → o = (step s (decodeEv e)).2) ∧
    (∀ x, (stepB s e).2 = .error x →
      (x = .structError ∨ x = .valueError ∨ x = .typeError) ∧ step s (decodeEv e) = (s, [])) := by
  cases e with
  | ev e => simp [stepB, decodeEv]
  | raw comp =>
    rcases stepBytes_spec s comp with ⟨es, h1, h2⟩ | ⟨x, h1, _, h3⟩ | ⟨x, h1, h2, h3⟩
    · simp [stepB, decodeEv, h1, h2]
    · have : decodeVector comp = none := decodeVector_none.mpr ⟨x, h1⟩
      simp [stepB, decodeEv, this, h3, step]
    · have : decodeVector comp = none := decodeVector_none.mpr ⟨x, h1⟩
      refine ⟨by simp [stepB, decodeEv, this, h3, step], by simp [stepB, h3], ?_⟩
      intro y hy
      simp only [stepB, h3, Except.error.injEq] at hy
      subst hy
      exact ⟨h2, by simp [decodeEv, this, step]⟩

theorem runB_eq_run (s : State) (evs : List EvB) : runB s evs = (run s (evs.map decodeEv)).1 := by
  induction evs generalizing s with
  | nil => simp [runB, run]
  | cons e r ih => simp only [runB, List.map_cons, run]; rw [(stepB_refines s e).1]; exact ih _

/-- **run_monotone_bytes.** Over any history of publications, timer expiries and *arbitrary bytes* received in the
    vector component, no entry of the local vector ever decreases. -/
theorem run_monotone_bytes (s : State) (evs : List EvB) (h : WF s) (k : Bytes) :
    vget s.loc k ≤ vget (runB s evs).loc k := by
  rw [runB_eq_run]; exact run_monotone s _ h k

/-- **local_is_max_bytes.** When the bytes of the component decode to an accepted vector, the local vector after
    the handler is the entry-wise maximum of its previous value and the vector those bytes denote. -/
theorem local_is_max_bytes (s : State) (comp : Bytes) (es : List Entry)
    (hd : decodeVector comp = some es) (h : accepted s es) :
    ∃ r, stepBytes s comp = .ok r ∧ ∀ k, vget r.1.loc k = max (vget s.loc k) (vecOf es k) :=
  ⟨_, stepBytes_decoded s comp es hd, local_is_max s es h⟩

/-- **callback_iff_raised_bytes.** For every byte string on which the handler returns, the missing-data callback
    fires iff an entry of the local vector was raised (at most once, with nothing else); in particular never for
    bytes that do not decode. -/
theorem callback_iff_raised_bytes (s : State) (comp : Bytes) (r : State × List Out)
    (h : stepBytes s comp = .ok r) :
    (r.2 = [Out.missing] ↔ ∃ k, vget s.loc k < vget r.1.loc k) ∧ (r.2 = [Out.missing] ∨ r.2 = []) := by
  rcases stepBytes_spec s comp with ⟨es, _, h2⟩ | ⟨x, _, _, h3⟩ | ⟨x, _, _, h3⟩
  · rw [h2] at h; cases h; exact callback_iff_raised s es
  · rw [h3] at h; cases h; simp
  · rw [h3] at h; cases h

/-- **emits_are_local.** Whatever event makes the node emit a sync Interest, the vector it carries is the node's
    full local vector at that moment. -/
theorem emits_are_local (s : State) (e : Ev) (v : Vec) (h : Out.emit v ∈ (step s e).2) :
    v = (step s e).1.loc := by
  cases e with
  | undecodable => simp [step] at h
  | publish => simp only [step, List.mem_singleton, Out.emit.injEq] at h; simp [step, h]
  | timer =>
    simp only [step] at h ⊢
    split at h
    · split at h
      · simp only [List.mem_singleton, Out.emit.injEq] at h; simp_all
      · simp at h
    · simp only [List.mem_singleton, Out.emit.injEq] at h; simp_all
  | recv es =>
    have := (callback_iff_raised s es).2
    rcases this with h' | h' <;> rw [h'] at h <;> simp at h

/-- **publish_emits_decodable.** After publishing, the bytes the node puts into its sync Interest decode — by the
    peer's decoder — to exactly its (new) local vector: same entries in the same order, denoting the same
    function NodeId → SeqNo. -/
theorem publish_emits_decodable (s : State) (hwf : WF s) (hw : WfVec s.loc) (hid : WfId s.selfId)
    (hq : s.selfSeq + 1 < 2 ^ 64) (wire : Bytes) (he : encodeVector (step s .publish).1.loc = .ok wire) :
    (step s .publish).2 = [Out.emit (step s .publish).1.loc] ∧
    decodeVector wire = some (entriesOf (step s .publish).1.loc) ∧
    ∀ k, vecOf (entriesOf (step s .publish).1.loc) k = vget (step s .publish).1.loc k := by
  have hw' : WfVec (step s .publish).1.loc := wfVec_set _ _ _ hw hid hq
  refine ⟨rfl, vector_roundtrip _ hw' wire he, ?_⟩
  exact vecOf_entriesOf _ (wf_step s .publish hwf).1 (fun p hp => (hw' p hp).1.ne_nil)

/-- **vector_received.** Feeding the bytes a well-formed, non-empty vector `v` encodes to into a node that `v` does
    not over-claim: the handler returns and the node's local vector becomes the entry-wise maximum of its previous
    value and `v`. -/
theorem vector_received (v : Vec) (hw : WfVec v) (hn : (PyDict.keys v).Nodup) (hne : v ≠ [])
    (wire : Bytes) (he : encodeVector v = .ok wire) (b : State) (hno : vget v b.selfId ≤ b.selfSeq) :
    ∃ r, stepBytes b wire = .ok r ∧ ∀ k, vget r.1.loc k = max (vget b.loc k) (vget v k) := by
  have hd := vector_roundtrip v hw wire he
  have hacc : accepted b (entriesOf v) :=
    ⟨by cases v <;> simp_all [entriesOf], not_overclaims_entriesOf v hn _ _ hno⟩
  obtain ⟨r, h1, h2⟩ := local_is_max_bytes b wire _ hd hacc
  refine ⟨r, h1, fun k => ?_⟩
  rw [h2 k, vecOf_entriesOf v hn (fun p hp => (hw p hp).1.ne_nil)]

/-- **emitted_vector_is_received.** Node `a` publishes; the bytes of its sync Interest are fed to node `b` (for
    which `a` does not claim more than `b` has produced): `b`'s handler returns and every entry of `b`'s local
    vector is afterwards at least `a`'s (exactly the entry-wise maximum of the two). -/
theorem emitted_vector_is_received (a b : State) (ha : WF a) (hw : WfVec a.loc) (hid : WfId a.selfId)
    (hq : a.selfSeq + 1 < 2 ^ 64) (wire : Bytes) (he : encodeVector (step a .publish).1.loc = .ok wire)
    (hno : vget (step a .publish).1.loc b.selfId ≤ b.selfSeq) :
    ∃ r, stepBytes b wire = .ok r ∧
      (∀ k, vget r.1.loc k = max (vget b.loc k) (vget (step a .publish).1.loc k)) ∧
      (∀ k, vget (step a .publish).1.loc k ≤ vget r.1.loc k) := by
  have hw' : WfVec (step a .publish).1.loc := wfVec_set _ _ _ hw hid hq
  have hne : (step a .publish).1.loc ≠ [] := by
    simp only [step]; cases a.loc <;> simp [PyDict.set]; split <;> simp
  obtain ⟨r, h1, h2⟩ := vector_received _ hw' (wf_step a .publish ha).1 hne wire he b hno
  exact ⟨r, h1, h2, fun k => by rw [h2 k]; omega⟩

/-- **encodeVector_fails_only_oversize.** Encoding a well-formed vector succeeds, unless some Length in it does not
    fit 64 bits (`struct.error` from `write_tl_num`; not reachable with real memory). -/
theorem encodeVector_fails_only_oversize (v : Vec) (h : WfVec v) :
    (∃ b, encodeVector v = .ok b) ∨ encodeVector v = .error .structError := by
  cases he : encodeVector v with
  | ok b => exact .inl ⟨b, rfl⟩
  | error e => right; rw [encodeVector_os v h e he]

/-- **source_tables_pinned.** What the byte-level theorems are about is what the source says: the handler calls
    `StateVecWrapper.parse(name[-2])`, that class is a 0xc9 wrapper around repeated 0xca entries of (Name, 0xcc
    unsigned integer), it satisfies the hypotheses of the codec theorems, and the `except` clause catches exactly
    `DecodeError` and `IndexError` (all regenerated from the source on every run). -/
theorem source_tables_pinned :
    Gen.C18.parsedClass = "StateVecWrapper" ∧ Gen.C18.parsedIndex = -2 ∧
    wrapperSchema = [.model 201 [.repeated (.model 202 [.name 7, .uint 204 none] false)] false] ∧
    Codec.wfTop wrapperSchema = true ∧ Codec.pFs wrapperSchema = true ∧
    (∀ e, caught e = true ↔ (e = .decodeError ∨ e = .indexError)) := by
  refine ⟨by decide, by decide, rfl, wrapper_wf, wrapper_p, ?_⟩
  intro e; cases e <;> decide

/-! ### non-vacuity: the hypotheses are met by concrete reachable states -/

/-- the F14 history: local A:5, hear {A:3} then {A:2,B:1}; the model (repaired code) does emit -/
example :
    let s0 : State := { selfId := [1], selfSeq := 0, loc := [([1], 0), ([7], 5)], agg := [], suppress := false }
    let r := run s0 [.recv [(some [7], some 3)], .recv [(some [7], some 2), (some [8], some 1)], .timer]
    r.2 = [[], [Out.missing], [Out.emit [([1], 0), ([7], 5), ([8], 1)]]] := by decide

example : accepted (init [1] 3) [(some [2], some 4)] := by
  refine ⟨by simp, ?_⟩
  rintro ⟨q, hm, _, _⟩; simp [init] at hm

example : overclaims [1] 3 [(some [2], some 4), (some [1], some 9)] := ⟨9, by simp, by simp, by omega⟩

/-! byte level: `/n0` = `07 04 08 02 6e 30` -/

/-- node /n0 (seq 2) knowing /n1 at 300 emits these 25 bytes … -/
example : encodeVector [([7, 4, 8, 2, 110, 48], 2), ([7, 4, 8, 2, 110, 49], 300)] =
    .ok [0xc9, 0x17, 0xca, 9, 7, 4, 8, 2, 110, 48, 0xcc, 1, 2, 0xca, 10, 7, 4, 8, 2, 110, 49, 0xcc, 2, 1, 44] := by rfl
/-- … which the peer decodes to the same two entries -/
example : decodeVector
    [0xc9, 0x17, 0xca, 9, 7, 4, 8, 2, 110, 48, 0xcc, 1, 2, 0xca, 10, 7, 4, 8, 2, 110, 49, 0xcc, 2, 1, 44] =
    some [(some [7, 4, 8, 2, 110, 48], some 2), (some [7, 4, 8, 2, 110, 49], some 300)] := by rfl
example : WfVec [([7, 4, 8, 2, 110, 48], 2), ([7, 4, 8, 2, 110, 49], 300)] := by
  intro p hp
  simp only [List.mem_cons, List.not_mem_nil, or_false] at hp
  rcases hp with rfl | rfl
  · exact ⟨⟨[[8, 2, 110, 48]], by simp, by decide, by decide, by decide⟩, by decide⟩
  · exact ⟨⟨[[8, 2, 110, 49]], by simp, by decide, by decide, by decide⟩, by decide⟩
/-- the three outcomes of `stepBytes_spec`: a truncated entry is an IndexError (caught, nothing happens) … -/
example : decodeVectorE [0xc9, 3, 0xca, 1, 0xcc] = .error .indexError ∧
    stepBytes (init [7, 4, 8, 2, 110, 48] 1) [0xc9, 3, 0xca, 1, 0xcc] = .ok (init [7, 4, 8, 2, 110, 48] 1, []) :=
  ⟨rfl, rfl⟩
/-- … an unknown critical element is a DecodeError (caught) … -/
example : decodeVectorE [0xc9, 4, 0xca, 2, 0x65, 0] = .error .decodeError := rfl
/-- … and a 3-byte sequence number is a ValueError, which the handler does not catch -/
example : stepBytes (init [7, 4, 8, 2, 110, 48] 1) [0xc9, 7, 0xca, 5, 0xcc, 3, 0, 0, 1] = .error .valueError := rfl
/-- … as is a sequence number cut short by the end of the component (struct.error) -/
example : stepBytes (init [7, 4, 8, 2, 110, 48] 1) [0xc9, 5, 0xca, 3, 0xcc, 2, 1] = .error .structError := rfl
/-- an accepted vector in bytes: /n1 at 2 raises an entry of /n0's vector -/
example : (match stepBytes (init [7, 4, 8, 2, 110, 48] 1) [0xc9, 11, 0xca, 9, 7, 4, 8, 2, 110, 49, 0xcc, 1, 2] with
    | .ok r => some (r.1.loc, r.2) | .error _ => none) =
    some ([([7, 4, 8, 2, 110, 48], 1), ([7, 4, 8, 2, 110, 49], 2)], [Out.missing]) := rfl

end Ndn.C18

namespace Ndn.C18
open Ndn Ndn.Svs

/-! ### well-formedness of the local vector is an invariant of the byte-level handler

The encode-side theorems above (`vector_roundtrip`, `publish_emits_decodable`, `emitted_vector_is_received`, …) take
well-formedness of the local vector (`WfVec`: every node id the encoding of a non-empty name whose components are
single TLV elements, every sequence number below 2^64) as a hypothesis.  It is an invariant: the generic decoder only
delivers well-formed entries (`C08.parse_wf`), so no byte string received in the vector component can break it. -/

/-- a byte-level event as the network and the application can produce it: **arbitrary** bytes in the vector
    component (shorter than 2^64 bytes), a wrong-length name, a publication, a timer expiry; a vector handed over
    already decoded must hold well-formed entries (all vectors that come out of the decoder do) -/
def ByteEv : EvB → Prop
  | .raw comp => comp.length < 2 ^ 64
  | .ev e => GoodEv e

/-- number of publications in a history -/
def pubs : List EvB → Nat
  | [] => 0
  | .ev .publish :: r => pubs r + 1
  | _ :: r => pubs r

/-- the local vector and the own id are well-formed -/
def WfLocal (s : State) : Prop := WfVec s.loc ∧ WfId s.selfId

theorem goodEv_decodeEv (e : EvB) (h : ByteEv e) : GoodEv (decodeEv e) := by
  cases e with
  | ev e => exact h
  | raw comp =>
    simp only [decodeEv]
    cases hd : decodeVector comp with
    | none => trivial
    | some es => exact decodeVector_entries_wf h hd

theorem pubs_cons (e : EvB) (r : List EvB) : pubs (e :: r) = pubInc (decodeEv e) + pubs r := by
  cases e with
  | raw comp => simp only [pubs, decodeEv]; cases decodeVector comp <;> simp [pubInc]
  | ev e => cases e <;> simp [pubs, decodeEv, pubInc, Nat.add_comm]

/-- **local_wf_invariant.** Starting from a well-formed local vector, after **any** history of byte-level
    receptions (arbitrary bytes), publications and timer expiries the local vector is still well-formed, the own id is
    unchanged and the own sequence number has grown by the number of publications — provided the sequence number
    stays below 2^64 (`selfSeq + pubs evs < 2^64`: fewer than 2^64 publications; the one bound that is not an
    invariant, since `new_data` increments without a check). -/
theorem local_wf_invariant (s : State) (evs : List EvB) (h : WfLocal s) (he : ∀ e ∈ evs, ByteEv e)
    (hq : s.selfSeq + pubs evs < 2 ^ 64) :
    WfLocal (runB s evs) ∧ (runB s evs).selfId = s.selfId ∧ (runB s evs).selfSeq = s.selfSeq + pubs evs := by
  induction evs generalizing s with
  | nil => exact ⟨by simpa [runB] using h, rfl, by simp [runB, pubs]⟩
  | cons e r ih =>
    have hg := goodEv_decodeEv e (he e (List.mem_cons_self ..))
    have hpc := pubs_cons e r
    obtain ⟨hid, hseq⟩ := step_ids s (decodeEv e)
    have hs1 : (stepB s e).1 = (step s (decodeEv e)).1 := (stepB_refines s e).1
    have hw1 : WfLocal (stepB s e).1 := by
      rw [hs1]
      refine ⟨step_wfVec s _ h.1 h.2 hg ?_, by rw [hid]; exact h.2⟩
      intro hp; rw [hp] at hpc; simp only [pubInc] at hpc; omega
    have := ih (stepB s e).1 hw1 (fun x hx => he x (List.mem_cons_of_mem _ hx)) (by rw [hs1, hseq]; omega)
    simp only [runB]
    refine ⟨this.1, by rw [this.2.1, hs1, hid], by rw [this.2.2, hs1, hseq]; omega⟩

/-- the states a node can be in: started by `start()` with a well-formed own name, then any history of byte-level
    events during which the own sequence number stayed below 2^64 -/
def Reachable (s : State) : Prop :=
  ∃ (selfId : Bytes) (seq0 : Nat) (evs : List EvB), WfId selfId ∧ (∀ e ∈ evs, ByteEv e) ∧
    seq0 + pubs evs < 2 ^ 64 ∧ s = runB (init selfId seq0) evs

/-- a reachable state satisfies every well-formedness hypothesis of the encode-side theorems -/
theorem reachable_wf (s : State) (h : Reachable s) :
    WF s ∧ WfVec s.loc ∧ WfId s.selfId ∧ s.selfSeq < 2 ^ 64 := by
  obtain ⟨selfId, seq0, evs, hid, hev, hq, rfl⟩ := h
  have h0 : WfLocal (init selfId seq0) := by
    refine ⟨?_, hid⟩
    intro p hp
    simp only [init, List.mem_singleton] at hp
    subst hp
    exact ⟨hid, by simp only []; omega⟩
  obtain ⟨⟨h1, h2⟩, _, h4⟩ := local_wf_invariant (init selfId seq0) evs h0 hev hq
  refine ⟨?_, h1, h2, by rw [h4]; exact hq⟩
  rw [runB_eq_run]
  exact wf_run (init selfId seq0) _ (by simp [WF, init, PyDict.keys, vget, PyDict.get?])

theorem runB_loc_ne_nil (s : State) (evs : List EvB) (h : s.loc ≠ []) : (runB s evs).loc ≠ [] := by
  induction evs generalizing s with
  | nil => simpa [runB] using h
  | cons e r ih =>
    simp only [runB]
    exact ih _ (by rw [(stepB_refines s e).1]; exact step_loc_ne_nil s _ h)

/-- the local vector of a reachable state is never empty (it holds at least the own entry written by `start()`) -/
theorem reachable_loc_ne_nil (s : State) (h : Reachable s) : s.loc ≠ [] := by
  obtain ⟨selfId, seq0, evs, _, _, _, rfl⟩ := h
  exact runB_loc_ne_nil _ evs (by simp [init])

/-- **vector_roundtrip_reachable.** In every reachable state, what `express_sync_interest` encodes for the local
    vector is decoded by the receiving side to exactly the entries of that vector (no well-formedness hypothesis). -/
theorem vector_roundtrip_reachable (s : State) (hr : Reachable s) (b : Bytes)
    (he : encodeVector s.loc = .ok b) : decodeVector b = some (entriesOf s.loc) :=
  vector_roundtrip s.loc (reachable_wf s hr).2.1 b he

/-- **publish_emits_decodable_reachable.** `publish_emits_decodable` for every reachable state: the only remaining
    hypothesis is that the next sequence number fits 64 bits. -/
theorem publish_emits_decodable_reachable (s : State) (hr : Reachable s) (hq : s.selfSeq + 1 < 2 ^ 64)
    (wire : Bytes) (he : encodeVector (step s .publish).1.loc = .ok wire) :
    (step s .publish).2 = [Out.emit (step s .publish).1.loc] ∧
    decodeVector wire = some (entriesOf (step s .publish).1.loc) ∧
    ∀ k, vecOf (entriesOf (step s .publish).1.loc) k = vget (step s .publish).1.loc k := by
  obtain ⟨h1, h2, h3, _⟩ := reachable_wf s hr
  exact publish_emits_decodable s h1 h2 h3 hq wire he

/-- **emitted_vector_is_received_reachable.** `emitted_vector_is_received` for every reachable publisher `a` (and any
    receiver state `b` for which `a` does not over-claim). -/
theorem emitted_vector_is_received_reachable (a b : State) (ha : Reachable a) (hq : a.selfSeq + 1 < 2 ^ 64)
    (wire : Bytes) (he : encodeVector (step a .publish).1.loc = .ok wire)
    (hno : vget (step a .publish).1.loc b.selfId ≤ b.selfSeq) :
    ∃ r, stepBytes b wire = .ok r ∧
      (∀ k, vget r.1.loc k = max (vget b.loc k) (vget (step a .publish).1.loc k)) ∧
      (∀ k, vget (step a .publish).1.loc k ≤ vget r.1.loc k) := by
  obtain ⟨h1, h2, h3, _⟩ := reachable_wf a ha
  exact emitted_vector_is_received a b h1 h2 h3 hq wire he hno

/-- **local_vector_received_reachable.** `vector_received` for the local vector of any reachable node `a` (whatever
    made it send: a publication, the steady-state timer, the end of a suppression period): feeding the bytes to a node
    `b` that `a` does not over-claim makes `b`'s local vector the entry-wise maximum of the two. -/
theorem local_vector_received_reachable (a b : State) (ha : Reachable a) (wire : Bytes)
    (he : encodeVector a.loc = .ok wire) (hno : vget a.loc b.selfId ≤ b.selfSeq) :
    ∃ r, stepBytes b wire = .ok r ∧ ∀ k, vget r.1.loc k = max (vget b.loc k) (vget a.loc k) := by
  obtain ⟨h1, h2, _, _⟩ := reachable_wf a ha
  exact vector_received a.loc h2 h1.1 (reachable_loc_ne_nil a ha) wire he b hno

/-- **timer_emits_decodable_reachable.** Whatever a reachable node emits on a timer expiry (steady state, or the end
    of a suppression period) decodes at the peer to exactly its local vector. -/
theorem timer_emits_decodable_reachable (s : State) (hr : Reachable s) (v : Vec)
    (hv : Out.emit v ∈ (step s .timer).2) (wire : Bytes) (he : encodeVector v = .ok wire) :
    v = s.loc ∧ decodeVector wire = some (entriesOf s.loc) := by
  have hloc : (step s .timer).1.loc = s.loc := by simp only [step]; split <;> rfl
  have := emits_are_local s .timer v hv
  rw [hloc] at this
  subst this
  exact ⟨rfl, vector_roundtrip_reachable s hr wire he⟩

/-- **encodeVector_reachable_fails_only_oversize.** In a reachable state encoding the local vector succeeds unless
    some Length in it does not fit 64 bits. -/
theorem encodeVector_reachable_fails_only_oversize (s : State) (hr : Reachable s) :
    (∃ b, encodeVector s.loc = .ok b) ∨ encodeVector s.loc = .error .structError :=
  encodeVector_fails_only_oversize s.loc (reachable_wf s hr).2.1

/-- a publication keeps a state reachable as long as the sequence number fits -/
theorem reachable_step (s : State) (hr : Reachable s) (e : EvB) (he : ByteEv e)
    (hq : s.selfSeq + pubs [e] < 2 ^ 64) : Reachable (stepB s e).1 := by
  obtain ⟨selfId, seq0, evs, hid, hev, hb, rfl⟩ := hr
  have h0 : WfLocal (init selfId seq0) := by
    refine ⟨?_, hid⟩
    intro p hp
    simp only [init, List.mem_singleton] at hp
    subst hp
    exact ⟨hid, by simp only []; omega⟩
  have hseq := (local_wf_invariant (init selfId seq0) evs h0 hev hb).2.2
  have hrun : ∀ (t : State) (l : List EvB), runB t (l ++ [e]) = (stepB (runB t l) e).1 := by
    intro t l
    induction l generalizing t with
    | nil => simp [runB]
    | cons x r ih => simp only [List.cons_append, runB]; exact ih _
  have hp : ∀ (l : List EvB), pubs (l ++ [e]) = pubs l + pubs [e] := by
    intro l
    induction l with
    | nil => simp [pubs]
    | cons x r ih =>
      rw [List.cons_append, pubs_cons, pubs_cons, ih]; omega
  refine ⟨selfId, seq0, evs ++ [e], hid, ?_, ?_, (hrun _ _).symm⟩
  · intro x hx
    rcases List.mem_append.mp hx with h | h
    · exact hev x h
    · simp only [List.mem_singleton] at h; subst h; exact he
  · rw [hp]; rw [hseq] at hq; simp only [init] at hq; omega

/-! non-vacuity: node /n0 after start, a garbage component, a peer's vector in bytes and a publication is reachable -/
example : Reachable (runB (init [7, 4, 8, 2, 110, 48] 1)
    [.raw [0xff, 0, 1], .raw [0xc9, 11, 0xca, 9, 7, 4, 8, 2, 110, 49, 0xcc, 1, 2], .ev .publish, .ev .timer]) := by
  refine ⟨_, 1, _, ⟨[[8, 2, 110, 48]], by simp, by decide, by decide, by decide⟩, ?_, by decide, rfl⟩
  intro e he
  simp only [List.mem_cons, List.not_mem_nil, or_false] at he
  rcases he with rfl | rfl | rfl | rfl
  · show (3 : Nat) < 2 ^ 64; decide
  · show (13 : Nat) < 2 ^ 64; decide
  · trivial
  · trivial
example : (runB (init [7, 4, 8, 2, 110, 48] 1)
    [.raw [0xff, 0, 1], .raw [0xc9, 11, 0xca, 9, 7, 4, 8, 2, 110, 49, 0xcc, 1, 2], .ev .publish, .ev .timer]).loc
    = [([7, 4, 8, 2, 110, 48], 2), ([7, 4, 8, 2, 110, 49], 2)] := by rfl

end Ndn.C18

namespace Ndn.C18
open Ndn Ndn.Svs

/-! ### re-entrancy: the application publishes from inside the missing-data callback; the timer task

`Ndn.Svs.stepX` follows the statements of `sync_handler`, `new_data` and `on_timer` in the order of the source,
with `next_sync_timing` (`Due`: a steady period / a suppression period / now) and `timer_rst_event` in the state.
An event `recvCb es ⟨k, raises⟩` is a sync Interest whose missing-data callback — if it fires — calls `new_data()`
`k` times and then returns or raises; `EvX.recvPub es k` is the returning one.  A state *at rest* (`park s`) is one in
which the timer task has consumed the reset event and waits for the period matching the protocol state. -/

/-- the vector raises some entry of the local vector (specification of "the callback must fire") -/
def raises (s : State) (es : List Entry) : Prop := accepted s es ∧ ∃ i, vget s.loc i < vecOf es i

theorem fired_iff_raises (s : State) (es : List Entry) :
    (step s (.recv es)).2 = [Out.missing] ↔ raises s es := by
  unfold raises
  by_cases ha : accepted s es
  · rw [(callback_iff_raised s es).1]
    simp only [ha, true_and]
    constructor
    · rintro ⟨i, hi⟩; rw [local_is_max s es ha] at hi; exact ⟨i, by omega⟩
    · rintro ⟨i, hi⟩; exact ⟨i, by rw [local_is_max s es ha]; omega⟩
  · rw [rejected_unchanged s es ha]; simp [ha]

/-- **stepX_refines_step.** On the events of the atomic model (callbacks that do not touch the instance) the
    statement-level model, started at rest, takes the decisions of the atomic model — same state, same outputs — and
    is at rest again: every theorem about `step` is a theorem about the handler statement by statement. -/
theorem stepX_refines_step (s : State) (e : Ev) :
    stepX (park s) (EvX.ofEv e) = (park (step s e).1, ⟨(step s e).2, false⟩) := stepX_ofEv s e

/-- **timer_task_at_rest.** After every history of events (receptions with callbacks that publish any number of
    times or raise, publications, timer expiries) from `start()`, the timer task is parked: the reset event has been
    consumed and `next_sync_timing` is the suppression period iff the state is SyncSuppression, a steady period
    otherwise — never a pending "now": no publication is ever left unannounced. -/
theorem timer_task_at_rest (selfId : Bytes) (seq0 : Nat) (evs : List EvX) :
    Parked (runX (initX selfId seq0) evs).1 := by
  have h : ∀ (evs : List EvX) (s : State), Parked (runX (park s) evs).1 := by
    intro evs
    induction evs with
    | nil => intro s; exact parked_park s
    | cons e r ih =>
      intro s
      obtain ⟨s', hs'⟩ := stepX_parked s e
      simp only [runX]
      rw [hs']; exact ih s'
  exact h evs (init selfId seq0)

/-- **recvPub_state_eq_recv_then_publishes.** A reception whose callback publishes `k` times leaves the instance —
    vector, own sequence number, suppression state, aggregate, timer — in the state of the same reception with an
    idle callback followed by `k` publications from outside the handler (none if the callback does not fire). -/
theorem recvPub_state_eq_recv_then_publishes (s : State) (es : List Entry) (cb : Cb) :
    (stepX (park s) (.recvCb es cb)).1 =
      (runX (park s) (.recv es ::
        (if (stepX (park s) (.recv es)).2.outs = [Out.missing] then List.replicate cb.pubs .publish else []))).1 := by
  have hrun : ∀ (k : Nat) (s : State), (runX (park s) (List.replicate k .publish)).1 = park (pubN k s) := by
    intro k
    induction k with
    | zero => intro s; rfl
    | succ k ih => intro s; simp only [List.replicate_succ, runX]; rw [stepX_publish]; exact ih _
  have h0 : stepX (park s) (.recv es) = (park (step s (.recv es)).1, ⟨(step s (.recv es)).2, false⟩) :=
    stepX_ofEv s (.recv es)
  simp only [runX]
  rw [h0, stepX_recvCb]
  simp only []
  split
  · rw [hrun]; cases cb.pubs <;> rfl
  · rfl

/-- **recvPub_eq_recv_then_publish.** The position of the callback inside the handler is unobservable for the code
    as it is: receiving a vector with a callback that publishes (once) is observationally the reception with an idle
    callback followed by a publication — same state (local vector, sequence number, suppression state, aggregate,
    timer) and the same outputs in the same order: the callback, then the sync Interest with the full vector.
    When the callback does not fire it is the plain reception. -/
theorem recvPub_eq_recv_then_publish (s : State) (es : List Entry) :
    stepX (park s) (.recvPub es 1) =
      (let a := stepX (park s) (.recv es)
       if a.2.outs = [Out.missing] then
         let b := stepX a.1 .publish
         (b.1, ⟨a.2.outs ++ b.2.outs, false⟩)
       else a) := by
  have h0 : stepX (park s) (.recv es) = (park (step s (.recv es)).1, ⟨(step s (.recv es)).2, false⟩) :=
    stepX_ofEv s (.recv es)
  simp only [EvX.recvPub]
  rw [h0, stepX_recvCb]
  generalize step s (.recv es) = r
  obtain ⟨s1, o1⟩ := r
  simp only []
  split
  · rename_i hf
    subst hf
    rw [stepX_publish]; rfl
  · rfl

/-- **callback_publish_increments_and_emits_full.** `publish_increments_and_emits_full` for publications made from
    inside the missing-data callback: when a received vector raises an entry and the callback publishes `k + 1`
    times (whether it then returns or raises), the own sequence number has grown by `k + 1` and is recorded in the
    local vector, every other entry is the entry-wise maximum, and **within the same step** — after the callback,
    before anything else — exactly one sync Interest is emitted, carrying the full (final) local vector; afterwards
    the instance is in SyncSteady and the timer is that of a fresh steady period with no reset pending. -/
theorem callback_publish_increments_and_emits_full (s : State) (es : List Entry) (hr : raises s es)
    (k : Nat) (rs : Bool) :
    let r := stepX (park s) (.recvCb es ⟨k + 1, rs⟩)
    r.1.st.selfSeq = s.selfSeq + (k + 1) ∧
    vget r.1.st.loc s.selfId = s.selfSeq + (k + 1) ∧
    (∀ i, i ≠ s.selfId → vget r.1.st.loc i = max (vget s.loc i) (vecOf es i)) ∧
    r.2.outs = [Out.missing, Out.emit r.1.st.loc] ∧ r.2.raised = rs ∧
    r.1.st.suppress = false ∧ r.1.due = .steady ∧ r.1.rst = false := by
  have hf := (fired_iff_raises s es).mpr hr
  obtain ⟨hid, hseq⟩ := step_ids s (.recv es)
  simp only [pubInc, Nat.add_zero] at hseq
  intro r
  have hrr : r = (park (pubN (k + 1) (step s (.recv es)).1),
      ⟨[Out.missing, Out.emit (pubN (k + 1) (step s (.recv es)).1).loc], rs⟩) := by
    show stepX (park s) (.recvCb es ⟨k + 1, rs⟩) = _
    rw [stepX_recvCb]; simp only [hf, if_true]
  rw [hrr]
  have hsup := pubN_succ_suppress k (step s (.recv es)).1
  refine ⟨by simp only [park]; rw [pubN_selfSeq, hseq], ?_, ?_, rfl, rfl, hsup, by simp [park, dueOf, hsup], rfl⟩
  · have := pubN_own k (step s (.recv es)).1
    rw [hid, hseq] at this; exact this
  · intro i hi
    simp only [park]
    rw [pubN_other _ _ _ (by rw [hid]; exact hi), local_is_max s es hr.1]

/-- **local_is_max_x.** `local_is_max` in the extended model: after an accepted vector, whatever the callback does,
    every entry of another node is the entry-wise maximum of its previous value and the received vector; so is the
    own entry unless the callback fired and published, in which case it is the new own sequence number. -/
theorem local_is_max_x (s : State) (es : List Entry) (h : accepted s es) (cb : Cb) :
    let r := stepX (park s) (.recvCb es cb)
    (∀ i, i ≠ s.selfId → vget r.1.st.loc i = max (vget s.loc i) (vecOf es i)) ∧
    (¬ (raises s es ∧ cb.pubs ≠ 0) → vget r.1.st.loc s.selfId = max (vget s.loc s.selfId) (vecOf es s.selfId)) ∧
    (raises s es ∧ cb.pubs ≠ 0 → vget r.1.st.loc s.selfId = s.selfSeq + cb.pubs) := by
  obtain ⟨hid, hseq⟩ := step_ids s (.recv es)
  simp only [pubInc, Nat.add_zero] at hseq
  intro r
  have hrr : r = stepX (park s) (.recvCb es cb) := rfl
  rw [stepX_recvCb] at hrr
  by_cases hf : (step s (.recv es)).2 = [Out.missing]
  · have hr := (fired_iff_raises s es).mp hf
    simp only [hf, if_true] at hrr
    cases hk : cb.pubs with
    | zero =>
      rw [hk] at hrr; simp only [] at hrr; rw [hrr]
      exact ⟨fun i _ => local_is_max s es h i, fun _ => local_is_max s es h _, fun hh => absurd rfl hh.2⟩
    | succ k =>
      rw [hk] at hrr; simp only [] at hrr; rw [hrr]
      refine ⟨fun i hi => ?_, fun hh => absurd ⟨hr, Nat.succ_ne_zero k⟩ hh, fun _ => ?_⟩
      · simp only [park]; rw [pubN_other _ _ _ (by rw [hid]; exact hi), local_is_max s es h]
      · have := pubN_own k (step s (.recv es)).1
        rw [hid, hseq] at this; exact this
  · have hr : ¬ raises s es := fun hh => hf ((fired_iff_raises s es).mpr hh)
    simp only [hf, if_false] at hrr; rw [hrr]
    exact ⟨fun i _ => local_is_max s es h i, fun _ => local_is_max s es h _, fun hh => absurd hh.1 hr⟩

/-- every event of the extended model keeps the state well-formed (it amounts to a history of the atomic model) -/
theorem wf_stepX (s : State) (e : EvX) (h : WF s) : WF (stepX (park s) e).1.st := by
  rw [stepX_flat]; exact wf_run s _ h

/-- **local_monotone_x.** No event of the extended model — in particular no callback, however often it publishes
    and whether or not it raises — ever decreases an entry of the local vector. -/
theorem local_monotone_x (s : State) (e : EvX) (h : WF s) (i : Bytes) :
    vget s.loc i ≤ vget (stepX (park s) e).1.st.loc i := by
  rw [stepX_flat]; exact run_monotone s _ h i

/-- **run_monotone_x.** Over any history of the extended model from `start()` the local vector never decreases:
    the vector after a longer history dominates the vector after any prefix. -/
theorem run_monotone_x (selfId : Bytes) (seq0 : Nat) (evs more : List EvX) (i : Bytes) :
    vget (runX (initX selfId seq0) evs).1.st.loc i ≤ vget (runX (initX selfId seq0) (evs ++ more)).1.st.loc i := by
  have hw0 : WF (init selfId seq0) := by simp [WF, init, PyDict.keys, vget, PyDict.get?]
  have happ : ∀ (a b : List EvX) (t : TState), (runX t (a ++ b)).1 = (runX (runX t a).1 b).1 := by
    intro a
    induction a with
    | nil => intro b t; rfl
    | cons e r ih => intro b t; simp only [List.cons_append, runX]; exact ih b _
  have hpre : ∀ (a : List EvX) (s : State), WF s → ∃ s', (runX (park s) a).1 = park s' ∧ WF s' := by
    intro a
    induction a with
    | nil => intro s hs; exact ⟨s, rfl, hs⟩
    | cons e r ih =>
      intro s hs
      obtain ⟨s1, h1⟩ := stepX_parked s e
      have hw1 : WF s1 := by have := wf_stepX s e hs; rw [h1] at this; exact this
      obtain ⟨s2, h2, hw2⟩ := ih s1 hw1
      exact ⟨s2, by simp only [runX]; rw [h1]; exact h2, hw2⟩
  have hmono : ∀ (b : List EvX) (s : State), WF s → vget s.loc i ≤ vget (runX (park s) b).1.st.loc i := by
    intro b
    induction b with
    | nil => intro s _; exact Nat.le_refl _
    | cons e r ih =>
      intro s hs
      obtain ⟨s1, h1⟩ := stepX_parked s e
      have hw1 : WF s1 := by have := wf_stepX s e hs; rw [h1] at this; exact this
      have hm := local_monotone_x s e hs i
      rw [h1] at hm
      simp only [runX]; rw [h1]
      exact Nat.le_trans hm (ih s1 hw1)
  obtain ⟨s', hs', hw'⟩ := hpre evs (init selfId seq0) hw0
  rw [happ]
  show vget (runX (park (init selfId seq0)) evs).1.st.loc i ≤ _
  have : initX selfId seq0 = park (init selfId seq0) := rfl
  rw [this, hs']
  exact hmono more s' hw'

/-- **callback_iff_raised_x.** In the extended model the missing-data callback is invoked for a received vector iff
    that vector is accepted and raises some entry of the local vector; it is invoked at most once per vector,
    first of everything the step lets the outside see; and the exception of a raising callback propagates exactly
    when the callback was invoked. -/
theorem callback_iff_raised_x (s : State) (es : List Entry) (cb : Cb) :
    let r := stepX (park s) (.recvCb es cb)
    (Out.missing ∈ r.2.outs ↔ raises s es) ∧ r.2.outs.count Out.missing ≤ 1 ∧
    (raises s es → r.2.outs.head? = some Out.missing) ∧ (r.2.raised = true ↔ raises s es ∧ cb.raises = true) := by
  intro r
  have hrr : r = stepX (park s) (.recvCb es cb) := rfl
  rw [stepX_recvCb] at hrr
  by_cases hf : (step s (.recv es)).2 = [Out.missing]
  · have hr := (fired_iff_raises s es).mp hf
    simp only [hf, if_true] at hrr
    cases hk : cb.pubs with
    | zero => rw [hk] at hrr; simp only [] at hrr; rw [hrr]; simp [hr]
    | succ k => rw [hk] at hrr; simp only [] at hrr; rw [hrr]; simp [hr]
  · have hr : ¬ raises s es := fun hh => hf ((fired_iff_raises s es).mpr hh)
    simp only [hf, if_false] at hrr; rw [hrr]
    rcases (callback_iff_raised s es).2 with h | h
    · exact absurd h hf
    · simp [h, hr]

/-! #### suppression in the extended model -/

open Classical in
/-- ghost update of the extended model: what has been heard in the current suppression period; publications made
    by the callback do not change it (they end the period) -/
noncomputable def heardStepX (s : State) (heard : Bytes → Nat) : EvX → (Bytes → Nat)
  | .recvCb es _ => heardStep s heard (.recv es)
  | _ => heard

noncomputable def runGX (t : TState) (heard : Bytes → Nat) : List EvX → TState × (Bytes → Nat)
  | [] => (t, heard)
  | e :: r => runGX (stepX t e).1 (heardStepX t.st heard e) r

theorem runGX_fst (t : TState) (heard : Bytes → Nat) (evs : List EvX) :
    (runGX t heard evs).1 = (runX t evs).1 := by
  induction evs generalizing t heard with
  | nil => rfl
  | cons e r ih => simp only [runGX, runX]; exact ih _ _

theorem heardInv_stepX (s : State) (heard : Bytes → Nat) (e : EvX) (h : HeardInv s heard) :
    HeardInv (stepX (park s) e).1.st (heardStepX s heard e) := by
  cases e with
  | undecodable => exact h
  | publish => rw [stepX_publish]; exact heardInv_step s heard .publish h
  | timer => rw [stepX_timer]; exact heardInv_step s heard .timer h
  | recvCb es cb =>
    rw [stepX_recvCb]
    simp only [heardStepX]
    split
    · cases cb.pubs with
      | zero => exact heardInv_step s heard (.recv es) h
      | succ k =>
        intro hsup
        simp only [park, pubN_succ_suppress] at hsup
        cases hsup
    · exact heardInv_step s heard (.recv es) h

/-- **suppression_emit_iff_x.** `suppression_emit_iff` over every history of the extended model: when the timer
    ends a suppression period, a sync Interest carrying the full local vector is emitted iff the local vector is
    newer in some entry than the merge of the vectors heard in that period; otherwise nothing is emitted. -/
theorem suppression_emit_iff_x (selfId : Bytes) (seq0 : Nat) (evs : List EvX) :
    let t := (runGX (initX selfId seq0) (fun _ => 0) evs).1
    let heard := (runGX (initX selfId seq0) (fun _ => 0) evs).2
    t.st.suppress = true →
      ((stepX t .timer).2.outs = [Out.emit t.st.loc] ↔ ∃ k, heard k < vget t.st.loc k) ∧
      ((stepX t .timer).2.outs = [Out.emit t.st.loc] ∨ (stepX t .timer).2.outs = []) := by
  have hw0 : WF (init selfId seq0) := by simp [WF, init, PyDict.keys, vget, PyDict.get?]
  have hgen : ∀ (evs : List EvX) (s : State) (heard : Bytes → Nat), WF s → HeardInv s heard →
      ∃ s', (runGX (park s) heard evs).1 = park s' ∧ WF s' ∧ HeardInv s' (runGX (park s) heard evs).2 := by
    intro evs
    induction evs with
    | nil => intro s heard hw hi; exact ⟨s, rfl, hw, hi⟩
    | cons e r ih =>
      intro s heard hw hi
      obtain ⟨s1, h1⟩ := stepX_parked s e
      have hw1 : WF s1 := by have := wf_stepX s e hw; rw [h1] at this; exact this
      have hi1 : HeardInv s1 (heardStepX s heard e) := by
        have := heardInv_stepX s heard e hi; rw [h1] at this; exact this
      obtain ⟨s2, h2, hw2, hi2⟩ := ih s1 _ hw1 hi1
      refine ⟨s2, ?_, hw2, ?_⟩
      · simp only [runGX]; rw [h1]; exact h2
      · simp only [runGX]; rw [h1]; exact hi2
  intro t heard hsup
  obtain ⟨s', hs', hw', hi'⟩ := hgen evs (init selfId seq0) (fun _ => 0) hw0 (by simp [HeardInv, init])
  have ht : t = park s' := hs'
  rw [ht] at hsup ⊢
  rw [stepX_timer]
  exact suppression_emit_of_inv s' heard hw' hi' hsup

/-- **callback_before_bookkeeping_delays_announcement.** The variant of the handler that invokes the callback right
    after the merge loop, *before* its own timer bookkeeping (`stepXEarly`), is observably different whenever the
    callback publishes: the publications are recorded (own sequence number and own entry grown by `k + 1`) but the
    handler's bookkeeping then overwrites what `new_data()` armed — nothing but the callback leaves the step, no
    sync Interest, and the timer task is parked on a whole suppression or steady period — whereas the code as it is
    emits the full vector within the step.  So `recvPub = recv ; publish` fails for the variant. -/
theorem callback_before_bookkeeping_delays_announcement (s : State) (es : List Entry) (hr : raises s es) (k : Nat) :
    let bad := stepXEarly (park s) (.recvPub es (k + 1))
    let good := stepX (park s) (.recvPub es (k + 1))
    bad.2.outs = [Out.missing] ∧ (∀ v, Out.emit v ∉ bad.2.outs) ∧
    bad.1.st.selfSeq = s.selfSeq + (k + 1) ∧ vget bad.1.st.loc s.selfId = s.selfSeq + (k + 1) ∧
    bad.1.rst = false ∧ bad.1.due ≠ .now ∧
    good.2.outs = [Out.missing, Out.emit good.1.st.loc] ∧ bad ≠ good := by
  have hf := (fired_iff_raises s es).mpr hr
  obtain ⟨s', hb, h1, h2⟩ := stepXEarly_recvPub s es k hf
  have hg := callback_publish_increments_and_emits_full s es hr k false
  intro bad good
  have hbad : bad = (park s', ⟨[Out.missing], false⟩) := hb
  have hgo : good.2.outs = [Out.missing, Out.emit good.1.st.loc] := hg.2.2.2.1
  refine ⟨by rw [hbad], by rw [hbad]; simp, by rw [hbad]; exact h1, by rw [hbad]; exact h2, by rw [hbad]; rfl,
    by rw [hbad]; exact dueOf_ne_now s', hgo, ?_⟩
  intro he
  rw [← he, hbad] at hgo
  simp at hgo

/-! #### a re-entrant `new_data()` that does not reset `self.state` is unobservable -/

/-- the aggregate never claims more for this node than it has produced (over-claiming vectors are rejected) -/
def AggInv (s : State) : Prop := vget s.agg s.selfId ≤ s.selfSeq

theorem aggInv_step (s : State) (e : Ev) (h : AggInv s) : AggInv (step s e).1 := by
  cases e with
  | undecodable => exact h
  | timer => simp only [step]; split <;> exact h
  | publish => unfold AggInv at h ⊢; simp only [step]; omega
  | recv es =>
    by_cases ha : accepted s es
    · obtain ⟨rsv, hb, hs⟩ := step_recv_accepted s es ha
      have hr := buildRsv_some _ _ _ _ _ hb
      have hrv : ∀ k, vget rsv k = vecOf es k := fun k => by rw [hr.1 k]; rfl
      have hnd := hr.2 (by simp [PyDict.keys])
      have hle : vecOf es s.selfId ≤ s.selfSeq :=
        vecOfF_self_le s.selfId s.selfSeq es (fun _ => 0) (Nat.zero_le _) ha.2
      rw [hs]; unfold AggInv
      rw [(afterBuild_ids s rsv).1, (afterBuild_ids s rsv).2]
      unfold afterBuild; simp only []
      split
      · split
        · simp only []; rw [hrv]; exact hle
        · simp only []; rw [aggregate_vget, lmax_eq_vget rsv hnd, hrv]; unfold AggInv at h; omega
      · exact h
    · rw [rejected_unchanged s es ha]; exact h

theorem aggInv_run (s : State) (evs : List Ev) (h : AggInv s) : AggInv (run s evs).1 := by
  induction evs generalizing s with
  | nil => exact h
  | cons e r ih => simp only [run]; exact ih _ (aggInv_step s e h)

/-- every history of the extended model from a well-formed state at rest ends in a well-formed state at rest -/
theorem runX_reach (evs : List EvX) (s : State) (hw : WF s) (ha : AggInv s) :
    ∃ s', (runX (park s) evs).1 = park s' ∧ WF s' ∧ AggInv s' := by
  induction evs generalizing s with
  | nil => exact ⟨s, rfl, hw, ha⟩
  | cons e r ih =>
    have h1 := stepX_flat s e
    obtain ⟨s2, h2, hw2, ha2⟩ := ih _ (wf_run s (flat s e) hw) (aggInv_run s (flat s e) ha)
    exact ⟨s2, by simp only [runX]; rw [h1]; exact h2, hw2, ha2⟩

/-- one step: from a well-formed state at rest the variant does exactly what the code does -/
theorem stepXKeep_eq_stepX (s : State) (hw : WF s) (ha : AggInv s) (e : EvX) :
    stepXKeep (park s) e = stepX (park s) e := by
  cases e with
  | undecodable => rfl
  | publish => rfl
  | timer => rfl
  | recvCb es cb =>
    obtain ⟨r, hr⟩ := handler0_parked s es
    simp only [stepXKeep, stepX, stepWith]
    rw [handlerKeep_eq, handler_eq, hr]
    simp only []
    by_cases hf : (step s (.recv es)).2 = [Out.missing]
    · simp only [hf, if_true]
      cases cb.pubs with
      | zero => rfl
      | succ k =>
        simp only [callbackKeep_succ, callback_succ, settle, if_true]
        have hs1 : WF (step s (.recv es)).1 := wf_step s _ hw
        have ha1 : AggInv (step s (.recv es)).1 := aggInv_step s _ ha
        have hwp : WF (pubN (k + 1) (step s (.recv es)).1) := by
          rw [← run_replicate_publish]; exact wf_run _ _ hs1
        have hn : necessary (pubN (k + 1) (step s (.recv es)).1).loc (pubN (k + 1) (step s (.recv es)).1).agg
            = true := by
          rw [necessary_iff _ _ hwp.1]
          refine ⟨(step s (.recv es)).1.selfId, ?_⟩
          rw [pubN_agg, pubN_own]
          unfold AggInv at ha1; omega
        rw [fire_keep _ _ (pubN_succ_suppress k _) hn]
    · simp only [hf, if_false]

/-- **reentrant_state_reset_unobservable.** Whether a `new_data()` made from inside the callback resets `self.state`
    is unobservable: after any history from `start()`, the variant that leaves the protocol state alone (and only
    rearms the timer) takes, on every event, exactly the step the code takes — the timer fires at once either way,
    and the end-of-suppression test it then runs always finds the freshly published own entry newer than the
    aggregate, because over-claiming vectors never reach the aggregate.  (This is why the corresponding mutation of
    the code is not a defect and is not reported by the check.) -/
theorem reentrant_state_reset_unobservable (selfId : Bytes) (seq0 : Nat) (evs : List EvX) (e : EvX) :
    stepXKeep (runX (initX selfId seq0) evs).1 e = stepX (runX (initX selfId seq0) evs).1 e := by
  obtain ⟨s', hs', hw', ha'⟩ := runX_reach evs (init selfId seq0)
    (by simp [WF, init, PyDict.keys, vget, PyDict.get?]) (by simp [AggInv, init, vget, PyDict.get?])
  have : initX selfId seq0 = park (init selfId seq0) := rfl
  rw [this, hs']
  exact stepXKeep_eq_stepX s' hw' ha' e

/-- **stepXB_refines.** The statement-level handler on the bytes of the name component is the statement-level model
    on the decoded entries; bytes the decoder rejects with a class the handler catches change nothing, and the
    other classes propagate with the state (timer included) untouched. -/
theorem stepXB_refines (t : TState) (comp : Bytes) (cb : Cb) :
    (∃ es, decodeVector comp = some es ∧
      stepXB t (.raw comp cb) = ((stepX t (.recvCb es cb)).1, .ok (stepX t (.recvCb es cb)).2)) ∨
    (∃ e, decodeVectorE comp = .error e ∧ (e = .decodeError ∨ e = .indexError) ∧
      stepXB t (.raw comp cb) = (t, .ok ⟨[], false⟩)) ∨
    (∃ e, decodeVectorE comp = .error e ∧ (e = .structError ∨ e = .valueError ∨ e = .typeError) ∧
      stepXB t (.raw comp cb) = (t, .error e)) := by
  rcases stepBytes_spec t.st comp with ⟨es, h1, _⟩ | ⟨x, h1, h2, _⟩ | ⟨x, h1, h2, _⟩
  · left; refine ⟨es, h1, ?_⟩
    rw [decodeVector_some] at h1; simp [stepXB, h1]
  · right; left; refine ⟨x, h1, h2, ?_⟩
    rcases h2 with rfl | rfl <;> simp [stepXB, h1, caught, Gen.C18.caught, Gen.C18.catchAll]
  · right; right; refine ⟨x, h1, h2, ?_⟩
    rcases h2 with rfl | rfl | rfl <;> simp [stepXB, h1, caught, Gen.C18.caught, Gen.C18.catchAll]

/-! non-vacuity and the concrete counterexample -/

/-- /n0 hears {/n1:1} with a callback that publishes once: the code as it is emits {/n0:1, /n1:1} in the same step
    and ends in a fresh steady period … -/
example : stepX (initX [1] 0) (.recvPub [(some [2], some 1)] 1) =
    ({ st := { selfId := [1], selfSeq := 1, loc := [([1], 1), ([2], 1)], agg := [([2], 1)], suppress := false },
       due := .steady, rst := false },
     ⟨[Out.missing, Out.emit [([1], 1), ([2], 1)]], false⟩) := by decide
/-- … the variant records the publication, emits nothing and sits in a suppression period (the seeded change
    C18-6 on the same input) -/
example : stepXEarly (initX [1] 0) (.recvPub [(some [2], some 1)] 1) =
    ({ st := { selfId := [1], selfSeq := 1, loc := [([1], 1), ([2], 1)], agg := [([2], 1)], suppress := true },
       due := .sup, rst := false },
     ⟨[Out.missing], false⟩) := by decide
/-- a vector that names no unknown node and is nowhere outdated: the variant waits a whole steady period -/
example : (stepXEarly (park { selfId := [1], selfSeq := 0, loc := [([1], 0), ([2], 1)], agg := [], suppress := false })
    (.recvPub [(some [1], some 0), (some [2], some 3)] 2)).1.due = .steady := by decide
example : raises (init [1] 0) [(some [2], some 1)] := by
  refine ⟨⟨by simp, ?_⟩, [2], by decide⟩
  rintro ⟨q, hm, _, _⟩; simp [init] at hm
/-- three publications inside one callback during a suppression period, the callback then raises: one Interest with
    the final vector, the exception propagates, steady afterwards -/
example :
    (runX (initX [1] 5) [.recv [(some [2], some 4)], .timer, .recv [(some [2], some 1)],
        .recvCb [(some [2], some 9)] ⟨3, true⟩]).2 =
      [⟨[Out.missing], false⟩, ⟨[Out.emit [([1], 5), ([2], 4)]], false⟩, ⟨[], false⟩,
       ⟨[Out.missing, Out.emit [([1], 8), ([2], 9)]], true⟩] := by decide

end Ndn.C18
