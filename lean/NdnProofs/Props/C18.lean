import NdnProofs.Lemmas.Svs
/-!
# C18 — State-vector sync merges monotonically and announces exactly when needed

Theorems about `Ndn.Svs.step` / `run` (model of `SvsInst.sync_handler`, `aggregate`, `on_timer`,
`new_data`), for **every** state, every received vector and every event history.
Specification vocabulary (does not mention the implementation):
* `vecOf es`  — the vector a list of decoded entries denotes (a total function NodeId → SeqNo);
* `overclaims` — some entry claims more data for this node than it has produced;
* `accepted`  — the vector is non-empty and does not over-claim;
* `heardStep` — ghost: entry-wise maximum of the vectors heard in the current suppression period.
-/
namespace Ndn.C18
open Ndn Ndn.Svs

/-- well-formedness of a state: the local vector is a dict (unique keys) and never claims more for
    this node than it has produced -/
def WF (s : State) : Prop := (PyDict.keys s.loc).Nodup ∧ vget s.loc s.selfId ≤ s.selfSeq

def accepted (s : State) (es : List Entry) : Prop :=
  es ≠ [] ∧ ¬ overclaims s.selfId s.selfSeq es

theorem step_recv_accepted (s : State) (es : List Entry) (h : accepted s es) :
    ∃ rsv, buildRsv s.selfId s.selfSeq es [] = some rsv ∧ step s (.recv es) = afterBuild s rsv := by
  obtain ⟨hne, hov⟩ := h
  cases hb : buildRsv s.selfId s.selfSeq es [] with
  | none => exact absurd ((buildRsv_none_iff _ _ _ _).mp hb) hov
  | some rsv =>
    have hemp : es.isEmpty = false := by cases es <;> simp_all
    exact ⟨rsv, rfl, by simp [step, hemp, hb]⟩

/-- **local_is_max.** After an accepted vector the local vector is the entry-wise maximum of its
    previous value and the received vector. -/
theorem local_is_max (s : State) (es : List Entry) (h : accepted s es) (k : Bytes) :
    vget (step s (.recv es)).1.loc k = max (vget s.loc k) (vecOf es k) := by
  obtain ⟨rsv, hb, hs⟩ := step_recv_accepted s es h
  have hr := buildRsv_some _ _ _ _ _ hb
  rw [hs, afterBuild_loc, mergeLoop_loc, lmax_eq_vget rsv (hr.2 (by simp [PyDict.keys])), hr.1 k]
  rfl

/-- A vector that is not accepted changes nothing and triggers nothing. -/
theorem rejected_unchanged (s : State) (es : List Entry) (h : ¬ accepted s es) :
    step s (.recv es) = (s, []) := by
  unfold accepted at h
  by_cases he : es = []
  · subst he; simp [step]
  · have hov : overclaims s.selfId s.selfSeq es := by
      by_cases ho : overclaims s.selfId s.selfSeq es
      · exact ho
      · exact absurd ⟨he, ho⟩ h
    have := (buildRsv_none_iff s.selfId s.selfSeq es []).mpr hov
    have hemp : es.isEmpty = false := by cases es <;> simp_all
    simp [step, this, hemp]

/-- **overclaim_ignored_entirely.** A vector claiming more data for this node than it has produced
    is ignored entirely: no state change, no callback, no emission. -/
theorem overclaim_ignored_entirely (s : State) (es : List Entry)
    (h : overclaims s.selfId s.selfSeq es) : step s (.recv es) = (s, []) :=
  rejected_unchanged s es (fun a => a.2 h)

theorem wf_step (s : State) (e : Ev) (h : WF s) : WF (step s e).1 := by
  cases e with
  | undecodable => simpa [step]
  | timer => simp only [step]; split <;> exact h
  | publish =>
    simp only [step, WF]
    exact ⟨PyDict.nodup_keys_set _ _ _ h.1, by rw [vget_set]; simp⟩
  | recv es =>
    by_cases ha : accepted s es
    · obtain ⟨rsv, hb, hs⟩ := step_recv_accepted s es ha
      have hmax := local_is_max s es ha s.selfId
      rw [hs] at hmax ⊢
      refine ⟨?_, ?_⟩
      · rw [afterBuild_loc]; exact mergeLoop_nodup _ _ _ _ h.1
      · rw [(afterBuild_ids s rsv).1, (afterBuild_ids s rsv).2, hmax]
        have := vecOfF_self_le s.selfId s.selfSeq es (fun _ => 0) (Nat.zero_le _) ha.2
        have h2 := h.2
        unfold vecOf; omega
    · rw [rejected_unchanged s es ha]; exact h

/-- **local_monotone.** No event ever decreases an entry of the local vector. -/
theorem local_monotone (s : State) (e : Ev) (h : WF s) (k : Bytes) :
    vget s.loc k ≤ vget (step s e).1.loc k := by
  cases e with
  | undecodable => simp [step]
  | timer => simp only [step]; split <;> simp
  | publish =>
    simp only [step]; rw [vget_set]; split
    · subst_vars; have := h.2; omega
    · exact Nat.le_refl _
  | recv es =>
    by_cases ha : accepted s es
    · rw [local_is_max s es ha]; omega
    · rw [rejected_unchanged s es ha]; exact Nat.le_refl _

theorem wf_run (s : State) (evs : List Ev) (h : WF s) : WF (run s evs).1 := by
  induction evs generalizing s with
  | nil => simpa [run]
  | cons e r ih => simp only [run]; exact ih _ (wf_step s e h)

/-- **run_monotone.** Over any event history the local vector never decreases. -/
theorem run_monotone (s : State) (evs : List Ev) (h : WF s) (k : Bytes) :
    vget s.loc k ≤ vget (run s evs).1.loc k := by
  induction evs generalizing s with
  | nil => simp [run]
  | cons e r ih =>
    simp only [run]
    exact Nat.le_trans (local_monotone s e h k) (ih _ (wf_step s e h))

/-- **callback_iff_raised.** The missing-data callback fires for a received vector iff that vector
    raised some entry of the local vector (and it fires at most once, with nothing else). -/
theorem callback_iff_raised (s : State) (es : List Entry) :
    ((step s (.recv es)).2 = [Out.missing] ↔ ∃ k, vget s.loc k < vget (step s (.recv es)).1.loc k) ∧
    ((step s (.recv es)).2 = [Out.missing] ∨ (step s (.recv es)).2 = []) := by
  by_cases ha : accepted s es
  · obtain ⟨rsv, hb, hs⟩ := step_recv_accepted s es ha
    rw [hs, afterBuild_out, afterBuild_loc]
    have := mergeLoop_nf rsv s.loc false (rsv.any fun p => !(PyDict.contains s.loc p.1))
    simp only [Bool.false_eq_true, false_or] at this
    constructor
    · rw [← this]; split <;> simp_all
    · split <;> simp
  · rw [rejected_unchanged s es ha]; simp

/-- **publish_increments_and_emits_full.** Publishing increases the own sequence number by one,
    records it in the local vector (all other entries unchanged) and emits exactly one sync
    Interest carrying the full local vector. -/
theorem publish_increments_and_emits_full (s : State) :
    let r := step s .publish
    r.1.selfSeq = s.selfSeq + 1 ∧
    vget r.1.loc s.selfId = s.selfSeq + 1 ∧
    (∀ k, k ≠ s.selfId → vget r.1.loc k = vget s.loc k) ∧
    r.2 = [Out.emit r.1.loc] := by
  simp only [step]
  refine ⟨trivial, by rw [vget_set]; simp, ?_, trivial⟩
  intro k hk; rw [vget_set]; simp [Ne.symm hk]

/-- **steady_timer_emits.** In steady state the periodic timer emits the full vector. -/
theorem steady_timer_emits (s : State) (h : s.suppress = false) :
    step s .timer = (s, [Out.emit s.loc]) := by
  simp [step, h]

/-! ### suppression: ghost state = entry-wise maximum of the vectors heard in this period -/

open Classical in
/-- ghost update: what has been heard in the current suppression period (as a total function) -/
noncomputable def heardStep (s : State) (heard : Bytes → Nat) : Ev → (Bytes → Nat)
  | .recv es =>
    if accepted s es then
      if s.suppress then (fun k => max (heard k) (vecOf es k))
      else vecOf es           -- this vector starts the period (if the state turns to suppression)
    else heard
  | _ => heard

noncomputable def runG (s : State) (heard : Bytes → Nat) : List Ev → State × (Bytes → Nat)
  | [] => (s, heard)
  | e :: r => runG (step s e).1 (heardStep s heard e) r

def HeardInv (s : State) (heard : Bytes → Nat) : Prop :=
  s.suppress = true → ∀ k, vget s.agg k = heard k

theorem heardInv_step (s : State) (heard : Bytes → Nat) (e : Ev) (h : HeardInv s heard) :
    HeardInv (step s e).1 (heardStep s heard e) := by
  cases e with
  | undecodable => simpa [step, heardStep]
  | timer => simp only [step]; split <;> simp_all [HeardInv, heardStep]
  | publish => simp [step, HeardInv]
  | recv es =>
    by_cases ha : accepted s es
    · obtain ⟨rsv, hb, hs⟩ := step_recv_accepted s es ha
      have hr := buildRsv_some _ _ _ _ _ hb
      have hrv : ∀ k, vget rsv k = vecOf es k := fun k => by rw [hr.1 k]; rfl
      have hnd := hr.2 (by simp [PyDict.keys])
      rw [hs]
      simp only [heardStep, ha, if_true]
      unfold afterBuild HeardInv; simp only []
      cases hsup : s.suppress with
      | false =>
        simp only [Bool.or_false, Bool.not_false, if_true]
        split
        · intro _ k; simp [hrv]
        · intro hc; simp at hc
      | true =>
        simp only [Bool.or_true, if_true, Bool.not_true, Bool.false_eq_true, if_false]
        intro _ k
        rw [aggregate_vget, lmax_eq_vget rsv hnd, hrv, h hsup k]
    · rw [rejected_unchanged s es ha]; simpa [heardStep, ha]

theorem heardInv_run (s : State) (heard : Bytes → Nat) (evs : List Ev) (h : HeardInv s heard) :
    HeardInv (runG s heard evs).1 (runG s heard evs).2 := by
  induction evs generalizing s heard with
  | nil => simpa [runG]
  | cons e r ih => simp only [runG]; exact ih _ _ (heardInv_step s heard e h)

theorem runG_fst (s : State) (heard : Bytes → Nat) (evs : List Ev) :
    (runG s heard evs).1 = (run s evs).1 := by
  induction evs generalizing s heard with
  | nil => simp [runG, run]
  | cons e r ih => simp only [runG, run]; exact ih _ _

/-- **suppression_emit_iff.** After any event history from the initial state, when the timer ends a
    suppression period a sync Interest (carrying the full local vector) is emitted if and only if
    the local vector is newer in some entry than the merge of the vectors heard in that period;
    otherwise nothing is emitted. -/
theorem suppression_emit_iff (selfId : Bytes) (seq0 : Nat) (evs : List Ev) :
    let s := (runG (init selfId seq0) (fun _ => 0) evs).1
    let heard := (runG (init selfId seq0) (fun _ => 0) evs).2
    s.suppress = true →
      ((step s .timer).2 = [Out.emit s.loc] ↔ ∃ k, heard k < vget s.loc k) ∧
      ((step s .timer).2 = [Out.emit s.loc] ∨ (step s .timer).2 = []) := by
  intro s heard hsup
  have hinv : HeardInv s heard := heardInv_run _ _ evs (by simp [HeardInv, init])
  have hwf : WF s := by
    have := wf_run (init selfId seq0) evs (by simp [WF, init, PyDict.keys, vget, PyDict.get?])
    rw [← runG_fst _ (fun _ => 0)] at this; exact this
  have hn := necessary_iff s.loc s.agg hwf.1
  simp only [step, hsup, if_true]
  constructor
  · constructor
    · intro he
      have : necessary s.loc s.agg = true := by
        cases hc : necessary s.loc s.agg <;> simp_all
      obtain ⟨k, hk⟩ := hn.mp this
      exact ⟨k, by rw [← hinv hsup k]; exact hk⟩
    · rintro ⟨k, hk⟩
      have : necessary s.loc s.agg = true := hn.mpr ⟨k, by rw [hinv hsup k]; exact hk⟩
      simp [this]
  · split <;> simp

/-! ### non-vacuity: the hypotheses are met by concrete reachable states -/

/-- the F14 history: local A:5, hear {A:3} then {A:2,B:1}; the model (repaired code) does emit -/
example :
    let s0 : State := { selfId := [1], selfSeq := 0, loc := [([1], 0), ([7], 5)], agg := [], suppress := false }
    let r := run s0 [.recv [(some [7], some 3)], .recv [(some [7], some 2), (some [8], some 1)], .timer]
    r.2 = [[], [Out.missing], [Out.emit [([1], 0), ([7], 5), ([8], 1)]]] := by decide

example : accepted (init [1] 3) [(some [2], some 4)] := by
  refine ⟨by simp, ?_⟩
  rintro ⟨q, hm, _, _⟩; simp [init] at hm

example : overclaims [1] 3 [(some [2], some 4), (some [1], some 9)] := ⟨9, by simp, by simp, by omega⟩

end Ndn.C18
