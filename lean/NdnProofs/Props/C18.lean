import NdnProofs.Lemmas.Svs
import NdnProofs.Lemmas.SvsBytes
import NdnProofs.Lemmas.SvsReach
/-!
# C18 — State-vector sync merges monotonically and announces exactly when needed

Theorems about `Ndn.Svs.step` / `run` (model of `SvsInst.sync_handler`, `aggregate`, `on_timer`,
`new_data`), for **every** state, every received vector and every event history.
Specification vocabulary (does not mention the implementation):
* `vecOf es`  — the vector a list of decoded entries denotes (a total function NodeId → SeqNo);
* `overclaims` — some entry claims more data for this node than it has produced;
* `accepted`  — the vector is non-empty and does not over-claim;
* `heardStep` — ghost: entry-wise maximum of the vectors heard in the current suppression period.
-/
namespace Ndn.C18
open Ndn Ndn.Svs

/-- well-formedness of a state: the local vector is a dict (unique keys) and never claims more for
    this node than it has produced -/
def WF (s : State) : Prop := (PyDict.keys s.loc).Nodup ∧ vget s.loc s.selfId ≤ s.selfSeq

def accepted (s : State) (es : List Entry) : Prop :=
  es ≠ [] ∧ ¬ overclaims s.selfId s.selfSeq es

theorem step_recv_accepted (s : State) (es : List Entry) (h : accepted s es) :
    ∃ rsv, buildRsv s.selfId s.selfSeq es [] = some rsv ∧ step s (.recv es) = afterBuild s rsv := by
  obtain ⟨hne, hov⟩ := h
  cases hb : buildRsv s.selfId s.selfSeq es [] with
  | none => exact absurd ((buildRsv_none_iff _ _ _ _).mp hb) hov
  | some rsv =>
    have hemp : es.isEmpty = false := by cases es <;> simp_all
    exact ⟨rsv, rfl, by simp [step, hemp, hb]⟩

/-- **local_is_max.** After an accepted vector the local vector is the entry-wise maximum of its
    previous value and the received vector. -/
theorem local_is_max (s : State) (es : List Entry) (h : accepted s es) (k : Bytes) :
    vget (step s (.recv es)).1.loc k = max (vget s.loc k) (vecOf es k) := by
  obtain ⟨rsv, hb, hs⟩ := step_recv_accepted s es h
  have hr := buildRsv_some _ _ _ _ _ hb
  rw [hs, afterBuild_loc, mergeLoop_loc, lmax_eq_vget rsv (hr.2 (by simp [PyDict.keys])), hr.1 k]
  rfl

/-- A vector that is not accepted changes nothing and triggers nothing. -/
theorem rejected_unchanged (s : State) (es : List Entry) (h : ¬ accepted s es) :
    step s (.recv es) = (s, []) := by
  unfold accepted at h
  by_cases he : es = []
  · subst he; simp [step]
  · have hov : overclaims s.selfId s.selfSeq es := by
      by_cases ho : overclaims s.selfId s.selfSeq es
      · exact ho
      · exact absurd ⟨he, ho⟩ h
    have := (buildRsv_none_iff s.selfId s.selfSeq es []).mpr hov
    have hemp : es.isEmpty = false := by cases es <;> simp_all
    simp [step, this, hemp]

/-- **overclaim_ignored_entirely.** A vector claiming more data for this node than it has produced
    is ignored entirely: no state change, no callback, no emission. -/
theorem overclaim_ignored_entirely (s : State) (es : List Entry)
    (h : overclaims s.selfId s.selfSeq es) : step s (.recv es) = (s, []) :=
  rejected_unchanged s es (fun a => a.2 h)

theorem wf_step (s : State) (e : Ev) (h : WF s) : WF (step s e).1 := by
  cases e with
  | undecodable => simpa [step]
  | timer => simp only [step]; split <;> exact h
  | publish =>
    simp only [step, WF]
    exact ⟨PyDict.nodup_keys_set _ _ _ h.1, by rw [vget_set]; simp⟩
  | recv es =>
    by_cases ha : accepted s es
    · obtain ⟨rsv, hb, hs⟩ := step_recv_accepted s es ha
      have hmax := local_is_max s es ha s.selfId
      rw [hs] at hmax ⊢
      refine ⟨?_, ?_⟩
      · rw [afterBuild_loc]; exact mergeLoop_nodup _ _ _ _ h.1
      · rw [(afterBuild_ids s rsv).1, (afterBuild_ids s rsv).2, hmax]
        have := vecOfF_self_le s.selfId s.selfSeq es (fun _ => 0) (Nat.zero_le _) ha.2
        have h2 := h.2
        unfold vecOf; omega
    · rw [rejected_unchanged s es ha]; exact h

/-- **local_monotone.** No event ever decreases an entry of the local vector. -/
theorem local_monotone (s : State) (e : Ev) (h : WF s) (k : Bytes) :
    vget s.loc k ≤ vget (step s e).1.loc k := by
  cases e with
  | undecodable => simp [step]
  | timer => simp only [step]; split <;> simp
  | publish =>
    simp only [step]; rw [vget_set]; split
    · subst_vars; have := h.2; omega
    · exact Nat.le_refl _
  | recv es =>
    by_cases ha : accepted s es
    · rw [local_is_max s es ha]; omega
    · rw [rejected_unchanged s es ha]; exact Nat.le_refl _

theorem wf_run (s : State) (evs : List Ev) (h : WF s) : WF (run s evs).1 := by
  induction evs generalizing s with
  | nil => simpa [run]
  | cons e r ih => simp only [run]; exact ih _ (wf_step s e h)

/-- **run_monotone.** Over any event history the local vector never decreases. -/
theorem run_monotone (s : State) (evs : List Ev) (h : WF s) (k : Bytes) :
    vget s.loc k ≤ vget (run s evs).1.loc k := by
  induction evs generalizing s with
  | nil => simp [run]
  | cons e r ih =>
    simp only [run]
    exact Nat.le_trans (local_monotone s e h k) (ih _ (wf_step s e h))

/-- **callback_iff_raised.** The missing-data callback fires for a received vector iff that vector
    raised some entry of the local vector (and it fires at most once, with nothing else). -/
theorem callback_iff_raised (s : State) (es : List Entry) :
    ((step s (.recv es)).2 = [Out.missing] ↔ ∃ k, vget s.loc k < vget (step s (.recv es)).1.loc k) ∧
    ((step s (.recv es)).2 = [Out.missing] ∨ (step s (.recv es)).2 = []) := by
  by_cases ha : accepted s es
  · obtain ⟨rsv, hb, hs⟩ := step_recv_accepted s es ha
    rw [hs, afterBuild_out, afterBuild_loc]
    have := mergeLoop_nf rsv s.loc false (rsv.any fun p => !(PyDict.contains s.loc p.1))
    simp only [Bool.false_eq_true, false_or] at this
    constructor
    · rw [← this]; split <;> simp_all
    · split <;> simp
  · rw [rejected_unchanged s es ha]; simp

/-- **publish_increments_and_emits_full.** Publishing increases the own sequence number by one,
    records it in the local vector (all other entries unchanged) and emits exactly one sync
    Interest carrying the full local vector. -/
theorem publish_increments_and_emits_full (s : State) :
    let r := step s .publish
    r.1.selfSeq = s.selfSeq + 1 ∧
    vget r.1.loc s.selfId = s.selfSeq + 1 ∧
    (∀ k, k ≠ s.selfId → vget r.1.loc k = vget s.loc k) ∧
    r.2 = [Out.emit r.1.loc] := by
  simp only [step]
  refine ⟨trivial, by rw [vget_set]; simp, ?_, trivial⟩
  intro k hk; rw [vget_set]; simp [Ne.symm hk]

/-- **steady_timer_emits.** In steady state the periodic timer emits the full vector. -/
theorem steady_timer_emits (s : State) (h : s.suppress = false) :
    step s .timer = (s, [Out.emit s.loc]) := by
  simp [step, h]

/-! ### suppression: ghost state = entry-wise maximum of the vectors heard in this period -/

open Classical in
/-- ghost update: what has been heard in the current suppression period (as a total function) -/
noncomputable def heardStep (s : State) (heard : Bytes → Nat) : Ev → (Bytes → Nat)
  | .recv es =>
    if accepted s es then
      if s.suppress then (fun k => max (heard k) (vecOf es k))
      else vecOf es           -- this vector starts the period (if the state turns to suppression)
    else heard
  | _ => heard

noncomputable def runG (s : State) (heard : Bytes → Nat) : List Ev → State × (Bytes → Nat)
  | [] => (s, heard)
  | e :: r => runG (step s e).1 (heardStep s heard e) r

def HeardInv (s : State) (heard : Bytes → Nat) : Prop :=
  s.suppress = true → ∀ k, vget s.agg k = heard k

theorem heardInv_step (s : State) (heard : Bytes → Nat) (e : Ev) (h : HeardInv s heard) :
    HeardInv (step s e).1 (heardStep s heard e) := by
  cases e with
  | undecodable => simpa [step, heardStep]
  | timer => simp only [step]; split <;> simp_all [HeardInv, heardStep]
  | publish => simp [step, HeardInv]
  | recv es =>
    by_cases ha : accepted s es
    · obtain ⟨rsv, hb, hs⟩ := step_recv_accepted s es ha
      have hr := buildRsv_some _ _ _ _ _ hb
      have hrv : ∀ k, vget rsv k = vecOf es k := fun k => by rw [hr.1 k]; rfl
      have hnd := hr.2 (by simp [PyDict.keys])
      rw [hs]
      simp only [heardStep, ha, if_true]
      unfold afterBuild HeardInv; simp only []
      cases hsup : s.suppress with
      | false =>
        simp only [Bool.or_false, Bool.not_false, if_true]
        split
        · intro _ k; simp [hrv]
        · intro hc; simp at hc
      | true =>
        simp only [Bool.or_true, if_true, Bool.not_true, Bool.false_eq_true, if_false]
        intro _ k
        rw [aggregate_vget, lmax_eq_vget rsv hnd, hrv, h hsup k]
    · rw [rejected_unchanged s es ha]; simpa [heardStep, ha]

theorem heardInv_run (s : State) (heard : Bytes → Nat) (evs : List Ev) (h : HeardInv s heard) :
    HeardInv (runG s heard evs).1 (runG s heard evs).2 := by
  induction evs generalizing s heard with
  | nil => simpa [runG]
  | cons e r ih => simp only [runG]; exact ih _ _ (heardInv_step s heard e h)

theorem runG_fst (s : State) (heard : Bytes → Nat) (evs : List Ev) :
    (runG s heard evs).1 = (run s evs).1 := by
  induction evs generalizing s heard with
  | nil => simp [runG, run]
  | cons e r ih => simp only [runG, run]; exact ih _ _

/-- **suppression_emit_iff.** After any event history from the initial state, when the timer ends a
    suppression period a sync Interest (carrying the full local vector) is emitted if and only if
    the local vector is newer in some entry than the merge of the vectors heard in that period;
    otherwise nothing is emitted. -/
theorem suppression_emit_iff (selfId : Bytes) (seq0 : Nat) (evs : List Ev) :
    let s := (runG (init selfId seq0) (fun _ => 0) evs).1
    let heard := (runG (init selfId seq0) (fun _ => 0) evs).2
    s.suppress = true →
      ((step s .timer).2 = [Out.emit s.loc] ↔ ∃ k, heard k < vget s.loc k) ∧
      ((step s .timer).2 = [Out.emit s.loc] ∨ (step s .timer).2 = []) := by
  intro s heard hsup
  have hinv : HeardInv s heard := heardInv_run _ _ evs (by simp [HeardInv, init])
  have hwf : WF s := by
    have := wf_run (init selfId seq0) evs (by simp [WF, init, PyDict.keys, vget, PyDict.get?])
    rw [← runG_fst _ (fun _ => 0)] at this; exact this
  have hn := necessary_iff s.loc s.agg hwf.1
  simp only [step, hsup, if_true]
  constructor
  · constructor
    · intro he
      have : necessary s.loc s.agg = true := by
        cases hc : necessary s.loc s.agg <;> simp_all
      obtain ⟨k, hk⟩ := hn.mp this
      exact ⟨k, by rw [← hinv hsup k]; exact hk⟩
    · rintro ⟨k, hk⟩
      have : necessary s.loc s.agg = true := hn.mpr ⟨k, by rw [hinv hsup k]; exact hk⟩
      simp [this]
  · split <;> simp

/-! ### the byte-level half: vectors as the bytes of the name component

`decodeVector` is `StateVecWrapper.parse(name[-2])` (the generic decoder `Ndn.Codec.parse` of property C08 over
the schema regenerated from the live class) followed by reading `.val.entries`; `encodeVector` is what
`express_sync_interest` puts into the name (`Ndn.Codec.encFields`); `stepBytes` is `sync_handler` on the
bytes of the component, `stepB` / `runB` the model on histories whose received vectors are bytes. -/

open Ndn.Codec in
/-- **vector_roundtrip.** What `express_sync_interest` encodes for a vector whose node ids are well-formed names
    and whose sequence numbers are below 2^64 is decoded by the receiving side to exactly the entries of that
    vector, in order (instance of `C08.parse_enc_roundtrip` at the StateVecWrapper class). -/
theorem vector_roundtrip (v : Vec) (h : WfVec v) (b : Bytes) (he : encodeVector v = .ok b) :
    decodeVector b = some (entriesOf v) := by
  obtain ⟨es, hv, henc⟩ := bind_ok he
  obtain ⟨hfit, hmap⟩ := vecValues_spec v h es hv
  have hfits : fitsFs wrapperSchema [.model [.list es]] = true := by
    rw [wrapperSchema_eq]; simp [fitsFs, fits, hfit]
  have hp := C08.parse_enc_roundtrip wrapperSchema _ b false wrapper_wf hfits henc
  rw [decodeVector_some]; unfold decodeVectorE
  rw [hp]; simp [bind, Except.bind, pure, Except.pure, entriesOfParsed, hmap]

open Ndn.Codec in
/-- **stepBytes_spec.** For **every** byte string in the vector component exactly one of three things happens:
    it decodes and the handler does what the model does on the decoded entries; decoding raises `DecodeError`
    or `IndexError`, which `sync_handler` catches (table regenerated from its `except` clause) — nothing
    changes, nothing is emitted; or decoding raises `struct.error` / `ValueError` (`TypeError` is admitted by the
    decoder's totality theorem `total_step` = `C07.parse_total` but produced by no rule), which the handler does
    **not** catch: the exception propagates to the caller and the state is untouched. -/
theorem stepBytes_spec (s : State) (comp : Bytes) :
    (∃ es, decodeVector comp = some es ∧ stepBytes s comp = .ok (step s (.recv es))) ∨
    (∃ e, decodeVectorE comp = .error e ∧ (e = .decodeError ∨ e = .indexError) ∧
        stepBytes s comp = .ok (s, [])) ∨
    (∃ e, decodeVectorE comp = .error e ∧ (e = .structError ∨ e = .valueError ∨ e = .typeError) ∧
        stepBytes s comp = .error e) := by
  cases hd : decodeVectorE comp with
  | ok es => left; exact ⟨es, decodeVector_some.mpr hd, by simp [stepBytes, hd]⟩
  | error e =>
    have hp := decodeVectorE_error hd
    have hdoc : docErr e = true :=
      (total_step (comp.length + 1)).1 wrapperSchema false comp 0 0 _ wrapper_p (Nat.lt_succ_self _) e hp
    right
    cases e <;> simp [docErr] at hdoc <;>
      simp [stepBytes, hd, caught, Gen.C18.caught, Gen.C18.catchAll, step]

theorem stepBytes_decoded (s : State) (comp : Bytes) (es : List Entry) (h : decodeVector comp = some es) :
    stepBytes s comp = .ok (step s (.recv es)) := by
  rw [decodeVector_some] at h; simp [stepBytes, h]

/-- the event of the decoded model a byte-level event stands for -/
def decodeEv : EvB → Ev
  | .ev e => e
  | .raw comp => match decodeVector comp with
    | some es => .recv es
    | none => .undecodable

/-- histories whose received vectors are bytes -/
def runB (s : State) : List EvB → State
  | [] => s
  | e :: r => runB (stepB s e).1 r

/-- **stepB_refines.** The handler on bytes is the model on the decoded event: same next state always; the same
    outputs when the handler returns; and when it raises (only `struct.error` / `ValueError` / `TypeError` from
    the decoder) the state is unchanged and the decoded model does nothing either. -/
theorem stepB_refines (s : State) (e : EvB) :
    (stepB s e).1 = (step s (decodeEv e)).1 ∧
    (∀ o, (stepB s e).2 = .ok o → o = (step s (decodeEv e)).2) ∧
    (∀ x, (stepB s e).2 = .error x →
      (x = .structError ∨ x = .valueError ∨ x = .typeError) ∧ step s (decodeEv e) = (s, [])) := by
  cases e with
  | ev e => simp [stepB, decodeEv]
  | raw comp =>
    rcases stepBytes_spec s comp with ⟨es, h1, h2⟩ | ⟨x, h1, _, h3⟩ | ⟨x, h1, h2, h3⟩
    · simp [stepB, decodeEv, h1, h2]
    · have : decodeVector comp = none := decodeVector_none.mpr ⟨x, h1⟩
      simp [stepB, decodeEv, this, h3, step]
    · have : decodeVector comp = none := decodeVector_none.mpr ⟨x, h1⟩
      refine ⟨by simp [stepB, decodeEv, this, h3, step], by simp [stepB, h3], ?_⟩
      intro y hy
      simp only [stepB, h3, Except.error.injEq] at hy
      subst hy
      exact ⟨h2, by simp [decodeEv, this, step]⟩

theorem runB_eq_run (s : State) (evs : List EvB) : runB s evs = (run s (evs.map decodeEv)).1 := by
  induction evs generalizing s with
  | nil => simp [runB, run]
  | cons e r ih => simp only [runB, List.map_cons, run]; rw [(stepB_refines s e).1]; exact ih _

/-- **run_monotone_bytes.** Over any history of publications, timer expiries and *arbitrary bytes* received in the
    vector component, no entry of the local vector ever decreases. -/
theorem run_monotone_bytes (s : State) (evs : List EvB) (h : WF s) (k : Bytes) :
    vget s.loc k ≤ vget (runB s evs).loc k := by
  rw [runB_eq_run]; exact run_monotone s _ h k

/-- **local_is_max_bytes.** When the bytes of the component decode to an accepted vector, the local vector after
    the handler is the entry-wise maximum of its previous value and the vector those bytes denote. -/
theorem local_is_max_bytes (s : State) (comp : Bytes) (es : List Entry)
    (hd : decodeVector comp = some es) (h : accepted s es) :
    ∃ r, stepBytes s comp = .ok r ∧ ∀ k, vget r.1.loc k = max (vget s.loc k) (vecOf es k) :=
  ⟨_, stepBytes_decoded s comp es hd, local_is_max s es h⟩

/-- **callback_iff_raised_bytes.** For every byte string on which the handler returns, the missing-data callback
    fires iff an entry of the local vector was raised (at most once, with nothing else); in particular never for
    bytes that do not decode. -/
theorem callback_iff_raised_bytes (s : State) (comp : Bytes) (r : State × List Out)
    (h : stepBytes s comp = .ok r) :
    (r.2 = [Out.missing] ↔ ∃ k, vget s.loc k < vget r.1.loc k) ∧ (r.2 = [Out.missing] ∨ r.2 = []) := by
  rcases stepBytes_spec s comp with ⟨es, _, h2⟩ | ⟨x, _, _, h3⟩ | ⟨x, _, _, h3⟩
  · rw [h2] at h; cases h; exact callback_iff_raised s es
  · rw [h3] at h; cases h; simp
  · rw [h3] at h; cases h

/-- **emits_are_local.** Whatever event makes the node emit a sync Interest, the vector it carries is the node's
    full local vector at that moment. -/
theorem emits_are_local (s : State) (e : Ev) (v : Vec) (h : Out.emit v ∈ (step s e).2) :
    v = (step s e).1.loc := by
  cases e with
  | undecodable => simp [step] at h
  | publish => simp only [step, List.mem_singleton, Out.emit.injEq] at h; simp [step, h]
  | timer =>
    simp only [step] at h ⊢
    split at h
    · split at h
      · simp only [List.mem_singleton, Out.emit.injEq] at h; simp_all
      · simp at h
    · simp only [List.mem_singleton, Out.emit.injEq] at h; simp_all
  | recv es =>
    have := (callback_iff_raised s es).2
    rcases this with h' | h' <;> rw [h'] at h <;> simp at h

/-- **publish_emits_decodable.** After publishing, the bytes the node puts into its sync Interest decode — by the
    peer's decoder — to exactly its (new) local vector: same entries in the same order, denoting the same
    function NodeId → SeqNo. -/
theorem publish_emits_decodable (s : State) (hwf : WF s) (hw : WfVec s.loc) (hid : WfId s.selfId)
    (hq : s.selfSeq + 1 < 2 ^ 64) (wire : Bytes) (he : encodeVector (step s .publish).1.loc = .ok wire) :
    (step s .publish).2 = [Out.emit (step s .publish).1.loc] ∧
    decodeVector wire = some (entriesOf (step s .publish).1.loc) ∧
    ∀ k, vecOf (entriesOf (step s .publish).1.loc) k = vget (step s .publish).1.loc k := by
  have hw' : WfVec (step s .publish).1.loc := wfVec_set _ _ _ hw hid hq
  refine ⟨rfl, vector_roundtrip _ hw' wire he, ?_⟩
  exact vecOf_entriesOf _ (wf_step s .publish hwf).1 (fun p hp => (hw' p hp).1.ne_nil)

/-- **vector_received.** Feeding the bytes a well-formed, non-empty vector `v` encodes to into a node that `v` does
    not over-claim: the handler returns and the node's local vector becomes the entry-wise maximum of its previous
    value and `v`. -/
theorem vector_received (v : Vec) (hw : WfVec v) (hn : (PyDict.keys v).Nodup) (hne : v ≠ [])
    (wire : Bytes) (he : encodeVector v = .ok wire) (b : State) (hno : vget v b.selfId ≤ b.selfSeq) :
    ∃ r, stepBytes b wire = .ok r ∧ ∀ k, vget r.1.loc k = max (vget b.loc k) (vget v k) := by
  have hd := vector_roundtrip v hw wire he
  have hacc : accepted b (entriesOf v) :=
    ⟨by cases v <;> simp_all [entriesOf], not_overclaims_entriesOf v hn _ _ hno⟩
  obtain ⟨r, h1, h2⟩ := local_is_max_bytes b wire _ hd hacc
  refine ⟨r, h1, fun k => ?_⟩
  rw [h2 k, vecOf_entriesOf v hn (fun p hp => (hw p hp).1.ne_nil)]

/-- **emitted_vector_is_received.** Node `a` publishes; the bytes of its sync Interest are fed to node `b` (for
    which `a` does not claim more than `b` has produced): `b`'s handler returns and every entry of `b`'s local
    vector is afterwards at least `a`'s (exactly the entry-wise maximum of the two). -/
theorem emitted_vector_is_received (a b : State) (ha : WF a) (hw : WfVec a.loc) (hid : WfId a.selfId)
    (hq : a.selfSeq + 1 < 2 ^ 64) (wire : Bytes) (he : encodeVector (step a .publish).1.loc = .ok wire)
    (hno : vget (step a .publish).1.loc b.selfId ≤ b.selfSeq) :
    ∃ r, stepBytes b wire = .ok r ∧
      (∀ k, vget r.1.loc k = max (vget b.loc k) (vget (step a .publish).1.loc k)) ∧
      (∀ k, vget (step a .publish).1.loc k ≤ vget r.1.loc k) := by
  have hw' : WfVec (step a .publish).1.loc := wfVec_set _ _ _ hw hid hq
  have hne : (step a .publish).1.loc ≠ [] := by
    simp only [step]; cases a.loc <;> simp [PyDict.set]; split <;> simp
  obtain ⟨r, h1, h2⟩ := vector_received _ hw' (wf_step a .publish ha).1 hne wire he b hno
  exact ⟨r, h1, h2, fun k => by rw [h2 k]; omega⟩

/-- **encodeVector_fails_only_oversize.** Encoding a well-formed vector succeeds, unless some Length in it does not
    fit 64 bits (`struct.error` from `write_tl_num`; not reachable with real memory). -/
theorem encodeVector_fails_only_oversize (v : Vec) (h : WfVec v) :
    (∃ b, encodeVector v = .ok b) ∨ encodeVector v = .error .structError := by
  cases he : encodeVector v with
  | ok b => exact .inl ⟨b, rfl⟩
  | error e => right; rw [encodeVector_os v h e he]

/-- **source_tables_pinned.** What the byte-level theorems are about is what the source says: the handler calls
    `StateVecWrapper.parse(name[-2])`, that class is a 0xc9 wrapper around repeated 0xca entries of (Name, 0xcc
    unsigned integer), it satisfies the hypotheses of the codec theorems, and the `except` clause catches exactly
    `DecodeError` and `IndexError` (all regenerated from the source on every run). -/
theorem source_tables_pinned :
    Gen.C18.parsedClass = "StateVecWrapper" ∧ Gen.C18.parsedIndex = -2 ∧
    wrapperSchema = [.model 201 [.repeated (.model 202 [.name 7, .uint 204 none] false)] false] ∧
    Codec.wfTop wrapperSchema = true ∧ Codec.pFs wrapperSchema = true ∧
    (∀ e, caught e = true ↔ (e = .decodeError ∨ e = .indexError)) := by
  refine ⟨by decide, by decide, rfl, wrapper_wf, wrapper_p, ?_⟩
  intro e; cases e <;> decide

/-! ### non-vacuity: the hypotheses are met by concrete reachable states -/

/-- the F14 history: local A:5, hear {A:3} then {A:2,B:1}; the model (repaired code) does emit -/
example :
    let s0 : State := { selfId := [1], selfSeq := 0, loc := [([1], 0), ([7], 5)], agg := [], suppress := false }
    let r := run s0 [.recv [(some [7], some 3)], .recv [(some [7], some 2), (some [8], some 1)], .timer]
    r.2 = [[], [Out.missing], [Out.emit [([1], 0), ([7], 5), ([8], 1)]]] := by decide

example : accepted (init [1] 3) [(some [2], some 4)] := by
  refine ⟨by simp, ?_⟩
  rintro ⟨q, hm, _, _⟩; simp [init] at hm

example : overclaims [1] 3 [(some [2], some 4), (some [1], some 9)] := ⟨9, by simp, by simp, by omega⟩

/-! byte level: `/n0` = `07 04 08 02 6e 30` -/

/-- node /n0 (seq 2) knowing /n1 at 300 emits these 25 bytes … -/
example : encodeVector [([7, 4, 8, 2, 110, 48], 2), ([7, 4, 8, 2, 110, 49], 300)] =
    .ok [0xc9, 0x17, 0xca, 9, 7, 4, 8, 2, 110, 48, 0xcc, 1, 2, 0xca, 10, 7, 4, 8, 2, 110, 49, 0xcc, 2, 1, 44] := by rfl
/-- … which the peer decodes to the same two entries -/
example : decodeVector
    [0xc9, 0x17, 0xca, 9, 7, 4, 8, 2, 110, 48, 0xcc, 1, 2, 0xca, 10, 7, 4, 8, 2, 110, 49, 0xcc, 2, 1, 44] =
    some [(some [7, 4, 8, 2, 110, 48], some 2), (some [7, 4, 8, 2, 110, 49], some 300)] := by rfl
example : WfVec [([7, 4, 8, 2, 110, 48], 2), ([7, 4, 8, 2, 110, 49], 300)] := by
  intro p hp
  simp only [List.mem_cons, List.not_mem_nil, or_false] at hp
  rcases hp with rfl | rfl
  · exact ⟨⟨[[8, 2, 110, 48]], by simp, by decide, by decide, by decide⟩, by decide⟩
  · exact ⟨⟨[[8, 2, 110, 49]], by simp, by decide, by decide, by decide⟩, by decide⟩
/-- the three outcomes of `stepBytes_spec`: a truncated entry is an IndexError (caught, nothing happens) … -/
example : decodeVectorE [0xc9, 3, 0xca, 1, 0xcc] = .error .indexError ∧
    stepBytes (init [7, 4, 8, 2, 110, 48] 1) [0xc9, 3, 0xca, 1, 0xcc] = .ok (init [7, 4, 8, 2, 110, 48] 1, []) :=
  ⟨rfl, rfl⟩
/-- … an unknown critical element is a DecodeError (caught) … -/
example : decodeVectorE [0xc9, 4, 0xca, 2, 0x65, 0] = .error .decodeError := rfl
/-- … and a 3-byte sequence number is a ValueError, which the handler does not catch -/
example : stepBytes (init [7, 4, 8, 2, 110, 48] 1) [0xc9, 7, 0xca, 5, 0xcc, 3, 0, 0, 1] = .error .valueError := rfl
/-- … as is a sequence number cut short by the end of the component (struct.error) -/
example : stepBytes (init [7, 4, 8, 2, 110, 48] 1) [0xc9, 5, 0xca, 3, 0xcc, 2, 1] = .error .structError := rfl
/-- an accepted vector in bytes: /n1 at 2 raises an entry of /n0's vector -/
example : (match stepBytes (init [7, 4, 8, 2, 110, 48] 1) [0xc9, 11, 0xca, 9, 7, 4, 8, 2, 110, 49, 0xcc, 1, 2] with
    | .ok r => some (r.1.loc, r.2) | .error _ => none) =
    some ([([7, 4, 8, 2, 110, 48], 1), ([7, 4, 8, 2, 110, 49], 2)], [Out.missing]) := rfl

end Ndn.C18

namespace Ndn.C18
open Ndn Ndn.Svs

/-! ### well-formedness of the local vector is an invariant of the byte-level handler

The encode-side theorems above (`vector_roundtrip`, `publish_emits_decodable`, `emitted_vector_is_received`, …) take
well-formedness of the local vector (`WfVec`: every node id the encoding of a non-empty name whose components are
single TLV elements, every sequence number below 2^64) as a hypothesis.  It is an invariant: the generic decoder only
delivers well-formed entries (`C08.parse_wf`), so no byte string received in the vector component can break it. -/

/-- a byte-level event as the network and the application can produce it: **arbitrary** bytes in the vector
    component (shorter than 2^64 bytes), a wrong-length name, a publication, a timer expiry; a vector handed over
    already decoded must hold well-formed entries (all vectors that come out of the decoder do) -/
def ByteEv : EvB → Prop
  | .raw comp => comp.length < 2 ^ 64
  | .ev e => GoodEv e

/-- number of publications in a history -/
def pubs : List EvB → Nat
  | [] => 0
  | .ev .publish :: r => pubs r + 1
  | _ :: r => pubs r

/-- the local vector and the own id are well-formed -/
def WfLocal (s : State) : Prop := WfVec s.loc ∧ WfId s.selfId

theorem goodEv_decodeEv (e : EvB) (h : ByteEv e) : GoodEv (decodeEv e) := by
  cases e with
  | ev e => exact h
  | raw comp =>
    simp only [decodeEv]
    cases hd : decodeVector comp with
    | none => trivial
    | some es => exact decodeVector_entries_wf h hd

theorem pubs_cons (e : EvB) (r : List EvB) : pubs (e :: r) = pubInc (decodeEv e) + pubs r := by
  cases e with
  | raw comp => simp only [pubs, decodeEv]; cases decodeVector comp <;> simp [pubInc]
  | ev e => cases e <;> simp [pubs, decodeEv, pubInc, Nat.add_comm]

/-- **local_wf_invariant.** Starting from a well-formed local vector, after **any** history of byte-level
    receptions (arbitrary bytes), publications and timer expiries the local vector is still well-formed, the own id is
    unchanged and the own sequence number has grown by the number of publications — provided the sequence number
    stays below 2^64 (`selfSeq + pubs evs < 2^64`: fewer than 2^64 publications; the one bound that is not an
    invariant, since `new_data` increments without a check). -/
theorem local_wf_invariant (s : State) (evs : List EvB) (h : WfLocal s) (he : ∀ e ∈ evs, ByteEv e)
    (hq : s.selfSeq + pubs evs < 2 ^ 64) :
    WfLocal (runB s evs) ∧ (runB s evs).selfId = s.selfId ∧ (runB s evs).selfSeq = s.selfSeq + pubs evs := by
  induction evs generalizing s with
  | nil => exact ⟨by simpa [runB] using h, rfl, by simp [runB, pubs]⟩
  | cons e r ih =>
    have hg := goodEv_decodeEv e (he e (List.mem_cons_self ..))
    have hpc := pubs_cons e r
    obtain ⟨hid, hseq⟩ := step_ids s (decodeEv e)
    have hs1 : (stepB s e).1 = (step s (decodeEv e)).1 := (stepB_refines s e).1
    have hw1 : WfLocal (stepB s e).1 := by
      rw [hs1]
      refine ⟨step_wfVec s _ h.1 h.2 hg ?_, by rw [hid]; exact h.2⟩
      intro hp; rw [hp] at hpc; simp only [pubInc] at hpc; omega
    have := ih (stepB s e).1 hw1 (fun x hx => he x (List.mem_cons_of_mem _ hx)) (by rw [hs1, hseq]; omega)
    simp only [runB]
    refine ⟨this.1, by rw [this.2.1, hs1, hid], by rw [this.2.2, hs1, hseq]; omega⟩

/-- the states a node can be in: started by `start()` with a well-formed own name, then any history of byte-level
    events during which the own sequence number stayed below 2^64 -/
def Reachable (s : State) : Prop :=
  ∃ (selfId : Bytes) (seq0 : Nat) (evs : List EvB), WfId selfId ∧ (∀ e ∈ evs, ByteEv e) ∧
    seq0 + pubs evs < 2 ^ 64 ∧ s = runB (init selfId seq0) evs

/-- a reachable state satisfies every well-formedness hypothesis of the encode-side theorems -/
theorem reachable_wf (s : State) (h : Reachable s) :
    WF s ∧ WfVec s.loc ∧ WfId s.selfId ∧ s.selfSeq < 2 ^ 64 := by
  obtain ⟨selfId, seq0, evs, hid, hev, hq, rfl⟩ := h
  have h0 : WfLocal (init selfId seq0) := by
    refine ⟨?_, hid⟩
    intro p hp
    simp only [init, List.mem_singleton] at hp
    subst hp
    exact ⟨hid, by simp only []; omega⟩
  obtain ⟨⟨h1, h2⟩, _, h4⟩ := local_wf_invariant (init selfId seq0) evs h0 hev hq
  refine ⟨?_, h1, h2, by rw [h4]; exact hq⟩
  rw [runB_eq_run]
  exact wf_run (init selfId seq0) _ (by simp [WF, init, PyDict.keys, vget, PyDict.get?])

theorem runB_loc_ne_nil (s : State) (evs : List EvB) (h : s.loc ≠ []) : (runB s evs).loc ≠ [] := by
  induction evs generalizing s with
  | nil => simpa [runB] using h
  | cons e r ih =>
    simp only [runB]
    exact ih _ (by rw [(stepB_refines s e).1]; exact step_loc_ne_nil s _ h)

/-- the local vector of a reachable state is never empty (it holds at least the own entry written by `start()`) -/
theorem reachable_loc_ne_nil (s : State) (h : Reachable s) : s.loc ≠ [] := by
  obtain ⟨selfId, seq0, evs, _, _, _, rfl⟩ := h
  exact runB_loc_ne_nil _ evs (by simp [init])

/-- **vector_roundtrip_reachable.** In every reachable state, what `express_sync_interest` encodes for the local
    vector is decoded by the receiving side to exactly the entries of that vector (no well-formedness hypothesis). -/
theorem vector_roundtrip_reachable (s : State) (hr : Reachable s) (b : Bytes)
    (he : encodeVector s.loc = .ok b) : decodeVector b = some (entriesOf s.loc) :=
  vector_roundtrip s.loc (reachable_wf s hr).2.1 b he

/-- **publish_emits_decodable_reachable.** `publish_emits_decodable` for every reachable state: the only remaining
    hypothesis is that the next sequence number fits 64 bits. -/
theorem publish_emits_decodable_reachable (s : State) (hr : Reachable s) (hq : s.selfSeq + 1 < 2 ^ 64)
    (wire : Bytes) (he : encodeVector (step s .publish).1.loc = .ok wire) :
    (step s .publish).2 = [Out.emit (step s .publish).1.loc] ∧
    decodeVector wire = some (entriesOf (step s .publish).1.loc) ∧
    ∀ k, vecOf (entriesOf (step s .publish).1.loc) k = vget (step s .publish).1.loc k := by
  obtain ⟨h1, h2, h3, _⟩ := reachable_wf s hr
  exact publish_emits_decodable s h1 h2 h3 hq wire he

/-- **emitted_vector_is_received_reachable.** `emitted_vector_is_received` for every reachable publisher `a` (and any
    receiver state `b` for which `a` does not over-claim). -/
theorem emitted_vector_is_received_reachable (a b : State) (ha : Reachable a) (hq : a.selfSeq + 1 < 2 ^ 64)
    (wire : Bytes) (he : encodeVector (step a .publish).1.loc = .ok wire)
    (hno : vget (step a .publish).1.loc b.selfId ≤ b.selfSeq) :
    ∃ r, stepBytes b wire = .ok r ∧
      (∀ k, vget r.1.loc k = max (vget b.loc k) (vget (step a .publish).1.loc k)) ∧
      (∀ k, vget (step a .publish).1.loc k ≤ vget r.1.loc k) := by
  obtain ⟨h1, h2, h3, _⟩ := reachable_wf a ha
  exact emitted_vector_is_received a b h1 h2 h3 hq wire he hno

/-- **local_vector_received_reachable.** `vector_received` for the local vector of any reachable node `a` (whatever
    made it send: a publication, the steady-state timer, the end of a suppression period): feeding the bytes to a node
    `b` that `a` does not over-claim makes `b`'s local vector the entry-wise maximum of the two. -/
theorem local_vector_received_reachable (a b : State) (ha : Reachable a) (wire : Bytes)
    (he : encodeVector a.loc = .ok wire) (hno : vget a.loc b.selfId ≤ b.selfSeq) :
    ∃ r, stepBytes b wire = .ok r ∧ ∀ k, vget r.1.loc k = max (vget b.loc k) (vget a.loc k) := by
  obtain ⟨h1, h2, _, _⟩ := reachable_wf a ha
  exact vector_received a.loc h2 h1.1 (reachable_loc_ne_nil a ha) wire he b hno

/-- **timer_emits_decodable_reachable.** Whatever a reachable node emits on a timer expiry (steady state, or the end
    of a suppression period) decodes at the peer to exactly its local vector. -/
theorem timer_emits_decodable_reachable (s : State) (hr : Reachable s) (v : Vec)
    (hv : Out.emit v ∈ (step s .timer).2) (wire : Bytes) (he : encodeVector v = .ok wire) :
    v = s.loc ∧ decodeVector wire = some (entriesOf s.loc) := by
  have hloc : (step s .timer).1.loc = s.loc := by simp only [step]; split <;> rfl
  have := emits_are_local s .timer v hv
  rw [hloc] at this
  subst this
  exact ⟨rfl, vector_roundtrip_reachable s hr wire he⟩

/-- **encodeVector_reachable_fails_only_oversize.** In a reachable state encoding the local vector succeeds unless
    some Length in it does not fit 64 bits. -/
theorem encodeVector_reachable_fails_only_oversize (s : State) (hr : Reachable s) :
    (∃ b, encodeVector s.loc = .ok b) ∨ encodeVector s.loc = .error .structError :=
  encodeVector_fails_only_oversize s.loc (reachable_wf s hr).2.1

/-- a publication keeps a state reachable as long as the sequence number fits -/
theorem reachable_step (s : State) (hr : Reachable s) (e : EvB) (he : ByteEv e)
    (hq : s.selfSeq + pubs [e] < 2 ^ 64) : Reachable (stepB s e).1 := by
  obtain ⟨selfId, seq0, evs, hid, hev, hb, rfl⟩ := hr
  have h0 : WfLocal (init selfId seq0) := by
    refine ⟨?_, hid⟩
    intro p hp
    simp only [init, List.mem_singleton] at hp
    subst hp
    exact ⟨hid, by simp only []; omega⟩
  have hseq := (local_wf_invariant (init selfId seq0) evs h0 hev hb).2.2
  have hrun : ∀ (t : State) (l : List EvB), runB t (l ++ [e]) = (stepB (runB t l) e).1 := by
    intro t l
    induction l generalizing t with
    | nil => simp [runB]
    | cons x r ih => simp only [List.cons_append, runB]; exact ih _
  have hp : ∀ (l : List EvB), pubs (l ++ [e]) = pubs l + pubs [e] := by
    intro l
    induction l with
    | nil => simp [pubs]
    | cons x r ih =>
      rw [List.cons_append, pubs_cons, pubs_cons, ih]; omega
  refine ⟨selfId, seq0, evs ++ [e], hid, ?_, ?_, (hrun _ _).symm⟩
  · intro x hx
    rcases List.mem_append.mp hx with h | h
    · exact hev x h
    · simp only [List.mem_singleton] at h; subst h; exact he
  · rw [hp]; rw [hseq] at hq; simp only [init] at hq; omega

/-! non-vacuity: node /n0 after start, a garbage component, a peer's vector in bytes and a publication is reachable -/
example : Reachable (runB (init [7, 4, 8, 2, 110, 48] 1)
    [.raw [0xff, 0, 1], .raw [0xc9, 11, 0xca, 9, 7, 4, 8, 2, 110, 49, 0xcc, 1, 2], .ev .publish, .ev .timer]) := by
  refine ⟨_, 1, _, ⟨[[8, 2, 110, 48]], by simp, by decide, by decide, by decide⟩, ?_, by decide, rfl⟩
  intro e he
  simp only [List.mem_cons, List.not_mem_nil, or_false] at he
  rcases he with rfl | rfl | rfl | rfl
  · show (3 : Nat) < 2 ^ 64; decide
  · show (13 : Nat) < 2 ^ 64; decide
  · trivial
  · trivial
example : (runB (init [7, 4, 8, 2, 110, 48] 1)
    [.raw [0xff, 0, 1], .raw [0xc9, 11, 0xca, 9, 7, 4, 8, 2, 110, 49, 0xcc, 1, 2], .ev .publish, .ev .timer]).loc
    = [([7, 4, 8, 2, 110, 48], 2), ([7, 4, 8, 2, 110, 49], 2)] := by rfl

end Ndn.C18
