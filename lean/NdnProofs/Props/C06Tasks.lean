import NdnProofs.Props.C06
import NdnProofs.Lemmas.FaceTasks
/-!
  # C06, task layer — one task per packet: exactly once, in order, nothing partial, isolated

  The model (NdnModel/FaceTasks.lean) puts the reader machine of NdnModel/StreamReader.lean under an event loop:
  `StreamFace.run` creates one task per complete packet (`queue`), the loop runs them in FIFO order (`turn`, `step1`),
  each entering the black-box receive step (`processed`); the stream may end together with its last bytes (`close c`),
  the transport may fail (`exc`), the application may call `shutdown()`, a receive step may raise (`raise k`).
  Specification-level notions: `frames` of the concatenation of everything fed (`fed h`) - the complete packets of the
  stream, independent of chunks and turns; "complete element" = `readPacket p.2 = some (p, [])`.
  All statements hold for every `except` tuple (`caught`), every black box (`H`), every application state (`a`).
-/
namespace Ndn.C06
open Ndn Ndn.Framing Ndn.FaceTasks
open Ndn.StreamReader (RdErr Pkt)

variable {σ : Type}

/-- a trivial black box for the examples: the application state counts the packets received -/
def countHooks : Hooks Nat := { recv := fun n _ => (n + 1, false), fail := fun n _ => n, cleanup := fun n => n }

/-- **tasks_exactly_once_in_order (1, safety).**  At EVERY moment of EVERY history - any chunks, any loop turns, end of
    stream, transport errors, `shutdown()`, raising receive steps, in any order: the packets whose receive step has been
    entered, followed by the packets whose task is still in the ready queue, are a PREFIX of the complete packets of
    the bytes fed so far: each at most once, in stream order, none invented. -/
theorem tasks_exactly_once_in_order (caught : List RdErr) (H : Hooks σ) (a : σ) (h : List Ev) :
    (run caught H a h).processed ++ (run caught H a h).queue <+: (frames (fed h)).1 ∧
    (run caught H a h).processed <+: (frames (fed h)).1 :=
  ⟨(inv_run caught H a h).pre, (processed_prefix_spawned _).trans (inv_run caught H a h).pre⟩

example : (run Gen.C06.streamCaught countHooks 0 [.feed [5, 1], .shutdown, .turn, .feed [7, 6, 0], .raise 0, .turn]).processed
    <+: [(5, [5, 1, 7]), (6, [6, 0])] :=
  (tasks_exactly_once_in_order _ _ _ _).2.trans (by decide)

/-- **tasks_delivered_when_drained (1, completeness).**  While the connection is open (no end of stream, no transport
    error, no `shutdown()` so far; receive steps may raise): processed ++ queued is EXACTLY the complete packets of
    the bytes fed, so once the queue has drained (e.g. after a `turn`) every complete packet has been delivered exactly
    once, in order. -/
theorem tasks_delivered_when_drained (caught : List RdErr) (H : Hooks σ) (a : σ) (h : List Ev)
    (hq : h.all Ev.quiet = true) :
    (run caught H a h).processed ++ (run caught H a h).queue = (frames (fed h)).1 ∧
    ((run caught H a h).queue = [] → (run caught H a h).processed = (frames (fed h)).1) ∧
    (run caught H a (h ++ [.turn])).processed = (frames (fed h)).1 := by
  obtain ⟨_, _, hs⟩ := quiet_run caught H a h hq
  refine ⟨hs, fun hn => by simpa [St.spawned, hn] using hs, ?_⟩
  rw [run, FaceTasks.runFrom_append]
  exact (turn_processed caught H _).1.trans hs

example : (run Gen.C06.streamCaught countHooks 0 [.feed [5, 1], .turn, .feed [7, 6, 0], .raise 1, .step1, .turn]).processed
    = [(5, [5, 1, 7]), (6, [6, 0])] := by
  have := (tasks_delivered_when_drained Gen.C06.streamCaught countHooks 0
    [.feed [5, 1], .turn, .feed [7, 6, 0], .raise 1, .step1] (by decide)).2.2
  exact this.trans (by decide)

/-- **tasks_chunks_and_turns_irrelevant (1).**  Two open histories that feed the same bytes - cut into chunks in any
    two ways, with loop turns (and single task steps, and raising receive steps) interleaved in any two ways - have
    delivered the same packets in the same order once the queue is drained; and that sequence is the one the chunked
    reader machine hands over for ANY cut of the same bytes (`chunks_irrelevant`), i.e. `frames` of the stream. -/
theorem tasks_chunks_and_turns_irrelevant (caught : List RdErr) (H : Hooks σ) (a : σ) (h1 h2 : List Ev)
    (hq1 : h1.all Ev.quiet = true) (hq2 : h2.all Ev.quiet = true) (hf : fed h1 = fed h2) :
    (run caught H a (h1 ++ [.turn])).processed = (run caught H a (h2 ++ [.turn])).processed := by
  rw [(tasks_delivered_when_drained caught H a h1 hq1).2.2, (tasks_delivered_when_drained caught H a h2 hq2).2.2, hf]

theorem tasks_agree_with_chunked_machine (H : Hooks σ) (a : σ) (h : List Ev) (hq : h.all Ev.quiet = true)
    (cs : List Bytes) (hc : cs.flatten = fed h) (fin : StreamReader.Event) (hfin : IsEnd fin) :
    (run Gen.C06.streamCaught H a (h ++ [.turn])).processed =
      (StreamReader.run Gen.C06.streamCaught (feeds cs ++ [fin])).2 := by
  rw [(tasks_delivered_when_drained _ H a h hq).2.2, (chunks_irrelevant cs fin hfin).1, hc]

example : (run Gen.C06.streamCaught countHooks 0 ([.feed [5], .turn, .feed [1, 7, 6], .step1, .feed [0]] ++ [.turn])).processed =
    (run Gen.C06.streamCaught countHooks 0 ([.feed [5, 1, 7, 6, 0]] ++ [.turn])).processed :=
  tasks_chunks_and_turns_irrelevant _ _ _ _ _ (by decide) (by decide) (by decide)

/-- **tasks_never_partial (2).**  In EVERY history every task that was ever created carries exactly one complete
    element (reading it alone returns it, nothing left over) - also when the stream ends, the transport fails or the
    application shuts down in the middle of a packet.  -/
theorem tasks_never_partial (caught : List RdErr) (H : Hooks σ) (a : σ) (h : List Ev) :
    ∀ p ∈ (run caught H a h).processed ++ (run caught H a h).queue, readPacket p.2 = some (p, []) := by
  intro p hp
  exact frames_complete _ p ((inv_run caught H a h).pre.subset hp)

/-- **tasks_end_mid_packet (2, 3).**  The end of the stream reaches an open connection in the same pass as the last
    bytes `c` (`c = []`: a plain EOF), possibly in the middle of a packet: `run()` ends through the `except` clause
    (`shutdown` for the shipped tuple), and whatever happens afterwards (`more`: further bytes, turns, anything) the
    tasks ever created are exactly the complete packets of the stream up to the end - the packets completed in that
    last pass included, the partial packet `(frames _).2` never.  On the next turn of the loop all of them have been
    delivered: nothing is cancelled, nothing is lost. -/
theorem tasks_end_mid_packet (caught : List RdErr) (H : Hooks σ) (a : σ) (h : List Ev) (hq : h.all Ev.quiet = true)
    (c : Bytes) (more : List Ev) :
    let st := run caught H a (h ++ .close c :: more)
    st.face.status = StreamReader.handled caught .incompleteRead ∧
    st.processed ++ st.queue = (frames (fed h ++ c)).1 ∧
    (run caught H a (h ++ .close c :: more ++ [.turn])).processed = (frames (fed h ++ c)).1 := by
  obtain ⟨ho, hi, _⟩ := quiet_run caught H a h hq
  obtain ⟨c1, c2⟩ := close_open caught H hi ho c
  have hne : (step caught H (run caught H a h) (.close c)).face.status ≠ .running := by
    rw [c1]; exact handled_ne_running _ _
  obtain ⟨e1, e2⟩ := runFrom_ended caught H more _ hne
  have hst : run caught H a (h ++ .close c :: more) =
      FaceTasks.runFrom caught H (step caught H (run caught H a h) (.close c)) more := by
    simp only [run, FaceTasks.runFrom_append, FaceTasks.runFrom]
  refine ⟨by rw [hst, e2, c1], by rw [hst]; exact e1.trans c2, ?_⟩
  have : h ++ .close c :: more ++ [.turn] = (h ++ .close c :: more) ++ [.turn] := by simp
  rw [this, run, FaceTasks.runFrom_append]
  show (step caught H (run caught H a (h ++ .close c :: more)) .turn).processed = _
  rw [(turn_processed caught H _).1, hst]
  exact e1.trans c2

theorem tasks_end_shuts_down :
    StreamReader.handled Gen.C06.streamCaught .incompleteRead = .shutdown := stream_caught_sufficient.1

example : (run Gen.C06.streamCaught countHooks 0 ([.feed [5]] ++ .close [1, 7, 6, 0, 9, 4] :: [.feed [1, 2, 3, 4]] ++ [.turn])).processed
    = [(5, [5, 1, 7]), (6, [6, 0])] :=
  (tasks_end_mid_packet Gen.C06.streamCaught countHooks 0 [.feed [5]] (by decide) [1, 7, 6, 0, 9, 4] [.feed [1, 2, 3, 4]]).2.2.trans
    (by decide)

/-- **tasks_transport_error (2, 3).**  The transport sets an exception (connection reset, anything) on an open
    connection: `run()` ends - through its `except` clause when the class is named there (a reset: `shutdown`), with
    that exception otherwise - `main_loop` cleans up on either path, and whatever happens afterwards the tasks ever
    created are exactly the complete packets received before the error; on the next turn all of them have been
    delivered. -/
theorem tasks_transport_error (caught : List RdErr) (H : Hooks σ) (a : σ) (h : List Ev) (hq : h.all Ev.quiet = true)
    (e : RdErr) (more : List Ev) :
    let st := run caught H a (h ++ .exc e :: more)
    st.face.status = StreamReader.handled caught e ∧
    st.processed ++ st.queue = (frames (fed h)).1 ∧
    (run caught H a (h ++ .exc e :: more ++ [.turn])).processed = (frames (fed h)).1 := by
  obtain ⟨ho, _, hs⟩ := quiet_run caught H a h hq
  obtain ⟨c1, c2⟩ := exc_open caught H ho e
  have hne : (step caught H (run caught H a h) (.exc e)).face.status ≠ .running := by
    rw [c1]; exact handled_ne_running _ _
  obtain ⟨e1, e2⟩ := runFrom_ended caught H more _ hne
  have hst : run caught H a (h ++ .exc e :: more) =
      FaceTasks.runFrom caught H (step caught H (run caught H a h) (.exc e)) more := by
    simp only [run, FaceTasks.runFrom_append, FaceTasks.runFrom]
  refine ⟨by rw [hst, e2, c1], by rw [hst]; exact (e1.trans c2).trans hs, ?_⟩
  have : h ++ .exc e :: more ++ [.turn] = (h ++ .exc e :: more) ++ [.turn] := by simp
  rw [this, run, FaceTasks.runFrom_append]
  show (step caught H (run caught H a (h ++ .exc e :: more)) .turn).processed = _
  rw [(turn_processed caught H _).1, hst]
  exact (e1.trans c2).trans hs

example : (run Gen.C06.streamCaught countHooks 0 ([.feed [5, 1, 7, 6]] ++ .exc .connectionReset :: [.feed [0]] ++ [.turn])).processed
    = [(5, [5, 1, 7])] :=
  (tasks_transport_error Gen.C06.streamCaught countHooks 0 [.feed [5, 1, 7, 6]] (by decide) .connectionReset [.feed [0]]).2.2.trans
    (by decide)

/-- **tasks_ended_not_running.**  In every history: once `run()` has ended - end of stream, transport error, or the
    `while self.running` test after `shutdown()` - `face.running` is False. -/
theorem tasks_ended_not_running (caught : List RdErr) (H : Hooks σ) (a : σ) (h : List Ev)
    (hne : (run caught H a h).face.status ≠ .running) : (run caught H a h).running = false :=
  endedStopped_runFrom caught H h (fun hn => absurd (StreamReader.sim_start caught).running hn) hne

example : (run Gen.C06.streamCaught countHooks 0 ([.feed [5]] ++ .close [] :: [])).running = false :=
  tasks_ended_not_running _ _ _ _ (by
    rw [(tasks_end_mid_packet Gen.C06.streamCaught countHooks 0 [.feed [5]] (by decide) [] []).1, stream_caught_sufficient.1]
    simp)

/-- **tasks_shutdown_guarantee (3).**  What the code guarantees around `shutdown()`: the application shuts down an open
    connection, then anything happens (`more`), then the loop makes a turn.  (i) Every packet completely received
    before the shutdown instant has been delivered - the tasks in the ready queue at that instant are neither cancelled
    nor dropped; (ii) at most ONE further packet is delivered - the one whose read was in progress, if its bytes still
    arrive: `run()` completes the pending read before it tests `self.running`; (iii) what is delivered is still a
    prefix of the stream's packets.  Packets behind that one are never read: they are the only thing lost. -/
theorem tasks_shutdown_guarantee (caught : List RdErr) (H : Hooks σ) (a : σ) (h : List Ev)
    (hq : h.all Ev.quiet = true) (more : List Ev) :
    let fin := run caught H a (h ++ .shutdown :: more ++ [.turn])
    (frames (fed h)).1 <+: fin.processed ∧
    fin.processed.length ≤ (frames (fed h)).1.length + 1 ∧
    fin.processed <+: (frames (fed h ++ fed more)).1 ∧
    fin.queue = [] ∧ fin.running = false := by
  obtain ⟨ho, hi, hs⟩ := quiet_run caught H a h hq
  intro fin
  have e : h ++ .shutdown :: more ++ [.turn] = h ++ (.shutdown :: more ++ [.turn]) := by simp
  have hfin : fin = step caught H (FaceTasks.runFrom caught H (step caught H (run caught H a h) .shutdown) more) .turn := by
    show run caught H a (h ++ .shutdown :: more ++ [.turn]) = _
    rw [e, run, FaceTasks.runFrom_append]
    simp only [List.cons_append, FaceTasks.runFrom, FaceTasks.runFrom_append, run]
  have hi1 := inv_step caught H hi .shutdown
  have hcl : Closing (step caught H (run caught H a h) .shutdown) (frames (fed h)).1.length := by
    refine ⟨rfl, ?_, fun _ => ?_⟩
    · show (run caught H a h).spawned.length ≤ _; rw [hs]; omega
    · show (run caught H a h).spawned.length ≤ _; rw [hs]; omega
  have hcl2 := closing_runFrom caught H more hi1 hcl
  have hpre := spawned_runFrom_prefix caught H more (step caught H (run caught H a h) .shutdown)
  have hsp1 : (step caught H (run caught H a h) .shutdown).spawned = (frames (fed h)).1 := hs
  obtain ⟨t1, t2⟩ := turn_processed caught H (FaceTasks.runFrom caught H (step caught H (run caught H a h) .shutdown) more)
  have hi2 := inv_runFrom caught H more hi1
  rw [hfin, t1, t2]
  refine ⟨by rw [← hsp1]; exact hpre, hcl2.le, ?_, rfl, ?_⟩
  · have := hi2.pre
    simpa [Ev.bytes] using this
  · rw [(step_turn_spawned caught H _).2.2.1]; exact hcl2.flag

/-- the extra packet of (ii) exists: `shutdown()` in the middle of packet (5, [5,1,7]); its last byte arrives
    afterwards together with a complete second packet - the first is delivered, the second is not -/
example : (run Gen.C06.streamCaught countHooks 0 ([.feed [5, 1]] ++ .shutdown :: [.feed [7, 6, 0]] ++ [.turn])).processed.length ≤ 0 + 1 :=
  Nat.le_trans (tasks_shutdown_guarantee Gen.C06.streamCaught countHooks 0 [.feed [5, 1]] (by decide) [.feed [7, 6, 0]]).2.1
    (by decide)

example : [(5, [5, 1, 7])] <+: (run Gen.C06.streamCaught countHooks 0 ([.feed [5, 1, 7, 6]] ++ .shutdown :: [] ++ [.turn])).processed := by
  have := (tasks_shutdown_guarantee Gen.C06.streamCaught countHooks 0 [.feed [5, 1, 7, 6]] (by decide) []).1
  exact (show [(5, [5, 1, 7])] <+: (frames (fed [.feed [5, 1, 7, 6]])).1 by decide).trans this

/-- **tasks_never_withdrawn (3).**  No event ever takes a task out of the ready queue except running it: the sequence
    of tasks created so far only grows along any continuation, and after any later turn all of them have been
    delivered.  (Seeded change C06-6 - `shutdown()` cancels the tasks still pending - is a history this excludes.) -/
theorem tasks_never_withdrawn (caught : List RdErr) (H : Hooks σ) (a : σ) (h more : List Ev) :
    (run caught H a h).processed ++ (run caught H a h).queue <+: (run caught H a (h ++ more ++ [.turn])).processed := by
  have e : h ++ more ++ [.turn] = h ++ (more ++ [.turn]) := by simp
  rw [e]
  simp only [run, FaceTasks.runFrom_append]
  show _ <+: (step caught H _ .turn).processed
  rw [(turn_processed caught H _).1]
  exact spawned_runFrom_prefix caught H more _

/-- **tasks_isolated (4).**  The task layer never looks at the outcome of a receive step: for every history, with any
    receive steps marked as raising (`raise k`) and any black box - raising or not - the face, the `running` flag, the
    ready queue and the sequence of packets delivered are the same as in the history without the marks and with any
    other black box: a task whose receive step raises does not stop, delay, reorder or duplicate the others. -/
theorem tasks_isolated {τ : Type} (caught : List RdErr) (H : Hooks σ) (H' : Hooks τ) (a : σ) (a' : τ) (h : List Ev) :
    core (run caught H a h) = core (run caught H' a' (h.filter (fun e => !e.isRaise))) :=
  core_runFrom caught H H' h _ _ rfl

example : (run Gen.C06.streamCaught countHooks 0 [.raise 0, .feed [5, 1, 7, 6, 0], .turn]).processed =
    (run Gen.C06.streamCaught countHooks 0 [.feed [5, 1, 7, 6, 0], .turn]).processed :=
  congrArg (fun c => c.2.2.2) (tasks_isolated Gen.C06.streamCaught countHooks countHooks 0 0 [.raise 0, .feed [5, 1, 7, 6, 0], .turn])

/-! ## the application tables -/

/-- **tasks_tables_exactly_once (1).**  On an open connection, with no receive step marked as raising: the application
    tables are those obtained by applying the black-box receive step to the packets delivered, ONCE each, in stream
    order, starting from the initial tables - whatever the chunks and the loop turns; once the queue has drained that
    is the receive steps of all complete packets of the stream. -/
theorem tasks_tables_exactly_once (caught : List RdErr) (H : Hooks σ) (a : σ) (h : List Ev)
    (hq : h.all Ev.quiet = true) (hr : h.all (fun e => !e.isRaise) = true) :
    (run caught H a h).app = recvAll H a (run caught H a h).processed ∧
    (run caught H a (h ++ [.turn])).app = recvAll H a (frames (fed h)).1 := by
  have key : ∀ h : List Ev, h.all Ev.quiet = true → h.all (fun e => !e.isRaise) = true →
      (run caught H a h).app = recvAll H a (run caught H a h).processed := fun h hq hr =>
    (appInv_runFrom caught H a h (inv_init caught a) (open_init caught a) ⟨rfl, rfl⟩ hq hr).app
  refine ⟨key h hq hr, ?_⟩
  have := key (h ++ [.turn]) (by rw [List.all_append, hq]; rfl) (by rw [List.all_append, hr]; rfl)
  rw [this, (tasks_delivered_when_drained caught H a h hq).2.2]

example : (run Gen.C06.streamCaught countHooks 0 ([.feed [5, 1], .turn, .feed [7, 6, 0]] ++ [.turn])).app = 2 :=
  (tasks_tables_exactly_once Gen.C06.streamCaught countHooks 0 [.feed [5, 1], .turn, .feed [7, 6, 0]] (by decide) (by decide)).2.trans
    (by decide)

/-- **tasks_last_pass_after_cleanup (3).**  What exactly happens to the packets completed in the same pass as the
    orderly end of the stream (and to those still queued at that moment): `main_loop` runs `_clean_up` in that very
    pass, BEFORE their tasks get their turn; on the next turn each of them is received exactly once, in order - against
    the tables as `_clean_up` left them.  (A Data packet arriving together with the end of the stream is delivered to
    `_receive`, but the Interest it answers has been cancelled by then.) -/
theorem tasks_last_pass_after_cleanup (caught : List RdErr) (H : Hooks σ) (a : σ) (h : List Ev)
    (hq : h.all Ev.quiet = true) (hr : h.all (fun e => !e.isRaise) = true) (c : Bytes) :
    let before := run caught H a h
    let fin := run caught H a (h ++ [.close c, .turn])
    fin.processed = (frames (fed h ++ c)).1 ∧
    fin.app = recvAll H (H.cleanup (recvAll H a before.processed))
                ((frames (fed h ++ c)).1.drop before.processed.length) := by
  obtain ⟨ho, hi, _⟩ := quiet_run caught H a h hq
  have ha := appInv_runFrom caught H a h (inv_init caught a) (open_init caught a) ⟨rfl, rfl⟩ hq hr
  have := close_turn_app caught H hi ho ha.bad c
  intro before fin
  have hfin : fin = step caught H (step caught H (run caught H a h) (.close c)) .turn := by
    show run caught H a (h ++ [.close c, .turn]) = _
    simp only [run, FaceTasks.runFrom_append, FaceTasks.runFrom]
  rw [hfin]
  refine ⟨this.1, ?_⟩
  have e : (run caught H a h).app = recvAll H a (run caught H a h).processed := ha.app
  rw [this.2, e]

/-- `_clean_up` resets the counter to 100: one packet before the end, one in the last pass -/
def cleanHooks : Hooks Nat := { recv := fun n _ => (n + 1, false), fail := fun n _ => n, cleanup := fun _ => 100 }

example : (run Gen.C06.streamCaught cleanHooks 0 (([.feed [5, 1, 7]] ++ [.turn]) ++ [.close [6, 0, 9], .turn])).app = 101 := by
  have h := (tasks_last_pass_after_cleanup Gen.C06.streamCaught cleanHooks 0 ([.feed [5, 1, 7]] ++ [.turn])
    (by decide) (by decide) [6, 0, 9]).2
  rw [(tasks_delivered_when_drained Gen.C06.streamCaught cleanHooks 0 [.feed [5, 1, 7]] (by decide)).2.2] at h
  exact h.trans (by decide)

/-! ## end to end with the reception model as the black box -/

/-- the black box instantiated: the byte-level reception pipeline of this property (`receiveBytes`: the C07 decoder
    models inside), an exception = the task ends with an unhandled error; `cleanup` = what `_clean_up` does to the
    tables (a parameter: the two front-ends differ) -/
def recvHooks (g : Recv.Guards) (Hs : Bytes → Bytes) (cleanup : Recv.State → Recv.State) : Hooks Recv.State where
  recv st p := match RecvBytes.receiveBytes g Hs st p.1 p.2 with
    | .ok r => (r.1, false)
    | .error _ => (st, true)
  fail st _ := st
  cleanup := cleanup

/-- **tasks_no_background_error.**  The statement's "no background task ends with an unhandled error", for the task
    layer and the reception pipeline TOGETHER: for both front-ends, every byte stream cut into chunks in any way, any
    loop turns, end of stream, transport errors and `shutdown()` at any instant, every state of the tables: no
    per-packet task ever ends with an unhandled error (`errors` stays empty).  Composes `receive_bytes_total` (every
    delivered byte string) with the task layer (every event history). -/
theorem tasks_no_background_error (Hs : Bytes → Bytes) (cleanup : Recv.State → Recv.State) (st : Recv.State)
    (h : List Ev) (hr : h.all (fun e => !e.isRaise) = true) :
    (run Gen.C06.streamCaught (recvHooks Gen.C06.v2 Hs cleanup) st h).errors = [] ∧
    (run Gen.C06.streamCaught (recvHooks Gen.C06.v1 Hs cleanup) st h).errors = [] := by
  constructor
  · refine errors_runFrom _ _ (fun a p => ?_) h _ hr rfl
    obtain ⟨res, hres⟩ := (receive_bytes_total Hs a p.1 p.2).1
    simp [recvHooks, hres]
  · refine errors_runFrom _ _ (fun a p => ?_) h _ hr rfl
    obtain ⟨res, hres⟩ := (receive_bytes_total Hs a p.1 p.2).2
    simp [recvHooks, hres]

example : [Ev.feed [100, 0], .turn, .close [5, 1], .turn].all (fun e => !e.isRaise) = true := by decide

/-! ## the UDP face: one task per datagram -/

open Ndn.FaceTasks.Udp (accepted dgrams) in
/-- **udp_tasks_exactly_once_in_order (1, 2, 3).**  For EVERY history of the UDP face - datagrams, loop turns, a lost
    connection, `shutdown()`, raising receive steps, in any order - and every `except` tuple: the packets delivered
    followed by the packets still queued are exactly the datagrams whose Type number can be read, each once, in order
    of arrival, each the WHOLE datagram with that Type (never a part of one, never two glued); nothing is withdrawn:
    after a turn all of them have been delivered. -/
theorem udp_tasks_exactly_once_in_order (caught : List PyErr) (H : Hooks σ) (a : σ) (h : List Udp.Ev) :
    (Udp.run caught H a h).st.processed ++ (Udp.run caught H a h).st.queue = accepted (dgrams h) ∧
    (Udp.run caught H a (h ++ [.turn])).st.processed = accepted (dgrams h) ∧
    (∀ p ∈ accepted (dgrams h), ∃ d ∈ dgrams h, p.2 = d ∧ ∃ o, parseTlNum d 0 = .ok (p.1, o)) := by
  have hs := Udp.runFrom_spawned caught H h (Udp.init a)
  have h0 : (Udp.init a).st.spawned = [] := rfl
  rw [h0, List.nil_append] at hs
  refine ⟨hs, ?_, ?_⟩
  · rw [Udp.run, Udp.runFrom_append]
    exact (Udp.turn_processed caught H _).1.trans hs
  · intro p hp
    simp only [accepted, List.mem_filterMap] at hp
    obtain ⟨d, hd, hm⟩ := hp
    refine ⟨d, hd, ?_⟩
    cases hq : parseTlNum d 0 with
    | ok r => obtain ⟨t, o⟩ := r; rw [hq] at hm; cases hm; exact ⟨rfl, o, rfl⟩
    | error e => rw [hq] at hm; cases hm

example : (Udp.run Gen.C06.udpCaught countHooks 0 ([.dgram [5, 1, 7], .dgram [], .lost, .dgram [253, 0], .raise 0, .dgram [6, 0]] ++ [.turn])).st.processed
    = [(5, [5, 1, 7]), (6, [6, 0])] :=
  (udp_tasks_exactly_once_in_order _ _ _ _).2.1.trans (by decide)

/-- **udp_tasks_no_callback_error.**  With the `except` tuple found in the source, for every history: no exception ever
    leaves `datagram_received` (nothing reaches the loop's exception handler from the transport callback). -/
theorem udp_tasks_no_callback_error (H : Hooks σ) (a : σ) (h : List Udp.Ev) :
    (Udp.run Gen.C06.udpCaught H a h).cbErrors = [] :=
  Udp.runFrom_cbErrors _ H udp_total h _

/-- **udp_tasks_isolated (4).**  As for the stream faces: marking receive steps as raising, or exchanging the black
    box, changes neither the queue nor the sequence of packets delivered nor how the face stands. -/
theorem udp_tasks_isolated {τ : Type} (caught : List PyErr) (H : Hooks σ) (H' : Hooks τ) (a : σ) (a' : τ)
    (h : List Udp.Ev) :
    Udp.ucore (Udp.run caught H a h) = Udp.ucore (Udp.run caught H' a' (h.filter (fun e => !e.isRaise))) :=
  Udp.ucore_runFrom caught H H' h _ _ rfl

example : (Udp.run Gen.C06.udpCaught countHooks 0 [.raise 0, .dgram [5, 0], .turn, .dgram [6, 0], .turn]).st.processed =
    (Udp.run Gen.C06.udpCaught countHooks 0 [.dgram [5, 0], .turn, .dgram [6, 0], .turn]).st.processed :=
  congrArg (fun c => c.2.2.2.1) (udp_tasks_isolated Gen.C06.udpCaught countHooks countHooks 0 0
    [.raise 0, .dgram [5, 0], .turn, .dgram [6, 0], .turn])

end Ndn.C06
