import NdnProofs.Lemmas.Lvs.Sanity
import NdnProofs.Lemmas.Lvs.SignCycle
import NdnProofs.Lemmas.Lvs.Sem
import NdnProofs.Lemmas.Lvs.Example
/-!
# C13 — ill-formed models are rejected; every query on an accepted model terminates

Model: `Ndn.Lvs.sanityCheck` (`Checker._sanity_check`: version, `dfs`, `top_order`) and the iterative
matcher `Ndn.Lvs.stepG`/`runG`/`matchIter` (`Checker._match`) over the binary model `Ndn.Lvs.Model`.
Specification vocabulary (`NdnModel/Lvs/Sem.lean`): `Sane m` — the six rules of
docs/src/lvs/binary-format.rst "Sanity Check" over the nodes reachable from the start node.

The compiler is not modelled in Lean: the schema-level half of the property (static errors ⇒
`SemanticError`; error-free schema ⇒ accepted model) is checked by the oracle of the harness only.
-/
namespace Ndn.C13
open Ndn Ndn.Lvs

/-- **sanity_iff_documented.** The structural part of the loader's check (version and `dfs`) succeeds
    exactly on the models that obey the documented sanity rules: supported version, node ids equal to
    their index, edges to existing nodes, signer ids existing, exactly one of Value/Tag/UserFn per
    option, every destination's parent is the source of the edge (and the root has no parent). -/
theorem sanity_iff_documented (m : Model) : structCheck m = true ↔ Sane m :=
  ⟨sane_of_structCheck m, structCheck_of_sane m⟩

/-- The loader raises `LvsModelError` exactly when a documented rule is broken. -/
theorem modelError_iff_not_sane (m : Model) : sanityCheck m = .error .modelError ↔ ¬ Sane m := by
  rw [← sanity_iff_documented]
  unfold sanityCheck
  cases hs : structCheck m
  · simp
  · cases hg : signOK m <;> simp

/-- An accepted model is sane. -/
theorem accepted_sane (m : Model) (h : sanityCheck m = .ok ()) : Sane m := by
  rw [← sanity_iff_documented]
  unfold sanityCheck at h
  cases hs : structCheck m
  · simp [hs] at h
  · rfl

/-- **match_terminates.** On every model accepted by the loader the iterative search ends (the loop
    variable `cur` becomes `None`) within `stepBound (maxPE m) |name|` iterations — for every name,
    every initial context and every `user_fns` dictionary (defined or not, raising or not). -/
theorem match_terminates (m : Model) (h : sanityCheck m = .ok ()) (env : FnEnv) (name : List Bytes) (ctx : Ctx) :
    ∃ k, k ≤ stepBound (maxPE m) name.length ∧
      (runG m (edgeFn m env) name k (initSt m ctx)).cur = none :=
  ⟨_, Nat.le_refl _, matchIter_halts m (accepted_sane m h).treeOK env name ctx⟩

/-- more fuel than the bound changes nothing: the loop has ended -/
theorem match_stable (m : Model) (h : sanityCheck m = .ok ()) (env : FnEnv) (name : List Bytes) (ctx : Ctx)
    (k : Nat) (hk : stepBound (maxPE m) name.length ≤ k) :
    runG m (edgeFn m env) name k (initSt m ctx) = matchIter m env name ctx :=
  runG_of_le _ _ _ _ _ _ hk (matchIter_halts m (accepted_sane m h).treeOK env name ctx)

/-- **check_terminates.** `check` runs `_match` once on the packet name and once per packet match on the
    key name (with the packet's bindings); each of these searches ends within the bound. -/
theorem check_terminates (m : Model) (h : sanityCheck m = .ok ()) (env : FnEnv) (pkt key : List Bytes) :
    (matchIter m env pkt []).cur = none ∧ ∀ σ, (matchIter m env key σ).cur = none :=
  ⟨matchIter_halts m (accepted_sane m h).treeOK env pkt [],
   fun σ => matchIter_halts m (accepted_sane m h).treeOK env key σ⟩

/-- On an accepted model with total user functions no exception leaves the search. -/
theorem match_no_exception (m : Model) (h : sanityCheck m = .ok ()) (env : FnEnv) (henv : EnvTotal env)
    (name : List Bytes) (ctx : Ctx) : (matchIter m env name ctx).err = none :=
  matchIter_no_err m (accepted_sane m h) env henv name ctx

/-- **sign_cycle_rejected.** A structurally sound model in which some reachable nodes sign each other in a
    cycle (every node of `C` is listed as signed by a node of `C`) is refused with `SemanticError`, the
    documented schema error: this is how a schema with cyclic signing relations is caught when the checker
    is built. -/
theorem sign_cycle_rejected (m : Model) (hs : Sane m) (C : List Nat) (hne : ∃ c, c ∈ C)
    (hC : ∀ c ∈ C, ∃ p ∈ C, Reach m p ∧ ∃ pnode, m.nodes[p]? = some pnode ∧ c ∈ pnode.signCons) :
    sanityCheck m = .error .semanticError :=
  Ndn.Lvs.sign_cycle_rejected m ((sanity_iff_documented m).mpr hs) C hne hC

/-- **compile_sane_partial.**  Full statement (not proved: the compiler passes are not modelled in Lean):
    `WFSchema S → no name pattern of S is its own signer → sanityCheck (compile S) = ok`, and
    `¬ WFSchema S → compile S = error SemanticError`.
    Proved part, for *any* model and so for whatever the compiler emits: the loader accepts it exactly
    when it is sane and `top_order` finds no signing loop. -/
theorem compile_sane_partial (m : Model) : sanityCheck m = .ok () ↔ Sane m ∧ signOK m = true := by
  rw [← sanity_iff_documented]
  unfold sanityCheck
  cases hs : structCheck m
  · simp
  · cases hg : signOK m <;> simp

/-! ### non-vacuity -/

theorem accepted_of (m : Model) (h1 : structCheck m = true) (h2 : signOK m = true) : sanityCheck m = .ok () := by
  simp [sanityCheck, h1, h2]

theorem rejected_of (m : Model) (h1 : structCheck m = false) : sanityCheck m = .error .modelError := by
  simp [sanityCheck, h1]

example : sanityCheck Example.model = .ok () := accepted_of _ (by decide) (by decide)
example : Sane Example.model := (sanity_iff_documented _).mp (by decide)
/-- F10: a child of the root with a wrong parent is rejected by the repaired check … -/
example : sanityCheck Example.badRootChild = .error .modelError := rejected_of _ (by decide)
example : ¬ Sane Example.badRootChild := (modelError_iff_not_sane _).mp (rejected_of _ (by decide))
/-- … and so is a root that records a parent (either would make `_match` loop forever) -/
example : sanityCheck Example.badRootParent = .error .modelError := rejected_of _ (by decide)
/-- on the corrupted model the search does not end within the bound (nor ever) -/
example : (matchIter Example.badRootChild Example.noFns [Example.cK, Example.cE] []).cur ≠ none := by decide
example : (matchIter Example.model Example.noFns [Example.cK, Example.cA] []).outs = [(4, [(1, Example.cA)])] := by
  decide
/-- `#p` signed by `#k` signed by `#p` -/
example : sanityCheck Example.signLoop = .error .semanticError := by
  simp only [sanityCheck, show structCheck Example.signLoop = true by decide,
    show signOK Example.signLoop = false by decide]; rfl
example : EnvTotal Example.allFns := fun _ => ⟨_, rfl, fun _ _ => ⟨true, rfl⟩⟩

end Ndn.C13
