import NdnProofs.Lemmas.Lvs.Sanity
import NdnProofs.Lemmas.Lvs.SignCycle
import NdnProofs.Lemmas.Lvs.Sem
import NdnProofs.Lemmas.Lvs.Example
import NdnProofs.Lemmas.Lvs.CompileStatic
import NdnProofs.Lemmas.Lvs.CompileExample
import NdnProofs.Lemmas.Lvs.CompileComplete
import NdnProofs.Lemmas.Lvs.SrcShape
import NdnProofs.Lemmas.Lvs.SrcExec
/-!
# C13 — ill-formed models are rejected; every query on an accepted model terminates

Model: `Ndn.Lvs.sanityCheck` (`Checker._sanity_check`: version, `dfs`, `top_order`) and the iterative
matcher `Ndn.Lvs.stepG`/`runG`/`matchIter` (`Checker._match`) over the binary model `Ndn.Lvs.Model`.
Specification vocabulary (`NdnModel/Lvs/Sem.lean`): `Sane m` — the six rules of
docs/src/lvs/binary-format.rst "Sanity Check": the node-id rule for every node of the array, the others
over the nodes reachable from the start node.

The compiler is modelled too (`NdnModel/Lvs/{Ast,Compile}.lean`: `Ndn.Lvs.compile`, the passes of
`compiler.py` as written, tied to the real `compile_lvs` on every run by comparing the node pools):
the schema-level half of the property is proved for it: `compile_ok_iff_static` (it raises, and then
`SemanticError`, exactly on the schemas with a static error), `compile_rejects_*` (each kind of static error),
`compile_sane` / `compile_accepted_iff` (what it emits is accepted by the loader iff there is no signing
cycle among its nodes); the node-level cycle is read back at the level of the text in `compile_sane_src`
(no shape of a name pattern is the shape of one of its own signers ⇒ accepted) and
`mergedSigner_counterexample` (an acyclic rule-level signing graph is NOT enough); see `compile_sane_partial`.
The exact criterion (equal merge-key paths) is in `Props/C13Keys.lean`, `Checker.load` on every byte string in
`Props/C13Load.lean`.
-/
namespace Ndn.C13
open Ndn Ndn.Lvs

/-- **sanity_iff_documented.** The structural part of the loader's check (version, the loop over the node
    array, `dfs`) succeeds exactly on the models that obey the documented sanity rules: supported version,
    every node's id equal to its index (reachable or not), edges to existing nodes, signer ids existing, exactly one of Value/Tag/UserFn per
    option, every destination's parent is the source of the edge (and the root has no parent). -/
theorem sanity_iff_documented (m : Model) : structCheck m = true ↔ Sane m :=
  ⟨sane_of_structCheck m, structCheck_of_sane m⟩

/-- The loader raises `LvsModelError` exactly when a documented rule is broken. -/
theorem modelError_iff_not_sane (m : Model) : sanityCheck m = .error .modelError ↔ ¬ Sane m := by
  rw [← sanity_iff_documented]
  unfold sanityCheck
  cases hs : structCheck m
  · simp
  · cases hg : signOK m <;> simp

/-- **load_rejects_bad_node_id.** "Every node's NodeId equals to its index in the array": a model with a node,
    reachable from the start node or not, whose `NodeId` is absent or differs from its position is refused
    with `LvsModelError` (before `top_order` can see the identifier). -/
theorem load_rejects_bad_node_id (m : Model) (i : Nat) (node : Node) (hn : m.nodes[i]? = some node)
    (hid : node.id ≠ some i) : sanityCheck m = .error .modelError := by
  rw [modelError_iff_not_sane]
  exact fun hs => hid (hs.ids i node hn)

/-- An accepted model is sane. -/
theorem accepted_sane (m : Model) (h : sanityCheck m = .ok ()) : Sane m := by
  rw [← sanity_iff_documented]
  unfold sanityCheck at h
  cases hs : structCheck m
  · simp [hs] at h
  · rfl

/-- **match_terminates.** On every model accepted by the loader the iterative search ends (the loop
    variable `cur` becomes `None`) within `stepBound (maxPE m) |name|` iterations — for every name,
    every initial context and every `user_fns` dictionary (defined or not, raising or not). -/
theorem match_terminates (m : Model) (h : sanityCheck m = .ok ()) (env : FnEnv) (name : List Bytes) (ctx : Ctx) :
    ∃ k, k ≤ stepBound (maxPE m) name.length ∧
      (runG m (edgeFn m env) name k (initSt m ctx)).cur = none :=
  ⟨_, Nat.le_refl _, matchIter_halts m (accepted_sane m h).treeOK env name ctx⟩

/-- more fuel than the bound changes nothing: the loop has ended -/
theorem match_stable (m : Model) (h : sanityCheck m = .ok ()) (env : FnEnv) (name : List Bytes) (ctx : Ctx)
    (k : Nat) (hk : stepBound (maxPE m) name.length ≤ k) :
    runG m (edgeFn m env) name k (initSt m ctx) = matchIter m env name ctx :=
  runG_of_le _ _ _ _ _ _ hk (matchIter_halts m (accepted_sane m h).treeOK env name ctx)

/-- **check_terminates.** `check` runs `_match` once on the packet name and once per packet match on the
    key name (with the packet's bindings); each of these searches ends within the bound. -/
theorem check_terminates (m : Model) (h : sanityCheck m = .ok ()) (env : FnEnv) (pkt key : List Bytes) :
    (matchIter m env pkt []).cur = none ∧ ∀ σ, (matchIter m env key σ).cur = none :=
  ⟨matchIter_halts m (accepted_sane m h).treeOK env pkt [],
   fun σ => matchIter_halts m (accepted_sane m h).treeOK env key σ⟩

/-- On an accepted model with total user functions no exception leaves the search. -/
theorem match_no_exception (m : Model) (h : sanityCheck m = .ok ()) (env : FnEnv) (henv : EnvTotal env)
    (name : List Bytes) (ctx : Ctx) : (matchIter m env name ctx).err = none :=
  matchIter_no_err m (accepted_sane m h) env henv name ctx

/-- **sign_cycle_rejected.** A structurally sound model in which some reachable nodes sign each other in a
    cycle (every node of `C` is listed as signed by a node of `C`) is refused with `SemanticError`, the
    documented schema error: this is how a schema with cyclic signing relations is caught when the checker
    is built. -/
theorem sign_cycle_rejected (m : Model) (hs : Sane m) (C : List Nat) (hne : ∃ c, c ∈ C)
    (hC : ∀ c ∈ C, ∃ p ∈ C, Reach m p ∧ ∃ pnode, m.nodes[p]? = some pnode ∧ c ∈ pnode.signCons) :
    sanityCheck m = .error .semanticError :=
  Ndn.Lvs.sign_cycle_rejected m ((sanity_iff_documented m).mpr hs) C hne hC

/-! ### the compile-time half (over the compiler model `Ndn.Lvs.compile`) -/

/-- **compile_rejects_bad_reference.** A name pattern that refers to a temporary rule (`#_x`) or to an
    identifier no rule of the schema defines makes `compile` raise `SemanticError`. -/
theorem compile_rejects_bad_reference (S : Schema) (r : SRule) (hr : r ∈ S.rules) (c : String)
    (hc : Comp.ref c ∈ r.name) (h : isTempRule c = true ∨ ∀ r' ∈ S.rules, r'.id ≠ c) :
    compile S = .error .semantic :=
  compile_badRef S r hr c hc h

/-- **compile_rejects_reference_cycle.** A non-empty set `C` of rule identifiers, each of which is referred to
    in the name pattern of a definition of a member of `C` (cyclic rule references, in particular a rule
    referring to itself), makes `compile` raise `SemanticError` ("Loop detected"). -/
theorem compile_rejects_reference_cycle (S : Schema) (C : List String) (hne : C ≠ [])
    (hC : ∀ c ∈ C, ∃ r ∈ S.rules, r.id ∈ C ∧ Comp.ref c ∈ r.name) :
    compile S = .error .semantic :=
  compile_refCycle S C hne hC

/-- **compile_rejects_bad_constraint.** `BadTerm`: a constraint on a named pattern written in no name pattern
    of the schema, or on a temporary pattern not written in the rule's own name pattern; or an option / a
    user-function argument that is a temporary pattern or a pattern written in no name pattern of the schema.
    Any such term makes `compile` raise `SemanticError`. -/
theorem compile_rejects_bad_constraint (S : Schema) (r : SRule) (hr : r ∈ S.rules) (cs : List (Term String String))
    (hcs : cs ∈ r.cons) (t : Term String String) (ht : t ∈ cs) (hbad : BadTerm S.rules r t) :
    compile S = .error .semantic :=
  compile_badTerm S r hr cs hcs t ht hbad

/-- **compile_rejects_undefined_signer.** A signer that is not the identifier of a rule (temporary rules count
    under their renamed identifier `#_x#k`, which no signer can spell) makes `compile` raise `SemanticError`. -/
theorem compile_rejects_undefined_signer (S : Schema) (r : SRule) (hr : r ∈ S.rules) (s : String) (hs : s ∈ r.sign)
    (hbad : s ∉ ruleIds (renameTemps S.rules 1)) : compile S = .error .semantic :=
  compile_badSigner S r hr s hs hbad

/-- … in particular a signer that is neither temporary nor the identifier of a rule of the schema -/
theorem compile_rejects_unknown_signer (S : Schema) (r : SRule) (hr : r ∈ S.rules) (s : String) (hs : s ∈ r.sign)
    (hnt : isTempRule s = false) (hbad : ∀ r' ∈ S.rules, r'.id ≠ s) : compile S = .error .semantic := by
  apply compile_badSigner S r hr s hs
  intro hin
  obtain ⟨r', hr', hid⟩ := mem_ruleIds.mp hin
  obtain ⟨r0, hr0, _, _, _, hcase⟩ := mem_renameTemps hr'
  rcases hcase with ⟨_, he⟩ | ⟨htmp, j, he⟩
  · exact hbad r0 hr0 (he ▸ hid)
  · have : isTempRule s = true := by
      rw [← hid, he, String.append_assoc]
      exact isTempRule_append _ _ htmp
    rw [hnt] at this
    simp at this

/-- **compile_only_semantic_errors.** Whatever the schema, the only exception the compiler model raises is
    `SemanticError`: `rep_rules[comp.id]` never raises `KeyError` (after the topological sort references point
    backwards) and the recursion of `_generate_node` is bounded by the longest name pattern. -/
theorem compile_only_semantic_errors (S : Schema) (e : CErr) (h : compile S = .error e) : e = .semantic :=
  compile_error_semantic S e h

/-- **compile_ok_iff_static.** The compiler model accepts exactly the schemas without static error (`StaticOK`:
    every reference is to a defined non-temporary rule, references are acyclic, no constraint term is a `BadTerm`,
    every signer is a rule) and otherwise raises `SemanticError`. -/
theorem compile_ok_iff_static (S : Schema) :
    ((∃ res, compile S = .ok res) ↔ StaticOK S) ∧ (compile S = .error .semantic ↔ ¬ StaticOK S) := by
  have hfw : (∃ res, compile S = .ok res) → StaticOK S := by
    intro ⟨res, hres⟩
    have hne : compile S ≠ .error .semantic := by rw [hres]; simp
    refine ⟨⟨fun r hr c hc => ?_, fun ⟨C, hC, hcy⟩ => hne (compile_refCycle S C hC hcy)⟩,
      fun r hr cs hcs t ht hbad => hne (compile_badTerm S r hr cs hcs t ht hbad),
      fun r hr s hs => compile_ok_signers S res hres r hr s hs⟩
    constructor
    · cases ht : isTempRule c with
      | false => rfl
      | true => exact absurd (compile_badRef S r hr c hc (Or.inl ht)) hne
    · apply Classical.byContradiction
      intro hn
      exact hne (compile_badRef S r hr c hc (Or.inr (fun r' hr' he => hn ⟨r', hr', he⟩)))
  refine ⟨⟨hfw, compile_complete S⟩, ?_, ?_⟩
  · intro herr hst
    obtain ⟨res, hres⟩ := compile_complete S hst
    rw [hres] at herr
    simp at herr
  · intro hn
    cases h : compile S with
    | error e => rw [compile_error_semantic S e h]
    | ok res => exact absurd (hfw ⟨res, h⟩) hn

/-- a signing cycle among reachable nodes of a model: a non-empty set of nodes each of which is listed as
    signer by a reachable member of the set -/
def SignCycle (m : Model) : Prop :=
  ∃ C : List Nat, (∃ c, c ∈ C) ∧
    ∀ c ∈ C, ∃ p ∈ C, Reach m p ∧ ∃ pnode, m.nodes[p]? = some pnode ∧ c ∈ pnode.signCons

/-- **compile_structure_sane.** Whatever a well-formed AST (`Schema.WF`: what the grammar guarantees — literals
    are encoded components, user functions have a name) compiles to obeys the documented sanity rules: the
    structural part of the loader's check (version, `dfs`) succeeds; it never raises `LvsModelError`. -/
theorem compile_structure_sane (S : Schema) (hwf : S.WF) (m : Model) (syms : List String)
    (h : compile S = .ok (m, syms)) : Sane m ∧ structCheck m = true ∧ sanityCheck m ≠ .error .modelError := by
  have hs := (compile_built S hwf m syms h).sane
  refine ⟨hs, (sanity_iff_documented m).mpr hs, ?_⟩
  rw [Ne, modelError_iff_not_sane]
  exact fun hn => hn hs

/-- **compile_accepted_iff.** The loader accepts the compiled model exactly when no reachable nodes sign each
    other in a cycle; otherwise it raises `SemanticError`. -/
theorem compile_accepted_iff (S : Schema) (hwf : S.WF) (m : Model) (syms : List String)
    (h : compile S = .ok (m, syms)) :
    (sanityCheck m = .ok () ↔ ¬ SignCycle m) ∧ (sanityCheck m = .error .semanticError ↔ SignCycle m) := by
  have hb := compile_built S hwf m syms h
  have hsc : structCheck m = true := (sanity_iff_documented m).mpr hb.sane
  have hyes : SignCycle m → sanityCheck m = .error .semanticError := by
    intro ⟨C, hne, hC⟩
    exact Ndn.Lvs.sign_cycle_rejected m hsc C hne hC
  have hno : ¬ SignCycle m → sanityCheck m = .ok () := by
    intro hn
    have := signOK_of_acyclic m hb.ids hb.signers hn
    simp [sanityCheck, hsc, this]
  constructor
  · constructor
    · intro hok hcy; rw [hyes hcy] at hok; simp at hok
    · exact hno
  · constructor
    · intro herr
      apply Classical.byContradiction
      intro hn; rw [hno hn] at herr; simp at herr
    · exact hyes

/-- **compile_sane.** A well-formed schema that compiles, and whose compiled nodes do not sign each other in a
    cycle, is accepted by the loader. -/
theorem compile_sane (S : Schema) (hwf : S.WF) (m : Model) (syms : List String)
    (h : compile S = .ok (m, syms)) (hac : ¬ SignCycle m) : sanityCheck m = .ok () :=
  (compile_accepted_iff S hwf m syms h).1.mpr hac

/-- **compile_static_sane.** The schema-level statement in one piece: a schema the parser can produce, without
    static error, compiles, and the loader accepts the result unless its nodes sign each other in a cycle (in
    which case it raises `SemanticError`, never `LvsModelError`). -/
theorem compile_static_sane (S : Schema) (hwf : S.WF) (hst : StaticOK S) :
    ∃ m syms, compile S = .ok (m, syms) ∧ Sane m ∧
      (sanityCheck m = .ok () ↔ ¬ SignCycle m) ∧ (sanityCheck m = .error .semanticError ↔ SignCycle m) := by
  obtain ⟨⟨m, syms⟩, h⟩ := compile_complete S hst
  exact ⟨m, syms, h, (compile_structure_sane S hwf m syms h).1, compile_accepted_iff S hwf m syms h⟩

/-! ### the signing cycle read back at the level of the text -/

/-- **signCycle_shapeSelfSigning.** A signing cycle among the reachable nodes of the compiled model is a cycle among the
    shapes of the name patterns of the text: a non-empty set of shapes (of expansions of definitions) each of which is the
    shape of an expansion of a rule that a definition with an expansion of a shape in the set lists as signer. -/
theorem signCycle_shapeSelfSigning (S : Schema) (hwf : S.WF) (m : Model) (syms : List String)
    (h : compile S = .ok (m, syms)) (hcy : SignCycle m) : ShapeSelfSigning ⟨renameTemps S.rules 1⟩ := by
  unfold compile at h
  split at h
  · simp at h
  · rename_i chains named hch
    split at h
    · simp at h
    · rename_i m' hb
      injection h with h
      simp only [Prod.mk.injEq] at h
      obtain ⟨rfl, rfl⟩ := h
      obtain ⟨C, hne, hC⟩ := hcy
      obtain ⟨P, hP1, hP2⟩ := signCycle_shapes chains named m' (chainsOf_ok S hwf chains named hch) hb C hne
        (fun c hc => by obtain ⟨p, hp, _, pnode, hpn, hk⟩ := hC c hc; exact ⟨p, hp, pnode, hpn, hk⟩)
      refine ⟨P, hP1, fun s hs => ?_⟩
      obtain ⟨p, hp, hps⟩ := hP2 s hs
      exact ⟨p, hp, chainShapes_src S chains named hch hps⟩

/-- **compile_sane_src** (the positive clause at the level of the text).  A schema the parser can produce that compiles,
    and in which no shape of a name pattern is, directly or transitively, the shape of one of its own signers
    (`ShapeSelfSigning`, `NdnModel/Lvs/SrcSem.lean`), yields a model the loader accepts. -/
theorem compile_sane_src (S : Schema) (hwf : S.WF) (m : Model) (syms : List String)
    (h : compile S = .ok (m, syms)) (hns : ¬ ShapeSelfSigning ⟨renameTemps S.rules 1⟩) : sanityCheck m = .ok () :=
  compile_sane S hwf m syms h fun hcy => hns (signCycle_shapeSelfSigning S hwf m syms h hcy)

/-- **static_sane_src.** In one piece: no static error and no self-signing shape ⇒ the schema compiles and the loader
    accepts the result. -/
theorem static_sane_src (S : Schema) (hwf : S.WF) (hst : StaticOK S)
    (hns : ¬ ShapeSelfSigning ⟨renameTemps S.rules 1⟩) :
    ∃ m syms, compile S = .ok (m, syms) ∧ sanityCheck m = .ok () := by
  obtain ⟨⟨m, syms⟩, h⟩ := compile_complete S hst
  exact ⟨m, syms, h, compile_sane_src S hwf m syms h hns⟩

/-- a cycle in the rule-level signing graph: a non-empty set of rule identifiers each of which is listed as signer by a
    definition of a member -/
def RuleSignCycle (S : Schema) : Prop :=
  ∃ C : List String, C ≠ [] ∧ ∀ c ∈ C, ∃ r ∈ S.rules, r.id ∈ C ∧ c ∈ r.sign

/-- `#a: "k"/x <= #b`, `#b: "k"/x` -/
def mergedSigner : Schema := { rules := [
  { id := "#a", name := [.lit Example.cK, .pat "x"], cons := [], sign := ["#b"] },
  { id := "#b", name := [.lit Example.cK, .pat "x"], cons := [], sign := [] }] }

/-- **mergedSigner_counterexample.** "The rule-level signing graph is acyclic" does NOT imply that the loader accepts:
    the schema `#a: "k"/x <= #b`, `#b: "k"/x` is well formed, has no static error and no rule-level signing cycle, it
    compiles — and the loader refuses the model with `SemanticError`, because the two rules have the same name pattern and so
    end at the same node, which then lists itself as signer.  (The real `compile_lvs` / `Checker` do the same: replayed by the
    harness, corpus case `merged-signer`.) -/
theorem mergedSigner_counterexample :
    mergedSigner.WF ∧ StaticOK mergedSigner ∧ ¬ RuleSignCycle mergedSigner ∧
    ∃ m syms, compile mergedSigner = .ok (m, syms) ∧ sanityCheck m = .error .semanticError := by
  have hc : ∃ m syms, compile mergedSigner = .ok (m, syms) ∧ sanityCheck m = .error .semanticError := by
    have : (match compile mergedSigner with
        | .ok (m, _) => (match sanityCheck m with | .error .semanticError => true | _ => false)
        | .error _ => false) = true := by decide +kernel
    split at this
    · rename_i m syms heq
      refine ⟨m, syms, heq, ?_⟩
      split at this
      · assumption
      · simp at this
    · simp at this
  obtain ⟨m, syms, h1, h2⟩ := hc
  refine ⟨Schema.wf_of_all _ (by decide), (compile_ok_iff_static _).1.mp ⟨_, h1⟩, ?_, m, syms, h1, h2⟩
  rintro ⟨C, hne, hC⟩
  obtain ⟨c, hc⟩ := List.exists_mem_of_ne_nil _ hne
  obtain ⟨r, hr, hrC, hcs⟩ := hC c hc
  simp only [mergedSigner, List.mem_cons, List.not_mem_nil, or_false] at hr
  rcases hr with rfl | rfl
  · obtain ⟨r', hr', _, hcs'⟩ := hC "#a" hrC
    simp only [mergedSigner, List.mem_cons, List.not_mem_nil, or_false] at hr'
    rcases hr' with rfl | rfl <;> simp at hcs'
  · simp at hcs

/-- … and it is self-signing at the level of shapes, as `compile_sane_src` requires it to be -/
theorem mergedSigner_selfSigning : ShapeSelfSigning ⟨renameTemps mergedSigner.rules 1⟩ := by
  obtain ⟨hwf, _, _, m, syms, h1, h2⟩ := mergedSigner_counterexample
  apply Classical.byContradiction
  intro hns
  rw [compile_sane_src mergedSigner hwf m syms h1 hns] at h2
  simp at h2

/-- **compile_sane_partial.**  Full statement:
    `WFSchema S → no name pattern of S is its own signer → sanityCheck (compile S) = ok`, and
    `¬ WFSchema S → compile S = error SemanticError`.
    Proved about the compiler model (above): it raises exactly on the schemas with a static error, and then
    `SemanticError` (`compile_ok_iff_static`, `compile_rejects_*`, `compile_only_semantic_errors`); every model
    it emits is structurally sane, and is accepted iff its nodes do not sign each other in a cycle, else
    `SemanticError` (`compile_structure_sane`, `compile_accepted_iff`, `compile_sane`, `compile_static_sane`).
    The node-level `SignCycle` read back in terms of the source rules (below): all rule chains that end at one node
    have one *shape* (length, and the same component values at the same positions), so a schema in which no shape
    of a name pattern is — directly or transitively — the shape of one of its own signers is accepted
    (`compile_sane_src`, `static_sane_src`; "name pattern" = expansion of a definition, `SrcSem.lean`); and the
    honest negative: an acyclic *rule-level* signing graph does not suffice, because two rules with the same name
    pattern share one node (`mergedSigner_counterexample`: `#a: "k"/x <= #b`, `#b: "k"/x` compiles and the loader
    refuses the result; there the name pattern `"k"/x` IS its own signer).  The exact criterion is proved in
    `Props/C13Keys.lean`: two chains end at one node iff their merge-key paths are equal, so the loader refuses the compiled
    model iff the key paths of the chains sign each other in a cycle (`compile_accepted_iff_keys`); read at the level of the
    text this is necessary for every schema (`compile_sane_keys`, finer than the shape criterion) and exact for every schema
    that writes no temporary pattern (`compile_accepted_iff_src`).  Not proved: an exact criterion in terms of the text alone
    for schemas WITH temporary patterns (two chains share a temporary pattern only when both inline the same chain of the
    same rule - the number the compiler gave to that occurrence - which the source semantics has no name for), and
    model = code, which rests on the correspondence run and the schema-level oracle.
    Proved here, for *any* model: the loader accepts it exactly when it is sane and `top_order` finds no
    signing loop. -/
theorem compile_sane_partial (m : Model) : sanityCheck m = .ok () ↔ Sane m ∧ signOK m = true := by
  rw [← sanity_iff_documented]
  unfold sanityCheck
  cases hs : structCheck m
  · simp
  · cases hg : signOK m <;> simp

/-! ### non-vacuity -/

theorem accepted_of (m : Model) (h1 : structCheck m = true) (h2 : signOK m = true) : sanityCheck m = .ok () := by
  simp [sanityCheck, h1, h2]

theorem rejected_of (m : Model) (h1 : structCheck m = false) : sanityCheck m = .error .modelError := by
  simp [sanityCheck, h1]

example : sanityCheck Example.model = .ok () := accepted_of _ (by decide) (by decide)
example : Sane Example.model := (sanity_iff_documented _).mp (by decide)
/-- F10: a child of the root with a wrong parent is rejected by the repaired check … -/
example : sanityCheck Example.badRootChild = .error .modelError := rejected_of _ (by decide)
example : ¬ Sane Example.badRootChild := (modelError_iff_not_sane _).mp (rejected_of _ (by decide))
/-- an unreachable node without `NodeId`, or with a wrong one, is rejected -/
example : sanityCheck Example.extraNodeNoId = .error .modelError :=
  load_rejects_bad_node_id _ 5 { id := none, parent := none, ruleNames := [], vEdges := [], pEdges := [], signCons := [] }
    (by decide) (by decide)
example : sanityCheck Example.extraNodeWrongId = .error .modelError :=
  load_rejects_bad_node_id _ 5 { id := some 3, parent := none, ruleNames := [], vEdges := [], pEdges := [], signCons := [] }
    (by decide) (by decide)
/-- … and so is a root that records a parent (either would make `_match` loop forever) -/
example : sanityCheck Example.badRootParent = .error .modelError := rejected_of _ (by decide)
/-- on the corrupted model the search does not end within the bound (nor ever) -/
example : (matchIter Example.badRootChild Example.noFns [Example.cK, Example.cE] []).cur ≠ none := by decide
example : (matchIter Example.model Example.noFns [Example.cK, Example.cA] []).outs = [(4, [(1, Example.cA)])] := by
  decide
/-- `#p` signed by `#k` signed by `#p` -/
example : sanityCheck Example.signLoop = .error .semanticError := by
  simp only [sanityCheck, show structCheck Example.signLoop = true by decide,
    show signOK Example.signLoop = false by decide]; rfl
example : EnvTotal Example.allFns := fun _ => ⟨_, rfl, fun _ _ => ⟨true, rfl⟩⟩

/-! the compiler model: `#p: "d"/x <= #k`, `#k: "k"/x & {x: "a"|"b"}` compiles to `Example.model` -/
example : compile Example.schema = .ok (Example.model, ["x"]) := Example.compile_schema
example : Sane Example.model :=
  (compile_structure_sane _ Example.schema_wf _ _ Example.compile_schema).1
example : ¬ SignCycle Example.model :=
  (compile_accepted_iff _ Example.schema_wf _ _ Example.compile_schema).1.mp (accepted_of _ (by decide) (by decide))
example : sanityCheck Example.model = .ok () :=
  compile_sane _ Example.schema_wf _ _ Example.compile_schema
    ((compile_accepted_iff _ Example.schema_wf _ _ Example.compile_schema).1.mp (accepted_of _ (by decide) (by decide)))
/-- `#p <= #k`, `#k <= #p` compiles, and the loader refuses the result: nodes 2 and 4 sign each other -/
example : SignCycle Example.signLoop :=
  (compile_accepted_iff _ Example.schemaLoop_wf _ _ Example.compile_schemaLoop).2.mp (by
    simp only [sanityCheck, show structCheck Example.signLoop = true by decide,
      show signOK Example.signLoop = false by decide]; rfl)
example : StaticOK Example.schema :=
  (compile_ok_iff_static Example.schema).1.mp ⟨_, Example.compile_schema⟩
example : ∃ m syms, compile Example.schema = .ok (m, syms) ∧ Sane m ∧
    (sanityCheck m = .ok () ↔ ¬ SignCycle m) ∧ (sanityCheck m = .error .semanticError ↔ SignCycle m) :=
  compile_static_sane Example.schema Example.schema_wf ((compile_ok_iff_static Example.schema).1.mp ⟨_, Example.compile_schema⟩)
/-- `#p: "d"/x <= #nokey` -/
example : compile Example.schemaBadSigner = .error .semantic :=
  compile_rejects_unknown_signer _ _ List.mem_cons_self "#nokey" List.mem_cons_self (by decide) (by decide)
example : ¬ StaticOK Example.schemaBadSigner :=
  (compile_ok_iff_static _).2.mp
    (compile_rejects_unknown_signer _ _ List.mem_cons_self "#nokey" List.mem_cons_self (by decide) (by decide))
example : CErr.semantic = .semantic :=
  compile_only_semantic_errors Example.schemaBadSigner _
    (compile_rejects_unknown_signer _ _ List.mem_cons_self "#nokey" List.mem_cons_self (by decide) (by decide))
/-- `#p: #nope/"d"` -/
example : compile Example.schemaBadRef = .error .semantic :=
  compile_rejects_bad_reference _ _ List.mem_cons_self "#nope" List.mem_cons_self (Or.inr (by decide))
/-- `#p: "d"/#q`, `#q: #p/"k"` -/
example : compile Example.schemaRefCycle = .error .semantic :=
  compile_rejects_reference_cycle _ ["#p", "#q"] (by simp) (by decide)
/-- `#p: "d"/x & {x: "a", y: "b"}`: `y` is written in no name pattern -/
example : compile Example.schemaBadCons = .error .semantic :=
  compile_rejects_bad_constraint _ _ List.mem_cons_self _ List.mem_cons_self
    { pat := "y", opts := [.lit Example.cB] } (by simp)
    (Or.inl ⟨by decide, by unfold NamedIn; decide⟩)
/-- `#p: "d"/x & {x: _t}`: a temporary pattern used as constraint value -/
example : compile Example.schemaTempOpt = .error .semantic :=
  compile_rejects_bad_constraint _ _ List.mem_cons_self _ List.mem_cons_self
    { pat := "x", opts := [.pat "_t"] } List.mem_cons_self
    (Or.inr (Or.inr ⟨.pat "_t", List.mem_cons_self, "_t", List.mem_cons_self, Or.inl (by decide)⟩))

/-- in `#p: "d"/x <= #k`, `#k: "k"/x & {…}` no shape is the shape of one of its signers -/
theorem example_not_selfSigning : ¬ ShapeSelfSigning ⟨renameTemps Example.schema.rules 1⟩ := by
  rintro ⟨P, ⟨s, hs⟩, hP⟩
  have hsort : ∃ srules, sortRuleReferences Example.schema = .ok srules := by
    cases h : sortRuleReferences Example.schema with
    | ok srules => exact ⟨srules, rfl⟩
    | error e =>
      have := chainsOf_of_sort_error h
      rw [Example.chainsOf_schema] at this
      simp at this
  obtain ⟨srules, hsr⟩ := hsort
  have hsig : ∀ p s, ShapeSigns ⟨renameTemps Example.schema.rules 1⟩ p s →
      p = [some Example.cD, none] ∧ s = [some Example.cK, none] := by
    rintro p s ⟨r, hr, f, hf, rfl, q, hq, g, hg, rfl⟩
    have hr' : r = ⟨"#p", [.lit Example.cD, .pat "x"], [], ["#k"]⟩ ∨
        r = ⟨"#k", [.lit Example.cK, .pat "x"], [[{ pat := "x", opts := [.lit Example.cA, .lit Example.cB] }]], []⟩ := by
      have : renameTemps Example.schema.rules 1 = Example.schema.rules := by decide
      rw [this] at hr
      simpa [Example.schema] using hr
    rcases hr' with rfl | rfl
    · simp only [List.mem_singleton] at hq
      subst hq
      have hg' := (expands_iff_mem_flatsOfRule Example.schema srules hsr "#k" g).mp hg
      have hf' := (expands_iff_mem_flatsOfRule Example.schema srules hsr "#p" f).mp (expands_iff.mpr ⟨_, hr, rfl, hf⟩)
      have h1 : ∀ g ∈ flatsOfRule ⟨renameTemps Example.schema.rules 1⟩ ((renameTemps Example.schema.rules 1).length + 1) "#k",
          g.shape = [some Example.cK, none] := by decide +kernel
      have h2 : ∀ g ∈ flatsOfRule ⟨renameTemps Example.schema.rules 1⟩ ((renameTemps Example.schema.rules 1).length + 1) "#p",
          g.shape = [some Example.cD, none] := by decide +kernel
      exact ⟨h2 f hf', h1 g hg'⟩
    · simp at hq
  obtain ⟨p, hp, hps⟩ := hP s hs
  obtain ⟨rfl, rfl⟩ := hsig p s hps
  obtain ⟨p', _, hps'⟩ := hP _ hp
  have := (hsig p' _ hps').2
  have hne : ([some Example.cD, none] : List (Option Bytes)) ≠ [some Example.cK, none] := by decide
  exact hne this
example : sanityCheck Example.model = .ok () :=
  compile_sane_src _ Example.schema_wf _ _ Example.compile_schema example_not_selfSigning
example : ∃ m syms, compile Example.schema = .ok (m, syms) ∧ sanityCheck m = .ok () :=
  static_sane_src _ Example.schema_wf ((compile_ok_iff_static Example.schema).1.mp ⟨_, Example.compile_schema⟩)
    example_not_selfSigning
/-- `#p <= #k`, `#k <= #p`: the node-level cycle of `Example.signLoop` is a cycle of shapes of the text -/
example : ShapeSelfSigning ⟨renameTemps Example.schemaLoop.rules 1⟩ :=
  signCycle_shapeSelfSigning _ Example.schemaLoop_wf _ _ Example.compile_schemaLoop
    ((compile_accepted_iff _ Example.schemaLoop_wf _ _ Example.compile_schemaLoop).2.mp (by
      simp only [sanityCheck, show structCheck Example.signLoop = true by decide,
        show signOK Example.signLoop = false by decide]; rfl))
example : ¬ RuleSignCycle mergedSigner := mergedSigner_counterexample.2.2.1

end Ndn.C13
