import NdnProofs.Lemmas.CodecTotal
import NdnProofs.Lemmas.CodecRT
import NdnProofs.Lemmas.CodecStrict
import NdnModel.Packet
import NdnGen.C07
/-!
# C07 — Packet decoders accept exactly the well-formed packets

Model: `Ndn.Codec.parse` (the scan loop of `TlvModel.parse`, faithfully including Python's silently
truncating slices), `decodeName` (`Name.decode`), `Ndn.Packet.decodePacket` (`parse_and_check_tl` + scan
loop + mandatory Name + no NDNLP fragmentation) over the packet schemas regenerated from the source
(`Ndn.Gen.C07`).  The theorems hold for **every byte string**.
-/
namespace Ndn.C07
open Ndn Ndn.Codec Ndn.Packet

/-- **parse_total.** On every byte string the scan loop, given fuel `length + 1` (one unit per element
    read, so the number of loop iterations is linear in the input), never runs out of fuel and never
    reaches an internal error: it returns a model or fails with a documented decoding error
    (IndexError, struct.error, ValueError, DecodeError). -/
theorem parse_total (fs : List Schema) (ic : Bool) (wire : Bytes) (hp : pFs fs = true) :
    Doc (parse fs ic wire) :=
  (total_step (wire.length + 1)).1 fs ic wire 0 0 _ hp (Nat.lt_succ_self _)

theorem parseAndCheckTl_doc (wire : Bytes) (t : Nat) : Doc (parseAndCheckTl wire t) := by
  unfold parseAndCheckTl
  apply Doc.bind (parseTlNum_doc _ _); intro ⟨typ, tl⟩ _
  apply Doc.bind (parseTlNum_doc _ _); intro ⟨size, sl⟩ _
  simp only []
  split
  · exact Doc.err _ rfl
  · split
    · exact Doc.err _ rfl
    · exact Doc.ok _

/-- **decodePacket_error_classes.** `parse_interest`, `parse_data`, `parse_lp_packet_v2` and
    `parse_certificate` either accept or reject with a documented decoding error, for every byte string. -/
theorem decodePacket_error_classes (fs : List Schema) (outer : Nat) (ic nn : Bool) (forbid : List Nat)
    (wire : Bytes) (hp : pFs fs = true) : Doc (decodePacket fs outer ic nn forbid wire) := by
  unfold decodePacket
  apply Doc.bind (parseAndCheckTl_doc _ _); intro v _
  apply Doc.bind (parse_total fs ic v hp); intro vs _
  by_cases c1 : (nn && nameMissing fs vs) = true
  · simp only [c1, if_true]; exact Doc.err _ rfl
  · simp only [c1, if_false]
    by_cases c2 : anyPresent fs vs forbid = true
    · simp only [c2, if_true]; exact Doc.err _ rfl
    · simp only [c2, if_false]; exact Doc.ok _

/-- the four shipped packet decoders (schemas regenerated from the source on every run) -/
theorem shipped_decoders_error_classes (wire : Bytes) :
    Doc (decodePacket Gen.C07.interest 5 false true [] wire) ∧
    Doc (decodePacket Gen.C07.data 6 false true [] wire) ∧
    Doc (decodePacket Gen.C07.lp 100 true false [82, 83] wire) ∧
    Doc (decodePacket Gen.C07.cert 6 false true [] wire) := by
  have h := Gen.C07.packet_schemas_ok
  simp only [List.all_cons, List.all_nil, Bool.and_true, Bool.and_eq_true] at h
  exact ⟨decodePacket_error_classes _ _ _ _ _ _ h.1, decodePacket_error_classes _ _ _ _ _ _ h.2.1,
    decodePacket_error_classes _ _ _ _ _ _ h.2.2.1, decodePacket_error_classes _ _ _ _ _ _ h.2.2.2⟩

/-- **decodeName_error_classes.** `Name.from_bytes` either decodes or fails with a documented error. -/
theorem decodeName_error_classes (wire : Bytes) : Doc (decodeName wire 0) := decodeName_doc wire 0

/-- **accepted_has_name.** A packet accepted by a decoder that requires it carries its Name. -/
theorem accepted_has_name (fs : List Schema) (outer : Nat) (ic : Bool) (forbid : List Nat) (wire : Bytes)
    (vs : List Value) (i : Nat) (hi : nameIdx fs = some i)
    (h : decodePacket fs outer ic true forbid wire = .ok vs) :
    ∃ x, vs[i]? = some x ∧ isNone x = false := by
  unfold decodePacket at h
  obtain ⟨v, _, h2⟩ := bind_ok h
  obtain ⟨vs', _, h3⟩ := bind_ok h2
  by_cases c1 : (true && nameMissing fs vs') = true
  · simp only [c1, if_true] at h3; cases h3
  · simp only [c1, if_false] at h3
    by_cases c2 : anyPresent fs vs' forbid = true
    · simp only [c2, if_true] at h3; cases h3
    · simp [c1, c2] at h3; subst h3
      simp only [Bool.true_and, nameMissing, hi] at c1
      cases hx : vs'[i]? with
      | none => simp [hx] at c1
      | some x => exact ⟨x, rfl, by simpa [hx] using c1⟩

/-- **accepted_outer_exact.** An accepted packet is exactly one element of the expected Type whose
    declared Length is the number of bytes that follow. -/
theorem accepted_outer_exact (fs : List Schema) (outer : Nat) (ic nn : Bool) (forbid : List Nat)
    (wire : Bytes) (vs : List Value) (h : decodePacket fs outer ic nn forbid wire = .ok vs) :
    ∃ tl size sl, parseTlNum wire 0 = .ok (outer, tl) ∧ parseTlNum wire tl = .ok (size, sl) ∧
      wire.length = tl + sl + size := by
  unfold decodePacket at h
  obtain ⟨v, hv, _⟩ := bind_ok h
  unfold parseAndCheckTl at hv
  obtain ⟨⟨typ, tl⟩, h1, hv2⟩ := bind_ok hv
  obtain ⟨⟨size, sl⟩, h2, hv3⟩ := bind_ok hv2
  simp only [] at hv3
  split at hv3
  · cases hv3
  · rename_i ht
    split at hv3
    · cases hv3
    · rename_i hl
      have : typ = outer := by simpa using ht
      subst this
      exact ⟨tl, size, sl, h1, h2, by simpa using hl⟩

/-- **strict_implies_accept_partial.** Every packet *value* the library encodes (marker-free schema,
    legal assignment) wrapped in its outer element is accepted, with exactly the encoded fields.
    (The converse, "accepted ⇒ strictly well nested", is false of the code: see
    `overrun_accepted_counterexample`.) -/
theorem strict_implies_accept_partial (fs : List Schema) (vs : List Value) (body : Bytes) (outer : Nat)
    (ic : Bool) (hw : wfTop fs = true) (hfit : fitsFs fs vs = true) (h : encFields fs vs = .ok body)
    (ho : outer < 2 ^ 64) (hb : body.length < 2 ^ 64) :
    decodePacket fs outer ic false [] (tlv outer body) = .ok vs := by
  obtain ⟨p1, p2, s1, _, _⟩ := head_elem outer body [] ho hb
  simp only [List.append_nil] at p1 p2 s1
  have hrt : parse fs ic body = .ok vs := by
    simp only [wfTop, Bool.and_eq_true] at hw
    obtain ⟨items, hok, henc, hfold⟩ := rt_suffix [] fs vs body hw.1 (by simpa using hw.2) hfit h
    have := loop_items fs ic hw.1 hw.2 items (body.length + 1) 0 0 (fs.map initVal) (by simpa using hok)
      (by rw [henc]; omega)
    rw [henc] at this
    have hd := hfold [] rfl
    simp only [List.nil_append] at hd
    rw [parse, this, hd]
  have hany : ∀ (a : List Schema) (b : List Value), anyPresent a b [] = false := by
    intro a
    induction a with
    | nil => intro b; simp [anyPresent]
    | cons s ss ih =>
      intro b
      cases b with
      | nil => simp [anyPresent]
      | cons v vs' => simp only [anyPresent, ih]; cases s.typ <;> simp
  unfold decodePacket parseAndCheckTl
  simp only [p1, p2, bind, Except.bind, ne_eq, not_true_eq_false, if_false, tlv_length, s1, hrt,
    Bool.false_and, hany, pure, Except.pure]
  simp

/-- **overrun_accepted_counterexample** (known finding, negation of "accepted ⇒ every nested element
    lies inside its parent"): the Data decoder accepts `06 09 07 03 08 01 61 15 10 78 79`, whose Content
    announces 16 bytes but has 2, and reports Content = `78 79`. -/
theorem overrun_accepted_counterexample :
    ∃ vs, decodePacket Gen.C07.data 6 false true []
      [0x06, 0x09, 0x07, 0x03, 0x08, 0x01, 0x61, 0x15, 0x10, 0x78, 0x79] = .ok vs ∧
      vs[7]? = some (Value.bytes [0x78, 0x79]) := by
  refine ⟨_, rfl, rfl⟩

/-! ### non-vacuity -/
example : pFs Gen.C07.data = true := by decide
example : nameIdx Gen.C07.data = some 5 := by decide
example : Doc (decodePacket Gen.C07.data 6 false true [] [0x06, 0x00]) :=
  (shipped_decoders_error_classes _).2.1
/-- a Data without Name is rejected with DecodeError -/
example : decodePacket Gen.C07.data 6 false true [] [0x06, 0x00] = .error .decodeError := by rfl
/-- an integer of width 3 is rejected with ValueError -/
example : decodePacket Gen.C07.data 6 false true []
    [0x06, 0x0a, 0x07, 0x00, 0x14, 0x05, 0x18, 0x03, 0x00, 0x00, 0x01] = .error .indexError := by rfl

/-! ## The strict decoder and the exact size of the known finding

`Ndn.Codec.strictParse` / `Ndn.Packet.strictDecodePacket` (NdnModel/CodecStrict.lean) are the decoder *with* the
bounds check the code lacks: after an element's Type and Length are read, `hdr + len ≤ rest.length`, otherwise
the element overruns (`SErr.overrun kind`, the documented IndexError).  `WellNested` / `PacketNested` say what
"every nested element lies inside its parent" means without mentioning any decoder.  All theorems below hold for
**every byte string** and every schema of the fragment `pFs` (no MapField), by induction on the fuel. -/

/-- **strict_accepts_well_nested.** Whatever the strict reading accepts is a sequence of complete elements,
    each inside the wire, recursively inside every recognised sub-model, name components inside their Name. -/
theorem strict_accepts_well_nested (fs : List Schema) (ic : Bool) (w : Bytes) (vs : List Value)
    (hp : pFs fs = true) (h : strictParse fs ic w = .ok vs) : WellNested fs 0 w :=
  (nested_step (w.length + 1)).1 fs ic w 0 0 _ vs hp h

/-- the strict and the faithful decoder agree (value for value, error class for error class) unless the
    strict reading stops at an overrun; at an overrunning integer or Name the faithful decoder fails too -/
theorem strict_agrees (fs : List Schema) (ic : Bool) (w : Bytes) (hp : pFs fs = true) :
    Agree (strictParse fs ic w) (parse fs ic w) :=
  (agree_step (w.length + 1)).1 fs ic w 0 0 _ hp

/-- **strict_refines.** Whatever the strict reading accepts, the decoder accepts with exactly the same
    extracted fields. -/
theorem strict_refines (fs : List Schema) (ic : Bool) (w : Bytes) (vs : List Value) (hp : pFs fs = true)
    (h : strictParse fs ic w = .ok vs) : parse fs ic w = .ok vs := by
  have := strict_agrees fs ic w hp
  rw [h] at this; exact this

/-- **strict_error_agrees.** Where the strict reading rejects for a reason other than an overrun, the decoder
    rejects with the same error class. -/
theorem strict_error_agrees (fs : List Schema) (ic : Bool) (w : Bytes) (e : PyErr) (hp : pFs fs = true)
    (h : strictParse fs ic w = .error (.py e)) : parse fs ic w = .error e := by
  have := strict_agrees fs ic w hp
  rw [h] at this; exact this

/-- **only_overruns_differ.** The converse of `strict_refines` up to the known finding: a byte string the
    decoder accepts is accepted by the strict reading with the same fields, or the strict reading stops at an
    overrunning element — and that element is a byte string, a sub-model, a boolean or an unrecognised one
    (the four `overrun-*` keys of known_findings.txt; an overrunning integer is struct.error / ValueError and an
    overrunning Name is IndexError in the code as it is). -/
theorem only_overruns_differ (fs : List Schema) (ic : Bool) (w : Bytes) (vs : List Value) (hp : pFs fs = true)
    (h : parse fs ic w = .ok vs) :
    strictParse fs ic w = .ok vs ∨
    ∃ k, strictParse fs ic w = .error (.overrun k) ∧
      (k = .byteString ∨ k = .subModel ∨ k = .boolean ∨ k = .unrecognised) := by
  have ha := strict_agrees fs ic w hp
  cases hs : strictParse fs ic w with
  | ok vs' =>
    rw [hs] at ha
    have : parse fs ic w = .ok vs' := ha
    rw [h] at this; cases this; exact .inl rfl
  | error e =>
    cases e with
    | py e =>
      rw [hs] at ha
      have : parse fs ic w = .error e := ha
      rw [h] at this; cases this
    | overrun k =>
      right
      refine ⟨k, rfl, ?_⟩
      rw [hs] at ha
      have hv : (k = .integer ∨ k = .name) → ∃ e, parse fs ic w = .error e := ha
      cases k with
      | integer => obtain ⟨e, he⟩ := hv (.inl rfl); rw [h] at he; cases he
      | name => obtain ⟨e, he⟩ := hv (.inr rfl); rw [h] at he; cases he
      | byteString => simp
      | subModel => simp
      | boolean => simp
      | unrecognised => simp

/-- **accept_iff_strict.** The acceptance gap is exactly the overruns: the strict reading accepts (with
    fields `vs`) iff the decoder accepts (with fields `vs`) and the byte string is well nested. -/
theorem accept_iff_strict (fs : List Schema) (ic : Bool) (w : Bytes) (vs : List Value) (hp : pFs fs = true) :
    strictParse fs ic w = .ok vs ↔ (parse fs ic w = .ok vs ∧ WellNested fs 0 w) := by
  constructor
  · intro h
    exact ⟨strict_refines fs ic w vs hp h, strict_accepts_well_nested fs ic w vs hp h⟩
  · intro ⟨h, hw⟩
    rcases only_overruns_differ fs ic w vs hp h with h' | ⟨k, hk, _⟩
    · exact h'
    · exact absurd hk (wellNested_noov hw hp _ _ _ _ k)

/-! ### the same for whole packets -/

theorem packet_strict_agrees (fs : List Schema) (outer : Nat) (ic nn : Bool) (forbid : List Nat)
    (wire : Bytes) (hp : pFs fs = true) :
    Agree (strictDecodePacket fs outer ic nn forbid wire) (decodePacket fs outer ic nn forbid wire) := by
  unfold strictDecodePacket decodePacket
  apply Agree.bind_lift; intro v _
  apply Agree.bind (strict_agrees fs ic v hp); intro vs _ _
  by_cases c1 : (nn && nameMissing fs vs) = true
  · simp only [c1, if_true]; exact Agree.err _
  · simp only [c1, if_false]
    by_cases c2 : anyPresent fs vs forbid = true
    · simp only [c2, if_true]; exact Agree.err _
    · simp only [c2, if_false]; exact Agree.ok _

/-- **packet_strict_refines.** A packet the strict packet decoder accepts is accepted by
    `parse_interest` / `parse_data` / `parse_lp_packet_v2` / `parse_certificate` with the same fields. -/
theorem packet_strict_refines (fs : List Schema) (outer : Nat) (ic nn : Bool) (forbid : List Nat)
    (wire : Bytes) (vs : List Value) (hp : pFs fs = true)
    (h : strictDecodePacket fs outer ic nn forbid wire = .ok vs) :
    decodePacket fs outer ic nn forbid wire = .ok vs := by
  have := packet_strict_agrees fs outer ic nn forbid wire hp
  rw [h] at this; exact this

/-- **packet_only_overruns_differ.** An accepted packet is accepted by the strict packet decoder with the same
    fields unless some element inside it overruns, and then the first such element is a byte string, a
    sub-model, a boolean or unrecognised. -/
theorem packet_only_overruns_differ (fs : List Schema) (outer : Nat) (ic nn : Bool) (forbid : List Nat)
    (wire : Bytes) (vs : List Value) (hp : pFs fs = true)
    (h : decodePacket fs outer ic nn forbid wire = .ok vs) :
    strictDecodePacket fs outer ic nn forbid wire = .ok vs ∨
    ∃ k, strictDecodePacket fs outer ic nn forbid wire = .error (.overrun k) ∧
      (k = .byteString ∨ k = .subModel ∨ k = .boolean ∨ k = .unrecognised) := by
  have ha := packet_strict_agrees fs outer ic nn forbid wire hp
  cases hs : strictDecodePacket fs outer ic nn forbid wire with
  | ok vs' =>
    rw [hs] at ha
    have : decodePacket fs outer ic nn forbid wire = .ok vs' := ha
    rw [h] at this; cases this; exact .inl rfl
  | error e =>
    cases e with
    | py e =>
      rw [hs] at ha
      have : decodePacket fs outer ic nn forbid wire = .error e := ha
      rw [h] at this; cases this
    | overrun k =>
      right
      refine ⟨k, rfl, ?_⟩
      rw [hs] at ha
      have hv : (k = .integer ∨ k = .name) → ∃ e, decodePacket fs outer ic nn forbid wire = .error e := ha
      cases k with
      | integer => obtain ⟨e, he⟩ := hv (.inl rfl); rw [h] at he; cases he
      | name => obtain ⟨e, he⟩ := hv (.inr rfl); rw [h] at he; cases he
      | byteString => simp
      | subModel => simp
      | boolean => simp
      | unrecognised => simp

/-- **packet_strict_accepts_well_nested.** A packet the strict packet decoder accepts is exactly one element
    of the expected Type filling the wire whose Value is well nested. -/
theorem packet_strict_accepts_well_nested (fs : List Schema) (outer : Nat) (ic nn : Bool) (forbid : List Nat)
    (wire : Bytes) (vs : List Value) (hp : pFs fs = true)
    (h : strictDecodePacket fs outer ic nn forbid wire = .ok vs) : PacketNested fs outer wire := by
  unfold strictDecodePacket at h
  obtain ⟨v, hv, hrest⟩ := sbind_ok h
  obtain ⟨vs', hvs, _⟩ := sbind_ok hrest
  have hv := lift_ok hv
  have hw := strict_accepts_well_nested fs ic v vs' hp hvs
  unfold parseAndCheckTl at hv
  obtain ⟨⟨typ, tl⟩, h1, hv2⟩ := bind_ok hv
  obtain ⟨⟨size, sl⟩, h2, hv3⟩ := bind_ok hv2
  simp only [] at hv3
  split at hv3
  · cases hv3
  · rename_i ht
    split at hv3
    · cases hv3
    · rename_i hl
      have : typ = outer := by simpa using ht
      subst this
      cases hv3
      exact ⟨tl, size, sl, h1, h2, by simpa using hl, hw⟩

theorem packet_noov (fs : List Schema) (outer : Nat) (ic nn : Bool) (forbid : List Nat) (wire : Bytes)
    (hp : pFs fs = true) (hn : PacketNested fs outer wire) :
    NoOv (strictDecodePacket fs outer ic nn forbid wire) := by
  obtain ⟨tl, size, sl, h1, h2, hl, hw⟩ := hn
  unfold strictDecodePacket parseAndCheckTl
  simp only [h1, h2, ok_bind, ne_eq, not_true_eq_false, if_false, hl, pure, Except.pure, lift_ok_eq]
  apply NoOv.bind (wellNested_noov hw hp _ _ _ _); intro vs _
  split
  · exact NoOv.py _
  · split
    · exact NoOv.py _
    · exact NoOv.ok _

/-- **packet_accept_iff_strict.** For whole packets: the strict packet decoder accepts iff the shipped decoder
    accepts with the same fields and the packet is well nested. -/
theorem packet_accept_iff_strict (fs : List Schema) (outer : Nat) (ic nn : Bool) (forbid : List Nat)
    (wire : Bytes) (vs : List Value) (hp : pFs fs = true) :
    strictDecodePacket fs outer ic nn forbid wire = .ok vs ↔
      (decodePacket fs outer ic nn forbid wire = .ok vs ∧ PacketNested fs outer wire) := by
  constructor
  · intro h
    exact ⟨packet_strict_refines fs outer ic nn forbid wire vs hp h,
      packet_strict_accepts_well_nested fs outer ic nn forbid wire vs hp h⟩
  · intro ⟨h, hw⟩
    rcases packet_only_overruns_differ fs outer ic nn forbid wire vs hp h with h' | ⟨k, hk, _⟩
    · exact h'
    · exact absurd hk (packet_noov fs outer ic nn forbid wire hp hw k)

/-- **shipped_decoders_strict.** The four shipped packet decoders (schemas regenerated from the source on
    every run): accepted-by-strict ⇔ accepted ∧ well nested, with equal fields, for every byte string. -/
theorem shipped_decoders_strict (wire : Bytes) (vs : List Value) :
    (strictDecodePacket Gen.C07.interest 5 false true [] wire = .ok vs ↔
      (decodePacket Gen.C07.interest 5 false true [] wire = .ok vs ∧ PacketNested Gen.C07.interest 5 wire)) ∧
    (strictDecodePacket Gen.C07.data 6 false true [] wire = .ok vs ↔
      (decodePacket Gen.C07.data 6 false true [] wire = .ok vs ∧ PacketNested Gen.C07.data 6 wire)) ∧
    (strictDecodePacket Gen.C07.lp 100 true false [82, 83] wire = .ok vs ↔
      (decodePacket Gen.C07.lp 100 true false [82, 83] wire = .ok vs ∧ PacketNested Gen.C07.lp 100 wire)) ∧
    (strictDecodePacket Gen.C07.cert 6 false true [] wire = .ok vs ↔
      (decodePacket Gen.C07.cert 6 false true [] wire = .ok vs ∧ PacketNested Gen.C07.cert 6 wire)) := by
  have h := Gen.C07.packet_schemas_ok
  simp only [List.all_cons, List.all_nil, Bool.and_true, Bool.and_eq_true] at h
  exact ⟨packet_accept_iff_strict _ _ _ _ _ _ _ h.1, packet_accept_iff_strict _ _ _ _ _ _ _ h.2.1,
    packet_accept_iff_strict _ _ _ _ _ _ _ h.2.2.1, packet_accept_iff_strict _ _ _ _ _ _ _ h.2.2.2⟩

/-- **shipped_only_overruns_differ.** For the four shipped decoders an accepted packet that the strict reading
    does not accept contains an overrunning byte-string, sub-model, boolean or unrecognised element. -/
theorem shipped_only_overruns_differ (wire : Bytes) (vs : List Value) :
    (decodePacket Gen.C07.interest 5 false true [] wire = .ok vs →
      strictDecodePacket Gen.C07.interest 5 false true [] wire = .ok vs ∨
      ∃ k, strictDecodePacket Gen.C07.interest 5 false true [] wire = .error (.overrun k) ∧
        (k = .byteString ∨ k = .subModel ∨ k = .boolean ∨ k = .unrecognised)) ∧
    (decodePacket Gen.C07.data 6 false true [] wire = .ok vs →
      strictDecodePacket Gen.C07.data 6 false true [] wire = .ok vs ∨
      ∃ k, strictDecodePacket Gen.C07.data 6 false true [] wire = .error (.overrun k) ∧
        (k = .byteString ∨ k = .subModel ∨ k = .boolean ∨ k = .unrecognised)) ∧
    (decodePacket Gen.C07.lp 100 true false [82, 83] wire = .ok vs →
      strictDecodePacket Gen.C07.lp 100 true false [82, 83] wire = .ok vs ∨
      ∃ k, strictDecodePacket Gen.C07.lp 100 true false [82, 83] wire = .error (.overrun k) ∧
        (k = .byteString ∨ k = .subModel ∨ k = .boolean ∨ k = .unrecognised)) ∧
    (decodePacket Gen.C07.cert 6 false true [] wire = .ok vs →
      strictDecodePacket Gen.C07.cert 6 false true [] wire = .ok vs ∨
      ∃ k, strictDecodePacket Gen.C07.cert 6 false true [] wire = .error (.overrun k) ∧
        (k = .byteString ∨ k = .subModel ∨ k = .boolean ∨ k = .unrecognised)) := by
  have h := Gen.C07.packet_schemas_ok
  simp only [List.all_cons, List.all_nil, Bool.and_true, Bool.and_eq_true] at h
  exact ⟨packet_only_overruns_differ _ _ _ _ _ _ _ h.1, packet_only_overruns_differ _ _ _ _ _ _ _ h.2.1,
    packet_only_overruns_differ _ _ _ _ _ _ _ h.2.2.1, packet_only_overruns_differ _ _ _ _ _ _ _ h.2.2.2⟩

/-! ### non-vacuity of the strict theorems -/
/-- the known-finding vector: the strict reading stops at the overrunning Content (a byte string) -/
example : strictDecodePacket Gen.C07.data 6 false true []
    [0x06, 0x09, 0x07, 0x03, 0x08, 0x01, 0x61, 0x15, 0x10, 0x78, 0x79] = .error (.overrun .byteString) := by rfl
/-- … so that packet, which `parse_data` accepts, is NOT well nested -/
example : ¬ PacketNested Gen.C07.data 6 [0x06, 0x09, 0x07, 0x03, 0x08, 0x01, 0x61, 0x15, 0x10, 0x78, 0x79] := by
  intro hn
  obtain ⟨vs, hd, _⟩ := overrun_accepted_counterexample
  have := ((shipped_decoders_strict _ vs).2.1).mpr ⟨hd, hn⟩
  cases this
/-- the repaired vector (Content Length 2) is accepted by both readings, hence well nested -/
example : PacketNested Gen.C07.data 6 [0x06, 0x09, 0x07, 0x03, 0x08, 0x01, 0x61, 0x15, 0x02, 0x78, 0x79] :=
  packet_strict_accepts_well_nested Gen.C07.data 6 false true [] _ _ (by decide) rfl
/-- the other three kinds of the known finding: boolean (MustBeFresh, Length 1, no Value byte), sub-model
    (MetaInfo, Length 5, 3 bytes) and unrecognised non-critical (Type 0xF0) -/
example : strictDecodePacket Gen.C07.interest 5 false true [] [0x05, 0x07, 0x07, 0x03, 0x08, 0x01, 0x61, 0x12, 0x01]
    = .error (.overrun .boolean) := by rfl
example : strictDecodePacket Gen.C07.data 6 false true []
    [0x06, 0x0a, 0x07, 0x03, 0x08, 0x01, 0x61, 0x14, 0x05, 0x18, 0x01, 0x00] = .error (.overrun .subModel) := by rfl
example : strictDecodePacket Gen.C07.data 6 false true []
    [0x06, 0x08, 0x07, 0x03, 0x08, 0x01, 0x61, 0xf0, 0x09, 0x00] = .error (.overrun .unrecognised) := by rfl
/-- an overrunning integer is rejected by the code as it is (struct.error), as `only_overruns_differ` says -/
example : decodePacket Gen.C07.data 6 false true []
    [0x06, 0x0a, 0x07, 0x03, 0x08, 0x01, 0x61, 0x14, 0x03, 0x18, 0x02, 0x00] = .error .structError := by rfl

end Ndn.C07
