import NdnProofs.Lemmas.CodecTotal
import NdnProofs.Lemmas.CodecRT
import NdnModel.Packet
import NdnGen.C07
/-!
# C07 — Packet decoders accept exactly the well-formed packets

Model: `Ndn.Codec.parse` (the scan loop of `TlvModel.parse`, faithfully including Python's silently
truncating slices), `decodeName` (`Name.decode`), `Ndn.Packet.decodePacket` (`parse_and_check_tl` + scan
loop + mandatory Name + no NDNLP fragmentation) over the packet schemas regenerated from the source
(`Ndn.Gen.C07`).  The theorems hold for **every byte string**.
-/
namespace Ndn.C07
open Ndn Ndn.Codec Ndn.Packet

/-- **parse_total.** On every byte string the scan loop, given fuel `length + 1` (one unit per element
    read, so the number of loop iterations is linear in the input), never runs out of fuel and never
    reaches an internal error: it returns a model or fails with a documented decoding error
    (IndexError, struct.error, ValueError, DecodeError). -/
theorem parse_total (fs : List Schema) (ic : Bool) (wire : Bytes) (hp : pFs fs = true) :
    Doc (parse fs ic wire) :=
  (total_step (wire.length + 1)).1 fs ic wire 0 0 _ hp (Nat.lt_succ_self _)

theorem parseAndCheckTl_doc (wire : Bytes) (t : Nat) : Doc (parseAndCheckTl wire t) := by
  unfold parseAndCheckTl
  apply Doc.bind (parseTlNum_doc _ _); intro ⟨typ, tl⟩ _
  apply Doc.bind (parseTlNum_doc _ _); intro ⟨size, sl⟩ _
  simp only []
  split
  · exact Doc.err _ rfl
  · split
    · exact Doc.err _ rfl
    · exact Doc.ok _

/-- **decodePacket_error_classes.** `parse_interest`, `parse_data`, `parse_lp_packet_v2` and
    `parse_certificate` either accept or reject with a documented decoding error, for every byte string. -/
theorem decodePacket_error_classes (fs : List Schema) (outer : Nat) (ic nn : Bool) (forbid : List Nat)
    (wire : Bytes) (hp : pFs fs = true) : Doc (decodePacket fs outer ic nn forbid wire) := by
  unfold decodePacket
  apply Doc.bind (parseAndCheckTl_doc _ _); intro v _
  apply Doc.bind (parse_total fs ic v hp); intro vs _
  by_cases c1 : (nn && nameMissing fs vs) = true
  · simp only [c1, if_true]; exact Doc.err _ rfl
  · simp only [c1, if_false]
    by_cases c2 : anyPresent fs vs forbid = true
    · simp only [c2, if_true]; exact Doc.err _ rfl
    · simp only [c2, if_false]; exact Doc.ok _

/-- the four shipped packet decoders (schemas regenerated from the source on every run) -/
theorem shipped_decoders_error_classes (wire : Bytes) :
    Doc (decodePacket Gen.C07.interest 5 false true [] wire) ∧
    Doc (decodePacket Gen.C07.data 6 false true [] wire) ∧
    Doc (decodePacket Gen.C07.lp 100 true false [82, 83] wire) ∧
    Doc (decodePacket Gen.C07.cert 6 false true [] wire) := by
  have h := Gen.C07.packet_schemas_ok
  simp only [List.all_cons, List.all_nil, Bool.and_true, Bool.and_eq_true] at h
  exact ⟨decodePacket_error_classes _ _ _ _ _ _ h.1, decodePacket_error_classes _ _ _ _ _ _ h.2.1,
    decodePacket_error_classes _ _ _ _ _ _ h.2.2.1, decodePacket_error_classes _ _ _ _ _ _ h.2.2.2⟩

/-- **decodeName_error_classes.** `Name.from_bytes` either decodes or fails with a documented error. -/
theorem decodeName_error_classes (wire : Bytes) : Doc (decodeName wire 0) := decodeName_doc wire 0

/-- **accepted_has_name.** A packet accepted by a decoder that requires it carries its Name. -/
theorem accepted_has_name (fs : List Schema) (outer : Nat) (ic : Bool) (forbid : List Nat) (wire : Bytes)
    (vs : List Value) (i : Nat) (hi : nameIdx fs = some i)
    (h : decodePacket fs outer ic true forbid wire = .ok vs) :
    ∃ x, vs[i]? = some x ∧ isNone x = false := by
  unfold decodePacket at h
  obtain ⟨v, _, h2⟩ := bind_ok h
  obtain ⟨vs', _, h3⟩ := bind_ok h2
  by_cases c1 : (true && nameMissing fs vs') = true
  · simp only [c1, if_true] at h3; cases h3
  · simp only [c1, if_false] at h3
    by_cases c2 : anyPresent fs vs' forbid = true
    · simp only [c2, if_true] at h3; cases h3
    · simp [c1, c2] at h3; subst h3
      simp only [Bool.true_and, nameMissing, hi] at c1
      cases hx : vs'[i]? with
      | none => simp [hx] at c1
      | some x => exact ⟨x, rfl, by simpa [hx] using c1⟩

/-- **accepted_outer_exact.** An accepted packet is exactly one element of the expected Type whose
    declared Length is the number of bytes that follow. -/
theorem accepted_outer_exact (fs : List Schema) (outer : Nat) (ic nn : Bool) (forbid : List Nat)
    (wire : Bytes) (vs : List Value) (h : decodePacket fs outer ic nn forbid wire = .ok vs) :
    ∃ tl size sl, parseTlNum wire 0 = .ok (outer, tl) ∧ parseTlNum wire tl = .ok (size, sl) ∧
      wire.length = tl + sl + size := by
  unfold decodePacket at h
  obtain ⟨v, hv, _⟩ := bind_ok h
  unfold parseAndCheckTl at hv
  obtain ⟨⟨typ, tl⟩, h1, hv2⟩ := bind_ok hv
  obtain ⟨⟨size, sl⟩, h2, hv3⟩ := bind_ok hv2
  simp only [] at hv3
  split at hv3
  · cases hv3
  · rename_i ht
    split at hv3
    · cases hv3
    · rename_i hl
      have : typ = outer := by simpa using ht
      subst this
      exact ⟨tl, size, sl, h1, h2, by simpa using hl⟩

/-- **strict_implies_accept_partial.** Every packet *value* the library encodes (marker-free schema,
    legal assignment) wrapped in its outer element is accepted, with exactly the encoded fields.
    (The converse, "accepted ⇒ strictly well nested", is false of the code: see
    `overrun_accepted_counterexample`.) -/
theorem strict_implies_accept_partial (fs : List Schema) (vs : List Value) (body : Bytes) (outer : Nat)
    (ic : Bool) (hw : wfTop fs = true) (hfit : fitsFs fs vs = true) (h : encFields fs vs = .ok body)
    (ho : outer < 2 ^ 64) (hb : body.length < 2 ^ 64) :
    decodePacket fs outer ic false [] (tlv outer body) = .ok vs := by
  obtain ⟨p1, p2, s1, _, _⟩ := head_elem outer body [] ho hb
  simp only [List.append_nil] at p1 p2 s1
  have hrt : parse fs ic body = .ok vs := by
    simp only [wfTop, Bool.and_eq_true] at hw
    obtain ⟨items, hok, henc, hfold⟩ := rt_suffix [] fs vs body hw.1 (by simpa using hw.2) hfit h
    have := loop_items fs ic hw.1 hw.2 items (body.length + 1) 0 0 (fs.map initVal) (by simpa using hok)
      (by rw [henc]; omega)
    rw [henc] at this
    have hd := hfold [] rfl
    simp only [List.nil_append] at hd
    rw [parse, this, hd]
  have hany : ∀ (a : List Schema) (b : List Value), anyPresent a b [] = false := by
    intro a
    induction a with
    | nil => intro b; simp [anyPresent]
    | cons s ss ih =>
      intro b
      cases b with
      | nil => simp [anyPresent]
      | cons v vs' => simp only [anyPresent, ih]; cases s.typ <;> simp
  unfold decodePacket parseAndCheckTl
  simp only [p1, p2, bind, Except.bind, ne_eq, not_true_eq_false, if_false, tlv_length, s1, hrt,
    Bool.false_and, hany, pure, Except.pure]
  simp

/-- **overrun_accepted_counterexample** (known finding, negation of "accepted ⇒ every nested element
    lies inside its parent"): the Data decoder accepts `06 09 07 03 08 01 61 15 10 78 79`, whose Content
    announces 16 bytes but has 2, and reports Content = `78 79`. -/
theorem overrun_accepted_counterexample :
    ∃ vs, decodePacket Gen.C07.data 6 false true []
      [0x06, 0x09, 0x07, 0x03, 0x08, 0x01, 0x61, 0x15, 0x10, 0x78, 0x79] = .ok vs ∧
      vs[7]? = some (Value.bytes [0x78, 0x79]) := by
  refine ⟨_, rfl, rfl⟩

/-! ### non-vacuity -/
example : pFs Gen.C07.data = true := by decide
example : nameIdx Gen.C07.data = some 5 := by decide
example : Doc (decodePacket Gen.C07.data 6 false true [] [0x06, 0x00]) :=
  (shipped_decoders_error_classes _).2.1
/-- a Data without Name is rejected with DecodeError -/
example : decodePacket Gen.C07.data 6 false true [] [0x06, 0x00] = .error .decodeError := by rfl
/-- an integer of width 3 is rejected with ValueError -/
example : decodePacket Gen.C07.data 6 false true []
    [0x06, 0x0a, 0x07, 0x00, 0x14, 0x05, 0x18, 0x03, 0x00, 0x00, 0x01] = .error .indexError := by rfl

end Ndn.C07
