import NdnGen.TlvModelFields
import NdnProofs.Props.TlvVarGen
import NdnProofs.Lemmas.Codec
/-!
  The methods `encoded_length`, `encode_into`, `parse_from` of the leaf field classes of
  `src/ndn/encoding/tlv_model.py` - `UintField`, `BoolField`, `BytesField` (on byte strings and on text) - TRANSLATED
  from the source text on every run (`harness/py2lean.py` -> `lean/NdnGen/TlvModelFields.lean`), are equal, for ALL
  inputs, to the corresponding clauses of the hand-written generic codec (`NdnModel/Codec.lean`: `encLen`, `enc`,
  `leafCheck` + `parseValue`), which until now was tied to the code by sampling only.

  A method is translated as a function of the attributes of `self` it reads (`self.type_num`, `self.fixed_len`,
  `self.name`) and of its parameters, under the types the field class documents for its value (`None` or an int / a
  bool / a byte string / a str); the `markers` dict is the association list of its int entries and is returned when
  written; writes into `wire` are list updates.  NameField, ModelField and RepeatedField are asked for as well and are
  reported by the translator as outside its subset (loops, dynamic dispatch on `val`, isinstance chains on values of
  undeclared type): no theorem here mentions them.
-/
set_option linter.unusedSimpArgs false
set_option linter.unusedVariables false
namespace Ndn.TlvModelGen
open Ndn Ndn.Py Ndn.TlvVarGen Ndn.Codec

/-- every `encoded_length` / `encode_into` of UintField / BoolField / BytesField asked for was inside the translated subset
    (the `parse_from` side is `Props/TlvModelParseGen.lean`) -/
theorem all_translated :
    Gen.TlvModelFields.UintField_encoded_length_translated = true ∧ Gen.TlvModelFields.UintField_encode_into_translated = true ∧
    Gen.TlvModelFields.BoolField_encoded_length_translated = true ∧ Gen.TlvModelFields.BoolField_encode_into_translated = true ∧
    Gen.TlvModelFields.BytesField_encoded_length_bytes_translated = true ∧
    Gen.TlvModelFields.BytesField_encode_into_bytes_translated = true ∧
    Gen.TlvModelFields.BytesField_encoded_length_str_translated = true ∧
    Gen.TlvModelFields.BytesField_encode_into_str_translated = true := by decide


theorem powLit_nat (k w : Nat) (x : Int) (hx : x = (w : Int)) : powLit k x = .ok ((k ^ w : Nat) : Int) := by
  subst hx; unfold powLit; rw [if_pos (by omega), Int.toNat_natCast]

/-- **UintField.encoded_length**, every Type, value `≥ 0`, `fixed_len` and markers dict: the translated source returns what
    `Codec.encLen (.uint t fl) (.uint v)` returns (`ValueError` included: the value does not fit the width) and records
    the width `uintWidth fl v` under `<name>##encoded_length`. -/
theorem uint_encoded_length_eq (t v : Nat) (fl : Option Nat) (nm : String) (m : Dict) :
    Gen.TlvModelFields.UintField_encoded_length t (fl.map fun w => ((w : Nat) : Int)) nm (some (v : Int)) m
      = match encLen (.uint t fl) (.uint v) with
        | .ok n => .ok (((n : Nat) : Int), dictSet m (nm ++ "##encoded_length") ((uintWidth fl v : Nat) : Int))
        | .error e => .error e := by
  simp only [Gen.TlvModelFields.UintField_encoded_length, encLen, get_tl_num_size_eq, ok_bind]
  rw [if_neg (by omega)]
  cases fl with
  | none =>
    simp only [Option.map_none]
    rw [show uintWidth none v = (if v ≤ 0xFF then 1 else if v ≤ 0xFFFF then 2 else if v ≤ 0xFFFFFFFF then 4 else 8) from rfl]
    have p1 := powLit_nat 256 1 1 rfl
    have p2 := powLit_nat 256 2 2 rfl
    have p4 := powLit_nat 256 4 4 rfl
    have p8 := powLit_nat 256 8 8 rfl
    simp only [Nat.reducePow] at p1 p2 p4 p8
    rcases (by omega : v ≤ 255 ∨ (255 < v ∧ v ≤ 65535) ∨ (65535 < v ∧ v ≤ 4294967295) ∨
      (4294967295 < v ∧ v < 2 ^ 64) ∨ 2 ^ 64 ≤ v) with h | h | h | h | h
    all_goals
      simp (disch := omega) only [if_pos, if_neg, p1, p2, p4, p8, ok_bind, Nat.reducePow]
      try (first | rfl | (congr 2; omega))
  | some w =>
    simp only [Option.map_some]
    rw [show uintWidth (some w) v = w from rfl, powLit_nat 256 w _ rfl]
    simp only [ok_bind]
    by_cases hb : v ≥ 256 ^ w
    · have : ((v : Int) ≥ ((256 ^ w : Nat) : Int)) := by exact_mod_cast hb
      rw [if_pos this, if_pos hb]
    · have : ¬ ((v : Int) ≥ ((256 ^ w : Nat) : Int)) := by intro h; exact hb (by exact_mod_cast h)
      rw [if_neg this, if_neg hb]
      try (first | rfl | (congr 2; omega))


/-- an absent value (`None`) takes no space and leaves the markers alone (`encLen _ .none = 0`) -/
theorem uint_encoded_length_none (t : Int) (fl : Option Int) (nm : String) (m : Dict) :
    Gen.TlvModelFields.UintField_encoded_length t fl nm none m = .ok (0, m) := rfl

/-- a negative int is `TypeError` (as every value that is not a legal uint is in the model) -/
theorem uint_encoded_length_neg (t : Int) (fl : Option Int) (nm : String) (m : Dict) (v : Int) (hv : v < 0) :
    Gen.TlvModelFields.UintField_encoded_length t fl nm (some v) m = .error .typeError := by
  simp only [Gen.TlvModelFields.UintField_encoded_length]
  rw [if_pos hv]

theorem blit_at_append (pre rest bs : Bytes) (h : bs.length ≤ rest.length) :
    blit (pre ++ rest) pre.length bs = .ok (pre ++ bs ++ rest.drop bs.length) := by
  rw [blit_ok _ _ _ (by simp; omega)]
  simp [List.take_append, List.drop_append]

theorem split_at (wire : Bytes) (off : Nat) (h : off ≤ wire.length) :
    ∃ pre rest, wire = pre ++ rest ∧ pre.length = off :=
  ⟨wire.take off, wire.drop off, (List.take_append_drop off wire).symm, by simp [List.length_take]; omega⟩

theorem writeTlNumInto_at (pre rest : Bytes) (v : Nat) (hv : v < 2 ^ 64) (hr : tlNumSize v ≤ rest.length) :
    writeTlNumInto v (pre ++ rest) pre.length = .ok (pre ++ writeTlNum v ++ rest.drop (tlNumSize v), tlNumSize v) := by
  unfold writeTlNumInto
  rw [if_pos hv, blit_at_append _ _ _ (by rw [writeTlNum_length]; exact hr), writeTlNum_length]
  rfl

theorem packInto_at (ws : List Nat) (vs : List Int) (bs pre rest : Bytes) (x : Int) (hx : x = (pre.length : Int))
    (hp : pack ws vs = .ok bs) (hoff : pre.length < 2 ^ 63) (h : bs.length ≤ rest.length) :
    packInto ws vs (pre ++ rest) x = .ok (pre ++ bs ++ rest.drop bs.length) := by
  subst hx
  rw [packInto_nat _ _ _ _ hoff, hp]
  exact blit_at_append pre rest bs h


theorem enc_uint_ok {t v : Nat} {fl : Option Nat} {bs : Bytes} (h : enc (.uint t fl) (.uint v) = .ok bs) :
    v < 256 ^ uintWidth fl v ∧ t < 2 ^ 64 ∧ bs = tlv t (beN (uintWidth fl v) v) := by
  simp only [enc] at h
  split at h
  · cases h
  · rename_i hv
    have := tlvE_ok h
    exact ⟨by omega, this.2.1, this.1⟩

theorem uint_body (w v : Nat) (hw : w = 1 ∨ w = 2 ∨ w = 4 ∨ w = 8) (hv : v < 256 ^ w) :
    pack [1, w] [((w : Nat) : Int), (v : Int)] = .ok (writeTlNum (beN w v).length ++ beN w v) := by
  rcases hw with h | h | h | h <;> subst h
  · rw [pack_marker _ 1 1 v (by omega) (by decide) rfl, if_pos hv]; rfl
  · rw [pack_marker _ 2 2 v (by omega) (by decide) rfl, if_pos hv]; rfl
  · rw [pack_marker _ 4 4 v (by omega) (by decide) rfl, if_pos hv, beBytes_four]; rfl
  · rw [pack_marker _ 8 8 v (by omega) (by decide) rfl, if_pos hv, beBytes_eight]; rfl

/-- **UintField.encode_into**, every Type, value, legal `fixed_len`, buffer and offset: given the width `encoded_length`
    recorded, the translated source writes exactly the bytes `Codec.enc (.uint t fl) (.uint v)` - Type, a one-byte Length,
    the value big-endian in that width - at `offset`, leaves the rest of the buffer alone and returns their number. -/
theorem uint_encode_into_eq (t v : Nat) (fl : Option Nat) (hfl : wfS (.uint t fl) = true) (nm : String) (m : Dict)
    (wire bs : Bytes) (off : Nat)
    (hm : dictGet m (nm ++ "##encoded_length") = .ok ((uintWidth fl v : Nat) : Int))
    (henc : enc (.uint t fl) (.uint v) = .ok bs) (hoff : off + bs.length < 2 ^ 63) (hfit : off + bs.length ≤ wire.length) :
    Gen.TlvModelFields.UintField_encode_into t nm (some (v : Int)) m wire off
      = .ok (((bs.length : Nat) : Int), wire.take off ++ bs ++ wire.drop (off + bs.length)) := by
  obtain ⟨hv, ht, rfl⟩ := enc_uint_ok henc
  have hw := uintWidth_legal (t := t) fl v hfl
  have hbl := beN_length (uintWidth fl v) v hw
  have hlen := tlv_length t (beN (uintWidth fl v) v)
  rw [hbl] at hlen
  have hs1 : tlNumSize (uintWidth fl v) = 1 := by unfold tlNumSize; rw [if_pos (by omega)]
  rw [hs1] at hlen
  obtain ⟨pre, rest, rfl, hpre⟩ := split_at wire off (by omega)
  subst hpre
  simp only [Gen.TlvModelFields.UintField_encode_into, get_tl_num_size_eq, ok_bind, hm]
  have s1 := tlNumSize_cases t
  have w1 := writeTlNumInto_at pre rest t ht (by simp only [List.length_append] at hfit; omega)
  rw [write_tl_num_ok _ _ rfl rfl (by omega) w1]
  simp only [ok_bind]
  have hbody := uint_body (uintWidth fl v) v hw hv
  have hfit' : tlNumSize t + 1 + uintWidth fl v ≤ rest.length := by
    simp only [List.length_append] at hfit; omega
  generalize uintWidth fl v = w at *
  have hpk : ∀ (mk x : Int), mk = ((w : Nat) : Int) → x = ((pre.length : Nat) : Int) + ((tlNumSize t : Nat) : Int) →
      packInto [1, w] [mk, (v : Int)] (pre ++ writeTlNum t ++ List.drop (tlNumSize t) rest) x
        = .ok (pre ++ writeTlNum t ++ (writeTlNum (beN w v).length ++ beN w v)
            ++ (List.drop (tlNumSize t) rest).drop (writeTlNum (beN w v).length ++ beN w v).length) := by
    intro mk x hmk hx
    subst hmk
    exact packInto_at _ _ _ (pre ++ writeTlNum t) _ x (by simp [writeTlNum_length, hx]) hbody
      (by simp [writeTlNum_length]; omega) (by simp [writeTlNum_length, hbl, hs1]; omega)
  have hres : pre ++ writeTlNum t ++ (writeTlNum (beN w v).length ++ beN w v)
            ++ (List.drop (tlNumSize t) rest).drop (writeTlNum (beN w v).length ++ beN w v).length
      = List.take pre.length (pre ++ rest) ++ tlv t (beN w v)
          ++ List.drop (pre.length + (tlv t (beN w v)).length) (pre ++ rest) := by
    simp [tlv, writeTlNum_length, hbl, hs1, List.drop_drop, List.take_append, List.drop_append]
  rcases hw with h | h | h | h <;> subst h
  all_goals
    simp (disch := omega) only [if_pos, if_neg]
    first
      | rw [hpk 1 _ rfl rfl, ← hres]
      | rw [hpk 2 _ rfl rfl, ← hres]
      | rw [hpk 4 _ rfl rfl, ← hres]
      | rw [hpk 8 _ rfl rfl, ← hres]
    simp only [ok_bind]
    rw [hlen]
    simp only [pure, Except.pure, Except.ok.injEq, Prod.mk.injEq, and_true]
    omega


theorem uint_encode_into_none (t : Int) (nm : String) (m : Dict) (wire : Bytes) (off : Int) :
    Gen.TlvModelFields.UintField_encode_into t nm none m wire off = .ok (0, wire) := rfl

theorem dictGet_dictSet (m : Dict) (k : String) (v : Int) : dictGet (dictSet m k v) k = .ok v := by
  induction m with
  | nil => simp [dictSet, dictGet]
  | cons p r ih =>
    obtain ⟨k', v'⟩ := p
    unfold dictSet
    by_cases h : (k' == k) = true
    · simp [h, dictGet]
    · have h' : (k' == k) = false := by simpa using h
      rw [if_neg h]
      unfold dictGet at ih ⊢
      rw [List.find?_cons]
      simp only [h']
      exact ih

/-- the two passes together: `encoded_length` followed by `encode_into` with the markers it left -/
theorem uint_two_pass (t v : Nat) (fl : Option Nat) (hfl : wfS (.uint t fl) = true) (nm : String) (m : Dict)
    (wire bs : Bytes) (off : Nat) (henc : enc (.uint t fl) (.uint v) = .ok bs)
    (hoff : off + bs.length < 2 ^ 63) (hfit : off + bs.length ≤ wire.length) :
    ∃ m', Gen.TlvModelFields.UintField_encoded_length t (fl.map fun w => ((w : Nat) : Int)) nm (some (v : Int)) m
        = .ok (((bs.length : Nat) : Int), m') ∧
      Gen.TlvModelFields.UintField_encode_into t nm (some (v : Int)) m' wire off
        = .ok (((bs.length : Nat) : Int), wire.take off ++ bs ++ wire.drop (off + bs.length)) := by
  obtain ⟨hv, ht, hbs⟩ := enc_uint_ok henc
  have hw := uintWidth_legal (t := t) fl v hfl
  refine ⟨dictSet m (nm ++ "##encoded_length") ((uintWidth fl v : Nat) : Int), ?_, ?_⟩
  · rw [uint_encoded_length_eq]
    have e : encLen (.uint t fl) (.uint v) = .ok (tlNumSize t + 1 + uintWidth fl v) := by
      simp only [encLen]; rw [if_neg (by omega)]
    rw [e, hbs, tlv_length, beN_length _ _ hw]
    have hs1 : tlNumSize (uintWidth fl v) = 1 := by unfold tlNumSize; rw [if_pos (by omega)]
    rw [hs1]
  · exact uint_encode_into_eq t v fl hfl nm _ wire bs off (dictGet_dictSet _ _ _) henc hoff hfit


/-- what a Python value of a BoolField stands for in the codec model: only `True` is encoded -/
def boolValue (b : Option Bool) : Value := if b = some true then .bool else .none

/-- **BoolField.encoded_length**: `Codec.encLen (.bool t)` - Type + a zero Length for `True`, nothing for `None` / `False`. -/
theorem bool_encoded_length_eq (t : Nat) (b : Option Bool) (m : Dict) :
    Gen.TlvModelFields.BoolField_encoded_length t b m
      = match encLen (.bool t) (boolValue b) with
        | .ok n => .ok ((n : Nat) : Int)
        | .error e => .error e := by
  simp only [Gen.TlvModelFields.BoolField_encoded_length, get_tl_num_size_eq, ok_bind]
  -- the three values of `b`: None, True, False (the test of the source is decided in each, however it is spelled)
  rcases b with _ | _ | _
  all_goals
    simp [boolValue, encLen, pure, Except.pure]
    try omega

theorem setItem_at (pre rest : Bytes) (x : Int) (hx : x = (pre.length : Int)) (v : Nat) (hr : 0 < rest.length) :
    setItem (pre ++ rest) x v = .ok (pre ++ [UInt8.ofNat v] ++ rest.drop 1) := by
  subst hx
  unfold setItem
  have c : ¬ (((pre.length : Nat) : Int) < 0) := by omega
  have c2 : ¬ (False ∨ (((pre ++ rest).length : Nat) : Int) ≤ ((pre.length : Nat) : Int)) := by
    intro h
    rcases h with h | h
    · exact h
    · rw [List.length_append] at h; omega
  simp only [c, if_false]
  rw [if_neg c2, Int.toNat_natCast]
  cases rest with
  | nil => simp at hr
  | cons a r => simp [List.set_append]

/-- **BoolField.encode_into** for `True`: the bytes of `Codec.enc (.bool t) .bool` at `offset`. -/
theorem bool_encode_into_eq (t : Nat) (m : Dict) (wire bs : Bytes) (off : Nat)
    (henc : enc (.bool t) .bool = .ok bs) (hoff : off + bs.length < 2 ^ 63) (hfit : off + bs.length ≤ wire.length) :
    Gen.TlvModelFields.BoolField_encode_into t (some true) m wire off
      = .ok (((bs.length : Nat) : Int), wire.take off ++ bs ++ wire.drop (off + bs.length)) := by
  simp only [enc] at henc
  obtain ⟨rfl, ht, _⟩ := tlvE_ok henc
  have hlen := tlv_length t []
  have hs0 : tlNumSize 0 = 1 := rfl
  simp only [List.length_nil, hs0, Nat.add_zero] at hlen
  obtain ⟨pre, rest, rfl, hpre⟩ := split_at wire off (by omega)
  subst hpre
  have hr : tlNumSize t + 1 ≤ rest.length := by simp only [List.length_append] at hfit; omega
  simp only [Gen.TlvModelFields.BoolField_encode_into, get_tl_num_size_eq, ok_bind, if_true]
  have w1 := writeTlNumInto_at pre rest t ht (by omega)
  rw [write_tl_num_ok _ _ rfl rfl (by omega) w1]
  simp only [ok_bind]
  rw [setItem_at (pre ++ writeTlNum t) _ _ (by simp [writeTlNum_length]) 0 (by simp; omega)]
  simp only [ok_bind, hlen]
  simp only [pure, Except.pure, Except.ok.injEq, Prod.mk.injEq]
  refine ⟨by omega, ?_⟩
  simp [tlv, writeTlNum, be1, List.take_append, List.drop_append, List.drop_drop]

theorem bool_encode_into_absent (t : Int) (b : Option Bool) (hb : b ≠ some true) (m : Dict) (wire : Bytes) (off : Int) :
    Gen.TlvModelFields.BoolField_encode_into t b m wire off = .ok (0, wire) := by
  simp only [Gen.TlvModelFields.BoolField_encode_into]
  rw [if_neg hb]; rfl

/-- **BytesField.encoded_length** on a byte string: `Codec.encLen (.bytes t _) (.bytes b)`. -/
theorem bytes_encoded_length_eq (t : Nat) (isStr : Bool) (b : Bytes) (m : Dict) :
    Gen.TlvModelFields.BytesField_encoded_length_bytes t (some b) m
      = match encLen (.bytes t isStr) (.bytes b) with
        | .ok n => .ok ((n : Nat) : Int)
        | .error e => .error e := by
  have hl : Py.len b = ((b.length : Nat) : Int) := rfl
  simp only [Gen.TlvModelFields.BytesField_encoded_length_bytes, hl, get_tl_num_size_eq, ok_bind, encLen]
  show Except.ok _ = Except.ok _
  simp only [Except.ok.injEq]; omega

/-- **BytesField.encoded_length** on text: the same with the UTF-8 encoding of the text (not its number of characters). -/
theorem str_encoded_length_eq (t : Nat) (s : Py.Str) (m : Dict) :
    Gen.TlvModelFields.BytesField_encoded_length_str t (some s) m
      = match encLen (.bytes t true) (.bytes s.utf8) with
        | .ok n => .ok ((n : Nat) : Int)
        | .error e => .error e := by
  have hl : Py.len (strEncodeUtf8 s) = ((s.utf8.length : Nat) : Int) := rfl
  simp only [Gen.TlvModelFields.BytesField_encoded_length_str, hl, get_tl_num_size_eq, ok_bind, encLen]
  show Except.ok _ = Except.ok _
  simp only [Except.ok.injEq]; omega

theorem setSliceSameSize_at (pre rest v : Bytes) (x y : Int) (hx : x = (pre.length : Int))
    (hy : y = ((pre.length + v.length : Nat) : Int)) (hr : v.length ≤ rest.length) :
    setSliceSameSize (pre ++ rest) x y v = .ok (pre ++ v ++ rest.drop v.length) := by
  subst hx hy
  unfold setSliceSameSize
  rw [normIdx_nonneg _ _ (by omega), normIdx_nonneg _ _ (by omega)]
  have e1 : min ((pre.length : Int)).toNat (pre ++ rest).length = pre.length := by
    simp only [List.length_append, Int.toNat_natCast]; omega
  have e2 : min (((pre.length + v.length : Nat) : Int)).toNat (pre ++ rest).length = pre.length + v.length := by
    simp only [List.length_append, Int.toNat_natCast]; omega
  simp only [e1, e2]
  rw [Nat.max_eq_right (by omega), if_pos (by omega), List.take_left' rfl]
  simp [List.drop_append]

theorem bytes_encode_into_core (t : Nat) (b : Bytes) (wire bs : Bytes) (off : Nat)
    (henc : tlvE t b = .ok bs) (hoff : off + bs.length < 2 ^ 63) (hfit : off + bs.length ≤ wire.length) :
    ∀ (m : Dict), Gen.TlvModelFields.BytesField_encode_into_bytes t (some b) m wire off
      = .ok (((bs.length : Nat) : Int), wire.take off ++ bs ++ wire.drop (off + bs.length)) := by
  intro m
  obtain ⟨rfl, ht, hb⟩ := tlvE_ok henc
  have hlen := tlv_length t b
  obtain ⟨pre, rest, rfl, hpre⟩ := split_at wire off (by omega)
  subst hpre
  have hr : tlNumSize t + tlNumSize b.length + b.length ≤ rest.length := by
    simp only [List.length_append] at hfit; omega
  have hl : Py.len b = ((b.length : Nat) : Int) := rfl
  simp only [Gen.TlvModelFields.BytesField_encode_into_bytes, hl]
  have w1 := writeTlNumInto_at pre rest t ht (by omega)
  rw [write_tl_num_ok _ _ rfl rfl (by omega) w1]
  simp only [ok_bind]
  have w2 := writeTlNumInto_at (pre ++ writeTlNum t) (rest.drop (tlNumSize t)) b.length hb (by simp; omega)
  rw [write_tl_num_ok _ _ rfl (by simp [writeTlNum_length]) (by simp [writeTlNum_length]; omega) w2]
  simp only [ok_bind]
  rw [setSliceSameSize_at (pre ++ writeTlNum t ++ writeTlNum b.length) _ b _ _
    (by simp [writeTlNum_length]; omega) (by simp [writeTlNum_length]; omega) (by simp; omega)]
  simp only [ok_bind, hlen]
  simp only [pure, Except.pure, Except.ok.injEq, Prod.mk.injEq]
  refine ⟨by omega, ?_⟩
  simp [tlv, List.take_append, List.drop_append, List.drop_drop, writeTlNum_length]

/-- **BytesField.encode_into** on a byte string: the bytes of `Codec.enc (.bytes t _) (.bytes b)` at `offset`. -/
theorem bytes_encode_into_eq (t : Nat) (isStr : Bool) (b : Bytes) (m : Dict) (wire bs : Bytes) (off : Nat)
    (henc : enc (.bytes t isStr) (.bytes b) = .ok bs) (hoff : off + bs.length < 2 ^ 63)
    (hfit : off + bs.length ≤ wire.length) :
    Gen.TlvModelFields.BytesField_encode_into_bytes t (some b) m wire off
      = .ok (((bs.length : Nat) : Int), wire.take off ++ bs ++ wire.drop (off + bs.length)) := by
  simp only [enc] at henc
  exact bytes_encode_into_core t b wire bs off henc hoff hfit m

/-- **BytesField.encode_into** on text: the same with its UTF-8 encoding. -/
theorem str_encode_into_eq (t : Nat) (s : Py.Str) (m : Dict) (wire bs : Bytes) (off : Nat)
    (henc : enc (.bytes t true) (.bytes s.utf8) = .ok bs) (hoff : off + bs.length < 2 ^ 63)
    (hfit : off + bs.length ≤ wire.length) :
    Gen.TlvModelFields.BytesField_encode_into_str t (some s) m wire off
      = .ok (((bs.length : Nat) : Int), wire.take off ++ bs ++ wire.drop (off + bs.length)) := by
  have e : Gen.TlvModelFields.BytesField_encode_into_str t (some s) m wire off
      = Gen.TlvModelFields.BytesField_encode_into_bytes t (some s.utf8) m wire off := rfl
  rw [e]
  exact bytes_encode_into_eq t true s.utf8 m wire bs off henc hoff hfit

theorem bytes_encode_into_none (t : Int) (m : Dict) (wire : Bytes) (off : Int) :
    Gen.TlvModelFields.BytesField_encode_into_bytes t none m wire off = .ok (0, wire) ∧
    Gen.TlvModelFields.BytesField_encode_into_str t none m wire off = .ok (0, wire) ∧
    Gen.TlvModelFields.BytesField_encoded_length_bytes t none m = .ok 0 ∧
    Gen.TlvModelFields.BytesField_encoded_length_str t none m = .ok 0 := ⟨rfl, rfl, rfl, rfl⟩


/-! ### the translated methods run -/
example : Gen.TlvModelFields.UintField_encoded_length 129 none "x" (some 300) [] = .ok (4, [("x##encoded_length", 2)]) := by
  decide +kernel
example : Gen.TlvModelFields.UintField_encode_into 129 "x" (some 300) [("x##encoded_length", 2)] [9, 9, 9, 9, 9] 1
    = .ok (4, [9, 129, 2, 1, 44]) := by decide +kernel
example : Gen.TlvModelFields.BoolField_encode_into 253 (some true) [] [9, 9, 9, 9, 9] 1 = .ok (4, [9, 253, 0, 253, 0]) := by
  decide +kernel
example : Gen.TlvModelFields.BytesField_encode_into_bytes 8 (some [7, 7]) [] [9, 9, 9, 9, 9] 1 = .ok (4, [9, 8, 2, 7, 7]) := by
  decide +kernel

end Ndn.TlvModelGen
