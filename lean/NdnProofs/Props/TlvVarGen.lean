import NdnGen.TlvVar
import NdnProofs.Lemmas.PySem
/-!
  The pure helpers of `src/ndn/encoding/tlv_var.py`, TRANSLATED from the source text on every run
  (`harness/py2lean.py` -> `lean/NdnGen/TlvVar.lean`), are equal - for ALL inputs - to the hand-written model functions
  the theorems of C01 / C07 / C08 / C09 are about (`NdnModel/TlNum.lean`, `NdnModel/Shrink.lean`).

  Python ints are `Int` in the translation; the models are over `Nat`, so every statement quantifies over the
  non-negative arguments the library passes (Type numbers, lengths, offsets).  An edit of the source that changes what
  a helper computes changes the generated definition and the equality stops checking; an edit that leaves the subset
  of the translator makes the generated definition disappear (`<fn>_translated = false`).

  The proofs decide the branch conditions with `omega` rather than by matching their spelling, so re-spelling a
  comparison (`val < 253` for `val <= 0xFC`) or re-nesting a ladder does not disturb them.
-/
set_option linter.unusedSimpArgs false
namespace Ndn.TlvVarGen
open Ndn Ndn.Py

/-- every helper asked for was inside the translated subset -/
theorem all_translated :
    Gen.TlvVar.get_tl_num_size_translated = true ∧ Gen.TlvVar.write_tl_num_translated = true ∧
    Gen.TlvVar.pack_uint_bytes_translated = true ∧ Gen.TlvVar.parse_tl_num_translated = true ∧
    Gen.TlvVar.parse_and_check_tl_translated = true ∧ Gen.TlvVar.shrink_length_translated = true := by decide

theorem ok_bind {α β} (x : α) (f : α → Except PyErr β) : (Except.ok x >>= f) = f x := rfl

/-- **get_tl_num_size**, every `val ≥ 0`: the translated source returns `Ndn.tlNumSize val` (and never raises). -/
theorem get_tl_num_size_eq (v : Nat) : Gen.TlvVar.get_tl_num_size v = .ok ((tlNumSize v : Nat) : Int) := by
  simp only [Gen.TlvVar.get_tl_num_size, tlNumSize]
  repeat' split
  all_goals (first | rfl | omega | (simp; omega))

theorem pack_one (w v : Nat) :
    pack [w] [(v : Int)] = if v < 256 ^ w then .ok (beBytes w v) else .error .structError := by
  simp only [pack, packField_nat]
  by_cases h : v < 256 ^ w <;> simp [h]

/-- **pack_uint_bytes**, every `val ≥ 0`: the translated source returns exactly `Ndn.packUint val` when `val < 2^64`,
    and raises `struct.error` otherwise (the `!Q` field). -/
theorem pack_uint_bytes_eq (v : Nat) :
    Gen.TlvVar.pack_uint_bytes v = if v < 2 ^ 64 then .ok (packUint v) else .error .structError := by
  simp only [Gen.TlvVar.pack_uint_bytes, packUint, pack_one, beBytes_one, beBytes_two, beBytes_four, beBytes_eight]
  repeat' split
  all_goals (first | rfl | omega | (simp at *; omega))


theorem packField_lit (w : Nat) (m : Int) (h : 0 ≤ m) :
    packField w m = if m.toNat < 256 ^ w then .ok (beBytes w m.toNat) else .error .structError := by
  have := packField_nat w m.toNat
  rwa [Int.toNat_of_nonneg h] at this

theorem pack_marker (m : Int) (b : UInt8) (w v : Nat) (hm : 0 ≤ m) (hm2 : m.toNat < 256) (hb : UInt8.ofNat m.toNat = b) :
    pack [1, w] [m, (v : Int)]
      = if v < 256 ^ w then .ok (b :: beBytes w v) else .error .structError := by
  subst hb
  simp only [pack, packField_lit 1 m hm, packField_nat]
  have : m.toNat < 256 ^ 1 := by simpa using hm2
  by_cases h : v < 256 ^ w <;> simp [h, this, beBytes]

def swapCast (p : Bytes × Nat) : Int × Bytes := ((p.2 : Int), p.1)

/-- **write_tl_num**, every value `≥ 0`, every buffer, every offset `0 ≤ off < 2^63` (beyond that CPython raises
    `IndexError` before anything else): the translated source is `Ndn.writeTlNumInto` - the returned size is
    `tlNumSize v`, the buffer afterwards is the old one with `writeTlNum v` written at `off`; `struct.error` when the
    number does not fit (`off + size > len(buf)`) or `v ≥ 2^64`. -/
theorem write_tl_num_eq (v : Nat) (buf : Bytes) (off : Nat) (hoff : off < 2 ^ 63) :
    Gen.TlvVar.write_tl_num v buf off = (writeTlNumInto v buf off).map swapCast := by
  simp only [Gen.TlvVar.write_tl_num, writeTlNumInto, writeTlNum, tlNumSize, packInto_nat _ _ _ _ hoff]
  have m1 := pack_marker 253 253 2 v (by omega) (by decide) rfl
  have m2 := pack_marker 254 254 4 v (by omega) (by decide) rfl
  have m3 := pack_marker 255 255 8 v (by omega) (by decide) rfl
  simp only [pack_one, m1, m2, m3, beBytes_one, beBytes_two, beBytes_four, beBytes_eight]
  rcases (by omega : v ≤ 252 ∨ (252 < v ∧ v ≤ 65535) ∨ (65535 < v ∧ v ≤ 4294967295) ∨
      (4294967295 < v ∧ v < 2 ^ 64) ∨ 2 ^ 64 ≤ v) with h | h | h | h | h
  all_goals
    simp (disch := omega) only [if_pos, if_neg]
    first
      | rfl
      | (cases blit buf off _ <;> rfl)
      | trace_state

/-- **write_tl_num** of a negative value raises `struct.error` (the `!B` field), whatever the buffer. -/
theorem write_tl_num_neg (v : Int) (hv : v < 0) (buf : Bytes) (off : Nat) (hoff : off < 2 ^ 63) :
    Gen.TlvVar.write_tl_num v buf off = .error .structError := by
  simp only [Gen.TlvVar.write_tl_num, packInto_nat _ _ _ _ hoff, pack, packField_neg _ v hv]
  simp (disch := omega) only [if_pos, if_neg]
  rfl

def castPair (p : Nat × Nat) : Int × Int := ((p.1 : Int), (p.2 : Int))

theorem error_bind {α β} (e : PyErr) (f : α → Except PyErr β) : ((Except.error e : Except PyErr α) >>= f) = .error e := rfl

theorem unpack_slice_bind {β} (buf : Bytes) (a n : Nat) (x y : Int) (hx : x = (a : Int)) (hy : y = ((a + n : Nat) : Int))
    (f : List Int → Except PyErr β) :
    (unpack [n] (slice buf x y) >>= f) = (unpackAt buf a n >>= fun v => f [((v : Nat) : Int)]) := by
  subst hx hy
  rw [slice_nonneg _ _ _ (by omega) (by omega), unpack_one]
  simp only [unpackAt, Int.toNat_natCast]
  split <;> rfl

/-- **parse_tl_num**, every buffer, every offset `≥ 0`: the translated source is `Ndn.parseTlNum` (value and size read;
    `IndexError` outside the buffer, `struct.error` on a short tail). -/
theorem parse_tl_num_eq (buf : Bytes) (off : Nat) :
    Gen.TlvVar.parse_tl_num buf off = (parseTlNum buf off).map castPair := by
  simp only [Gen.TlvVar.parse_tl_num, parseTlNum, bytesGet_nat]
  cases hb : buf[off]? with
  | none => rfl
  | some b =>
    simp only [ok_bind]
    rw [unpack_slice_bind buf (off + 1) 2 _ _ (by omega) (by omega),
      unpack_slice_bind buf (off + 1) 4 _ _ (by omega) (by omega),
      unpack_slice_bind buf (off + 1) 8 _ _ (by omega) (by omega)]
    have hlt := b.toNat_lt
    rcases (by omega : b.toNat ≤ 252 ∨ b.toNat = 253 ∨ b.toNat = 254 ∨ b.toNat = 255) with h | h | h | h
    all_goals
      simp (disch := omega) only [if_pos, if_neg]
      first
        | rfl
        | (cases unpackAt buf (off + 1) _ <;> rfl)
        | trace_state

theorem parse_tl_num_ok {buf : Bytes} {off v n : Nat} (x : Int) (hx : x = (off : Int))
    (h : parseTlNum buf off = .ok (v, n)) : Gen.TlvVar.parse_tl_num buf x = .ok ((v : Int), (n : Int)) := by
  subst hx; rw [parse_tl_num_eq, h]; rfl

theorem parse_tl_num_error {buf : Bytes} {off : Nat} {e : PyErr} (x : Int) (hx : x = (off : Int))
    (h : parseTlNum buf off = .error e) : Gen.TlvVar.parse_tl_num buf x = .error e := by
  subst hx; rw [parse_tl_num_eq, h]; rfl

theorem slice_nat {α} (l : List α) (a b : Nat) (x y : Int) (hx : x = (a : Int)) (hy : y = (b : Int)) :
    slice l x y = pySlice l a b := by
  subst hx hy; rw [slice_nonneg _ _ _ (by omega) (by omega)]; simp

/-- **parse_and_check_tl**, every buffer and expected Type `≥ 0`: the translated source is `Ndn.parseAndCheckTl`. -/
theorem parse_and_check_tl_eq (wire : Bytes) (t : Nat) :
    Gen.TlvVar.parse_and_check_tl wire t = parseAndCheckTl wire t := by
  simp only [Gen.TlvVar.parse_and_check_tl, parseAndCheckTl]
  cases h1 : parseTlNum wire 0 with
  | error e => rw [parse_tl_num_error 0 rfl h1]; rfl
  | ok p1 =>
    obtain ⟨typ, tl⟩ := p1
    rw [parse_tl_num_ok 0 rfl h1]
    simp only [ok_bind]
    cases h2 : parseTlNum wire tl with
    | error e => rw [parse_tl_num_error _ rfl h2]; rfl
    | ok p2 =>
      obtain ⟨size, sl⟩ := p2
      rw [parse_tl_num_ok _ rfl h2]
      simp only [ok_bind]
      have hl : Py.len wire = (wire.length : Int) := rfl
      rw [slice_nat wire (tl + sl) (tl + sl + size) _ _ (by omega) (by omega)]
      by_cases c1 : typ = t <;> by_cases c2 : wire.length = tl + sl + size <;>
        simp (disch := omega) only [if_pos, if_neg] <;> try rfl
theorem write_tl_num_ok {v : Nat} {buf b : Bytes} {off n : Nat} (x y : Int) (hx : x = (v : Int)) (hy : y = (off : Int))
    (hoff : off < 2 ^ 63) (h : writeTlNumInto v buf off = .ok (b, n)) :
    Gen.TlvVar.write_tl_num x buf y = .ok ((n : Int), b) := by
  subst hx hy; rw [write_tl_num_eq _ _ _ hoff, h]; rfl

theorem write_tl_num_error {v : Nat} {buf : Bytes} {off : Nat} {e : PyErr} (x y : Int) (hx : x = (v : Int))
    (hy : y = (off : Int)) (hoff : off < 2 ^ 63) (h : writeTlNumInto v buf off = .error e) :
    Gen.TlvVar.write_tl_num x buf y = .error e := by
  subst hx hy; rw [write_tl_num_eq _ _ _ hoff, h]; rfl

/-- **shrink_length**, every buffer and every `val ≥ 0`: what the translated source returns (the view) is
    `Ndn.shrinkLength wire val`, error classes included; the writes through the memoryview are list updates. -/
theorem shrink_length_eq (wire : Bytes) (val : Nat) :
    (Gen.TlvVar.shrink_length wire val).map Prod.fst = shrinkLength wire val := by
  simp only [Gen.TlvVar.shrink_length, shrinkLength]
  cases h1 : parseTlNum wire 0 with
  | error e => rw [parse_tl_num_error 0 rfl h1]; rfl
  | ok p1 =>
    obtain ⟨typ, tl⟩ := p1
    rw [parse_tl_num_ok 0 rfl h1]
    simp only [ok_bind]
    cases h2 : parseTlNum wire tl with
    | error e => rw [parse_tl_num_error _ rfl h2]; rfl
    | ok p2 =>
      obtain ⟨size, sl⟩ := p2
      rw [parse_tl_num_ok _ rfl h2]
      simp only [ok_bind]
      have b1 := parseTlNum_size_ge h1
      have b2 := parseTlNum_size_ge h2
      have t64 : typ < 2 ^ 64 := by have := parseTlNum_bounds h1; omega
      by_cases hneg : size < val
      · rw [write_tl_num_neg _ (by omega) _ tl (by omega), if_pos hneg]; rfl
      · rw [if_neg hneg]
        cases h3 : writeTlNumInto (size - val) wire tl with
        | error e => rw [write_tl_num_error _ _ (by omega) rfl (by omega) h3]; rfl
        | ok p3 =>
          obtain ⟨w1, nsl⟩ := p3
          rw [write_tl_num_ok _ _ (by omega) rfl (by omega) h3]
          simp only [ok_bind]
          have e3 := writeTlNumInto_size h3
          have m3 : tlNumSize (size - val) ≤ tlNumSize size := tlNumSize_mono (by omega)
          by_cases heq : nsl = sl
          · simp (disch := omega) only [if_pos, if_neg]
            rw [slice_negUpper w1 0 val 0 _ rfl rfl]; rfl
          · simp (disch := omega) only [if_pos, if_neg]
            cases h4 : writeTlNumInto typ w1 (sl - nsl) with
            | error e => rw [write_tl_num_error _ _ rfl (by omega) (by omega) h4]; rfl
            | ok p4 =>
              obtain ⟨w2, n4⟩ := p4
              rw [write_tl_num_ok _ _ rfl (by omega) (by omega) h4]
              simp only [ok_bind]
              cases h5 : writeTlNumInto (size - val) w2 (tl + (sl - nsl)) with
              | error e => rw [write_tl_num_error _ _ (by omega) (by omega) (by omega) h5]; rfl
              | ok p5 =>
                obtain ⟨w3, n5⟩ := p5
                rw [write_tl_num_ok _ _ (by omega) (by omega) (by omega) h5]
                simp only [ok_bind]
                rw [slice_negUpper w3 (sl - nsl) val _ _ (by omega) rfl]; rfl

/-! ### the translated definitions run (non-vacuity: concrete, non-trivial evaluations of the generated code) -/
deriving instance DecidableEq for Except
example : Gen.TlvVar.get_tl_num_size 65536 = .ok 5 := by decide +kernel
example : Gen.TlvVar.pack_uint_bytes 258 = .ok [1, 2] := by decide +kernel
example : Gen.TlvVar.parse_tl_num [7, 0xFD, 1, 0] 1 = .ok (256, 3) := by decide +kernel
example : Gen.TlvVar.write_tl_num 300 [9, 9, 9, 9, 9] 1 = .ok (3, [9, 0xFD, 1, 44, 9]) := by decide +kernel
example : Gen.TlvVar.write_tl_num 300 [9, 9, 9] 1 = .error .structError := by decide +kernel
/-- Length 253 (three bytes) shrunk by 1 becomes one byte: the Type moves right by two and the view starts there -/
example : (Gen.TlvVar.shrink_length ([6, 0xFD, 0, 3] ++ [1, 2, 3]) 1).map Prod.fst = .ok [6, 2, 1, 2] := by decide +kernel

end Ndn.TlvVarGen
