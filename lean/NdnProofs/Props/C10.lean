import NdnGen.C10
import NdnProofs.Lemmas.Lp
import NdnProofs.Lemmas.Receive
/-!
  # C10 — link-layer envelopes are transparent: Nack, PIT token and wrapped packets

  Specification-level notions (none mentions the implementation):
  * an envelope is `tlv LpPacket (headers ++ [Fragment p])`, headers being arbitrary elements
    (type, value) - known optional headers and unknown ones alike (`lpWrap`);
  * `HdrOk`: a header that is neither a fragmentation field, nor a Nack, nor a Fragment, and whose value
    has a legal shape *if* its type is one the format knows (a NonNegativeInteger has 1/2/4/8 bytes, …);
  * the envelope format itself (field order, type numbers, kinds) is the table generated from the live
    `LpPacketValue` class (lean/NdnGen/C10.lean); table facts are closed by `decide`.
  Interest / Data decoding is abstract (`int`, `data`), as in C06.
-/
namespace Ndn.C10
open Ndn Ndn.Recv Ndn.Lp

abbrev T : Table := Gen.C10.table

/-- an envelope around the network packet `p` with the given header elements -/
def lpWrap (hdrs : List (Nat × Bytes)) (p : Bytes) : Bytes :=
  tlv T.tLpPacket (wireOf (hdrs ++ [(T.tFragment, p)]))

/-- all numbers fit the 64-bit TL encoding -/
def Sized (hdrs : List (Nat × Bytes)) (p : Bytes) : Prop :=
  (∀ h ∈ hdrs, h.1 < 2^64 ∧ h.2.length < 2^64) ∧ p.length < 2^64 ∧
  (wireOf (hdrs ++ [(T.tFragment, p)])).length < 2^64

/-- legal shape of a value for a field kind -/
def WfFor (k : Kind) (v : Bytes) : Prop :=
  match k with
  | .flat .uint => v.length = 1 ∨ v.length = 2 ∨ v.length = 4 ∨ v.length = 8
  | .flat _ => True
  | .model sub ic => ∃ m, parseFlat sub ic T.lengthCheck v = .ok m

/-- an optional, non-fragmentation, non-Nack header (known or unknown type) -/
def HdrOk (h : Nat × Bytes) : Prop :=
  h.1 ≠ T.tFragment ∧ h.1 ≠ T.tFragIndex ∧ h.1 ≠ T.tFragCount ∧ h.1 ≠ T.tNack ∧
  ∀ k, (h.1, k) ∈ T.fields → WfFor k h.2

def Plain (t : Nat) : Prop := t ≠ T.tFragment ∧ t ≠ T.tFragIndex ∧ t ≠ T.tFragCount ∧ t ≠ T.tNack

/-! ### facts about the generated table (closed by evaluation) -/

theorem frag_last : ∀ pos, pos ≤ T.fields.length - 1 →
    findFrom T.fields pos T.tFragment = some (T.fields.length - 1, .flat .bytes) := by decide

theorem frag_at_last : T.fields[T.fields.length - 1]? = some (T.tFragment, .flat .bytes) := by decide

theorem token_kind : ∀ f ∈ T.fields, f.1 = T.tPitToken → f.2 = .flat .bytes := by decide

theorem token_first : findFrom T.fields 0 T.tPitToken = some (2, .flat .bytes) := by decide

theorem consts_distinct : T.tFragment ≠ T.tPitToken ∧ T.tFragment ≠ T.tNack ∧ T.tFragment ≠ T.tFragIndex ∧
    T.tFragment ≠ T.tFragCount ∧ T.tPitToken ≠ T.tNack ∧ T.tLpPacket < 2^64 ∧ T.tFragment < 2^64 ∧
    T.tPitToken < 2^64 ∧ T.tNack < 2^64 ∧ T.tNackReason < 2^64 ∧ T.tFragIndex ≠ T.tFragCount := by decide

theorem wf_parse (k : Kind) (v : Bytes) (h : WfFor k v) :
    ∃ x, parseVal T.lengthCheck k v v.length = .ok x ∧ (k = .flat .bytes → x = .flat (.bytes v)) := by
  cases k with
  | flat fk =>
    cases fk with
    | uint =>
      have h' : v.length = 1 ∨ v.length = 2 ∨ v.length = 4 ∨ v.length = 8 := h
      exact ⟨.flat (.uint (beVal (v.take v.length))), by simp [parseVal, parseFVal, h', Except.map], by simp⟩
    | bytes => exact ⟨.flat (.bytes v), by simp [parseVal, parseFVal, Except.map], fun _ => rfl⟩
    | bool => exact ⟨.flat .bool, by simp [parseVal, parseFVal, Except.map], by simp⟩
  | model sub ic =>
    obtain ⟨m, hm⟩ := h
    exact ⟨.model m, by simp [parseVal, hm, Except.map], by simp⟩

/-- element-level core: optional headers are collected or skipped, never rejected, and the Fragment is
    always found afterwards -/
theorem collect_headers (p : Bytes) (hdrs : List (Nat × Bytes)) (hok : ∀ h ∈ hdrs, HdrOk h) :
    ∀ pos acc, pos ≤ T.fields.length - 1 →
      ∃ ext, collect T.fields (parseVal T.lengthCheck) true (hdrs ++ [(T.tFragment, p)]) pos acc
          = .ok (acc ++ ext ++ [(T.tFragment, .flat (.bytes p))]) ∧
        (∀ e ∈ ext, Plain e.1) ∧
        (∀ e ∈ ext, e.1 = T.tPitToken → ∃ v, (T.tPitToken, v) ∈ hdrs ∧ e.2 = .flat (.bytes v)) := by
  induction hdrs with
  | nil =>
    intro pos acc hp
    refine ⟨[], ?_, by simp, by simp⟩
    simp only [List.nil_append, collect, frag_last pos hp, parseVal, parseFVal, Except.map, List.take_length,
      List.append_nil]
  | cons h hs ih =>
    intro pos acc hp
    obtain ⟨t, v⟩ := h
    have hh := hok (t, v) (by simp)
    have ih' := ih (fun h hm => hok h (List.mem_cons_of_mem _ hm))
    simp only [List.cons_append, collect]
    cases hf : findFrom T.fields pos t with
    | none =>
      simp only [Bool.not_true, Bool.and_false, Bool.false_eq_true, if_false]
      obtain ⟨ext, h1, h2, h3⟩ := ih' pos acc hp
      refine ⟨ext, h1, h2, ?_⟩
      intro e he ht
      obtain ⟨v', hv', hx⟩ := h3 e he ht
      exact ⟨v', List.mem_cons_of_mem _ hv', hx⟩
    | some ik =>
      obtain ⟨i, k⟩ := ik
      obtain ⟨hpi, hget⟩ := findFrom_spec _ _ _ _ _ hf
      have hmem : (t, k) ∈ T.fields := List.mem_of_getElem? hget
      obtain ⟨x, hx, hxb⟩ := wf_parse k v (hh.2.2.2.2 k hmem)
      have hilt : i < T.fields.length := by
        rcases Nat.lt_or_ge i T.fields.length with h | h
        · exact h
        · rw [List.getElem?_eq_none h] at hget; simp at hget
      have hine : i ≠ T.fields.length - 1 := by
        intro e
        rw [e, frag_at_last] at hget
        simp only [Option.some.injEq, Prod.mk.injEq] at hget
        exact hh.1 hget.1.symm
      simp only [hx]
      obtain ⟨ext, h1, h2, h3⟩ := ih' (i + 1) (acc ++ [(t, x)]) (by omega)
      refine ⟨(t, x) :: ext, by simp [h1], ?_, ?_⟩
      · intro e he
        simp only [List.mem_cons] at he
        rcases he with rfl | he
        · exact ⟨hh.1, hh.2.1, hh.2.2.1, hh.2.2.2.1⟩
        · exact h2 e he
      · intro e he ht
        simp only [List.mem_cons] at he
        rcases he with rfl | he
        · simp only at ht
          subst ht
          have hk := token_kind (T.tPitToken, k) hmem rfl
          exact ⟨v, by simp, hxb hk⟩
        · obtain ⟨v', hv', hx'⟩ := h3 e he ht
          exact ⟨v', List.mem_cons_of_mem _ hv', hx'⟩

/-- what the envelope decoder returns for an envelope of optional headers around `p`:
    no Nack, the Fragment `p` itself, and a PIT token that (if any) is the value of a PitToken header -/
theorem parseLp_wrapped (hdrs : List (Nat × Bytes)) (p : Bytes) (hs : Sized hdrs p) (hok : ∀ h ∈ hdrs, HdrOk h) :
    ∃ tok, parseLp T (lpWrap hdrs p) = .ok { nack := none, pitToken := tok, fragment := some p } ∧
      (∀ tk, tok = some tk → (T.tPitToken, tk) ∈ hdrs) ∧
      ((∀ h ∈ hdrs, h.1 ≠ T.tPitToken) → tok = none) ∧
      (∀ tk rest, hdrs = (T.tPitToken, tk) :: rest → tok = some tk) := by
  have hsz : ∀ e ∈ hdrs ++ [(T.tFragment, p)], e.1 < 2^64 ∧ e.2.length < 2^64 := by
    intro e he
    simp only [List.mem_append, List.mem_singleton] at he
    rcases he with he | rfl
    · exact hs.1 e he
    · exact ⟨consts_distinct.2.2.2.2.2.2.1, hs.2.1⟩
  obtain ⟨ext, hc, hplain, htok⟩ := collect_headers p hdrs hok 0 [] (Nat.zero_le _)
  have hnone : ∀ t, (t = T.tFragIndex ∨ t = T.tFragCount ∨ t = T.tNack) →
      lookup (([] : List (Nat × Val)) ++ ext ++ [(T.tFragment, Val.flat (.bytes p))]) t = none := by
    intro t ht
    apply lookup_none_of_not_mem
    intro e he
    simp only [List.nil_append, List.mem_append, List.mem_singleton] at he
    rcases he with he | rfl
    · have := hplain e he
      rcases ht with rfl | rfl | rfl
      · exact this.2.1
      · exact this.2.2.1
      · exact this.2.2.2
    · rcases ht with rfl | rfl | rfl
      · exact consts_distinct.2.2.1
      · exact consts_distinct.2.2.2.1
      · exact consts_distinct.2.1
  have hfrag : lookup (([] : List (Nat × Val)) ++ ext ++ [(T.tFragment, Val.flat (.bytes p))]) T.tFragment
      = some (.flat (.bytes p)) := by
    rw [List.nil_append, lookup_append_none _ _ _ (lookup_none_of_not_mem _ _ (fun e he => (hplain e he).1))]
    simp [lookup]
  refine ⟨bytesOf (lookup ext T.tPitToken), ?_, ?_, ?_, ?_⟩
  · unfold parseLp lpWrap
    rw [parseAndCheckTl_tlv _ _ consts_distinct.2.2.2.2.2.1 hs.2.2]
    simp only [bind, Except.bind]
    rw [parseValue_elems T _ hsz, hc]
    simp only [hnone _ (Or.inl rfl), hnone _ (Or.inr (Or.inl rfl)), hnone _ (Or.inr (Or.inr rfl)), hfrag,
      Option.isSome_none, Bool.or_self, Bool.false_eq_true, if_false, pure, Except.pure, nackOf, bytesOf]
    congr 2
    rw [List.nil_append]
    cases hl : lookup ext T.tPitToken with
    | some x => rw [lookup_append_left _ _ _ _ hl]
    | none =>
      rw [lookup_append_none _ _ _ hl]
      simp [lookup, consts_distinct.1, bytesOf]
  · intro tk htk
    cases hl : lookup ext T.tPitToken with
    | none => rw [hl] at htk; simp [bytesOf] at htk
    | some x =>
      have hmem : (T.tPitToken, x) ∈ ext := by
        clear htk hc hnone hfrag htok hplain
        induction ext with
        | nil => simp [lookup] at hl
        | cons e r ih =>
          obtain ⟨t', v'⟩ := e
          simp only [lookup] at hl
          split at hl
          · rename_i he; simp only [Option.some.injEq] at hl; subst hl; subst he; simp
          · exact List.mem_cons_of_mem _ (ih hl)
      obtain ⟨v, hv, hx⟩ := htok _ hmem rfl
      simp only at hx
      rw [hl, hx] at htk
      simp only [bytesOf, Option.some.injEq] at htk
      rw [← htk]; exact hv
  · intro hno
    have : lookup ext T.tPitToken = none := by
      apply lookup_none_of_not_mem
      intro e he heq
      obtain ⟨v, hv, _⟩ := htok e he heq
      exact hno _ hv rfl
    rw [this]; rfl
  · intro tk rest hr
    subst hr
    -- re-run the first step by hand: the PitToken header in first position is always recognised
    have hok' : ∀ h ∈ rest, HdrOk h := fun h hm => hok h (List.mem_cons_of_mem _ hm)
    obtain ⟨ext', hc', _, _⟩ := collect_headers p rest hok' 3 [(T.tPitToken, .flat (.bytes tk))] (by decide)
    have hc2 : collect T.fields (parseVal T.lengthCheck) true ((T.tPitToken, tk) :: rest ++ [(T.tFragment, p)]) 0 []
        = .ok ([(T.tPitToken, Val.flat (.bytes tk))] ++ ext' ++ [(T.tFragment, .flat (.bytes p))]) := by
      simp only [List.cons_append, collect, token_first, parseVal, parseFVal, Except.map, List.take_length,
        List.nil_append]
      exact hc'
    rw [hc2] at hc
    simp only [Except.ok.injEq, List.nil_append] at hc
    have : ext = [(T.tPitToken, Val.flat (.bytes tk))] ++ ext' := by
      have := List.append_cancel_right hc
      exact this.symm
    rw [this]
    simp [lookup, bytesOf]

/-! ## reception of envelopes -/

/-- forget the PIT token captured by handler invocations -/
def eraseEff : Effect → Effect
  | .invoke p _ => .invoke p none
  | e => e

def eraseRes : Except PyErr Res → Except PyErr Res
  | .ok (s, e) => .ok (s, e.map eraseEff)
  | .error x => .error x

theorem receive_lp_ok (g : Guards) (int : Bytes → Except PyErr IntFacts) (data : Bytes → Except PyErr DataFacts)
    (st : State) (w p : Bytes) (facts : LpFacts) (t n : Nat)
    (hlp : parseLp T w = .ok facts) (hf : facts.fragment = some p) (htl : parseTlNum p 0 = .ok (t, n)) :
    receive g (decoders T int data) st g.lpType w
      = receiveNet g (decoders T int data) st (nackReasonOf facts.nack) facts.pitToken t p := by
  simp [receive, guarded, decoders, hlp, hf, htl, Except.map]

theorem receiveNet_token_irrelevant (g : Guards) (Dc : Decoders) (st : State) (tok : Option Bytes)
    (t : Nat) (p : Bytes) :
    eraseRes (receiveNet g Dc st none tok t p) = eraseRes (receiveNet g Dc st none none t p) ∧
    (g.usesPitToken = false → receiveNet g Dc st none tok t p = receiveNet g Dc st none none t p) := by
  unfold receiveNet
  simp only
  split
  · cases Dc.interest p with
    | error e => exact ⟨rfl, fun _ => rfl⟩
    | ok i =>
      simp only [guarded]
      refine ⟨?_, fun h => by simp [h]⟩
      unfold onInterest
      cases longestPrefix st.fib i.name with
      | none => rfl
      | some pf =>
        simp only
        split
        · rfl
        · cases g.usesPitToken <;> simp [eraseRes, eraseEff]
  · exact ⟨rfl, fun _ => rfl⟩

/-- **lp_transparent.** For every network packet `p = tlv t v` (any type other than LpPacket, any value),
    every list of optional envelope headers - known ones with a legal value, unknown ones with any value,
    in any order and number - and every state of the tables: receiving the envelope does exactly what
    receiving `p` bare does, except that the PIT token of the envelope (if it has one) is what handler
    invocations capture for their reply.  The token is the value of a PitToken header of the envelope;
    it is absent when the envelope has no such header; it is that header's value when the header comes
    first (where forwarders put it).  The legacy front-end ignores the token, so there the two
    receptions are equal outright.  Holds for any `except` tuples (`g` arbitrary). -/
theorem lp_transparent (g : Guards) (hg : g.lpType = T.tLpPacket)
    (int : Bytes → Except PyErr IntFacts) (data : Bytes → Except PyErr DataFacts) (st : State)
    (hdrs : List (Nat × Bytes)) (t : Nat) (v : Bytes) (ht : t < 2^64) (hv : v.length < 2^64)
    (hs : Sized hdrs (tlv t v)) (hok : ∀ h ∈ hdrs, HdrOk h) (hne : t ≠ g.lpType) :
    ∃ tok,
      receive g (decoders T int data) st T.tLpPacket (lpWrap hdrs (tlv t v))
        = receiveNet g (decoders T int data) st none tok t (tlv t v) ∧
      receive g (decoders T int data) st t (tlv t v)
        = receiveNet g (decoders T int data) st none none t (tlv t v) ∧
      eraseRes (receive g (decoders T int data) st T.tLpPacket (lpWrap hdrs (tlv t v)))
        = eraseRes (receive g (decoders T int data) st t (tlv t v)) ∧
      (g.usesPitToken = false ∨ tok = none →
        receive g (decoders T int data) st T.tLpPacket (lpWrap hdrs (tlv t v))
          = receive g (decoders T int data) st t (tlv t v)) ∧
      (∀ tk, tok = some tk → (T.tPitToken, tk) ∈ hdrs) ∧
      ((∀ h ∈ hdrs, h.1 ≠ T.tPitToken) → tok = none) ∧
      (∀ tk rest, hdrs = (T.tPitToken, tk) :: rest → tok = some tk) := by
  rw [← hg]
  obtain ⟨tok, hp, h1, h2, h3⟩ := parseLp_wrapped hdrs (tlv t v) hs hok
  have htl : parseTlNum (tlv t v) 0 = .ok (t, tlNumSize t) := by
    unfold tlv; rw [List.append_assoc]; exact parse_write t _ ht
  have hw := receive_lp_ok g int data st _ _ _ t _ hp rfl htl
  have hb : receive g (decoders T int data) st t (tlv t v)
      = receiveNet g (decoders T int data) st none none t (tlv t v) := by
    simp [receive, hne]
  have hj : nackReasonOf (none : Option (Option Nat)) = none := rfl
  rw [hj] at hw
  refine ⟨tok, hw, hb, ?_, ?_, h1, h2, h3⟩
  · rw [hw, hb]; exact (receiveNet_token_irrelevant _ _ _ _ _ _).1
  · intro h
    rw [hw, hb]
    rcases h with h | h
    · exact (receiveNet_token_irrelevant _ _ _ _ _ _).2 h
    · rw [h]

/-- the hypotheses of `lp_transparent` are satisfiable by an envelope with a PIT token, a known uint header,
    a CachePolicy header and an unknown header around an Interest-typed packet -/
example : (∀ h ∈ [(98, [1, 2, 3, 4]), (812, [1, 44]), (820, [253, 3, 53, 1, 1]), (1001, [9, 9])], HdrOk h) ∧
    Sized [(98, [1, 2, 3, 4]), (812, [1, 44]), (820, [253, 3, 53, 1, 1]), (1001, [9, 9])] (tlv 5 [7, 0]) := by
  refine ⟨?_, ?_, by decide, by decide⟩
  · intro h hm
    simp only [List.mem_cons, List.not_mem_nil, or_false] at hm
    rcases hm with rfl | rfl | rfl | rfl
    all_goals refine ⟨by decide, by decide, by decide, by decide, ?_⟩
    all_goals intro k hk
    all_goals simp only [T, Gen.C10.table, List.mem_cons, Prod.mk.injEq, List.not_mem_nil, or_false] at hk
    · have : k = Kind.flat FKind.bytes := by simpa using hk
      subst this; trivial
    · have : k = Kind.flat FKind.uint := by simpa using hk
      subst this; exact Or.inr (Or.inl rfl)
    · have : k = Kind.model [(821, FKind.uint)] false := by simpa using hk
      subst this; exact ⟨[(821, .uint 1)], by rfl⟩
    · simp at hk
  · intro h hm
    simp only [List.mem_cons, List.not_mem_nil, or_false] at hm
    rcases hm with rfl | rfl | rfl | rfl <;> decide

/-! ## PIT token on replies -/

theorem putWithPitToken_eq (d tok : Bytes) :
    putWithPitToken T d tok = lpWrap [(T.tPitToken, tok)] d := by
  simp [putWithPitToken, lpWrap, encValue, T, Gen.C10.table, lookup, encVal, encFVal, wireOf]

/-- **token_roundtrip.** For every token (every length, including the empty token) and every reply
    packet: the bytes written by `_put_raw_packet_with_pit_token` decode, with the library's own envelope
    decoder, to an envelope without Nack whose PIT token is exactly that token and whose Fragment is
    exactly the reply bytes. -/
theorem token_roundtrip (d tok : Bytes) (htok : tok.length < 2^64) (hd : d.length < 2^64)
    (hlen : (wireOf [(T.tPitToken, tok), (T.tFragment, d)]).length < 2^64) :
    parseLp T (putWithPitToken T d tok) = .ok { nack := none, pitToken := some tok, fragment := some d } := by
  rw [putWithPitToken_eq]
  have hok : ∀ h ∈ [(T.tPitToken, tok)], HdrOk h := by
    intro h hm
    simp only [List.mem_singleton] at hm
    subst hm
    refine ⟨by dsimp only; decide, by dsimp only; decide, by dsimp only; decide, by dsimp only; decide, ?_⟩
    intro k hk
    have := token_kind _ hk rfl
    simp only at this
    subst this
    trivial
  have hs : Sized [(T.tPitToken, tok)] d := by
    refine ⟨?_, hd, hlen⟩
    intro h hm
    simp only [List.mem_singleton] at hm
    subst hm
    exact ⟨by dsimp only; decide, htok⟩
  obtain ⟨t', hp, _, _, h3⟩ := parseLp_wrapped _ d hs hok
  rw [h3 tok [] rfl] at hp
  exact hp

example : parseLp T (putWithPitToken T [6, 0] []) = .ok { nack := none, pitToken := some [], fragment := some [6, 0] } :=
  token_roundtrip _ _ (by decide) (by decide) (by decide)

/-- **no_token_bare.** A reply to an Interest that arrived without PIT token is sent bare: exactly the reply
    bytes. -/
theorem no_token_bare (d : Bytes) : reply T none d = d := rfl

/-- the tokens the Interests of a history arrived with, in arrival order -/
def tokensOf : List Ev → List (Option Bytes)
  | [] => []
  | .interest tok :: r => tok :: tokensOf r
  | .reply _ _ :: r => tokensOf r

def repliesOf : List Ev → List (Nat × Bytes)
  | [] => []
  | .interest _ :: r => repliesOf r
  | .reply i d :: r => (i, d) :: repliesOf r

/-- a reply can only be made through a closure that already exists (`n` = Interests so far) -/
def WfHist : Nat → List Ev → Prop
  | _, [] => True
  | n, .interest _ :: r => WfHist (n + 1) r
  | n, .reply i _ :: r => i < n ∧ WfHist n r

theorem runReplies_spec (evs : List Ev) : ∀ (cl : List (Option Bytes)), WfHist cl.length evs →
    runReplies T cl evs = (repliesOf evs).map fun q => reply T ((cl ++ tokensOf evs)[q.1]?).join q.2 := by
  induction evs with
  | nil => intro cl _; rfl
  | cons e r ih =>
    intro cl h
    cases e with
    | interest tok =>
      simp only [runReplies, repliesOf, tokensOf]
      have := ih (cl ++ [tok]) (by simpa [WfHist] using h)
      rw [this]
      simp [List.append_assoc]
    | reply i d =>
      obtain ⟨hi, hr⟩ := h
      have hget : cl[i]? = some cl[i] := List.getElem?_eq_getElem hi
      simp only [runReplies, repliesOf, tokensOf, hget, List.map_cons]
      rw [ih cl hr]
      congr 1
      rw [List.getElem?_append_left hi, hget]
      rfl

/-- **reply_uses_own_token.** Over every history of incoming Interests (each with its own PIT token or
    none) and replies made through the handlers' reply closures in any order and any number, also after
    later Interests arrived: the k-th thing written to the face is the reply of the k-th reply event,
    wrapped with the token of exactly the Interest whose closure was called (bare if that Interest had
    none) - never with the token of another Interest. -/
theorem reply_uses_own_token (evs : List Ev) (h : WfHist 0 evs) :
    runReplies T [] evs = (repliesOf evs).map fun q => reply T ((tokensOf evs)[q.1]?).join q.2 := by
  have := runReplies_spec evs [] h
  simpa using this

example : runReplies T [] [.interest (some [1]), .interest none, .interest (some [2]), .reply 2 [6, 0],
    .reply 0 [6, 0], .reply 1 [6, 0]] = [putWithPitToken T [6, 0] [2], putWithPitToken T [6, 0] [1], [6, 0]] := by
  rfl

/-! ## Nack -/

theorem makeNetworkNack_eq (i : Bytes) (r : Nat) :
    makeNetworkNack T i r
      = tlv T.tLpPacket (wireOf [(T.tNack, wireOf [(T.tNackReason, packUint r)]), (T.tFragment, i)]) := by
  simp [makeNetworkNack, encValue, T, Gen.C10.table, lookup, encVal, encFVal, encFields, wireOf]

theorem nack_at : findFrom T.fields 0 T.tNack = some (3, .model [(T.tNackReason, .uint)] false) := by decide

theorem tlv_length_le (t : Nat) (v : Bytes) : (tlv t v).length ≤ 18 + v.length := by
  have a := tlNumSize_cases t
  have b := tlNumSize_cases v.length
  simp only [tlv, List.length_append, writeTlNum_length]
  omega

theorem packUint_le (r : Nat) : (packUint r).length ≤ 8 := by
  rcases packUint_length r with h | h | h | h <;> omega

/-- what the envelope decoder returns for the envelope built by `make_network_nack` -/
theorem parseLp_nack (i : Bytes) (r : Nat) (hr : r < 2^64) (hi : i.length < 2^64)
    (hlen : (wireOf [(T.tNack, wireOf [(T.tNackReason, packUint r)]), (T.tFragment, i)]).length < 2^64) :
    parseLp T (makeNetworkNack T i r) = .ok { nack := some (some r), pitToken := none, fragment := some i } := by
  rw [makeNetworkNack_eq]
  have hnv : (wireOf [(T.tNackReason, packUint r)]).length < 2^64 := by
    have := tlv_length_le T.tNackReason (packUint r)
    have := packUint_le r
    simp only [wireOf_cons, wireOf_nil, List.append_nil]
    omega
  have hpl : (packUint r).length < 2^64 := by have := packUint_le r; omega
  have hsz : ∀ e ∈ [(T.tNack, wireOf [(T.tNackReason, packUint r)]), (T.tFragment, i)], e.1 < 2^64 ∧ e.2.length < 2^64 := by
    intro e he
    simp only [List.mem_cons, List.not_mem_nil, or_false] at he
    rcases he with rfl | rfl
    · exact ⟨by dsimp only; decide, hnv⟩
    · exact ⟨by dsimp only; decide, hi⟩
  have hsz2 : ∀ e ∈ [(T.tNackReason, packUint r)], e.1 < 2^64 ∧ e.2.length < 2^64 := by
    intro e he
    simp only [List.mem_singleton] at he
    subst he
    exact ⟨by dsimp only; decide, hpl⟩
  have hinner : parseFlat [(T.tNackReason, FKind.uint)] false T.lengthCheck (wireOf [(T.tNackReason, packUint r)])
      = .ok [(T.tNackReason, .uint r)] := by
    rw [parseFlat_elems _ _ _ _ hsz2]
    have hf : findFrom [(T.tNackReason, FKind.uint)] 0 T.tNackReason = some (0, .uint) := by decide
    simp only [collect, hf, parseFVal, packUint_length r, if_true, List.take_length, beVal_packUint r hr,
      Nat.lt_irrefl, if_false, List.nil_append]
  unfold parseLp
  rw [parseAndCheckTl_tlv _ _ (by decide) hlen]
  simp only [bind, Except.bind]
  rw [parseValue_elems T _ hsz]
  simp only [collect, nack_at, parseVal, List.take_length, hinner, Except.map, List.nil_append,
    frag_last 4 (by decide), parseFVal]
  simp only [lookup, pure, Except.pure, nackOf, bytesOf]
  simp [T, Gen.C10.table, lookup]

/-- the pending Interests that a Nack enclosing an Interest named `N` names: an Interest with an implicit
    digest is filed under its name without the digest component, so these are the entries of that node
    asking for exactly the digest of `N` (or for none when `N` has none) -/
def named (st : State) (N : NameKey) : List Pending :=
  match PyDict.get? st.pit (splitDigest N).1 with
  | some node => node.filter fun p => p.digest == (splitDigest N).2
  | none => []

/-- the table after those entries are gone (the node disappears with its last entry) -/
def afterNack (st : State) (N : NameKey) : State :=
  match PyDict.get? st.pit (splitDigest N).1 with
  | some node =>
    { st with pit :=
        if (node.filter fun p => !(p.digest == (splitDigest N).2)).isEmpty then PyDict.erase st.pit (splitDigest N).1
        else PyDict.set st.pit (splitDigest N).1 (node.filter fun p => !(p.digest == (splitDigest N).2)) }
  | none => st

/-- **lp_nack.** For every reason code below 2^64 and every enclosed Interest `i = tlv t v` that the
    Interest decoder accepts with name `N`: receiving the Nack envelope completes exactly the pending
    Interests named `N` (same name, same implicit digest or none) - all of them, each with
    `InterestNack(reason)` carrying precisely that reason - removes exactly those entries from the table and
    touches nothing else; when nobody waits on `N` nothing happens.  Needs the two facts about the source
    that `frontends` checks on the generated table: `_on_nack` matches the implicit digest, and its lookup
    is guarded against `KeyError`. -/
theorem lp_nack (g : Guards) (hg : g.lpType = T.tLpPacket) (hdg : g.nackByDigest = true)
    (hk : PyErr.keyError ∈ g.caughtNackLookup)
    (int : Bytes → Except PyErr IntFacts) (data : Bytes → Except PyErr DataFacts)
    (st : State) (t : Nat) (v : Bytes) (ht : t < 2^64) (hv : v.length < 2^64) (r : Nat) (hr : r < 2^64)
    (hi : (tlv t v).length < 2^64)
    (hlen : (wireOf [(T.tNack, wireOf [(T.tNackReason, packUint r)]), (T.tFragment, tlv t v)]).length < 2^64)
    (facts : IntFacts) (hint : int (tlv t v) = .ok facts) :
    receive g (decoders T int data) st T.tLpPacket (makeNetworkNack T (tlv t v) r) =
      .ok (afterNack st facts.name, (named st facts.name).map fun p => Effect.nacked p.id r) := by
  have htl : parseTlNum (tlv t v) 0 = .ok (t, tlNumSize t) := by
    unfold tlv; rw [List.append_assoc]; exact parse_write t _ ht
  rw [← hg, receive_lp_ok g int data st _ _ _ t _ (parseLp_nack _ r hr hi hlen) rfl htl]
  simp only [receiveNet, nackReasonOf, Option.map, Option.getD, guarded, decoders, hint, onNack, nackNode, nackSplit, hdg,
    if_true, hk, named, afterNack]
  cases PyDict.get? st.pit (splitDigest facts.name).1 <;> rfl

/-- the envelope a forwarder may send for a Nack without a reason: `LpPacket{ Nack{}, Fragment }` -/
def bareNack (i : Bytes) : Bytes := tlv T.tLpPacket (wireOf [(T.tNack, []), (T.tFragment, i)])

/-- the envelope decoder on a Nack header without NackReason: a Nack header is present, its reason is absent -/
theorem parseLp_nack_bare (i : Bytes) (hi : i.length < 2^64)
    (hlen : (wireOf [(T.tNack, ([] : Bytes)), (T.tFragment, i)]).length < 2^64) :
    parseLp T (bareNack i) = .ok { nack := some none, pitToken := none, fragment := some i } := by
  have hsz : ∀ e ∈ [(T.tNack, ([] : Bytes)), (T.tFragment, i)], e.1 < 2^64 ∧ e.2.length < 2^64 := by
    intro e he
    simp only [List.mem_cons, List.not_mem_nil, or_false] at he
    rcases he with rfl | rfl
    · exact ⟨by dsimp only; decide, by simp⟩
    · exact ⟨by dsimp only; decide, hi⟩
  have hinner : parseFlat [(T.tNackReason, FKind.uint)] false T.lengthCheck ([] : Bytes) = .ok [] := by
    have h := parseFlat_elems [(T.tNackReason, FKind.uint)] false T.lengthCheck [] (by simp)
    simpa [wireOf, collect] using h
  unfold bareNack parseLp
  rw [parseAndCheckTl_tlv _ _ (by decide) hlen]
  simp only [bind, Except.bind]
  rw [parseValue_elems T _ hsz]
  simp only [collect, nack_at, parseVal, List.take_length, hinner, Except.map, List.nil_append,
    frag_last 4 (by decide), parseFVal]
  simp only [lookup, pure, Except.pure, nackOf, bytesOf]
  simp [T, Gen.C10.table, lookup]

/-- **lp_nack_bare.** NDNLPv2 makes NackReason optional.  A Nack header without it is a Nack with reason
    None (0): receiving `LpPacket{ Nack{}, Fragment = i }` completes exactly the pending Interests named by the
    enclosed Interest, each with `InterestNack(0)`, and touches nothing else - it is not handed to the
    incoming-Interest path (the defect repaired in /repo: the Interest used to be treated as a fresh one). -/
theorem lp_nack_bare (g : Guards) (hg : g.lpType = T.tLpPacket) (hdg : g.nackByDigest = true)
    (hk : PyErr.keyError ∈ g.caughtNackLookup)
    (int : Bytes → Except PyErr IntFacts) (data : Bytes → Except PyErr DataFacts)
    (st : State) (t : Nat) (v : Bytes) (ht : t < 2^64) (hv : v.length < 2^64)
    (hi : (tlv t v).length < 2^64)
    (hlen : (wireOf [(T.tNack, ([] : Bytes)), (T.tFragment, tlv t v)]).length < 2^64)
    (facts : IntFacts) (hint : int (tlv t v) = .ok facts) :
    receive g (decoders T int data) st T.tLpPacket (bareNack (tlv t v)) =
      .ok (afterNack st facts.name, (named st facts.name).map fun p => Effect.nacked p.id 0) := by
  have htl : parseTlNum (tlv t v) 0 = .ok (t, tlNumSize t) := by
    unfold tlv; rw [List.append_assoc]; exact parse_write t _ ht
  rw [← hg, receive_lp_ok g int data st _ _ _ t _ (parseLp_nack_bare _ hi hlen) rfl htl]
  simp only [receiveNet, nackReasonOf, Option.map, Option.getD, guarded, decoders, hint, onNack, nackNode, nackSplit, hdg,
    if_true, hk, named, afterNack]
  cases PyDict.get? st.pit (splitDigest facts.name).1 <;> rfl

/-- non-vacuity: two Interests pending on /a, one of them asking for an implicit digest; a Nack for /a
    completes only the one without digest -/
example : named ⟨[([[8, 1, 97]], [⟨0, false, []⟩, ⟨1, false, List.replicate 32 7⟩])], []⟩ [[8, 1, 97]] = [⟨0, false, []⟩] ∧
    named ⟨[([[8, 1, 97]], [⟨0, false, []⟩, ⟨1, false, List.replicate 32 7⟩])], []⟩
      [[8, 1, 97], 1 :: 32 :: List.replicate 32 7] = [⟨1, false, List.replicate 32 7⟩] := by
  decide

/-- a Type-1 component that is not 32 bytes long is not an implicit digest: a Nack for `/a/<empty Type-1 component>`
    names nobody (repaired in /repo: it used to nack the Interests pending on `/a`) -/
example : named ⟨[([[8, 1, 97]], [⟨0, false, []⟩, ⟨1, false, List.replicate 32 7⟩])], []⟩ [[8, 1, 97], [1, 0]] = [] ∧
    named ⟨[([[8, 1, 97]], [⟨0, false, []⟩])], []⟩ [[8, 1, 97], [1, 2, 7, 7]] = [] := by
  decide

/-! ## fragmentation -/

theorem findFrom_unknown {κ} (tbl : List (Nat × κ)) (pos t : Nat) (h : ∀ k, (t, k) ∉ tbl) :
    findFrom tbl pos t = none := by
  cases hf : findFrom tbl pos t with
  | none => rfl
  | some ik =>
    obtain ⟨_, hget⟩ := findFrom_spec _ _ _ _ _ hf
    exact absurd (List.mem_of_getElem? hget) (h ik.2)

theorem frag_fields_at : findFrom T.fields 0 T.tFragIndex = some (0, .flat .uint) ∧
    findFrom T.fields 0 T.tFragCount = some (1, .flat .uint) := by decide

/-- the envelope decoder never accepts an envelope whose first recognised header is FragIndex or
    FragCount (whatever precedes it is unknown to the format, e.g. Sequence; whatever follows is
    arbitrary) -/
theorem parseLp_fragmented (pre post : List (Nat × Bytes)) (ft : Nat) (fv : Bytes)
    (hft : ft = T.tFragIndex ∨ ft = T.tFragCount)
    (hpre : ∀ h ∈ pre, ∀ k, (h.1, k) ∉ T.fields)
    (hsz : ∀ e ∈ pre ++ (ft, fv) :: post, e.1 < 2^64 ∧ e.2.length < 2^64)
    (hlen : (wireOf (pre ++ (ft, fv) :: post)).length < 2^64) :
    ∃ e, parseLp T (tlv T.tLpPacket (wireOf (pre ++ (ft, fv) :: post))) = .error e := by
  unfold parseLp
  rw [parseAndCheckTl_tlv _ _ (by decide) hlen]
  simp only [bind, Except.bind]
  rw [parseValue_elems T _ hsz]
  have skip : ∀ (pre : List (Nat × Bytes)), (∀ h ∈ pre, ∀ k, (h.1, k) ∉ T.fields) → ∀ rest acc,
      collect T.fields (parseVal T.lengthCheck) true (pre ++ rest) 0 acc
        = collect T.fields (parseVal T.lengthCheck) true rest 0 acc := by
    intro pre
    induction pre with
    | nil => intro _ rest acc; rfl
    | cons h r ih =>
      intro hp rest acc
      obtain ⟨t, v⟩ := h
      simp only [List.cons_append, collect, findFrom_unknown _ _ _ (hp (t, v) (by simp))]
      simp only [Bool.not_true, Bool.and_false, Bool.false_eq_true, if_false]
      exact ih (fun h hm => hp h (List.mem_cons_of_mem _ hm)) rest acc
  rw [skip pre hpre]
  have hff : ∃ i, findFrom T.fields 0 ft = some (i, .flat .uint) := by
    rcases hft with rfl | rfl
    · exact ⟨0, frag_fields_at.1⟩
    · exact ⟨1, frag_fields_at.2⟩
  obtain ⟨i, hi⟩ := hff
  simp only [collect, hi]
  cases parseVal T.lengthCheck (.flat .uint) fv fv.length with
  | error e => exact ⟨e, rfl⟩
  | ok x =>
    simp only [List.nil_append]
    cases hc : collect T.fields (parseVal T.lengthCheck) true post (i + 1) [(ft, x)] with
    | error e => exact ⟨e, rfl⟩
    | ok res =>
      obtain ⟨ext, hres, _⟩ := collect_extends _ _ _ _ _ _ _ hc
      have hl : lookup res ft = some x := by
        rw [hres]; exact lookup_append_left _ _ _ _ (by simp [lookup])
      refine ⟨.decodeError, ?_⟩
      rcases hft with rfl | rfl
      · simp [hl]
      · simp [hl]

/-- **lp_fragment_rejected.** An envelope whose first recognised header is FragIndex or FragCount
    (preceded only by headers unknown to the format, such as Sequence; followed by anything) never
    reaches the tables: reception either drops it without any effect, or - only if the `except` tuple of
    the source were insufficient, which C06 excludes - fails; it never completes a pending Interest and
    never invokes a handler. -/
theorem lp_fragment_rejected (g : Guards) (hg : g.lpType = T.tLpPacket) (int : Bytes → Except PyErr IntFacts)
    (data : Bytes → Except PyErr DataFacts) (st : State) (pre post : List (Nat × Bytes)) (ft : Nat) (fv : Bytes)
    (hft : ft = T.tFragIndex ∨ ft = T.tFragCount)
    (hpre : ∀ h ∈ pre, ∀ k, (h.1, k) ∉ T.fields)
    (hsz : ∀ e ∈ pre ++ (ft, fv) :: post, e.1 < 2^64 ∧ e.2.length < 2^64)
    (hlen : (wireOf (pre ++ (ft, fv) :: post)).length < 2^64) :
    ∀ res, receive g (decoders T int data) st T.tLpPacket (tlv T.tLpPacket (wireOf (pre ++ (ft, fv) :: post))) = .ok res →
      res = (st, []) := by
  obtain ⟨e, he⟩ := parseLp_fragmented pre post ft fv hft hpre hsz hlen
  intro res h0
  have h : receive g (decoders T int data) st g.lpType
      (tlv T.tLpPacket (wireOf (pre ++ (ft, fv) :: post))) = .ok res := by rw [hg]; exact h0
  simp only [receive, if_true, guarded, decoders, he] at h
  split at h
  · simp only [Except.ok.injEq] at h; exact h.symm
  · simp at h

/-- a real fragment as a forwarder sends it: Sequence, FragIndex, FragCount, Fragment -/
example : parseLp T (tlv 100 (wireOf ([(81, [0, 0, 0, 0, 0, 0, 0, 1])] ++ (82, [0]) :: [(83, [2]), (80, [6, 3, 7])])))
    = .error .decodeError := by rfl

/-! ## every layout the in-order scan recognises

  `TlvModel.parse` recognises a header only at or after the position (`field_pos`) its in-order scan of the
  format has reached (`scanPos`).  The theorems below replace the special layouts of `lp_nack`,
  `lp_fragment_rejected` and the token clause of `lp_transparent` by: every layout in which the scan still
  recognises the header - in particular every envelope whose headers are written in increasing type-number
  order, which is what NDNLPv2 prescribes and forwarders emit. -/

/-- header type numbers never decrease (NDNLPv2: header fields in increasing TLV-TYPE order, the Fragment
    last; a repeatable header may repeat) -/
def Ascending (hdrs : List (Nat × Bytes)) : Prop := List.Pairwise (· ≤ ·) (hdrs.map (·.1))

/-- the fields the format declares after the Nack field -/
def afterNackFields : List (Nat × Kind) := (T.fields.dropWhile fun f => f.1 != T.tNack).tail

/-- `t` is the type number of a field the format declares after Nack -/
def AfterNack (t : Nat) : Prop := ∃ f ∈ afterNackFields, f.1 = t

/-- the type is not a field of the format -/
def Unknown (t : Nat) : Prop := ∀ k, (t, k) ∉ T.fields

/-- Well-formed value of a Nack header and the reason it carries: an optional NackReason (a
    NonNegativeInteger of 1/2/4/8 bytes) among any number of unknown non-critical (even-typed) sub-elements. -/
def NackVal (nv : Bytes) (ro : Option Nat) : Prop :=
  ∃ u1 u2 : List (Nat × Bytes),
    (∀ e ∈ u1 ++ u2, e.1 % 2 = 0 ∧ e.1 < 2^64 ∧ e.2.length < 2^64) ∧
    ((ro = none ∧ nv = wireOf (u1 ++ u2)) ∨
     ∃ rv : Bytes, (rv.length = 1 ∨ rv.length = 2 ∨ rv.length = 4 ∨ rv.length = 8) ∧
       ro = some (beVal rv) ∧ nv = wireOf (u1 ++ (T.tNackReason, rv) :: u2))

/-! ### table facts -/

theorem afterNack_eq : afterNackFields = T.fields.drop 4 := by decide

theorem nack_found : ∀ pos, pos ≤ 3 →
    findFrom T.fields pos T.tNack = some (3, .model [(T.tNackReason, .uint)] false) := by decide

theorem nack_idx : T.fields[3]? = some (T.tNack, .model [(T.tNackReason, .uint)] false) := by decide

theorem nack_not_after : ∀ f ∈ T.fields.drop 4, f.1 ≠ T.tNack := by decide

/-- from a position up to the Nack field, a field declared after Nack is found at its later place -/
theorem after_found : ∀ pos, pos ≤ 3 → ∀ f ∈ T.fields.drop 4,
    (match findFrom T.fields pos f.1 with | some (i, _) => decide (4 ≤ i) | none => false) = true := by decide

/-- in increasing type order only the Fragment itself could precede a field declared after Nack -/
theorem after_above : ∀ f ∈ T.fields.drop 4, f.1 = T.tFragment ∨ T.tNack < f.1 := by decide

theorem low_fields : ∀ f ∈ T.fields, f.1 ≤ T.tFragCount →
    f.1 = T.tFragment ∨ f.1 = T.tFragIndex ∨ f.1 = T.tFragCount := by decide

theorem low_fields_token : ∀ f ∈ T.fields, f.1 ≤ T.tPitToken →
    f.1 = T.tFragment ∨ f.1 = T.tFragIndex ∨ f.1 = T.tFragCount ∨ f.1 = T.tPitToken := by decide

theorem frag_index_le : T.tFragIndex ≤ T.tFragCount := by decide

/-! ### the scan over optional headers -/

/-- optional headers in front of anything: they are collected or skipped, never rejected, and the scan goes on
    behind them at `scanPos` -/
theorem collect_prefix (hdrs : List (Nat × Bytes)) (hok : ∀ h ∈ hdrs, HdrOk h) (rest : List (Nat × Bytes)) :
    ∀ pos acc, pos ≤ T.fields.length - 1 →
      ∃ ext, collect T.fields (parseVal T.lengthCheck) true (hdrs ++ rest) pos acc
          = collect T.fields (parseVal T.lengthCheck) true rest (scanPos T.fields (hdrs.map (·.1)) pos) (acc ++ ext) ∧
        scanPos T.fields (hdrs.map (·.1)) pos ≤ T.fields.length - 1 ∧
        (∀ e ∈ ext, Plain e.1) := by
  induction hdrs with
  | nil =>
    intro pos acc hp
    exact ⟨[], by simp [scanPos], by simpa [scanPos] using hp, by simp⟩
  | cons h hs ih =>
    intro pos acc hp
    obtain ⟨t, v⟩ := h
    have hh := hok (t, v) (by simp)
    have ih' := ih (fun h hm => hok h (List.mem_cons_of_mem _ hm))
    simp only [List.cons_append, collect, List.map_cons, scanPos]
    cases hf : findFrom T.fields pos t with
    | none =>
      simp only [Bool.not_true, Bool.and_false, Bool.false_eq_true, if_false]
      exact ih' pos acc hp
    | some ik =>
      obtain ⟨i, k⟩ := ik
      obtain ⟨hpi, hget⟩ := findFrom_spec _ _ _ _ _ hf
      have hmem : (t, k) ∈ T.fields := List.mem_of_getElem? hget
      obtain ⟨x, hx, _⟩ := wf_parse k v (hh.2.2.2.2 k hmem)
      have hilt : i < T.fields.length := by
        rcases Nat.lt_or_ge i T.fields.length with h | h
        · exact h
        · rw [List.getElem?_eq_none h] at hget; simp at hget
      have hine : i ≠ T.fields.length - 1 := by
        intro e
        rw [e, frag_at_last] at hget
        simp only [Option.some.injEq, Prod.mk.injEq] at hget
        exact hh.1 hget.1.symm
      simp only [hx]
      obtain ⟨ext, h1, h2, h3⟩ := ih' (i + 1) (acc ++ [(t, x)]) (by omega)
      refine ⟨(t, x) :: ext, by simp [h1], h2, ?_⟩
      intro e he
      simp only [List.mem_cons] at he
      rcases he with rfl | he
      · exact ⟨hh.1, hh.2.1, hh.2.2.1, hh.2.2.2.1⟩
      · exact h3 e he

/-- no header of a field declared after Nack: the scan is still at or before the Nack field -/
theorem scan_before_nack (hdrs : List (Nat × Bytes)) (hok : ∀ h ∈ hdrs, HdrOk h)
    (hno : ∀ h ∈ hdrs, ¬ AfterNack h.1) : ∀ pos, pos ≤ 3 → scanPos T.fields (hdrs.map (·.1)) pos ≤ 3 := by
  induction hdrs with
  | nil => intro pos hp; simpa [scanPos] using hp
  | cons h hs ih =>
    intro pos hp
    obtain ⟨t, v⟩ := h
    have ih' := ih (fun h hm => hok h (List.mem_cons_of_mem _ hm)) (fun h hm => hno h (List.mem_cons_of_mem _ hm))
    simp only [List.map_cons, scanPos]
    cases hf : findFrom T.fields pos t with
    | none => exact ih' pos hp
    | some ik =>
      obtain ⟨i, k⟩ := ik
      obtain ⟨_, hget⟩ := findFrom_spec _ _ _ _ _ hf
      simp only
      apply ih'
      have h3 : i ≠ 3 := by
        intro e
        rw [e, nack_idx] at hget
        simp only [Option.some.injEq, Prod.mk.injEq] at hget
        exact (hok (t, v) (by simp)).2.2.2.1 hget.1.symm
      have h4 : ¬ 4 ≤ i := by
        intro h
        apply hno (t, v) (by simp)
        refine ⟨(t, k), ?_, rfl⟩
        rw [afterNack_eq]
        exact mem_drop_of_getElem? _ _ _ _ hget h
      omega

/-- a header of a field declared after Nack moves the scan beyond the Nack field -/
theorem scan_past_nack (hdrs : List (Nat × Bytes)) (hex : ∃ h ∈ hdrs, AfterNack h.1) :
    ∀ pos, 4 ≤ scanPos T.fields (hdrs.map (·.1)) pos := by
  induction hdrs with
  | nil => obtain ⟨h, hm, _⟩ := hex; simp at hm
  | cons h hs ih =>
    intro pos
    obtain ⟨t, v⟩ := h
    simp only [List.map_cons, scanPos]
    by_cases hl : AfterNack t
    · rcases Nat.lt_or_ge pos 4 with hp | hp
      · obtain ⟨f, hf, hft⟩ := hl
        rw [afterNack_eq] at hf
        have := after_found pos (by omega) f hf
        rw [hft] at this
        cases hfd : findFrom T.fields pos t with
        | none => rw [hfd] at this; simp at this
        | some ik =>
          obtain ⟨i, k⟩ := ik
          rw [hfd] at this
          simp only [decide_eq_true_eq] at this
          have := scanPos_ge T.fields (hs.map (·.1)) (i + 1)
          simp only
          omega
      · cases hfd : findFrom T.fields pos t with
        | none =>
          have := scanPos_ge T.fields (hs.map (·.1)) pos
          simp only; omega
        | some ik =>
          obtain ⟨i, k⟩ := ik
          have := (findFrom_spec _ _ _ _ _ hfd).1
          have := scanPos_ge T.fields (hs.map (·.1)) (i + 1)
          simp only; omega
    · have hex' : ∃ h ∈ hs, AfterNack h.1 := by
        obtain ⟨h, hm, ha⟩ := hex
        simp only [List.mem_cons] at hm
        rcases hm with rfl | hm
        · exact absurd ha hl
        · exact ⟨h, hm, ha⟩
      cases findFrom T.fields pos t with
      | none => exact ih hex' pos
      | some ik => exact ih hex' _

/-- **nack_recognised_iff.** The exact condition under which the decoder's in-order scan recognises a Nack
    header that follows the optional headers `before`: the scan position reached behind them is still at or before
    the Nack field - which is the case iff none of them is a header of a field the format declares after Nack. -/
theorem nack_recognised_iff (before : List (Nat × Bytes)) (hok : ∀ h ∈ before, HdrOk h) :
    (findFrom T.fields (scanPos T.fields (before.map (·.1)) 0) T.tNack).isSome = true ↔
      ∀ h ∈ before, ¬ AfterNack h.1 := by
  constructor
  · intro h b hb ha
    have h4 := scan_past_nack before ⟨b, hb, ha⟩ 0
    rw [findFrom_none_of_drop T.fields 4 _ _ nack_not_after h4] at h
    simp at h
  · intro h
    rw [nack_found _ (scan_before_nack before hok h 0 (by omega))]
    rfl

/-! ### Nack header anywhere the scan recognises it -/

/-- the decoded NetworkNack model: its NackReason field, if set -/
def nackFields : Option Nat → List (Nat × FVal)
  | some r => [(T.tNackReason, .uint r)]
  | none => []

theorem parseFlat_nackVal (nv : Bytes) (ro : Option Nat) (h : NackVal nv ro) :
    parseFlat [(T.tNackReason, FKind.uint)] false T.lengthCheck nv
      = .ok (nackFields ro) := by
  obtain ⟨u1, u2, hu, hcase⟩ := h
  have hskip : ∀ u : List (Nat × Bytes), (∀ e ∈ u, e.1 % 2 = 0 ∧ e.1 < 2^64 ∧ e.2.length < 2^64) →
      ∀ h ∈ u, (∀ k, (h.1, k) ∉ [(T.tNackReason, FKind.uint)]) ∧ (h.1 % 2 = 0 ∨ false = true) := by
    intro u hu' e he
    have h0 := (hu' e he).1
    refine ⟨?_, Or.inl h0⟩
    intro k hk
    simp only [List.mem_singleton, Prod.mk.injEq] at hk
    have : T.tNackReason % 2 = 1 := by decide
    rw [← hk.1] at this
    omega
  have hu1 : ∀ e ∈ u1, e.1 % 2 = 0 ∧ e.1 < 2^64 ∧ e.2.length < 2^64 := fun e he => hu e (List.mem_append_left _ he)
  have hu2 : ∀ e ∈ u2, e.1 % 2 = 0 ∧ e.1 < 2^64 ∧ e.2.length < 2^64 := fun e he => hu e (List.mem_append_right _ he)
  rcases hcase with ⟨rfl, rfl⟩ | ⟨rv, hlen, rfl, rfl⟩
  · rw [parseFlat_elems _ _ _ _ (fun e he => (hu e he).2)]
    have := collect_skip_unknown [(T.tNackReason, FKind.uint)] parseFVal false (u1 ++ u2) (hskip _ hu) [] 0 []
    rw [List.append_nil] at this
    rw [this]
    rfl
  · have hsz : ∀ e ∈ u1 ++ (T.tNackReason, rv) :: u2, e.1 < 2^64 ∧ e.2.length < 2^64 := by
      intro e he
      simp only [List.mem_append, List.mem_cons] at he
      rcases he with he | rfl | he
      · exact (hu1 e he).2
      · refine ⟨by dsimp only; decide, ?_⟩
        dsimp only
        rcases hlen with h | h | h | h <;> omega
      · exact (hu2 e he).2
    rw [parseFlat_elems _ _ _ _ hsz]
    rw [collect_skip_unknown _ _ _ u1 (hskip _ hu1)]
    have hf : findFrom [(T.tNackReason, FKind.uint)] 0 T.tNackReason = some (0, .uint) := by decide
    simp only [collect, hf, parseFVal, hlen, if_true, List.take_length, Nat.lt_irrefl, if_false, List.nil_append]
    have := collect_skip_unknown [(T.tNackReason, FKind.uint)] parseFVal false u2 (hskip _ hu2) [] (0 + 1)
      [(T.tNackReason, FVal.uint (beVal rv))]
    rw [List.append_nil] at this
    rw [this]
    rfl

theorem lookup_skip {ν} (ext r : List (Nat × ν)) (t : Nat) (h : ∀ e ∈ ext, e.1 ≠ t) :
    lookup (ext ++ r) t = lookup r t :=
  lookup_append_none _ _ _ (lookup_none_of_not_mem _ _ h)

/-- what the envelope decoder returns for an envelope with a Nack header among optional headers, none of the
    preceding ones being a header of a field declared after Nack -/
theorem parseLp_nack_general (before after : List (Nat × Bytes)) (nv : Bytes) (ro : Option Nat) (p : Bytes)
    (hs : Sized (before ++ (T.tNack, nv) :: after) p)
    (hb : ∀ h ∈ before, HdrOk h) (ha : ∀ h ∈ after, HdrOk h)
    (hord : ∀ h ∈ before, ¬ AfterNack h.1) (hnv : NackVal nv ro) :
    ∃ tok, parseLp T (lpWrap (before ++ (T.tNack, nv) :: after) p)
      = .ok { nack := some ro, pitToken := tok, fragment := some p } := by
  have hsz : ∀ e ∈ (before ++ (T.tNack, nv) :: after) ++ [(T.tFragment, p)], e.1 < 2^64 ∧ e.2.length < 2^64 := by
    intro e he
    simp only [List.mem_append, List.mem_singleton] at he
    rcases he with he | rfl
    · exact hs.1 e (by simpa using he)
    · exact ⟨consts_distinct.2.2.2.2.2.2.1, hs.2.1⟩
  have hinner := parseFlat_nackVal nv ro hnv
  obtain ⟨ext1, hc1, _, hp1⟩ := collect_prefix before hb ((T.tNack, nv) :: (after ++ [(T.tFragment, p)])) 0 []
    (Nat.zero_le _)
  have hpos := scan_before_nack before hb hord 0 (by omega)
  obtain ⟨ext2, hc2, hp2, _⟩ := collect_headers p after ha 4
    (([] : List (Nat × Val)) ++ ext1 ++ [(T.tNack, Val.model (nackFields ro))])
    (by decide)
  have hc : collect T.fields (parseVal T.lengthCheck) true ((before ++ (T.tNack, nv) :: after) ++ [(T.tFragment, p)]) 0 []
      = .ok (ext1 ++ [(T.tNack, Val.model (nackFields ro))]
          ++ ext2 ++ [(T.tFragment, .flat (.bytes p))]) := by
    rw [List.append_assoc, List.cons_append, hc1]
    simp only [collect, nack_found _ hpos, parseVal, List.take_length, hinner, Except.map]
    rw [hc2]
    simp
  have e1 : ∀ e ∈ ext1, Plain e.1 := hp1
  refine ⟨bytesOf (lookup (ext1 ++ [(T.tNack, Val.model (nackFields ro))]
          ++ ext2 ++ [(T.tFragment, .flat (.bytes p))]) T.tPitToken), ?_⟩
  unfold parseLp lpWrap
  rw [parseAndCheckTl_tlv _ _ consts_distinct.2.2.2.2.2.1 hs.2.2]
  simp only [bind, Except.bind]
  rw [parseValue_elems T _ hsz, hc]
  have hnone : ∀ t, (t = T.tFragIndex ∨ t = T.tFragCount) →
      lookup (ext1 ++ [(T.tNack, Val.model (nackFields ro))] ++ ext2 ++ [(T.tFragment, Val.flat (.bytes p))]) t = none := by
    intro t ht
    apply lookup_none_of_not_mem
    intro e he
    simp only [List.mem_append, List.mem_singleton] at he
    rcases he with ((he | rfl) | he) | rfl
    · rcases ht with rfl | rfl
      · exact (e1 e he).2.1
      · exact (e1 e he).2.2.1
    · rcases ht with rfl | rfl <;> (dsimp only; decide)
    · rcases ht with rfl | rfl
      · exact (hp2 e he).2.1
      · exact (hp2 e he).2.2.1
    · rcases ht with rfl | rfl <;> (dsimp only; decide)
  have hnack : lookup (ext1 ++ [(T.tNack, Val.model (nackFields ro))] ++ ext2 ++ [(T.tFragment, Val.flat (.bytes p))]) T.tNack
      = some (Val.model (nackFields ro)) := by
    simp only [List.append_assoc]
    rw [lookup_skip _ _ _ (fun e he => (e1 e he).2.2.2)]
    simp [lookup]
  have hfrag : lookup (ext1 ++ [(T.tNack, Val.model (nackFields ro))] ++ ext2 ++ [(T.tFragment, Val.flat (.bytes p))]) T.tFragment
      = some (.flat (.bytes p)) := by
    simp only [List.append_assoc]
    rw [lookup_skip _ _ _ (fun e he => (e1 e he).1)]
    have : T.tNack ≠ T.tFragment := by decide
    simp only [List.cons_append, List.nil_append, lookup, this, if_false]
    rw [lookup_skip _ _ _ (fun e he => (hp2 e he).1)]
    simp [lookup]
  simp only [hnone _ (Or.inl rfl), hnone _ (Or.inr rfl), hnack, hfrag, Option.isSome_none, Bool.or_self,
    Bool.false_eq_true, if_false, pure, Except.pure, nackOf, bytesOf]
  cases ro <;> simp [nackFields, lookup]

/-- **lp_nack_general.** For every envelope `LpPacket{ before…, Nack{…}, after…, Fragment = i }` in which
    `before` / `after` are optional headers (known ones with a legal value, unknown ones with any value, in any
    number - a PitToken included: a Nack with a token is still a Nack) and no header of a field the format
    declares after Nack precedes the Nack header (`nack_recognised_iff`: exactly when the scan recognises it),
    and every well-formed Nack value (optional NackReason of any width, unknown non-critical sub-elements
    before and after it): receiving the envelope completes exactly the pending Interests named by the enclosed
    Interest, each with `InterestNack(reason)` - reason 0 when the header carries no NackReason - removes
    exactly those entries and touches nothing else. -/
theorem lp_nack_general (g : Guards) (hg : g.lpType = T.tLpPacket) (hdg : g.nackByDigest = true)
    (hk : PyErr.keyError ∈ g.caughtNackLookup)
    (int : Bytes → Except PyErr IntFacts) (data : Bytes → Except PyErr DataFacts)
    (st : State) (t : Nat) (v : Bytes) (ht : t < 2^64)
    (before after : List (Nat × Bytes)) (nv : Bytes) (ro : Option Nat)
    (hs : Sized (before ++ (T.tNack, nv) :: after) (tlv t v))
    (hb : ∀ h ∈ before, HdrOk h) (ha : ∀ h ∈ after, HdrOk h)
    (hord : ∀ h ∈ before, ¬ AfterNack h.1) (hnv : NackVal nv ro)
    (facts : IntFacts) (hint : int (tlv t v) = .ok facts) :
    receive g (decoders T int data) st T.tLpPacket (lpWrap (before ++ (T.tNack, nv) :: after) (tlv t v)) =
      .ok (afterNack st facts.name, (named st facts.name).map fun p => Effect.nacked p.id (ro.getD 0)) := by
  have htl : parseTlNum (tlv t v) 0 = .ok (t, tlNumSize t) := by
    unfold tlv; rw [List.append_assoc]; exact parse_write t _ ht
  obtain ⟨tok, hp⟩ := parseLp_nack_general before after nv ro (tlv t v) hs hb ha hord hnv
  rw [← hg, receive_lp_ok g int data st _ _ _ t _ hp rfl htl]
  simp only [receiveNet, nackReasonOf, Option.map, guarded, decoders, hint, onNack, nackNode, nackSplit, hdg,
    if_true, hk, named, afterNack]
  cases PyDict.get? st.pit (splitDigest facts.name).1 <;> rfl

/-- **lp_nack_ascending.** Every envelope whose headers are in increasing type-number order, with one Nack
    header among optional headers, is handled as a Nack per `lp_nack_general`: in increasing order nothing
    the format declares after Nack can precede it. -/
theorem lp_nack_ascending (g : Guards) (hg : g.lpType = T.tLpPacket) (hdg : g.nackByDigest = true)
    (hk : PyErr.keyError ∈ g.caughtNackLookup)
    (int : Bytes → Except PyErr IntFacts) (data : Bytes → Except PyErr DataFacts)
    (st : State) (t : Nat) (v : Bytes) (ht : t < 2^64)
    (before after : List (Nat × Bytes)) (nv : Bytes) (ro : Option Nat)
    (hs : Sized (before ++ (T.tNack, nv) :: after) (tlv t v))
    (hb : ∀ h ∈ before, HdrOk h) (ha : ∀ h ∈ after, HdrOk h)
    (hasc : Ascending (before ++ (T.tNack, nv) :: after)) (hnv : NackVal nv ro)
    (facts : IntFacts) (hint : int (tlv t v) = .ok facts) :
    receive g (decoders T int data) st T.tLpPacket (lpWrap (before ++ (T.tNack, nv) :: after) (tlv t v)) =
      .ok (afterNack st facts.name, (named st facts.name).map fun p => Effect.nacked p.id (ro.getD 0)) := by
  apply lp_nack_general g hg hdg hk int data st t v ht before after nv ro hs hb ha _ hnv facts hint
  intro h hm ⟨f, hf, hft⟩
  rw [afterNack_eq] at hf
  have hle : h.1 ≤ T.tNack := by
    unfold Ascending at hasc
    rw [List.map_append, List.pairwise_append] at hasc
    exact hasc.2.2 h.1 (List.mem_map_of_mem hm) T.tNack (by simp)
  have hok := hb h hm
  rcases after_above f hf with h1 | h1
  · exact hok.1 (hft ▸ h1)
  · omega

/-- the envelope decoder on a Nack header that follows a header of a field declared after Nack: the in-order
    scan does not recognise it, the result is that of the envelope without the Nack header (whatever its value) -/
theorem parseLp_nack_out_of_order (before after : List (Nat × Bytes)) (nv p : Bytes)
    (hs : Sized (before ++ (T.tNack, nv) :: after) p) (hex : ∃ h ∈ before, AfterNack h.1) :
    Sized (before ++ after) p ∧
    parseLp T (lpWrap (before ++ (T.tNack, nv) :: after) p) = parseLp T (lpWrap (before ++ after) p) := by
  have hs' : Sized (before ++ after) p := by
    refine ⟨fun h hm => hs.1 h ?_, hs.2.1, ?_⟩
    · simp only [List.mem_append, List.mem_cons] at hm ⊢
      rcases hm with hm | hm
      · exact Or.inl hm
      · exact Or.inr (Or.inr hm)
    · have := hs.2.2
      simp only [wireOf_length_append, wireOf_cons, List.length_append] at this ⊢
      omega
  have hsz : ∀ (hd : List (Nat × Bytes)), Sized hd p → ∀ e ∈ hd ++ [(T.tFragment, p)], e.1 < 2^64 ∧ e.2.length < 2^64 := by
    intro hd hsd e he
    simp only [List.mem_append, List.mem_singleton] at he
    rcases he with he | rfl
    · exact hsd.1 e he
    · exact ⟨consts_distinct.2.2.2.2.2.2.1, hsd.2.1⟩
  refine ⟨hs', ?_⟩
  unfold parseLp lpWrap
  rw [parseAndCheckTl_tlv _ _ consts_distinct.2.2.2.2.2.1 hs.2.2,
    parseAndCheckTl_tlv _ _ consts_distinct.2.2.2.2.2.1 hs'.2.2]
  simp only [bind, Except.bind]
  rw [parseValue_elems T _ (hsz _ hs), parseValue_elems T _ (hsz _ hs')]
  have h4 := scan_past_nack before hex 0
  have := collect_drop_unrecognised T.fields (parseVal T.lengthCheck) T.tNack nv (after ++ [(T.tFragment, p)]) before 0 []
    (findFrom_none_of_drop T.fields 4 _ _ nack_not_after h4)
  rw [List.append_assoc, List.cons_append, this, List.append_assoc]

/-- **lp_nack_out_of_order.** The negative side, as the code behaves: when a header of a field the format
    declares after Nack precedes the Nack header (`nack_recognised_iff`: exactly when the in-order scan does
    not recognise it), the envelope is processed as a plain envelope around the enclosed packet - as the bare
    packet, i.e. an enclosed Interest goes to the incoming-Interest path and no pending Interest is nacked -
    whatever the Nack header's value is.  Such an envelope violates the NDNLPv2 field order
    (`lp_nack_ascending`: in increasing type order this cannot happen). -/
theorem lp_nack_out_of_order (g : Guards) (hg : g.lpType = T.tLpPacket)
    (int : Bytes → Except PyErr IntFacts) (data : Bytes → Except PyErr DataFacts)
    (st : State) (before after : List (Nat × Bytes)) (nv : Bytes) (t : Nat) (v : Bytes)
    (ht : t < 2^64) (hv : v.length < 2^64)
    (hs : Sized (before ++ (T.tNack, nv) :: after) (tlv t v))
    (hb : ∀ h ∈ before, HdrOk h) (ha : ∀ h ∈ after, HdrOk h) (hne : t ≠ g.lpType)
    (hex : ∃ h ∈ before, AfterNack h.1) :
    ∃ tok,
      receive g (decoders T int data) st T.tLpPacket (lpWrap (before ++ (T.tNack, nv) :: after) (tlv t v))
        = receiveNet g (decoders T int data) st none tok t (tlv t v) ∧
      eraseRes (receive g (decoders T int data) st T.tLpPacket (lpWrap (before ++ (T.tNack, nv) :: after) (tlv t v)))
        = eraseRes (receive g (decoders T int data) st t (tlv t v)) := by
  obtain ⟨hs', hparse⟩ := parseLp_nack_out_of_order before after nv (tlv t v) hs hex
  have hok : ∀ h ∈ before ++ after, HdrOk h := by
    intro h hm
    rcases List.mem_append.1 hm with hm | hm
    · exact hb h hm
    · exact ha h hm
  obtain ⟨tok, h1, _, h3, _⟩ := lp_transparent g hg int data st (before ++ after) t v ht hv hs' hok hne
  have heq : receive g (decoders T int data) st T.tLpPacket (lpWrap (before ++ (T.tNack, nv) :: after) (tlv t v))
      = receive g (decoders T int data) st T.tLpPacket (lpWrap (before ++ after) (tlv t v)) := by
    rw [← hg]
    simp only [receive, if_true, decoders, hparse]
  exact ⟨tok, by rw [heq, h1], by rw [heq, h3]⟩

/-- non-vacuity of `lp_nack_general` / `lp_nack_ascending`: Sequence, PitToken, an unknown header, then a Nack whose
    value has unknown sub-elements around a 2-byte NackReason, then IncomingFaceId, Ack, TxSequence (increasing
    type order although the format declares TxSequence before Ack) -/
example : NackVal (wireOf [(802, [1]), (801, [0, 150]), (804, [])]) (some 150) ∧
    Ascending ([(81, [0, 0, 0, 0, 0, 0, 0, 1]), (98, [170]), (300, [1])] ++
      (T.tNack, wireOf [(802, [1]), (801, [0, 150]), (804, [])]) :: [(812, [7]), (836, [1]), (840, [2])]) ∧
    (∀ h ∈ [(81, [0, 0, 0, 0, 0, 0, 0, 1]), ((98 : Nat), ([170] : Bytes)), (300, [1])], ¬ AfterNack h.1) ∧
    parseLp T (lpWrap ([(81, [0, 0, 0, 0, 0, 0, 0, 1]), (98, [170]), (300, [1])] ++
      (T.tNack, wireOf [(802, [1]), (801, [0, 150]), (804, [])]) :: [(812, [7]), (836, [1]), (840, [2])]) [5, 0])
      = .ok { nack := some (some 150), pitToken := some [170], fragment := some [5, 0] } := by
  refine ⟨⟨[(802, [1])], [(804, [])], by decide, Or.inr ⟨[0, 150], by decide, by decide, rfl⟩⟩, by unfold Ascending; decide,
    ?_, by rfl⟩
  intro h hm ⟨f, hf, hft⟩
  rw [afterNack_eq] at hf
  simp only [List.mem_cons, List.not_mem_nil, or_false] at hm
  rcases hm with rfl | rfl | rfl <;> revert f <;> decide

/-- the out-of-order layout of `lp_nack_out_of_order`: IncomingFaceId before the Nack header - decoded as no Nack -/
example : AfterNack 812 ∧ parseLp T (lpWrap ([(812, [7])] ++ (T.tNack, wireOf [(801, [50])]) :: []) [5, 0])
    = .ok { nack := none, pitToken := none, fragment := some [5, 0] } :=
  ⟨⟨(812, .flat .uint), by decide, rfl⟩, by rfl⟩

/-! ### fragmentation headers anywhere in an increasing-order envelope -/

theorem split_first_frag (hdrs : List (Nat × Bytes))
    (hex : ∃ h ∈ hdrs, h.1 = T.tFragIndex ∨ h.1 = T.tFragCount) :
    ∃ pre ft fv post, hdrs = pre ++ (ft, fv) :: post ∧ (ft = T.tFragIndex ∨ ft = T.tFragCount) ∧
      ∀ h ∈ pre, h.1 ≠ T.tFragIndex ∧ h.1 ≠ T.tFragCount := by
  induction hdrs with
  | nil => obtain ⟨h, hm, _⟩ := hex; simp at hm
  | cons h hs ih =>
    by_cases hh : h.1 = T.tFragIndex ∨ h.1 = T.tFragCount
    · exact ⟨[], h.1, h.2, hs, rfl, hh, by simp⟩
    · have hex' : ∃ h ∈ hs, h.1 = T.tFragIndex ∨ h.1 = T.tFragCount := by
        obtain ⟨x, hm, hx⟩ := hex
        simp only [List.mem_cons] at hm
        rcases hm with rfl | hm
        · exact absurd hx hh
        · exact ⟨x, hm, hx⟩
      obtain ⟨pre, ft, fv, post, he, hft, hpre⟩ := ih hex'
      refine ⟨h :: pre, ft, fv, post, by simp [he], hft, ?_⟩
      intro x hx
      simp only [List.mem_cons] at hx
      rcases hx with rfl | hx
      · exact ⟨fun e => hh (Or.inl e), fun e => hh (Or.inr e)⟩
      · exact hpre x hx

/-- the envelope decoder never accepts an envelope with headers in increasing type-number order one of which is
    FragIndex or FragCount, whatever the other headers are and whatever follows the headers -/
theorem parseLp_fragmented_general (hdrs rest : List (Nat × Bytes))
    (hasc : Ascending hdrs) (hnf : ∀ h ∈ hdrs, h.1 ≠ T.tFragment)
    (hex : ∃ h ∈ hdrs, h.1 = T.tFragIndex ∨ h.1 = T.tFragCount)
    (hsz : ∀ e ∈ hdrs ++ rest, e.1 < 2^64 ∧ e.2.length < 2^64)
    (hlen : (wireOf (hdrs ++ rest)).length < 2^64) :
    ∃ e, parseLp T (tlv T.tLpPacket (wireOf (hdrs ++ rest))) = .error e := by
  obtain ⟨pre, ft, fv, post, he, hft, hpre⟩ := split_first_frag hdrs hex
  subst he
  have hunk : ∀ h ∈ pre, ∀ k, (h.1, k) ∉ T.fields := by
    intro h hm k hk
    have hle : h.1 ≤ T.tFragCount := by
      unfold Ascending at hasc
      rw [List.map_append, List.pairwise_append] at hasc
      have := hasc.2.2 h.1 (List.mem_map_of_mem hm) ft (by simp)
      rcases hft with rfl | rfl
      · exact Nat.le_trans this frag_index_le
      · exact this
    rcases low_fields (h.1, k) hk hle with h1 | h1 | h1
    · exact hnf h (by simp [hm]) h1
    · exact (hpre h hm).1 h1
    · exact (hpre h hm).2 h1
  have e1 : (pre ++ (ft, fv) :: post) ++ rest = pre ++ (ft, fv) :: (post ++ rest) := by simp
  rw [e1] at hsz hlen ⊢
  exact parseLp_fragmented pre (post ++ rest) ft fv hft hunk hsz hlen

/-- **lp_fragment_rejected_general.** Every envelope whose headers are in increasing type-number order and
    include a FragIndex or a FragCount header - whatever the other headers (Sequence, HopCount, PitToken, Nack,
    …) and their values are, and whatever follows the headers (a Fragment or not) - never reaches the tables:
    reception drops it without any effect (or fails, only if the `except` tuple of the source were insufficient,
    which C06 excludes); it never completes a pending Interest and never invokes a handler.  Holds for both
    front-ends (`g` arbitrary). -/
theorem lp_fragment_rejected_general (g : Guards) (hg : g.lpType = T.tLpPacket) (int : Bytes → Except PyErr IntFacts)
    (data : Bytes → Except PyErr DataFacts) (st : State) (hdrs rest : List (Nat × Bytes))
    (hasc : Ascending hdrs) (hnf : ∀ h ∈ hdrs, h.1 ≠ T.tFragment)
    (hex : ∃ h ∈ hdrs, h.1 = T.tFragIndex ∨ h.1 = T.tFragCount)
    (hsz : ∀ e ∈ hdrs ++ rest, e.1 < 2^64 ∧ e.2.length < 2^64)
    (hlen : (wireOf (hdrs ++ rest)).length < 2^64) :
    ∀ res, receive g (decoders T int data) st T.tLpPacket (tlv T.tLpPacket (wireOf (hdrs ++ rest))) = .ok res →
      res = (st, []) := by
  obtain ⟨e, he⟩ := parseLp_fragmented_general hdrs rest hasc hnf hex hsz hlen
  intro res h0
  have h : receive g (decoders T int data) st g.lpType (tlv T.tLpPacket (wireOf (hdrs ++ rest))) = .ok res := by
    rw [hg]; exact h0
  simp only [receive, if_true, guarded, decoders, he] at h
  split at h
  · simp only [Except.ok.injEq] at h; exact h.symm
  · simp at h

/-- non-vacuity: Sequence, FragCount (no FragIndex), HopCount, PitToken, Nack, CongestionMark, then the Fragment -/
example : Ascending [(81, [0, 0, 0, 0, 0, 0, 0, 1]), (83, [2]), (84, [1]), (98, [170]), (800, [253, 3, 33, 1, 50]), (832, [1])] ∧
    parseLp T (tlv T.tLpPacket (wireOf ([(81, [0, 0, 0, 0, 0, 0, 0, 1]), (83, [2]), (84, [1]), (98, [170]),
      (800, [253, 3, 33, 1, 50]), (832, [1])] ++ [(80, [5, 0])]))) = .error .decodeError :=
  ⟨by unfold Ascending; decide, by rfl⟩

/-! ### the PIT token of every increasing-order envelope -/

theorem sized_suffix (pre hdrs : List (Nat × Bytes)) (p : Bytes) (hs : Sized (pre ++ hdrs) p) : Sized hdrs p := by
  refine ⟨fun h hm => hs.1 h (List.mem_append_right _ hm), hs.2.1, ?_⟩
  have := hs.2.2
  simp only [List.append_assoc, wireOf_length_append pre] at this
  omega

/-- headers of types the format does not have, in front of the others, are invisible to the decoder -/
theorem parseLp_skip_unknown (pre hdrs : List (Nat × Bytes)) (p : Bytes) (hs : Sized (pre ++ hdrs) p)
    (hpre : ∀ h ∈ pre, Unknown h.1) : parseLp T (lpWrap (pre ++ hdrs) p) = parseLp T (lpWrap hdrs p) := by
  have hs' := sized_suffix pre hdrs p hs
  have hsz : ∀ (hd : List (Nat × Bytes)), Sized hd p → ∀ e ∈ hd ++ [(T.tFragment, p)], e.1 < 2^64 ∧ e.2.length < 2^64 := by
    intro hd hsd e he
    simp only [List.mem_append, List.mem_singleton] at he
    rcases he with he | rfl
    · exact hsd.1 e he
    · exact ⟨consts_distinct.2.2.2.2.2.2.1, hsd.2.1⟩
  unfold parseLp lpWrap
  rw [parseAndCheckTl_tlv _ _ consts_distinct.2.2.2.2.2.1 hs.2.2,
    parseAndCheckTl_tlv _ _ consts_distinct.2.2.2.2.2.1 hs'.2.2]
  simp only [bind, Except.bind]
  rw [parseValue_elems T _ (hsz _ hs), parseValue_elems T _ (hsz _ hs'), List.append_assoc,
    collect_skip_unknown _ _ _ pre (fun h hm => ⟨hpre h hm, Or.inr rfl⟩)]

/-- the envelope decoder returns the value of the PitToken header as the token whenever only headers unknown to
    the format precede it -/
theorem parseLp_token_general (pre rest : List (Nat × Bytes)) (tk p : Bytes)
    (hs : Sized (pre ++ (T.tPitToken, tk) :: rest) p)
    (hpre : ∀ h ∈ pre, Unknown h.1) (hok : ∀ h ∈ rest, HdrOk h) :
    parseLp T (lpWrap (pre ++ (T.tPitToken, tk) :: rest) p)
      = .ok { nack := none, pitToken := some tk, fragment := some p } := by
  rw [parseLp_skip_unknown pre _ p hs hpre]
  have hok' : ∀ h ∈ (T.tPitToken, tk) :: rest, HdrOk h := by
    intro h hm
    simp only [List.mem_cons] at hm
    rcases hm with rfl | hm
    · refine ⟨by dsimp only; decide, by dsimp only; decide, by dsimp only; decide, by dsimp only; decide, ?_⟩
      intro k hk
      have := token_kind _ hk rfl
      simp only at this
      subst this
      trivial
    · exact hok h hm
  obtain ⟨tok, hp, _, _, h3⟩ := parseLp_wrapped _ p (sized_suffix pre _ p hs) hok'
  rw [h3 tk rest rfl] at hp
  exact hp

/-- **token_general.** For every envelope around a network packet `p = tlv t v` in which a PitToken header is
    preceded only by headers of types the format does not have (Sequence, HopCount, … - any number, any
    values) and followed by any optional headers: reception is that of the bare packet with exactly that
    header's value as the PIT token handed to the handler's reply closure. -/
theorem token_general (g : Guards) (hg : g.lpType = T.tLpPacket)
    (int : Bytes → Except PyErr IntFacts) (data : Bytes → Except PyErr DataFacts) (st : State)
    (pre rest : List (Nat × Bytes)) (tk : Bytes) (t : Nat) (v : Bytes) (ht : t < 2^64)
    (hs : Sized (pre ++ (T.tPitToken, tk) :: rest) (tlv t v))
    (hpre : ∀ h ∈ pre, Unknown h.1) (hok : ∀ h ∈ rest, HdrOk h) :
    receive g (decoders T int data) st T.tLpPacket (lpWrap (pre ++ (T.tPitToken, tk) :: rest) (tlv t v))
      = receiveNet g (decoders T int data) st none (some tk) t (tlv t v) := by
  have htl : parseTlNum (tlv t v) 0 = .ok (t, tlNumSize t) := by
    unfold tlv; rw [List.append_assoc]; exact parse_write t _ ht
  rw [← hg, receive_lp_ok g int data st _ _ _ t _ (parseLp_token_general pre rest tk _ hs hpre hok) rfl htl]
  rfl

/-- **token_ascending.** For every envelope of optional headers in increasing type-number order: the PIT token
    is the value of its (first) PitToken header - in increasing order only headers unknown to the format can
    precede it.  (Without a PitToken header there is no token: `lp_transparent`.) -/
theorem token_ascending (g : Guards) (hg : g.lpType = T.tLpPacket)
    (int : Bytes → Except PyErr IntFacts) (data : Bytes → Except PyErr DataFacts) (st : State)
    (pre rest : List (Nat × Bytes)) (tk : Bytes) (t : Nat) (v : Bytes) (ht : t < 2^64)
    (hs : Sized (pre ++ (T.tPitToken, tk) :: rest) (tlv t v))
    (hasc : Ascending (pre ++ (T.tPitToken, tk) :: rest))
    (hfirst : ∀ h ∈ pre, h.1 ≠ T.tPitToken)
    (hok : ∀ h ∈ pre ++ rest, HdrOk h) :
    receive g (decoders T int data) st T.tLpPacket (lpWrap (pre ++ (T.tPitToken, tk) :: rest) (tlv t v))
      = receiveNet g (decoders T int data) st none (some tk) t (tlv t v) := by
  apply token_general g hg int data st pre rest tk t v ht hs _ (fun h hm => hok h (List.mem_append_right _ hm))
  intro h hm k hk
  have hle : h.1 ≤ T.tPitToken := by
    unfold Ascending at hasc
    rw [List.map_append, List.pairwise_append] at hasc
    exact hasc.2.2 h.1 (List.mem_map_of_mem hm) T.tPitToken (by simp)
  have hh := hok h (List.mem_append_left _ hm)
  rcases low_fields_token (h.1, k) hk hle with h1 | h1 | h1 | h1
  · exact hh.1 h1
  · exact hh.2.1 h1
  · exact hh.2.2.1 h1
  · exact hfirst h hm h1

/-- non-vacuity: Sequence and HopCount before the token, CongestionMark, Ack, TxSequence and an unknown header
    after it, in increasing type order -/
example : Ascending ([(81, [0, 0, 0, 0, 0, 0, 0, 1]), (84, [2])] ++ (T.tPitToken, [1, 2, 3]) :: [(832, [1]), (836, [1]), (840, [2]), (1000, [9])]) ∧
    (∀ h ∈ [((81 : Nat), ([0, 0, 0, 0, 0, 0, 0, 1] : Bytes)), (84, [2])], Unknown h.1) ∧
    parseLp T (lpWrap ([(81, [0, 0, 0, 0, 0, 0, 0, 1]), (84, [2])] ++ (T.tPitToken, [1, 2, 3]) ::
      [(832, [1]), (836, [1]), (840, [2]), (1000, [9])]) [5, 0])
      = .ok { nack := none, pitToken := some [1, 2, 3], fragment := some [5, 0] } := by
  refine ⟨by unfold Ascending; decide, ?_, by rfl⟩
  intro h hm k
  simp only [List.mem_cons, List.not_mem_nil, or_false] at hm
  rcases hm with rfl | rfl <;> revert k <;> simp [T, Gen.C10.table]

/-- The two front-ends as they are in the source today (generated): both recognise the envelope type of the
    generated format; appv2 hands the PIT token to the handler's reply closure, the legacy front-end ignores
    PIT tokens by design (so `token_roundtrip`, `reply_uses_own_token`, `no_token_bare` concern appv2 only, and
    for the legacy front-end `lp_transparent` gives equality outright); both match the implicit digest in
    `_on_nack` and guard its lookup, as `lp_nack` assumes. -/
theorem frontends : Gen.C10.v2.lpType = T.tLpPacket ∧ Gen.C10.v1.lpType = T.tLpPacket ∧
    Gen.C10.v2.usesPitToken = true ∧ Gen.C10.v1.usesPitToken = false ∧
    Gen.C10.v2.nackByDigest = true ∧ Gen.C10.v1.nackByDigest = true ∧
    PyErr.keyError ∈ Gen.C10.v2.caughtNackLookup ∧ PyErr.keyError ∈ Gen.C10.v1.caughtNackLookup := by decide

end Ndn.C10
