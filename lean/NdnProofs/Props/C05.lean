import NdnProofs.Lemmas.PitTies
import NdnModel.Gate
import NdnProofs.Lemmas.GateTimedTable
/-!
# C05 — nothing that requires validation reaches the application unvalidated

**Data side.** Theorems about `Ndn.Pit.run` (the pending-Interest model of C03, which carries the validator
supplied with each Interest as a script `(verdict, latency)`), for every event history - lifetime 0, late awaits,
`no_response` and the linearisations of same-turn ties included - and both front-ends.
Specification vocabulary: `Accepting` (the verdicts that accept: `PASS`, `ALLOW_BYPASS`; legacy: a true value),
`reported` (the verdict a `ValidationFailure` carries), `TakenAt` / `Justified` from `PitSpec`.

**Interest side.** Theorems about `Ndn.Gate.onInterest` (model of `_on_interest` / `submit_interest` after route
lookup) for every combination of ApplicationParameters / signature presence / digest correctness, every route and
every scripted validator answer (all five `ValidResult` values and the raising ones, by cases).
-/
namespace Ndn.C05
open Ndn Ndn.Pit Ndn.Gate

/-- the verdicts that accept a packet -/
def Accepting : Verdict → Prop
  | .pass => True
  | .allowBypass => True
  | _ => False

instance : DecidablePred Accepting := fun v => by cases v <;> unfold Accepting <;> infer_instance

/-- the verdict a validation failure carries: the validator's own verdict in the current front-end
    (a validator that raised `TimeoutError` counts as `TIMEOUT`); the legacy `ValidationFailure` always says `FAIL` -/
def reported (fe : FrontEnd) (v : Verdict) : Verdict :=
  match fe, v with
  | .v1, _ => .fail
  | .v2, .raiseTimeout => .timeout
  | .v2, v => v

theorem outcome_data_iff (fe : FrontEnd) (v : Verdict) (d : Nat) (o : Outcome) (d' : Nat)
    (h : validatorOutcome fe v d = some o) : o = .data d' ↔ (d' = d ∧ Accepting v) := by
  rw [validatorOutcome_eq_ref] at h
  cases fe <;> cases v <;> simp [validatorOutcomeRef] at h <;> subst h <;> simp [Accepting] <;> omega

/-- **data_only_if_accepted.** If the awaitable returned the content of Data `d` then - in every history: lifetime 0,
    late awaits and same-turn ties included - a Data with that content matching the Interest arrived while it was
    waiting and not after its deadline (`TakenAt`, at time `at_`), and the validator supplied with the Interest
    accepted it (verdict `PASS` / `ALLOW_BYPASS`; legacy: true).  The validator was started at `vstart` (current
    front-end: when the Data came; legacy: then or, when nobody was awaiting yet, at the first await), the future
    was resolved when it finished (`t0` = start + latency) - in the current front-end before the deadline, or in
    the instant the Data came - and the caller had the payload at `max t0 awaitAt`.  In a history without ties the
    Data came strictly before the deadline and (current front-end) so did the validator's answer.
    (In the legacy front-end the last clause fails: finding F15, see the counterexample below.) -/
theorem data_only_if_accepted (fe : FrontEnd) (evs : List Ev) (i : Nat) (I : Interest)
    (d t : Nat) (hi : (run fe evs).ints[i]? = some I) (hs : (run fe evs).sts[i]? = some (.done (.data d) t)) :
    Accepting I.verdict ∧ ∃ at_ t0, TakenAt fe evs i I.toReq d at_ ∧ t0 = vstart fe at_ I.toReq + I.lat ∧
      t = max t0 I.awaitAt ∧ (fe = .v2 → t0 < I.deadline ∨ I.lat = 0) ∧
      (NoTie evs → at_ < I.deadline ∧ (fe = .v2 → t0 < I.deadline)) := by
  have href := run_refines fe evs
  have hr : (Spec.run fe evs).reqs[i]? = some I.toReq := by rw [← href]; simp [abs, hi]
  have hJ := spec_justified fe evs i I.toReq _ hr (by rw [← href]; exact hs)
  obtain ⟨t0, ⟨d', a, h1, h2, h3, h4⟩, ht⟩ := hJ
  obtain ⟨h5, h6⟩ := (outcome_data_iff fe _ d' _ d h3).mp rfl
  subst h5
  refine ⟨h6, a, t0, h1, h2, ht, h4, fun hn => ?_⟩
  have hlt := taken_before_deadline fe evs hn hr h1
  refine ⟨hlt, fun hfe => ?_⟩
  rcases h4 hfe with h | h
  · exact h
  · subst hfe
    have h' : I.lat = 0 := h
    have : vstart .v2 a I.toReq = a := rfl
    have hlt' : a < I.deadline := hlt
    omega

/-- **other_verdict_failure (what a failure carries).** A `ValidationFailure` carries the Data that was taken for this
    Interest (arrived while it was waiting, matching, not after the deadline) and the verdict of the supplied validator,
    which was not an accepting one; timing as in `data_only_if_accepted`. -/
theorem other_verdict_failure (fe : FrontEnd) (evs : List Ev) (i : Nat) (I : Interest)
    (d t : Nat) (v' : Verdict) (hi : (run fe evs).ints[i]? = some I)
    (hs : (run fe evs).sts[i]? = some (.done (.valFail d v') t)) :
    ¬ Accepting I.verdict ∧ v' = reported fe I.verdict ∧
    ∃ at_ t0, TakenAt fe evs i I.toReq d at_ ∧ t0 = vstart fe at_ I.toReq + I.lat ∧ t = max t0 I.awaitAt ∧
      (fe = .v2 → t0 < I.deadline ∨ I.lat = 0) ∧ (NoTie evs → at_ < I.deadline) := by
  have href := run_refines fe evs
  have hr : (Spec.run fe evs).reqs[i]? = some I.toReq := by rw [← href]; simp [abs, hi]
  have hJ := spec_justified fe evs i I.toReq _ hr (by rw [← href]; exact hs)
  obtain ⟨t0, ⟨d', a, h1, h2, h3, h4⟩, ht⟩ := hJ
  have hv : d' = d ∧ ¬ Accepting I.verdict ∧ v' = reported fe I.verdict := by
    have h3' : validatorOutcome fe I.verdict d' = some (.valFail d v') := h3
    rw [validatorOutcome_eq_ref] at h3'
    revert h3'
    cases fe <;> cases I.verdict <;> simp [validatorOutcomeRef, Accepting, reported] <;> intro a b <;> simp [a, b]
  obtain ⟨h5, h6, h7⟩ := hv
  subst h5
  exact ⟨h6, h7, a, t0, h1, h2, ht, h4, fun hn => taken_before_deadline fe evs hn hr h1⟩

/-- **other_verdict_failure (every other verdict fails).** Current front-end, all five `ValidResult` values by cases:
    when a matching Data reaches a waiting Interest whose validator answers at once, the future is resolved in the
    same instant (`resolve`: the awaiting caller finishes now, a caller that awaits later finds the result then) -
    with the payload for `PASS` / `ALLOW_BYPASS`, with a validation failure carrying this Data and this
    verdict for `FAIL` / `TIMEOUT` / `SILENCE` - and for anything else a validator may hand back (`other`: `False`,
    `None`, `0`, `True`, a string ...: only the two accepting members of `ValidResult` deliver). -/
theorem every_verdict_decides (evs : List Ev) (nm : Name) (dg d : Nat) (i : Nat) (I : Interest)
    (hi : (run .v2 evs).ints[i]? = some I) (hs : (run .v2 evs).sts[i]? = some .waiting)
    (hm : Matches I.toReq nm dg) (hl : I.lat = 0) :
    (I.verdict = .pass ∨ I.verdict = .allowBypass →
      (run .v2 (evs ++ [.data nm dg d])).sts[i]? = some (resolve (run .v2 evs).clock I.toReq (.data d))) ∧
    (I.verdict = .fail ∨ I.verdict = .timeout ∨ I.verdict = .silence ∨ I.verdict = .other →
      (run .v2 (evs ++ [.data nm dg d])).sts[i]? =
        some (resolve (run .v2 evs).clock I.toReq (.valFail d I.verdict))) := by
  have h := (step_old (inv_run .v2 evs) .v2 (.data nm dg d) hi hs).2.1
  rw [← run_snoc] at h
  have hl' : I.toReq.lat = 0 := hl
  simp only [specReact, hm, and_self, if_true, taken, hl', vstart, Nat.le_refl] at h
  constructor
  · intro hv
    rcases hv with hv | hv <;>
    · have hv' : I.toReq.verdict = _ := hv
      rw [h, hv']; rfl
  · intro hv
    rcases hv with hv | hv | hv | hv <;>
    · have hv' : I.toReq.verdict = _ := hv
      rw [h, hv']; rfl

/-- an awaiting caller (the usual case: `await app.express(...)`) finishes in that same instant -/
theorem resolve_awaited (now : Nat) (r : Req) (o : Outcome) (h : r.awaitAt ≤ now) : resolve now r o = .done o now := by
  simp [resolve, h]

/-- **validator_late_timeout.** Current front-end: an Interest whose validator is still running when the deadline is
    reached (it would finish at or after the deadline) times out at the deadline - the later answer of the validator is
    discarded, whatever it is. -/
theorem validator_late_timeout (evs : List Ev) (t : Nat) (i : Nat) (I : Interest) (d fin : Nat)
    (hi : (run .v2 evs).ints[i]? = some I) (hs : (run .v2 evs).sts[i]? = some (.validating d fin))
    (hlate : I.deadline ≤ fin) (hd : I.deadline ≤ max (run .v2 evs).clock t) (evs' : List Ev) :
    (run .v2 (evs ++ [.tick t] ++ evs')).sts[i]? = some (.done .timeout I.deadline) := by
  have h := (step_old (inv_run .v2 evs) .v2 (.tick t) hi hs).2.1
  rw [← run_snoc] at h
  have hlate' : ¬ fin < I.toReq.deadline := by
    have : I.toReq.deadline = I.deadline := rfl
    omega
  have hd' : I.toReq.deadline ≤ max (run .v2 evs).clock t := hd
  have h2 : (run .v2 (evs ++ [.tick t])).sts[i]? = some (.done .timeout I.deadline) := by
    rw [h]
    simp only [specReact, specFire]
    cases validatorOutcome .v2 I.toReq.verdict d <;> simp [hlate', hd']
  exact done_stable .v2 (evs ++ [.tick t]) evs' i _ _ h2

/-- **ties.** Whichever way the events of a turn are ordered (packet before or after the timers of its instant, the
    packets of a burst in any order): a payload is returned only if the supplied validator accepted that Data, and a
    validation failure only if it did not - for every state `reachable` over a history of turns, i.e. for every
    linearisation. -/
theorem tie_data_only_if_accepted (fe : FrontEnd) (h : List Turn) : ∀ σ ∈ reachable fe h,
    ∀ (i : Nat) (I : Interest) (d t : Nat), σ.ints[i]? = some I →
      (σ.sts[i]? = some (IState.done (.data d) t) → Accepting I.verdict) ∧
      (∀ v', σ.sts[i]? = some (IState.done (.valFail d v') t) → ¬ Accepting I.verdict ∧ v' = reported fe I.verdict) := by
  intro σ hσ i I d t hi
  obtain ⟨l, _, rfl⟩ := (mem_reachable fe h σ).mp hσ
  exact ⟨fun hs => (data_only_if_accepted fe l i I d t hi hs).1,
    fun v' hs => ⟨(other_verdict_failure fe l i I d t v' hi hs).1, (other_verdict_failure fe l i I d t v' hi hs).2.1⟩⟩

/-- Finding F15 (legacy front-end): the validator runs after `wait_for`, so a validator that outlives the lifetime
    still returns the payload - lifetime 100, validator latency 300, payload returned at 300. -/
example : (run .v1 [.express [1] none false 100 .pass 300 0 false, .data [1] 1 0, .tick 1000]).sts =
    [.done (.data 0) 300] := by decide
/-- the same history in the current front-end: timeout at the deadline -/
example : (run .v2 [.express [1] none false 100 .pass 300 0 false, .data [1] 1 0, .tick 1000]).sts =
    [.done .timeout 100] := by decide

/-! ### incoming Interests -/

/-- the verdicts that reach the handler, as the proofs below use them; `lets_eq_ref` evaluates the generated
    `delivers` entries of both front-ends to it -/
def letsRef : Verdict → Bool
  | .pass => true
  | .allowBypass => true
  | _ => false

theorem lets_eq_ref (fe : FrontEnd) (v : Verdict) : Gate.lets fe v = letsRef v := by cases fe <;> cases v <;> rfl

/-- the gate with today's values of the generated table written out -/
def onInterestRef (fe : FrontEnd) (dflt : Verdict) (p : IntPkt) : Route → List Act
  | .none => []
  | .noCallback => []
  | .handler val =>
    let sigRequired := p.hasParams || p.hasSig
    if sigRequired && !p.digestOk then [.digestCheck]
    else
      let pre := if sigRequired then [Act.digestCheck] else []
      match fe with
      | .v2 =>
        if sigRequired then
          match val with
          | some v => pre ++ [.validate] ++ (if letsRef v then [.handle] else [])
          | none => pre
        else pre ++ [.handle]
      | .v1 =>
        if p.hasSig then
          let v := match val with | some v => v | none => dflt
          pre ++ [.validate] ++ (if letsRef v then [.handle] else [])
        else pre ++ [.handle]

/-- evaluation of the generated gate table (`Gen.C05.v1`, `Gen.C05.v2`): closed by computation, so a source edit that
    changes `digestWhen` / `validateWhen` / `noValidatorAs` / `plain` / `delivers` stops this - and every theorem
    below - from checking -/
theorem onInterest_eq_ref (fe : FrontEnd) (dflt : Verdict) (p : IntPkt) (r : Route) :
    onInterest fe dflt p r = onInterestRef fe dflt p r := by
  cases r with
  | none => rfl
  | noCallback => rfl
  | handler val =>
    obtain ⟨a, b, c⟩ := p
    cases fe <;> cases a <;> cases b <;> cases c <;> cases val <;>
      simp [onInterest, onInterestRef, lets_eq_ref, Gate.shape, Gen.C05.v1, Gen.C05.v2, Src.SigReq.holds, Verdict.ofVR] <;> rfl

/-- **interest_digest_gate.** An Interest that carries ApplicationParameters or a signature and whose parameters digest
    is wrong is dropped right after the digest check: no validator is consulted, no handler runs (both front-ends,
    every route). -/
theorem interest_digest_gate (fe : FrontEnd) (dflt : Verdict) (p : IntPkt) (r : Route)
    (hreq : p.hasParams = true ∨ p.hasSig = true) (hbad : p.digestOk = false) :
    Act.validate ∉ onInterest fe dflt p r ∧ Act.handle ∉ onInterest fe dflt p r := by
  cases r with
  | none => simp [onInterest_eq_ref, onInterestRef]
  | noCallback => simp [onInterest_eq_ref, onInterestRef]
  | handler val =>
    have : (p.hasParams || p.hasSig) = true := by rcases hreq with h | h <;> simp [h]
    simp [onInterest_eq_ref, onInterestRef, this, hbad]

/-- **interest_validated_before_handler (current front-end).** An Interest that carries ApplicationParameters or a
    signature reaches its handler only if the route has a validator, that validator accepted it (`PASS` /
    `ALLOW_BYPASS`), and digest check and validation came first, in this order.  A missing validator means rejection. -/
theorem interest_validated_before_handler_v2 (dflt : Verdict) (p : IntPkt) (r : Route)
    (hreq : p.hasParams = true ∨ p.hasSig = true) (hh : Act.handle ∈ onInterest .v2 dflt p r) :
    p.digestOk = true ∧ (∃ v, r = .handler (some v) ∧ Accepting v) ∧
    onInterest .v2 dflt p r = [.digestCheck, .validate, .handle] := by
  have hreq' : (p.hasParams || p.hasSig) = true := by rcases hreq with h | h <;> simp [h]
  cases r with
  | none => simp [onInterest_eq_ref, onInterestRef] at hh
  | noCallback => simp [onInterest_eq_ref, onInterestRef] at hh
  | handler val =>
    cases hd : p.digestOk with
    | false => simp [onInterest_eq_ref, onInterestRef, hreq', hd] at hh
    | true =>
      cases val with
      | none => simp [onInterest_eq_ref, onInterestRef, hreq', hd] at hh
      | some v => cases v <;> simp [onInterest_eq_ref, onInterestRef, hreq', hd, letsRef, Accepting] at hh ⊢

/-- **interest_validated_before_handler (legacy front-end).** A *signed* Interest reaches its handler only if the
    validator in force - the route's, or the application-wide default when the route has none - returned a true value,
    after the digest check. -/
theorem interest_validated_before_handler_v1 (dflt : Verdict) (p : IntPkt) (r : Route)
    (hsig : p.hasSig = true) (hh : Act.handle ∈ onInterest .v1 dflt p r) :
    p.digestOk = true ∧
    (∃ val, r = .handler val ∧ Accepting (match val with | some v => v | none => dflt)) ∧
    onInterest .v1 dflt p r = [.digestCheck, .validate, .handle] := by
  have hreq' : (p.hasParams || p.hasSig) = true := by simp [hsig]
  cases r with
  | none => simp [onInterest_eq_ref, onInterestRef] at hh
  | noCallback => simp [onInterest_eq_ref, onInterestRef] at hh
  | handler val =>
    cases hd : p.digestOk with
    | false => simp [onInterest_eq_ref, onInterestRef, hreq', hd] at hh
    | true =>
      cases val with
      | none => cases dflt <;> simp [onInterest_eq_ref, onInterestRef, hd, hsig, letsRef, Accepting] at hh ⊢
      | some v => cases v <;> simp [onInterest_eq_ref, onInterestRef, hd, hsig, letsRef, Accepting] at hh ⊢

/-- every non-accepting answer of the validator in force (all `ValidResult` values other than `PASS` /
    `ALLOW_BYPASS`, and a validator that raises) keeps the Interest from the handler -/
theorem interest_rejected_by_verdict (dflt : Verdict) (p : IntPkt) (v : Verdict)
    (hreq : p.hasParams = true ∨ p.hasSig = true) (hv : ¬ Accepting v) :
    Act.handle ∉ onInterest .v2 dflt p (.handler (some v)) := by
  have hreq' : (p.hasParams || p.hasSig) = true := by rcases hreq with h | h <;> simp [h]
  cases hd : p.digestOk <;> cases v <;> simp [onInterest_eq_ref, onInterestRef, hreq', hd, letsRef, Accepting] at hv ⊢

/-- **plain_interest_no_validator.** An Interest without ApplicationParameters and without signature is delivered to
    the handler of its route without digest check and without consulting any validator (both front-ends). -/
theorem plain_interest_no_validator (fe : FrontEnd) (dflt : Verdict) (p : IntPkt) (val : Option Verdict)
    (h1 : p.hasParams = false) (h2 : p.hasSig = false) :
    onInterest fe dflt p (.handler val) = [.handle] := by
  cases fe <;> simp [onInterest_eq_ref, onInterestRef, h1, h2]

/-! ### the hypotheses are satisfiable -/

example : Act.handle ∈ onInterest .v2 .fail ⟨true, true, true⟩ (.handler (some .allowBypass)) := by decide
-- a route validator that hands back a non-`ValidResult` value (`False`, `None`, ...) keeps the Interest out
example : onInterest .v2 .pass ⟨true, true, true⟩ (.handler (some .other)) = [.digestCheck, .validate] := by decide
example : (run .v2 [.express [1] none false 100 .other 0 0 false, .data [1] 1 5]).sts = [.done (.valFail 5 .other) 0] := by
  decide
example : Act.handle ∈ onInterest .v1 .pass ⟨true, true, true⟩ (.handler none) := by decide
example : onInterest .v2 .pass ⟨true, false, true⟩ (.handler none) = [.digestCheck] := by decide
example : onInterest .v1 .fail ⟨true, false, true⟩ (.handler none) = [.digestCheck, .handle] := by decide
example : (run .v2 [.express [1] none false 100 .silence 0 0 false, .data [1] 1 5]).sts = [.done (.valFail 5 .silence) 0] := by
  decide
example : (run .v2 [.express [1] none false 100 .raiseTimeout 20 0 false, .data [1] 1 5, .tick 50]).sts =
    [.done (.valFail 5 .timeout) 20] := by decide
example : (run .v2 [.express [1] none false 100 .pass 300 0 false, .data [1] 1 0]).sts = [.validating 0 300] := by decide
-- a late await does not let a rejected Data through: the failure is held and raised at the first await
example : (run .v2 [.express [1] none false 100 .fail 0 60 false, .tick 20, .data [1] 1 5, .tick 500]).sts =
    [.done (.valFail 5 .fail) 60] := by decide
-- legacy, late await: the validator is consulted at the first await, and its verdict decides
example : (run .v1 [.express [1] none false 100 .fail 0 60 false, .tick 20, .data [1] 1 5, .tick 500]).sts =
    [.done (.valFail 5 .fail) 60] ∧
    (run .v1 [.express [1] none false 100 .fail 0 60 false, .tick 20, .data [1] 1 5, .tick 500]).vcalls = [(0, 5, 60)] := by
  decide
-- a tie (Data in the turn of the deadline): the payload is allowed only through the validator
example : allowed .v2 [⟨0, [.express [1] none false 100 .fail 0 0 false]⟩, ⟨100, [.data [1] 1 5]⟩] =
    [[.done .timeout 100], [.done (.valFail 5 .fail) 100], [.done .timeout 100], [.done (.valFail 5 .fail) 100]] := by
  decide

/-! ### what the models take from the source text

`Ndn.Gen.C05` (lean/NdnGen/C05.lean: the gate of both `_on_interest`, `types.ValidResult`, the two digest checkers) and
the verdict part of `Ndn.Gen.C03` (lean/NdnGen/C03.lean: `PendingIntEntry.satisfy`, legacy `_wait_for_data`) are
regenerated from the source by every check run (`harness/props/pit_extract.py`, `ast` only).  `Gate.onInterest` and
`Pit.validatorOutcome` compute with them (`onInterest_eq_ref`, `validatorOutcome_eq_ref` evaluate them), so the
theorems above are about the generated values; the remaining shapes are pinned entry by entry. -/

/-- `class ValidResult(Enum)`: exactly these five members with these values; `ValidationFailure` defaults to `FAIL` -/
theorem gen_valid_result :
    Gen.C05.validResult = [(.fail, -2), (.timeout, -1), (.silence, 0), (.pass, 1), (.allowBypass, 2)] ∧
    Gen.C05.validResultNames = ["FAIL", "TIMEOUT", "SILENCE", "PASS", "ALLOW_BYPASS"] ∧
    Gen.C05.failureDefault = .fail := by decide

/-- Data: only `PASS` and `ALLOW_BYPASS` reach `set_result` (current); a true value (legacy).  `TimeoutError` /
    `CancelledError` of the validator read as `TIMEOUT`, nothing else is caught; the "future already done" guard sits
    between the validator call and completing the future -/
theorem gen_data_delivers :
    Gen.C03.v2.dataDelivers = .only [.pass, .allowBypass] ∧ Gen.C03.v1.dataDelivers = .truthy ∧
    Gen.C03.v2.dataCaught = [.timeoutError, .cancelledError] ∧ Gen.C03.v2.dataCaughtAs = .timeout ∧
    Gen.C03.v1.dataCaught = [] ∧ Gen.C03.v2.dataNoValidator = "valid = ValidResult.FAIL" ∧
    Gen.C03.v1.dataNoValidator = "validator = self.data_validator" ∧
    Gen.C03.nodeV2.satisfyDone = "if self.future.cancelled() or self.future.done(): return" ∧
    Pit.tableOk = true := by decide

/-- Interests: only `PASS` and `ALLOW_BYPASS` reach the handler (current); a true value (legacy).  A route without
    validator is `FAIL` without consulting anything (current) / falls back to the application-wide validator (legacy);
    an Interest that needs no validation is `PASS` / `True` -/
theorem gen_interest_delivers :
    Gen.C05.v2.delivers = .only [.pass, .allowBypass] ∧ Gen.C05.v1.delivers = .truthy ∧
    Gen.C05.v2.noValidatorAs = some .fail ∧ Gen.C05.v2.noValidator = "valid = ValidResult.FAIL" ∧
    Gen.C05.v1.noValidatorAs = none ∧
    Gen.C05.v1.noValidator = "validator = node.validator if node.validator else self.int_validator" ∧
    Gen.C05.v2.plain = .pass ∧ Gen.C05.v1.plain = .pass ∧ Gate.tableOk = true := by decide

/-- the order of the gate: route lookup, callback test, digest check, validator, handler - in both front-ends -/
theorem gen_gate_order :
    Gen.C05.v2.order = ["route", "callback", "digest", "validate", "handle"] ∧
    Gen.C05.v1.order = ["route", "callback", "digest", "validate", "handle"] := by decide

/-- when the steps are required: the digest check for ApplicationParameters or a signature (both); the validator for
    the same (current) / for a signature only (legacy); a failed digest check returns at once -/
theorem gen_gate_when :
    Gen.C05.v2.digestWhen = .paramsOrSig ∧ Gen.C05.v1.digestWhen = .paramsOrSig ∧
    Gen.C05.v2.validateWhen = .paramsOrSig ∧ Gen.C05.v1.validateWhen = .sigOnly ∧
    Gen.C05.v2.digestFail = "if not await params_sha256_checker(name, sig): return" ∧
    Gen.C05.v1.digestFail = Gen.C05.v2.digestFail ∧
    Gen.C05.v2.validatorArgs = "name, sig, context" ∧ Gen.C05.v1.validatorArgs = "name, sig" := by decide

/-- `params_sha256_checker` / `sha256_digest_checker`: the computed SHA-256 is compared with `==` against the whole
    value in the packet, an empty covered part or value fails, over these `SignaturePtrs` fields; the legacy default
    validators are `sha256_digest_checker`, which passes every packet that is not DigestSha256-signed -/
theorem gen_digest_checkers :
    Gen.C05.paramsCmp = .fullEq ∧ Gen.C05.digestCmp = .fullEq ∧
    Gen.C05.paramsEmpty = "if not covered_part or not sig_value: ret = False" ∧ Gen.C05.digestEmpty = Gen.C05.paramsEmpty ∧
    Gen.C05.paramsFields = ["sig.digest_covered_part", "sig.digest_value_buf"] ∧
    Gen.C05.digestFields = ["sig.signature_covered_part", "sig.signature_info", "sig.signature_value_buf"] ∧
    Gen.C05.digestScope = "checks when SignatureType.DIGEST_SHA256 == sig_info.signature_type and sig_info; otherwise: return True" ∧
    Gen.C05.legacyDefaults = ["self.data_validator = sha256_digest_checker", "self.int_validator = sha256_digest_checker"] := by
  decide

/-- **the digest gate is exact.** With the comparison found in the source, `params_sha256_checker` accepts a computed
    digest exactly when it equals the ParametersSha256DigestComponent value - not a prefix of it, not a longer string
    starting with it (what `IntPkt.digestOk` stands for in `interest_digest_gate`). -/
theorem digest_check_exact (computed value : Bytes) : paramsChecker computed value = true ↔ computed = value := by
  show Src.BytesCmp.holds .fullEq computed value = true ↔ _
  simp [Src.BytesCmp.holds]

example : paramsChecker [1, 2, 3] [1, 2] = false := by decide
example : Src.BytesCmp.holds .zipAll [1, 2, 3] [1, 2] = true := by decide

/-! ### incoming Interests, timed: validation takes time and the routing table may change meanwhile

Theorems about `Ndn.GateTimed.run` (NdnModel/GateTimed.lean: a small-step machine over the events attach / detach /
arrive / start / done / deadline, node objects on a heap, Interests in flight holding the node object `_on_interest`
kept), for every event history and both front-ends.  Specification vocabulary: `obsAfter` (what is observed about
the Interest that arrives after `pre`), `toksIn` / `started` / `answer` (its own events: its task started; the first
answer of its validator after that), `captured` (what the table held for its name at the instant of arrival),
`registered` / `C04.attached` / `C04.IsLongestAttached` (the registrations a history denotes). -/

open Ndn.GateTimed (Obs Tok obsOf arrivals captured registered ops tokOf started answer life TNode ProperT Iid Vid Phase
  arrivalF startF doneF conclude tshape)

/-- calling `node.callback` (a `None` callback would be a TypeError inside the task; `captured_callback`: unreachable) -/
def deliverRef (i : Iid) (nd : TNode) : List Obs :=
  match nd.callback with
  | some h => [.handle i h]
  | none => [.died i .typeError]

/-- what the validator's answer leads to: an exception ends the task, an accepting verdict calls the handler -/
def finRef (i : Iid) (nd : TNode) : Verdict → List Obs
  | .raiseTimeout => [.died i .timeoutError]
  | .raiseOther => [.died i .scripted]
  | v => if letsRef v then deliverRef i nd else []

/-- evaluation of the generated tables (`Gen.C05`, `Gen.C05T`): nothing is caught around the validator call -/
theorem doneF_eq_ref (fe : FrontEnd) (i : Iid) (nd : TNode) (v : Verdict) :
    doneF fe i nd v = (.finished, finRef i nd v) := by
  obtain ⟨cb, val⟩ := nd
  cases fe <;> cases v <;> cases cb <;>
    simp [doneF, conclude, finRef, deliverRef, lets_eq_ref, letsRef, tshape, Gen.C05T.v1, Gen.C05T.v2, Pit.validOf,
      GateTimed.excOf]

/-- the validator `submit_interest` consults: the node's, else (legacy only) the application-wide one -/
def inForce (fe : FrontEnd) (av : Vid) (nd : TNode) : Option Vid :=
  match nd.validator, fe with
  | some vid, _ => some vid
  | none, .v1 => some av
  | none, .v2 => none

/-- the life of one Interest with today's values of the generated tables written out: `st` = its task has started,
    `ans` = what its validator answered -/
def lifeRef (fe : FrontEnd) (av : Vid) (i : Iid) (pkt : IntPkt) (nd : TNode) (st : Bool) (ans : Option Verdict) :
    Phase × List Obs :=
  let needs := pkt.hasParams || pkt.hasSig
  let pre := if needs then [Obs.digest i] else []
  if needs && !pkt.digestOk then (.finished, pre)
  else if !st then (.queued, pre)
  else
    let validates := match fe with | .v2 => needs | .v1 => pkt.hasSig
    if validates then
      match inForce fe av nd with
      | none => (.finished, pre)
      | some vid =>
        match ans with
        | none => (.validating vid, pre ++ [.validate i vid])
        | some v => (.finished, pre ++ [.validate i vid] ++ finRef i nd v)
    else (.finished, pre ++ deliverRef i nd)

/-- evaluation of the generated tables: closed by computation, so a source edit that changes when the digest check /
    the validator are required, what stands in for a missing validator, the delivering verdicts or the `except` clauses
    around the validator call stops this - and every `timed_*` theorem - from checking -/
theorem life_eq_ref (fe : FrontEnd) (av : Vid) (i : Iid) (pkt : IntPkt) (nd : TNode) (toks : List Tok) :
    life fe av i pkt (some nd) toks = lifeRef fe av i pkt nd (started toks) (answer toks) := by
  rw [GateTimed.life_eq]
  simp only [doneF_eq_ref]
  obtain ⟨a, b, c⟩ := pkt
  obtain ⟨cb, val⟩ := nd
  cases fe <;> cases a <;> cases b <;> cases c <;> cases val <;> cases cb <;> cases started toks <;> cases answer toks <;>
    simp [lifeRef, inForce, arrivalF, startF, conclude, deliverRef, lets_eq_ref, letsRef, Gate.shape, Gen.C05.v1, Gen.C05.v2,
      Src.SigReq.holds, Verdict.ofVR]

/-- `_on_interest` only keeps a node that carries a callback -/
theorem captured_callback (s : GateTimed.St) (n : GateTimed.Name) (nd : TNode) (h : captured s n = some nd) :
    nd.callback.isSome := by
  unfold captured at h
  cases hc : GateTimed.capture s n with
  | none => rw [hc] at h; cases h
  | some an =>
    rw [hc] at h
    simp only [Option.map_some, Option.some.injEq] at h
    have := (GateTimed.capture_some (a := an.1) (nd := an.2) (by rw [hc])).2
    rw [h] at this; exact this

/-- the observations about the Interest that arrives after `pre`, once `post` has happened -/
def obsAfter (fe : FrontEnd) (av : Vid) (pre : List GateTimed.Ev) (n : GateTimed.Name) (pkt : IntPkt)
    (post : List GateTimed.Ev) : List Obs :=
  obsOf (arrivals pre) (GateTimed.run fe av (pre ++ .arrive n pkt :: post)).log

/-- its own events in `post` -/
def toksIn (pre post : List GateTimed.Ev) : List Tok := post.filterMap (tokOf (arrivals pre))

/-- **timed_flight (one Interest, every history).** For every history `pre ++ [arrive n pkt] ++ post` - attach / detach
    at any instant before, during and after the validation, any number of other Interests in flight, deadlines - what is
    observed about the arriving Interest (digest check, validator calls, handler calls, death of its task: `obsAfter`) is
    `life` of (1) the fields of the node object found for its name AT THE INSTANT OF ARRIVAL (`captured`) and (2) its own
    `start` / `done` events in `post`.  Nothing else of the history matters: the validator is read from, and the handler
    called on, the node object kept at arrival, and a node object that carries a callback is never written again
    (`GateTimed.heap_frozen`). -/
theorem timed_flight (fe : FrontEnd) (av : Vid) (pre post : List GateTimed.Ev) (n : GateTimed.Name) (pkt : IntPkt) :
    obsAfter fe av pre n pkt post =
      (life fe av (arrivals pre) pkt (captured (GateTimed.run fe av pre) n) (toksIn pre post)).2 :=
  GateTimed.run_flight_obs fe av pre post n pkt

/-- `timed_flight` with the tables evaluated and the canonical form: only whether the task started and the first answer
    after that count -/
theorem timed_flight_ref (fe : FrontEnd) (av : Vid) (pre post : List GateTimed.Ev) (n : GateTimed.Name) (pkt : IntPkt) :
    obsAfter fe av pre n pkt post =
      match captured (GateTimed.run fe av pre) n with
      | none => []
      | some nd => (lifeRef fe av (arrivals pre) pkt nd (started (toksIn pre post)) (answer (toksIn pre post))).2 := by
  rw [timed_flight]
  cases captured (GateTimed.run fe av pre) n with
  | none => rfl
  | some nd => simp only [life_eq_ref]

/-- **table changes and other Interests are irrelevant.** Two continuations that agree on the Interest's own `start` /
    `done` events - whatever attach / detach calls, other arrivals, other Interests' validators (accepting, refusing or
    raising) and deadlines they hold - lead to the same observations about it.  In particular a raising validator of
    ANOTHER Interest changes nothing here: the exception stays in that Interest's own `submit_interest` task. -/
theorem timed_only_own_events (fe : FrontEnd) (av : Vid) (pre post post' : List GateTimed.Ev) (n : GateTimed.Name)
    (pkt : IntPkt) (h : toksIn pre post' = toksIn pre post) :
    obsAfter fe av pre n pkt post' = obsAfter fe av pre n pkt post := by
  rw [timed_flight, timed_flight, h]

/-- **(a) current front-end: delivered only through the validator registered with that handler.**  An Interest that
    carries ApplicationParameters (also empty) or a signature is handed to a handler `h` - in any history - only if the
    node found at arrival held `h` TOGETHER WITH a validator `vid` (never a node without validator), its digest was
    right, its task started, the validator answered (the first `done` after the `start`: an answer for THIS Interest)
    with an accepting verdict, and exactly this was observed, in this order: digest check, `vid` called, `h` called.
    Since this holds for every history it holds for every prefix of one: no delivery before the accepting answer
    (`timed_not_before_verdict`). -/
theorem timed_validated_before_handler_v2 (av : Vid) (pre post : List GateTimed.Ev) (n : GateTimed.Name) (pkt : IntPkt)
    (h : GateTimed.Hid) (hreq : pkt.hasParams = true ∨ pkt.hasSig = true)
    (hh : Obs.handle (arrivals pre) h ∈ obsAfter .v2 av pre n pkt post) :
    pkt.digestOk = true ∧ ∃ vid v, captured (GateTimed.run .v2 av pre) n = some ⟨some h, some vid⟩ ∧
      started (toksIn pre post) = true ∧ answer (toksIn pre post) = some v ∧ Accepting v ∧
      obsAfter .v2 av pre n pkt post =
        [.digest (arrivals pre), .validate (arrivals pre) vid, .handle (arrivals pre) h] := by
  have hreq' : (pkt.hasParams || pkt.hasSig) = true := by rcases hreq with h | h <;> simp [h]
  rw [timed_flight_ref] at hh ⊢
  cases hc : captured (GateTimed.run .v2 av pre) n with
  | none => rw [hc] at hh; cases hh
  | some nd =>
    rw [hc] at hh
    obtain ⟨cb, val⟩ := nd
    simp only at hh ⊢
    cases hd : pkt.digestOk <;> cases hs : started (toksIn pre post) <;> cases val <;>
      cases ha : answer (toksIn pre post) <;>
      simp [lifeRef, inForce, hreq', hd, hs, ha] at hh ⊢
    rename_i vid v
    cases v <;> cases cb <;> simp [finRef, deliverRef, letsRef, Accepting] at hh ⊢ <;> exact ⟨vid, ⟨hh.symm, rfl⟩, rfl, hh.symm⟩

/-- **(a) legacy front-end**: the same for SIGNED Interests; the validator consulted is the one registered with the
    handler, or the application-wide `int_validator` (`av`) when the handler was registered without one. -/
theorem timed_validated_before_handler_v1 (av : Vid) (pre post : List GateTimed.Ev) (n : GateTimed.Name) (pkt : IntPkt)
    (h : GateTimed.Hid) (hsig : pkt.hasSig = true)
    (hh : Obs.handle (arrivals pre) h ∈ obsAfter .v1 av pre n pkt post) :
    pkt.digestOk = true ∧ ∃ val v, captured (GateTimed.run .v1 av pre) n = some ⟨some h, val⟩ ∧
      started (toksIn pre post) = true ∧ answer (toksIn pre post) = some v ∧ Accepting v ∧
      obsAfter .v1 av pre n pkt post =
        [.digest (arrivals pre), .validate (arrivals pre) (val.getD av), .handle (arrivals pre) h] := by
  rw [timed_flight_ref] at hh ⊢
  cases hc : captured (GateTimed.run .v1 av pre) n with
  | none => rw [hc] at hh; cases hh
  | some nd =>
    rw [hc] at hh
    obtain ⟨cb, val⟩ := nd
    simp only at hh ⊢
    cases hd : pkt.digestOk <;> cases hs : started (toksIn pre post) <;>
      cases ha : answer (toksIn pre post) <;>
      simp [lifeRef, hsig, hd, hs, ha] at hh ⊢
    · cases val <;> simp [inForce] at hh
    · rename_i v
      cases val <;> cases v <;> cases cb <;> simp [inForce, finRef, deliverRef, letsRef, Accepting] at hh ⊢ <;>
        exact ⟨_, ⟨hh.symm, rfl⟩, rfl, hh.symm⟩

/-- validation is required: ApplicationParameters (also empty) or a signature in the current front-end, a signature in
    the legacy one -/
def Validates (fe : FrontEnd) (pkt : IntPkt) : Prop :=
  match fe with
  | .v2 => pkt.hasParams = true ∨ pkt.hasSig = true
  | .v1 => pkt.hasSig = true

/-- **(b) digest gate.** ApplicationParameters or a signature and a wrong / absent / misplaced parameters digest
    (`digestOk = false`): whatever the history, nothing but the digest check is ever observed about the Interest - no
    validator call, no handler call (both front-ends). -/
theorem timed_digest_gate (fe : FrontEnd) (av : Vid) (pre post : List GateTimed.Ev) (n : GateTimed.Name) (pkt : IntPkt)
    (hreq : pkt.hasParams = true ∨ pkt.hasSig = true) (hbad : pkt.digestOk = false) :
    ∀ o ∈ obsAfter fe av pre n pkt post, o = .digest (arrivals pre) := by
  have hreq' : (pkt.hasParams || pkt.hasSig) = true := by rcases hreq with h | h <;> simp [h]
  intro o ho
  rw [timed_flight_ref] at ho
  cases hc : captured (GateTimed.run fe av pre) n with
  | none => rw [hc] at ho; cases ho
  | some nd =>
    rw [hc] at ho
    simpa [lifeRef, hreq', hbad] using ho

/-- **(c) plain Interests.** Without ApplicationParameters and signature: no digest check, no validator call; the
    handler found at arrival is called as soon as the task starts (both front-ends). -/
theorem timed_plain (fe : FrontEnd) (av : Vid) (pre post : List GateTimed.Ev) (n : GateTimed.Name) (pkt : IntPkt)
    (h1 : pkt.hasParams = false) (h2 : pkt.hasSig = false) :
    (captured (GateTimed.run fe av pre) n = none ∧ obsAfter fe av pre n pkt post = []) ∨
    ∃ h val, captured (GateTimed.run fe av pre) n = some ⟨some h, val⟩ ∧
      obsAfter fe av pre n pkt post = if started (toksIn pre post) then [.handle (arrivals pre) h] else [] := by
  rw [timed_flight_ref]
  cases hc : captured (GateTimed.run fe av pre) n with
  | none => exact .inl ⟨rfl, rfl⟩
  | some nd =>
    have hcb := captured_callback _ _ _ hc
    obtain ⟨cb, val⟩ := nd
    cases cb with
    | none => cases hcb
    | some h =>
      refine .inr ⟨h, val, rfl, ?_⟩
      cases fe <;> cases started (toksIn pre post) <;> simp [lifeRef, h1, h2, deliverRef]

def isHandle : Obs → Bool
  | .handle _ _ => true
  | _ => false

theorem filter_deliverRef (i : Iid) (nd : TNode) : ((deliverRef i nd).filter isHandle).length ≤ 1 := by
  unfold deliverRef; split <;> simp [List.filter, isHandle]

theorem filter_finRef (i : Iid) (nd : TNode) (v : Verdict) : ((finRef i nd v).filter isHandle).length ≤ 1 := by
  cases v <;> simp [finRef, letsRef, List.filter, isHandle] <;> exact filter_deliverRef i nd

/-- **(d) at most one delivery per Interest**, in every history, both front-ends, every packet - however many `start` /
    `done` events the history holds for it. -/
theorem timed_at_most_once (fe : FrontEnd) (av : Vid) (pre post : List GateTimed.Ev) (n : GateTimed.Name) (pkt : IntPkt) :
    ((obsAfter fe av pre n pkt post).filter isHandle).length ≤ 1 := by
  rw [timed_flight_ref]
  cases captured (GateTimed.run fe av pre) n with
  | none => simp
  | some nd =>
    have h1 := filter_deliverRef (arrivals pre) nd
    have h2 := fun v => filter_finRef (arrivals pre) nd v
    simp only [lifeRef]
    generalize inForce fe av nd = f
    cases fe <;> cases pkt.hasParams <;> cases pkt.hasSig <;> cases pkt.digestOk <;> cases started (toksIn pre post) <;>
      cases f <;> cases answer (toksIn pre post) <;> simp [List.filter, isHandle] <;>
      first | exact h1 | exact h2 _

/-- **(e) a non-accepting answer keeps the Interest from every handler.**  `FAIL`, `TIMEOUT`, `SILENCE`, a value that is
    no `ValidResult` member, a false value (legacy), or an exception: if that is what the validator answered for this
    Interest, no handler is ever called with it - whatever happens to the table afterwards (both front-ends). -/
theorem timed_rejected (fe : FrontEnd) (av : Vid) (pre post : List GateTimed.Ev) (n : GateTimed.Name) (pkt : IntPkt)
    (v : Verdict) (hval : Validates fe pkt) (ha : answer (toksIn pre post) = some v) (hv : ¬ Accepting v) :
    ∀ h, Obs.handle (arrivals pre) h ∉ obsAfter fe av pre n pkt post := by
  intro h hh
  cases fe with
  | v2 =>
    obtain ⟨_, vid, v', _, _, ha', hacc, _⟩ := timed_validated_before_handler_v2 av pre post n pkt h hval hh
    rw [ha] at ha'; cases ha'; exact hv hacc
  | v1 =>
    obtain ⟨_, val, v', _, _, ha', hacc, _⟩ := timed_validated_before_handler_v1 av pre post n pkt h hval hh
    rw [ha] at ha'; cases ha'; exact hv hacc

/-- as long as the validator has not answered, no handler has the Interest (both front-ends) -/
theorem timed_not_before_verdict (fe : FrontEnd) (av : Vid) (pre post : List GateTimed.Ev) (n : GateTimed.Name)
    (pkt : IntPkt) (hval : Validates fe pkt) (hn : answer (toksIn pre post) = none) :
    ∀ h, Obs.handle (arrivals pre) h ∉ obsAfter fe av pre n pkt post := by
  intro h hh
  cases fe with
  | v2 =>
    obtain ⟨_, vid, v', _, _, ha', _⟩ := timed_validated_before_handler_v2 av pre post n pkt h hval hh
    rw [hn] at ha'; cases ha'
  | v1 =>
    obtain ⟨_, val, v', _, _, ha', _⟩ := timed_validated_before_handler_v1 av pre post n pkt h hval hh
    rw [hn] at ha'; cases ha'

/-- **(e) a validator that raises** (both front-ends - `TimeoutError` and every other exception alike: nothing in
    `submit_interest` catches anything, `gen_timed`): the `submit_interest` task of this Interest ends with that exception
    right after the validator call, nothing is delivered.  The task is nobody's child (`aio.create_task`, never awaited):
    the exception reaches the event loop's exception handler and nothing else - not `_on_interest` / the reception path,
    which returned long ago, and not the other Interests in flight (`timed_only_own_events`). -/
theorem timed_validator_raises (fe : FrontEnd) (av : Vid) (pre post : List GateTimed.Ev) (n : GateTimed.Name)
    (pkt : IntPkt) (h : GateTimed.Hid) (val : Option Vid) (vid : Vid) (v : Verdict)
    (hc : captured (GateTimed.run fe av pre) n = some ⟨some h, val⟩) (hval : Validates fe pkt)
    (hd : pkt.digestOk = true) (hin : inForce fe av ⟨some h, val⟩ = some vid)
    (hs : started (toksIn pre post) = true) (ha : answer (toksIn pre post) = some v)
    (hr : v = .raiseTimeout ∨ v = .raiseOther) :
    obsAfter fe av pre n pkt post =
      [.digest (arrivals pre), .validate (arrivals pre) vid, .died (arrivals pre) (GateTimed.excOf v)] := by
  rw [timed_flight_ref, hc]
  cases fe with
  | v2 =>
    have hreq' : (pkt.hasParams || pkt.hasSig) = true := by rcases hval with h | h <;> simp [h]
    rcases hr with rfl | rfl <;> simp [lifeRef, hreq', hd, hs, ha, hin, finRef, GateTimed.excOf]
  | v1 =>
    have hsig : pkt.hasSig = true := hval
    rcases hr with rfl | rfl <;> simp [lifeRef, hsig, hd, hs, ha, hin, finRef, GateTimed.excOf]

/-- the steps of the atomic model -/
def actOf : Obs → Option Act
  | .digest _ => some .digestCheck
  | .validate _ _ => some .validate
  | .handle _ _ => some .handle
  | .died _ _ => none

/-- the route of the atomic model: what was captured, with the validator's answer as its script -/
def gateRoute (c : Option TNode) (v : Verdict) : Route :=
  match c with
  | none => .none
  | some nd =>
    match nd.callback with
    | none => .noCallback
    | some _ => .handler (nd.validator.map fun _ => v)

/-- **(f) refinement.** Once the Interest's task has started and its validator has answered `v`, the steps observed are
    those of the atomic model `Gate.onInterest` on the table AS IT WAS AT ARRIVAL with `v` as the validator's script -
    also when attach / detach calls fall between arrival and answer; so the theorems about `Gate.onInterest` above
    (`interest_digest_gate`, `interest_validated_before_handler_v2/_v1`, `interest_rejected_by_verdict`,
    `plain_interest_no_validator`) describe every timed run. -/
theorem timed_refines_atomic (fe : FrontEnd) (av : Vid) (pre post : List GateTimed.Ev) (n : GateTimed.Name)
    (pkt : IntPkt) (v : Verdict) (hs : started (toksIn pre post) = true) (ha : answer (toksIn pre post) = some v) :
    (obsAfter fe av pre n pkt post).filterMap actOf =
      onInterest fe v pkt (gateRoute (captured (GateTimed.run fe av pre) n) v) := by
  rw [timed_flight_ref, onInterest_eq_ref]
  cases hc : captured (GateTimed.run fe av pre) n with
  | none => rfl
  | some nd =>
    have hcb := captured_callback _ _ _ hc
    obtain ⟨cb, val⟩ := nd
    cases cb with
    | none => cases hcb
    | some h =>
      obtain ⟨a, b, c⟩ := pkt
      cases fe <;> cases a <;> cases b <;> cases c <;> cases val <;> cases v <;>
        simp [lifeRef, hs, ha, inForce, gateRoute, onInterestRef, finRef, deliverRef, letsRef, actOf]

/-- the special case the atomic model was written for: the task starts and the validator answers with nothing in between -/
theorem timed_atomic_when_undisturbed (fe : FrontEnd) (av : Vid) (pre rest : List GateTimed.Ev) (n : GateTimed.Name)
    (pkt : IntPkt) (v : Verdict) :
    (obsAfter fe av pre n pkt (.start (arrivals pre) :: .done (arrivals pre) v :: rest)).filterMap actOf =
      onInterest fe v pkt (gateRoute (captured (GateTimed.run fe av pre) n) v) := by
  apply timed_refines_atomic <;> simp [toksIn, tokOf, started, answer, GateTimed.afterStart, GateTimed.firstDone]

/-! ### the captured node, in the vocabulary of C04 -/

/-- **the node kept at arrival = the registration in force at the longest attached prefix.**  After any history in
    which every attach carries a handler: `_on_interest` keeps handler `h` and validator `val` iff `(h, val)` is the
    registration in force (`registered`: registering on a free prefix binds handler and validator together, a refused
    duplicate changes nothing, removal unbinds) at the longest attached prefix of the name - `IsLongestAttached` over
    `attached`, the specification of C04, whose theorems (`dispatch_longest`, `attach_dup_refused`,
    `detach_falls_back`, ...) speak about the same table (`GateTimed.cbOf_run`). -/
theorem arrival_registration (fe : FrontEnd) (av : Vid) (pre : List GateTimed.Ev) (hp : ProperT pre) (n : GateTimed.Name)
    (h : GateTimed.Hid) (val : Option Vid) :
    captured (GateTimed.run fe av pre) n = some ⟨some h, val⟩ ↔
      ∃ p, C04.IsLongestAttached (C04.attached (ops pre)) n p ∧ registered pre p = some (h, val) :=
  GateTimed.captured_iff fe av pre hp n h val

/-- nothing is kept iff no attached prefix matches -/
theorem arrival_no_route (fe : FrontEnd) (av : Vid) (pre : List GateTimed.Ev) (hp : ProperT pre) (n : GateTimed.Name) :
    captured (GateTimed.run fe av pre) n = none ↔ ∀ q, q <+: n → C04.attached (ops pre) q = none :=
  GateTimed.captured_none_iff fe av pre hp n

/-- **(a), in specification terms (current front-end).**  In every history: an Interest that requires validation
    reaches a handler `h` only if, at the instant it arrived, `h` was registered at the longest attached prefix of its
    name together with a validator `vid`, and `vid` - called with this Interest after the digest check - returned an
    accepting verdict before `h` was called.  What happened to that registration in the meantime (removed, replaced by
    another handler with another validator, a shorter prefix without validator taking over) has no influence: the new
    registrations get the Interests that arrive after them (C04), this one stays with the handler / validator pair it
    found. -/
theorem timed_handler_only_with_its_validator (av : Vid) (pre post : List GateTimed.Ev) (hp : ProperT pre)
    (n : GateTimed.Name) (pkt : IntPkt) (h : GateTimed.Hid) (hreq : pkt.hasParams = true ∨ pkt.hasSig = true)
    (hh : Obs.handle (arrivals pre) h ∈ obsAfter .v2 av pre n pkt post) :
    ∃ p vid v, C04.IsLongestAttached (C04.attached (ops pre)) n p ∧ registered pre p = some (h, some vid) ∧
      answer (toksIn pre post) = some v ∧ Accepting v ∧
      obsAfter .v2 av pre n pkt post =
        [.digest (arrivals pre), .validate (arrivals pre) vid, .handle (arrivals pre) h] := by
  obtain ⟨_, vid, v, hc, _, ha, hacc, hl⟩ := timed_validated_before_handler_v2 av pre post n pkt h hreq hh
  obtain ⟨p, h1, h2⟩ := (arrival_registration .v2 av pre hp n h (some vid)).mp hc
  exact ⟨p, vid, v, h1, h2, ha, hacc, hl⟩

/-- the same for signed Interests in the legacy front-end (`val = none`: the application-wide validator decided) -/
theorem timed_handler_only_with_its_validator_v1 (av : Vid) (pre post : List GateTimed.Ev) (hp : ProperT pre)
    (n : GateTimed.Name) (pkt : IntPkt) (h : GateTimed.Hid) (hsig : pkt.hasSig = true)
    (hh : Obs.handle (arrivals pre) h ∈ obsAfter .v1 av pre n pkt post) :
    ∃ p val v, C04.IsLongestAttached (C04.attached (ops pre)) n p ∧ registered pre p = some (h, val) ∧
      answer (toksIn pre post) = some v ∧ Accepting v ∧
      obsAfter .v1 av pre n pkt post =
        [.digest (arrivals pre), .validate (arrivals pre) (val.getD av), .handle (arrivals pre) h] := by
  obtain ⟨_, val, v, hc, _, ha, hacc, hl⟩ := timed_validated_before_handler_v1 av pre post n pkt h hsig hh
  obtain ⟨p, h1, h2⟩ := (arrival_registration .v1 av pre hp n h val).mp hc
  exact ⟨p, val, v, h1, h2, ha, hacc, hl⟩

/-- the deadline of an Interest plays no part in the gate (it only bounds `reply`, C04) -/
theorem timed_deadline_irrelevant (fe : FrontEnd) (av : Vid) (s : GateTimed.St) (i : Iid) :
    GateTimed.step fe av s (.deadline i) = s := rfl

/-- **gen_timed.** What the timed model mirrors of the source text of `_on_interest` (lean/NdnGen/C05T.lean, regenerated
    by every check run): ONE `longest_prefix` call and ONE binding of `node` in the whole function, the nested
    `submit_interest` included (a second lookup after the validator - the handler looked up again - changes both
    counts); `submit_interest` is spawned as a task; it reads `node.validator` and calls `node.callback`; no `except`
    clause around the validator call; the only `await` before the spawn is the digest check; attach writes the
    validator always (current) / when one is given (legacy). -/
theorem gen_timed :
    Gen.C05T.v2.lookups = 1 ∧ Gen.C05T.v1.lookups = 1 ∧
    Gen.C05T.v2.nodeBinds = ["node: PrefixTreeNode = trie_step.value"] ∧ Gen.C05T.v1.nodeBinds = ["node = trie_step.value"] ∧
    Gen.C05T.v2.spawn = "aio.create_task(submit_interest())" ∧ Gen.C05T.v1.spawn = Gen.C05T.v2.spawn ∧
    Gen.C05T.v2.validatorRead = "node.validator" ∧ Gen.C05T.v1.validatorRead = "node.validator" ∧
    Gen.C05T.v2.callbackCall = "node.callback" ∧ Gen.C05T.v1.callbackCall = "node.callback" ∧
    Gen.C05T.v2.validatorCaught = [] ∧ Gen.C05T.v1.validatorCaught = [] ∧
    Gen.C05T.v2.awaitsBefore = ["await sec.params_sha256_checker(name, sig)"] ∧
    Gen.C05T.v1.awaitsBefore = ["await params_sha256_checker(name, sig)"] ∧
    Gen.C05T.v2.valWrite = .always ∧ Gen.C05T.v1.valWrite = .ifTruthy ∧ GateTimed.tableOk = true := by decide

/-! ### the timed hypotheses are satisfiable -/

-- the prefix is detached and attached again (other handler, other validator) while validator 10 decides; a handler
-- without validator sits on the shorter prefix: the Interest stays with the pair it found
example : (GateTimed.run .v2 0 [.attach [[103]] (some 1) (some 10), .attach [] (some 2) none,
    .arrive [[103], [120]] ⟨true, false, true⟩, .start 0, .detach [[103]], .attach [[103]] (some 3) (some 11),
    .done 0 .pass]).log = [.digest 0, .validate 0 10, .handle 0 1] := by decide
-- ... and an Interest that arrives after the swap gets the new pair
example : (GateTimed.run .v2 0 [.attach [[103]] (some 1) (some 10), .detach [[103]], .attach [[103]] (some 3) (some 11),
    .arrive [[103], [120]] ⟨true, false, true⟩, .start 0, .done 0 .allowBypass]).log =
    [.digest 0, .validate 0 11, .handle 0 3] := by decide
-- two Interests in flight on one prefix with different verdicts, answers in the opposite order
example : (GateTimed.run .v2 0 [.attach [[103]] (some 1) (some 10), .arrive [[103], [1]] ⟨true, true, true⟩, .start 0,
    .arrive [[103], [2]] ⟨true, true, true⟩, .start 1, .done 1 .pass, .done 0 .fail]).log =
    [.digest 0, .validate 0 10, .digest 1, .validate 1 10, .handle 1 1] := by decide
-- legacy: a signed Interest on a route without validator: the application-wide validator (7) is consulted; it raises
example : (GateTimed.run .v1 7 [.attach [[103]] (some 1) none, .arrive [[103], [120]] ⟨true, true, true⟩,
    .start 0, .detach [[103]], .done 0 .raiseOther]).log = [.digest 0, .validate 0 7, .died 0 .scripted] := by decide
-- current front-end: the validator-less handler on the shorter prefix takes over after the detach - for LATER Interests
example : (GateTimed.run .v2 0 [.attach [[103]] (some 1) (some 10), .attach [] (some 2) none, .detach [[103]],
    .arrive [[103], [120]] ⟨true, false, true⟩, .start 0]).log = [.digest 0] := by decide
example : toksIn [] [GateTimed.Ev.start 0, .detach [[103]], .done 0 .pass, .done 0 .fail] = [.start, .done .pass, .done .fail] ∧
    answer [.start, .done .pass, .done .fail] = some .pass := by decide

end Ndn.C05
