import NdnProofs.Lemmas.PitRun
import NdnModel.Gate
/-!
# C05 — nothing that requires validation reaches the application unvalidated

**Data side.** Theorems about `Ndn.Pit.run` (the pending-Interest model of C03, which carries the validator
supplied with each Interest as a script `(verdict, latency)`), for every event history and both front-ends.
Specification vocabulary: `Accepting` (the verdicts that accept: `PASS`, `ALLOW_BYPASS`; legacy: a true value),
`reported` (the verdict a `ValidationFailure` carries), `TakenAt` / `Justified` from `PitSpec`.

**Interest side.** Theorems about `Ndn.Gate.onInterest` (model of `_on_interest` / `submit_interest` after route
lookup) for every combination of ApplicationParameters / signature presence / digest correctness, every route and
every scripted validator answer (all five `ValidResult` values and the raising ones, by cases).
-/
namespace Ndn.C05
open Ndn Ndn.Pit Ndn.Gate

/-- the verdicts that accept a packet -/
def Accepting : Verdict → Prop
  | .pass => True
  | .allowBypass => True
  | _ => False

instance : DecidablePred Accepting := fun v => by cases v <;> unfold Accepting <;> infer_instance

/-- the verdict a validation failure carries: the validator's own verdict in the current front-end
    (a validator that raised `TimeoutError` counts as `TIMEOUT`); the legacy `ValidationFailure` always says `FAIL` -/
def reported (fe : FrontEnd) (v : Verdict) : Verdict :=
  match fe, v with
  | .v1, _ => .fail
  | .v2, .raiseTimeout => .timeout
  | .v2, v => v

theorem outcome_data_iff (fe : FrontEnd) (v : Verdict) (d : Nat) (o : Outcome) (d' : Nat)
    (h : validatorOutcome fe v d = some o) : o = .data d' ↔ (d' = d ∧ Accepting v) := by
  cases fe <;> cases v <;> simp [validatorOutcome] at h <;> subst h <;> simp [Accepting] <;> omega

/-- **data_only_if_accepted.** If the awaitable returned the content of Data `d` then a Data with that content matching
    the Interest arrived while it was waiting and before its deadline, and the validator supplied with the Interest
    accepted it (verdict `PASS` / `ALLOW_BYPASS`; legacy: true); the result was delivered when the validator finished
    (arrival + latency), and in the current front-end that was before the deadline.  (In the legacy front-end the
    last clause fails: finding F15, see the counterexample below.) -/
theorem data_only_if_accepted (fe : FrontEnd) (evs : List Ev) (hwf : ∀ ev ∈ evs, WFEv ev) (i : Nat) (I : Interest)
    (d t : Nat) (hi : (run fe evs).ints[i]? = some I) (hs : (run fe evs).sts[i]? = some (.done (.data d) t)) :
    Accepting I.verdict ∧ ∃ at_, TakenAt fe evs i I.toReq d at_ ∧ t = at_ + I.lat ∧ (fe = .v2 → t < I.deadline) := by
  have href := run_refines fe evs
  have hJ := spec_justified fe evs hwf i I.toReq _ (by rw [← href]; simp [abs, hi]) (by rw [← href]; exact hs)
  obtain ⟨d', a, h1, h2, h3, h4⟩ := hJ
  obtain ⟨h5, h6⟩ := (outcome_data_iff fe _ d' _ d h3).mp rfl
  subst h5
  exact ⟨h6, a, h1, h2, h4⟩

/-- **other_verdict_failure (what a failure carries).** A `ValidationFailure` carries the Data that was taken for this
    Interest (arrived while it was waiting, matching, before the deadline) and the verdict of the supplied validator,
    which was not an accepting one. -/
theorem other_verdict_failure (fe : FrontEnd) (evs : List Ev) (hwf : ∀ ev ∈ evs, WFEv ev) (i : Nat) (I : Interest)
    (d t : Nat) (v' : Verdict) (hi : (run fe evs).ints[i]? = some I)
    (hs : (run fe evs).sts[i]? = some (.done (.valFail d v') t)) :
    ¬ Accepting I.verdict ∧ v' = reported fe I.verdict ∧
    ∃ at_, TakenAt fe evs i I.toReq d at_ ∧ t = at_ + I.lat ∧ (fe = .v2 → t < I.deadline) := by
  have href := run_refines fe evs
  have hJ := spec_justified fe evs hwf i I.toReq _ (by rw [← href]; simp [abs, hi]) (by rw [← href]; exact hs)
  obtain ⟨d', a, h1, h2, h3, h4⟩ := hJ
  have hv : d' = d ∧ ¬ Accepting I.verdict ∧ v' = reported fe I.verdict := by
    have h3' : validatorOutcome fe I.verdict d' = some (.valFail d v') := h3
    revert h3'
    cases fe <;> cases I.verdict <;> simp [validatorOutcome, Accepting, reported] <;> intro a b <;> simp [a, b]
  obtain ⟨h5, h6, h7⟩ := hv
  subst h5
  exact ⟨h6, h7, a, h1, h2, h4⟩

/-- **other_verdict_failure (every other verdict fails).** Current front-end, all five `ValidResult` values by cases:
    when a matching Data reaches a waiting Interest whose validator answers at once, the Interest finishes in the same
    instant - with the payload for `PASS` / `ALLOW_BYPASS`, with a validation failure carrying this Data and this
    verdict for `FAIL` / `TIMEOUT` / `SILENCE`. -/
theorem every_verdict_decides (evs : List Ev) (nm : Name) (dg d : Nat) (i : Nat) (I : Interest)
    (hi : (run .v2 evs).ints[i]? = some I) (hs : (run .v2 evs).sts[i]? = some .waiting)
    (hm : Matches I.toReq nm dg) (hl : I.lat = 0) :
    (I.verdict = .pass ∨ I.verdict = .allowBypass →
      (run .v2 (evs ++ [.data nm dg d])).sts[i]? = some (.done (.data d) (run .v2 evs).clock)) ∧
    (I.verdict = .fail ∨ I.verdict = .timeout ∨ I.verdict = .silence →
      (run .v2 (evs ++ [.data nm dg d])).sts[i]? = some (.done (.valFail d I.verdict) (run .v2 evs).clock)) := by
  have h := (step_old (inv_run .v2 evs) .v2 (.data nm dg d) hi hs).2.1
  rw [← run_snoc] at h
  have hl' : I.toReq.lat = 0 := hl
  simp only [specReact, hm, and_self, if_true, taken, hl'] at h
  constructor
  · intro hv
    rcases hv with hv | hv <;>
    · have hv' : I.toReq.verdict = _ := hv
      rw [h, hv']; rfl
  · intro hv
    rcases hv with hv | hv | hv <;>
    · have hv' : I.toReq.verdict = _ := hv
      rw [h, hv']; rfl

/-- **validator_late_timeout.** Current front-end: an Interest whose validator is still running when the deadline is
    reached (it would finish at or after the deadline) times out at the deadline - the later answer of the validator is
    discarded, whatever it is. -/
theorem validator_late_timeout (evs : List Ev) (t : Nat) (i : Nat) (I : Interest) (d fin : Nat)
    (hi : (run .v2 evs).ints[i]? = some I) (hs : (run .v2 evs).sts[i]? = some (.validating d fin))
    (hlate : I.deadline ≤ fin) (hd : I.deadline ≤ max (run .v2 evs).clock t) (evs' : List Ev) :
    (run .v2 (evs ++ [.tick t] ++ evs')).sts[i]? = some (.done .timeout I.deadline) := by
  have h := (step_old (inv_run .v2 evs) .v2 (.tick t) hi hs).2.1
  rw [← run_snoc] at h
  have hlate' : ¬ fin < I.toReq.deadline := by
    have : I.toReq.deadline = I.deadline := rfl
    omega
  have hd' : I.toReq.deadline ≤ max (run .v2 evs).clock t := hd
  have h2 : (run .v2 (evs ++ [.tick t])).sts[i]? = some (.done .timeout I.deadline) := by
    rw [h]
    simp only [specReact, specFire]
    cases validatorOutcome .v2 I.toReq.verdict d <;> simp [hlate', hd']
  exact done_stable .v2 (evs ++ [.tick t]) evs' i _ _ h2

/-- Finding F15 (legacy front-end): the validator runs after `wait_for`, so a validator that outlives the lifetime
    still returns the payload - lifetime 100, validator latency 300, payload returned at 300. -/
example : (run .v1 [.express [1] none false 100 .pass 300, .data [1] 1 0, .tick 1000]).sts =
    [.done (.data 0) 300] := by decide
/-- the same history in the current front-end: timeout at the deadline -/
example : (run .v2 [.express [1] none false 100 .pass 300, .data [1] 1 0, .tick 1000]).sts =
    [.done .timeout 100] := by decide

/-! ### incoming Interests -/

/-- **interest_digest_gate.** An Interest that carries ApplicationParameters or a signature and whose parameters digest
    is wrong is dropped right after the digest check: no validator is consulted, no handler runs (both front-ends,
    every route). -/
theorem interest_digest_gate (fe : FrontEnd) (dflt : Verdict) (p : IntPkt) (r : Route)
    (hreq : p.hasParams = true ∨ p.hasSig = true) (hbad : p.digestOk = false) :
    Act.validate ∉ onInterest fe dflt p r ∧ Act.handle ∉ onInterest fe dflt p r := by
  cases r with
  | none => simp [onInterest]
  | noCallback => simp [onInterest]
  | handler val =>
    have : (p.hasParams || p.hasSig) = true := by rcases hreq with h | h <;> simp [h]
    simp [onInterest, this, hbad]

/-- **interest_validated_before_handler (current front-end).** An Interest that carries ApplicationParameters or a
    signature reaches its handler only if the route has a validator, that validator accepted it (`PASS` /
    `ALLOW_BYPASS`), and digest check and validation came first, in this order.  A missing validator means rejection. -/
theorem interest_validated_before_handler_v2 (dflt : Verdict) (p : IntPkt) (r : Route)
    (hreq : p.hasParams = true ∨ p.hasSig = true) (hh : Act.handle ∈ onInterest .v2 dflt p r) :
    p.digestOk = true ∧ (∃ v, r = .handler (some v) ∧ Accepting v) ∧
    onInterest .v2 dflt p r = [.digestCheck, .validate, .handle] := by
  have hreq' : (p.hasParams || p.hasSig) = true := by rcases hreq with h | h <;> simp [h]
  cases r with
  | none => simp [onInterest] at hh
  | noCallback => simp [onInterest] at hh
  | handler val =>
    cases hd : p.digestOk with
    | false => simp [onInterest, hreq', hd] at hh
    | true =>
      cases val with
      | none => simp [onInterest, hreq', hd] at hh
      | some v => cases v <;> simp [onInterest, hreq', hd, lets, Accepting] at hh ⊢

/-- **interest_validated_before_handler (legacy front-end).** A *signed* Interest reaches its handler only if the
    validator in force - the route's, or the application-wide default when the route has none - returned a true value,
    after the digest check. -/
theorem interest_validated_before_handler_v1 (dflt : Verdict) (p : IntPkt) (r : Route)
    (hsig : p.hasSig = true) (hh : Act.handle ∈ onInterest .v1 dflt p r) :
    p.digestOk = true ∧
    (∃ val, r = .handler val ∧ Accepting (match val with | some v => v | none => dflt)) ∧
    onInterest .v1 dflt p r = [.digestCheck, .validate, .handle] := by
  have hreq' : (p.hasParams || p.hasSig) = true := by simp [hsig]
  cases r with
  | none => simp [onInterest] at hh
  | noCallback => simp [onInterest] at hh
  | handler val =>
    cases hd : p.digestOk with
    | false => simp [onInterest, hreq', hd] at hh
    | true =>
      cases val with
      | none => cases dflt <;> simp [onInterest, hd, hsig, lets, Accepting] at hh ⊢
      | some v => cases v <;> simp [onInterest, hd, hsig, lets, Accepting] at hh ⊢

/-- every non-accepting answer of the validator in force (all `ValidResult` values other than `PASS` /
    `ALLOW_BYPASS`, and a validator that raises) keeps the Interest from the handler -/
theorem interest_rejected_by_verdict (dflt : Verdict) (p : IntPkt) (v : Verdict)
    (hreq : p.hasParams = true ∨ p.hasSig = true) (hv : ¬ Accepting v) :
    Act.handle ∉ onInterest .v2 dflt p (.handler (some v)) := by
  have hreq' : (p.hasParams || p.hasSig) = true := by rcases hreq with h | h <;> simp [h]
  cases hd : p.digestOk <;> cases v <;> simp [onInterest, hreq', hd, lets, Accepting] at hv ⊢

/-- **plain_interest_no_validator.** An Interest without ApplicationParameters and without signature is delivered to
    the handler of its route without digest check and without consulting any validator (both front-ends). -/
theorem plain_interest_no_validator (fe : FrontEnd) (dflt : Verdict) (p : IntPkt) (val : Option Verdict)
    (h1 : p.hasParams = false) (h2 : p.hasSig = false) :
    onInterest fe dflt p (.handler val) = [.handle] := by
  cases fe <;> simp [onInterest, h1, h2]

/-! ### the hypotheses are satisfiable -/

example : Act.handle ∈ onInterest .v2 .fail ⟨true, true, true⟩ (.handler (some .allowBypass)) := by decide
example : Act.handle ∈ onInterest .v1 .pass ⟨true, true, true⟩ (.handler none) := by decide
example : onInterest .v2 .pass ⟨true, false, true⟩ (.handler none) = [.digestCheck] := by decide
example : onInterest .v1 .fail ⟨true, false, true⟩ (.handler none) = [.digestCheck, .handle] := by decide
example : (run .v2 [.express [1] none false 100 .silence 0, .data [1] 1 5]).sts = [.done (.valFail 5 .silence) 0] := by
  decide
example : (run .v2 [.express [1] none false 100 .raiseTimeout 20, .data [1] 1 5, .tick 50]).sts =
    [.done (.valFail 5 .timeout) 20] := by decide
example : (run .v2 [.express [1] none false 100 .pass 300, .data [1] 1 0]).sts = [.validating 0 300] := by decide

end Ndn.C05
