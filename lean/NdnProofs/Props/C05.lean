import NdnProofs.Lemmas.PitTies
import NdnModel.Gate
/-!
# C05 — nothing that requires validation reaches the application unvalidated

**Data side.** Theorems about `Ndn.Pit.run` (the pending-Interest model of C03, which carries the validator
supplied with each Interest as a script `(verdict, latency)`), for every event history - lifetime 0, late awaits,
`no_response` and the linearisations of same-turn ties included - and both front-ends.
Specification vocabulary: `Accepting` (the verdicts that accept: `PASS`, `ALLOW_BYPASS`; legacy: a true value),
`reported` (the verdict a `ValidationFailure` carries), `TakenAt` / `Justified` from `PitSpec`.

**Interest side.** Theorems about `Ndn.Gate.onInterest` (model of `_on_interest` / `submit_interest` after route
lookup) for every combination of ApplicationParameters / signature presence / digest correctness, every route and
every scripted validator answer (all five `ValidResult` values and the raising ones, by cases).
-/
namespace Ndn.C05
open Ndn Ndn.Pit Ndn.Gate

/-- the verdicts that accept a packet -/
def Accepting : Verdict → Prop
  | .pass => True
  | .allowBypass => True
  | _ => False

instance : DecidablePred Accepting := fun v => by cases v <;> unfold Accepting <;> infer_instance

/-- the verdict a validation failure carries: the validator's own verdict in the current front-end
    (a validator that raised `TimeoutError` counts as `TIMEOUT`); the legacy `ValidationFailure` always says `FAIL` -/
def reported (fe : FrontEnd) (v : Verdict) : Verdict :=
  match fe, v with
  | .v1, _ => .fail
  | .v2, .raiseTimeout => .timeout
  | .v2, v => v

theorem outcome_data_iff (fe : FrontEnd) (v : Verdict) (d : Nat) (o : Outcome) (d' : Nat)
    (h : validatorOutcome fe v d = some o) : o = .data d' ↔ (d' = d ∧ Accepting v) := by
  rw [validatorOutcome_eq_ref] at h
  cases fe <;> cases v <;> simp [validatorOutcomeRef] at h <;> subst h <;> simp [Accepting] <;> omega

/-- **data_only_if_accepted.** If the awaitable returned the content of Data `d` then - in every history: lifetime 0,
    late awaits and same-turn ties included - a Data with that content matching the Interest arrived while it was
    waiting and not after its deadline (`TakenAt`, at time `at_`), and the validator supplied with the Interest
    accepted it (verdict `PASS` / `ALLOW_BYPASS`; legacy: true).  The validator was started at `vstart` (current
    front-end: when the Data came; legacy: then or, when nobody was awaiting yet, at the first await), the future
    was resolved when it finished (`t0` = start + latency) - in the current front-end before the deadline, or in
    the instant the Data came - and the caller had the payload at `max t0 awaitAt`.  In a history without ties the
    Data came strictly before the deadline and (current front-end) so did the validator's answer.
    (In the legacy front-end the last clause fails: finding F15, see the counterexample below.) -/
theorem data_only_if_accepted (fe : FrontEnd) (evs : List Ev) (i : Nat) (I : Interest)
    (d t : Nat) (hi : (run fe evs).ints[i]? = some I) (hs : (run fe evs).sts[i]? = some (.done (.data d) t)) :
    Accepting I.verdict ∧ ∃ at_ t0, TakenAt fe evs i I.toReq d at_ ∧ t0 = vstart fe at_ I.toReq + I.lat ∧
      t = max t0 I.awaitAt ∧ (fe = .v2 → t0 < I.deadline ∨ I.lat = 0) ∧
      (NoTie evs → at_ < I.deadline ∧ (fe = .v2 → t0 < I.deadline)) := by
  have href := run_refines fe evs
  have hr : (Spec.run fe evs).reqs[i]? = some I.toReq := by rw [← href]; simp [abs, hi]
  have hJ := spec_justified fe evs i I.toReq _ hr (by rw [← href]; exact hs)
  obtain ⟨t0, ⟨d', a, h1, h2, h3, h4⟩, ht⟩ := hJ
  obtain ⟨h5, h6⟩ := (outcome_data_iff fe _ d' _ d h3).mp rfl
  subst h5
  refine ⟨h6, a, t0, h1, h2, ht, h4, fun hn => ?_⟩
  have hlt := taken_before_deadline fe evs hn hr h1
  refine ⟨hlt, fun hfe => ?_⟩
  rcases h4 hfe with h | h
  · exact h
  · subst hfe
    have h' : I.lat = 0 := h
    have : vstart .v2 a I.toReq = a := rfl
    have hlt' : a < I.deadline := hlt
    omega

/-- **other_verdict_failure (what a failure carries).** A `ValidationFailure` carries the Data that was taken for this
    Interest (arrived while it was waiting, matching, not after the deadline) and the verdict of the supplied validator,
    which was not an accepting one; timing as in `data_only_if_accepted`. -/
theorem other_verdict_failure (fe : FrontEnd) (evs : List Ev) (i : Nat) (I : Interest)
    (d t : Nat) (v' : Verdict) (hi : (run fe evs).ints[i]? = some I)
    (hs : (run fe evs).sts[i]? = some (.done (.valFail d v') t)) :
    ¬ Accepting I.verdict ∧ v' = reported fe I.verdict ∧
    ∃ at_ t0, TakenAt fe evs i I.toReq d at_ ∧ t0 = vstart fe at_ I.toReq + I.lat ∧ t = max t0 I.awaitAt ∧
      (fe = .v2 → t0 < I.deadline ∨ I.lat = 0) ∧ (NoTie evs → at_ < I.deadline) := by
  have href := run_refines fe evs
  have hr : (Spec.run fe evs).reqs[i]? = some I.toReq := by rw [← href]; simp [abs, hi]
  have hJ := spec_justified fe evs i I.toReq _ hr (by rw [← href]; exact hs)
  obtain ⟨t0, ⟨d', a, h1, h2, h3, h4⟩, ht⟩ := hJ
  have hv : d' = d ∧ ¬ Accepting I.verdict ∧ v' = reported fe I.verdict := by
    have h3' : validatorOutcome fe I.verdict d' = some (.valFail d v') := h3
    rw [validatorOutcome_eq_ref] at h3'
    revert h3'
    cases fe <;> cases I.verdict <;> simp [validatorOutcomeRef, Accepting, reported] <;> intro a b <;> simp [a, b]
  obtain ⟨h5, h6, h7⟩ := hv
  subst h5
  exact ⟨h6, h7, a, t0, h1, h2, ht, h4, fun hn => taken_before_deadline fe evs hn hr h1⟩

/-- **other_verdict_failure (every other verdict fails).** Current front-end, all five `ValidResult` values by cases:
    when a matching Data reaches a waiting Interest whose validator answers at once, the future is resolved in the
    same instant (`resolve`: the awaiting caller finishes now, a caller that awaits later finds the result then) -
    with the payload for `PASS` / `ALLOW_BYPASS`, with a validation failure carrying this Data and this
    verdict for `FAIL` / `TIMEOUT` / `SILENCE` - and for anything else a validator may hand back (`other`: `False`,
    `None`, `0`, `True`, a string ...: only the two accepting members of `ValidResult` deliver). -/
theorem every_verdict_decides (evs : List Ev) (nm : Name) (dg d : Nat) (i : Nat) (I : Interest)
    (hi : (run .v2 evs).ints[i]? = some I) (hs : (run .v2 evs).sts[i]? = some .waiting)
    (hm : Matches I.toReq nm dg) (hl : I.lat = 0) :
    (I.verdict = .pass ∨ I.verdict = .allowBypass →
      (run .v2 (evs ++ [.data nm dg d])).sts[i]? = some (resolve (run .v2 evs).clock I.toReq (.data d))) ∧
    (I.verdict = .fail ∨ I.verdict = .timeout ∨ I.verdict = .silence ∨ I.verdict = .other →
      (run .v2 (evs ++ [.data nm dg d])).sts[i]? =
        some (resolve (run .v2 evs).clock I.toReq (.valFail d I.verdict))) := by
  have h := (step_old (inv_run .v2 evs) .v2 (.data nm dg d) hi hs).2.1
  rw [← run_snoc] at h
  have hl' : I.toReq.lat = 0 := hl
  simp only [specReact, hm, and_self, if_true, taken, hl', vstart, Nat.le_refl] at h
  constructor
  · intro hv
    rcases hv with hv | hv <;>
    · have hv' : I.toReq.verdict = _ := hv
      rw [h, hv']; rfl
  · intro hv
    rcases hv with hv | hv | hv | hv <;>
    · have hv' : I.toReq.verdict = _ := hv
      rw [h, hv']; rfl

/-- an awaiting caller (the usual case: `await app.express(...)`) finishes in that same instant -/
theorem resolve_awaited (now : Nat) (r : Req) (o : Outcome) (h : r.awaitAt ≤ now) : resolve now r o = .done o now := by
  simp [resolve, h]

/-- **validator_late_timeout.** Current front-end: an Interest whose validator is still running when the deadline is
    reached (it would finish at or after the deadline) times out at the deadline - the later answer of the validator is
    discarded, whatever it is. -/
theorem validator_late_timeout (evs : List Ev) (t : Nat) (i : Nat) (I : Interest) (d fin : Nat)
    (hi : (run .v2 evs).ints[i]? = some I) (hs : (run .v2 evs).sts[i]? = some (.validating d fin))
    (hlate : I.deadline ≤ fin) (hd : I.deadline ≤ max (run .v2 evs).clock t) (evs' : List Ev) :
    (run .v2 (evs ++ [.tick t] ++ evs')).sts[i]? = some (.done .timeout I.deadline) := by
  have h := (step_old (inv_run .v2 evs) .v2 (.tick t) hi hs).2.1
  rw [← run_snoc] at h
  have hlate' : ¬ fin < I.toReq.deadline := by
    have : I.toReq.deadline = I.deadline := rfl
    omega
  have hd' : I.toReq.deadline ≤ max (run .v2 evs).clock t := hd
  have h2 : (run .v2 (evs ++ [.tick t])).sts[i]? = some (.done .timeout I.deadline) := by
    rw [h]
    simp only [specReact, specFire]
    cases validatorOutcome .v2 I.toReq.verdict d <;> simp [hlate', hd']
  exact done_stable .v2 (evs ++ [.tick t]) evs' i _ _ h2

/-- **ties.** Whichever way the events of a turn are ordered (packet before or after the timers of its instant, the
    packets of a burst in any order): a payload is returned only if the supplied validator accepted that Data, and a
    validation failure only if it did not - for every state `reachable` over a history of turns, i.e. for every
    linearisation. -/
theorem tie_data_only_if_accepted (fe : FrontEnd) (h : List Turn) : ∀ σ ∈ reachable fe h,
    ∀ (i : Nat) (I : Interest) (d t : Nat), σ.ints[i]? = some I →
      (σ.sts[i]? = some (IState.done (.data d) t) → Accepting I.verdict) ∧
      (∀ v', σ.sts[i]? = some (IState.done (.valFail d v') t) → ¬ Accepting I.verdict ∧ v' = reported fe I.verdict) := by
  intro σ hσ i I d t hi
  obtain ⟨l, _, rfl⟩ := (mem_reachable fe h σ).mp hσ
  exact ⟨fun hs => (data_only_if_accepted fe l i I d t hi hs).1,
    fun v' hs => ⟨(other_verdict_failure fe l i I d t v' hi hs).1, (other_verdict_failure fe l i I d t v' hi hs).2.1⟩⟩

/-- Finding F15 (legacy front-end): the validator runs after `wait_for`, so a validator that outlives the lifetime
    still returns the payload - lifetime 100, validator latency 300, payload returned at 300. -/
example : (run .v1 [.express [1] none false 100 .pass 300 0 false, .data [1] 1 0, .tick 1000]).sts =
    [.done (.data 0) 300] := by decide
/-- the same history in the current front-end: timeout at the deadline -/
example : (run .v2 [.express [1] none false 100 .pass 300 0 false, .data [1] 1 0, .tick 1000]).sts =
    [.done .timeout 100] := by decide

/-! ### incoming Interests -/

/-- the verdicts that reach the handler, as the proofs below use them; `lets_eq_ref` evaluates the generated
    `delivers` entries of both front-ends to it -/
def letsRef : Verdict → Bool
  | .pass => true
  | .allowBypass => true
  | _ => false

theorem lets_eq_ref (fe : FrontEnd) (v : Verdict) : Gate.lets fe v = letsRef v := by cases fe <;> cases v <;> rfl

/-- the gate with today's values of the generated table written out -/
def onInterestRef (fe : FrontEnd) (dflt : Verdict) (p : IntPkt) : Route → List Act
  | .none => []
  | .noCallback => []
  | .handler val =>
    let sigRequired := p.hasParams || p.hasSig
    if sigRequired && !p.digestOk then [.digestCheck]
    else
      let pre := if sigRequired then [Act.digestCheck] else []
      match fe with
      | .v2 =>
        if sigRequired then
          match val with
          | some v => pre ++ [.validate] ++ (if letsRef v then [.handle] else [])
          | none => pre
        else pre ++ [.handle]
      | .v1 =>
        if p.hasSig then
          let v := match val with | some v => v | none => dflt
          pre ++ [.validate] ++ (if letsRef v then [.handle] else [])
        else pre ++ [.handle]

/-- evaluation of the generated gate table (`Gen.C05.v1`, `Gen.C05.v2`): closed by computation, so a source edit that
    changes `digestWhen` / `validateWhen` / `noValidatorAs` / `plain` / `delivers` stops this - and every theorem
    below - from checking -/
theorem onInterest_eq_ref (fe : FrontEnd) (dflt : Verdict) (p : IntPkt) (r : Route) :
    onInterest fe dflt p r = onInterestRef fe dflt p r := by
  cases r with
  | none => rfl
  | noCallback => rfl
  | handler val =>
    obtain ⟨a, b, c⟩ := p
    cases fe <;> cases a <;> cases b <;> cases c <;> cases val <;>
      simp [onInterest, onInterestRef, lets_eq_ref, Gate.shape, Gen.C05.v1, Gen.C05.v2, Src.SigReq.holds, Verdict.ofVR] <;> rfl

/-- **interest_digest_gate.** An Interest that carries ApplicationParameters or a signature and whose parameters digest
    is wrong is dropped right after the digest check: no validator is consulted, no handler runs (both front-ends,
    every route). -/
theorem interest_digest_gate (fe : FrontEnd) (dflt : Verdict) (p : IntPkt) (r : Route)
    (hreq : p.hasParams = true ∨ p.hasSig = true) (hbad : p.digestOk = false) :
    Act.validate ∉ onInterest fe dflt p r ∧ Act.handle ∉ onInterest fe dflt p r := by
  cases r with
  | none => simp [onInterest_eq_ref, onInterestRef]
  | noCallback => simp [onInterest_eq_ref, onInterestRef]
  | handler val =>
    have : (p.hasParams || p.hasSig) = true := by rcases hreq with h | h <;> simp [h]
    simp [onInterest_eq_ref, onInterestRef, this, hbad]

/-- **interest_validated_before_handler (current front-end).** An Interest that carries ApplicationParameters or a
    signature reaches its handler only if the route has a validator, that validator accepted it (`PASS` /
    `ALLOW_BYPASS`), and digest check and validation came first, in this order.  A missing validator means rejection. -/
theorem interest_validated_before_handler_v2 (dflt : Verdict) (p : IntPkt) (r : Route)
    (hreq : p.hasParams = true ∨ p.hasSig = true) (hh : Act.handle ∈ onInterest .v2 dflt p r) :
    p.digestOk = true ∧ (∃ v, r = .handler (some v) ∧ Accepting v) ∧
    onInterest .v2 dflt p r = [.digestCheck, .validate, .handle] := by
  have hreq' : (p.hasParams || p.hasSig) = true := by rcases hreq with h | h <;> simp [h]
  cases r with
  | none => simp [onInterest_eq_ref, onInterestRef] at hh
  | noCallback => simp [onInterest_eq_ref, onInterestRef] at hh
  | handler val =>
    cases hd : p.digestOk with
    | false => simp [onInterest_eq_ref, onInterestRef, hreq', hd] at hh
    | true =>
      cases val with
      | none => simp [onInterest_eq_ref, onInterestRef, hreq', hd] at hh
      | some v => cases v <;> simp [onInterest_eq_ref, onInterestRef, hreq', hd, letsRef, Accepting] at hh ⊢

/-- **interest_validated_before_handler (legacy front-end).** A *signed* Interest reaches its handler only if the
    validator in force - the route's, or the application-wide default when the route has none - returned a true value,
    after the digest check. -/
theorem interest_validated_before_handler_v1 (dflt : Verdict) (p : IntPkt) (r : Route)
    (hsig : p.hasSig = true) (hh : Act.handle ∈ onInterest .v1 dflt p r) :
    p.digestOk = true ∧
    (∃ val, r = .handler val ∧ Accepting (match val with | some v => v | none => dflt)) ∧
    onInterest .v1 dflt p r = [.digestCheck, .validate, .handle] := by
  have hreq' : (p.hasParams || p.hasSig) = true := by simp [hsig]
  cases r with
  | none => simp [onInterest_eq_ref, onInterestRef] at hh
  | noCallback => simp [onInterest_eq_ref, onInterestRef] at hh
  | handler val =>
    cases hd : p.digestOk with
    | false => simp [onInterest_eq_ref, onInterestRef, hreq', hd] at hh
    | true =>
      cases val with
      | none => cases dflt <;> simp [onInterest_eq_ref, onInterestRef, hd, hsig, letsRef, Accepting] at hh ⊢
      | some v => cases v <;> simp [onInterest_eq_ref, onInterestRef, hd, hsig, letsRef, Accepting] at hh ⊢

/-- every non-accepting answer of the validator in force (all `ValidResult` values other than `PASS` /
    `ALLOW_BYPASS`, and a validator that raises) keeps the Interest from the handler -/
theorem interest_rejected_by_verdict (dflt : Verdict) (p : IntPkt) (v : Verdict)
    (hreq : p.hasParams = true ∨ p.hasSig = true) (hv : ¬ Accepting v) :
    Act.handle ∉ onInterest .v2 dflt p (.handler (some v)) := by
  have hreq' : (p.hasParams || p.hasSig) = true := by rcases hreq with h | h <;> simp [h]
  cases hd : p.digestOk <;> cases v <;> simp [onInterest_eq_ref, onInterestRef, hreq', hd, letsRef, Accepting] at hv ⊢

/-- **plain_interest_no_validator.** An Interest without ApplicationParameters and without signature is delivered to
    the handler of its route without digest check and without consulting any validator (both front-ends). -/
theorem plain_interest_no_validator (fe : FrontEnd) (dflt : Verdict) (p : IntPkt) (val : Option Verdict)
    (h1 : p.hasParams = false) (h2 : p.hasSig = false) :
    onInterest fe dflt p (.handler val) = [.handle] := by
  cases fe <;> simp [onInterest_eq_ref, onInterestRef, h1, h2]

/-! ### the hypotheses are satisfiable -/

example : Act.handle ∈ onInterest .v2 .fail ⟨true, true, true⟩ (.handler (some .allowBypass)) := by decide
-- a route validator that hands back a non-`ValidResult` value (`False`, `None`, ...) keeps the Interest out
example : onInterest .v2 .pass ⟨true, true, true⟩ (.handler (some .other)) = [.digestCheck, .validate] := by decide
example : (run .v2 [.express [1] none false 100 .other 0 0 false, .data [1] 1 5]).sts = [.done (.valFail 5 .other) 0] := by
  decide
example : Act.handle ∈ onInterest .v1 .pass ⟨true, true, true⟩ (.handler none) := by decide
example : onInterest .v2 .pass ⟨true, false, true⟩ (.handler none) = [.digestCheck] := by decide
example : onInterest .v1 .fail ⟨true, false, true⟩ (.handler none) = [.digestCheck, .handle] := by decide
example : (run .v2 [.express [1] none false 100 .silence 0 0 false, .data [1] 1 5]).sts = [.done (.valFail 5 .silence) 0] := by
  decide
example : (run .v2 [.express [1] none false 100 .raiseTimeout 20 0 false, .data [1] 1 5, .tick 50]).sts =
    [.done (.valFail 5 .timeout) 20] := by decide
example : (run .v2 [.express [1] none false 100 .pass 300 0 false, .data [1] 1 0]).sts = [.validating 0 300] := by decide
-- a late await does not let a rejected Data through: the failure is held and raised at the first await
example : (run .v2 [.express [1] none false 100 .fail 0 60 false, .tick 20, .data [1] 1 5, .tick 500]).sts =
    [.done (.valFail 5 .fail) 60] := by decide
-- legacy, late await: the validator is consulted at the first await, and its verdict decides
example : (run .v1 [.express [1] none false 100 .fail 0 60 false, .tick 20, .data [1] 1 5, .tick 500]).sts =
    [.done (.valFail 5 .fail) 60] ∧
    (run .v1 [.express [1] none false 100 .fail 0 60 false, .tick 20, .data [1] 1 5, .tick 500]).vcalls = [(0, 5, 60)] := by
  decide
-- a tie (Data in the turn of the deadline): the payload is allowed only through the validator
example : allowed .v2 [⟨0, [.express [1] none false 100 .fail 0 0 false]⟩, ⟨100, [.data [1] 1 5]⟩] =
    [[.done .timeout 100], [.done (.valFail 5 .fail) 100], [.done .timeout 100], [.done (.valFail 5 .fail) 100]] := by
  decide

/-! ### what the models take from the source text

`Ndn.Gen.C05` (lean/NdnGen/C05.lean: the gate of both `_on_interest`, `types.ValidResult`, the two digest checkers) and
the verdict part of `Ndn.Gen.C03` (lean/NdnGen/C03.lean: `PendingIntEntry.satisfy`, legacy `_wait_for_data`) are
regenerated from the source by every check run (`harness/props/pit_extract.py`, `ast` only).  `Gate.onInterest` and
`Pit.validatorOutcome` compute with them (`onInterest_eq_ref`, `validatorOutcome_eq_ref` evaluate them), so the
theorems above are about the generated values; the remaining shapes are pinned entry by entry. -/

/-- `class ValidResult(Enum)`: exactly these five members with these values; `ValidationFailure` defaults to `FAIL` -/
theorem gen_valid_result :
    Gen.C05.validResult = [(.fail, -2), (.timeout, -1), (.silence, 0), (.pass, 1), (.allowBypass, 2)] ∧
    Gen.C05.validResultNames = ["FAIL", "TIMEOUT", "SILENCE", "PASS", "ALLOW_BYPASS"] ∧
    Gen.C05.failureDefault = .fail := by decide

/-- Data: only `PASS` and `ALLOW_BYPASS` reach `set_result` (current); a true value (legacy).  `TimeoutError` /
    `CancelledError` of the validator read as `TIMEOUT`, nothing else is caught; the "future already done" guard sits
    between the validator call and completing the future -/
theorem gen_data_delivers :
    Gen.C03.v2.dataDelivers = .only [.pass, .allowBypass] ∧ Gen.C03.v1.dataDelivers = .truthy ∧
    Gen.C03.v2.dataCaught = [.timeoutError, .cancelledError] ∧ Gen.C03.v2.dataCaughtAs = .timeout ∧
    Gen.C03.v1.dataCaught = [] ∧ Gen.C03.v2.dataNoValidator = "valid = ValidResult.FAIL" ∧
    Gen.C03.v1.dataNoValidator = "validator = self.data_validator" ∧
    Gen.C03.nodeV2.satisfyDone = "if self.future.cancelled() or self.future.done(): return" ∧
    Pit.tableOk = true := by decide

/-- Interests: only `PASS` and `ALLOW_BYPASS` reach the handler (current); a true value (legacy).  A route without
    validator is `FAIL` without consulting anything (current) / falls back to the application-wide validator (legacy);
    an Interest that needs no validation is `PASS` / `True` -/
theorem gen_interest_delivers :
    Gen.C05.v2.delivers = .only [.pass, .allowBypass] ∧ Gen.C05.v1.delivers = .truthy ∧
    Gen.C05.v2.noValidatorAs = some .fail ∧ Gen.C05.v2.noValidator = "valid = ValidResult.FAIL" ∧
    Gen.C05.v1.noValidatorAs = none ∧
    Gen.C05.v1.noValidator = "validator = node.validator if node.validator else self.int_validator" ∧
    Gen.C05.v2.plain = .pass ∧ Gen.C05.v1.plain = .pass ∧ Gate.tableOk = true := by decide

/-- the order of the gate: route lookup, callback test, digest check, validator, handler - in both front-ends -/
theorem gen_gate_order :
    Gen.C05.v2.order = ["route", "callback", "digest", "validate", "handle"] ∧
    Gen.C05.v1.order = ["route", "callback", "digest", "validate", "handle"] := by decide

/-- when the steps are required: the digest check for ApplicationParameters or a signature (both); the validator for
    the same (current) / for a signature only (legacy); a failed digest check returns at once -/
theorem gen_gate_when :
    Gen.C05.v2.digestWhen = .paramsOrSig ∧ Gen.C05.v1.digestWhen = .paramsOrSig ∧
    Gen.C05.v2.validateWhen = .paramsOrSig ∧ Gen.C05.v1.validateWhen = .sigOnly ∧
    Gen.C05.v2.digestFail = "if not await params_sha256_checker(name, sig): return" ∧
    Gen.C05.v1.digestFail = Gen.C05.v2.digestFail ∧
    Gen.C05.v2.validatorArgs = "name, sig, context" ∧ Gen.C05.v1.validatorArgs = "name, sig" := by decide

/-- `params_sha256_checker` / `sha256_digest_checker`: the computed SHA-256 is compared with `==` against the whole
    value in the packet, an empty covered part or value fails, over these `SignaturePtrs` fields; the legacy default
    validators are `sha256_digest_checker`, which passes every packet that is not DigestSha256-signed -/
theorem gen_digest_checkers :
    Gen.C05.paramsCmp = .fullEq ∧ Gen.C05.digestCmp = .fullEq ∧
    Gen.C05.paramsEmpty = "if not covered_part or not sig_value: ret = False" ∧ Gen.C05.digestEmpty = Gen.C05.paramsEmpty ∧
    Gen.C05.paramsFields = ["sig.digest_covered_part", "sig.digest_value_buf"] ∧
    Gen.C05.digestFields = ["sig.signature_covered_part", "sig.signature_info", "sig.signature_value_buf"] ∧
    Gen.C05.digestScope = "checks when SignatureType.DIGEST_SHA256 == sig_info.signature_type and sig_info; otherwise: return True" ∧
    Gen.C05.legacyDefaults = ["self.data_validator = sha256_digest_checker", "self.int_validator = sha256_digest_checker"] := by
  decide

/-- **the digest gate is exact.** With the comparison found in the source, `params_sha256_checker` accepts a computed
    digest exactly when it equals the ParametersSha256DigestComponent value - not a prefix of it, not a longer string
    starting with it (what `IntPkt.digestOk` stands for in `interest_digest_gate`). -/
theorem digest_check_exact (computed value : Bytes) : paramsChecker computed value = true ↔ computed = value := by
  show Src.BytesCmp.holds .fullEq computed value = true ↔ _
  simp [Src.BytesCmp.holds]

example : paramsChecker [1, 2, 3] [1, 2] = false := by decide
example : Src.BytesCmp.holds .zipAll [1, 2, 3] [1, 2] = true := by decide

end Ndn.C05
