import NdnGen.C06
import NdnProofs.Lemmas.Framing
import NdnProofs.Lemmas.StreamReader
import NdnProofs.Lemmas.Receive
import NdnProofs.Lemmas.ReceiveBytes
/-!
  # C06 — receive path: exact stream framing, and no failure on any delivered bytes

  Specification-level notions used below (none mentions the implementation):
  * a packet is a pair (type, value) with both numbers below 2^64; its wire form is `tlv`;
    a stream is the concatenation of wire forms, possibly followed by a proper prefix of one more;
  * `raisable`: the exception classes the byte-level decoders can raise.  For the decoder *models* of
    property C07 this is proved for every byte string (`bytes_decoders_raise_only`, from
    `Ndn.C07.shipped_decoders_error_classes`); that those models are the real decoders is C07's
    correspondence, re-sampled by this property's harness on its own malformed stream;
  * `Guards.safe`: every raisable class is named by the `except` protecting each decoding step, a missing
    Fragment is handled, and the Nack table lookup is protected.
-/
namespace Ndn.C06
open Ndn Ndn.Framing Ndn.Recv

/-! ## (a) stream framing -/

/-- wire form of a packet (type, value) -/
def wire (p : Nat × Bytes) : Bytes := tlv p.1 p.2

def ValidPkt (p : Nat × Bytes) : Prop := p.1 < 2^64 ∧ p.2.length < 2^64

instance (p : Nat × Bytes) : Decidable (ValidPkt p) := by unfold ValidPkt; infer_instance

/-- what the peer wrote: the packets back to back -/
def stream (ps : List (Nat × Bytes)) : Bytes := (ps.map wire).flatten

/-- what must be handed to the callback for each packet: its type and its complete wire form -/
def delivered (ps : List (Nat × Bytes)) : List (Nat × Bytes) := ps.map fun p => (p.1, wire p)

private theorem framesFuel_concat (ps : List (Nat × Bytes)) (h : ∀ p ∈ ps, ValidPkt p)
    (q : Nat × Bytes) (hq : ValidPkt q) (part ext : Bytes) (hp : part ++ ext = wire q) (hne : ext ≠ []) :
    ∀ fuel, ps.length < fuel → framesFuel fuel (stream ps ++ part) = (delivered ps, part) := by
  induction ps with
  | nil =>
    intro fuel hf
    cases fuel with
    | zero => omega
    | succ f =>
      simp only [stream, List.map_nil, List.flatten_nil, List.nil_append, framesFuel, delivered]
      rw [readPacket_proper_prefix q.1 q.2 part ext hq.1 hq.2 hp hne]
  | cons p r ih =>
    intro fuel hf
    cases fuel with
    | zero => simp at hf
    | succ f =>
      have hp' := h p (by simp)
      have e : stream (p :: r) ++ part = tlv p.1 p.2 ++ (stream r ++ part) := by
        simp [stream, wire, List.append_assoc]
      rw [e]
      simp only [framesFuel]
      rw [readPacket_tlv p.1 p.2 _ hp'.1 hp'.2]
      simp only
      rw [ih (fun x hx => h x (List.mem_cons_of_mem _ hx)) f (by simp at hf; omega)]
      simp [delivered, wire]

private theorem stream_length (ps : List (Nat × Bytes)) : 2 * ps.length ≤ (stream ps).length := by
  induction ps with
  | nil => simp [stream]
  | cons p r ih =>
    have := tlv_length_ge p.1 p.2
    simp only [stream, List.map_cons, List.flatten_cons, List.length_append, List.length_cons, wire] at ih ⊢
    omega

/-- **frames_concat.** Whatever packets the peer wrote (any number, any types and lengths below 2^64),
    followed by any proper prefix of one more packet (possibly empty, possibly cut inside a type or
    length number) before the stream ended: the face hands over exactly those packets, each once, in
    order, with the right type, and nothing of the partial packet.  This is the framing of the
    CONCATENATED stream; that every cut of the stream into reads gives the same hand-over is
    `chunks_irrelevant` / `chunked_concat` below (chunked machine of NdnModel/StreamReader.lean). -/
theorem frames_concat (ps : List (Nat × Bytes)) (h : ∀ p ∈ ps, ValidPkt p)
    (q : Nat × Bytes) (hq : ValidPkt q) (part ext : Bytes) (hp : part ++ ext = wire q) (hne : ext ≠ []) :
    frames (stream ps ++ part) = (delivered ps, part) := by
  unfold frames
  apply framesFuel_concat ps h q hq part ext hp hne
  have := stream_length ps
  simp only [List.length_append]
  omega

example : frames (stream [(5, [1, 2]), (6, [])] ++ [100, 3, 80]) =
    (delivered [(5, [1, 2]), (6, [])], [100, 3, 80]) :=
  frames_concat _ (by decide) (100, [80, 1, 0]) (by decide) [100, 3, 80] [1, 0] (by decide) (by decide)

private theorem framesFuel_partition : ∀ (fuel : Nat) (s : Bytes),
    ((framesFuel fuel s).1.map (·.2)).flatten ++ (framesFuel fuel s).2 = s
  | 0, s => by simp [framesFuel]
  | f + 1, s => by
    simp only [framesFuel]
    cases h : readPacket s with
    | none => simp
    | some pr =>
      obtain ⟨⟨t, buf⟩, r⟩ := pr
      have := framesFuel_partition f r
      obtain ⟨hs, _⟩ := readPacket_split h
      simp only [List.map_cons, List.flatten_cons, List.append_assoc]
      rw [this, ← hs]

private theorem framesFuel_rem : ∀ (fuel : Nat) (s : Bytes), s.length < fuel →
    readPacket (framesFuel fuel s).2 = none
  | 0, s, h => by omega
  | f + 1, s, hl => by
    simp only [framesFuel]
    cases h : readPacket s with
    | none => simpa using h
    | some pr =>
      obtain ⟨⟨t, buf⟩, r⟩ := pr
      obtain ⟨hs, h2⟩ := readPacket_split h
      have : r.length < f := by rw [hs] at hl; simp at hl; omega
      exact framesFuel_rem f r this

/-- **frames_never_partial.** For EVERY byte stream (well-formed or not): the packets handed over,
    concatenated, followed by the undelivered remainder, are exactly the stream (nothing lost,
    duplicated or reordered), and the remainder does not start with a complete packet - i.e. the face
    stopped only because the stream ended inside (or exactly before) a packet, and that partial packet
    was not handed over. -/
theorem frames_never_partial (s : Bytes) :
    ((frames s).1.map (·.2)).flatten ++ (frames s).2 = s ∧ readPacket (frames s).2 = none :=
  ⟨framesFuel_partition _ s, framesFuel_rem _ s (by omega)⟩

example : (frames [5, 1, 7, 253, 0]).1 = [(5, [5, 1, 7])] ∧ (frames [5, 1, 7, 253, 0]).2 = [253, 0] := by
  decide

/-! ## (a') the cut of the stream into reads

  `Ndn.StreamReader` models asyncio's StreamReader (buffer, eof flag, exception set by the transport)
  and `StreamFace.run` as a resumable machine over the transport's events `feed chunk`, `feedEof`,
  `setException e`.  The theorems below quantify over EVERY list of chunks (any number, any sizes,
  empty chunks, one byte at a time, cuts inside Type / Length numbers) and relate the machine to `frames`
  of the concatenation; the `except` tuple of `StreamFace.run` is the generated `Gen.C06.streamCaught`. -/

open Ndn.StreamReader in
/-- the transport's calls for a given cut of the stream: one `feed_data` per chunk -/
def feeds (cs : List Bytes) : List Event := cs.map .feed

/-- specification of the per-chunk hand-over trace: after each chunk, exactly the complete packets
    among the bytes received so far -/
def handedAfter (pre : Bytes) : List Bytes → List (List (Nat × Bytes))
  | [] => []
  | c :: cs => (frames (pre ++ c)).1 :: handedAfter (pre ++ c) cs

/-- the two orderly ways a stream ends for `StreamFace`: EOF, or the transport reports a connection reset -/
def IsEnd (ev : StreamReader.Event) : Prop := ev = .feedEof ∨ ev = .setException .connectionReset

/-- the source's `except (...)` tuple around the framing reads names both IncompleteReadError and
    ConnectionResetError (closed by evaluation of the generated table: a source edit that drops one
    makes this fail). -/
theorem stream_caught_sufficient :
    StreamReader.handled Gen.C06.streamCaught .incompleteRead = .shutdown ∧
    StreamReader.handled Gen.C06.streamCaught .connectionReset = .shutdown := by decide

private theorem sim_run (caught : List StreamReader.RdErr) (cs : List Bytes) :
    StreamReader.Sim (StreamReader.run caught (feeds cs)) cs.flatten := by
  have := StreamReader.sim_feeds (caught := caught) cs (StreamReader.sim_start caught)
  simpa [StreamReader.run, feeds] using this

private theorem run_end (caught : List StreamReader.RdErr) (cs : List Bytes) (ev : StreamReader.Event) :
    StreamReader.run caught (feeds cs ++ [ev]) =
      StreamReader.stepAcc caught (StreamReader.run caught (feeds cs)) ev := by
  simp only [StreamReader.run, StreamReader.runFrom_append, StreamReader.runFrom]

/-- **chunks_irrelevant.** For EVERY cut of the byte stream into chunks (any list of chunks, including
    empty chunks and one byte at a time) followed by EOF or a connection reset: the chunked machine
    hands over exactly `frames` of the concatenation - the same packets in the same order as the
    abstract model, whatever the cut - and the face shuts down. -/
theorem chunks_irrelevant (cs : List Bytes) (fin : StreamReader.Event) (hf : IsEnd fin) :
    (StreamReader.run Gen.C06.streamCaught (feeds cs ++ [fin])).2 = (frames cs.flatten).1 ∧
    (StreamReader.run Gen.C06.streamCaught (feeds cs ++ [fin])).1.status = .shutdown := by
  rw [run_end]
  have hs := sim_run Gen.C06.streamCaught cs
  rcases hf with rfl | rfl
  · obtain ⟨h1, h2⟩ := StreamReader.sim_eof (caught := Gen.C06.streamCaught) hs
    exact ⟨h1, by rw [h2]; exact stream_caught_sufficient.1⟩
  · obtain ⟨h1, h2⟩ := StreamReader.sim_exc (caught := Gen.C06.streamCaught) hs .connectionReset
    exact ⟨h1, by rw [h2]; exact stream_caught_sufficient.2⟩

example : (StreamReader.run Gen.C06.streamCaught (feeds [[5], [], [1, 7, 253], [0]] ++ [.feedEof])).2
    = [(5, [5, 1, 7])] :=
  (chunks_irrelevant [[5], [], [1, 7, 253], [0]] .feedEof (.inl rfl)).1.trans (by decide)

/-- **chunked_concat.** The statement of the property, end to end: whatever packets the peer wrote
    (any number, types and lengths below 2^64) followed by any proper prefix of one more, cut into
    reads in ANY way, then EOF or a reset: exactly those packets are handed over, each once, in order,
    with the right type; nothing of the partial packet; the face shuts down. -/
theorem chunked_concat (ps : List (Nat × Bytes)) (h : ∀ p ∈ ps, ValidPkt p)
    (q : Nat × Bytes) (hq : ValidPkt q) (part ext : Bytes) (hp : part ++ ext = wire q) (hne : ext ≠ [])
    (cs : List Bytes) (hcut : cs.flatten = stream ps ++ part) (fin : StreamReader.Event) (hf : IsEnd fin) :
    (StreamReader.run Gen.C06.streamCaught (feeds cs ++ [fin])).2 = delivered ps ∧
    (StreamReader.run Gen.C06.streamCaught (feeds cs ++ [fin])).1.status = .shutdown := by
  obtain ⟨h1, h2⟩ := chunks_irrelevant cs fin hf
  rw [hcut, frames_concat ps h q hq part ext hp hne] at h1
  exact ⟨h1, h2⟩

/-- **never_partial_chunked.** At EVERY intermediate point (after any list of chunks, no end yet): what
    has been handed over is `frames` of the bytes received so far, i.e. (with `frames_never_partial`)
    every element whose last byte has arrived and nothing else: each handed-over item is exactly one
    complete element (reading it alone returns it with nothing left), the handed-over items followed by
    the bytes the face still holds (`bio` of the packet in progress ++ the reader's buffer) are the bytes
    received, and the held bytes do not contain a complete element.  The face is still running. -/
theorem never_partial_chunked (cs : List Bytes) :
    let acc := StreamReader.run Gen.C06.streamCaught (feeds cs)
    acc.2 = (frames cs.flatten).1 ∧ acc.1.status = .running ∧
    acc.1.phase.bio ++ acc.1.reader.buf = (frames cs.flatten).2 ∧
    (∀ p ∈ acc.2, readPacket p.2 = some (p, [])) ∧
    (acc.2.map (·.2)).flatten ++ (acc.1.phase.bio ++ acc.1.reader.buf) = cs.flatten ∧
    readPacket (acc.1.phase.bio ++ acc.1.reader.buf) = none := by
  intro acc
  have hs := sim_run Gen.C06.streamCaught cs
  refine ⟨hs.out, hs.running, hs.rem, ?_, ?_, ?_⟩
  · rw [hs.out]; exact frames_complete _
  · rw [hs.out, hs.rem]; exact frames_partition _
  · rw [hs.rem]; exact readPacket_frames_rem _

example : (StreamReader.run Gen.C06.streamCaught (feeds [[5, 1], [7, 253, 0]])).2 = [(5, [5, 1, 7])] :=
  (never_partial_chunked [[5, 1], [7, 253, 0]]).1.trans (by decide)

/-- **handed_over_prefix.** What has been handed over after some chunks is a prefix of what has been
    handed over after any continuation (more chunks, the end of the stream, anything): a delivered
    packet is never withdrawn, reordered or delivered again. -/
theorem handed_over_prefix (caught : List StreamReader.RdErr) (evs more : List StreamReader.Event) :
    (StreamReader.run caught evs).2 <+: (StreamReader.run caught (evs ++ more)).2 := by
  simp only [StreamReader.run, StreamReader.runFrom_append]
  exact StreamReader.runFrom_grows caught more _

example : (StreamReader.run Gen.C06.streamCaught (feeds [[5, 1]])).2 <+:
    (StreamReader.run Gen.C06.streamCaught (feeds [[5, 1]] ++ feeds [[7]])).2 := handed_over_prefix _ _ _

private theorem trace_feeds (caught : List StreamReader.RdErr) (cs : List Bytes) :
    ∀ (acc : StreamReader.Face × List (Nat × Bytes)) (s : Bytes), StreamReader.Sim acc s →
    (StreamReader.traceFrom caught acc (feeds cs)).map (·.2) = handedAfter s cs := by
  induction cs with
  | nil => intro acc s _; rfl
  | cons c r ih =>
    intro acc s h
    have h' := StreamReader.sim_feed (caught := caught) h c
    simp only [feeds, List.map_cons, StreamReader.traceFrom, handedAfter, List.cons.injEq]
    exact ⟨h'.out, ih _ _ h'⟩

/-- **trace_chunked.** The per-chunk trace the harness compares with the real face: after the i-th
    chunk the machine has handed over exactly the complete packets among the first i chunks' bytes
    (`handedAfter`), and the end of the stream (EOF / reset) adds nothing. -/
theorem trace_chunked (cs : List Bytes) (fin : StreamReader.Event) (hf : IsEnd fin) :
    (StreamReader.trace Gen.C06.streamCaught (feeds cs ++ [fin])).map (·.2) =
      handedAfter [] cs ++ [(frames cs.flatten).1] := by
  have hs := sim_run Gen.C06.streamCaught cs
  simp only [StreamReader.trace, StreamReader.traceFrom_append, List.map_append]
  rw [trace_feeds _ cs _ [] (StreamReader.sim_start _)]
  have := (chunks_irrelevant cs fin hf).1
  rw [run_end] at this
  simp only [StreamReader.traceFrom, List.map_cons, List.map_nil]
  exact congrArg _ (congrArg (· :: []) this)

example : (StreamReader.trace Gen.C06.streamCaught (feeds [[5], [0, 6], [1, 9, 7]] ++ [.feedEof])).map (·.2.length)
    = [0, 1, 2, 2] := by
  have := congrArg (List.map List.length) (trace_chunked [[5], [0, 6], [1, 9, 7]] .feedEof (.inl rfl))
  simp only [List.map_map] at this
  exact this.trans (by decide)

/-- **reset_mid_packet.** The stream ends - EOF, or ANY exception class set by the transport - at any
    point (in particular in the middle of a packet, inside a Type or Length number, after any cut):
    nothing is handed over at that moment (the hand-over list is the one from before the end), every
    handed-over item is one complete element, and the undelivered remainder - the partial packet - is
    not among them.  The task ends through the `except` clause (`shutdown`) when the class is named by
    it and with that exception otherwise (`handled`); for EOF and a connection reset that is `shutdown`
    by `stream_caught_sufficient`. -/
theorem reset_mid_packet (caught : List StreamReader.RdErr) (cs : List Bytes) (fin : StreamReader.Event)
    (cls : StreamReader.RdErr)
    (hf : (fin = .feedEof ∧ cls = .incompleteRead) ∨ fin = .setException cls) :
    let before := StreamReader.run caught (feeds cs)
    let after := StreamReader.run caught (feeds cs ++ [fin])
    after.2 = before.2 ∧ after.2 = (frames cs.flatten).1 ∧
    (∀ p ∈ after.2, readPacket p.2 = some (p, [])) ∧
    (after.2.map (·.2)).flatten ++ (frames cs.flatten).2 = cs.flatten ∧
    after.1.status = StreamReader.handled caught cls := by
  have hs := sim_run caught cs
  have key : (StreamReader.run caught (feeds cs ++ [fin])).2 = (frames cs.flatten).1 ∧
      (StreamReader.run caught (feeds cs ++ [fin])).1.status = StreamReader.handled caught cls := by
    rw [run_end]
    rcases hf with ⟨rfl, rfl⟩ | rfl
    · exact StreamReader.sim_eof hs
    · exact StreamReader.sim_exc hs cls
  intro before after
  have hb : before.2 = (frames cs.flatten).1 := hs.out
  refine ⟨by rw [key.1, hb], key.1, ?_, ?_, key.2⟩
  · rw [key.1]; exact frames_complete _
  · rw [key.1]; exact frames_partition _

example : (StreamReader.run Gen.C06.streamCaught (feeds [[5, 1, 7, 6], [3, 1]] ++ [.setException .connectionReset])).2
    = [(5, [5, 1, 7])] :=
  (reset_mid_packet _ [[5, 1, 7, 6], [3, 1]] (.setException .connectionReset) .connectionReset (.inr rfl)).2.1.trans
    (by decide)

/-! ## (b) no failure on any delivered bytes -/

/-- the exception classes the byte-level decoders can raise -/
def raisable : List PyErr := [.decodeError, .indexError, .valueError, .structError, .typeError]

/-- every decoder outcome is a value or one of the classes in `S` -/
def RaisesOnly (D : Decoders) (S : List PyErr) : Prop :=
  (∀ w e, D.lp w = .error e → e ∈ S) ∧ (∀ w e, D.tl w = .error e → e ∈ S) ∧
  (∀ w e, D.interest w = .error e → e ∈ S) ∧ (∀ w e, D.data w = .error e → e ∈ S)

/-- the `except` clauses are sufficient: every raisable class is swallowed at every decoding step,
    an envelope without Fragment is dropped, the Nack lookup cannot leak `KeyError`, and completing a pending entry
    is skipped when its future is already done (a packet arriving in the loop turn in which its Interest was cancelled
    or timed out: `set_exception` / `set_result` on a done future would raise `InvalidStateError`) -/
def safe (g : Guards) : Bool :=
  raisable.all (fun e => g.caughtLp.contains e) && raisable.all (fun e => g.caughtFragTl.contains e) &&
  raisable.all (fun e => g.caughtNackInterest.contains e) && raisable.all (fun e => g.caughtInterest.contains e) &&
  raisable.all (fun e => g.caughtData.contains e) &&
  (g.fragNoneGuard || g.caughtFragTl.contains .typeError) && g.caughtNackLookup.contains .keyError &&
  g.nackDoneGuard && g.satisfyDoneGuard

private theorem guarded_total {α} (caught : List PyErr) (st : State) (r : Except PyErr α)
    (k : α → Except PyErr Res) (hc : raisable.all (fun e => caught.contains e) = true)
    (hr : ∀ e, r = .error e → e ∈ raisable) (hk : ∀ a, r = .ok a → ∃ res, k a = .ok res) :
    ∃ res, guarded caught st r k = .ok res := by
  unfold guarded
  cases r with
  | ok a => exact hk a rfl
  | error e =>
    have he := hr e rfl
    have : e ∈ caught := by
      rw [List.all_eq_true] at hc
      have := hc e he
      simpa using this
    simp [this]

private theorem onNack_total (g : Guards) (st : State) (n : NameKey) (r : Nat)
    (h : g.caughtNackLookup.contains .keyError = true) : ∃ res, onNack g st n r = .ok res := by
  unfold onNack
  have : PyErr.keyError ∈ g.caughtNackLookup := by simpa using h
  split
  · simp [this]
  · exact ⟨_, rfl⟩

private theorem receiveNet_total (g : Guards) (hs : safe g = true) (D : Decoders) (hD : RaisesOnly D raisable)
    (st : State) (nr : Option Nat) (tok : Option Bytes) (typ : Nat) (pkt : Bytes) :
    ∃ res, receiveNet g D st nr tok typ pkt = .ok res := by
  simp only [safe, Bool.and_eq_true] at hs
  obtain ⟨⟨⟨⟨⟨⟨⟨⟨h1, h2⟩, h3⟩, h4⟩, h5⟩, h6⟩, h7⟩, _⟩, _⟩ := hs
  unfold receiveNet
  split
  · exact guarded_total _ _ _ _ h3 (fun e he => hD.2.2.1 _ e he) (fun a _ => onNack_total g st _ _ h7)
  · split
    · exact guarded_total _ _ _ _ h4 (fun e he => hD.2.2.1 _ e he) (fun a _ => ⟨_, rfl⟩)
    · split
      · exact guarded_total _ _ _ _ h5 (fun e he => hD.2.2.2 _ e he) (fun a _ => ⟨_, rfl⟩)
      · exact ⟨_, rfl⟩

/-- generic form: sufficient `except` clauses make reception total -/
theorem receive_total_of_safe (g : Guards) (hs : safe g = true) (D : Decoders) (hD : RaisesOnly D raisable)
    (st : State) (typ : Nat) (w : Bytes) : ∃ res, receive g D st typ w = .ok res := by
  have hs' := hs
  simp only [safe, Bool.and_eq_true] at hs
  obtain ⟨⟨⟨⟨⟨⟨⟨⟨h1, h2⟩, h3⟩, h4⟩, h5⟩, h6⟩, h7⟩, _⟩, _⟩ := hs
  unfold receive
  split
  · apply guarded_total _ _ _ _ h1 (fun e he => hD.1 _ e he)
    intro lp _
    split
    · split
      · exact ⟨_, rfl⟩
      · rename_i hg
        have : g.caughtFragTl.contains .typeError = true := by simpa [hg] using h6
        have : PyErr.typeError ∈ g.caughtFragTl := by simpa using this
        simp [guarded, this]
    · exact guarded_total _ _ _ _ h2 (fun e he => hD.2.1 _ e he)
        (fun t _ => receiveNet_total g hs' D hD st _ _ _ _)
  · exact receiveNet_total g hs' D hD st _ _ _ _

/-- The `except` clauses found in the source today are sufficient (both front-ends).  Closed by
    evaluation of the generated tables: deleting a class from any `except` tuple of `_receive`, the
    `None` check on the Fragment, the `KeyError` guard of `_on_nack`, or a "future already done" guard of
    `nack_interest` / `satisfy` changes lean/NdnGen/C06.lean and this stops checking. -/
theorem gen_safe : safe Gen.C06.v2 = true ∧ safe Gen.C06.v1 = true := by decide

/-- **receive_total.** For both front-ends, EVERY combination of decoder outcomes drawn from
    `raisable` (for the envelope decoder, the Type number of the Fragment, the Interest decoder and the
    Data decoder - no well-formedness assumption on the bytes), every packet type number, and every
    state of the pending-Interest / handler tables (Nack or Data nobody waits for, envelope without
    Fragment, unknown type, …): `_receive` returns normally. -/
theorem receive_total (D : Decoders) (hD : RaisesOnly D raisable) (st : State) (typ : Nat) (w : Bytes) :
    (∃ res, receive Gen.C06.v2 D st typ w = .ok res) ∧ (∃ res, receive Gen.C06.v1 D st typ w = .ok res) :=
  ⟨receive_total_of_safe _ gen_safe.1 D hD st typ w, receive_total_of_safe _ gen_safe.2 D hD st typ w⟩

/-- decoders that fail in every way at once are admissible: the hypothesis of `receive_total` is satisfiable
    by decoders that raise, and by decoders that produce a Nack for a name nobody waits for -/
example : RaisesOnly ⟨fun _ => .error .indexError, fun _ => .error .structError,
    fun _ => .error .typeError, fun _ => .error .decodeError⟩ raisable := by
  refine ⟨?_, ?_, ?_, ?_⟩ <;> intro w e h <;> cases h <;> decide
example : receive Gen.C06.v1 ⟨fun _ => .ok ⟨some (some 150), none, some [5, 0]⟩, fun _ => .ok 5,
    fun _ => .ok ⟨[[8, 1, 97]], false, true⟩, fun _ => .error .decodeError⟩ ⟨[], []⟩ 100 [] = .ok (⟨[], []⟩, []) := by
  rfl

/-- **receive_frame.** In every well-formed state, whatever `_receive` does: the handler table is
    untouched; a packet that completes nothing and invokes nothing (a dropped packet) leaves the
    pending-Interest table exactly as it was; and every pending Interest that the packet did not
    complete is still pending under the same name afterwards. -/
theorem receive_frame (g : Guards) (D : Decoders) (st st' : State) (typ : Nat) (w : Bytes)
    (effs : List Effect) (hwf : st.WF) (h : receive g D st typ w = .ok (st', effs)) :
    st'.fib = st.fib ∧ (effs = [] → st' = st) ∧
    (∀ n node p, (n, node) ∈ st.pit → p ∈ node → p.id ∉ completedIds effs →
      ∃ node', (n, node') ∈ st'.pit ∧ p ∈ node') := by
  -- every exit of the pipeline is one of: drop, onNack, onInterest, onData
  have drop : ∀ {st' effs}, (Except.ok (st, []) : Except PyErr Res) = .ok (st', effs) →
      st'.fib = st.fib ∧ (effs = [] → st' = st) ∧
      (∀ n node p, (n, node) ∈ st.pit → p ∈ node → p.id ∉ completedIds effs →
        ∃ node', (n, node') ∈ st'.pit ∧ p ∈ node') := by
    intro st' effs h
    simp only [Except.ok.injEq, Prod.mk.injEq] at h
    obtain ⟨rfl, rfl⟩ := h
    exact ⟨rfl, fun _ => rfl, fun n node p h1 h2 _ => ⟨node, h1, h2⟩⟩
  have nack : ∀ {st' effs} n r, onNack g st n r = .ok (st', effs) →
      st'.fib = st.fib ∧ (effs = [] → st' = st) ∧
      (∀ n node p, (n, node) ∈ st.pit → p ∈ node → p.id ∉ completedIds effs →
        ∃ node', (n, node') ∈ st'.pit ∧ p ∈ node') := by
    intro st' effs n r h
    unfold onNack at h
    split at h
    · split at h
      · exact drop h
      · simp at h
    · rename_i node0 hget
      simp only [Except.ok.injEq, Prod.mk.injEq] at h
      obtain ⟨rfl, rfl⟩ := h
      have hmem := PyDict.mem_of_get? _ _ _ hget
      have hne0 : node0 ≠ [] := hwf.2 _ hmem
      -- the two ways `_on_nack` selects entries
      have hsplit : (nackSplit g n node0 = (node0, [])) ∨
          (nackSplit g n node0 = (node0.filter (fun p => p.digest == (splitDigest n).2),
                                  node0.filter (fun p => !(p.digest == (splitDigest n).2)))) := by
        unfold nackSplit; split
        · exact Or.inr rfl
        · exact Or.inl rfl
      refine ⟨rfl, ?_, ?_⟩
      · intro he
        rcases hsplit with hs | hs
        · rw [hs] at he
          have : node0 = [] := by simpa using he
          exact absurd this hne0
        · rw [hs] at he ⊢
          simp only [List.map_eq_nil_iff, List.filter_eq_nil_iff] at he
          have hf : node0.filter (fun p => !(p.digest == (splitDigest n).2)) = node0 := by
            rw [List.filter_eq_self]
            intro p hp
            have := he p hp
            simpa using this
          simp only [hf]
          have : node0.isEmpty = false := by
            cases node0 with
            | nil => exact absurd rfl hne0
            | cons a r => rfl
          simp only [this, Bool.false_eq_true, if_false, set_self _ _ _ hget]
      · intro n' node p h1 h2 h3
        by_cases hnk : n' = nackNode g n
        · subst hnk
          have hnode : node = node0 := by
            have := PyDict.get?_of_mem _ hwf.1 _ _ h1
            rw [hget] at this
            exact (Option.some.inj this).symm
          subst hnode
          rcases hsplit with hs | hs
          · rw [hs] at h3
            exfalso; apply h3
            simp only [completedIds, List.filterMap_map, List.mem_filterMap]
            exact ⟨p, h2, rfl⟩
          · rw [hs] at h3 ⊢
            have hnd : (p.digest == (splitDigest n).2) = false := by
              cases hd : (p.digest == (splitDigest n).2) with
              | false => rfl
              | true =>
                exfalso; apply h3
                simp only [completedIds, List.filterMap_map, List.mem_filterMap, List.mem_filter]
                exact ⟨p, ⟨h2, hd⟩, rfl⟩
            have hin : p ∈ node.filter (fun p => !(p.digest == (splitDigest n).2)) := by
              simp [List.mem_filter, h2, hnd]
            have hne : (node.filter (fun p => !(p.digest == (splitDigest n).2))).isEmpty = false := by
              cases hh : node.filter (fun p => !(p.digest == (splitDigest n).2)) with
              | nil => rw [hh] at hin; simp at hin
              | cons a r => rfl
            refine ⟨_, ?_, hin⟩
            simp only [hne, Bool.false_eq_true, if_false]
            exact mem_set_self _ _ _ _ hget
        · refine ⟨node, ?_, h2⟩
          dsimp only
          split
          · simp [PyDict.erase, List.mem_filter, h1, hnk]
          · exact mem_set_of_ne _ _ _ (n', node) h1 hnk
  have int : ∀ {st' effs} i tok, (Except.ok (onInterest st i tok) : Except PyErr Res) = .ok (st', effs) →
      st'.fib = st.fib ∧ (effs = [] → st' = st) ∧
      (∀ n node p, (n, node) ∈ st.pit → p ∈ node → p.id ∉ completedIds effs →
        ∃ node', (n, node') ∈ st'.pit ∧ p ∈ node') := by
    intro st' effs i tok h
    have : (onInterest st i tok).1 = st := by
      unfold onInterest; split
      · rfl
      · split <;> rfl
    simp only [Except.ok.injEq] at h
    have e1 : st' = st := by rw [← this, h]
    subst e1
    exact ⟨rfl, fun _ => rfl, fun n node p h1 h2 _ => ⟨node, h1, h2⟩⟩
  have data : ∀ {st' effs} d, (Except.ok (onData st d) : Except PyErr Res) = .ok (st', effs) →
      st'.fib = st.fib ∧ (effs = [] → st' = st) ∧
      (∀ n node p, (n, node) ∈ st.pit → p ∈ node → p.id ∉ completedIds effs →
        ∃ node', (n, node') ∈ st'.pit ∧ p ∈ node') := by
    intro st' effs d h
    simp only [Except.ok.injEq, onData, Prod.mk.injEq] at h
    obtain ⟨rfl, rfl⟩ := h
    refine ⟨rfl, ?_, ?_⟩
    · intro he
      have hall : ∀ e ∈ st.pit, dataNode d e = some e := by
        intro e hem
        have h0 : dataEffects d e = [] := by
          have := List.flatMap_eq_nil_iff.mp he
          exact this e hem
        obtain ⟨en, enode⟩ := e
        unfold dataEffects at h0
        unfold dataNode
        split
        · rename_i hp
          simp only [hp, if_true, List.map_eq_nil_iff, List.filter_eq_nil_iff] at h0
          have hf : enode.filter (fun p => !passes p (en == d.name) d.digest) = enode := by
            rw [List.filter_eq_self]
            intro p hp
            have := h0 p hp
            simpa using this
          dsimp only
          rw [hf]
          have hne : enode ≠ [] := hwf.2 _ hem
          cases enode with
          | nil => exact absurd rfl hne
          | cons a r => simp
        · rfl
      have := filterMap_eq_self (dataNode d) st.pit hall
      cases st
      simp_all
    · intro n node p h1 h2 h3
      by_cases hp : isPrefixOf n d.name = true
      · have hnp : passes p (n == d.name) d.digest = false := by
          cases hpp : passes p (n == d.name) d.digest with
          | false => rfl
          | true =>
            exfalso; apply h3
            simp only [completedIds, List.mem_filterMap, List.mem_flatMap]
            refine ⟨Effect.satisfied p.id, ⟨(n, node), h1, ?_⟩, rfl⟩
            simp only [dataEffects, hp, if_true, List.mem_map, List.mem_filter]
            exact ⟨p, ⟨h2, hpp⟩, rfl⟩
        have hin : p ∈ node.filter (fun p => !passes p (n == d.name) d.digest) := by
          simp [List.mem_filter, h2, hnp]
        refine ⟨node.filter (fun p => !passes p (n == d.name) d.digest), ?_, hin⟩
        simp only [List.mem_filterMap]
        refine ⟨(n, node), h1, ?_⟩
        simp only [dataNode, hp, if_true]
        have : (node.filter (fun p => !passes p (n == d.name) d.digest)).isEmpty = false := by
          cases hh : node.filter (fun p => !passes p (n == d.name) d.digest) with
          | nil => rw [hh] at hin; simp at hin
          | cons a r => rfl
        simp [this]
      · refine ⟨node, ?_, h2⟩
        simp only [List.mem_filterMap]
        exact ⟨(n, node), h1, by simp [dataNode, hp]⟩
  have guardedK : ∀ {α} (caught : List PyErr) (r : Except PyErr α) (k : α → Except PyErr Res) {st' effs}
      (P : State → List Effect → Prop), (∀ {st' effs}, (Except.ok (st, []) : Except PyErr Res) = .ok (st', effs) → P st' effs) →
      (∀ a {st' effs}, k a = .ok (st', effs) → P st' effs) →
      guarded caught st r k = .ok (st', effs) → P st' effs := by
    intro α caught r k st' effs P hd hk h
    unfold guarded at h
    split at h
    · exact hk _ h
    · split at h
      · exact hd h
      · simp at h
  have net : ∀ {st' effs} nr tok t pkt, receiveNet g D st nr tok t pkt = .ok (st', effs) →
      st'.fib = st.fib ∧ (effs = [] → st' = st) ∧
      (∀ n node p, (n, node) ∈ st.pit → p ∈ node → p.id ∉ completedIds effs →
        ∃ node', (n, node') ∈ st'.pit ∧ p ∈ node') := by
    intro st' effs nr tok t pkt h
    unfold receiveNet at h
    split at h
    · exact guardedK _ _ _ (fun s e => s.fib = st.fib ∧ (e = [] → s = st) ∧
        (∀ n node p, (n, node) ∈ st.pit → p ∈ node → p.id ∉ completedIds e →
          ∃ node', (n, node') ∈ s.pit ∧ p ∈ node')) drop (fun a _ _ hk => nack _ _ hk) h
    · split at h
      · exact guardedK _ _ _ (fun s e => s.fib = st.fib ∧ (e = [] → s = st) ∧
          (∀ n node p, (n, node) ∈ st.pit → p ∈ node → p.id ∉ completedIds e →
            ∃ node', (n, node') ∈ s.pit ∧ p ∈ node')) drop (fun a _ _ hk => int _ _ hk) h
      · split at h
        · exact guardedK _ _ _ (fun s e => s.fib = st.fib ∧ (e = [] → s = st) ∧
            (∀ n node p, (n, node) ∈ st.pit → p ∈ node → p.id ∉ completedIds e →
              ∃ node', (n, node') ∈ s.pit ∧ p ∈ node')) drop (fun a _ _ hk => data _ hk) h
        · exact drop h
  unfold receive at h
  split at h
  · refine guardedK _ _ _ (fun s e => s.fib = st.fib ∧ (e = [] → s = st) ∧
        (∀ n node p, (n, node) ∈ st.pit → p ∈ node → p.id ∉ completedIds e →
          ∃ node', (n, node') ∈ s.pit ∧ p ∈ node')) drop ?_ h
    intro lp st' effs hk
    split at hk
    · split at hk
      · exact drop hk
      · exact guardedK _ _ _ (fun s e => s.fib = st.fib ∧ (e = [] → s = st) ∧
          (∀ n node p, (n, node) ∈ st.pit → p ∈ node → p.id ∉ completedIds e →
            ∃ node', (n, node') ∈ s.pit ∧ p ∈ node')) drop (fun a _ _ hk => drop hk) hk
    · exact guardedK _ _ _ (fun s e => s.fib = st.fib ∧ (e = [] → s = st) ∧
        (∀ n node p, (n, node) ∈ st.pit → p ∈ node → p.id ∉ completedIds e →
          ∃ node', (n, node') ∈ s.pit ∧ p ∈ node')) drop (fun a _ _ hk => net _ _ _ _ hk) hk
  · exact net _ _ _ _ h

/-- the invariant assumed by `receive_frame` is preserved by every reception, so it holds in every
    state reachable from a well-formed one -/
theorem receive_preserves_wf (g : Guards) (D : Decoders) (st : State) (typ : Nat) (w : Bytes) (res : Res)
    (hwf : st.WF) (h : receive g D st typ w = .ok res) : res.1.WF := by
  have guardedK : ∀ {α} (caught : List PyErr) (r : Except PyErr α) (k : α → Except PyErr Res) {res : Res},
      (∀ a {res}, k a = .ok res → res.1.WF) → guarded caught st r k = .ok res → res.1.WF := by
    intro α caught r k res hk h
    unfold guarded at h
    split at h
    · exact hk _ h
    · split at h
      · simp only [Except.ok.injEq] at h; subst h; exact hwf
      · simp at h
  have okwf : ∀ {res : Res}, (Except.ok (st, []) : Except PyErr Res) = .ok res → res.1.WF := by
    intro res h; simp only [Except.ok.injEq] at h; subst h; exact hwf
  have net : ∀ {res : Res} nr tok t pkt, receiveNet g D st nr tok t pkt = .ok res → res.1.WF := by
    intro res nr tok t pkt h
    unfold receiveNet at h
    split at h
    · exact guardedK _ _ _ (fun a _ hk => onNack_wf g st _ _ _ hwf hk) h
    · split at h
      · refine guardedK _ _ _ (fun a res hk => ?_) h
        simp only [Except.ok.injEq] at hk; subst hk
        unfold onInterest; split
        · exact hwf
        · split <;> exact hwf
      · split at h
        · refine guardedK _ _ _ (fun a res hk => ?_) h
          simp only [Except.ok.injEq] at hk; subst hk
          exact onData_wf st a hwf
        · exact okwf h
  unfold receive at h
  split at h
  · refine guardedK _ _ _ (fun lp res hk => ?_) h
    split at hk
    · split at hk
      · exact okwf hk
      · exact guardedK _ _ _ (fun a _ hk => okwf hk) hk
    · exact guardedK _ _ _ (fun a _ hk => net _ _ _ _ hk) hk
  · exact net _ _ _ _ h

/-- a non-trivial well-formed state: two Interests pending on one name, one on another -/
example : (⟨[([[8, 1, 97]], [⟨0, false, []⟩, ⟨1, true, []⟩]), ([[8, 1, 98]], [⟨2, false, []⟩])], [[[8, 1, 97]]]⟩ : State).WF := by
  refine ⟨by decide, ?_⟩
  intro e he
  simp at he
  rcases he with rfl | rfl <;> simp

/-! ## UDP face -/

private theorem parseTlNum_raises (buf : Bytes) (off : Nat) (e : PyErr) (h : parseTlNum buf off = .error e) :
    e = .indexError ∨ e = .structError := by
  unfold parseTlNum at h
  split at h
  · simp only [Except.error.injEq] at h; exact Or.inl h.symm
  · have un : ∀ a n (e : PyErr) {α} (f : Nat → Except PyErr α) (hf : ∀ x, f x ≠ .error e),
        (unpackAt buf a n >>= f) = .error e → e = .structError := by
      intro a n e α f hf h
      unfold unpackAt at h
      dsimp only at h
      split at h
      · exact absurd h (hf _)
      · simp only [bind, Except.bind, Except.error.injEq] at h; exact h.symm
    split at h
    · simp at h
    · split at h
      · exact Or.inr (un _ _ e _ (by intro x; simp [pure, Except.pure]) h)
      · split at h
        · exact Or.inr (un _ _ e _ (by intro x; simp [pure, Except.pure]) h)
        · exact Or.inr (un _ _ e _ (by intro x; simp [pure, Except.pure]) h)

/-- **udp_total.** For EVERY datagram (empty, truncated inside the Type number, anything):
    `datagram_received` returns normally - it either hands the datagram to the callback with its Type
    or ignores it.  Uses the generated `except` tuple of `datagram_received`. -/
theorem udp_total (data : Bytes) : ∃ r, datagramReceived Gen.C06.udpCaught data = .ok r := by
  unfold datagramReceived
  cases h : parseTlNum data 0 with
  | ok p => exact ⟨_, rfl⟩
  | error e =>
    rcases parseTlNum_raises _ _ _ h with rfl | rfl
    · exact ⟨none, by simp [Gen.C06.udpCaught]⟩
    · exact ⟨none, by simp [Gen.C06.udpCaught]⟩

example : datagramReceived Gen.C06.udpCaught [] = .ok none := by rfl
example : datagramReceived Gen.C06.udpCaught [253, 1] = .ok none := by rfl
example : datagramReceived Gen.C06.udpCaught [5, 0] = .ok (some (5, [5, 0])) := by rfl

/-! ## (b, continued) byte-level instantiation: the decoders are no longer black boxes

  `Ndn.RecvBytes.bytesDecoders H` (NdnModel/ReceiveBytes.lean) computes the four decoder outcomes of the
  pipeline from the delivered bytes with the decoder models of property C07:
  `decodePacket Gen.C07.lp 100 true false [82, 83]` (parse_lp_packet_v2), `parseTlNum` on the Fragment,
  `decodePacket Gen.C07.interest 5 …` inside `Ndn.Packet.parseInterest` (parse_interest + the digest pointers
  `params_sha256_checker` reads), `decodePacket Gen.C07.data 6 …` (parse_data); `H` stands for SHA-256. -/

open Ndn.RecvBytes in
/-- the exception classes C07 documents for the decoders (`Ndn.Codec.docErr`) are exactly C06's `raisable`
    set (the two properties share the type `PyErr` of exception classes, so no translation is involved) -/
theorem docErr_iff_raisable (e : PyErr) : Ndn.Codec.docErr e = true ↔ e ∈ raisable := by
  cases e <;> simp [Ndn.Codec.docErr, raisable]

open Ndn.RecvBytes in
/-- **bytes_decoders_raise_only.** On EVERY byte string each of the four byte-level decoder models returns a
    value or raises a class of `raisable` - the hypothesis of `receive_total`, which was an assumption about
    black boxes there, is a theorem for these decoders (C07: `shipped_decoders_error_classes`,
    `parseAndCheckTl_doc`, `parseTlNum_doc`). -/
theorem bytes_decoders_raise_only (H : Bytes → Bytes) : RaisesOnly (bytesDecoders H) raisable :=
  ⟨fun w e h => (docErr_iff_raisable e).1 (lpDec_doc w e h),
   fun w e h => (docErr_iff_raisable e).1 (tlDec_doc w e h),
   fun w e h => (docErr_iff_raisable e).1 (intDec_doc H w e h),
   fun w e h => (docErr_iff_raisable e).1 (dataDec_doc H w e h)⟩

open Ndn.RecvBytes in
/-- **receive_bytes_total.** For EVERY byte string `w` handed to `_receive` with ANY type number `typ`
    (consistent with the bytes or not), in EVERY state of the pending-Interest / handler tables, for both
    front-ends and every hash function `H`: the pipeline with the byte-level decoders returns normally.

    What is proved for all byte strings, with no sampled ingredient: (1) the envelope decoder, the Type
    reader applied to the Fragment, the Interest decoder and the Data decoder - as modelled in property C07
    over the schemas regenerated from the live packet classes - raise only DecodeError, IndexError,
    ValueError, struct.error or TypeError (`bytes_decoders_raise_only`); (2) every one of these classes is
    named by the `except` tuple found in the source at every decoding step, a missing Fragment is handled and
    the Nack lookup is guarded (`gen_safe`, tables regenerated from the live source); (3) hence nothing
    leaves `_receive` (`receive_total_of_safe`).

    What still rests on correspondence (model = code, differential testing on every run): that
    `decodePacket` / `parseTlNum` / `parseInterest` behave as parse_lp_packet_v2 / parse_tl_num /
    parse_interest / parse_data including the exception class (C07's, C01's and C02's correspondence checks,
    and this property's harness, which runs `receiveBytes` next to the real `_receive` on every packet of
    its malformed stream); that `receive` is the control flow of `_receive` / `_on_nack` / `_on_data` /
    `_on_interest` (this property's correspondence); and that `params_sha256_checker`, the validators and
    the handlers do not raise. -/
theorem receive_bytes_total (H : Bytes → Bytes) (st : State) (typ : Nat) (w : Bytes) :
    (∃ res, receiveBytes Gen.C06.v2 H st typ w = .ok res) ∧ (∃ res, receiveBytes Gen.C06.v1 H st typ w = .ok res) :=
  receive_total (bytesDecoders H) (bytes_decoders_raise_only H) st typ w

open Ndn.RecvBytes in
/-- the frame and invariant theorems apply verbatim to the byte-level pipeline: a packet that completes
    and invokes nothing (in particular every undecodable one) leaves the tables as they were -/
theorem receive_bytes_frame (g : Guards) (H : Bytes → Bytes) (st st' : State) (typ : Nat) (w : Bytes)
    (effs : List Effect) (hwf : st.WF) (h : receiveBytes g H st typ w = .ok (st', effs)) :
    st'.WF ∧ st'.fib = st.fib ∧ (effs = [] → st' = st) ∧
    (∀ n node p, (n, node) ∈ st.pit → p ∈ node → p.id ∉ completedIds effs →
      ∃ node', (n, node') ∈ st'.pit ∧ p ∈ node') :=
  ⟨receive_preserves_wf g _ st typ w _ hwf h, receive_frame g _ st st' typ w effs hwf h⟩

/-! non-vacuity: the byte-level pipeline does the work on real packets (bytes produced by the library's
    own encoders) and drops malformed ones. `/a/b` = `[[8,1,97],[8,1,98]]`. -/
section
open Ndn.RecvBytes

/-- a Nack envelope (reason 150) around the Interest `/a/b` fails the Interest pending under `/a/b` -/
example : receiveBytes Gen.C06.v2 (fun _ => []) ⟨[([[8, 1, 97], [8, 1, 98]], [⟨0, false, []⟩])], [[[8, 1, 97]]]⟩ 100
    [100, 31, 253, 3, 32, 5, 253, 3, 33, 1, 150, 80, 20, 5, 18, 7, 6, 8, 1, 97, 8, 1, 98, 10, 4, 1, 2, 3, 4, 12, 2, 15, 160]
    = .ok (⟨[], [[[8, 1, 97]]]⟩, [.nacked 0 150]) := by rfl
/-- an Interest `/a/b` inside an envelope carrying PIT token 01020304 invokes the handler at `/a` with the token -/
example : receiveBytes Gen.C06.v2 (fun _ => []) ⟨[], [[[8, 1, 97]]]⟩ 100
    [100, 28, 98, 4, 1, 2, 3, 4, 80, 20, 5, 18, 7, 6, 8, 1, 97, 8, 1, 98, 10, 4, 1, 2, 3, 4, 12, 2, 15, 160]
    = .ok (⟨[], [[[8, 1, 97]]]⟩, [.invoke [[8, 1, 97]] (some [1, 2, 3, 4])]) := by rfl
/-- a signed Data `/a/b` satisfies the pending Interest (legacy front-end) -/
example : receiveBytes Gen.C06.v1 (fun _ => []) ⟨[([[8, 1, 97], [8, 1, 98]], [⟨0, false, []⟩])], []⟩ 6
    [6, 62, 7, 6, 8, 1, 97, 8, 1, 98, 20, 6, 24, 1, 0, 25, 1, 10, 21, 5, 67, 47, 97, 47, 98, 22, 3, 27, 1, 0, 23, 32,
     185, 156, 123, 20, 181, 134, 61, 75, 214, 99, 228, 211, 100, 214, 125, 74, 33, 241, 57, 100, 246, 124, 150, 222,
     184, 187, 129, 112, 57, 153, 170, 242]
    = .ok (⟨[], []⟩, [.satisfied 0]) := by rfl
/-- each decoding step does raise on some bytes: envelope (ValueError: FragIndex of width 0), Type of the
    Fragment (struct.error: `fd` alone), Interest (DecodeError: no Name), Data (IndexError: truncated) -/
example : lpDec [100, 2, 82, 0] = .error .valueError ∧
    (lpDec [100, 3, 80, 1, 253] = .ok ⟨none, none, some [253]⟩ ∧ tlDec [253] = .error .structError) ∧
    intDec (fun _ => []) [5, 0] = .error .decodeError ∧ dataDec (fun _ => []) [6, 9, 7] = .error .indexError :=
  ⟨by rfl, ⟨by rfl, by rfl⟩, by rfl, by rfl⟩
/-- … and all of them are dropped, with a pending Interest and a handler present -/
example : ∀ w ∈ ([[100, 2, 82, 0], [100, 3, 80, 1, 253], [5, 0], [6, 9, 7], [], [100, 0]] : List Bytes), ∀ typ ∈ [5, 6, 100],
    receiveBytes Gen.C06.v2 (fun _ => []) ⟨[([[8, 1, 97]], [⟨0, true, []⟩])], [[]]⟩ typ w
      = .ok (⟨[([[8, 1, 97]], [⟨0, true, []⟩])], [[]]⟩, []) := by
  intro w hw typ ht
  simp only [List.mem_cons, List.not_mem_nil, or_false] at hw ht
  rcases hw with rfl | rfl | rfl | rfl | rfl | rfl <;> rcases ht with rfl | rfl | rfl <;> rfl
end

end Ndn.C06
