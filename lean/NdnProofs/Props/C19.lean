import NdnProofs.Lemmas.SegFetch
import NdnProofs.Lemmas.SegFetchNames
import NdnProofs.Lemmas.SegFetchTimed
import NdnProofs.Props.C03
import NdnProofs.Props.C09
import NdnGen.C19
/-!
# C19 — Segmented fetch yields every segment once, in order, tolerating bounded loss

Theorems about `Ndn.SegFetch.fetch` (model of `segment_fetcher` over the legacy `NDNApp.express_interest`)
for **every** object, every discovery answer, every per-Interest script and every retry limit.
Specification vocabulary (does not mention the implementation):
* `attempts limit` — how many times one Interest may be sent;
* `Tolerable a sc` — the script contains no Nack, no invalid Data, and fewer than `a` consecutive losses;
* `IsFinal segs f` — `f` is the first segment whose FinalBlockId marker names itself; `NoFinal`;
* the log `(request, outcome)` of every Interest the producer saw.
-/
namespace Ndn.C19
open Ndn Ndn.SegFetch

/-- loss the fetch has to tolerate; `cur` = losses in a row so far -/
def Tolerable (a : Nat) : Nat → List Outcome → Prop
  | _, [] => True
  | _, .data :: r => Tolerable a 0 r
  | cur, .timeout :: r => cur + 1 < a ∧ Tolerable a (cur + 1) r
  | _, .nack :: _ => False
  | _, .invalid :: _ => False

/-- segment `f` is the one designated final: the first whose marker names its own number -/
def IsFinal (segs : List Seg) (f : Nat) : Prop :=
  (∃ s : Seg, segs[f]? = some s ∧ s.fbi = some f) ∧ ∀ (j : Nat) (s : Seg), j < f → segs[j]? = some s → s.fbi ≠ some j

def NoFinal (segs : List Seg) : Prop := ∀ (j : Nat) (s : Seg), segs[j]? = some s → s.fbi ≠ some j

def contents (segs : List Seg) : List Nat := segs.map (·.content)

/-! ### tolerable loss -/

theorem retry_tolerable (limit : Nat) : ∀ (sc : List Outcome) (fuel trial : Nat),
    Tolerable (attempts limit) trial sc → trial ≤ limit → limit + 1 ≤ fuel + trial →
    (retry limit true fuel trial sc).1 = .ok ∧ Tolerable (attempts limit) 0 (retry limit true fuel trial sc).2.1 := by
  intro sc
  induction sc with
  | nil =>
    intro fuel trial _ h2 h3
    obtain ⟨n, rfl⟩ : ∃ n, fuel = n + 1 := ⟨fuel - 1, by omega⟩
    simp [retry_succ, pop, eff, Tolerable]
  | cons o r ih =>
    intro fuel trial h1 h2 h3
    obtain ⟨n, rfl⟩ : ∃ n, fuel = n + 1 := ⟨fuel - 1, by omega⟩
    cases o with
    | data => simpa [retry_succ, pop, eff, Tolerable] using h1
    | nack => simp [Tolerable] at h1
    | invalid => simp [Tolerable] at h1
    | timeout =>
      obtain ⟨h4, h5⟩ := h1
      have hlt : ¬ (trial + 1 ≥ limit) := by simp only [attempts] at h4; omega
      simp only [retry_succ, pop, eff, if_true, hlt, if_false]
      exact ih n (trial + 1) h5 (by omega) (by omega)

/-- a segment that does not exist is never answered: under tolerable scripts the request times out -/
theorem retry_missing_timeout (limit : Nat) : ∀ (fuel trial : Nat) (sc : List Outcome),
    (∀ o ∈ sc, o ≠ Outcome.nack) → trial ≤ limit → limit + 1 ≤ fuel + trial →
    (retry limit false fuel trial sc).1 = .timeout := by
  intro fuel
  induction fuel with
  | zero => intro trial sc _ h2 h3; omega
  | succ n ih =>
    intro trial sc h1 h2 h3
    have he : eff (pop sc).1 false = .timeout := by
      cases sc with
      | nil => simp [pop, eff]
      | cons o r =>
        have : o ≠ .nack := h1 o (by simp)
        cases o <;> simp_all [pop, eff]
    have hr : ∀ o ∈ (pop sc).2, o ≠ Outcome.nack := by
      cases sc with
      | nil => simp [pop]
      | cons o r => intro x hx; exact h1 x (by simp [pop] at hx; simp [hx])
    rw [retry_succ, he]
    by_cases h : trial + 1 ≥ limit
    · simp [h]
    · simp only [h, if_false]
      exact ih (trial + 1) _ hr (by omega) (by omega)

theorem tolerable_no_nack (a : Nat) : ∀ (sc : List Outcome) (cur : Nat), Tolerable a cur sc → ∀ o ∈ sc, o ≠ Outcome.nack := by
  intro sc
  induction sc with
  | nil => intro _ _ o ho; simp at ho
  | cons x r ih =>
    intro cur h o ho
    cases x with
    | data =>
      rcases List.mem_cons.mp ho with e | e
      · simp [e]
      · exact ih 0 h o e
    | timeout =>
      rcases List.mem_cons.mp ho with e | e
      · simp [e]
      · exact ih (cur + 1) h.2 o e
    | nack => simp [Tolerable] at h
    | invalid => simp [Tolerable] at h

theorem take_drop_cons (segs : List Seg) (f i : Nat) (hi : i ≤ f) (hf : f < segs.length) :
    ((segs.take (f + 1)).drop i).map (·.content) =
      (segs[i]'(by omega)).content :: ((segs.take (f + 1)).drop (i + 1)).map (·.content) := by
  have hlen : i < (segs.take (f + 1)).length := by simp; omega
  rw [List.drop_eq_getElem_cons hlen]
  simp

/-- the segment loop started at `i ≤ f` under tolerable loss yields segments `i … f` and finishes -/
theorem fetchLoop_tolerable (limit : Nat) (segs : List Seg) (f : Nat) (hfin : IsFinal segs f) :
    ∀ (fuel i : Nat) (sc : List Outcome), i ≤ f → f + 1 ≤ fuel + i → Tolerable (attempts limit) 0 sc →
    (fetchLoop limit segs fuel i sc).yielded = ((segs.take (f + 1)).drop i).map (·.content) ∧
    (fetchLoop limit segs fuel i sc).end_ = .done := by
  obtain ⟨⟨sf, hsf, hsff⟩, hbefore⟩ := hfin
  have hflt : f < segs.length := by
    rcases Nat.lt_or_ge f segs.length with h | h
    · exact h
    · simp [List.getElem?_eq_none h] at hsf
  have hsf' : segs[f] = sf := by
    have := List.getElem?_eq_getElem hflt
    rw [this] at hsf; exact Option.some.inj hsf
  intro fuel
  induction fuel with
  | zero => intro i sc h1 h2; omega
  | succ n ih =>
    intro i sc h1 h2 h3
    have hilt : i < segs.length := by omega
    have hdec : decide (i < segs.length) = true := by simp [hilt]
    obtain ⟨hok, hrest⟩ := retry_tolerable limit sc (limit + 1) 0 h3 (by omega) (by omega)
    have hs : segs[i]? = some segs[i] := List.getElem?_eq_getElem hilt
    rw [fetchLoop_succ, hdec, hok, hs]
    simp only
    rw [take_drop_cons segs f i h1 hflt]
    by_cases hif : i = f
    · subst hif
      have : segs[i].fbi = some i := by rw [hsf']; exact hsff
      simp only [this, if_true, and_true]
      have : (segs.take (i + 1)).drop (i + 1) = [] := by
        apply List.drop_eq_nil_of_le; simp only [List.length_take]; omega
      simp [this]
    · have hne : segs[i].fbi ≠ some i := hbefore i _ (by omega) hs
      simp only [hne, if_false]
      obtain ⟨y, e⟩ := ih (i + 1) _ (by omega) (by omega) hrest
      exact ⟨by rw [y], e⟩

/-- **fetch_yields_all_once_in_order.** For a segmented object whose segment `f` is designated final, whichever
    existing segment answers the discovery Interest, and whenever every Interest loses fewer than the configured
    number of attempts in a row (no Nack, no invalid Data), the fetch yields the contents of segments
    `0, 1, …, f`, each exactly once and in order, and finishes normally. -/
theorem fetch_yields_all_once_in_order (segs : List Seg) (disc limit f : Nat) (sc : List Outcome)
    (hfin : IsFinal segs f) (hd : disc < segs.length) (ht : Tolerable (attempts limit) 0 sc) :
    (fetch ⟨.segs segs, disc, sc, limit⟩).yielded = contents (segs.take (f + 1)) ∧
    (fetch ⟨.segs segs, disc, sc, limit⟩).end_ = .done := by
  have hfin' := hfin
  obtain ⟨⟨sf, hsf, hsff⟩, hbefore⟩ := hfin
  have hflt : f < segs.length := by
    rcases Nat.lt_or_ge f segs.length with h | h
    · exact h
    · simp [List.getElem?_eq_none h] at hsf
  obtain ⟨hok, hrest⟩ := retry_tolerable limit sc (limit + 1) 0 ht (by omega) (by omega)
  have hdec : decide (disc < segs.length) = true := by simp [hd]
  unfold fetch
  simp only [hdec, hok, contents]
  by_cases hd0 : disc = 0
  · simp only [hd0, if_true]
    have h0 : 0 < segs.length := by omega
    have hs : segs[0]? = some segs[0] := List.getElem?_eq_getElem h0
    rw [hs]
    simp only
    by_cases hf0 : f = 0
    · subst hf0
      have hsf' : segs[0] = sf := by rw [hs] at hsf; exact Option.some.inj hsf
      have : segs[0].fbi = some 0 := by rw [hsf']; exact hsff
      simp only [this, if_true, and_true]
      rw [List.take_one]
      simp [List.head?_eq_getElem?, hs]
    · have hne : segs[0].fbi ≠ some 0 := hbefore 0 _ (by omega) hs
      simp only [hne, if_false]
      obtain ⟨y, e⟩ := fetchLoop_tolerable limit segs f hfin' (segs.length + 1) 1 _ (by omega) (by omega) hrest
      refine ⟨?_, e⟩
      rw [y]
      have := take_drop_cons segs f 0 (by omega) hflt
      simpa using this.symm
  · simp only [hd0, if_false]
    obtain ⟨y, e⟩ := fetchLoop_tolerable limit segs f hfin' (segs.length + 1) 0 _ (by omega) (by omega) hrest
    exact ⟨by rw [y]; simp, e⟩

/-- **fetch_unsegmented.** An unsegmented object yields its single content under tolerable loss. -/
theorem fetch_unsegmented (c disc limit : Nat) (sc : List Outcome) (ht : Tolerable (attempts limit) 0 sc) :
    (fetch ⟨.unseg c, disc, sc, limit⟩).yielded = [c] ∧ (fetch ⟨.unseg c, disc, sc, limit⟩).end_ = .done := by
  obtain ⟨hok, _⟩ := retry_tolerable limit sc (limit + 1) 0 ht (by omega) (by omega)
  simp [fetch, hok]

/-! ### invariants for every script -/

theorem fetch_good (S : Scenario) : Good (attempts S.limit) (fetch S) := by
  unfold fetch
  cases hobj : S.obj with
  | unseg c =>
    simp only
    cases hr : (retry S.limit true (S.limit + 1) 0 S.script).1 with
    | ok => exact good_of_done S.limit true S.script Req.disc _ hr
    | fuel => exact absurd hr (retry_top S.limit _ S.script).1
    | timeout | nack | invalid =>
      have := good_of_block S.limit true S.script Req.disc [] (by simp [hr])
      rw [hr] at this
      simpa using this
  | segs l =>
    simp only
    cases hr : (retry S.limit (decide (S.disc < l.length)) (S.limit + 1) 0 S.script).1 with
    | ok =>
      have hlt : S.disc < l.length := by
        by_cases h : S.disc < l.length
        · exact h
        · simp only [h, decide_false] at hr
          exact absurd hr (retry_missing_not_ok _ _ _ _)
      simp only
      by_cases hd0 : S.disc = 0
      · rw [if_pos hd0]
        have h0 : 0 < l.length := by omega
        have hs : l[0]? = some l[0] := List.getElem?_eq_getElem h0
        rw [hs]
        simp only
        by_cases hf : l[0].fbi = some 0
        · simp only [hf, if_true]
          exact good_of_done S.limit _ S.script Req.disc _ hr
        · simp only [hf, if_false]
          exact good_prepend _ _ _ _ _ _ (ok_block_benign S.limit _ S.script Req.disc hr)
            (fetchLoop_good S.limit l (l.length + 1) 1 _ (by omega) (by omega))
      · simp only [hd0, if_false]
        exact good_prepend _ _ _ _ _ _ (ok_block_benign S.limit _ S.script Req.disc hr)
          (fetchLoop_good S.limit l (l.length + 1) 0 _ (by omega) (by omega))
    | fuel => exact absurd hr (retry_top S.limit _ S.script).1
    | timeout | nack | invalid =>
      have := good_of_block S.limit (decide (S.disc < l.length)) S.script Req.disc [] (by simp [hr])
      rw [hr] at this
      simpa using this

/-- **fetch_terminates.** The fuel given by `fetch` always suffices: the generator finishes or raises. -/
theorem fetch_terminates (S : Scenario) : (fetch S).end_ ≠ .fuel := (fetch_good S).1

theorem attempts_pos (limit : Nat) : 0 < attempts limit := by simp [attempts]; omega

/-- **fetch_timeout_iff.** The fetch fails with a timeout exactly when some request exhausted its attempts: the
    log ends with `attempts limit` lost Interests for one and the same request. -/
theorem fetch_timeout_iff (S : Scenario) :
    (fetch S).end_ = .timeout ↔
      ∃ pre req, (fetch S).log = pre ++ List.replicate (attempts S.limit) (req, Outcome.timeout) := by
  obtain ⟨g1, pre, req, j, g2, _, g4, _⟩ := fetch_good S
  constructor
  · intro h
    refine ⟨pre, req, ?_⟩
    rw [g2, ← g4 h, h]
    simp [endOut, List.replicate_succ']
  · rintro ⟨pre', req', h⟩
    obtain ⟨n, hn⟩ : ∃ n, attempts S.limit = n + 1 := ⟨attempts S.limit - 1, by have := attempts_pos S.limit; omega⟩
    have h1 : (fetch S).log.getLast? = some (req', Outcome.timeout) := by
      rw [h, hn, List.replicate_succ']; simp
    have h2 : (fetch S).log.getLast? = some (req, endOut (fetch S).end_) := by
      rw [g2]; simp
    rw [h1] at h2
    have : endOut (fetch S).end_ = Outcome.timeout := by
      have := Option.some.inj h2; exact (Prod.mk.inj this).2.symm
    cases he : (fetch S).end_ <;> simp_all [endOut]

/-- **fetch_propagates.** A Nack, or Data that fails validation, is never skipped: it is the last Interest the
    fetch sends and the fetch ends with that very failure; conversely the fetch ends that way only then. -/
theorem fetch_propagates (S : Scenario) :
    (∀ req, (req, Outcome.nack) ∈ (fetch S).log →
        (fetch S).end_ = .nack ∧ (fetch S).log.getLast? = some (req, Outcome.nack)) ∧
    (∀ req, (req, Outcome.invalid) ∈ (fetch S).log →
        (fetch S).end_ = .invalid ∧ (fetch S).log.getLast? = some (req, Outcome.invalid)) ∧
    ((fetch S).end_ = .nack → ∃ req, (fetch S).log.getLast? = some (req, Outcome.nack)) ∧
    ((fetch S).end_ = .invalid → ∃ req, (fetch S).log.getLast? = some (req, Outcome.invalid)) := by
  obtain ⟨g1, pre, req, j, g2, g3, _, _⟩ := fetch_good S
  have hlast : (fetch S).log.getLast? = some (req, endOut (fetch S).end_) := by rw [g2]; simp
  have key : ∀ req' o, (o = Outcome.nack ∨ o = Outcome.invalid) → (req', o) ∈ (fetch S).log →
      req' = req ∧ endOut (fetch S).end_ = o := by
    intro req' o ho hm
    rw [g2] at hm
    rcases List.mem_append.mp hm with h | h
    · have := g3 _ h
      rcases ho with rfl | rfl <;> simp at this
    · rcases List.mem_append.mp h with h | h
      · have := (List.mem_replicate.mp h).2
        rcases ho with rfl | rfl <;> simp at this
      · have := List.mem_singleton.mp h
        exact ⟨(Prod.mk.inj this).1, (Prod.mk.inj this).2.symm⟩
  refine ⟨?_, ?_, ?_, ?_⟩
  · intro req' hm
    obtain ⟨e1, e2⟩ := key req' _ (.inl rfl) hm
    refine ⟨?_, by rw [hlast, e1, e2]⟩
    cases he : (fetch S).end_ <;> simp_all [endOut]
  · intro req' hm
    obtain ⟨e1, e2⟩ := key req' _ (.inr rfl) hm
    refine ⟨?_, by rw [hlast, e1, e2]⟩
    cases he : (fetch S).end_ <;> simp_all [endOut]
  · intro h; exact ⟨req, by rw [hlast, h]; rfl⟩
  · intro h; exact ⟨req, by rw [hlast, h]; rfl⟩

/-- **requests_bounded.** No request is sent more often than the configured number of attempts. -/
theorem requests_bounded (S : Scenario) (req : Req) :
    ((fetch S).log.filter (fun e => decide (e.1 = req))).length ≤ attempts S.limit := by
  have hdisc : ∀ (ex : Bool), (((retry S.limit ex (S.limit + 1) 0 S.script).2.2.map (fun o => (Req.disc, o))).filter
      (fun e => decide (e.1 = req))).length ≤ attempts S.limit := fun ex =>
    Nat.le_trans (List.length_filter_le _ _) (by simpa using retry_top_length S.limit ex S.script)
  have hloop : ∀ (ex : Bool) (l : List Seg) (i : Nat) (sc : List Outcome),
      ((((retry S.limit ex (S.limit + 1) 0 S.script).2.2.map (fun o => (Req.disc, o))) ++
        (fetchLoop S.limit l (l.length + 1) i sc).log).filter (fun e => decide (e.1 = req))).length ≤ attempts S.limit := by
    intro ex l i sc
    rw [List.filter_append, List.length_append]
    by_cases hq : req = Req.disc
    · have hz : ((fetchLoop S.limit l (l.length + 1) i sc).log.filter (fun e => decide (e.1 = req))) = [] := by
        rw [List.filter_eq_nil_iff]
        intro e he
        obtain ⟨k, h1, _⟩ := fetchLoop_reqs S.limit l _ i sc e he
        simp [hq, h1]
      rw [hz]; simpa using hdisc ex
    · have hz : (((retry S.limit ex (S.limit + 1) 0 S.script).2.2.map (fun o => (Req.disc, o))).filter
          (fun e => decide (e.1 = req))) = [] := by
        rw [List.filter_eq_nil_iff]
        intro e he
        obtain ⟨o, _, rfl⟩ := List.mem_map.mp he
        simpa using fun h => hq h.symm
      rw [hz]; simpa using fetchLoop_count S.limit l req _ i sc
  unfold fetch
  cases hobj : S.obj with
  | unseg c =>
    simp only
    cases hr : (retry S.limit true (S.limit + 1) 0 S.script).1 <;> simp only <;> exact hdisc true
  | segs l =>
    simp only
    cases hr : (retry S.limit (decide (S.disc < l.length)) (S.limit + 1) 0 S.script).1 <;> simp only
    case ok =>
      by_cases hd0 : S.disc = 0
      · simp only [hd0, if_true]
        cases hs : l[0]? with
        | none => exact hdisc _
        | some s =>
          simp only
          by_cases hf : s.fbi = some 0
          · simp only [hf, if_true]; exact hdisc _
          · simp only [hf, if_false]; exact hloop _ l 1 _
      · simp only [hd0, if_false]; exact hloop _ l 0 _
    all_goals exact hdisc _

/-! ### objects without a designated final segment, and partial output -/

theorem fetchLoop_prefix (limit : Nat) (segs : List Seg) : ∀ (fuel i : Nat) (sc : List Outcome),
    ∃ n, (fetchLoop limit segs fuel i sc).yielded = ((segs.drop i).take n).map (·.content) := by
  intro fuel
  induction fuel with
  | zero => intro i sc; exact ⟨0, by simp [fetchLoop]⟩
  | succ k ih =>
    intro i sc
    rw [fetchLoop_succ]
    cases hs : segs[i]? with
    | none => cases hr : (retry limit (decide (i < segs.length)) (limit + 1) 0 sc).1 <;> exact ⟨0, by simp⟩
    | some s =>
      cases hr : (retry limit (decide (i < segs.length)) (limit + 1) 0 sc).1 with
      | timeout | nack | invalid | fuel => exact ⟨0, by simp⟩
      | ok =>
        simp only
        have hilt : i < segs.length := by
          rcases Nat.lt_or_ge i segs.length with h | h
          · exact h
          · simp [List.getElem?_eq_none h] at hs
        have hsi : segs[i] = s := by
          have := List.getElem?_eq_getElem hilt
          rw [this] at hs; exact Option.some.inj hs
        have hdrop : segs.drop i = s :: segs.drop (i + 1) := by
          rw [List.drop_eq_getElem_cons hilt, hsi]
        by_cases hf : s.fbi = some i
        · simp only [hf, if_true]
          exact ⟨1, by rw [hdrop]; simp⟩
        · simp only [hf, if_false]
          obtain ⟨n, hn⟩ := ih (i + 1) (retry limit (decide (i < segs.length)) (limit + 1) 0 sc).2.1
          exact ⟨n + 1, by rw [hdrop, hn]; simp⟩

/-- **yielded_prefix_in_order.** Whatever happens (loss, Nack, invalid Data), what has been yielded when the
    fetch ends is an initial run of the segments `0, 1, …` in order, each once (for an unsegmented object:
    nothing or its single content). -/
theorem yielded_prefix_in_order (S : Scenario) :
    match S.obj with
    | .unseg c => (fetch S).yielded = [] ∨ (fetch S).yielded = [c]
    | .segs l => ∃ n, (fetch S).yielded = contents (l.take n) := by
  unfold fetch
  cases hobj : S.obj with
  | unseg c =>
    simp only
    cases hr : (retry S.limit true (S.limit + 1) 0 S.script).1 <;> simp
  | segs l =>
    simp only
    cases hr : (retry S.limit (decide (S.disc < l.length)) (S.limit + 1) 0 S.script).1 <;> simp only
    case ok =>
      by_cases hd0 : S.disc = 0
      · rw [if_pos hd0]
        cases hs : l[0]? with
        | none => exact ⟨0, by simp [contents]⟩
        | some s =>
          simp only
          by_cases hf : s.fbi = some 0
          · simp only [hf, if_true]
            refine ⟨1, ?_⟩
            cases l with
            | nil => simp at hs
            | cons x r => simp at hs; subst hs; simp [contents]
          · simp only [hf, if_false]
            obtain ⟨n, hn⟩ := fetchLoop_prefix S.limit l (l.length + 1) 1
              (retry S.limit (decide (S.disc < l.length)) (S.limit + 1) 0 S.script).2.1
            refine ⟨n + 1, ?_⟩
            rw [hn]
            cases l with
            | nil => simp at hs
            | cons x r => simp at hs; subst hs; simp [contents]
      · rw [if_neg hd0]
        obtain ⟨n, hn⟩ := fetchLoop_prefix S.limit l (l.length + 1) 0
          (retry S.limit (decide (S.disc < l.length)) (S.limit + 1) 0 S.script).2.1
        exact ⟨n, by rw [hn]; simp [contents]⟩
    all_goals exact ⟨0, by simp [contents]⟩

theorem fetchLoop_nofinal (limit : Nat) (segs : List Seg) (hno : NoFinal segs) :
    ∀ (fuel i : Nat) (sc : List Outcome), i ≤ segs.length → segs.length + 1 ≤ fuel + i →
    Tolerable (attempts limit) 0 sc →
    (fetchLoop limit segs fuel i sc).yielded = (segs.drop i).map (·.content) ∧
    (fetchLoop limit segs fuel i sc).end_ = .timeout := by
  intro fuel
  induction fuel with
  | zero => intro i sc h1 h2; omega
  | succ n ih =>
    intro i sc h1 h2 h3
    rw [fetchLoop_succ]
    by_cases hilt : i < segs.length
    · have hdec : decide (i < segs.length) = true := by simp [hilt]
      obtain ⟨hok, hrest⟩ := retry_tolerable limit sc (limit + 1) 0 h3 (by omega) (by omega)
      have hs : segs[i]? = some segs[i] := List.getElem?_eq_getElem hilt
      rw [hdec, hok, hs]
      simp only
      have hne : segs[i].fbi ≠ some i := hno i _ hs
      simp only [hne, if_false]
      obtain ⟨y, e⟩ := ih (i + 1) _ (by omega) (by omega) hrest
      refine ⟨?_, e⟩
      have hd : segs.drop i = segs[i] :: segs.drop (i + 1) := List.drop_eq_getElem_cons hilt
      rw [y, hd]; rfl
    · have hdec : decide (i < segs.length) = false := by simp [hilt]
      have hto := retry_missing_timeout limit (limit + 1) 0 sc (tolerable_no_nack _ sc 0 h3) (by omega) (by omega)
      have hnone : segs[i]? = none := List.getElem?_eq_none (by omega)
      rw [hdec, hto, hnone]
      simp only [endOf, and_true]
      rw [List.drop_eq_nil_of_le (by omega)]; rfl

/-- **fetch_no_final_marker.** When no segment is designated final the fetcher cannot know where the object ends:
    under tolerable loss it yields every segment once in order and then fails with a timeout on the first
    segment that does not exist. -/
theorem fetch_no_final_marker (segs : List Seg) (disc limit : Nat) (sc : List Outcome)
    (hno : NoFinal segs) (hd : disc < segs.length) (ht : Tolerable (attempts limit) 0 sc) :
    (fetch ⟨.segs segs, disc, sc, limit⟩).yielded = contents segs ∧
    (fetch ⟨.segs segs, disc, sc, limit⟩).end_ = .timeout := by
  obtain ⟨hok, hrest⟩ := retry_tolerable limit sc (limit + 1) 0 ht (by omega) (by omega)
  have hdec : decide (disc < segs.length) = true := by simp [hd]
  unfold fetch
  simp only [hdec, hok, contents]
  by_cases hd0 : disc = 0
  · simp only [hd0, if_true]
    have h0 : 0 < segs.length := by omega
    have hs : segs[0]? = some segs[0] := List.getElem?_eq_getElem h0
    rw [hs]
    simp only
    have hne : segs[0].fbi ≠ some 0 := hno 0 _ hs
    simp only [hne, if_false]
    obtain ⟨y, e⟩ := fetchLoop_nofinal limit segs hno (segs.length + 1) 1 _ (by omega) (by omega) hrest
    refine ⟨?_, e⟩
    rw [y]
    cases segs with
    | nil => simp at h0
    | cons x r => simp
  · simp only [hd0, if_false]
    obtain ⟨y, e⟩ := fetchLoop_nofinal limit segs hno (segs.length + 1) 0 _ (by omega) (by omega) hrest
    exact ⟨by rw [y]; simp, e⟩

/-! ### the names-level half: segment numbers as name components, Interests as names

`segComp n` is `Component.from_segment(n)`; `fetchB` is the fetcher working on names (it replaces the last component of
the last Data name by `from_segment(seg_no)`, tests `get_type(name[-1])`, `to_number(name[-1])` and compares
`meta.final_block_id` with `name[-1]` as bytes) against a producer that sees Interest names only.  The component
facts come from the proved name model (property C09). -/

/-- **segment_component_roundtrip.** For every `n < 2^64`: `Component.from_segment(n)` is the component `segComp n`
    (Type 50 = the live `TYPE_SEGMENT`, value = the minimal-width big-endian number), `get_type` reads 50 and
    `to_number` reads `n` back, it is what the URI shorthand `seg=n` denotes (C09), and distinct numbers give distinct
    components. -/
theorem segment_component_roundtrip (n : Nat) (hn : n < 2 ^ 64) :
    Comp.fromNumber (n : Int) TYPE_SEGMENT = .ok (segComp n) ∧
    Comp.getType (segComp n) = .ok TYPE_SEGMENT ∧
    Comp.toNumber (segComp n) = .ok n ∧
    Comp.fromStr ("seg=".toList ++ toDec n) = .ok (segComp n) ∧
    (∀ m, m < 2 ^ 64 → (segComp m = segComp n ↔ m = n)) ∧
    Gen.C19.typeSegment = TYPE_SEGMENT ∧ Gen.C19.segShorthandType = TYPE_SEGMENT :=
  ⟨fromNumber_seg n hn, segComp_getType n, segComp_toNumber n hn, (C09.fromStr_shorthand_number n hn).1,
    fun m hm => ⟨segComp_inj m n hm hn, fun e => e ▸ rfl⟩, rfl, rfl⟩

/-- the component is the C09 representation of the abstract component (50, pack_uint_bytes n): `get_type` /
    `get_value` read that pair back (`C09.getType_getValue`) -/
theorem segComp_is_rep (n : Nat) :
    segComp n = C09.repC (TYPE_SEGMENT, packUint n) ∧ C09.ValidComp (TYPE_SEGMENT, packUint n) ∧
    Comp.getValue (segComp n) = .ok (packUint n) := by
  have hv : C09.ValidComp (TYPE_SEGMENT, packUint n) :=
    ⟨by simp [TYPE_SEGMENT], by simp [TYPE_SEGMENT], by have := packUint_length_le n; simp only; omega⟩
  exact ⟨rfl, hv, (C09.getType_getValue _ hv).2.2⟩

/-- **final_block_id_names_segment_iff.** For a Data named `base ++ [segment component i]` whose FinalBlockId is the
    segment component of `k`: the byte comparison `meta.final_block_id == name[-1]` succeeds iff `k = i`; without a
    FinalBlockId it fails. -/
theorem final_block_id_names_segment_iff (base : List Bytes) (i k c : Nat) (hi : i < 2 ^ 64) (hk : k < 2 ^ 64) :
    (fbiNamesLast ⟨base ++ [segComp i], some (segComp k), c⟩ = true ↔ k = i) ∧
    fbiNamesLast ⟨base ++ [segComp i], none, c⟩ = false := by
  have := fbiNamesLast_dataOf base ⟨c, some k⟩ i hi (fun k' h => by cases h; exact hk)
  simp only [Option.map_some] at this
  refine ⟨by rw [this]; simp, ?_⟩
  simp [fbiNamesLast]

/-- **fetchB_refines.** For a segmented object published under `base` (the fetch prefix is no longer than `base`),
    fewer than 2^64 − 2 segments and markers below 2^64: the fetcher on names sends, Interest by Interest, exactly
    the names the number-level requests stand for (`pre` for discovery, `base ++ [segment component k]` for segment
    `k`), with the same outcomes, yields the same contents and ends the same way. -/
theorem fetchB_refines (limit : Nat) (pre base : List Bytes) (l : List Seg) (disc : Nat) (sc : List Outcome)
    (hpre : pre.length ≤ base.length) (hfb : FbiBound l) (hlen : l.length + 2 < 2 ^ 64) :
    fetchB limit (producer pre (.segs base l) disc) pre (l.length + 1) sc =
      liftResult pre base (fetch ⟨.segs l, disc, sc, limit⟩) := by
  unfold fetchB fetch
  simp only [producer_pre, dataOf_isSome]
  cases hr : (retry limit (decide (disc < l.length)) (limit + 1) 0 sc).1 with
  | ok =>
    have hlt := ok_exists limit l disc sc hr
    have hs : l[disc]? = some l[disc] := List.getElem?_eq_getElem hlt
    have hd : dataOf base l disc = some ⟨base ++ [segComp disc], l[disc].fbi.map segComp, l[disc].content⟩ := by
      simp [dataOf, hs]
    have hdisc : disc < 2 ^ 64 := by omega
    simp only [hd, List.getLast?_concat, segComp_getType, ne_eq, not_true_eq_false, if_false,
      segComp_toNumber disc hdisc]
    by_cases hd0 : disc = 0
    · subst hd0
      simp only [if_true, hs]
      rw [fbiNamesLast_dataOf base l[0] 0 hdisc (fun k hk => hfb 0 _ k hs hk)]
      by_cases hf : l[0].fbi = some 0
      · simp [hf, liftResult, reqName, List.map_map, Function.comp_def]
      · simp only [hf, decide_false, Bool.false_eq_true, if_false]
        rw [fetchLoopB_refines limit pre base l 0 hpre hfb (l.length + 1) 1 0 _ (by omega)]
        simp [liftResult, reqName, List.map_map, Function.comp_def]
    · simp only [hd0, if_false]
      rw [fetchLoopB_refines limit pre base l disc hpre hfb (l.length + 1) 0 disc _ (by omega)]
      simp [liftResult, reqName, List.map_map, Function.comp_def]
  | timeout => cases dataOf base l disc <;> simp [liftResult, reqName, List.map_map, Function.comp_def, endOf]
  | nack => cases dataOf base l disc <;> simp [liftResult, reqName, List.map_map, Function.comp_def, endOf]
  | invalid => cases dataOf base l disc <;> simp [liftResult, reqName, List.map_map, Function.comp_def, endOf]
  | fuel => exact absurd hr (retry_top limit _ sc).1

/-- **fetchB_refines_unsegmented.** The same for an unsegmented object whose Data name ends in a component that is
    not a segment component (whatever else the name is: the prefix itself, a version, a file name). -/
theorem fetchB_refines_unsegmented (limit : Nat) (pre base name : List Bytes) (x : Bytes) (t c disc fuel : Nat)
    (sc : List Outcome) (hlast : name.getLast? = some x) (ht : Comp.getType x = .ok t) (hne : t ≠ TYPE_SEGMENT) :
    fetchB limit (producer pre (.unseg name c) disc) pre fuel sc =
      liftResult pre base (fetch ⟨.unseg c, disc, sc, limit⟩) := by
  unfold fetchB fetch
  simp only [producer, if_true, Option.isSome_some]
  cases hr : (retry limit true (limit + 1) 0 sc).1 <;>
    simp [hlast, ht, hne, liftResult, reqName, List.map_map, Function.comp_def, endOf]

/-! #### the Interests of a successful fetch, as names -/

/-- the requests that were answered with Data, in the order they were sent -/
def answered {α : Type} (lg : List (α × Outcome)) : List α :=
  (lg.filter fun e => decide (e.2 = Outcome.data)).map (·.1)

theorem answered_append {α : Type} (a b : List (α × Outcome)) : answered (a ++ b) = answered a ++ answered b := by
  simp [answered]

theorem answered_map {α β : Type} (g : α → β) (lg : List (α × Outcome)) :
    answered (lg.map fun e => (g e.1, e.2)) = (answered lg).map g := by
  induction lg with
  | nil => rfl
  | cons e r ih =>
    simp only [answered, List.map_cons, List.filter_cons] at ih ⊢
    split <;> simp_all

/-- under tolerable loss a request's block is some losses and then the answer -/
theorem block_tolerable (limit : Nat) (sc : List Outcome) (req : Req) (ht : Tolerable (attempts limit) 0 sc) :
    answered ((retry limit true (limit + 1) 0 sc).2.2.map fun o => (req, o)) = [req] ∧
    ∀ e ∈ (retry limit true (limit + 1) 0 sc).2.2.map (fun o => (req, o)), e.1 = req := by
  obtain ⟨hok, _⟩ := retry_tolerable limit sc (limit + 1) 0 ht (by omega) (by omega)
  obtain ⟨_, j, a2, _, _⟩ := retry_top limit true sc
  rw [a2, hok]
  refine ⟨?_, ?_⟩
  · simp [answered, lastOut, List.filter_append]
  · intro e he
    obtain ⟨o, _, rfl⟩ := List.mem_map.mp he
    rfl

theorem fetchLoop_tolerable_log (limit : Nat) (segs : List Seg) (f : Nat) (hfin : IsFinal segs f) :
    ∀ (fuel i : Nat) (sc : List Outcome), i ≤ f → f + 1 ≤ fuel + i → Tolerable (attempts limit) 0 sc →
    answered (fetchLoop limit segs fuel i sc).log = (List.range' i (f + 1 - i)).map Req.seg ∧
    ∀ e ∈ (fetchLoop limit segs fuel i sc).log, ∃ k, i ≤ k ∧ k ≤ f ∧ e.1 = Req.seg k := by
  obtain ⟨⟨sf, hsf, hsff⟩, hbefore⟩ := hfin
  have hflt : f < segs.length := by
    rcases Nat.lt_or_ge f segs.length with h | h
    · exact h
    · simp [List.getElem?_eq_none h] at hsf
  have hsf' : segs[f] = sf := by
    have := List.getElem?_eq_getElem hflt
    rw [this] at hsf; exact Option.some.inj hsf
  intro fuel
  induction fuel with
  | zero => intro i sc h1 h2; omega
  | succ n ih =>
    intro i sc h1 h2 h3
    have hilt : i < segs.length := by omega
    have hdec : decide (i < segs.length) = true := by simp [hilt]
    obtain ⟨hok, hrest⟩ := retry_tolerable limit sc (limit + 1) 0 h3 (by omega) (by omega)
    obtain ⟨hb1, hb2⟩ := block_tolerable limit sc (Req.seg i) h3
    have hs : segs[i]? = some segs[i] := List.getElem?_eq_getElem hilt
    rw [fetchLoop_succ, hdec, hok, hs]
    simp only
    by_cases hif : i = f
    · subst hif
      have : segs[i].fbi = some i := by rw [hsf']; exact hsff
      simp only [this, if_true]
      refine ⟨?_, ?_⟩
      · rw [hb1]
        have : i + 1 - i = 1 := by omega
        rw [this]; simp [List.range']
      · intro e he; exact ⟨i, Nat.le_refl _, Nat.le_refl _, hb2 e he⟩
    · have hne : segs[i].fbi ≠ some i := hbefore i _ (by omega) hs
      simp only [hne, if_false]
      obtain ⟨y1, y2⟩ := ih (i + 1) _ (by omega) (by omega) hrest
      refine ⟨?_, ?_⟩
      · rw [answered_append, hb1, y1]
        have : f + 1 - i = (f + 1 - (i + 1)) + 1 := by omega
        rw [this, List.range'_succ]; simp
      · intro e he
        rcases List.mem_append.mp he with h | h
        · exact ⟨i, Nat.le_refl _, h1, hb2 e h⟩
        · obtain ⟨k, k1, k2, k3⟩ := y2 e h
          exact ⟨k, by omega, k2, k3⟩

/-- the requests of a successful fetch: discovery, then segments `i0 … f` where `i0 = 1` when discovery was
    answered by segment 0 and `0` otherwise; nothing beyond `f` is ever requested -/
theorem fetch_tolerable_log (segs : List Seg) (disc limit f : Nat) (sc : List Outcome)
    (hfin : IsFinal segs f) (hd : disc < segs.length) (ht : Tolerable (attempts limit) 0 sc) :
    answered (fetch ⟨.segs segs, disc, sc, limit⟩).log =
      Req.disc :: (List.range' (if disc = 0 then 1 else 0) (f + 1 - (if disc = 0 then 1 else 0))).map Req.seg ∧
    ∀ e ∈ (fetch ⟨.segs segs, disc, sc, limit⟩).log, e.1 = Req.disc ∨ ∃ k, k ≤ f ∧ e.1 = Req.seg k := by
  have hfin' := hfin
  obtain ⟨⟨sf, hsf, hsff⟩, hbefore⟩ := hfin
  have hflt : f < segs.length := by
    rcases Nat.lt_or_ge f segs.length with h | h
    · exact h
    · simp [List.getElem?_eq_none h] at hsf
  obtain ⟨hok, hrest⟩ := retry_tolerable limit sc (limit + 1) 0 ht (by omega) (by omega)
  obtain ⟨hb1, hb2⟩ := block_tolerable limit sc Req.disc ht
  have hdec : decide (disc < segs.length) = true := by simp [hd]
  unfold fetch
  simp only [hdec, hok]
  by_cases hd0 : disc = 0
  · simp only [hd0, if_true]
    have h0 : 0 < segs.length := by omega
    have hs : segs[0]? = some segs[0] := List.getElem?_eq_getElem h0
    rw [hs]
    simp only
    by_cases hf0 : f = 0
    · subst hf0
      have hsf' : segs[0] = sf := by rw [hs] at hsf; exact Option.some.inj hsf
      have : segs[0].fbi = some 0 := by rw [hsf']; exact hsff
      simp only [this, if_true]
      exact ⟨by rw [hb1]; simp, fun e he => .inl (hb2 e he)⟩
    · have hne : segs[0].fbi ≠ some 0 := hbefore 0 _ (by omega) hs
      simp only [hne, if_false]
      obtain ⟨y1, y2⟩ := fetchLoop_tolerable_log limit segs f hfin' (segs.length + 1) 1 _ (by omega) (by omega) hrest
      refine ⟨by rw [answered_append, hb1, y1]; rfl, ?_⟩
      intro e he
      rcases List.mem_append.mp he with h | h
      · exact .inl (hb2 e h)
      · obtain ⟨k, _, k2, k3⟩ := y2 e h; exact .inr ⟨k, k2, k3⟩
  · simp only [hd0, if_false]
    obtain ⟨y1, y2⟩ := fetchLoop_tolerable_log limit segs f hfin' (segs.length + 1) 0 _ (by omega) (by omega) hrest
    refine ⟨by rw [answered_append, hb1, y1]; rfl, ?_⟩
    intro e he
    rcases List.mem_append.mp he with h | h
    · exact .inl (hb2 e h)
    · obtain ⟨k, _, k2, k3⟩ := y2 e h; exact .inr ⟨k, k2, k3⟩

/-- **fetch_yields_all_once_in_order_names.** `fetch_yields_all_once_in_order` at the level of names: for a segmented
    object published under `base` whose segment `f` is designated final (its FinalBlockId is byte-equal to the last
    component of its own name), whichever existing segment answers discovery and under tolerable loss, the fetcher
    yields the contents of segments `0 … f` once each in order and finishes; every Interest it sends is named either
    the prefix or `base ++ [Component.from_segment(k)]` with `k ≤ f`; and the Interests that are answered are, in
    order, the prefix and then `base ++ [from_segment(k)]` for `k = 0, 1, …, f` (from 1 when discovery already
    delivered segment 0). -/
theorem fetch_yields_all_once_in_order_names (pre base : List Bytes) (segs : List Seg) (disc limit f : Nat)
    (sc : List Outcome) (hfin : IsFinal segs f) (hd : disc < segs.length) (ht : Tolerable (attempts limit) 0 sc)
    (hpre : pre.length ≤ base.length) (hfb : FbiBound segs) (hlen : segs.length + 2 < 2 ^ 64) :
    let r := fetchB limit (producer pre (.segs base segs) disc) pre (segs.length + 1) sc
    r.yielded = contents (segs.take (f + 1)) ∧ r.end_ = .fin .done ∧
    (∀ e ∈ r.log, e.1 = pre ∨ ∃ k, k ≤ f ∧ e.1 = base ++ [segComp k]) ∧
    answered r.log = pre :: (List.range' (if disc = 0 then 1 else 0) (f + 1 - (if disc = 0 then 1 else 0))).map
      (fun k => base ++ [segComp k]) := by
  intro r
  have hr : r = liftResult pre base (fetch ⟨.segs segs, disc, sc, limit⟩) :=
    fetchB_refines limit pre base segs disc sc hpre hfb hlen
  obtain ⟨hy, he⟩ := fetch_yields_all_once_in_order segs disc limit f sc hfin hd ht
  obtain ⟨ha, hreq⟩ := fetch_tolerable_log segs disc limit f sc hfin hd ht
  rw [hr]
  refine ⟨hy, by simp [liftResult, he], ?_, ?_⟩
  · intro e hm
    simp only [liftResult, List.mem_map] at hm
    obtain ⟨x, hx, rfl⟩ := hm
    rcases hreq x hx with h | ⟨k, hk, h⟩
    · left; simp [h, reqName]
    · right; exact ⟨k, hk, by simp [h, reqName]⟩
  · simp only [liftResult]
    rw [answered_map (reqName pre base), ha]
    simp [reqName, List.map_map, Function.comp_def]

/-! ### non-vacuity -/

section Examples
def exSegs : List Seg := [⟨10, some 2⟩, ⟨11, some 2⟩, ⟨12, some 2⟩, ⟨13, none⟩]

example : IsFinal exSegs 2 := by
  refine ⟨⟨⟨12, some 2⟩, rfl, rfl⟩, ?_⟩
  intro j s hj hs
  have : j = 0 ∨ j = 1 := by omega
  rcases this with rfl | rfl <;> simp [exSegs] at hs <;> subst hs <;> decide

example : Tolerable (attempts 3) 0 [.timeout, .timeout, .data, .timeout, .data] := by
  simp [Tolerable, attempts]

/-- fetch_yields_all_once_in_order: discovery answered by segment 1, two losses in a row with limit 3 -/
example : fetch ⟨.segs exSegs, 1, [.timeout, .timeout, .data, .timeout, .data], 3⟩ =
    ⟨[10, 11, 12], [(.disc, .timeout), (.disc, .timeout), (.disc, .data), (.seg 0, .timeout), (.seg 0, .data),
      (.seg 1, .data), (.seg 2, .data)], .done⟩ := by decide

/-- fetch_timeout_iff: three losses in a row with limit 3 on segment 1 -/
example : fetch ⟨.segs exSegs, 0, [.data, .timeout, .timeout, .timeout, .data], 3⟩ =
    ⟨[10], [(.disc, .data), (.seg 1, .timeout), (.seg 1, .timeout), (.seg 1, .timeout)], .timeout⟩ := by decide

/-- fetch_propagates -/
example : fetch ⟨.segs exSegs, 0, [.data, .timeout, .nack, .data], 3⟩ =
    ⟨[10], [(.disc, .data), (.seg 1, .timeout), (.seg 1, .nack)], .nack⟩ := by decide
example : fetch ⟨.segs exSegs, 3, [.data, .data, .invalid], 3⟩ =
    ⟨[10], [(.disc, .data), (.seg 0, .data), (.seg 1, .invalid)], .invalid⟩ := by decide

/-- fetch_unsegmented / fetch_no_final_marker -/
example : fetch ⟨.unseg 7, 0, [.timeout], 2⟩ = ⟨[7], [(.disc, .timeout), (.disc, .data)], .done⟩ := by decide
example : NoFinal [⟨1, none⟩, ⟨2, some 5⟩] := by
  intro j s hs
  rcases j with _ | _ | j <;> simp at hs <;> subst hs <;> decide

/-- names level: object `/a/v=1` (`08 01 61`, `36 01 01`), fetched by the prefix `/a`; discovery answered by segment 1,
    one loss on discovery and one on segment 0 — every Interest name byte for byte -/
example : fetchB 3 (producer [[8, 1, 97]] (.segs [[8, 1, 97], [54, 1, 1]] exSegs) 1) [[8, 1, 97]] 5
      [.timeout, .data, .timeout, .data] =
    ⟨[10, 11, 12],
     [([[8, 1, 97]], .timeout), ([[8, 1, 97]], .data),
      ([[8, 1, 97], [54, 1, 1], [50, 1, 0]], .timeout), ([[8, 1, 97], [54, 1, 1], [50, 1, 0]], .data),
      ([[8, 1, 97], [54, 1, 1], [50, 1, 1]], .data), ([[8, 1, 97], [54, 1, 1], [50, 1, 2]], .data)],
     .fin .done⟩ := by decide
example : segComp 300 = [50, 2, 1, 44] := by decide
example : FbiBound exSegs := by
  intro j s k hs hk
  have : k = 2 := by
    rcases j with _ | _ | _ | _ | j <;> simp [exSegs] at hs <;> subst hs <;> simp at hk <;> omega
  omega
end Examples

end Ndn.C19

/-!
# C19, timed: the generator over the pending-Interest table, answers that take time

Theorems about `Ndn.SegFetchT.fetchT` (`NdnModel/SegFetchTimed.lean`): the same generator, but every Interest is
expressed in the C03 model of the legacy pending-Interest table (`Ndn.Pit`, `FrontEnd.v1`) with the lifetime the fetcher
passes, and the producer's answer to the `n`-th Interest (Data / nothing / Nack / Data the validator rejects) reaches the
consumer after a scripted delay - **any** delay: below, at or beyond the lifetime.  An answer that comes too late for its
own Interest is handed to the table all the same; it satisfies whatever Interest is pending under a name it matches
(the retry of the same request: same name), or nothing.

Specification vocabulary (`NdnProofs/Lemmas/SegFetchTimed.lean`; the first two use the C03 vocabulary `Pit.Matches` /
`Pit.Named`):
* `react r p` - the outcome packet `p` resolves a waiting request `r` with, if it concerns it;
* `scan r dl flight` - what an Interest with request `r` and deadline `dl` comes to: the first packet in flight that arrives
  before `dl` and concerns `r` decides, earlier packets that do not concern it are dropped, a packet arriving at `dl` or
  later stays in flight and the Interest times out;
* `WInv` - between two Interests the table is a reachable state of the C03 model with nothing pending;
* `Prompt life script` - every scripted answer arrives within the lifetime of its own Interest;
* the log `(request, outcome of its awaitable)` of every Interest, `Benign` = timed out or returned valid Data.
-/
namespace Ndn.C19
open Ndn Ndn.SegFetch Ndn.SegFetchT

/-- **timed_interest_outcome.**  One `await app.express_interest(...)` of the fetcher over the pending-Interest table,
    started with nothing pending: the awaitable comes to exactly what `scan` says of the packets in flight (the scripted
    answer to this Interest included) - the first packet that arrives before the deadline `now + lifetime` and concerns
    the request, *whichever Interest it was sent in answer to*; an answer arriving at the deadline or later is not seen
    and stays in flight (for the retry, if there is one); lifetime 0 times out at once.  Afterwards nothing is pending
    again, the table is still a reachable state of the C03 model, and no callback raised. -/
theorem timed_interest_outcome (C : Cfg) (w : World) (q : Req) (hw : WInv C w) :
    WInv C (ask C w q).2 ∧ (ask C w q).2.σ.errs = w.σ.errs ∧
    (ask C w q).1 = (if C.life = 0 then .timeout
      else (scan (reqOf C w.σ.clock q) (w.σ.clock + C.life) (flightWith C w q)).1) ∧
    (ask C w q).2.fl = (if C.life = 0 then flightWith C w q
      else (scan (reqOf C w.σ.clock q) (w.σ.clock + C.life) (flightWith C w q)).2) := by
  obtain ⟨h1, _, h3, h4, h5⟩ := ask_spec C w q hw
  exact ⟨h1, h3, h4, h5⟩

/-- **timed_data_is_genuine.**  Whatever Data an Interest of the fetcher is satisfied with - the answer to that very
    Interest or a late answer to an earlier one - it is a Data of the object under a name the Interest matches: for the
    Interest for segment `i` the Data of segment `i`, for the discovery Interest a Data of some existing segment (of the
    unsegmented object).  Nothing but Data, Nack or timeout ever comes out of an awaitable. -/
theorem timed_data_is_genuine (C : Cfg) (w : World) (q : Req) (hw : WInv C w) : Genuine C.obj q (ask C w q).1 :=
  (ask_ok C w q hw).2

/-- **timed_terminates.** The fuel given by `fetchT` always suffices, whatever the delays. -/
theorem timed_terminates (S : SegFetchT.Scenario) : (fetchT S).1.end_ ≠ .fuel := by
  obtain ⟨⟨pre, req, j, last, _, _, g4, _, _⟩, _⟩ :=
    SegFetchT.fetch_good (ask S.cfg) (ask_ok S.cfg) S.limit _ (winv_init S.cfg S.script)
  intro h
  have h' : (fetchG (ask S.cfg) S.cfg.obj S.limit ({ script := S.script } : World)).1.end_ = .fuel := h
  rw [h'] at g4
  exact g4

/-- **timed_yields_in_order.**  For every delay pattern, whatever is lost, late, nacked or invalid: what the fetch has
    yielded when it ends is an initial run of the segments in order, each once, never going beyond the segment
    designated final - and it is the whole run `0 … f` exactly when the fetch finishes normally.  Without a final segment
    the fetch never finishes normally.  (Whichever segment answers the discovery Interest.) -/
theorem timed_yields_in_order (cfg : Cfg) (segs : List Seg) (limit : Nat) (sc : List (Outcome × Nat))
    (hobj : cfg.obj = .segs segs) :
    (∀ f, IsFinal segs f → ∃ n, n ≤ f + 1 ∧ (fetchT ⟨cfg, limit, sc⟩).1.yielded = contents (segs.take n) ∧
      ((fetchT ⟨cfg, limit, sc⟩).1.end_ = .done ↔ n = f + 1)) ∧
    (NoFinal segs → (fetchT ⟨cfg, limit, sc⟩).1.end_ ≠ .done ∧
      ∃ n, (fetchT ⟨cfg, limit, sc⟩).1.yielded = contents (segs.take n)) := by
  have hA : AskOk (ask cfg) (.segs segs) (WInv cfg) := hobj ▸ ask_ok cfg
  have hT : fetchT ⟨cfg, limit, sc⟩ = fetchG (ask cfg) (.segs segs) limit ({ script := sc } : World) := by
    simp only [fetchT, hobj]
  obtain ⟨n, y, hb, h3, h4⟩ := fetch_yield_segs (ask cfg) hA limit _ (winv_init cfg sc)
  rw [hT]
  refine ⟨?_, ?_⟩
  · intro f ⟨⟨sf, hsf, hsff⟩, hbefore⟩
    have hself : SelfFinal segs f := ⟨sf, hsf, hsff⟩
    have hnot : ∀ k, k < f → ¬ SelfFinal segs k := fun k hk ⟨s, e1, e2⟩ => hbefore k s hk e1 e2
    have hle : n ≤ f + 1 := by
      rcases Nat.lt_or_ge f n with hlt | hge
      · have := (h3 f hlt hself).1; omega
      · omega
    refine ⟨n, hle, y, ?_, ?_⟩
    · intro hd
      obtain ⟨e1, e2⟩ := h4 hd
      rcases Nat.lt_or_ge (n - 1) f with hlt | hge
      · exact absurd e2 (hnot _ hlt)
      · omega
    · intro hn
      exact (h3 f (by omega) hself).2
  · intro hno
    refine ⟨?_, n, y⟩
    intro hd
    obtain ⟨_, s, e1, e2⟩ := h4 hd
    exact hno _ s e1 e2

/-- **timed_unsegmented.** An unsegmented object yields its single content exactly when the fetch finishes normally,
    and nothing otherwise. -/
theorem timed_unsegmented (cfg : Cfg) (c limit : Nat) (sc : List (Outcome × Nat)) (hobj : cfg.obj = .unseg c) :
    ((fetchT ⟨cfg, limit, sc⟩).1.end_ = .done → (fetchT ⟨cfg, limit, sc⟩).1.yielded = [c]) ∧
    ((fetchT ⟨cfg, limit, sc⟩).1.end_ ≠ .done → (fetchT ⟨cfg, limit, sc⟩).1.yielded = []) := by
  have hA : AskOk (ask cfg) (.unseg c) (WInv cfg) := hobj ▸ ask_ok cfg
  have hT : fetchT ⟨cfg, limit, sc⟩ = fetchG (ask cfg) (.unseg c) limit ({ script := sc } : World) := by
    simp only [fetchT, hobj]
  rw [hT]
  exact fetch_yield_unseg (ask cfg) hA limit _ (winv_init cfg sc)

/-- **timed_timeout_iff.**  The fetch fails with a timeout exactly when some request exhausted its attempts as the code
    counts them: the log ends with `attempts limit` Interests for one and the same request whose awaitables all timed out
    (an Interest whose own answer came too late but which was satisfied by a late answer to an earlier attempt did *not*
    time out; one whose answer arrives at the deadline or later did). -/
theorem timed_timeout_iff (S : SegFetchT.Scenario) :
    (fetchT S).1.end_ = .timeout ↔
      ∃ pre req, (fetchT S).1.log = pre ++ List.replicate (attempts S.limit) (req, Pit.Outcome.timeout) := by
  obtain ⟨⟨pre, req, j, last, g2, _, g4, g5, g6⟩, _⟩ :=
    SegFetchT.fetch_good (ask S.cfg) (ask_ok S.cfg) S.limit _ (winv_init S.cfg S.script)
  have hlast : (fetchT S).1.log.getLast? = some (req, last) := by
    show (fetchG (ask S.cfg) S.cfg.obj S.limit ({ script := S.script } : World)).1.log.getLast? = _
    rw [g2]; simp
  constructor
  · intro h
    have h' : (fetchG (ask S.cfg) S.cfg.obj S.limit ({ script := S.script } : World)).1.end_ = .timeout := h
    rw [h'] at g4
    refine ⟨pre, req, ?_⟩
    show (fetchG (ask S.cfg) S.cfg.obj S.limit ({ script := S.script } : World)).1.log = _
    have hl : last = Pit.Outcome.timeout := g4
    rw [g2, ← g5 h', hl]
    simp [List.replicate_succ']
  · rintro ⟨pre', req', h⟩
    obtain ⟨n, hn⟩ : ∃ n, attempts S.limit = n + 1 := ⟨attempts S.limit - 1, by have := attempts_pos S.limit; omega⟩
    have h1 : (fetchT S).1.log.getLast? = some (req', Pit.Outcome.timeout) := by
      rw [h, hn, List.replicate_succ']; simp
    rw [hlast] at h1
    have hl : last = Pit.Outcome.timeout := (Prod.mk.inj (Option.some.inj h1)).2
    rw [hl] at g4
    show (fetchG (ask S.cfg) S.cfg.obj S.limit ({ script := S.script } : World)).1.end_ = .timeout
    cases he : (fetchG (ask S.cfg) S.cfg.obj S.limit ({ script := S.script } : World)).1.end_ <;>
      rw [he] at g4 <;> simp [endOK] at g4 <;> rfl

/-- **timed_propagates.**  A Nack, or Data that fails validation, that reaches a pending Interest of the fetcher - in
    answer to it or as a late answer to an earlier attempt - is never skipped: that Interest is the last one the fetch
    sends and the fetch ends with that very failure; conversely the fetch ends that way only then. -/
theorem timed_propagates (S : SegFetchT.Scenario) :
    (∀ req rs, (req, Pit.Outcome.nack rs) ∈ (fetchT S).1.log →
        (fetchT S).1.end_ = .nack ∧ (fetchT S).1.log.getLast? = some (req, Pit.Outcome.nack rs)) ∧
    (∀ req d, idValid d = false → (req, Pit.Outcome.data d) ∈ (fetchT S).1.log →
        (fetchT S).1.end_ = .invalid ∧ (fetchT S).1.log.getLast? = some (req, Pit.Outcome.data d)) ∧
    ((fetchT S).1.end_ = .nack → ∃ req rs, (fetchT S).1.log.getLast? = some (req, Pit.Outcome.nack rs)) ∧
    ((fetchT S).1.end_ = .invalid → ∃ req d, idValid d = false ∧
        (fetchT S).1.log.getLast? = some (req, Pit.Outcome.data d)) := by
  obtain ⟨⟨pre, req, j, last, g2, g3, g4, _, _⟩, _⟩ :=
    SegFetchT.fetch_good (ask S.cfg) (ask_ok S.cfg) S.limit _ (winv_init S.cfg S.script)
  have hT : (fetchT S).1 = (fetchG (ask S.cfg) S.cfg.obj S.limit ({ script := S.script } : World)).1 := rfl
  rw [hT]
  have hlast : (fetchG (ask S.cfg) S.cfg.obj S.limit ({ script := S.script } : World)).1.log.getLast? = some (req, last) := by
    rw [g2]; simp
  have key : ∀ req' o, ¬ Benign o →
      (req', o) ∈ (fetchG (ask S.cfg) S.cfg.obj S.limit ({ script := S.script } : World)).1.log → req' = req ∧ o = last := by
    intro req' o ho hm
    rw [g2] at hm
    rcases List.mem_append.mp hm with h | h
    · exact absurd (g3 _ h) ho
    · rcases List.mem_append.mp h with h | h
      · have := (List.mem_replicate.mp h).2
        exact absurd (.inl (Prod.mk.inj this).2) ho
      · have := List.mem_singleton.mp h
        exact ⟨(Prod.mk.inj this).1, (Prod.mk.inj this).2⟩
  refine ⟨?_, ?_, ?_, ?_⟩
  · intro req' rs hm
    obtain ⟨e1, e2⟩ := key req' _ (by simp [Benign]) hm
    refine ⟨?_, by rw [hlast, e1, e2]⟩
    rw [← e2] at g4
    cases he : (fetchG (ask S.cfg) S.cfg.obj S.limit ({ script := S.script } : World)).1.end_ <;>
      rw [he] at g4 <;> simp [endOK] at g4 <;> rfl
  · intro req' d hv hm
    obtain ⟨e1, e2⟩ := key req' _ (by simp [Benign, hv]) hm
    refine ⟨?_, by rw [hlast, e1, e2]⟩
    rw [← e2] at g4
    cases he : (fetchG (ask S.cfg) S.cfg.obj S.limit ({ script := S.script } : World)).1.end_ <;>
      rw [he] at g4 <;> simp [endOK, hv] at g4 <;> rfl
  · intro h
    rw [h] at g4
    obtain ⟨rs, hrs⟩ := g4
    exact ⟨req, rs, by rw [hlast, hrs]⟩
  · intro h
    rw [h] at g4
    obtain ⟨d, hd, hv⟩ := g4
    exact ⟨req, d, hv, by rw [hlast, hd]⟩

/-- **timed_requests_bounded.** No request is sent more often than the configured number of attempts, whatever the
    delays. -/
theorem timed_requests_bounded (S : SegFetchT.Scenario) (req : Req) :
    ((fetchT S).1.log.filter (fun e => decide (e.1 = req))).length ≤ attempts S.limit :=
  fetch_count (ask S.cfg) (ask_ok S.cfg) S.limit _ (winv_init S.cfg S.script) req

/-- **timed_yields_all_once_in_order.**  For every delay pattern: when every awaitable of the fetch timed out or returned
    valid Data (no Nack, no invalid Data reached a pending Interest) and no request had `attempts limit` awaitables time
    out in a row, the fetch yields the contents of segments `0, 1, …, f` (the segment designated final), each exactly once
    and in order, and finishes normally - whichever segment answered the discovery Interest, and whichever attempt's answer
    it was that satisfied each Interest. -/
theorem timed_yields_all_once_in_order (cfg : Cfg) (segs : List Seg) (limit f : Nat) (sc : List (Outcome × Nat))
    (hobj : cfg.obj = .segs segs) (hfin : IsFinal segs f)
    (hben : ∀ e ∈ (fetchT ⟨cfg, limit, sc⟩).1.log, Benign e.2)
    (hnot : ¬ ∃ pre req, (fetchT ⟨cfg, limit, sc⟩).1.log = pre ++ List.replicate (attempts limit) (req, Pit.Outcome.timeout)) :
    (fetchT ⟨cfg, limit, sc⟩).1.yielded = contents (segs.take (f + 1)) ∧ (fetchT ⟨cfg, limit, sc⟩).1.end_ = .done := by
  have hdone : (fetchT ⟨cfg, limit, sc⟩).1.end_ = .done := by
    obtain ⟨p1, p2, p3, p4⟩ := timed_propagates ⟨cfg, limit, sc⟩
    cases he : (fetchT ⟨cfg, limit, sc⟩).1.end_ with
    | done => rfl
    | fuel => exact absurd he (timed_terminates _)
    | timeout => exact absurd ((timed_timeout_iff ⟨cfg, limit, sc⟩).mp he) hnot
    | nack =>
      obtain ⟨req, rs, hl⟩ := p3 he
      have := hben _ (List.mem_of_getLast? hl)
      simp [Benign] at this
    | invalid =>
      obtain ⟨req, d, hv, hl⟩ := p4 he
      have := hben _ (List.mem_of_getLast? hl)
      simp [Benign, hv] at this
  obtain ⟨n, _, y, hiff⟩ := (timed_yields_in_order cfg segs limit sc hobj).1 f hfin
  exact ⟨by rw [y, hiff.mp hdone], hdone⟩

/-- **timed_refines_untimed.**  When every scripted answer arrives within the lifetime of its own Interest (any delay
    below the lifetime; in particular delays 0, and answers that never come) the generator over the pending-Interest table
    yields the same contents, sends the same requests with the same outcomes and ends the same way as the untimed model
    `SegFetch.fetch` run on the script of outcomes: the theorems about `fetch` are theorems about `fetchT`. -/
theorem timed_refines_untimed (S : SegFetchT.Scenario) (hlife : 0 < S.cfg.life) (hp : Prompt S.cfg.life S.script) :
    (fetchT S).1.yielded = (fetch ⟨S.cfg.obj, S.cfg.disc, S.script.map Prod.fst, S.limit⟩).yielded ∧
    logOut (fetchT S).1.log = (fetch ⟨S.cfg.obj, S.cfg.disc, S.script.map Prod.fst, S.limit⟩).log ∧
    (fetchT S).1.end_ = (fetch ⟨S.cfg.obj, S.cfg.disc, S.script.map Prod.fst, S.limit⟩).end_ :=
  fetch_refines S hlife hp

/-- **timed_tolerable_yields_all.** The old main theorem as a corollary: prompt answers and tolerable loss. -/
theorem timed_tolerable_yields_all (cfg : Cfg) (segs : List Seg) (limit f : Nat) (sc : List (Outcome × Nat))
    (hobj : cfg.obj = .segs segs) (hlife : 0 < cfg.life) (hp : Prompt cfg.life sc) (hfin : IsFinal segs f)
    (hd : cfg.disc < segs.length) (ht : Tolerable (attempts limit) 0 (sc.map Prod.fst)) :
    (fetchT ⟨cfg, limit, sc⟩).1.yielded = contents (segs.take (f + 1)) ∧ (fetchT ⟨cfg, limit, sc⟩).1.end_ = .done := by
  obtain ⟨r1, _, r3⟩ := timed_refines_untimed ⟨cfg, limit, sc⟩ hlife hp
  obtain ⟨u1, u2⟩ := fetch_yields_all_once_in_order segs cfg.disc limit f (sc.map Prod.fst) hfin hd ht
  simp only [hobj] at r1 r3
  exact ⟨r1.trans u1, r3.trans u2⟩

/-- **timed_table_clean_at_end.**  When the fetch is over - however it ended - the pending-Interest table is a state
    of the C03 model reached by a history `evs` in which no callback raised, no Interest is pending, the trie is empty
    (C03 `pit_empty_at_quiescence`), and whatever arrives afterwards - the answers still in flight - changes the record
    of no Interest (C03 `complete_at_most_once`): late answers are dropped. -/
theorem timed_table_clean_at_end (S : SegFetchT.Scenario) :
    ∃ evs, (fetchT S).2.σ = Pit.run .v1 evs ∧ (fetchT S).2.σ.errs = [] ∧ (fetchT S).2.σ.trie = [] ∧
      ∀ (later : List Pit.Ev) (i : Nat) (s : Pit.IState), (fetchT S).2.σ.sts[i]? = some s →
        (Pit.run .v1 (evs ++ later)).sts[i]? = some s := by
  obtain ⟨_, hw⟩ := SegFetchT.fetch_good (ask S.cfg) (ask_ok S.cfg) S.limit _ (winv_init S.cfg S.script)
  obtain ⟨_, hdone, ⟨evs, hreach⟩, _⟩ := hw
  have hreach' : (fetchT S).2.σ = Pit.run .v1 evs := hreach
  have hdone' : AllDone (fetchT S).2.σ := hdone
  refine ⟨evs, hreach', ?_, ?_, ?_⟩
  · rw [hreach']; exact C03.no_internal_error .v1 evs
  · rw [hreach']
    refine (C03.pit_empty_at_quiescence .v1 evs ?_).1
    intro i hi
    rw [← hreach'] at hi
    obtain ⟨o, t, h⟩ := hdone' i _ hi
    cases h
  · intro later i s hs
    obtain ⟨o, t, rfl⟩ := hdone' i s hs
    rw [hreach'] at hs
    exact C03.complete_at_most_once .v1 evs later i o t hs

/-! ### the hypotheses are satisfiable, and what late answers do (concrete timed scenarios, lifetime 1000) -/
section TimedExamples

/-- three segments (contents 10, 11, 12; the last one final), discovery answered by segment 1, `retry_times` 3 -/
def exCfg : Cfg := ⟨.segs [⟨10, none⟩, ⟨11, none⟩, ⟨12, some 2⟩], 1, 1000, 150⟩

/-- * the answer to the first discovery Interest travels 1200 ms: that Interest times out at 1000, the retry (never
      answered itself) is satisfied at 1200 by the late Data - same name;
    * segment 1: the answer arrives exactly at the deadline (1200 + 1000): too late, the Interest times out, and the retry
      sent in that instant is satisfied by it at once (its own answer, due at 3199, is dropped later). -/
def exLate : SegFetchT.Scenario :=
  ⟨exCfg, 3, [(.data, 1200), (.timeout, 0), (.data, 0), (.data, 1000), (.data, 999)]⟩

example : (fetchT exLate).1 =
    ⟨[10, 11, 12], [(.disc, .timeout), (.disc, .data 4), (.seg 0, .data 2), (.seg 1, .timeout), (.seg 1, .data 4),
      (.seg 2, .data 6)], .done⟩ := by decide
example : (fetchT exLate).2.sent = [(.disc, 0), (.disc, 1000), (.seg 0, 1200), (.seg 1, 1200), (.seg 1, 2200), (.seg 2, 2200)] := by
  decide

/-- timed_yields_all_once_in_order: its hypotheses hold for `exLate` although two answers came too late -/
example : (∀ e ∈ (fetchT exLate).1.log, Benign e.2) ∧
    ¬ ∃ pre req, (fetchT exLate).1.log = pre ++ List.replicate (attempts 3) (req, Pit.Outcome.timeout) := by
  refine ⟨?_, fun h => ?_⟩
  · have h : (fetchT exLate).1.log = [(.disc, .timeout), (.disc, .data 4), (.seg 0, .data 2), (.seg 1, .timeout),
        (.seg 1, .data 4), (.seg 2, .data 6)] := by decide
    rw [h]
    intro e he
    simp only [List.mem_cons, List.not_mem_nil, or_false] at he
    rcases he with rfl | rfl | rfl | rfl | rfl | rfl <;> simp [Benign, idValid]
  · have := (timed_timeout_iff exLate).mpr h
    rw [show (fetchT exLate).1.end_ = .done by decide] at this
    cases this
example : IsFinal [⟨10, none⟩, ⟨11, none⟩, (⟨12, some 2⟩ : Seg)] 2 := by
  refine ⟨⟨_, rfl, rfl⟩, ?_⟩
  intro j s hj hs
  rcases j with _ | _ | j
  · simp at hs; subst hs; decide
  · simp at hs; subst hs; decide
  · omega

/-- timed_timeout_iff: both attempts for segment 0 are answered, each answer arriving exactly when the *next* deadline
    falls (2000 ms): every awaitable times out and the fetch fails, the answers are dropped afterwards -/
example : (fetchT ⟨exCfg, 2, [(.data, 0), (.data, 2000), (.data, 2000)]⟩).1 =
    ⟨[], [(.disc, .data 4), (.seg 0, .timeout), (.seg 0, .timeout)], .timeout⟩ := by decide

/-- timed_propagates: a Nack that comes too late for the attempt it answers ends the fetch through the retry;
    an invalid Data likewise -/
example : (fetchT ⟨exCfg, 3, [(.data, 0), (.nack, 1500), (.timeout, 0)]⟩).1 =
    ⟨[], [(.disc, .data 4), (.seg 0, .timeout), (.seg 0, .nack 150)], .nack⟩ := by decide
example : (fetchT ⟨exCfg, 3, [(.data, 0), (.invalid, 1001), (.timeout, 0)]⟩).1 =
    ⟨[], [(.disc, .data 4), (.seg 0, .timeout), (.seg 0, .data 3)], .invalid⟩ := by decide

/-- the late discovery Data (segment 1, 2500 ms) satisfies the Interest for segment 1 while that is pending -/
example : (fetchT ⟨exCfg, 3, [(.data, 2500), (.timeout, 0), (.data, 0), (.data, 0), (.timeout, 0), (.data, 0)]⟩).1 =
    ⟨[10, 11, 12], [(.disc, .timeout), (.disc, .timeout), (.disc, .data 4), (.seg 0, .data 2), (.seg 1, .data 4),
      (.seg 2, .data 6)], .done⟩ := by decide

/-- lifetime 0: `wait_for(future, 0)` gives up at once, whatever is answered -/
example : (fetchT ⟨⟨.unseg 7, 0, 0, 150⟩, 2, []⟩).1 = ⟨[], [(.disc, .timeout), (.disc, .timeout)], .timeout⟩ := by decide

/-- timed_interest_outcome / timed_data_is_genuine: the world the fetch starts in satisfies `WInv` -/
example : WInv exCfg { script := exLate.script } := winv_init _ _

/-- timed_refines_untimed: a prompt script (delays below the lifetime, or no answer at all) -/
example : Prompt 1000 [(.data, 999), (.timeout, 5000), (.nack, 0)] := by
  intro e he
  simp only [List.mem_cons, List.not_mem_nil, or_false] at he
  rcases he with rfl | rfl | rfl <;> simp
example : (fetchT ⟨exCfg, 3, [(.data, 999), (.timeout, 5000), (.data, 500)]⟩).1.yielded = [10, 11, 12] ∧
    logOut (fetchT ⟨exCfg, 3, [(.data, 999), (.timeout, 5000), (.data, 500)]⟩).1.log =
      (fetch ⟨exCfg.obj, 1, [.data, .timeout, .data], 3⟩).log := by decide

end TimedExamples

end Ndn.C19
