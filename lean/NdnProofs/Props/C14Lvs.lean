import NdnProofs.Lemmas.CascadeLvs
import NdnProofs.Props.C12
import NdnProofs.Props.C14
/-!
# C14 ∘ C12 — the schema validator over a Light VerSec schema

The theorems of `Props/C14.lean` instantiated with real names (`LName` = list of TLV-encoded components)
and with the schema's signing check `allowed := Checker.check` of a Light VerSec model
(`Ndn.Cascade.Inst.env`, `lvsAllowed` = `Ndn.Lvs.check … = .ok true`), for **every** model the loader
accepts (`Ndn.Lvs.sanityCheck m = .ok ()`), and the construction-time check of `lvs_validator`
computed from the model (`constructLvs`: `validate_user_fns`, `root_of_trust`, `match` on the anchor).

Specification vocabulary (`NdnProofs/Lemmas/CascadeLvs.lean`, `NdnModel/Lvs/Sem.lean`; no mention of the
implementation):
* `SchemaLink m fns pkt key` — the right-hand side of `Ndn.C12.check_iff`: after dropping trailing
  implicit digests, `pkt` matches a node (bindings σ) one of whose sign constraints is a node `key`
  matches starting from σ (`Lvs.Signs`, `Lvs.Path`: bound tags repeat their value, every constraint holds);
* `LvsChain I Signed l o` — the chain  o — certificate — … — anchor  through the keys named `l`, every link
  a `SchemaLink` of `I`'s schema, every signature verifying, every certificate retrievable;
* `KeyMatched m fns key` — the key name matches some node of the schema under some bindings;
* `RootRule m r` — `r` is a rule name of a node that a reachable node lists as signer and that has no
  signer itself;  `AnchorRule m fns name r` — `r` is a rule name of a node `name` matches.

Hypotheses: the loader accepted the model; for the completeness directions also `VDet` (value edges
deterministic, true of compiler output: `Ndn.C11.compiled_vdet`) and `EnvTotal` (user functions defined
and not raising), as in C12; ideal signatures as in C14.
-/
namespace Ndn.C14
open Ndn Ndn.Cascade

variable (Signed : Key → Obj LName → Prop)

/-- **allowed_iff_schema_link.** The validator's signing check on one link is the C12 characterisation. -/
theorem allowed_iff_schema_link (I : Inst) (hs : Lvs.sanityCheck I.model = .ok ()) (hv : Lvs.VDet I.model)
    (henv : Lvs.EnvTotal I.fns) (pkt key : LName) :
    I.env.allowed pkt key = .ok true ↔ SchemaLink I.model (Lvs.pureOf I.fns) pkt key := by
  show lvsAllowed I.model I.fns pkt key = .ok true ↔ _
  rw [lvsAllowed_eq_true]
  exact Ndn.C12.check_iff I.model (sane_of_sanityCheck hs) hv I.fns henv pkt key

/-- one direction needs neither `VDet` nor anything about the user functions (raising or missing
    functions are read as false in `pureOf`) -/
theorem allowed_schema_link (I : Inst) (hs : Lvs.sanityCheck I.model = .ok ()) (pkt key : LName)
    (h : I.env.allowed pkt key = .ok true) : SchemaLink I.model (Lvs.pureOf I.fns) pkt key :=
  Ndn.C12.check_true_sound I.model (sane_of_sanityCheck hs) I.fns pkt key
    ((lvsAllowed_eq_true _ _ _ _).mp h)

/-- **validate_sound_lvs.** For every loader-accepted schema, whatever the user functions, the fuel, the
    (invariant-satisfying) storage and the packet: if the validator accepts, there is a chain to the
    anchor in which every link is a signing relation of the schema in the sense of C12. -/
theorem validate_sound_lvs (I : Inst) (hs : Lvs.sanityCheck I.model = .ok ())
    (hu : Unforgeable I.env Signed) (fuel : Nat) (st : Cache LName) (o : Obj LName)
    (hinv : CacheInv I.env Signed st) (h : (validate I.env fuel st o).verdict = some .accept) :
    ∃ l, LvsChain I Signed l o := by
  obtain ⟨d, hd⟩ := validate_sound I.env Signed hu fuel st o hinv h
  obtain ⟨l, _, hl⟩ := chainL_of_chainD (allowed_schema_link I hs) d o hd
  exact ⟨l, hl⟩

/-- **validate_complete_lvs.** A packet with such a chain through `l` keys is accepted by any run with at
    least `l.length` units of fuel, from any storage satisfying the invariant. -/
theorem validate_complete_lvs (I : Inst) (hs : Lvs.sanityCheck I.model = .ok ()) (hv : Lvs.VDet I.model)
    (henv : Lvs.EnvTotal I.fns) (hc : Correct I.env Signed) (l : List LName) (o : Obj LName)
    (h : LvsChain I Signed l o) (fuel : Nat) (st : Cache LName) (hinv : CacheInv I.env Signed st)
    (hf : l.length ≤ fuel) : (validate I.env fuel st o).verdict = some .accept := by
  have hd := chainD_of_chainL (fun a b => (allowed_iff_schema_link I hs hv henv a b).mpr) l o h
  have hpos := List.length_pos_iff.mpr h.ne_nil
  exact validate_complete I.env Signed hc _ o hd fuel st hinv (by omega)

/-- **verdict_iff_chain_lvs.** Whenever a verdict is reached it is `accept` exactly when a chain of
    schema links exists. -/
theorem verdict_iff_chain_lvs (I : Inst) (hs : Lvs.sanityCheck I.model = .ok ()) (hv : Lvs.VDet I.model)
    (henv : Lvs.EnvTotal I.fns) (hu : Unforgeable I.env Signed) (hc : Correct I.env Signed)
    (fuel : Nat) (st : Cache LName) (o : Obj LName) (hinv : CacheInv I.env Signed st) (v : Verdict)
    (h : (validate I.env fuel st o).verdict = some v) :
    v = .accept ↔ ∃ l, LvsChain I Signed l o := by
  rw [verdict_iff_chain I.env Signed hu hc fuel st o hinv v h]
  constructor
  · rintro ⟨d, hd⟩
    obtain ⟨l, _, hl⟩ := chainL_of_chainD (allowed_schema_link I hs) d o hd
    exact ⟨l, hl⟩
  · rintro ⟨l, hl⟩
    exact ⟨_, chainD_of_chainL (fun a b => (allowed_iff_schema_link I hs hv henv a b).mpr) l o hl⟩

/-- **verdict_iff_chain_compiled.** The same for a validator whose model is what the Light VerSec compiler model
    emits for a schema (`compile S = .ok (I.model, syms)`) and the loader accepts: value-edge determinism
    (`VDet`) is a theorem about the compiler (`C11.compiled_vdet`), so the only hypotheses left are about the
    environment - user functions total, the signature scheme correct and unforgeable. -/
theorem verdict_iff_chain_compiled (I : Inst) (S : Lvs.Schema) (syms : List String)
    (hcomp : Lvs.compile S = .ok (I.model, syms)) (hs : Lvs.sanityCheck I.model = .ok ())
    (henv : Lvs.EnvTotal I.fns) (hu : Unforgeable I.env Signed) (hc : Correct I.env Signed)
    (fuel : Nat) (st : Cache LName) (o : Obj LName) (hinv : CacheInv I.env Signed st) (v : Verdict)
    (h : (validate I.env fuel st o).verdict = some v) :
    v = .accept ↔ ∃ l, LvsChain I Signed l o :=
  verdict_iff_chain_lvs Signed I hs (Lvs.compile_vdet S I.model syms hcomp) henv hu hc fuel st o hinv v h

/-- **system_verdict_iff_chain_lvs.** Several instances (different schemas / anchors, private storages),
    any interleaved history from empty storages: a verdict of instance `i` is `accept` exactly when the
    packet has a chain of links of `i`'s schema to `i`'s anchor. -/
theorem system_verdict_iff_chain_lvs (insts : Nat → Inst)
    (hs : ∀ i, Lvs.sanityCheck (insts i).model = .ok ()) (hv : ∀ i, Lvs.VDet (insts i).model)
    (henv : ∀ i, Lvs.EnvTotal (insts i).fns)
    (hu : ∀ i, Unforgeable (insts i).env Signed) (hc : ∀ i, Correct (insts i).env Signed)
    (h : List (Nat × Nat × Obj LName)) (i fuel : Nat) (o : Obj LName) (v : Verdict)
    (e : (validate (insts i).env fuel (runSys (fun j => (insts j).env) (fun _ => []) h i) o).verdict = some v) :
    v = .accept ↔ ∃ l, LvsChain (insts i) Signed l o := by
  have e' : (validate ((fun j => (insts j).env) i) fuel
      (runSys (fun j => (insts j).env) (fun _ => []) h i) o).verdict = some v := e
  rw [other_instances_irrelevant] at e'
  exact verdict_iff_chain_lvs Signed (insts i) (hs i) (hv i) (henv i) (hu i) (hc i) fuel _ o
    (runHist_inv (insts i).env Signed (hu i) _ [] (cacheInv_nil _ _)) v e'

/-! ### a signing check that raises -/

/-- **check_raise_is_verdict_lvs.** If `Checker.check(name, key locator)` raises, the validation raises that
    exception (class mapped by `pyOfLvs`): the packet is neither accepted nor refused, no certificate is
    fetched, nothing is cached. -/
theorem check_raise_is_verdict_lvs (I : Inst) (fuel : Nat) (st : Cache LName) (o : Obj LName) (kn : LName)
    (e : Lvs.LvsErr) (hk : o.keyLoc = some kn) (h : Lvs.check I.model I.fns o.name kn = .error e) :
    validate I.env (fuel + 1) st o = ⟨some (.raise (pyOfLvs e)), st, []⟩ :=
  check_raise_reaches_caller I.env fuel st o kn _ hk
    ((lvsAllowed_error I.model I.fns o.name kn _).mpr ⟨e, h, rfl⟩)

/-- **empty_name_raises_lvs.** A Data with the empty name and a key locator name: `name[-1]` raises
    `IndexError` inside `Checker.check`, and that is what the validator raises — for every schema. -/
theorem empty_name_raises_lvs (I : Inst) (fuel : Nat) (st : Cache LName) (o : Obj LName) (kn : LName)
    (hk : o.keyLoc = some kn) (hn : o.name = []) :
    validate I.env (fuel + 1) st o = ⟨some (.raise .indexError), st, []⟩ := by
  have h : Lvs.check I.model I.fns o.name kn = .error .indexError := by rw [hn]; rfl
  exact check_raise_is_verdict_lvs I fuel st o kn .indexError hk h

/-- **link_check_total_lvs.** On a loader-accepted model with deterministic value edges and user functions
    that are defined and do not raise, the signing check of a link between two non-empty, well-formed names
    answers without raising: with such schemas and names a `raise` verdict can only be the `ValueError` of a
    key importer (`Ndn.C14.raise_has_cause`). -/
theorem link_check_total_lvs (I : Inst) (hs : Lvs.sanityCheck I.model = .ok ()) (hv : Lvs.VDet I.model)
    (henv : Lvs.EnvTotal I.fns) (pkt key p k : LName) (hp : Lvs.dropDigest pkt = some p)
    (hk : Lvs.dropDigest key = some k) : ∃ b, I.env.allowed pkt key = .ok b := by
  obtain ⟨b, hb⟩ := Ndn.C12.check_total I.model (sane_of_sanityCheck hs) hv I.fns henv pkt key p k hp hk
  exact ⟨b, by show lvsAllowed I.model I.fns pkt key = .ok b; unfold lvsAllowed; rw [hb]⟩

/-- **lvs_chain_keys_matched.** On *every* chain of schema links, every key name (each certificate and the
    anchor) matches some node of the schema. -/
theorem lvs_chain_keys_matched (I : Inst) (l : List LName) (o : Obj LName) (h : LvsChain I Signed l o) :
    ∀ kn ∈ l, KeyMatched I.model (Lvs.pureOf I.fns) kn := by
  intro kn hm
  obtain ⟨a, ha⟩ := h.links kn hm
  exact ha.keyMatched

/-- **chain_never_through_unmatched_key.** (`check_key_must_match` along the whole chain.)  If the
    validator accepts `o`, the chain that justifies it starts at `o`'s key locator and passes only through
    keys whose names match a node of the schema: no accepted chain contains a certificate (or names an
    anchor) whose name matches no rule. -/
theorem chain_never_through_unmatched_key (I : Inst) (hs : Lvs.sanityCheck I.model = .ok ())
    (hu : Unforgeable I.env Signed) (fuel : Nat) (st : Cache LName) (o : Obj LName)
    (hinv : CacheInv I.env Signed st) (h : (validate I.env fuel st o).verdict = some .accept) :
    ∃ l, LvsChain I Signed l o ∧ o.keyLoc = l.head? ∧
      ∀ kn ∈ l, KeyMatched I.model (Lvs.pureOf I.fns) kn := by
  obtain ⟨l, hl⟩ := validate_sound_lvs Signed I hs hu fuel st o hinv h
  exact ⟨l, hl, hl.head, lvs_chain_keys_matched Signed I l o hl⟩

/-- **unmatched_key_never_accepted.** A packet whose key locator names a key that matches no node of the
    schema — under no bindings at all — is never accepted: not fresh, not from any reachable storage
    (a key cached by an earlier validation does not help), with any fuel. -/
theorem unmatched_key_never_accepted (I : Inst) (hs : Lvs.sanityCheck I.model = .ok ())
    (hu : Unforgeable I.env Signed) (fuel : Nat) (st : Cache LName) (o : Obj LName) (kn : LName)
    (hk : o.keyLoc = some kn) (hno : ¬ KeyMatched I.model (Lvs.pureOf I.fns) kn)
    (hinv : CacheInv I.env Signed st) : (validate I.env fuel st o).verdict ≠ some .accept := by
  intro h
  obtain ⟨l, _, hhead, hall⟩ := chain_never_through_unmatched_key Signed I hs hu fuel st o hinv h
  rw [hk] at hhead
  cases l with
  | nil => simp at hhead
  | cons a r =>
    simp only [List.head?_cons, Option.some.injEq] at hhead
    subst hhead
    exact hno (hall kn (List.mem_cons_self))

/-- **root_of_trust_spec.** On a loader-accepted model `Checker.root_of_trust()` returns exactly the rule
    names (`#_<id>` for an unnamed node) of the nodes that some reachable node lists as a signer and that
    have no signer themselves. -/
theorem root_of_trust_spec (m : Lvs.Model) (hs : Lvs.sanityCheck m = .ok ()) (r : String) :
    r ∈ rootOfTrust m ↔ RootRule m r :=
  mem_rootOfTrust_iff hs r

/-- **construct_refuses_lvs.** With the construction-time check computed by the LVS matcher
    (`root_of_trust`, `match` on the anchor's name): the validator is built exactly when the anchor's name
    matches at least one node of the schema, every rule name of every root of trust is a rule name of a
    node the anchor's name matches, and the anchor's signature verifies under its own key; the instance
    then holds the anchor's name and key. -/
theorem construct_refuses_lvs (crypto : Key → Obj LName → Bool)
    (hu : ∀ k o, crypto k o = true → Signed k o) (hc : ∀ k o, Signed k o → crypto k o = true)
    (m : Lvs.Model) (hs : Lvs.sanityCheck m = .ok ()) (hv : Lvs.VDet m)
    (env : Lvs.FnEnv) (henv : Lvs.EnvTotal env) (anchor : Obj LName) (key : Key) (n : LName) (k : Key) :
    constructLvs crypto m env anchor key = .ok (n, k) ↔
      ((∃ r, AnchorRule m (Lvs.pureOf env) anchor.name r) ∧
       (∀ r, RootRule m r → AnchorRule m (Lvs.pureOf env) anchor.name r) ∧
       Verifies Signed key anchor ∧ n = anchor.name ∧ k = key) := by
  unfold constructLvs
  rw [userFnsOk_of_total m env henv]
  simp only [Bool.true_eq_false, if_false]
  cases hd : Lvs.dropDigest anchor.name with
  | none =>
    rw [anchorMatches_none hd]
    constructor
    · intro h; cases h
    · rintro ⟨⟨r, p, _, _, hp, _⟩, _⟩
      rw [hd] at hp; cases hp
  | some p =>
    obtain ⟨l, hl, hspec⟩ := anchorMatches_spec (sane_of_sanityCheck hs) hv env henv hd
    rw [hl]
    simp only []
    rw [construct_refuses Signed crypto hu hc]
    simp only [true_and]
    constructor
    · rintro ⟨hne, hall, hver, rfl, rfl⟩
      refine ⟨?_, fun r hr => (hspec r).mp (hall r ((mem_rootOfTrust_iff hs r).mpr hr)), hver, rfl, rfl⟩
      obtain ⟨r, hr⟩ := List.exists_mem_of_ne_nil l hne
      exact ⟨r, (hspec r).mp hr⟩
    · rintro ⟨⟨r, hr⟩, hall, hver, rfl, rfl⟩
      refine ⟨List.ne_nil_of_mem ((hspec r).mpr hr),
        fun r hr => (hspec r).mpr (hall r ((mem_rootOfTrust_iff hs r).mp hr)), hver, rfl, rfl⟩

/-- **construct_refuses_missing_fns_lvs.** Whatever else holds: if a user function the schema calls is
    not in the `user_fns` dictionary, construction raises `ValueError`. -/
theorem construct_refuses_missing_fns_lvs (crypto : Key → Obj LName → Bool) (m : Lvs.Model) (env : Lvs.FnEnv)
    (anchor : Obj LName) (key : Key) (id : String) (hid : id ∈ modelFns m) (hmiss : env id = none) :
    constructLvs crypto m env anchor key = .error .valueError := by
  unfold constructLvs
  have : userFnsOk m env = false := by
    unfold userFnsOk
    rw [List.all_eq_false]
    exact ⟨id, hid, by simp [hmiss]⟩
  simp [this]

/-! ### the certificate world changes between validations (C14 ∘ C12) -/

/-- the link relation of instance `j`: the C12 signing relation of its schema -/
def schemaLinks (insts : Nat → Inst) : Nat → LName → LName → Prop :=
  fun j => SchemaLink (insts j).model (Lvs.pureOf (insts j).fns)

/-- instances over Light VerSec schemas, each holding the storage object `stores i` -/
def lvsCfgs (insts : Nat → Inst) (stores : Nat → StoreRef) : Nat → Cfg LName := fun i => (insts i).cfg (stores i)

/-- **accept_of_chain_now_lvs.** `accept_of_chain_now` over Light VerSec schemas: whatever the history (failed fetches,
    earlier states of the network, other instances), a packet that has a chain of schema links to the anchor in the network
    as it is now is accepted — provided a name denotes one key (`KeyStable`). -/
theorem accept_of_chain_now_lvs (insts : Nat → Inst) (stores : Nat → StoreRef)
    (hs : ∀ i, Lvs.sanityCheck (insts i).model = .ok ()) (hv : ∀ i, Lvs.VDet (insts i).model)
    (henv : ∀ i, Lvs.EnvTotal (insts i).fns) (hc : ∀ i k o, Signed k o → (insts i).crypto k o = true)
    (w0 : World LName) (h : List (Event LName)) (i fuel : Nat) (o : Obj LName) (l : List LName)
    (hstable : KeyStable (worldsOf w0 h) (after (lvsCfgs insts stores) w0 h).world)
    (hch : LvsChain ((insts i).at (after (lvsCfgs insts stores) w0 h).world) Signed l o) (hf : l.length ≤ fuel) :
    (validateD (lvsCfgs insts stores) (after (lvsCfgs insts stores) w0 h) i fuel o).verdict = some .accept := by
  have hd := chainD_of_chainL
    (fun a b => (allowed_iff_schema_link ((insts i).at (after (lvsCfgs insts stores) w0 h).world) (hs i) (hv i) (henv i) a b).mpr)
    l o hch
  have hpos := List.length_pos_iff.mpr hch.ne_nil
  exact accept_of_chain_now Signed (lvsCfgs insts stores) hc w0 h i fuel _ o hstable hd (by omega)

/-- **accept_sound_with_cache_lvs.** `accept_sound_with_cache` over Light VerSec schemas: an acceptance has a chain of
    C12 signing relations of the instance's schema that reaches the anchor through certificates retrievable now, or ends at
    a key of a certificate that was retrievable and had such a chain (by the schema and to the anchor of the instance that
    validated then) at an earlier `validate` event of an instance holding the same storage object. -/
theorem accept_sound_with_cache_lvs (insts : Nat → Inst) (stores : Nat → StoreRef)
    (hs : ∀ i, Lvs.sanityCheck (insts i).model = .ok ())
    (hu : ∀ i k o, (insts i).crypto k o = true → Signed k o)
    (w0 : World LName) (h : List (Event LName)) (i fuel : Nat) (o : Obj LName)
    (hacc : (validateD (lvsCfgs insts stores) (after (lvsCfgs insts stores) w0 h) i fuel o).verdict = some .accept) :
    ∃ d, ChainC (schemaLinks insts i) ((lvsCfgs insts stores i).env (after (lvsCfgs insts stores) w0 h).world) Signed
      (trustOf (TrustedD (schemaLinks insts) (lvsCfgs insts stores) Signed w0 noTrust h) (stores i)) d o := by
  obtain ⟨d, hd⟩ := accept_sound_with_cache Signed (lvsCfgs insts stores) hu w0 h i fuel o hacc
  have hR : ∀ j a b, allowedOf (lvsCfgs insts stores) j a b → schemaLinks insts j a b :=
    fun j a b hab => allowed_schema_link (insts j) (hs j) a b hab
  refine ⟨d, ChainC.mono (hR i) ?_ hd⟩
  show ∀ n k, trustOf _ (stores i) n k → trustOf _ (stores i) n k
  cases stores i with
  | empty => exact fun _ _ hf => hf
  | mem s => exact fun n k ht => trustedD_mono _ _ _ Signed hR h w0 _ _ (fun _ _ _ hx => hx) s n k ht

/-! ### non-vacuity: the schema `#p: "d"/x <= #k`, `#k: "k"/x <= #r`, `#r: "r"` with anchor `/r` -/

namespace LvsEx
open Ndn.Lvs.Example (cD cK cA cB allFns)

def cR : Bytes := [8, 1, 0x72]

/-- the compiled model of the schema -/
def schema : Lvs.Model :=
  { version := some 0x00011000, startId := 0, namedCnt := 1,
    nodes := [
      { id := some 0, parent := none, ruleNames := [],
        vEdges := [⟨some 1, some cD⟩, ⟨some 3, some cK⟩, ⟨some 5, some cR⟩], pEdges := [], signCons := [] },
      { id := some 1, parent := some 0, ruleNames := [], vEdges := [],
        pEdges := [⟨some 2, some 1, []⟩], signCons := [] },
      { id := some 2, parent := some 1, ruleNames := ["#p"], vEdges := [], pEdges := [], signCons := [4] },
      { id := some 3, parent := some 0, ruleNames := [], vEdges := [],
        pEdges := [⟨some 4, some 1, []⟩], signCons := [] },
      { id := some 4, parent := some 3, ruleNames := ["#k"], vEdges := [], pEdges := [], signCons := [5] },
      { id := some 5, parent := some 0, ruleNames := ["#r"], vEdges := [], pEdges := [], signCons := [] } ] }

/-- who signed: the signature token names the signing key pair -/
def GS (k : Key) (o : Obj LName) : Prop := o.sig = some k.id
def gc (k : Key) (o : Obj LName) : Bool := o.sig == some k.id

/-- `/r` (self-signed anchor), `/k/a` (certificate issued by `/r`), `/d/a` signed by `/k/a`,
    `/d/b` signed by `/k/a` (the binding of `x` differs), `/d/a` naming the stray key `/a` -/
def anchorR : Obj LName := ⟨[cR], some [cR], .ecdsa, some 10, some ⟨.ec, 10⟩⟩
def certKA : Obj LName := ⟨[cK, cA], some [cR], .ecdsa, some 10, some ⟨.ec, 30⟩⟩
def pktDA : Obj LName := ⟨[cD, cA], some [cK, cA], .ecdsa, some 30, none⟩
def pktDB : Obj LName := ⟨[cD, cB], some [cK, cA], .ecdsa, some 30, none⟩
def pktStray : Obj LName := ⟨[cD, cA], some [cA], .ecdsa, some 30, none⟩

def I : Inst :=
  ⟨schema, allFns, gc, fun i => if i.name = [cK, cA] then some (.data certKA) else none, [cR], ⟨.ec, 10⟩⟩

theorem s1 : Lvs.sanityCheck schema = .ok () := by rfl
theorem s2 : Lvs.VDet schema := vdet_of_vdetB (by decide)
theorem s3 : Lvs.EnvTotal allFns := fun _ => ⟨_, rfl, fun _ _ => ⟨true, rfl⟩⟩
theorem gu : Unforgeable I.env GS := by
  intro k o h; simpa [I, Inst.env, gc, GS] using h
theorem gcor : Correct I.env GS := by
  intro k o h; simpa [I, Inst.env, gc, GS] using h

/-- the explicit two-link chain  /d/a — /k/a — /r -/
theorem chainDA : LvsChain I GS [[cK, cA], [cR]] pktDA :=
  .step pktDA [cK, cA] certKA ⟨.ec, 30⟩ [[cR]] rfl (by decide)
    ((allowed_iff_schema_link I s1 s2 s3 _ _).mp (by rfl)) rfl rfl rfl ⟨rfl, rfl⟩
    (.anchor certKA rfl ((allowed_iff_schema_link I s1 s2 s3 _ _).mp (by rfl)) ⟨rfl, rfl⟩)

/-- complete / sound / iff on the instance -/
example : (validate I.env 2 [] pktDA).verdict = some .accept :=
  validate_complete_lvs GS I s1 s2 s3 gcor _ pktDA chainDA 2 [] (cacheInv_nil _ _) (by decide)

example : ∃ l, LvsChain I GS l pktDA :=
  validate_sound_lvs GS I s1 gu 2 [] pktDA (cacheInv_nil _ _) (by decide)

/-- `/k/a` may not sign `/d/b`: rejected, hence no chain of schema links exists -/
example : ¬ ∃ l, LvsChain I GS l pktDB := by
  intro h
  have hr : (validate I.env 2 [] pktDB).verdict = some .reject := by decide
  have := (verdict_iff_chain_lvs GS I s1 s2 s3 gu gcor 2 [] pktDB (cacheInv_nil _ _) .reject hr).mpr h
  cases this

/-- … also after any interleaved history of a system of such instances -/
example (h : List (Nat × Nat × Obj LName)) (f : Nat) (v : Verdict)
    (e : (validate I.env f (runSys (fun _ => I.env) (fun _ => []) h 0) pktDB).verdict = some v) :
    v ≠ .accept := by
  intro hv
  have hch := (system_verdict_iff_chain_lvs GS (fun _ => I) (fun _ => s1) (fun _ => s2) (fun _ => s3)
    (fun _ => gu) (fun _ => gcor) h 0 f pktDB v e).mp hv
  have hr : (validate I.env 2 [] pktDB).verdict = some .reject := by decide
  have := (verdict_iff_chain_lvs GS I s1 s2 s3 gu gcor 2 [] pktDB (cacheInv_nil _ _) .reject hr).mpr hch
  cases this

/-- a Data with the empty name that names `/k/a`: the validator raises IndexError -/
example : validate I.env 2 [] ⟨[], some [cK, cA], .ecdsa, some 30, none⟩ = ⟨some (.raise .indexError), [], []⟩ :=
  empty_name_raises_lvs I 1 [] _ [cK, cA] rfl rfl

example : ∃ b, I.env.allowed [cD, cA] [cK, cA] = .ok b :=
  link_check_total_lvs I s1 s2 s3 _ _ [cD, cA] [cK, cA] (by decide) (by decide)

/-- the accepted chain passes only through keys that match a rule -/
example : ∃ l, LvsChain I GS l pktDA ∧ pktDA.keyLoc = l.head? ∧
    ∀ kn ∈ l, KeyMatched schema (Lvs.pureOf allFns) kn :=
  chain_never_through_unmatched_key GS I s1 gu 2 [] pktDA (cacheInv_nil _ _) (by decide)

/-- `/a` matches no node of the schema … -/
theorem stray_unmatched : ¬ KeyMatched schema (Lvs.pureOf allFns) [cA] := by
  rintro ⟨k, σ, n, σ', hk, hm⟩
  have : Lvs.dropDigest [cA] = some [cA] := by decide
  rw [this] at hk; cases hk
  cases hm with
  | value hn hve hval _ _ =>
    simp [schema] at hn; subst hn
    simp at hve
    rcases hve with rfl | rfl | rfl <;> simp [cA, cD, cK, cR] at hval
  | pattern hn hpe _ _ _ =>
    simp [schema] at hn; subst hn
    simp at hpe

/-- … so a packet naming it is never accepted, from any reachable storage -/
example : ∀ fuel st, CacheInv I.env GS st → (validate I.env fuel st pktStray).verdict ≠ some .accept :=
  fun fuel st hinv => unmatched_key_never_accepted GS I s1 gu fuel st pktStray [cA] rfl stray_unmatched hinv

/-- roots of trust, construction: built for `/r`, refused for `/k/a` (matches `#k`, not the root `#r`) -/
example : rootOfTrust schema = ["#r"] ∧ RootRule schema "#r" :=
  ⟨by decide, (root_of_trust_spec schema s1 "#r").mp (by decide)⟩

example : constructLvs gc schema allFns anchorR ⟨.ec, 10⟩ = .ok ([cR], ⟨.ec, 10⟩) := by rfl

example : (∀ r, RootRule schema r → AnchorRule schema (Lvs.pureOf allFns) [cR] r) ∧ Verifies GS ⟨.ec, 10⟩ anchorR := by
  have := (construct_refuses_lvs GS gc (fun k o h => by simpa [gc, GS] using h)
    (fun k o h => by simpa [gc, GS] using h) schema s1 s2 allFns s3 anchorR ⟨.ec, 10⟩ [cR] ⟨.ec, 10⟩).mp rfl
  exact ⟨this.2.1, this.2.2.1⟩

example : constructLvs gc schema allFns { certKA with keyLoc := some [cK, cA], sig := some 30 } ⟨.ec, 30⟩
    = .error .valueError := by rfl

/-- the same schema with the constraint `x: $f()` on the pattern of `#p` -/
def schemaFn : Lvs.Model :=
  { schema with nodes := schema.nodes.set 1 { (schema.nodes[1]!) with
      pEdges := [⟨some 2, some 1, [[⟨none, none, some ⟨some "$f", []⟩⟩]]⟩] } }

/-- with an empty `user_fns` dictionary its construction raises `ValueError` -/
example (anchor : Obj LName) (key : Key) :
    constructLvs gc schemaFn Lvs.Example.noFns anchor key = .error .valueError :=
  construct_refuses_missing_fns_lvs gc _ _ anchor key "$f" (by decide) rfl

/-- the certificate `/k/a` is Nacked at first, then retrievable: the instance, asked again, accepts, whatever it holds -/
def wNack : World LName := fun i => if i.name = [cK, cA] then some .nack else none

example : traceD (lvsCfgs (fun _ => I) (fun _ => .mem 0)) ⟨wNack, fun _ => []⟩
      [.validate 0 2 pktDA, .world I.world, .validate 0 2 pktDA, .world wNack, .validate 0 2 pktDA] =
    [(some .reject, [certInterest [cK, cA]]), (some .accept, [certInterest [cK, cA]]), (some .accept, [])] := by decide

example : (validateD (lvsCfgs (fun _ => I) (fun _ => .mem 0))
      (after (lvsCfgs (fun _ => I) (fun _ => .mem 0)) wNack [.validate 0 2 pktDA, .world I.world]) 0 2 pktDA).verdict
    = some .accept := by
  refine accept_of_chain_now_lvs GS (fun _ => I) (fun _ => .mem 0) (fun _ => s1) (fun _ => s2) (fun _ => s3)
    (fun _ => gcor) wNack _ 0 2 pktDA _ ?_ chainDA (by decide)
  intro w hm n c c' hw hcn hw' hcn'
  simp only [worldsOf, List.mem_cons, List.not_mem_nil, or_false] at hm
  have hnow : (after (lvsCfgs (fun _ => I) (fun _ => .mem 0)) wNack [.validate 0 2 pktDA, .world I.world]).world = I.world := rfl
  rw [hnow] at hw'
  rcases hm with rfl | rfl
  · simp only [wNack] at hw; split at hw <;> simp at hw
  · rw [hw] at hw'; cases hw'; rfl

end LvsEx

end Ndn.C14
