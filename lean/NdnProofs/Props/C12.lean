import NdnProofs.Lemmas.Lvs.Sanity
import NdnProofs.Lemmas.Lvs.Sem
import NdnProofs.Lemmas.Lvs.Example
import NdnProofs.Lemmas.Lvs.CtxFree
import NdnProofs.Lemmas.Lvs.CompileVDet
import NdnProofs.Lemmas.Lvs.CompileStatic
/-!
# C12 — the signing check holds exactly when the schema lets that key sign that packet

Model: `Ndn.Lvs.check` (`Checker.check`: implicit-digest stripping, `_match` on the packet name, then
`_match` on the key name with the packet's bindings carried over, membership in `sign_cons`), with the
candidate repair `C12-bound-tag-constraints` applied (constraints of a pattern edge are evaluated also
when its tag is already bound by the packet).
Specification (`NdnModel/Lvs/Sem.lean`): `Signs m fns pkt key` — some node matched by `pkt` (bindings σ)
lists as signer a node matched by `key` starting from σ, where *matching* is the denotation `Path`:
bound tags must repeat their value and **every** constraint of every edge on the way must hold.
Hypotheses: the model passed the loader (`Sane`), value edges are deterministic (`VDet`, true of compiler
output), the user functions are defined and do not raise (`EnvTotal`).
-/
namespace Ndn.C12
open Ndn Ndn.Lvs

/-- **check_iff.** `check` answers yes iff — after dropping a trailing implicit digest from both names —
    the packet name matches some node with bindings σ and the key name matches, starting from σ, one of
    the nodes listed as that node's signers. -/
theorem check_iff (m : Model) (hs : Sane m) (hv : VDet m) (env : FnEnv) (henv : EnvTotal env)
    (pkt key : List Bytes) :
    check m env pkt key = .ok true ↔
      ∃ p k, dropDigest pkt = some p ∧ dropDigest key = some k ∧ Signs m (pureOf env) p k := by
  unfold check
  rw [stripDigest_eq pkt, stripDigest_eq key]
  cases hp : dropDigest pkt with
  | none => simp
  | some p =>
    cases hk : dropDigest key with
    | none => simp
    | some k =>
      obtain ⟨b, hb, hiff⟩ := checkCore_iff m hs hv env henv p k
      simp only [hb, Option.some.injEq, exists_and_left, exists_eq_left']
      rw [← hiff]
      cases b <;> simp

/-- **check_true_sound.** Whatever the `user_fns` dictionary (functions missing, or raising): a yes
    answer is always justified by the signing relation, with raising / missing functions read as false.
    Only the loader's structural check is assumed. -/
theorem check_true_sound (m : Model) (hs : Sane m) (env : FnEnv) (pkt key : List Bytes)
    (h : check m env pkt key = .ok true) :
    ∃ p k, dropDigest pkt = some p ∧ dropDigest key = some k ∧ Signs m (pureOf env) p k := by
  unfold check at h
  rw [stripDigest_eq pkt, stripDigest_eq key] at h
  cases hp : dropDigest pkt with
  | none => simp [hp] at h
  | some p =>
    cases hk : dropDigest key with
    | none => simp [hp, hk] at h
    | some k =>
      simp only [hp, hk] at h
      exact ⟨p, k, rfl, rfl, checkCore_true_sound m hs env p k h⟩

/-- `check` gives an answer (no exception) on names that are not empty. -/
theorem check_total (m : Model) (hs : Sane m) (hv : VDet m) (env : FnEnv) (henv : EnvTotal env)
    (pkt key p k : List Bytes) (hp : dropDigest pkt = some p) (hk : dropDigest key = some k) :
    ∃ b, check m env pkt key = .ok b := by
  unfold check
  rw [stripDigest_eq pkt, stripDigest_eq key, hp, hk]
  obtain ⟨b, hb, _⟩ := checkCore_iff m hs hv env henv p k
  exact ⟨b, hb⟩

/-- **check_key_must_match.** A key name that matches no node of the schema — under no bindings at
    all — is never accepted, whatever the packet. -/
theorem check_key_must_match (m : Model) (hs : Sane m) (hv : VDet m) (env : FnEnv) (henv : EnvTotal env)
    (pkt key k : List Bytes) (hk : dropDigest key = some k)
    (hno : ∀ σ n σ', ¬ Matches m (pureOf env) σ k n σ') :
    check m env pkt key ≠ .ok true := by
  intro h
  obtain ⟨p, k', _, hk', pn, σ, pnode, kn, σ', _, _, hkm, _⟩ := (check_iff m hs hv env henv pkt key).mp h
  rw [hk] at hk'; cases hk'
  exact hno σ kn σ' hkm

/-- **check_key_must_match_alone.** When no constraint of the schema refers to another pattern (only
    component values and user functions of literal arguments — `CtxFree`), a key name for which
    `Checker.match` on its own finds no node is never accepted, whatever the packet.  (With constraints
    that do refer to patterns bound by the packet, lvs.rst documents that a key rule may match *only* in
    the context of the packet; then `check_key_must_match` above is the statement that holds.) -/
theorem check_key_must_match_alone (m : Model) (hs : Sane m) (hv : VDet m) (hcf : CtxFree m)
    (env : FnEnv) (henv : EnvTotal env) (pkt key k : List Bytes) (hk : dropDigest key = some k)
    (hno : matchTree m env k m.startId [] = []) :
    check m env pkt key ≠ .ok true := by
  apply check_key_must_match m hs hv env henv pkt key k hk
  intro σ n σ' hm
  obtain ⟨σb', hp', _⟩ := path_weaken m hcf (pureOf env) hm [] (subCtx_nil σ)
  have := matchTree_complete m env (edgeTotal_of_sane hs env henv) hv hp' Reach.start
  rw [hno] at this
  simp at this

/-- a component whose type is ImplicitSha256Digest -/
def IsDigest (d : Bytes) : Prop := ∃ sz, parseTlNum d 0 = .ok (1, sz)
/-- a component of any other (readable) type -/
def NotDigest (c : Bytes) : Prop := ∃ t sz, parseTlNum c 0 = .ok (t, sz) ∧ t ≠ 1

theorem dropDigest_snoc_digest (nm : List Bytes) (d : Bytes) (hd : IsDigest d) :
    dropDigest (nm ++ [d]) = some nm := by
  obtain ⟨sz, hsz⟩ := hd
  simp [dropDigest, hsz]

theorem dropDigest_plain (nm : List Bytes) (c : Bytes) (hc : NotDigest c) :
    dropDigest (nm ++ [c]) = some (nm ++ [c]) := by
  obtain ⟨t, sz, hsz, ht⟩ := hc
  simp [dropDigest, hsz, ht]

/-- **check_ignores_implicit_digest.** A trailing implicit-digest component on the packet name, on the
    key name, or on both does not change the answer. -/
theorem check_ignores_implicit_digest (m : Model) (env : FnEnv) (p k : List Bytes) (cp ck dp dk : Bytes)
    (hcp : NotDigest cp) (hck : NotDigest ck) (hdp : IsDigest dp) (hdk : IsDigest dk) :
    check m env (p ++ [cp] ++ [dp]) (k ++ [ck] ++ [dk]) = check m env (p ++ [cp]) (k ++ [ck]) ∧
    check m env (p ++ [cp] ++ [dp]) (k ++ [ck]) = check m env (p ++ [cp]) (k ++ [ck]) ∧
    check m env (p ++ [cp]) (k ++ [ck] ++ [dk]) = check m env (p ++ [cp]) (k ++ [ck]) := by
  unfold check
  simp only [stripDigest_eq, dropDigest_snoc_digest _ _ hdp, dropDigest_snoc_digest _ _ hdk,
    dropDigest_plain _ _ hcp, dropDigest_plain _ _ hck, and_self]

/-! ### non-vacuity (schema `#p: "d"/x <= #k`, `#k: "k"/x & {x: "a"|"b"}`) -/

open Example in
example : Sane model ∧ VDet model ∧ EnvTotal allFns :=
  ⟨(Ndn.Lvs.sane_of_structCheck _ (by decide)),
   by
     intro n node hn ve₁ ve₂ h1 h2 c hv1 hv2
     have hlt : n < 5 := (List.getElem?_eq_some_iff.mp hn).1
     have : n = 0 ∨ n = 1 ∨ n = 2 ∨ n = 3 ∨ n = 4 := by omega
     rcases this with rfl | rfl | rfl | rfl | rfl <;> simp [model] at hn <;> subst hn <;> simp at h1 h2
     rcases h1 with rfl | rfl <;> rcases h2 with rfl | rfl <;> simp_all [cD, cK] <;> (subst hv1; simp at hv2),
   fun _ => ⟨_, rfl, fun _ _ => ⟨true, rfl⟩⟩⟩

open Example in
example : CtxFree model ∧ matchTree model allFns [cK, cE] 0 [] = [] := by
  refine ⟨?_, by decide⟩
  intro n node hn pe hpe cl hcl o ho
  have hlt : n < 5 := (List.getElem?_eq_some_iff.mp hn).1
  have : n = 0 ∨ n = 1 ∨ n = 2 ∨ n = 3 ∨ n = 4 := by omega
  rcases this with rfl | rfl | rfl | rfl | rfl <;> simp [model] at hn <;> subst hn <;> simp at hpe
  · subst hpe; simp at hcl
  · subst hpe; simp at hcl; subst hcl; simp at ho
    rcases ho with rfl | rfl <;> exact Or.inl ⟨_, rfl⟩
/-- **check_iff_compiled.** `check_iff` for the output of the compiler model on any AST the parser can produce
    (`Schema.WF`): the two structural hypotheses (`Sane`, `VDet`) are theorems about the compiler
    (`compile_built`, `compile_vdet`), so for a compiled schema the signing check answers yes iff the schema tree
    lets that key sign that packet - whatever the schema, with no side condition on the model. -/
theorem check_iff_compiled (S : Schema) (hwf : S.WF) (m : Model) (syms : List String)
    (h : compile S = .ok (m, syms)) (env : FnEnv) (henv : EnvTotal env) (pkt key : List Bytes) :
    check m env pkt key = .ok true ↔
      ∃ p k, dropDigest pkt = some p ∧ dropDigest key = some k ∧ Signs m (pureOf env) p k :=
  check_iff m (compile_built S hwf m syms h).sane (compile_vdet S m syms h) env henv pkt key

open Example in
/-- `/k/a` may sign `/d/a` … -/
example : check model allFns [cD, cA] [cK, cA] = .ok true := by rfl
open Example in
/-- … but `/k/e` may not sign `/d/e` (finding F9: the unrepaired checker says yes), -/
example : check model allFns [cD, cE] [cK, cE] = .ok false := by rfl
open Example in
/-- nor may `/k/b` sign `/d/a` (the binding of `x` is carried over) -/
example : check model allFns [cD, cA] [cK, cB] = .ok false := by rfl
open Example in
example : IsDigest cDigest ∧ NotDigest cA := ⟨⟨1, by rfl⟩, ⟨8, 1, by rfl, by decide⟩⟩

end Ndn.C12
