import NdnProofs.Props.C13
import NdnProofs.Props.C07
import NdnModel.Lvs.Load
/-!
# C13 — `Checker.load` on every byte string

`Ndn.Lvs.loadBytes` = the TLV decoder model of C07/C08 (`Ndn.Codec.parse`) over the schema of `LvsModel` regenerated from
binary.py (`Gen.C08.binary_LvsModel`; `binary_layout_is_shipped_schema` ties it to the layout the Lean structures follow)
composed with the loader model `sanityCheck`.  For **every byte string** `Checker.load`

* raises a documented decoding error (IndexError, struct.error, ValueError, DecodeError, TypeError) from `LvsModel.parse`, or
* raises `LvsModelError` (a documented sanity rule is broken) or `SemanticError` (signing loop) from `_sanity_check`, or
  `TypeError` — and that only when the bytes carry no `StartId` although version and node ids are in order, or
* returns a checker whose model obeys the documented sanity rules and on which every search of `match` / `check` ends
  within `stepBound (maxPE m) |name|` iterations (`maxPE m`: the largest number of pattern edges of a node), whatever the
  name, the initial bindings and the user functions.
-/
namespace Ndn.C13
open Ndn Ndn.Lvs Ndn.Codec

theorem lvsModel_schema_ok : pFs Gen.C08.binary_LvsModel = true := by decide

/-- `_sanity_check` raises `LvsModelError` or `SemanticError`, nothing else -/
theorem sanityCheck_error_classes (m : Model) (e : LvsErr) (h : sanityCheck m = .error e) :
    e = .modelError ∨ e = .semanticError := by
  unfold sanityCheck at h
  split at h
  · injection h with h; exact Or.inl h.symm
  · split at h
    · injection h with h; exact Or.inr h.symm
    · cases h

/-- **load_decode_errors.**  Whatever the bytes, an exception that leaves `LvsModel.parse` is a documented decoding
    error. -/
theorem load_decode_errors (wire : Bytes) (e : PyErr) (h : loadBytes wire = .error (.decode e)) : docErr e = true := by
  unfold loadBytes at h
  split at h
  · rename_i e' he
    injection h with h
    injection h with h
    subst h
    exact Ndn.C07.parse_total _ false wire lvsModel_schema_ok e' he
  · split at h <;> cases h

/-- **load_error_classes.**  Whatever the bytes, an exception that leaves `_sanity_check` is `LvsModelError`,
    `SemanticError`, or - only when the bytes carry no `StartId` while version and node ids are in order - `TypeError`. -/
theorem load_error_classes (wire : Bytes) (e : LvsErr) (h : loadBytes wire = .error (.lvs e)) :
    e = .modelError ∨ e = .semanticError ∨
      (e = .typeError ∧ ∃ vs, Codec.parse Gen.C08.binary_LvsModel false wire = .ok vs ∧ (toRaw vs).startId = none) := by
  unfold loadBytes at h
  split at h
  · cases h
  · rename_i vs hvs
    split at h
    · rename_i e' he
      injection h with h
      injection h with h
      subst h
      unfold loadRaw at he
      split at he
      · simp only [] at he
        split at he
        · rename_i e'' hs
          injection he with he
          subst he
          rcases sanityCheck_error_classes _ _ hs with h1 | h1
          · exact Or.inl h1
          · exact Or.inr (Or.inl h1)
        · cases he
      · rename_i hnone
        simp only [] at he
        split at he
        · injection he with he
          exact Or.inr (Or.inr ⟨he.symm, vs, hvs, hnone⟩)
        · injection he with he
          exact Or.inl he.symm
    · cases h

/-- **load_accepted_terminates.**  Whatever the bytes, a checker that `Checker.load` returns holds a model that obeys
    the documented sanity rules, and every search on it ends within the bound. -/
theorem load_accepted_terminates (wire : Bytes) (L : Loaded) (h : loadBytes wire = .ok L) :
    sanityCheck L.model = .ok () ∧ Sane L.model ∧
    (∀ (env : FnEnv) (name : List Bytes) (ctx : Ctx),
      ∃ k, k ≤ stepBound (maxPE L.model) name.length ∧ (runG L.model (edgeFn L.model env) name k (initSt L.model ctx)).cur = none) ∧
    (∀ (env : FnEnv) (pkt key : List Bytes),
      (matchIter L.model env pkt []).cur = none ∧ ∀ σ, (matchIter L.model env key σ).cur = none) := by
  have hs : sanityCheck L.model = .ok () := by
    unfold loadBytes at h
    split at h
    · cases h
    · split at h
      · cases h
      · rename_i l hl
        injection h with h
        subst h
        unfold loadRaw at hl
        split at hl
        · simp only [] at hl
          split at hl
          · cases hl
          · rename_i hs
            injection hl with hl
            subst hl
            exact hs
        · simp only [] at hl
          split at hl <;> cases hl
  exact ⟨hs, accepted_sane _ hs, fun env name ctx => match_terminates _ hs env name ctx,
    fun env pkt key => check_terminates _ hs env pkt key⟩

/-- **load_total.**  The three cases in one statement: for every byte string `Checker.load` raises a documented decoding
    error, or `LvsModelError` / `SemanticError` (`TypeError` only for bytes without `StartId`), or returns a model on which
    every search terminates within the bound. -/
theorem load_total (wire : Bytes) :
    (∃ e, loadBytes wire = .error (.decode e) ∧ docErr e = true) ∨
    (∃ e, loadBytes wire = .error (.lvs e) ∧ (e = .modelError ∨ e = .semanticError ∨
      (e = .typeError ∧ ∃ vs, Codec.parse Gen.C08.binary_LvsModel false wire = .ok vs ∧ (toRaw vs).startId = none))) ∨
    (∃ L, loadBytes wire = .ok L ∧ Sane L.model ∧
      ∀ (env : FnEnv) (name : List Bytes) (ctx : Ctx),
        ∃ k, k ≤ stepBound (maxPE L.model) name.length ∧
          (runG L.model (edgeFn L.model env) name k (initSt L.model ctx)).cur = none) := by
  cases h : loadBytes wire with
  | error e =>
    cases e with
    | decode e => exact Or.inl ⟨e, rfl, load_decode_errors wire e h⟩
    | lvs e => exact Or.inr (Or.inl ⟨e, rfl, load_error_classes wire e h⟩)
  | ok L =>
    obtain ⟨_, h2, h3, _⟩ := load_accepted_terminates wire L h
    exact Or.inr (Or.inr ⟨L, rfl, h2, h3⟩)

/-- a model the loader refuses with `LvsModelError` breaks a documented sanity rule (`StartId` present) -/
theorem load_modelError_not_sane (r : RawModel) (s : Nat) (hs : r.startId = some s) (h : loadRaw r = .error .modelError) :
    ¬ Sane { version := r.version, startId := s, namedCnt := r.namedCnt.getD 0, nodes := r.nodes } := by
  unfold loadRaw at h
  rw [hs] at h
  simp only [] at h
  split at h
  · rename_i e he
    injection h with h
    subst h
    exact (modelError_iff_not_sane _).mp he
  · cases h

/-- a root with three pattern edges to the same child -/
def dupEdges : Model :=
  { version := some maxVersion, startId := 0, namedCnt := 1,
    nodes := [
      { id := some 0, parent := none, ruleNames := [], vEdges := [],
        pEdges := [⟨some 1, some 1, []⟩, ⟨some 1, some 1, []⟩, ⟨some 1, some 1, []⟩], signCons := [] },
      { id := some 1, parent := some 0, ruleNames := ["#r"], vEdges := [], pEdges := [], signCons := [] }] }

/-- **why the bound is not a function of the number of nodes.**  The documented sanity rules do not forbid several edges
    to one destination: `dupEdges` has two nodes, three pattern edges on one of them, and is accepted; the search tries
    every edge, so the number of iterations grows with `maxPE`, whatever the number of nodes. -/
theorem bound_needs_maxPE :
    sanityCheck dupEdges = .ok () ∧ dupEdges.nodes.length = 2 ∧ maxPE dupEdges = 3 ∧
    (matchIter dupEdges Example.noFns [Example.cA] []).outs.length = 3 := by
  refine ⟨accepted_of _ (by decide) (by decide), rfl, by decide, by decide⟩

/-! ### non-vacuity -/

/-- the empty byte string: no `StartId` and no version → `LvsModelError` -/
example : loadBytes [] = .error (.lvs .modelError) := by
  have : (match loadBytes [] with | .error (.lvs .modelError) => true | _ => false) = true := by decide +kernel
  split at this
  · assumption
  · cases this
/-- a truncated element -/
example : ∃ e, loadBytes [0x61, 0x04, 0x00] = .error (.decode e) ∧ docErr e = true := by
  rcases load_total [0x61, 0x04, 0x00] with h | ⟨e, h, _⟩ | ⟨L, h, _⟩
  · exact h
  · have : (match loadBytes [0x61, 0x04, 0x00] with | .error (.decode _) => true | _ => false) = true := by decide +kernel
    rw [h] at this; cases this
  · have : (match loadBytes [0x61, 0x04, 0x00] with | .error (.decode _) => true | _ => false) = true := by decide +kernel
    rw [h] at this; cases this
/-- Version 0x00011000 and nothing else: version and node ids are in order, `StartId` is absent → `TypeError` -/
example : loadBytes [0x61, 0x04, 0x00, 0x01, 0x10, 0x00] = .error (.lvs .typeError) := by
  have : (match loadBytes [0x61, 0x04, 0x00, 0x01, 0x10, 0x00] with | .error (.lvs .typeError) => true | _ => false) = true := by
    decide +kernel
  split at this
  · assumption
  · cases this
/-- Version, StartId 0, NamedPatternCnt 0, one node with id 0: accepted -/
example : ∃ L, loadBytes [0x61, 0x04, 0x00, 0x01, 0x10, 0x00, 0x25, 0x01, 0x00, 0x69, 0x01, 0x00, 0x63, 0x03, 0x25, 0x01, 0x00]
    = .ok L ∧ L.model.nodes.length = 1 := by
  have : (match loadBytes [0x61, 0x04, 0x00, 0x01, 0x10, 0x00, 0x25, 0x01, 0x00, 0x69, 0x01, 0x00, 0x63, 0x03, 0x25, 0x01, 0x00] with
      | .ok L => decide (L.model.nodes.length = 1) | _ => false) = true := by decide +kernel
  split at this
  · rename_i L hL; exact ⟨L, hL, by simpa using this⟩
  · cases this

end Ndn.C13
