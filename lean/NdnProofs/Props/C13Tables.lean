import NdnModel.Lvs.Match
import NdnModel.Lvs.Compile
import NdnGen.C13
import NdnGen.C08
/-!
  C13 - the tables `lean/NdnGen/C13.lean` is regenerated with from `binary.py`, `checker.py` and `compiler.py` on every
  run, tied to the loader / compiler models (`NdnModel/Lvs/{Model,Match,Compile}.lean`).

  What the models write down as literals or as the shape of a function - the two version numbers, the field lists of
  the binary model classes, the list of conditions under which `_sanity_check` raises `LvsModelError`, the two ways
  `top_order` raises `SemanticError`, the six static errors of the compiler and the `except` tuple that turns a
  `KeyError` / `IndexError` into `SemanticError` - is pinned here to the generated value by a theorem that is closed by
  evaluation: a source edit that alters one of them changes the generated file and the theorem stops checking before
  any input is searched for.
-/
namespace Ndn.C13
open Ndn Ndn.Lvs

/-- **VERSION / MIN_SUPPORTED_VERSION**: the bounds `versionOK` tests are the live values of binary.py, and the
    compiler model stamps `VERSION` -/
theorem versions_table :
    minVersion = Gen.C13.minSupportedVersion ∧ maxVersion = Gen.C13.version ∧
    (∀ m : Model, versionOK m =
      match m.version with
      | none => false
      | some v => decide (Gen.C13.minSupportedVersion ≤ v) && decide (v ≤ Gen.C13.version)) ∧
    (∀ chains named m, buildModel chains named = .ok m → m.version = some Gen.C13.version) := by
  refine ⟨by decide, by decide, fun m => rfl, ?_⟩
  intro chains named m h
  unfold buildModel at h
  split at h
  · cases h
  · split at h
    · cases h
    · cases h; rfl

/-- Python class, attribute the harness exporter (`lvs_common.enc_model`) reads, TLV kind, Type number, and the field
    of the Lean structure (`NdnModel/Lvs/Model.lean`) that receives it (`-` = not represented: the symbol table only
    prints bindings) -/
def layout : List (String × List (String × String × Nat × String)) := [
  ("UserFnArg", [("value", "bytes", 0x21, "FnArg.value"), ("tag", "uint", 0x23, "FnArg.tag")]),
  ("UserFnCall", [("fn_id", "string", 0x27, "FnCall.fnId"), ("args", "rep-model:UserFnArg", 0x33, "FnCall.args")]),
  ("ConstraintOption", [("value", "bytes", 0x21, "ConsOption.value"), ("tag", "uint", 0x23, "ConsOption.tag"),
                        ("fn", "model:UserFnCall", 0x31, "ConsOption.fn")]),
  ("PatternConstraint", [("options", "rep-model:ConstraintOption", 0x41, "Constraint")]),
  ("PatternEdge", [("dest", "uint", 0x25, "PEdge.dest"), ("tag", "uint", 0x23, "PEdge.tag"),
                   ("cons_sets", "rep-model:PatternConstraint", 0x43, "PEdge.cons")]),
  ("ValueEdge", [("dest", "uint", 0x25, "VEdge.dest"), ("value", "bytes", 0x21, "VEdge.value")]),
  ("Node", [("id", "uint", 0x25, "Node.id"), ("parent", "uint", 0x57, "Node.parent"),
            ("rule_name", "rep-string", 0x29, "Node.ruleNames"), ("v_edges", "rep-model:ValueEdge", 0x51, "Node.vEdges"),
            ("p_edges", "rep-model:PatternEdge", 0x53, "Node.pEdges"), ("sign_cons", "rep-uint", 0x55, "Node.signCons")]),
  ("TagSymbol", [("tag", "uint", 0x23, "-"), ("ident", "string", 0x29, "-")]),
  ("LvsModel", [("version", "uint", 0x61, "Model.version"), ("start_id", "uint", 0x25, "Model.startId"),
                ("named_pattern_cnt", "uint", 0x69, "Model.namedCnt"), ("nodes", "rep-model:Node", 0x63, "Model.nodes"),
                ("symbols", "rep-model:TagSymbol", 0x67, "-")])]

/-- **binary model classes**: every class of binary.py, its fields in encoding order, their kinds and Type numbers are
    the ones the Lean structures are laid out after; the Type numbers are the members of `binary.TypeNumber`. -/
theorem binary_layout_table :
    Gen.C13.classes = layout.map (fun c => (c.1, c.2.map fun f => (f.1, f.2.1, f.2.2.1))) ∧
    Gen.C13.typeNumbers =
      [("COMPONENT_VALUE", 0x21), ("PATTERN_TAG", 0x23), ("NODE_ID", 0x25), ("USER_FN_ID", 0x27), ("IDENTIFIER", 0x29),
       ("USER_FN_CALL", 0x31), ("FN_ARGS", 0x33), ("CONS_OPTION", 0x41), ("CONSTRAINT", 0x43), ("VALUE_EDGE", 0x51),
       ("PATTERN_EDGE", 0x53), ("KEY_NODE_ID", 0x55), ("PARENT_ID", 0x57), ("VERSION", 0x61), ("NODE", 0x63),
       ("TAG_SYMBOL", 0x67), ("NAMED_PATTERN_NUM", 0x69)] ∧
    (∀ c ∈ Gen.C13.classes, ∀ f ∈ c.2, f.2.2 ∈ Gen.C13.typeNumbers.map (·.2)) := by
  refine ⟨by decide, by decide, by decide⟩

mutual
/-- a codec schema (C08) as a flat token list: nested models as `model … end`, a repeated field prefixed by `rep` -/
def flat : Codec.Schema → List (String × Nat)
  | .uint t _ => [("uint", t)]
  | .bool t => [("bool", t)]
  | .bytes t s => [(if s then "string" else "bytes", t)]
  | .name t => [("name", t)]
  | .model t fs _ => ("model", t) :: (flatL fs ++ [("end", t)])
  | .repeated e => ("rep", 0) :: flat e
  | .map k v => ("map", 0) :: (flat k ++ flat v)
  | .marker => [("marker", 0)]
def flatL : List Codec.Schema → List (String × Nat)
  | [] => []
  | s :: r => flat s ++ flatL r
end

/-- **the wire format of the model is a shipped C08 schema**: the `LvsModel` layout read from binary.py by this
    property's extractor is, token for token, the schema `binary_LvsModel` that C08's extractor ships (for which the TLV
    codec theorems of C08 are proved), and that schema is in C08's `shipped` list. -/
theorem binary_layout_is_shipped_schema :
    flatL Gen.C08.binary_LvsModel = Gen.C13.lvsModelTokens ∧
    (Gen.C08.shipped.map flatL).contains Gen.C13.lvsModelTokens = true := by
  refine ⟨by decide +kernel, by decide +kernel⟩

/-- **the loader's rule list**: every `raise` of `Checker._sanity_check` in source order - exception class, guard,
    message - with the model function that implements it:
    1 `versionOK`; 2 `idsOK` (every node of the array); 3-5 `dfs` / `nodeLocalOK` (index in range, id, parent);
    6 `vEdgeOK`; 7 `pEdgeOK`; 8-9 `optOK` (exactly one branch; a user function has an id); 10 the signer bound of
    `nodeLocalOK`.  All ten raise `LvsModelError` (`sanityCheck`: `.modelError`); then `top_order` is run on the
    signing relation and raises `SemanticError` in two ways (`signOK`: an edge outside the ids, `kahn` finds a loop). -/
theorem loader_rules_table :
    Gen.C13.loaderRaises = [
      ("LvsModelError", "self.model.version is None or not bny.MIN_SUPPORTED_VERSION <= self.model.version <= bny.VERSION",
        "Unsupported LVS model version {}"),
      ("LvsModelError", "node.id != idx", "Malformed node id {}"),
      ("LvsModelError", "cur >= len(self.model.nodes)", "Non-existing node id {}"),
      ("LvsModelError", "node.id != cur", "Malformed node id {}"),
      ("LvsModelError", "node.parent != par", "Node {} has a wrong parent"),
      ("LvsModelError", "ve.dest is None or not ve.value", "Node {} has a malformed edge"),
      ("LvsModelError", "pe.dest is None or pe.tag is None", "Node {} has a malformed edge"),
      ("LvsModelError", "branch != 1", "Edge {}->{} has a malformed condition"),
      ("LvsModelError", "not op.fn.fn_id", "Edge {}->{} has a malformed condition"),
      ("LvsModelError", "key_node_id >= len(self.model.nodes)", "Node {} is signed by a non-existing key {}")] ∧
    Gen.C13.loaderCalls = ["dfs(self.model.start_id, None)", "top_order(nodes_id_lst, adj_lst)"] ∧
    Gen.C13.topOrderRaises = [
      ("SemanticError", "src not in nodes or dst not in nodes", "Reference relation {}->{} refers to a not existing identifier"),
      ("SemanticError", "not cur_round", "Loop detected for {}")] ∧
    LvsErr.modelError.name = "LvsModelError" ∧ LvsErr.semanticError.name = "SemanticError" := by
  refine ⟨by decide, by decide, by decide, by decide, by decide⟩

/-- **the compiler's static errors**: every `raise` of the methods of `Compiler` in source order - method, class,
    guard - with the model function that implements it: `badRef` (undefined rule / temporary rule referenced,
    `sortRuleReferences`), `numRhs` (a temporary pattern as option / as argument; an unknown pattern: the `KeyError` /
    `IndexError` of the dictionary look-ups, caught by the one `except` clause of the module and re-raised),
    `signersOfStr` (undefined signer).  All are `SemanticError` (`CErr.semantic`); the reference cycle is `top_order`'s
    second `raise`.  The only exception classes the two modules define are `SemanticError` and `LvsModelError`. -/
theorem compiler_errors_table :
    Gen.C13.compilerRaises = [
      ("_sort_rule_references", "SemanticError", "c.id not in rule_id_set", "Rule {} refers to a non-existing rule {}"),
      ("_sort_rule_references", "SemanticError", "c.id[1] == '_'", "Rule {} refers to a temporary rule {}"),
      ("_gen_pattern_numbers", "SemanticError", "not (op.id[0] != '_')",
        "Temporary pattern {} cannot be used on the right hand side of any pattern constraint"),
      ("_gen_pattern_numbers", "SemanticError", "not (arg.id[0] != '_')",
        "Temporary pattern {} cannot be used on the right hand side of any pattern constraint"),
      ("_gen_pattern_numbers", "SemanticError", "except IndexError|KeyError", "Pattern {} never occurs before."),
      ("_fix_signing_references", "SemanticError", "rid not in self.rule_node_ids", "Signed by a non-existing key {}")] ∧
    Gen.C13.compilerExcepts = [("_gen_pattern_numbers", ["IndexError", "KeyError"])] ∧
    Gen.C13.exceptionClasses = [("SemanticError", ["Exception"]), ("LvsModelError", ["Exception"])] ∧
    CErr.semantic.name = "SemanticError" := by
  refine ⟨by decide, by decide, by decide, by decide⟩

end Ndn.C13
